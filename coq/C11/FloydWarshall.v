(* C11 model of solvor/floyd_warshall.py: floyd_warshall() (pure Python back-end).  Definitions only.
   dist matrix of floats -> list (list (option Z)) (None = inf; inf + x = inf, never < anything).
   ValueError inputs (n_nodes <= 0, endpoint out of range) -> Error. *)
From Coq Require Import List ZArith Bool Arith.
From SV Require Import C11.Paths.
Import ListNotations.
Open Scope Z_scope.

Module FW.

Definition mat := list (list (option Z)).

Inductive result :=
| Error
| Unbounded                 (* None, -inf, UNBOUNDED: some dist[i][i] < 0 *)
| Dist (m : mat).           (* the matrix, objective 0 *)

Fixpoint set_nth {A} (i : nat) (x : A) (l : list A) : list A :=
  match l, i with
  | [], _ => []
  | _ :: t, O => x :: t
  | h :: t, S k => h :: set_nth k x t
  end.

Definition get (m : mat) (i j : nat) : option Z := nth j (nth i m []) None.
Definition set (m : mat) (i j : nat) (x : option Z) : mat := set_nth i (set_nth j x (nth i m [])) m.

Definition init (n : nat) : mat :=
  map (fun i => map (fun j => if Nat.eqb i j then Some 0 else None) (seq 0 n)) (seq 0 n).

(* min(dist[u][v], w) *)
Definition min_inf (a : option Z) (w : Z) : option Z :=
  match a with None => Some w | Some x => Some (Z.min x w) end.

Definition add_edge (directed : bool) (m : mat) (e : nat * nat * Z) : mat :=
  let '(u, v, w) := e in
  let m1 := set m u v (min_inf (get m u v) w) in
  if directed then m1 else set m1 v u (min_inf (get m1 v u) w).

Definition lt_inf (a : Z) (b : option Z) : bool :=
  match b with None => true | Some y => a <? y end.

(* if dist[i][k] + dist[k][j] < dist[i][j]: dist[i][j] = dist[i][k] + dist[k][j] *)
Definition step (k i j : nat) (m : mat) : mat :=
  match get m i k, get m k j with
  | Some a, Some b => if lt_inf (a + b) (get m i j) then set m i j (Some (a + b)) else m
  | _, _ => m
  end.

Definition loop_j (n k i : nat) (m : mat) : mat := fold_left (fun m j => step k i j m) (seq 0 n) m.
Definition loop_i (n k : nat) (m : mat) : mat := fold_left (fun m i => loop_j n k i m) (seq 0 n) m.
Definition loop_k (n : nat) (m : mat) : mat := fold_left (fun m k => loop_i n k m) (seq 0 n) m.

Definition neg_diag (n : nat) (m : mat) : bool :=
  existsb (fun i => match get m i i with Some x => x <? 0 | None => false end) (seq 0 n).

Definition edge_ok (n : nat) (e : nat * nat * Z) : bool :=
  let '(u, v, _) := e in Nat.ltb u n && Nat.ltb v n.

Definition valid_input (n : nat) (edges : wgraph) : bool := Nat.ltb 0 n && forallb (edge_ok n) edges.

Definition init_edges (n : nat) (edges : wgraph) (directed : bool) : mat :=
  fold_left (add_edge directed) edges (init n).

Definition final (n : nat) (edges : wgraph) (directed : bool) : mat :=
  loop_k n (init_edges n edges directed).

Definition floyd_warshall (n : nat) (edges : wgraph) (directed : bool) : result :=
  if negb (valid_input n edges) then Error else
  let m := final n edges directed in
  if neg_diag n m then Unbounded else Dist m.

(* the graph the result talks about when directed = False *)
Definition sym (edges : wgraph) : wgraph :=
  flat_map (fun e => let '(u, v, w) := e in [(u, v, w); (v, u, w)]) edges.

Definition graph_of (edges : wgraph) (directed : bool) : wgraph := if directed then edges else sym edges.

(* ---- observable comparison ---- *)
Definition oz_eqb (a b : option Z) : bool :=
  match a, b with None, None => true | Some x, Some y => Z.eqb x y | _, _ => false end.
Fixpoint row_eqb (a b : list (option Z)) : bool :=
  match a, b with [], [] => true | x :: xs, y :: ys => oz_eqb x y && row_eqb xs ys | _, _ => false end.
Fixpoint mat_eqb (a b : mat) : bool :=
  match a, b with [], [] => true | x :: xs, y :: ys => row_eqb x y && mat_eqb xs ys | _, _ => false end.

Definition result_eqb (a b : result) : bool :=
  match a, b with
  | Error, Error | Unbounded, Unbounded => true
  | Dist m, Dist m' => mat_eqb m m'
  | _, _ => false
  end.

End FW.
