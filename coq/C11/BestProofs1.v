(* C11 part B - invariant of the generic best-first loop and the path theorem:
   every returned path is a real walk from the start to a goal node whose weights sum to the objective.
   No assumption on weights, heuristic, limits or the cost type (any C, cadd; also floats). *)
From Coq Require Import List ZArith Bool Arith Lia.
From SV Require Import C11.BestFirst C11.BestSpec.
Import ListNotations.

Section Assoc.
  Context {A B : Type}.
  Variable eqb : A -> A -> bool.
  Hypothesis eqb_spec : forall a b, eqb a b = true <-> a = b.

  Lemma eqb_refl : forall a, eqb a a = true.
  Proof. intros a. apply eqb_spec. reflexivity. Qed.

  Lemma eqb_neq : forall a b, a <> b -> eqb a b = false.
  Proof. intros a b H. destruct (eqb a b) eqn:E; [|reflexivity]. apply eqb_spec in E. contradiction. Qed.

  Lemma eqb_dec : forall a b : A, a = b \/ a <> b.
  Proof. intros a b. destruct (eqb a b) eqn:E; [left; apply eqb_spec; exact E|right; intros H; apply eqb_spec in H; congruence]. Qed.

  Lemma lookup_cons_eq : forall k (v : B) l, lookup eqb k ((k, v) :: l) = Some v.
  Proof. intros. simpl. rewrite eqb_refl. reflexivity. Qed.

  Lemma lookup_cons_neq : forall k k' (v : B) l, k <> k' -> lookup eqb k ((k', v) :: l) = lookup eqb k l.
  Proof. intros. simpl. rewrite eqb_neq by assumption. reflexivity. Qed.

  Lemma memb_In : forall k l, memb eqb k l = true <-> In k l.
  Proof.
    intros k l. induction l as [|x l IH]; simpl.
    - split; [discriminate|tauto].
    - destruct (eqb k x) eqn:E.
      + apply eqb_spec in E. subst. tauto.
      + rewrite IH. split; [tauto|]. intros [H|H]; [|assumption]. subst. rewrite eqb_refl in E. discriminate.
  Qed.

  Lemma memb_cons : forall k x l, memb eqb k l = true -> memb eqb k (x :: l) = true.
  Proof. intros k x l H. simpl. destruct (eqb k x); auto. Qed.
End Assoc.

Section Proofs.
  Context {N C K : Type}.
  Variable neqb : N -> N -> bool.
  Hypothesis neqb_spec : forall a b, neqb a b = true <-> a = b.
  Variable czero : C.
  Variable cadd : C -> C -> C.
  Variable cltb : C -> C -> bool.
  Variable kltb : K -> K -> bool.
  Variable mkkey : C -> N -> K.
  Variable limit_of : K -> C -> C.
  Variable found_status : status.
  Variable nbrs : N -> list (N * C).
  Variable is_goal : N -> bool.
  Variable max_iter : Z.
  Variable max_cost : option C.
  Variable start : N.

  Notation lw := (lwalk cadd nbrs).
  Notation st := (@st N C K).
  Notation relax := (relax neqb cadd cltb kltb mkkey).
  Notation expand := (expand neqb cadd cltb kltb mkkey nbrs).
  Notation loop := (loop neqb cadd cltb kltb mkkey limit_of found_status nbrs is_goal max_iter max_cost).
  Notation lk := (lookup neqb).
  Notation mem := (memb neqb).

  (* ---- following parent pointers ---- *)
  Inductive anc (par : list (N * N)) : N -> list N -> Prop :=
  | anc_root : forall v, lk v par = None -> anc par v [v]
  | anc_step : forall v p l, lk v par = Some p -> anc par p l -> anc par v (l ++ [v]).

  Lemma anc_fun : forall par v l1, anc par v l1 -> forall l2, anc par v l2 -> l1 = l2.
  Proof.
    intros par v l1 H. induction H as [v Hv|v p l Hv Hp IH]; intros l2 H2; inversion H2; subst; try congruence.
    rewrite Hv in H. inversion H; subst. f_equal. apply IH. assumption.
  Qed.

  Lemma anc_ext : forall par u l v c, anc par u l -> ~ In v l -> anc ((v, c) :: par) u l.
  Proof.
    intros par u l v c H. induction H as [u Hu|u p l Hu Hp IH]; intros Hn.
    - apply anc_root. rewrite (lookup_cons_neq neqb neqb_spec); [assumption|]. intros E. apply Hn. left. auto.
    - apply anc_step with p.
      + rewrite (lookup_cons_neq neqb neqb_spec); [assumption|]. intros E. apply Hn. apply in_or_app. right. left. auto.
      + apply IH. intros Hi. apply Hn. apply in_or_app. left. assumption.
  Qed.

  Lemma recon_anc : forall fuel par cur acc l,
    recon neqb fuel par cur acc = Some l -> exists l0, anc par cur l0 /\ l = l0 ++ acc.
  Proof.
    induction fuel as [|f IH]; intros par cur acc l H; simpl in H; [discriminate|].
    destruct (lk cur par) as [p|] eqn:E.
    - apply IH in H. destruct H as [l0 [Ha Hl]]. exists (l0 ++ [cur]). split.
      + apply anc_step with p; assumption.
      + rewrite <- app_assoc. assumption.
    - inversion H; subst. exists [cur]. split; [apply anc_root; assumption|reflexivity].
  Qed.

  Lemma lw_app : forall u a q t d v w, lw u a q t d -> In (v, w) (nbrs t) -> lw u a (q ++ [v]) v (cadd d w).
  Proof.
    intros u a q t d v w H. induction H as [u a|u a v' w' q t d Hin Hw IH]; intros Hv; simpl.
    - econstructor; [eassumption|constructor].
    - econstructor; [eassumption|]. apply IH. assumption.
  Qed.

  Ltac ssimpl := cbn [s_g s_parent s_closed s_counter s_heap s_evals].

  (* ---- the invariant ---- *)
  Record inv1 (s : st) : Prop := {
    i_start_g : lk start (s_g s) = Some czero;
    i_start_par : lk start (s_parent s) = None;
    i_start_closed : mem start (s_closed s) = true;
    i_par : forall v p, lk v (s_parent s) = Some p ->
              mem p (s_closed s) = true /\
              exists gp w, lk p (s_g s) = Some gp /\ In (v, w) (nbrs p) /\ lk v (s_g s) = Some (cadd gp w);
    i_haspar : forall v gv, lk v (s_g s) = Some gv -> v = start \/ exists p, lk v (s_parent s) = Some p;
    i_tree : forall p gp, mem p (s_closed s) = true -> lk p (s_g s) = Some gp ->
              exists q, anc (s_parent s) p (start :: q) /\ lw start czero q p gp /\
                        Forall (fun x => mem x (s_closed s) = true) (start :: q)
  }.

  Lemma relax_closed : forall cur gcur s nb, s_closed (relax cur gcur s nb) = s_closed s.
  Proof.
    intros cur gcur s [v w]. unfold BestFirst.relax.
    destruct (mem v (s_closed s)); [reflexivity|].
    destruct (match lk v (s_g s) with Some gv => cltb (cadd gcur w) gv | None => true end); reflexivity.
  Qed.

  Lemma relax_inv1 : forall cur gcur s nb,
    inv1 s -> mem cur (s_closed s) = true -> lk cur (s_g s) = Some gcur -> In nb (nbrs cur) ->
    inv1 (relax cur gcur s nb) /\ lk cur (s_g (relax cur gcur s nb)) = Some gcur.
  Proof.
    intros cur gcur s [v w] I Hc Hg Hin. unfold BestFirst.relax.
    destruct (mem v (s_closed s)) eqn:Ev; [split; assumption|].
    destruct (match lk v (s_g s) with Some gv => cltb (cadd gcur w) gv | None => true end); [|split; assumption].
    assert (Hvc : v <> cur) by (intros E; subst; congruence).
    assert (Hvs : v <> start) by (intros E; subst; rewrite (i_start_closed _ I) in Ev; discriminate).
    assert (Hnc : forall x, mem x (s_closed s) = true -> x <> v) by (intros x Hx E; subst; congruence).
    split.
    2:{ ssimpl. rewrite (lookup_cons_neq neqb neqb_spec); auto. }
    constructor; ssimpl.
    - rewrite (lookup_cons_neq neqb neqb_spec); auto. apply (i_start_g _ I).
    - rewrite (lookup_cons_neq neqb neqb_spec); auto. apply (i_start_par _ I).
    - apply (i_start_closed _ I).
    - intros u p Hu. destruct (eqb_dec neqb neqb_spec u v) as [E|E].
      + subst u. rewrite (lookup_cons_eq neqb neqb_spec) in Hu. inversion Hu; subst p.
        split; [assumption|]. exists gcur, w. repeat split.
        * rewrite (lookup_cons_neq neqb neqb_spec); auto.
        * assumption.
        * apply (lookup_cons_eq neqb neqb_spec).
      + rewrite (lookup_cons_neq neqb neqb_spec) in Hu by assumption.
        destruct (i_par _ I _ _ Hu) as [Hpc [gp [w' [H1 [H2 H3]]]]].
        split; [assumption|]. exists gp, w'. repeat split.
        * rewrite (lookup_cons_neq neqb neqb_spec); auto.
        * assumption.
        * rewrite (lookup_cons_neq neqb neqb_spec); auto.
    - intros u gu Hu. destruct (eqb_dec neqb neqb_spec u v) as [E|E].
      + subst u. right. exists cur. apply (lookup_cons_eq neqb neqb_spec).
      + rewrite (lookup_cons_neq neqb neqb_spec) in Hu by assumption.
        destruct (i_haspar _ I _ _ Hu) as [H|[p Hp]]; [left; assumption|].
        right. exists p. rewrite (lookup_cons_neq neqb neqb_spec); auto.
    - intros p gp Hp Hgp.
      rewrite (lookup_cons_neq neqb neqb_spec) in Hgp by (apply Hnc; assumption).
      destruct (i_tree _ I _ _ Hp Hgp) as [q [Ha [Hw Hf]]].
      exists q. repeat split; try assumption.
      apply anc_ext; [assumption|].
      intros Hi. rewrite Forall_forall in Hf. specialize (Hf _ Hi). congruence.
  Qed.

  Lemma fold_relax_inv1 : forall cur gcur l s,
    incl l (nbrs cur) -> inv1 s -> mem cur (s_closed s) = true -> lk cur (s_g s) = Some gcur ->
    inv1 (fold_left (relax cur gcur) l s).
  Proof.
    intros cur gcur l. induction l as [|nb l IH]; intros s Hl I Hc Hg; simpl; [assumption|].
    destruct (relax_inv1 cur gcur s nb I Hc Hg) as [I' Hg']; [apply Hl; left; reflexivity|].
    apply IH; try assumption.
    - intros x Hx. apply Hl. right. assumption.
    - rewrite relax_closed. assumption.
  Qed.

  Lemma expand_inv1 : forall cur gcur s,
    inv1 s -> mem cur (s_closed s) = true -> lk cur (s_g s) = Some gcur -> inv1 (expand cur gcur s).
  Proof. intros. apply fold_relax_inv1; auto. apply incl_refl. Qed.

  (* popping an entry and closing the node *)
  Lemma close_inv1 : forall s cur gcur h',
    inv1 s -> mem cur (s_closed s) = false -> lk cur (s_g s) = Some gcur ->
    inv1 (mkSt (s_g s) (s_parent s) (cur :: s_closed s) (s_counter s) h' (s_evals s)).
  Proof.
    intros s cur gcur h' I Hc Hg.
    assert (Hmono : forall x, mem x (s_closed s) = true -> mem x (cur :: s_closed s) = true)
      by (intros; apply memb_cons; assumption).
    constructor; simpl.
    - apply (i_start_g _ I).
    - apply (i_start_par _ I).
    - apply Hmono, (i_start_closed _ I).
    - intros v p Hv. destruct (i_par _ I _ _ Hv) as [H1 H2]. split; [apply Hmono; assumption|assumption].
    - apply (i_haspar _ I).
    - intros p gp Hp Hgp.
      destruct (neqb p cur) eqn:E.
      + apply neqb_spec in E. subst p.
        destruct (i_haspar _ I _ _ Hg) as [Hs|[p Hp']].
        { subst. rewrite (i_start_closed _ I) in Hc. discriminate. }
        destruct (i_par _ I _ _ Hp') as [Hpc [gp' [w [H1 [H2 H3]]]]].
        destruct (i_tree _ I _ _ Hpc H1) as [q [Ha [Hw Hf]]].
        exists (q ++ [cur]). rewrite Hgp in Hg. inversion Hg; subst gp. rewrite H3 in Hgp. inversion Hgp; subst gcur.
        repeat split.
        * change (start :: q ++ [cur]) with ((start :: q) ++ [cur]). apply anc_step with p; assumption.
        * eapply lw_app; eassumption.
        * change (start :: q ++ [cur]) with ((start :: q) ++ [cur]). apply Forall_app. split.
          -- eapply Forall_impl; [|exact Hf]. simpl. intros a Ha'. destruct (neqb a cur); auto.
          -- constructor; [|constructor]. simpl. rewrite (eqb_refl neqb neqb_spec). reflexivity.
      + destruct (i_tree _ I _ _ Hp Hgp) as [q [Ha [Hw Hf]]].
        exists q. repeat split; try assumption.
        eapply Forall_impl; [|exact Hf]. simpl. intros a Ha'. destruct (neqb a cur); auto.
  Qed.

  (* ---- what a result must look like ---- *)
  Definition res_ok (r : result N C) : Prop :=
    match r_path r with
    | Some p => exists d, r_obj r = Some d /\ path_spec cadd nbrs czero start is_goal p d /\ r_status r = found_status
    | None => r_obj r = None /\ (r_status r = INFEASIBLE \/ r_status r = MAX_ITER)
    end.

  Lemma finish_ok : forall iters (s : st), res_ok (finish max_iter iters s).
  Proof.
    intros. unfold res_ok, finish. simpl. split; [reflexivity|].
    destruct (max_iter <=? iters)%Z; auto.
  Qed.

  Lemma goal_ok : forall s cur gcur p,
    inv1 s -> mem cur (s_closed s) = true -> lk cur (s_g s) = Some gcur -> is_goal cur = true ->
    reconstruct_path neqb (s_parent s) cur = Some p ->
    path_spec cadd nbrs czero start is_goal p gcur.
  Proof.
    intros s cur gcur p I Hc Hg Hgoal Hr.
    unfold reconstruct_path in Hr. apply recon_anc in Hr. destruct Hr as [l0 [Ha Hl]].
    rewrite app_nil_r in Hl. subst l0.
    destruct (i_tree _ I _ _ Hc Hg) as [q [Ha' [Hw Hf]]].
    rewrite (anc_fun _ _ _ Ha _ Ha'). exists q, cur. auto.
  Qed.

  Lemma loop_inv1 : forall fuel s iters r, inv1 s -> loop fuel s iters = Some r -> res_ok r.
  Proof.
    induction fuel as [|f IH]; intros s iters r I H; [discriminate|].
    simpl in H.
    destruct (s_heap s) as [|[[k c] cur] h'] eqn:Eh.
    { inversion H; subst. apply finish_ok. }
    destruct (negb (iters <? max_iter)%Z).
    { inversion H; subst. apply finish_ok. }
    destruct (mem cur (s_closed s)) eqn:Ec.
    { apply IH in H; [assumption|]. destruct I; constructor; assumption. }
    destruct (lk cur (s_g s)) as [gcur|] eqn:Eg; [|discriminate].
    pose proof (close_inv1 s cur gcur h' I Ec Eg) as I2.
    set (s2 := mkSt (s_g s) (s_parent s) (cur :: s_closed s) (s_counter s) h' (s_evals s)) in *.
    assert (Hc2 : mem cur (s_closed s2) = true) by (simpl; rewrite (eqb_refl neqb neqb_spec); reflexivity).
    destruct (is_goal cur) eqn:Egoal.
    - destruct (reconstruct_path neqb (s_parent s) cur) as [p|] eqn:Er; [|discriminate].
      inversion H; subst. unfold res_ok. simpl. exists gcur. repeat split.
      apply (goal_ok s2 cur gcur p I2 Hc2 Eg Egoal Er).
    - destruct (over_limit cltb limit_of max_cost k gcur).
      + apply IH in H; assumption.
      + apply IH in H; [assumption|]. apply expand_inv1; assumption.
  Qed.

  Theorem best_first_path_valid : forall fuel r,
    best_first neqb czero cadd cltb kltb mkkey limit_of found_status nbrs is_goal max_iter max_cost fuel start = Some r ->
    res_ok r.
  Proof.
    intros fuel r H. unfold best_first in H. destruct fuel as [|f]; [discriminate|].
    simpl in H.
    destruct (negb (0 <? max_iter)%Z).
    { inversion H; subst. apply finish_ok. }
    rewrite (eqb_refl neqb neqb_spec) in H.
    set (s2 := mkSt [(start, czero)] [] [start] 1 [] 1 : st) in *.
    assert (I2 : inv1 s2).
    { constructor; simpl.
      - rewrite (eqb_refl neqb neqb_spec). reflexivity.
      - reflexivity.
      - rewrite (eqb_refl neqb neqb_spec). reflexivity.
      - intros; discriminate.
      - intros v gv Hv. destruct (neqb v start) eqn:E; [left; apply neqb_spec; assumption|discriminate].
      - intros p gp Hp Hgp. destruct (neqb p start) eqn:E; [|discriminate].
        apply neqb_spec in E. subst p. inversion Hgp; subst.
        exists []. repeat split.
        + apply anc_root. reflexivity.
        + constructor.
        + constructor; [|constructor]. simpl. rewrite (eqb_refl neqb neqb_spec). reflexivity. }
    destruct (is_goal start) eqn:Egoal.
    - simpl in H. inversion H; subst. unfold res_ok. simpl. exists czero. repeat split.
      exists [], start. repeat split; [constructor|assumption].
    - destruct (over_limit cltb limit_of max_cost (mkkey czero start) czero).
      + eapply loop_inv1; eassumption.
      + eapply loop_inv1; [|eassumption]. apply expand_inv1; try assumption.
        * simpl. rewrite (eqb_refl neqb neqb_spec). reflexivity.
        * simpl. rewrite (eqb_refl neqb neqb_spec). reflexivity.
  Qed.
End Proofs.
