(* C11 part B - the edge list (shared spec C11.Paths.wgraph) of an adjacency-list input, and the statements of the
   instance theorems in the vocabulary of C11.Paths (walk, reachable, is_dist).  Definitions only. *)
From Coq Require Import List ZArith Bool Arith.
From SV Require Import C11.Paths C11.BestFirst C11.BestGrid C11.BestSpec.
Import ListNotations.
Open Scope Z_scope.

Fixpoint edges_from (u : nat) (adj : adjacency) : wgraph :=
  match adj with
  | [] => []
  | l :: rest => map (fun e : nat * Z => (u, fst e, snd e)) l ++ edges_from (S u) rest
  end.
Definition adj_edges (adj : adjacency) : wgraph := edges_from 0 adj.

(* a Result of dijkstra / astar on a graph: a path is a walk of the edge list from start to a goal node whose
   weight is the objective; no path means no objective and status INFEASIBLE or MAX_ITER *)
Definition graph_res_ok (adj : adjacency) (start : nat) (goals : list nat) (found : status) (r : result nat Z) : Prop :=
  match r_path r with
  | Some p => exists d t, r_obj r = Some d /\ walk (adj_edges adj) start t p d /\ goal_in goals t = true
                          /\ r_status r = found
  | None => r_obj r = None /\ (r_status r = INFEASIBLE \/ r_status r = MAX_ITER)
  end.

Definition no_goal_reachable (adj : adjacency) (start : nat) (goals : list nat) : Prop :=
  forall t, goal_in goals t = true -> ~ reachable (adj_edges adj) start t.

(* the exact grid graph of astar_grid *)
Definition zr_grid_nbrs (g : grid) (directions : Z) (blocked : list Z) (cost_map : list (Z * Z)) : cell -> list (cell * zr2) :=
  grid_nbrs (1, 0) zr_of_Z zr_mul_sqrt2 g (dirs_of directions) blocked cost_map.

Definition grid_res_ok (g : grid) (start goal : cell) (directions : Z) (blocked : list Z) (cost_map : list (Z * Z))
           (weight : Z) (r : result cell zr2) : Prop :=
  match r_path r with
  | Some p => exists d, r_obj r = Some d
                /\ path_spec zr_add (zr_grid_nbrs g directions blocked cost_map) zr_zero start (cell_eqb goal) p d
                /\ r_status r = (if weight =? 1 then OPTIMAL else FEASIBLE)
  | None => r_obj r = None /\ (r_status r = INFEASIBLE \/ r_status r = MAX_ITER)
  end.
