(* C11 deepening (2) - completeness of the best-first search on graphs (dijkstra / astar, any heuristic, any
   weights): without a max_cost limit and unless the run stops with MAX_ITER,
       status INFEASIBLE  <->  no goal node is reachable,
   and a reachable goal makes the model return a path.  MAX_ITER cannot occur when max_iter exceeds the number of
   distinct nodes of the input (each node is closed at most once: iterations <= |nodes|).
   The direction INFEASIBLE -> unreachable is BestProofs2; the rest follows from it, the path theorem
   (BestProofs1) and the iteration bound (DeepBestUniv). *)
From Coq Require Import List ZArith Bool Arith Lia.
From SV Require Import C11.Paths C11.BestFirst C11.BestSpec C11.BestGraph C11.BestProofs1 C11.BestProofs2
  C11.BestProofsInst C11.BestProofs6 C11.BestGrid C11.DeepBestUniv C11.DeepBestGrid.
Import ListNotations.
Open Scope Z_scope.

(* the distinct nodes a run can ever see: the start and the edge targets *)
Definition graph_nodes (adj : adjacency) (start : nat) : list nat :=
  nodup Nat.eq_dec (start :: map fst (concat adj)).

(* boolean input condition: max_iter cannot interfere (the default 1_000_000 on any graph below 10^6 nodes) *)
Definition iter_limit_free (adj : adjacency) (start : nat) (max_iter : Z) : bool :=
  Z.of_nat (length (graph_nodes adj start)) <? max_iter.

Lemma adj_nbrs_target : forall adj u v w, In (v, w) (adj_nbrs adj u) -> In v (map fst (concat adj)).
Proof.
  intros adj u v w H. unfold adj_nbrs in H.
  destruct (Nat.lt_ge_cases u (length adj)) as [Hu|Hu].
  - apply in_map_iff. exists (v, w). split; [reflexivity|]. apply in_concat. exists (nth u adj []).
    split; [apply nth_In; assumption|assumption].
  - rewrite nth_overflow in H by assumption. destruct H.
Qed.

Lemma graph_nodes_closed : forall adj start u v w, In (v, w) (adj_nbrs adj u) -> In v (graph_nodes adj start).
Proof. intros. unfold graph_nodes. apply nodup_In. right. eapply adj_nbrs_target. eassumption. Qed.

Lemma graph_nodes_start : forall adj start, In start (graph_nodes adj start).
Proof. intros. unfold graph_nodes. apply nodup_In. left. reflexivity. Qed.

(* a returned path, in the vocabulary of C11.Paths *)
Definition graph_found (adj : adjacency) (start : nat) (goals : list nat) (found : status) (r : result nat Z) : Prop :=
  exists p d t, r_path r = Some p /\ r_obj r = Some d /\ walk (adj_edges adj) start t p d
                /\ goal_in goals t = true /\ r_status r = found.

Definition some_goal_reachable (adj : adjacency) (start : nat) (goals : list nat) : Prop :=
  exists t, goal_in goals t = true /\ reachable (adj_edges adj) start t.

Definition complete_ok (adj : adjacency) (start : nat) (goals : list nat) (found : status) (r : result nat Z) : Prop :=
  (r_status r = INFEASIBLE <-> no_goal_reachable adj start goals)
  /\ (some_goal_reachable adj start goals <-> graph_found adj start goals found r).

Lemma complete_of : forall adj start goals found (r : result nat Z),
  graph_res_ok adj start goals found r ->
  (r_status r = INFEASIBLE -> no_goal_reachable adj start goals) ->
  found <> INFEASIBLE -> r_status r <> MAX_ITER ->
  complete_ok adj start goals found r.
Proof.
  intros adj start goals found r Hok Hinf Hf Hm. unfold graph_res_ok in Hok. split; [split|split].
  - exact Hinf.
  - intros Hno. destruct (r_path r) as [p|].
    + destruct Hok as [d [t [_ [Hw [Hg _]]]]]. exfalso. apply (Hno t Hg). exists p, d. assumption.
    + destruct Hok as [_ [H|H]]; [assumption|contradiction].
  - intros [t [Hg Hr]]. destruct (r_path r) as [p|] eqn:Ep.
    + destruct Hok as [d [t' [Hd [Hw [Hg' Hs]]]]]. exists p, d, t'. repeat split; assumption.
    + destruct Hok as [_ [H|H]]; [|contradiction]. exfalso. apply (Hinf H t Hg Hr).
  - intros [p [d [t [_ [_ [Hw [Hg _]]]]]]]. exists t. split; [assumption|]. exists p, d. assumption.
Qed.

(* ---- MAX_ITER needs max_iter <= number of nodes ---- *)
Lemma dijkstra_iters : forall fuel adj start goals max_iter max_cost r,
  dijkstra_gen fuel adj start goals max_iter max_cost = Some r ->
  r_iters r <= Z.of_nat (length (graph_nodes adj start)) /\
  (r_status r = MAX_ITER -> max_iter <= Z.of_nat (length (graph_nodes adj start))).
Proof.
  intros fuel adj start goals max_iter max_cost r H. unfold dijkstra_gen, dijkstra_c in H.
  eapply (best_first_iters_U Nat.eqb nat_eqb_spec) with (U := graph_nodes adj start) in H.
  - destruct H as [H1 H2]. split; [exact H1|]. apply H2. discriminate.
  - apply graph_nodes_start.
  - intros u v w Hin. eapply graph_nodes_closed. eassumption.
Qed.

Lemma astar_iters : forall fuel adj start goals htab weight max_iter max_cost r,
  astar_gen fuel adj start goals htab weight max_iter max_cost = Some r ->
  r_iters r <= Z.of_nat (length (graph_nodes adj start)) /\
  (r_status r = MAX_ITER -> max_iter <= Z.of_nat (length (graph_nodes adj start))).
Proof.
  intros fuel adj start goals htab weight max_iter max_cost r H. unfold astar_gen, astar_c in H.
  eapply (best_first_iters_U Nat.eqb nat_eqb_spec) with (U := graph_nodes adj start) in H.
  - destruct H as [H1 H2]. split; [exact H1|]. apply H2. destruct (weight =? 1); discriminate.
  - apply graph_nodes_start.
  - intros u v w Hin. eapply graph_nodes_closed. eassumption.
Qed.

(* ---- completeness, any max_iter, for runs that do not end in MAX_ITER ---- *)
Theorem dijkstra_complete_cond : forall fuel adj start goals max_iter r,
  dijkstra_gen fuel adj start goals max_iter None = Some r -> r_status r <> MAX_ITER ->
  complete_ok adj start goals OPTIMAL r.
Proof.
  intros fuel adj start goals max_iter r H Hm. apply complete_of.
  - eapply dijkstra_path_valid. eassumption.
  - eapply dijkstra_infeasible_sound. eassumption.
  - discriminate.
  - assumption.
Qed.

Theorem astar_complete_cond : forall fuel adj start goals htab weight max_iter r,
  astar_gen fuel adj start goals htab weight max_iter None = Some r -> r_status r <> MAX_ITER ->
  complete_ok adj start goals (if weight =? 1 then OPTIMAL else FEASIBLE) r.
Proof.
  intros fuel adj start goals htab weight max_iter r H Hm. apply complete_of.
  - eapply astar_path_valid. eassumption.
  - eapply astar_infeasible_sound. eassumption.
  - destruct (weight =? 1); discriminate.
  - assumption.
Qed.

(* ---- completeness under the boolean no-limit condition ---- *)
Theorem dijkstra_complete : forall fuel adj start goals max_iter r,
  iter_limit_free adj start max_iter = true ->
  dijkstra_gen fuel adj start goals max_iter None = Some r ->
  r_status r <> MAX_ITER /\ complete_ok adj start goals OPTIMAL r.
Proof.
  intros fuel adj start goals max_iter r Hl H.
  assert (Hm : r_status r <> MAX_ITER).
  { intros E. destruct (dijkstra_iters _ _ _ _ _ _ _ H) as [_ H2]. specialize (H2 E).
    unfold iter_limit_free in Hl. apply Z.ltb_lt in Hl. lia. }
  split; [assumption|]. eapply dijkstra_complete_cond; eassumption.
Qed.

Theorem astar_complete : forall fuel adj start goals htab weight max_iter r,
  iter_limit_free adj start max_iter = true ->
  astar_gen fuel adj start goals htab weight max_iter None = Some r ->
  r_status r <> MAX_ITER /\ complete_ok adj start goals (if weight =? 1 then OPTIMAL else FEASIBLE) r.
Proof.
  intros fuel adj start goals htab weight max_iter r Hl H.
  assert (Hm : r_status r <> MAX_ITER).
  { intros E. destruct (astar_iters _ _ _ _ _ _ _ _ _ H) as [_ H2]. specialize (H2 E).
    unfold iter_limit_free in Hl. apply Z.ltb_lt in Hl. lia. }
  split; [assumption|]. eapply astar_complete_cond; eassumption.
Qed.

(* ---- with the built-in fuel: the models DECIDE reachability of the goal set ---- *)
Theorem dijkstra_decides : forall adj start goals max_iter,
  iter_limit_free adj start max_iter = true ->
  exists r, dijkstra adj start goals max_iter None = Some r /\ r_status r <> MAX_ITER
            /\ complete_ok adj start goals OPTIMAL r.
Proof.
  intros adj start goals max_iter Hl. destruct (dijkstra_total adj start goals max_iter None) as [r Hr].
  exists r. split; [assumption|]. eapply dijkstra_complete; eassumption.
Qed.

Theorem astar_decides : forall adj start goals htab weight max_iter,
  iter_limit_free adj start max_iter = true ->
  exists r, astar adj start goals htab weight max_iter None = Some r /\ r_status r <> MAX_ITER
            /\ complete_ok adj start goals (if weight =? 1 then OPTIMAL else FEASIBLE) r.
Proof.
  intros adj start goals htab weight max_iter Hl.
  destruct (astar_total adj start goals htab weight max_iter None) as [r Hr].
  exists r. split; [assumption|]. eapply astar_complete; eassumption.
Qed.

(* ---- the grid: same statement on the exact grid graph ---- *)
Definition grid_iter_limit_free (g : grid) (max_iter : Z) : bool := Z.of_nat (S (n_cells g)) <? max_iter.

Theorem astar_grid_complete : forall g start goal directions h blocked cost_map weight max_iter r,
  astar_grid_zr g start goal directions h blocked cost_map weight max_iter = Some r ->
  (grid_iter_limit_free g max_iter = true -> r_status r <> MAX_ITER)
  /\ (r_status r <> MAX_ITER ->
      (r_status r = INFEASIBLE <-> unreachable_goal zr_add (zr_grid_nbrs g directions blocked cost_map) (cell_eqb goal) start)
      /\ ((exists a q t d, lwalk zr_add (zr_grid_nbrs g directions blocked cost_map) start a q t d /\ cell_eqb goal t = true)
          -> exists p d, r_path r = Some p /\ r_obj r = Some d
                         /\ path_spec zr_add (zr_grid_nbrs g directions blocked cost_map) zr_zero start (cell_eqb goal) p d)).
Proof.
  intros g start goal directions h blocked cost_map weight max_iter r H. split.
  - intros Hl E. rewrite astar_grid_zr_fuel_eq in H. destruct (astar_grid_iters _ _ _ _ _ _ _ _ _ _ _ H) as [_ H2].
    specialize (H2 E). unfold grid_iter_limit_free in Hl. apply Z.ltb_lt in Hl.
    destruct (in_grid g start); lia.
  - intros Hm. pose proof (astar_grid_path_valid _ _ _ _ _ _ _ _ _ _ H) as Hok.
    pose proof (astar_grid_infeasible_sound _ _ _ _ _ _ _ _ _ _ H) as Hinf.
    unfold grid_res_ok in Hok. split; [split|].
    + exact Hinf.
    + intros Hno. destruct (r_path r) as [p|].
      * destruct Hok as [d [_ [[q [t [_ [Hw Hg]]]] _]]]. rewrite (Hno _ _ _ _ Hw) in Hg. discriminate.
      * destruct Hok as [_ [E|E]]; [assumption|contradiction].
    + intros [a [q [t [d [Hw Hg]]]]]. destruct (r_path r) as [p|].
      * destruct Hok as [d' [Hd [Hp _]]]. exists p, d'. repeat split; assumption.
      * destruct Hok as [_ [E|E]]; [|contradiction]. rewrite (Hinf E _ _ _ _ Hw) in Hg. discriminate.
Qed.
