(* C11 part B - the boolean input conditions of the optimality theorems (definitions only, so that the
   correspondence files can evaluate them on real inputs even if a proof file is broken). *)
From Coq Require Import List ZArith Bool Arith.
From SV Require Import C11.BestFirst C11.BestGrid.
Import ListNotations.
Open Scope Z_scope.

Definition nonneg_adj (adj : adjacency) : bool := forallb (forallb (fun e : nat * Z => 0 <=? snd e)) adj.

(* heuristic table consistent on the graph and zero on the goal nodes *)
Definition consistent_adj (adj : adjacency) (goals : list nat) (htab : list Z) : bool :=
  forallb (fun ul : nat * list (nat * Z) =>
             forallb (fun e : nat * Z => nth (fst ul) htab 0 <=? snd e + nth (fst e) htab 0) (snd ul))
          (combine (seq 0 (length adj)) adj)
  && forallb (fun t => nth t htab 0 =? 0) goals.

Definition costs_ge1 (cost_map : list (Z * Z)) : bool := forallb (fun kv : Z * Z => 1 <=? snd kv) cost_map.

(* heuristic (after resolving "auto") for which astar_grid is claimed optimal *)
Definition heur_ok (directions : Z) (hn : hname) : bool :=
  match hn with
  | Hmanhattan => negb (directions =? 8)
  | Hoctile | Hchebyshev => true
  | Hauto | Heuclidean => false
  end.
