(* C11: soundness of the boolean checker BfsSpec.spec_check (used on implementation outputs). *)
From Coq Require Import List ZArith Bool Arith Lia.
From SV Require Import C11.Paths C11.PathsLemmas C11.Bfs C11.BfsSpec C11.BfsProofs1.
Import ListNotations.
Import Bfs BfsSpec.
Local Open Scope nat_scope.

Lemma links_path_in succ : forall p, links succ p = true -> path_in succ p.
Proof.
  induction p as [|u p IH]; intros H; [discriminate|].
  destruct p as [|v p]; [exact I|].
  change (links succ (u :: v :: p)) with (mem v (succ u) && links succ (v :: p)) in H.
  apply andb_true_iff in H as [H1 H2]. split; [now apply mem_In|now apply IH].
Qed.

Lemma path_check_sound succ s p : path_check succ s p = true -> is_path succ s (last p s) p.
Proof.
  unfold path_check. destruct p as [|u p]; [discriminate|]. intros H.
  apply andb_true_iff in H as [Hu Hl]. apply Nat.eqb_eq in Hu. subst u.
  split; [now apply links_path_in|]. split; [reflexivity|]. split; [reflexivity|discriminate].
Qed.

Lemma closed_sound succ vs : closed succ vs = true ->
  forall v, In v vs -> forall x, In x (succ v) -> In x vs.
Proof.
  unfold closed. intros H v Hv x Hx. rewrite forallb_forall in H. specialize (H v Hv).
  rewrite forallb_forall in H. apply mem_In. now apply H.
Qed.

Lemma closed_reach' succ (V : list nat) : (forall v, In v V -> forall x, In x (succ v) -> In x V) ->
  forall p s, In s V -> path_in succ p -> hd_error p = Some s -> In (last p s) V.
Proof.
  intros Hc. induction p as [|u p IH]; intros s Hs Hp Hh; [destruct Hp|].
  injection Hh as ->. destruct p as [|v p]; [exact Hs|].
  destruct Hp as [Huv Hp]. change (last (s :: v :: p) s) with (last (v :: p) s).
  rewrite (last_default (v :: p) s v) by discriminate.
  apply IH; [eapply Hc; eauto|exact Hp|reflexivity].
Qed.

Theorem spec_check_sound adj s goal max_iter r : spec_check adj s goal max_iter r = true ->
  match r with
  | Found _ p obj => exists isg, goal = Some isg /\ found_spec (succ_of adj) s isg p obj
  | Visited vs obj => goal = None /\ In s vs /\ obj = Z.of_nat (length vs) /\
      ((Z.of_nat (length vs) < max_iter)%Z -> visited_complete (succ_of adj) s vs)
  | NotFound _ => True
  | Hang => False
  end.
Proof.
  destruct r as [st p obj|st|vs obj|]; simpl; intros H; try exact I; try discriminate.
  - apply andb_true_iff in H as [H Ho]. apply andb_true_iff in H as [Hp Hg].
    destruct goal as [isg|]; [|discriminate]. exists isg. split; [reflexivity|].
    exists (last p s). split; [now apply path_check_sound|]. split; [exact Hg|]. now apply Z.eqb_eq in Ho.
  - apply andb_true_iff in H as [H Hc]. apply andb_true_iff in H as [H Ho]. apply andb_true_iff in H as [Hg Hs].
    destruct goal; [discriminate|]. split; [reflexivity|]. split; [now apply mem_In|].
    split; [now apply Z.eqb_eq in Ho|]. intros Hlt. apply Z.ltb_lt in Hlt. rewrite Hlt in Hc.
    intros t (p & Hp & Hh & Hl & Hne). rewrite <- Hl.
    apply (closed_reach' (succ_of adj) vs (closed_sound _ _ Hc)); auto. now apply mem_In.
Qed.
