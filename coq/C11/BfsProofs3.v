(* C11 bfs proofs, part 3: the queue holds at most two consecutive levels in order, hence the first goal
   node popped is a nearest one (bfs returns a shortest path). *)
From Coq Require Import List ZArith Bool Arith Lia.
From SV Require Import C11.Paths C11.PathsLemmas C11.Bfs C11.BfsProofs1 C11.BfsProofs2.
Import ListNotations.
Import Bfs.
Local Open Scope nat_scope.

Section Levels.
Variable succ : nat -> list nat.
Variable start : nat.
Variable goal : option (nat -> bool).

Fixpoint sorted_by (f : nat -> nat) (l : list nat) : Prop :=
  match l with
  | [] => True
  | a :: r => (forall b, In b r -> f a <= f b) /\ sorted_by f r
  end.

Lemma sorted_by_ext f g l : (forall x, In x l -> f x = g x) -> sorted_by f l -> sorted_by g l.
Proof.
  induction l as [|a r IH]; intros He Hs; [exact I|]. destruct Hs as [H1 H2]. split.
  - intros b Hb. rewrite <- (He a), <- (He b); [now apply H1|now right|now left].
  - apply IH; [|exact H2]. intros x Hx. apply He. now right.
Qed.

Lemma sorted_by_app f l1 l2 : sorted_by f l1 -> sorted_by f l2 ->
  (forall a b, In a l1 -> In b l2 -> f a <= f b) -> sorted_by f (l1 ++ l2).
Proof.
  induction l1 as [|a r IH]; intros H1 H2 H12; [exact H2|]. destruct H1 as [Ha Hr]. split.
  - intros b Hb. apply in_app_iff in Hb as [Hb|Hb]; [now apply Ha|]. apply H12; [now left|exact Hb].
  - apply IH; auto. intros x y Hx Hy. apply H12; [now right|exact Hy].
Qed.

Lemma sorted_by_const f c l : (forall x, In x l -> f x = c) -> sorted_by f l.
Proof.
  induction l as [|a r IH]; intros H; [exact I|]. split.
  - intros b Hb. rewrite (H a), (H b); [lia|now right|now left].
  - apply IH. intros x Hx. apply H. now right.
Qed.

Definition dep (st : state) (v : nat) : nat := depth (parent st) v.

Definition invC (st : state) : Prop :=
  sorted_by (dep st) (frontier st) /\
  (forall h t, frontier st = h :: t -> forall v, In v (visited st) -> dep st v <= S (dep st h)) /\
  (forall v, In v (visited st) -> ~ In v (frontier st) ->
     forall x, In x (succ v) -> dep st x <= S (dep st v)).

Definition invABC (st : state) : Prop := invAB succ start goal st /\ invC st.

Lemma invC_init : invC (init start).
Proof.
  unfold invC, init, dep; simpl. split; [split; [intros b []|exact I]|]. split.
  - intros h t _ v _. lia.
  - intros v Hv Hn. exfalso. apply Hn. exact Hv.
Qed.

Lemma invABC_step st cur rest : invABC st -> frontier st = cur :: rest -> goal_test goal cur = false ->
  invABC (pop_expand Queue succ st cur rest).
Proof.
  intros [HAB (Hs & Hb & Hp)] Ef Eg. split; [apply invAB_step; assumption|].
  destruct HAB as [(Hwf & Hvis & Hfr) HB].
  unfold pop_expand, invC, dep. rewrite expand_char. cbn [visited parent frontier pushall].
  set (news := fresh (succ cur) (visited st)).
  assert (Hcurv : In cur (visited st)) by (apply Hfr; rewrite Ef; now left).
  assert (Hfresh : forall x, In x news <-> In x (succ cur) /\ ~ In x (visited st)) by (intros x; apply fresh_spec).
  assert (Hcn : ~ In cur (rev news)) by (rewrite <- in_rev; intros H; apply Hfresh in H; tauto).
  (* new depths *)
  assert (Hdep : forall v, depth (entries cur (rev news) ++ parent st) v =
                           if mem v (rev news) then S (dep st cur) else dep st v)
    by (intros v; now apply depth_entries).
  assert (Hold : forall v, In v (visited st) -> depth (entries cur (rev news) ++ parent st) v = dep st v).
  { intros v Hv. rewrite Hdep. destruct (mem v (rev news)) eqn:E; [|reflexivity].
    apply mem_In in E. apply in_rev in E. apply Hfresh in E. tauto. }
  assert (Hnew : forall v, In v news -> depth (entries cur (rev news) ++ parent st) v = S (dep st cur)).
  { intros v Hv. rewrite Hdep. replace (mem v (rev news)) with true; [reflexivity|].
    symmetry. apply mem_In. now rewrite <- in_rev. }
  rewrite Ef in Hs. destruct Hs as [Hcr Hsr].
  assert (Hrestv : forall v, In v rest -> In v (visited st)) by (intros v Hv; apply Hfr; rewrite Ef; now right).
  assert (Hbound : forall v, In v (visited st) -> dep st v <= S (dep st cur)) by (intros v Hv; eapply Hb; eauto).
  split; [|split].
  - apply sorted_by_app.
    + eapply sorted_by_ext; [|exact Hsr]. intros x Hx. symmetry. apply Hold. now apply Hrestv.
    + apply sorted_by_const with (c := S (dep st cur)). exact Hnew.
    + intros a b Ha Hb'. rewrite (Hold a) by now apply Hrestv. rewrite (Hnew b Hb'). apply Hbound. now apply Hrestv.
  - intros h t Eh v Hv.
    assert (Hh : S (dep st cur) <= S (depth (entries cur (rev news) ++ parent st) h)).
    { assert (Hin : In h (rest ++ news)) by (rewrite Eh; now left).
      apply in_app_iff in Hin as [Hin|Hin].
      - rewrite (Hold h) by now apply Hrestv. specialize (Hcr h Hin). unfold dep in *. lia.
      - rewrite (Hnew h Hin). lia. }
    apply in_app_iff in Hv as [Hv|Hv].
    + apply in_rev in Hv. rewrite (Hnew v Hv). lia.
    + rewrite (Hold v Hv). specialize (Hbound v Hv). lia.
  - intros v Hv Hnf x Hx. rewrite in_app_iff in Hnf. apply in_app_iff in Hv as [Hv|Hv].
    { exfalso. apply Hnf. right. now apply in_rev. }
    rewrite (Hold v Hv).
    destruct (Nat.eq_dec v cur) as [->|Hne].
    + destruct (in_dec_nat x (visited st)) as [Hxv|Hxv].
      * rewrite (Hold x Hxv). now apply Hbound.
      * rewrite (Hnew x); [lia|]. apply Hfresh. tauto.
    + assert (Hnf0 : ~ In v (frontier st)).
      { rewrite Ef. intros [H|H]; [congruence|]. apply Hnf. now left. }
      destruct (HB v Hv Hnf0) as [_ Hsucc].
      rewrite (Hold x (Hsucc x Hx)). now apply (Hp v Hv Hnf0).
Qed.

Lemma depth_start par : wf_parent succ start par -> depth par start = 0.
Proof.
  induction 1 as [|c p rest Hwf IH Hc Hs Hg Hin]; [reflexivity|]. simpl.
  destruct (Nat.eqb c start) eqn:E; [apply Nat.eqb_eq in E; congruence|exact IH].
Qed.

(* every node reached by a path of k edges from a processed-or-visited node x, with dep x + k below the
   level of the queue head, is visited, processed and has depth <= dep x + k *)
Lemma level_walk st h t : invABC st -> frontier st = h :: t ->
  forall p x, path_in succ p -> hd_error p = Some x -> In x (visited st) ->
  dep st x + (length p - 1) < dep st h ->
  In (last p x) (visited st) /\ ~ In (last p x) (frontier st) /\ dep st (last p x) <= dep st x + (length p - 1).
Proof.
  intros [[HA HB] (Hs & Hb & Hp)] Ef.
  assert (Hlow : forall v, In v (frontier st) -> dep st h <= dep st v).
  { rewrite Ef in *. destruct Hs as [Hs _]. intros v [<-|Hv]; [lia|now apply Hs]. }
  induction p as [|u p IH]; intros x Hpath Hh Hx Hlt; [destruct Hpath|].
  injection Hh as ->. destruct p as [|v p].
  - simpl. split; [exact Hx|]. split; [|lia]. intros Hin. apply Hlow in Hin. simpl in Hlt. lia.
  - destruct Hpath as [Hxv Hpath].
    change (last (x :: v :: p) x) with (last (v :: p) x). rewrite (last_default (v :: p) x v) by discriminate.
    assert (Hxnf : ~ In x (frontier st)).
    { intros Hin. apply Hlow in Hin. simpl in Hlt. lia. }
    destruct (HB x Hx Hxnf) as [_ Hsucc].
    pose proof (Hp x Hx Hxnf v Hxv) as Hdv.
    simpl length in Hlt.
    destruct (IH v Hpath eq_refl (Hsucc v Hxv)) as (H1 & H2 & H3).
    + simpl length. lia.
    + split; [exact H1|]. split; [exact H2|]. simpl length in *. lia.
Qed.

Lemma bfs_loop_shortest max_iter fuel st r : invABC st -> invN 0%Z st ->
  loop fuel Queue succ goal max_iter 0%Z st = Some r ->
  forall s p obj, r = Found s p obj ->
  forall t q, is_path succ start t q -> goal_test goal t = true -> (obj <= Z.of_nat (length q) - 1)%Z.
Proof.
  intros Hinv HN Hl s p obj Hr t q Hq Hgt.
  destruct (loop_end Queue succ goal max_iter (fun _ => invABC)
              (fun _ st cur rest H E G => invABC_step st cur rest H E G) fuel 0%Z st r Hinv Hl)
    as (it' & st' & Hinv' & Ho).
  destruct Ho as [st' it' Ef|st' it' Hle Hne|st' it' cur rest Ef Eg].
  - unfold finish in Hr. destruct goal; [destruct (max_iter <=? it')%Z|]; discriminate.
  - unfold finish in Hr. destruct goal; [destruct (max_iter <=? it')%Z|]; discriminate.
  - pose proof Hinv' as [[(Hwf & Hvis & Hfr) HB] HC].
    assert (Hg : good start (parent st') cur) by (apply Hvis, Hfr; rewrite Ef; now left).
    rewrite (reconstruct_path_anc succ start _ _ Hwf Hg) in Hr. injection Hr as _ <- <-.
    rewrite app_length, anc_length. simpl length.
    destruct Hq as (Hpath & Hhd & Hlast & Hne).
    assert (Hq1 : length q >= 1) by (destruct q; [congruence|simpl; lia]).
    destruct (le_lt_dec (depth (parent st') cur) (length q - 1)) as [Hle|Hlt]; [lia|]. exfalso.
    assert (Hsv : In start (visited st')) by (apply Hvis; now left).
    destruct (level_walk st' cur rest Hinv' Ef q start Hpath Hhd Hsv) as (H1 & H2 & H3).
    + unfold dep. rewrite (depth_start _ Hwf). simpl. exact Hlt.
    + rewrite Hlast in *. destruct (HB t H1 H2) as [Hng _]. congruence.
Qed.

End Levels.
