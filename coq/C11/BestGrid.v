(* C11 part B - model of solvor/a_star.py : astar_grid() (lines 118-182).  Definitions only.
   astar_grid builds a neighbour generator and a heuristic and calls astar(); here the same, generically
   in the cost type C, with two instances:
     * Zr2 = Z * Z, the pair (a, b) meaning a + b*sqrt 2, exact order  (this file; the theorems speak about it)
     * binary64 floats, bit-exact with CPython                          (BestGridF.v; correspondence)
   Cells are (row, col) : Z * Z.  The grid is assumed rectangular (the code reads cols = len(grid[0])
   and indexes grid[nr][nc]; a ragged grid raises IndexError in Python - not modelled, never generated). *)
From Coq Require Import List ZArith Bool Arith.
From SV Require Import C11.BestFirst.
Import ListNotations.
Open Scope Z_scope.

Definition cell := (Z * Z)%type.
Definition cell_eqb (a b : cell) : bool := (fst a =? fst b) && (snd a =? snd b).

(* _DIRS_8 = product((-1,0,1), repeat=2) minus (0,0);  _DIRS_4 = those with dx == 0 or dy == 0 *)
Definition DIRS_8 : list (Z * Z) := [(-1,-1); (-1,0); (-1,1); (0,-1); (0,1); (1,-1); (1,0); (1,1)].
Definition DIRS_4 : list (Z * Z) := filter (fun d => (fst d =? 0) || (snd d =? 0)) DIRS_8.

Inductive hname := Hauto | Hmanhattan | Hoctile | Heuclidean | Hchebyshev.

Definition grid := list (list Z).
Definition grid_rows (g : grid) : Z := Z.of_nat (length g).
Definition grid_cols (g : grid) : Z := Z.of_nat (length (hd [] g)).
Definition grid_at (g : grid) (r c : Z) : Z := nth (Z.to_nat c) (nth (Z.to_nat r) g []) 0.

Definition zmem (x : Z) (l : list Z) : bool := memb Z.eqb x l.

Section Grid.
  Context {C : Type}.
  Variable c_one : C.                  (* the default 1.0 of cost_map.get(cell, 1.0) *)
  Variable c_of_Z : Z -> C.            (* a terrain cost given as a number *)
  Variable c_diag : C -> C.            (* base *= _SQRT2 *)
  Variable g : grid.
  Variable dirs : list (Z * Z).
  Variable blocked : list Z.
  Variable cost_map : list (Z * Z).    (* dict costs: terrain value -> (integer-valued) cost *)

  (* def neighbors(pos): for dr, dc in dirs: ... yield (nr, nc), base *)
  Definition grid_nbrs (pos : cell) : list (cell * C) :=
    let '(r, c) := pos in
    flat_map (fun d : Z * Z =>
      let '(dr, dc) := d in
      let nr := r + dr in
      let nc := c + dc in
      if (0 <=? nr) && (nr <? grid_rows g) && (0 <=? nc) && (nc <? grid_cols g) then
        let v := grid_at g nr nc in
        if zmem v blocked then []
        else
          let base := match lookup Z.eqb v cost_map with Some k => c_of_Z k | None => c_one end in
          [((nr, nc), if negb (dr =? 0) && negb (dc =? 0) then c_diag base else base)]
      else []) dirs.
End Grid.

Definition dirs_of (directions : Z) : list (Z * Z) := if directions =? 8 then DIRS_8 else DIRS_4.
Definition resolve_h (directions : Z) (h : hname) : hname :=
  match h with
  | Hauto => if directions =? 8 then Hoctile else Hmanhattan
  | _ => h
  end.

(* visited cells <= rows*cols + 1 (start may lie outside), each pushes <= |dirs| entries *)
Definition grid_fuel (g : grid) : nat :=
  S (S (8 * (S (length g * length (hd [] g))))).

(* ------------------------------------------------------------------------------------------------
   Z[sqrt 2]: (a, b) = a + b sqrt 2 with a, b integers; unique representation, exact order. *)
Definition zr2 := (Z * Z)%type.
Definition zr_zero : zr2 := (0, 0).
Definition zr_add (x y : zr2) : zr2 := (fst x + fst y, snd x + snd y).
Definition zr_sub (x y : zr2) : zr2 := (fst x - fst y, snd x - snd y).
Definition zr_of_Z (k : Z) : zr2 := (k, 0).
Definition zr_scale (k : Z) (x : zr2) : zr2 := (k * fst x, k * snd x).
Definition zr_mul_sqrt2 (x : zr2) : zr2 := (2 * snd x, fst x).
(* a + b sqrt 2 > 0 *)
Definition zr_pos (x : zr2) : bool :=
  let '(a, b) := x in
  if (0 <=? a) && (0 <=? b) then negb ((a =? 0) && (b =? 0))
  else if (a <=? 0) && (b <=? 0) then false
  else if 0 <? a then 2 * b * b <? a * a
  else a * a <? 2 * b * b.
Definition zr_ltb (x y : zr2) : bool := zr_pos (zr_sub y x).
Definition zr_eqb (x y : zr2) : bool := (fst x =? fst y) && (snd x =? snd y).

(* the built-in heuristics; euclidean is not representable in Z[sqrt 2] (None) *)
Definition zr_heur (h : hname) (goal s : cell) : option zr2 :=
  let dr := Z.abs (fst s - fst goal) in
  let dc := Z.abs (snd s - snd goal) in
  match h with
  | Hmanhattan | Hauto => Some (dr + dc, 0)
  | Hoctile => Some (Z.max dr dc - Z.min dr dc, Z.min dr dc)     (* max + (sqrt2 - 1) * min *)
  | Hchebyshev => Some (Z.max dr dc, 0)
  | Heuclidean => None
  end.

(* astar_grid(grid, start, goal, directions=, heuristic=, blocked=, costs=, weight=, max_iter=)
   over Z[sqrt 2]; weight an integer-valued float *)
Definition astar_grid_zr (g : grid) (start goal : cell) (directions : Z) (h : hname) (blocked : list Z)
           (cost_map : list (Z * Z)) (weight : Z) (max_iter : Z) : option (result cell zr2) :=
  let hn := resolve_h directions h in
  match hn with
  | Heuclidean => None
  | _ =>
    astar_c cell_eqb zr_zero zr_add zr_ltb
      (fun v => match zr_heur hn goal v with Some x => zr_scale weight x | None => zr_zero end)
      (if weight =? 1 then OPTIMAL else FEASIBLE)
      (grid_nbrs (1, 0) zr_of_Z zr_mul_sqrt2 g (dirs_of directions) blocked cost_map)
      (cell_eqb goal) max_iter None (grid_fuel g) start
  end.
