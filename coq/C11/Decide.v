(* C11: "a negative cycle is reachable from s" is decidable, constructively, by running the verified models:
   bellman_ford on the zero-weight copy of the graph decides reachability, floyd_warshall on the edges whose
   source is reachable decides the negative cycle.  This removes the case distinction from
   bf_unbounded_iff_classical: bellman_ford answers UNBOUNDED iff a negative cycle is reachable. *)
From Coq Require Import List ZArith Bool Arith Lia.
From SV Require Import C11.Paths C11.PathsLemmas C11.PathsSimple C11.DistCert C11.BellmanFord C11.FloydWarshall
  C11.BellmanFordProofs1 C11.BellmanFordProofs2 C11.BellmanFordProofs3 C11.FloydWarshallProofs1 C11.FloydWarshallProofs2.
Import ListNotations.
Local Open Scope Z_scope.

Definition zero (g : wgraph) : wgraph := map (fun e => (fst (fst e), snd (fst e), 0)) g.

Lemma in_zero g u v w : In (u, v, w) (zero g) <-> w = 0 /\ exists w', In (u, v, w') g.
Proof.
  unfold zero. rewrite in_map_iff. split.
  - intros ([[a b] c] & Heq & Hin). simpl in Heq. injection Heq as -> -> <-. eauto.
  - intros (-> & w' & Hin). exists (u, v, w'). auto.
Qed.

Lemma walk_zero g u t p c : walk g u t p c -> walk (zero g) u t p 0.
Proof.
  induction 1 as [u|u v t p w c Hin Hw IH]; [apply walk_nil|].
  replace 0 with (0 + 0) by lia. eapply walk_cons; [|exact IH]. apply in_zero. eauto.
Qed.

Lemma zero_walk g u t p c : walk (zero g) u t p c -> c = 0 /\ exists c', walk g u t p c'.
Proof.
  induction 1 as [u|u v t p w c Hin Hw [-> (c' & IH)]]; [split; [reflexivity|exists 0; apply walk_nil]|].
  apply in_zero in Hin as (-> & w' & Hin). split; [reflexivity|]. exists (w' + c'). eapply walk_cons; eauto.
Qed.

Lemma reachable_zero g s v : reachable (zero g) s v <-> reachable g s v.
Proof.
  split.
  - intros (p & c & Hw). apply zero_walk in Hw as (_ & c' & Hw). now exists p, c'.
  - intros (p & c & Hw). exists p, 0. eapply walk_zero; eauto.
Qed.

Lemma valid_input_zero s g n t : BF.valid_input s (zero g) n t = BF.valid_input s g n t.
Proof.
  unfold BF.valid_input. f_equal. f_equal. unfold zero.
  induction g as [|[[u v] w] g IH]; [reflexivity|]. simpl. now rewrite IH.
Qed.

(* reachability from s, decided by bellman_ford on the zero-weight copy *)
Lemma reachable_decidable s g n : BF.valid_input s g n None = true ->
  exists d : list (option Z), forall v, match nth v d None with Some _ => reachable g s v | None => ~ reachable g s v end.
Proof.
  intros Hv. rewrite <- valid_input_zero in Hv.
  pose proof (bellman_ford_sound s (zero g) n None) as Hs.
  destruct (BF.bellman_ford s (zero g) n None) as [| | |p x|d|] eqn:E.
  - unfold BF.bellman_ford in E. rewrite Hv in E. simpl in E. destruct (BF.final_state s (zero g) n).
    destruct (BF.detect (zero g) d); discriminate.
  - exfalso. apply (bf_unbounded_not_no_neg _ _ _ _ E). intros v p c _ Hw. apply zero_walk in Hw as [-> _]. lia.
  - destruct Hs as (_ & t & Ht & _). discriminate.
  - destruct Hs as (_ & t & Ht & _). discriminate.
  - destruct Hs as (_ & _ & Hd). exists d. intros v. specialize (Hd v). unfold dget in Hd.
    destruct (nth v d None) as [x|].
    + apply reachable_zero. eapply is_dist_reachable; eauto.
    + intros H. apply Hd. now apply reachable_zero.
  - exfalso. eapply bellman_ford_no_hang; eauto.
Qed.

Definition restrict (g : wgraph) (R : nat -> bool) : wgraph := filter (fun e => R (fst (fst e))) g.

Lemma in_restrict g R u v w : In (u, v, w) (restrict g R) <-> In (u, v, w) g /\ R u = true.
Proof. unfold restrict. rewrite filter_In. reflexivity. Qed.

Lemma walk_restrict g (R : nat -> bool) s : (forall v, R v = true <-> reachable g s v) ->
  forall u t p c, walk g u t p c -> reachable g s u -> walk (restrict g R) u t p c.
Proof.
  intros HR. induction 1 as [u|u v t p w c Hin Hw IH]; intros Hu; [apply walk_nil|].
  eapply walk_cons.
  - apply in_restrict. split; [exact Hin|now apply HR].
  - apply IH. eapply reachable_edge; eauto.
Qed.

Lemma neg_cycle_reachable_restrict g (R : nat -> bool) s : (forall v, R v = true <-> reachable g s v) ->
  (neg_cycle_reachable g s <-> neg_cycle (restrict g R)).
Proof.
  intros HR. split.
  - intros (v & p & c & Hr & Hw & Hc & Hl). exists v, p, c. repeat split; auto. eapply walk_restrict; eauto.
  - intros (v & p & c & Hw & Hc & Hl). exists v, p, c. repeat split; auto.
    + inversion Hw as [|u x t r w d Hin Hr]; subst; [lia|]. apply in_restrict in Hin as [_ Hin]. now apply HR.
    + eapply walk_mono; [|exact Hw]. intros e He. unfold restrict in He. now apply filter_In in He.
Qed.

Theorem neg_cycle_reachable_decidable s g n target : BF.valid_input s g n target = true ->
  neg_cycle_reachable g s \/ ~ neg_cycle_reachable g s.
Proof.
  intros Hv.
  assert (Hv0 : BF.valid_input s g n None = true).
  { unfold BF.valid_input in *. apply andb_true_iff in Hv as [Hv _]. rewrite Hv. reflexivity. }
  destruct (reachable_decidable s g n Hv0) as (d & Hd).
  set (R := fun v => match nth v d None with Some _ => true | None => false end).
  assert (HR : forall v, R v = true <-> reachable g s v).
  { intros v. unfold R. specialize (Hd v). destruct (nth v d None); split; auto; try discriminate; try (intros H; contradiction). }
  rewrite (neg_cycle_reachable_restrict g R s HR).
  assert (Hvr : FW.valid_input n (restrict g R) = true).
  { destruct (valid_input_facts _ _ _ _ Hv0) as (Hs & Hg & _). unfold FW.valid_input.
    apply andb_true_iff. split; [apply Nat.ltb_lt; lia|]. apply forallb_forall. intros [[u v] w] Hin.
    apply in_restrict in Hin as [Hin _]. destruct (Hg _ _ _ Hin). simpl. apply andb_true_iff. split; now apply Nat.ltb_lt. }
  pose proof (fw_unbounded_iff n (restrict g R) true Hvr) as Hfw. simpl FW.graph_of in Hfw.
  destruct (FW.floyd_warshall n (restrict g R) true) eqn:E.
  - right. intros H. apply Hfw in H. discriminate.
  - left. now apply Hfw.
  - right. intros H. apply Hfw in H. discriminate.
Qed.

(* the textbook statement, no side condition beyond accepted input *)
Theorem bf_unbounded_iff_neg_cycle start g n target : BF.valid_input start g n target = true ->
  (BF.bellman_ford start g n target = BF.Unbounded <-> neg_cycle_reachable g start).
Proof.
  intros Hv. apply bf_unbounded_iff_classical; [exact Hv|]. eapply neg_cycle_reachable_decidable; eauto.
Qed.
