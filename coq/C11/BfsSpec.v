(* C11: readable specification for bfs / dfs outputs and a boolean checker usable on the IMPLEMENTATION's
   outputs inside coqc (independent of the model's search loop; it only shares the input encoding).
   Soundness lemmas are in BfsSpecProofs.v. *)
From Coq Require Import List ZArith Bool Arith.
From SV Require Import C11.Paths C11.Bfs.
Import ListNotations.

Module BfsSpec.
Import Bfs.

(* consecutive vertices linked by succ; boolean twin of Paths.path_in *)
Fixpoint links (succ : nat -> list nat) (p : list nat) : bool :=
  match p with
  | [] => false
  | [u] => true
  | u :: ((v :: _) as q) => mem v (succ u) && links succ q
  end.

Definition path_check (succ : nat -> list nat) (s : nat) (p : list nat) : bool :=
  match p with [] => false | u :: _ => Nat.eqb u s && links succ p end.

(* vs is closed under succ *)
Definition closed (succ : nat -> list nat) (vs : list nat) : bool :=
  forallb (fun v => forallb (fun x => mem x vs) (succ v)) vs.

(* What the property demands of one output:
   Found: a genuine path from the start to a goal node, objective = number of edges;
   Visited (goal None): contains the start, objective = size; when the iteration limit cannot have
   stopped the search (every iteration pops a distinct visited node, so it ran < max_iter iterations),
   it is closed under the successor function, i.e. contains every reachable node. *)
Definition spec_check (adj : adjl) (s : nat) (goal : option (nat -> bool)) (max_iter : Z) (r : result) : bool :=
  match r with
  | Found _ p obj =>
      path_check (succ_of adj) s p
      && match goal with Some isg => isg (last p s) | None => false end
      && Z.eqb obj (Z.of_nat (length p) - 1)
  | Visited vs obj =>
      match goal with None => true | Some _ => false end
      && mem s vs && Z.eqb obj (Z.of_nat (length vs))
      && (if (Z.of_nat (length vs) <? max_iter)%Z then closed (succ_of adj) vs else true)
  | NotFound _ => true
  | Hang => false
  end.

(* the Props the checker certifies *)
Definition found_spec (succ : nat -> list nat) (s : nat) (isg : nat -> bool) (p : list nat) (obj : Z) : Prop :=
  exists t, is_path succ s t p /\ isg t = true /\ obj = (Z.of_nat (length p) - 1)%Z.

Definition visited_complete (succ : nat -> list nat) (s : nat) (vs : list nat) : Prop :=
  forall t, reach succ s t -> In t vs.

End BfsSpec.
