(* C11 deepening (4) - bounded suboptimality of weighted A* in the closed-set (no re-opening) form of the code:
   for non-negative weights, a consistent heuristic h (h(u) <= w(u,v) + h(v), h(goal) = 0), heap priority
   g + sc (h v) where sc is an additive, monotone "scaling" with a <= sc a for a >= 0 (sc x = weight * x,
   weight >= 1), and no max_cost limit:   reported objective <= sc (weight of ANY walk start -> goal node).
   Invariant: every closed node u has g[u] <= sc d for every walk start -> u of weight d.
   Generic in the cost type (ordered_costs) and the heap key, like BestProofs4 (which is the case sc = id). *)
From Coq Require Import List ZArith Bool Arith Lia Sorted.
From SV Require Import C11.BestFirst C11.BestSpec C11.BestOrder C11.BestProofs1 C11.BestProofs3.
Import ListNotations.

Section WOpt.
  Context {N C K : Type}.
  Variable neqb : N -> N -> bool.
  Hypothesis neqb_spec : forall a b, neqb a b = true <-> a = b.
  Variable czero : C.
  Variable cadd : C -> C -> C.
  Variable cltb : C -> C -> bool.
  Hypothesis OC : ordered_costs czero cadd cltb.
  Variable kltb : K -> K -> bool.
  Hypothesis KO : key_order kltb.
  Variable mkkey : C -> N -> K.
  Variable limit_of : K -> C -> C.
  Variable found_status : status.
  Variable nbrs : N -> list (N * C).
  Variable is_goal : N -> bool.
  Variable max_iter : Z.
  Variable start : N.

  Notation le := (cle cltb).
  Variable h : N -> C.                  (* the heuristic *)
  Variable sc : C -> C.                 (* multiplication by the weight *)
  Variable fv : K -> C.                 (* the f-value stored in a key *)
  Hypothesis K_fv : forall a b, kltb a b = false -> le (fv b) (fv a).
  Hypothesis K_mk : forall t v, fv (mkkey t v) = cadd t (sc (h v)).
  Hypothesis nonneg : forall u v w, In (v, w) (nbrs u) -> le czero w.
  Hypothesis consistent : forall u v w, In (v, w) (nbrs u) -> le (h u) (cadd w (h v)).
  Hypothesis goal_h : forall t, is_goal t = true -> h t = czero.
  Hypothesis sc_add : forall a b, sc (cadd a b) = cadd (sc a) (sc b).
  Hypothesis sc_mono : forall a b, le a b -> le (sc a) (sc b).
  Hypothesis sc_ge : forall a, le czero a -> le a (sc a).
  Hypothesis sc_zero : sc czero = czero.

  Notation lw := (lwalk cadd nbrs).
  Notation st := (@st N C K).
  Notation relax := (relax neqb cadd cltb kltb mkkey).
  Notation expand := (expand neqb cadd cltb kltb mkkey nbrs).
  Notation loop := (loop neqb cadd cltb kltb mkkey limit_of found_status nbrs is_goal max_iter None).
  Notation lk := (lookup neqb).
  Notation mem := (memb neqb).
  Notation hins := (hinsert kltb).
  Notation sorted := (StronglySorted (@ele N K kltb)).
  Notation wh := (fun v => sc (h v)).

  Ltac ssimpl := cbn [s_g s_parent s_closed s_counter s_heap s_evals].
  Tactic Notation "ssimpl" "in" hyp(H) := cbn [s_g s_parent s_closed s_counter s_heap s_evals] in H.

  Let le_refl := cle_refl czero cadd cltb OC.
  Let le_trans := cle_trans czero cadd cltb OC.

  Lemma lw_consistent_h : forall u a q t d, lw u a q t d -> le (cadd a (h u)) (cadd d (h t)).
  Proof.
    intros u a q t d H. induction H as [u a|u a v w q t d Hin Hw IH]; [apply le_refl|].
    eapply le_trans; [|exact IH]. rewrite (oc_assoc _ _ _ OC).
    apply (cle_add_l czero cadd cltb OC). eapply consistent; eassumption.
  Qed.

  (* g + w <= sc a + sc w when g <= sc a and w >= 0 *)
  Lemma step_sc : forall gu a w, le gu (sc a) -> le czero w -> le (cadd gu w) (sc (cadd a w)).
  Proof.
    intros gu a w H Hw. rewrite sc_add. eapply le_trans.
    - apply (cle_add_r czero cadd cltb OC). exact H.
    - apply (cle_add_l czero cadd cltb OC). apply sc_ge. assumption.
  Qed.

  Record inv4 (ex : option N) (s : st) : Prop := {
    w_start : exists g0, lk start (s_g s) = Some g0 /\ le g0 czero;
    w_opt : forall u gu, mem u (s_closed s) = true -> lk u (s_g s) = Some gu ->
              forall q d, lw start czero q u d -> le gu (sc d);
    w_cg : forall u, mem u (s_closed s) = true -> exists gu, lk u (s_g s) = Some gu;
    w_goal : forall u, mem u (s_closed s) = true -> is_goal u = false;
    w_exp : forall u gu, mem u (s_closed s) = true -> Some u <> ex -> lk u (s_g s) = Some gu ->
              forall v w, In (v, w) (nbrs u) ->
                mem v (s_closed s) = true \/ exists gv, lk v (s_g s) = Some gv /\ le gv (cadd gu w);
    w_heap : forall k c v, In (k, c, v) (s_heap s) ->
              exists t gv, k = mkkey t v /\ lk v (s_g s) = Some gv /\ le gv t;
    w_cur : forall v gv, mem v (s_closed s) = false -> lk v (s_g s) = Some gv ->
              exists c, In (mkkey gv v, c, v) (s_heap s);
    w_sorted : sorted (s_heap s)
  }.

  Lemma frontier : forall s, inv4 None s ->
    forall u a q t d, lw u a q t d ->
    forall q0, lw start czero q0 u a -> (exists gu, lk u (s_g s) = Some gu /\ le gu (sc a)) ->
    mem t (s_closed s) = false ->
    exists y gy a' q', mem y (s_closed s) = false /\ lk y (s_g s) = Some gy /\ le gy (sc a') /\ lw y a' q' t d.
  Proof.
    intros s I u a q t d H. induction H as [u a|u a v w q t d Hin Hw IH]; intros q0 Hpre [gu [Hgu Hle]] Ht.
    - exists u, gu, a, []. repeat split; try assumption. constructor.
    - destruct (mem u (s_closed s)) eqn:Eu.
      + assert (Hpre' : lw start czero (q0 ++ [v]) v (cadd a w)) by (eapply lw_app; eassumption).
        apply (IH (q0 ++ [v]) Hpre'); try assumption.
        assert (Hnone : Some u <> None) by discriminate.
        destruct (w_exp _ _ I u gu Eu Hnone Hgu v w Hin) as [Hvc|[gv [Hgv Hlev]]].
        * destruct (w_cg _ _ I v Hvc) as [gv Hgv]. exists gv. split; [assumption|].
          eapply (w_opt _ _ I v gv Hvc Hgv). exact Hpre'.
        * exists gv. split; [assumption|]. eapply le_trans; [exact Hlev|].
          apply step_sc; [assumption|]. eapply nonneg; eassumption.
      + exists u, gu, a, (v :: q). repeat split; try assumption. econstructor; eassumption.
  Qed.

  Lemma frontier_start : forall s, inv4 None s ->
    forall q t d, lw start czero q t d -> mem t (s_closed s) = false ->
    exists y gy a' q', mem y (s_closed s) = false /\ lk y (s_g s) = Some gy /\ le gy (sc a') /\ lw y a' q' t d.
  Proof.
    intros s I q t d Hw Ht. eapply (frontier s I _ _ _ _ _ Hw []); try assumption.
    - constructor.
    - destruct (w_start _ _ I) as [g0 [H1 H2]]. exists g0. split; [assumption|]. rewrite sc_zero. assumption.
  Qed.

  Section Pop.
    Variable s : st.
    Hypothesis I : inv4 None s.
    Variables (k : K) (c : nat) (cur : N) (h' : list (@entry N K)).
    Hypothesis Eh : s_heap s = (k, c, cur) :: h'.

    Lemma pop_min : forall y gy, mem y (s_closed s) = false -> lk y (s_g s) = Some gy -> le (fv k) (cadd gy (wh y)).
    Proof.
      intros y gy Hy Hgy. destruct (w_cur _ _ I y gy Hy Hgy) as [c' Hin].
      rewrite <- K_mk. apply K_fv. rewrite Eh in Hin.
      eapply (sorted_head_min kltb KO); [|exact Hin]. rewrite <- Eh. apply (w_sorted _ _ I).
    Qed.

    Lemma pop_walk : forall q t d, lw start czero q t d -> mem t (s_closed s) = false ->
      le (fv k) (cadd (sc d) (wh t)).
    Proof.
      intros q t d Hw Ht.
      destruct (frontier_start s I q t d Hw Ht) as [y [gy [a' [q' [Hy [Hgy [Hle Hw']]]]]]].
      eapply le_trans; [apply (pop_min y gy Hy Hgy)|].
      eapply le_trans; [apply (cle_add_r czero cadd cltb OC); exact Hle|].
      rewrite <- !sc_add. apply sc_mono. apply (lw_consistent_h _ _ _ _ _ Hw').
    Qed.

    Lemma pop_key : forall gcur, lk cur (s_g s) = Some gcur -> le (cadd gcur (wh cur)) (fv k).
    Proof.
      intros gcur Hg. destruct (w_heap _ _ I k c cur) as [t [gv [Hk [Hgv Hle]]]]; [rewrite Eh; left; reflexivity|].
      rewrite Hg in Hgv. inversion Hgv; subst gv. rewrite Hk, K_mk.
      apply (cle_add_r czero cadd cltb OC). assumption.
    Qed.

    Lemma pop_opt : forall gcur, lk cur (s_g s) = Some gcur -> mem cur (s_closed s) = false ->
      forall q d, lw start czero q cur d -> le gcur (sc d).
    Proof.
      intros gcur Hg Hc q d Hw. apply (cle_cancel_r czero cadd cltb OC _ _ (wh cur)).
      eapply le_trans; [apply pop_key; assumption|]. eapply pop_walk; eassumption.
    Qed.

    Lemma pop_goal_opt : forall gcur, lk cur (s_g s) = Some gcur -> is_goal cur = true ->
      forall t q d, is_goal t = true -> lw start czero q t d -> le gcur (sc d).
    Proof.
      intros gcur Hg Hgoal t q d Ht Hw.
      assert (Htc : mem t (s_closed s) = false).
      { destruct (mem t (s_closed s)) eqn:E; [|reflexivity]. rewrite (w_goal _ _ I t E) in Ht. discriminate. }
      pose proof (pop_key gcur Hg) as H1. pose proof (pop_walk q t d Hw Htc) as H2. cbv beta in H1, H2.
      rewrite (goal_h _ Hgoal), sc_zero, (oc_zero _ _ _ OC) in H1.
      rewrite (goal_h _ Ht), sc_zero, (oc_zero _ _ _ OC) in H2.
      eapply le_trans; eassumption.
    Qed.

    Lemma pop_skip : mem cur (s_closed s) = true ->
      inv4 None (mkSt (s_g s) (s_parent s) (s_closed s) (s_counter s) h' (s_evals s)).
    Proof.
      intros Hc. destruct I as [O0 O1 Oc Og O3 Hh Hcu Hs]. constructor; ssimpl; try assumption.
      - intros k' c' v Hin. apply (Hh k' c' v). rewrite Eh. right. assumption.
      - intros v gv Hv Hgv. destruct (Hcu v gv Hv Hgv) as [c' Hin]. rewrite Eh in Hin.
        destruct Hin as [E|Hin]; [inversion E; subst; congruence|]. exists c'. assumption.
      - rewrite Eh in Hs. eapply sorted_tail. eassumption.
    Qed.

    Lemma pop_close : forall gcur, mem cur (s_closed s) = false -> lk cur (s_g s) = Some gcur -> is_goal cur = false ->
      inv4 (Some cur) (mkSt (s_g s) (s_parent s) (cur :: s_closed s) (s_counter s) h' (s_evals s)).
    Proof.
      intros gcur Hc Hg Hgoal. pose proof (pop_opt gcur Hg Hc) as Hopt.
      destruct I as [O0 O1 Oc Og O3 Hh Hcu Hs]. constructor; ssimpl.
      - assumption.
      - intros u gu Hu Hgu. simpl in Hu. destruct (neqb u cur) eqn:E.
        + apply neqb_spec in E. subst u. rewrite Hg in Hgu. inversion Hgu; subst. assumption.
        + apply O1; assumption.
      - intros u Hu. simpl in Hu. destruct (neqb u cur) eqn:E.
        + apply neqb_spec in E. subst u. eauto.
        + apply Oc; assumption.
      - intros u Hu. simpl in Hu. destruct (neqb u cur) eqn:E.
        + apply neqb_spec in E. subst u. assumption.
        + apply Og; assumption.
      - intros u gu Hu Hne Hgu v w Hin. simpl in Hu. destruct (neqb u cur) eqn:E.
        + apply neqb_spec in E. subst u. congruence.
        + assert (Hnone : Some u <> None) by discriminate.
          destruct (O3 u gu Hu Hnone Hgu v w Hin) as [Hv|Hv]; [left; apply memb_cons; assumption|right; assumption].
      - intros k' c' v Hin. apply (Hh k' c' v). rewrite Eh. right. assumption.
      - intros v gv Hv Hgv. simpl in Hv. destruct (neqb v cur) eqn:E; [discriminate|].
        destruct (Hcu v gv Hv Hgv) as [c' Hin]. rewrite Eh in Hin.
        destruct Hin as [E'|Hin]; [inversion E'; subst; rewrite (eqb_refl neqb neqb_spec) in E; discriminate|].
        exists c'. assumption.
      - rewrite Eh in Hs. eapply sorted_tail. eassumption.
    Qed.
  End Pop.

  Lemma relax_inv4 : forall cur gcur s v w,
    inv4 (Some cur) s -> mem cur (s_closed s) = true -> lk cur (s_g s) = Some gcur ->
    let s' := relax cur gcur s (v, w) in
    inv4 (Some cur) s' /\ s_closed s' = s_closed s /\ lk cur (s_g s') = Some gcur /\
    (forall x gx, lk x (s_g s) = Some gx -> exists gx', lk x (s_g s') = Some gx' /\ le gx' gx) /\
    (mem v (s_closed s) = true \/ exists gv, lk v (s_g s') = Some gv /\ le gv (cadd gcur w)).
  Proof.
    intros cur gcur s v w I Hc Hg. unfold BestFirst.relax.
    assert (Hsame : forall x gx, lk x (s_g s) = Some gx -> exists gx', lk x (s_g s) = Some gx' /\ le gx' gx)
      by (intros x gx Hx; exists gx; split; [assumption|apply le_refl]).
    destruct (mem v (s_closed s)) eqn:Ev.
    { split; [assumption|]. split; [reflexivity|]. split; [assumption|]. split; [assumption|]. left; reflexivity. }
    set (t := cadd gcur w).
    assert (Hvc : v <> cur) by (intros E; subst; congruence).
    assert (Hnc : forall x, mem x (s_closed s) = true -> x <> v) by (intros x Hx E; subst; congruence).
    destruct (match lk v (s_g s) with Some gv => cltb t gv | None => true end) eqn:Econd.
    2:{ destruct (lk v (s_g s)) as [gv|] eqn:Egv; [|discriminate].
        split; [assumption|]. split; [reflexivity|]. split; [assumption|]. split; [assumption|].
        right. exists gv. split; [reflexivity|exact Econd]. }
    assert (Hold : forall gv, lk v (s_g s) = Some gv -> le t gv).
    { intros gv Hgv. rewrite Hgv in Econd. apply (clt_cle czero cadd cltb OC). assumption. }
    assert (Hdecr : forall x gx, lk x (s_g s) = Some gx -> exists gx', lk x ((v, t) :: s_g s) = Some gx' /\ le gx' gx).
    { intros x gx Hx. destruct (eqb_dec neqb neqb_spec x v) as [E|E].
      - subst x. exists t. rewrite (lookup_cons_eq neqb neqb_spec). split; [reflexivity|apply Hold; assumption].
      - exists gx. rewrite (lookup_cons_neq neqb neqb_spec) by assumption. split; [assumption|apply le_refl]. }
    split; [|split; [reflexivity|split; [ssimpl; rewrite (lookup_cons_neq neqb neqb_spec); auto|split; [exact Hdecr|]]]].
    2:{ right. exists t. ssimpl. rewrite (lookup_cons_eq neqb neqb_spec). split; [reflexivity|apply le_refl]. }
    destruct I as [O0 O1 Oc Og O3 Hh Hcu Hs]. constructor; ssimpl.
    - destruct O0 as [g0 [Hg0 Hle0]]. destruct (Hdecr _ _ Hg0) as [g0' [H1 H2]].
      exists g0'. split; [assumption|eapply le_trans; eassumption].
    - intros u gu Hu Hgu. rewrite (lookup_cons_neq neqb neqb_spec) in Hgu by (apply Hnc; assumption).
      apply O1; assumption.
    - intros u Hu. rewrite (lookup_cons_neq neqb neqb_spec) by (apply Hnc; assumption). apply Oc; assumption.
    - assumption.
    - intros u gu Hu Hne Hgu v0 w0 Hin.
      rewrite (lookup_cons_neq neqb neqb_spec) in Hgu by (apply Hnc; assumption).
      destruct (O3 u gu Hu Hne Hgu v0 w0 Hin) as [Hv0|[gv0 [Hgv0 Hle0]]]; [left; assumption|].
      right. destruct (Hdecr _ _ Hgv0) as [g' [H1 H2]]. exists g'. split; [assumption|eapply le_trans; eassumption].
    - intros k' c' x Hin. apply (hinsert_In' kltb) in Hin. destruct Hin as [E|Hin].
      + inversion E; subst. exists t, t. rewrite (lookup_cons_eq neqb neqb_spec). repeat split. apply le_refl.
      + destruct (Hh _ _ _ Hin) as [t' [gx [Hk [Hgx Hle]]]].
        destruct (Hdecr _ _ Hgx) as [g' [H1 H2]]. exists t', g'. repeat split; try assumption.
        eapply le_trans; eassumption.
    - intros x gx Hx Hgx. destruct (eqb_dec neqb neqb_spec x v) as [E|E].
      + subst x. rewrite (lookup_cons_eq neqb neqb_spec) in Hgx. inversion Hgx; subst gx.
        exists (s_counter s). apply (hinsert_In' kltb). left. reflexivity.
      + rewrite (lookup_cons_neq neqb neqb_spec) in Hgx by assumption.
        destruct (Hcu x gx Hx Hgx) as [c' Hin]. exists c'. apply (hinsert_In' kltb). right. assumption.
    - apply (hinsert_sorted kltb KO). assumption.
  Qed.

  Lemma fold_relax_inv4 : forall cur gcur l s,
    inv4 (Some cur) s -> mem cur (s_closed s) = true -> lk cur (s_g s) = Some gcur ->
    let s' := fold_left (relax cur gcur) l s in
    inv4 (Some cur) s' /\ s_closed s' = s_closed s /\ lk cur (s_g s') = Some gcur /\
    (forall x gx, lk x (s_g s) = Some gx -> exists gx', lk x (s_g s') = Some gx' /\ le gx' gx) /\
    (forall v w, In (v, w) l -> mem v (s_closed s) = true \/ exists gv, lk v (s_g s') = Some gv /\ le gv (cadd gcur w)).
  Proof.
    intros cur gcur l. induction l as [|[v w] l IH]; intros s I Hc Hg; simpl.
    - split; [assumption|]. split; [reflexivity|]. split; [assumption|]. split.
      + intros x gx Hx. exists gx. split; [assumption|apply le_refl].
      + intros v w [].
    - destruct (relax_inv4 cur gcur s v w I Hc Hg) as [I1 [Hc1 [Hg1 [Hd1 Hv1]]]].
      assert (Hc1' : mem cur (s_closed (relax cur gcur s (v, w))) = true) by (rewrite Hc1; assumption).
      destruct (IH _ I1 Hc1' Hg1) as [I2 [Hc2 [Hg2 [Hd2 Hl2]]]].
      split; [assumption|]. split; [etransitivity; [exact Hc2|exact Hc1]|]. split; [assumption|]. split.
      + intros x gx Hx. destruct (Hd1 _ _ Hx) as [g1 [H1 H1']]. destruct (Hd2 _ _ H1) as [g2 [H2 H2']].
        exists g2. split; [assumption|eapply le_trans; eassumption].
      + intros v' w' [E|Hin].
        * inversion E; subst v' w'. destruct Hv1 as [Hv1|[gv [Hgv Hle]]]; [left; assumption|].
          right. destruct (Hd2 _ _ Hgv) as [g2 [H2 H2']]. exists g2. split; [assumption|eapply le_trans; eassumption].
        * destruct (Hl2 _ _ Hin) as [H|H]; [left; rewrite <- Hc1; assumption|right; assumption].
  Qed.

  Lemma expand_inv4 : forall cur gcur s,
    inv4 (Some cur) s -> mem cur (s_closed s) = true -> lk cur (s_g s) = Some gcur ->
    inv4 None (expand cur gcur s).
  Proof.
    intros cur gcur s I Hc Hg. unfold BestFirst.expand.
    destruct (fold_relax_inv4 cur gcur (nbrs cur) s I Hc Hg) as [[O0 O1 Oc Og O3 Hh Hcu Hs] [Hc' [Hg' [Hd Hl]]]].
    constructor; try assumption.
    intros u gu Hu _ Hgu v w Hin. destruct (eqb_dec neqb neqb_spec u cur) as [E|E].
    - subst u. rewrite Hg' in Hgu. inversion Hgu; subst gu.
      destruct (Hl _ _ Hin) as [H|H]; [left; rewrite Hc'; assumption|right; assumption].
    - apply (O3 u gu); try assumption. congruence.
  Qed.

  (* the reported objective is within the factor of every walk to any goal node *)
  Definition wopt_res (r : result N C) : Prop :=
    forall d0, r_obj r = Some d0 -> forall t q d, is_goal t = true -> lw start czero q t d -> le d0 (sc d).

  Lemma loop_inv4 : forall fuel s iters r, inv4 None s -> loop fuel s iters = Some r -> wopt_res r.
  Proof.
    induction fuel as [|f IH]; intros s iters r I H; [discriminate|].
    simpl in H.
    destruct (s_heap s) as [|[[k c] cur] h'] eqn:Eh.
    { inversion H; subst. intros d0 Hd; discriminate. }
    destruct (iters <? max_iter)%Z eqn:Elt; simpl in H.
    2:{ inversion H; subst. intros d0 Hd; discriminate. }
    destruct (mem cur (s_closed s)) eqn:Ec.
    { eapply IH; [|exact H]. eapply pop_skip; eassumption. }
    destruct (lk cur (s_g s)) as [gcur|] eqn:Eg; [|discriminate].
    destruct (is_goal cur) eqn:Egoal.
    { destruct (reconstruct_path neqb (s_parent s) cur); [|discriminate].
      inversion H; subst. clear H. intros d0 Hd. simpl in Hd. inversion Hd; subst d0.
      eapply pop_goal_opt; eassumption. }
    pose proof (pop_close s I k c cur h' Eh gcur Ec Eg Egoal) as I2.
    set (s2 := mkSt (s_g s) (s_parent s) (cur :: s_closed s) (s_counter s) h' (s_evals s)) in *.
    assert (Hc2 : mem cur (s_closed s2) = true) by (simpl; rewrite (eqb_refl neqb neqb_spec); reflexivity).
    eapply IH; [|exact H]. apply expand_inv4; assumption.
  Qed.

  Theorem best_first_weighted : forall fuel r,
    best_first neqb czero cadd cltb kltb mkkey limit_of found_status nbrs is_goal max_iter None fuel start = Some r ->
    wopt_res r.
  Proof.
    intros fuel r H. unfold best_first in H. eapply loop_inv4; [|exact H].
    unfold init_st. constructor; ssimpl.
    - exists czero. rewrite (lookup_cons_eq neqb neqb_spec). split; [reflexivity|apply le_refl].
    - intros; discriminate.
    - intros; discriminate.
    - intros; discriminate.
    - intros; discriminate.
    - intros k c v [E|[]]. inversion E; subst. exists czero, czero.
      rewrite (lookup_cons_eq neqb neqb_spec). repeat split. apply le_refl.
    - intros v gv _ Hgv. simpl in Hgv. destruct (neqb v start) eqn:E; [|discriminate].
      apply neqb_spec in E. subst. inversion Hgv; subst. exists O. left. reflexivity.
    - constructor; constructor.
  Qed.
End WOpt.
