(* C11 part B - readable specification of "a returned path is real" for the best-first solvers, generic in
   the node type N and the cost type C, plus the boolean checker used on IMPLEMENTATION outputs.
   Weights are summed left to right from the start (the order in which the code adds them:
   g[v] = g[parent v] + w), so the statement is meaningful for any cost type, including floats.
   Definitions only; soundness of the checker is in BestSpecProofs.v. *)
From Coq Require Import List ZArith Bool Arith.
From SV Require Import C11.BestFirst.
Import ListNotations.

Section Spec.
  Context {N C : Type}.
  Variable neqb : N -> N -> bool.
  Variable cadd : C -> C -> C.
  Variable nbrs : N -> list (N * C).

  (* [lwalk u a q t d]: standing at u with accumulated cost a, following the vertices q along edges of nbrs
     ends at t with accumulated cost d (for some choice among parallel edges). *)
  Inductive lwalk : N -> C -> list N -> N -> C -> Prop :=
  | lwalk_nil : forall u a, lwalk u a [] u a
  | lwalk_cons : forall u a v w q t d,
      In (v, w) (nbrs u) -> lwalk v (cadd a w) q t d -> lwalk u a (v :: q) t d.

  (* p is a walk from start to a goal node whose weights sum (from czero, left to right) to d *)
  Definition path_spec (czero : C) (start : N) (is_goal : N -> bool) (p : list N) (d : C) : Prop :=
    exists q t, p = start :: q /\ lwalk start czero q t d /\ is_goal t = true.

  Definition reachable_from (start t : N) : Prop := exists a q d, lwalk start a q t d.

  (* what a Result of dijkstra / astar / astar_grid must look like *)
  Definition result_spec (czero : C) (start : N) (is_goal : N -> bool) (o : obs N C) : Prop :=
    let '(s, p, d) := o in
    match s with
    | OPTIMAL | FEASIBLE => exists p' d', p = Some p' /\ d = Some d' /\ path_spec czero start is_goal p' d'
    | INFEASIBLE | MAX_ITER => p = None /\ d = None
    | UNBOUNDED => False
    end.

  (* ---- boolean twin ---- *)
  (* all sums reachable along q from u, starting from the sums in acc; and the end vertex *)
  Fixpoint lsums (u : N) (acc : list C) (q : list N) : list C * N :=
    match q with
    | [] => (acc, u)
    | v :: q' =>
        lsums v (flat_map (fun a => map (fun e => cadd a (snd e)) (filter (fun e => neqb (fst e) v) (nbrs u))) acc) q'
    end.

  (* p is a walk from start to a goal node and SOME sum d along it satisfies dok *)
  Definition path_check (czero : C) (start : N) (is_goal : N -> bool) (p : list N) (dok : C -> bool) : bool :=
    match p with
    | [] => false
    | s :: q => neqb s start && (let '(sums, t) := lsums s [czero] q in is_goal t && existsb dok sums)
    end.

  (* D = type in which the implementation reports the objective; dok d x: reported d matches the exact sum x *)
  Definition result_check {D : Type} (dok : D -> C -> bool) (czero : C) (start : N) (is_goal : N -> bool)
             (o : obs N D) : bool :=
    let '(s, p, d) := o in
    match s with
    | OPTIMAL | FEASIBLE =>
        match p, d with
        | Some p', Some d' => path_check czero start is_goal p' (dok d')
        | _, _ => false
        end
    | INFEASIBLE | MAX_ITER => match p, d with None, None => true | _, _ => false end
    | UNBOUNDED => false
    end.

  (* the Prop it decides *)
  Definition result_spec_gen {D : Type} (dok : D -> C -> bool) (czero : C) (start : N) (is_goal : N -> bool)
             (o : obs N D) : Prop :=
    let '(s, p, d) := o in
    match s with
    | OPTIMAL | FEASIBLE => exists p' d' x, p = Some p' /\ d = Some d' /\ dok d' x = true /\ path_spec czero start is_goal p' x
    | INFEASIBLE | MAX_ITER => p = None /\ d = None
    | UNBOUNDED => False
    end.
End Spec.
