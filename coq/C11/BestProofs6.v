(* C11 part B - totality of the model: on a finite graph (all nodes with outgoing edges listed in U) the generic
   best-first loop returns a result - no fuel exhaustion, no KeyError on g[current], reconstruct_path reaches the
   root - as soon as fuel > 1 + number of edges.  Instantiated for adjacency-list inputs (graph_fuel). *)
From Coq Require Import List ZArith Bool Arith Lia.
From SV Require Import C11.BestFirst C11.BestSpec C11.BestProofs1.
Import ListNotations.

Local Arguments BestFirst.expand : simpl never.

Section Total.
  Context {N C K : Type}.
  Variable neqb : N -> N -> bool.
  Hypothesis neqb_spec : forall a b, neqb a b = true <-> a = b.
  Variable czero : C.
  Variable cadd : C -> C -> C.
  Variable cltb : C -> C -> bool.
  Variable kltb : K -> K -> bool.
  Variable mkkey : C -> N -> K.
  Variable limit_of : K -> C -> C.
  Variable found_status : status.
  Variable nbrs : N -> list (N * C).
  Variable is_goal : N -> bool.
  Variable max_iter : Z.
  Variable max_cost : option C.
  Variable start : N.
  Variable U : list N.
  Hypothesis U_nodup : NoDup U.
  Hypothesis U_out : forall u, ~ In u U -> nbrs u = [].

  Notation st := (@st N C K).
  Notation relax := (relax neqb cadd cltb kltb mkkey).
  Notation expand := (expand neqb cadd cltb kltb mkkey nbrs).
  Notation loop := (loop neqb cadd cltb kltb mkkey limit_of found_status nbrs is_goal max_iter max_cost).
  Notation lk := (lookup neqb).
  Notation mem := (memb neqb).
  Notation anc := (anc neqb).
  Notation inv1 := (inv1 neqb czero cadd nbrs start).

  Ltac ssimpl := cbn [s_g s_parent s_closed s_counter s_heap s_evals].

  (* ---- reconstruct_path succeeds on a duplicate-free parent chain ---- *)
  Lemma lookup_keys : forall (v p : N) par, lk v par = Some p -> In v (map fst par).
  Proof.
    intros v p par. induction par as [|[k x] par IH]; simpl; [discriminate|].
    destruct (neqb v k) eqn:E; [apply neqb_spec in E; auto|]. intros H. right. apply IH. assumption.
  Qed.

  Lemma anc_keys : forall par v l, anc par v l ->
    exists root rest, l = root :: rest /\ forall x, In x rest -> In x (map fst par).
  Proof.
    intros par v l H. induction H as [v Hv|v p l Hv Hp IH].
    - exists v, []. split; [reflexivity|]. intros x [].
    - destruct IH as [root [rest [El Hr]]]. subst l. exists root, (rest ++ [v]). split; [reflexivity|].
      intros x Hx. apply in_app_or in Hx. destruct Hx as [Hx|[Hx|[]]]; [apply Hr; assumption|].
      subst x. eapply lookup_keys. eassumption.
  Qed.

  Lemma chain_len : forall par v l, anc par v l -> NoDup l -> length l <= S (length par).
  Proof.
    intros par v l H Hn. destruct (anc_keys _ _ _ H) as [root [rest [El Hr]]]. subst l.
    inversion Hn; subst. simpl. apply le_n_S. rewrite <- (map_length fst par).
    apply NoDup_incl_length; assumption.
  Qed.

  Lemma recon_complete : forall par v l, anc par v l ->
    forall fuel acc, length l <= fuel -> recon neqb fuel par v acc = Some (l ++ acc).
  Proof.
    intros par v l H. induction H as [v Hv|v p l Hv Hp IH]; intros fuel acc Hf.
    - destruct fuel as [|f]; [simpl in Hf; lia|]. simpl. rewrite Hv. reflexivity.
    - destruct fuel as [|f]; [rewrite app_length in Hf; simpl in Hf; lia|]. simpl. rewrite Hv.
      rewrite app_length in Hf. simpl in Hf. rewrite IH by lia. rewrite <- app_assoc. reflexivity.
  Qed.

  Lemma NoDup_snoc : forall (l : list N) x, NoDup l -> ~ In x l -> NoDup (l ++ [x]).
  Proof.
    intros l x H. induction H as [|y l Hy Hn IH]; intros Hx; simpl.
    - constructor; [intros []|constructor].
    - constructor.
      + intros Hi. apply in_app_or in Hi. destruct Hi as [Hi|[Hi|[]]]; [contradiction|]. subst. apply Hx. left. reflexivity.
      + apply IH. intros Hi. apply Hx. right. assumption.
  Qed.

  (* ---- invariant: inv1 + duplicate-free chains + heap nodes have a g ---- *)
  Record inv6 (s : st) : Prop := {
    t_inv1 : inv1 s;
    t_nd : forall p gp, mem p (s_closed s) = true -> lk p (s_g s) = Some gp ->
             exists q, anc (s_parent s) p (start :: q) /\ NoDup (start :: q) /\
                       Forall (fun x => mem x (s_closed s) = true) (start :: q);
    t_heap : forall k c v, In (k, c, v) (s_heap s) -> exists gv, lk v (s_g s) = Some gv
  }.

  Lemma hinsert_In6 : forall (e e' : @entry N K) h, In e' (hinsert kltb e h) <-> e' = e \/ In e' h.
  Proof.
    intros e e' h. induction h as [|x h IH]; simpl.
    - intuition.
    - destruct (entry_ltb kltb e x); simpl; [intuition|]. rewrite IH. intuition.
  Qed.

  Lemma hinsert_length : forall (e : @entry N K) h, length (hinsert kltb e h) = S (length h).
  Proof. intros e h. induction h as [|x h IH]; simpl; [reflexivity|]. destruct (entry_ltb kltb e x); simpl; lia. Qed.

  Lemma relax_inv6 : forall cur gcur s nb,
    inv6 s -> mem cur (s_closed s) = true -> lk cur (s_g s) = Some gcur -> In nb (nbrs cur) ->
    let s' := relax cur gcur s nb in
    inv6 s' /\ s_closed s' = s_closed s /\ lk cur (s_g s') = Some gcur /\ length (s_heap s') <= S (length (s_heap s)).
  Proof.
    intros cur gcur s [v w] [I1 Tn Th] Hc Hg Hin.
    destruct (relax_inv1 neqb neqb_spec czero cadd cltb kltb mkkey nbrs start cur gcur s (v, w) I1 Hc Hg Hin) as [I1' Hg'].
    pose proof (relax_closed neqb cadd cltb kltb mkkey cur gcur s (v, w)) as Hcl.
    split; [|split; [assumption|split; [assumption|]]].
    2:{ unfold BestFirst.relax. destruct (mem v (s_closed s)); [lia|].
        destruct (match lk v (s_g s) with Some gv => cltb (cadd gcur w) gv | None => true end); ssimpl; [|lia].
        rewrite hinsert_length. lia. }
    constructor; [assumption| |].
    - unfold BestFirst.relax. destruct (mem v (s_closed s)) eqn:Ev; [assumption|].
      destruct (match lk v (s_g s) with Some gv => cltb (cadd gcur w) gv | None => true end); [|assumption].
      ssimpl. intros p gp Hp Hgp.
      assert (Hpv : p <> v) by (intros E; subst; congruence).
      rewrite (lookup_cons_neq neqb neqb_spec) in Hgp by assumption.
      destruct (Tn p gp Hp Hgp) as [q [Ha [Hnd Hf]]]. exists q. repeat split; try assumption.
      apply (anc_ext neqb neqb_spec); [assumption|].
      intros Hi. rewrite Forall_forall in Hf. specialize (Hf _ Hi). congruence.
    - unfold BestFirst.relax. destruct (mem v (s_closed s)) eqn:Ev; [assumption|].
      destruct (match lk v (s_g s) with Some gv => cltb (cadd gcur w) gv | None => true end); [|assumption].
      ssimpl. intros k c x Hx. apply hinsert_In6 in Hx.
      destruct (eqb_dec neqb neqb_spec x v) as [E|E].
      + subst x. rewrite (lookup_cons_eq neqb neqb_spec). eauto.
      + rewrite (lookup_cons_neq neqb neqb_spec) by assumption.
        destruct Hx as [Hx|Hx]; [inversion Hx; congruence|]. eapply Th. eassumption.
  Qed.

  Lemma fold_relax_inv6 : forall cur gcur l s,
    incl l (nbrs cur) -> inv6 s -> mem cur (s_closed s) = true -> lk cur (s_g s) = Some gcur ->
    let s' := fold_left (relax cur gcur) l s in
    inv6 s' /\ s_closed s' = s_closed s /\ length (s_heap s') <= length l + length (s_heap s).
  Proof.
    intros cur gcur l. induction l as [|nb l IH]; intros s Hl I Hc Hg; simpl.
    - split; [assumption|]. split; [reflexivity|lia].
    - assert (Hnb : In nb (nbrs cur)) by (apply Hl; left; reflexivity).
      destruct (relax_inv6 cur gcur s nb I Hc Hg Hnb) as [I' [Hc' [Hg' Hlen]]].
      assert (Hc'' : mem cur (s_closed (relax cur gcur s nb)) = true) by (rewrite Hc'; assumption).
      assert (Hl' : incl l (nbrs cur)) by (intros x Hx; apply Hl; right; assumption).
      destruct (IH _ Hl' I' Hc'' Hg') as [I2 [Hc2 Hlen2]].
      split; [assumption|]. split; [etransitivity; eassumption|]. lia.
  Qed.

  Lemma close_inv6 : forall s k c cur gcur h',
    inv6 s -> s_heap s = (k, c, cur) :: h' -> mem cur (s_closed s) = false -> lk cur (s_g s) = Some gcur ->
    inv6 (mkSt (s_g s) (s_parent s) (cur :: s_closed s) (s_counter s) h' (s_evals s)).
  Proof.
    intros s k c cur gcur h' [I1 Tn Th] Eh Hc Hg.
    pose proof (close_inv1 neqb neqb_spec czero cadd nbrs start s cur gcur h' I1 Hc Hg) as I1'.
    constructor; [assumption| |]; ssimpl.
    - intros p gp Hp Hgp.
      assert (Hmono : forall l, Forall (fun x => mem x (s_closed s) = true) l ->
                                Forall (fun x => mem x (cur :: s_closed s) = true) l).
      { intros l Hl. eapply Forall_impl; [|exact Hl]. intros a Ha. apply memb_cons. assumption. }
      destruct (neqb p cur) eqn:E.
      + apply neqb_spec in E. subst p.
        destruct (i_haspar _ _ _ _ _ _ I1 _ _ Hg) as [Hs|[p Hp']].
        { subst. rewrite (i_start_closed _ _ _ _ _ _ I1) in Hc. discriminate. }
        destruct (i_par _ _ _ _ _ _ I1 _ _ Hp') as [Hpc [gp' [w [H1 [H2 H3]]]]].
        destruct (Tn _ _ Hpc H1) as [q [Ha [Hnd Hf]]].
        exists (q ++ [cur]). change (start :: q ++ [cur]) with ((start :: q) ++ [cur]). repeat split.
        * eapply anc_step; eassumption.
        * apply NoDup_snoc; [assumption|].
          intros Hx. rewrite Forall_forall in Hf. specialize (Hf _ Hx). congruence.
        * apply Forall_app. split; [apply Hmono; assumption|].
          constructor; [|constructor]. simpl. rewrite (eqb_refl neqb neqb_spec). reflexivity.
      + simpl in Hp. rewrite E in Hp. destruct (Tn _ _ Hp Hgp) as [q [Ha [Hnd Hf]]].
        exists q. repeat split; try assumption. apply Hmono. assumption.
    - intros k' c' v Hin. eapply Th. rewrite Eh. right. eassumption.
  Qed.

  (* ---- the measure ---- *)
  Definition deg (u : N) : nat := length (nbrs u).
  Definition unexp_in (L : list N) (closed : list N) : nat :=
    list_sum (map deg (filter (fun u => negb (mem u closed)) L)).
  Definition phi (s : st) : nat := length (s_heap s) + unexp_in U (s_closed s).

  Lemma unexp_cons_le : forall L cur closed, unexp_in L (cur :: closed) <= unexp_in L closed.
  Proof.
    intros L cur closed. unfold unexp_in. induction L as [|x L IH]; simpl in *; [lia|].
    destruct (neqb x cur); simpl in *.
    - destruct (mem x closed); simpl in *; lia.
    - destruct (mem x closed); simpl in *; lia.
  Qed.

  Lemma unexp_cons_in : forall L cur closed, NoDup L -> In cur L -> mem cur closed = false ->
    unexp_in L (cur :: closed) + deg cur <= unexp_in L closed.
  Proof.
    intros L cur closed Hn. induction Hn as [|x L Hx Hn IH]; intros Hin Hc; [destruct Hin|].
    unfold unexp_in in *. simpl. destruct (neqb x cur) eqn:E.
    - apply neqb_spec in E. subst x. rewrite Hc. simpl.
      pose proof (unexp_cons_le L cur closed) as H. unfold unexp_in in H. simpl in H. lia.
    - destruct Hin as [Hin|Hin]; [subst; rewrite (eqb_refl neqb neqb_spec) in E; discriminate|].
      specialize (IH Hin Hc). simpl in IH. destruct (mem x closed); simpl; lia.
  Qed.

  Lemma unexp_close : forall cur closed, mem cur closed = false ->
    unexp_in U (cur :: closed) + deg cur <= unexp_in U closed.
  Proof.
    intros cur closed Hc. destruct (mem cur U) eqn:Em.
    - apply (memb_In neqb neqb_spec) in Em. apply unexp_cons_in; assumption.
    - assert (Hin : ~ In cur U) by (intros Hi; apply (memb_In neqb neqb_spec) in Hi; congruence).
      unfold deg. rewrite (U_out _ Hin). simpl. pose proof (unexp_cons_le U cur closed). lia.
  Qed.

  Lemma unexp_nil : forall L, unexp_in L [] = list_sum (map deg L).
  Proof. intros L. unfold unexp_in. induction L as [|x L IH]; simpl in *; [reflexivity|]. rewrite IH. reflexivity. Qed.

  Lemma loop_total : forall fuel s iters, inv6 s -> phi s < fuel -> exists r, loop fuel s iters = Some r.
  Proof.
    induction fuel as [|f IH]; intros s iters I Hphi; [lia|].
    simpl. destruct (s_heap s) as [|[[k c] cur] h'] eqn:Eh; [eauto|].
    destruct (negb (iters <? max_iter)%Z); [eauto|].
    unfold phi in Hphi. rewrite Eh in Hphi. simpl in Hphi.
    destruct (mem cur (s_closed s)) eqn:Ec.
    { apply IH.
      - destruct I as [I1 Tn Th]. constructor; ssimpl.
        + destruct I1; constructor; assumption.
        + assumption.
        + intros k' c' v Hin. eapply Th. rewrite Eh. right. eassumption.
      - unfold phi. ssimpl. lia. }
    destruct (t_heap _ I k c cur) as [gcur Hg]; [rewrite Eh; left; reflexivity|]. rewrite Hg.
    pose proof (close_inv6 s k c cur gcur h' I Eh Ec Hg) as I2.
    set (s2 := mkSt (s_g s) (s_parent s) (cur :: s_closed s) (s_counter s) h' (s_evals s)) in *.
    assert (Hc2 : mem cur (s_closed s2) = true) by (simpl; rewrite (eqb_refl neqb neqb_spec); reflexivity).
    destruct (is_goal cur).
    - destruct (t_nd _ I2 cur gcur Hc2 Hg) as [q [Ha [Hnd _]]]. unfold reconstruct_path.
      change (s_parent s) with (s_parent s2).
      rewrite (recon_complete _ _ _ Ha) by (eapply chain_len; eassumption). eauto.
    - pose proof (unexp_close cur (s_closed s) Ec) as Hu.
      destruct (over_limit cltb limit_of max_cost k gcur).
      + apply IH; [assumption|]. unfold phi, s2. ssimpl. lia.
      + destruct (fold_relax_inv6 cur gcur (nbrs cur) s2 (incl_refl _) I2 Hc2 Hg) as [I3 [Hc3 Hlen]].
        apply IH; [exact I3|]. unfold phi, BestFirst.expand. rewrite Hc3. unfold s2 in *. ssimpl.
        unfold deg in Hu. simpl in Hlen. lia.
  Qed.

  Theorem best_first_total : forall fuel,
    1 + list_sum (map deg U) < fuel ->
    exists r, best_first neqb czero cadd cltb kltb mkkey limit_of found_status nbrs is_goal max_iter max_cost fuel start = Some r.
  Proof.
    intros fuel Hf. unfold best_first. destruct fuel as [|f]; [lia|].
    simpl. destruct (negb (0 <? max_iter)%Z); [eauto|].
    rewrite (eqb_refl neqb neqb_spec).
    set (s2 := mkSt [(start, czero)] [] [start] 1 [] 1 : st).
    assert (I1 : inv1 s2).
    { constructor; simpl.
      - rewrite (eqb_refl neqb neqb_spec). reflexivity.
      - reflexivity.
      - rewrite (eqb_refl neqb neqb_spec). reflexivity.
      - intros; discriminate.
      - intros v gv Hv. destruct (neqb v start) eqn:E; [left; apply neqb_spec; assumption|discriminate].
      - intros p gp Hp Hgp. destruct (neqb p start) eqn:E; [|discriminate].
        apply neqb_spec in E. subst p. inversion Hgp; subst.
        exists []. repeat split.
        + apply anc_root. reflexivity.
        + constructor.
        + constructor; [|constructor]. simpl. rewrite (eqb_refl neqb neqb_spec). reflexivity. }
    assert (I2 : inv6 s2).
    { constructor; [assumption| |].
      - simpl. intros p gp Hp Hgp. destruct (neqb p start) eqn:E; [|discriminate].
        apply neqb_spec in E. subst p. exists []. repeat split.
        + apply anc_root. reflexivity.
        + constructor; [intros []|constructor].
        + constructor; [|constructor]. simpl. rewrite (eqb_refl neqb neqb_spec). reflexivity.
      - simpl. intros k c v []. }
    pose proof (unexp_nil U) as Hall.
    assert (Hu : unexp_in U [start] + deg start <= unexp_in U []) by (apply unexp_close; reflexivity).
    assert (Hc2 : mem start (s_closed s2) = true) by (simpl; rewrite (eqb_refl neqb neqb_spec); reflexivity).
    assert (Hg2 : lk start (s_g s2) = Some czero) by (simpl; rewrite (eqb_refl neqb neqb_spec); reflexivity).
    destruct (is_goal start).
    - simpl. eauto.
    - destruct (over_limit cltb limit_of max_cost (mkkey czero start) czero).
      + apply loop_total; [assumption|]. unfold phi, s2. ssimpl. simpl length. lia.
      + match goal with |- context [BestFirst.expand _ _ _ _ _ _ ?cur ?g ?s] =>
          destruct (fold_relax_inv6 cur g (nbrs cur) s (incl_refl _) I2 Hc2 Hg2) as [I3 [Hc3 Hlen]] end.
        apply loop_total; [exact I3|]. unfold phi, BestFirst.expand. rewrite Hc3. ssimpl.
        unfold deg in Hu. simpl in Hlen. simpl length. lia.
  Qed.
End Total.

(* ---- adjacency-list inputs: graph_fuel is enough ---- *)
Lemma sum_deg_adj : forall adj : adjacency,
  list_sum (map (fun u => length (adj_nbrs adj u)) (seq 0 (length adj))) = length (concat adj).
Proof.
  unfold adj_nbrs. induction adj as [|l adj IH]; [reflexivity|].
  cbn [length concat seq map list_sum nth]. rewrite app_length, <- IH. f_equal.
  rewrite <- seq_shift, map_map. reflexivity.
Qed.

Lemma adj_out : forall (adj : adjacency) u, ~ In u (seq 0 (length adj)) -> adj_nbrs adj u = [].
Proof.
  intros adj u H. unfold adj_nbrs. apply nth_overflow. rewrite in_seq in H. lia.
Qed.

Theorem dijkstra_total : forall adj start goals max_iter max_cost,
  exists r, dijkstra adj start goals max_iter max_cost = Some r.
Proof.
  intros. unfold dijkstra, dijkstra_gen, dijkstra_c.
  apply (best_first_total Nat.eqb Nat.eqb_eq) with (U := seq 0 (length adj)).
  - apply seq_NoDup.
  - apply adj_out.
  - unfold deg. rewrite sum_deg_adj. unfold graph_fuel. lia.
Qed.

Theorem astar_total : forall adj start goals htab weight max_iter max_cost,
  exists r, astar adj start goals htab weight max_iter max_cost = Some r.
Proof.
  intros. unfold astar, astar_gen, astar_c.
  apply (best_first_total Nat.eqb Nat.eqb_eq) with (U := seq 0 (length adj)).
  - apply seq_NoDup.
  - apply adj_out.
  - unfold deg. rewrite sum_deg_adj. unfold graph_fuel. lia.
Qed.
