(* C11: distance certificates.  A vector d with d[s] = 0 that satisfies every edge inequality and whose
   finite entries are attained by walks IS the vector of shortest-walk distances from s, and then no
   negative cycle is reachable from s.  Used for the Coq spec checker and for the Bellman-Ford proof. *)
From Coq Require Import List ZArith Bool Arith Lia.
From SV Require Import C11.Paths C11.PathsLemmas.
Import ListNotations.
Local Open Scope Z_scope.

Definition dget (d : list (option Z)) (i : nat) : option Z := nth i d None.

(* d[u] finite -> d[v] finite and d[v] <= d[u] + w, for every edge *)
Definition edges_le (g : wgraph) (d : list (option Z)) : Prop :=
  forall u v w du, In (u, v, w) g -> dget d u = Some du -> exists dv, dget d v = Some dv /\ dv <= du + w.

Definition attained (g : wgraph) (s : nat) (d : list (option Z)) : Prop :=
  forall v x, dget d v = Some x -> exists p, walk g s v p x.

Definition dist_vector (g : wgraph) (s : nat) (d : list (option Z)) : Prop :=
  forall v, match dget d v with Some x => is_dist g s v x | None => ~ reachable g s v end.

Lemma lower_bound g d : edges_le g d -> forall u t p c, walk g u t p c ->
  forall du, dget d u = Some du -> exists dt, dget d t = Some dt /\ dt <= du + c.
Proof.
  intros He. induction 1 as [u|u v t p w c Hin Hw IH]; intros du Hu.
  - exists du. split; [exact Hu|lia].
  - destruct (He _ _ _ _ Hin Hu) as (dv & Hv & Hle). destruct (IH dv Hv) as (dt & Ht & Hle').
    exists dt. split; [exact Ht|lia].
Qed.

Lemma walk_neg_long g v p c : walk g v v p c -> c < 0 -> (1 < length p)%nat.
Proof. intros H Hc. inversion H; subst; [lia|]. destruct (walk_hd _ _ _ _ _ H1) as [q ->]. simpl. lia. Qed.

Theorem cert_no_neg_cycle g s d x0 : dget d s = Some x0 -> edges_le g d -> ~ neg_cycle_reachable g s.
Proof.
  intros Hs He (v & p & c & (q & e & Hq) & Hp & Hc & _).
  destruct (lower_bound g d He _ _ _ _ Hq _ Hs) as (dv & Hv & _).
  destruct (lower_bound g d He _ _ _ _ Hp _ Hv) as (dv' & Hv' & Hle).
  rewrite Hv in Hv'. injection Hv' as <-. lia.
Qed.

(* the source entry is 0 as soon as it is <= 0 and attained *)
Lemma cert_source_zero g s d x0 : dget d s = Some x0 -> edges_le g d -> attained g s d -> x0 <= 0 -> x0 = 0.
Proof.
  intros Hs He Ha Hle. destruct (Ha _ _ Hs) as (p & Hp).
  destruct (lower_bound g d He _ _ _ _ Hp _ Hs) as (x & Hx & Hle'). rewrite Hs in Hx. injection Hx as <-. lia.
Qed.

Theorem cert_sound g s d : dget d s = Some 0 -> edges_le g d -> attained g s d -> dist_vector g s d.
Proof.
  intros Hs He Ha v. destruct (dget d v) as [x|] eqn:Ev.
  - split; [now apply Ha|]. intros p' c Hw.
    destruct (lower_bound g d He _ _ _ _ Hw _ Hs) as (dt & Ht & Hle). rewrite Ev in Ht. injection Ht as <-. lia.
  - intros (p & c & Hw). destruct (lower_bound g d He _ _ _ _ Hw _ Hs) as (dt & Ht & _). congruence.
Qed.

(* conversely the true distances satisfy the edge inequalities: used to show that Bellman-Ford's detection
   round stays silent once the vector is exact *)
Lemma exact_edges_le g s d : attained g s d ->
  (forall v p c, walk g s v p c -> exists x, dget d v = Some x /\ x <= c) -> edges_le g d.
Proof.
  intros Ha Hup u v w du Hin Hu. destruct (Ha _ _ Hu) as (p & Hp).
  destruct (Hup v (p ++ [v]) (du + w)) as (x & Hx & Hle); [eapply walk_snoc; eauto|]. eauto.
Qed.
