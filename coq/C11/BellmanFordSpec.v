(* C11: boolean certificate checkers for single-source distance vectors / all-pairs matrices and for
   returned paths, usable on the IMPLEMENTATION's outputs inside coqc.  Independent of the models'
   relaxation loops.  Soundness: DistCert.v (cert_sound) and BellmanFordSpecProofs.v. *)
From Coq Require Import List ZArith Bool Arith.
From SV Require Import C11.Paths C11.BellmanFord C11.FloydWarshall.
Import ListNotations.
Open Scope Z_scope.

Module BFSpec.

Definition getd (d : list (option Z)) (i : nat) : option Z := nth i d None.
Definition mem (x : nat) (l : list nat) : bool := existsb (Nat.eqb x) l.
Definition oz_eqb (a b : option Z) : bool :=
  match a, b with None, None => true | Some x, Some y => Z.eqb x y | _, _ => false end.

(* d[u] finite -> d[v] finite and d[v] <= d[u] + w *)
Definition edge_le (d : list (option Z)) (e : nat * nat * Z) : bool :=
  let '(u, v, w) := e in
  match getd d u with
  | None => true
  | Some du => match getd d v with None => false | Some dv => dv <=? du + w end
  end.

(* one sweep: add v when some tight edge u -> v (d[v] = d[u] + w) leaves the set *)
Definition tight_step (g : wgraph) (d : list (option Z)) (R : list nat) : list nat :=
  fold_left (fun R e =>
    let '(u, v, w) := e in
    if mem u R && negb (mem v R) &&
       match getd d u, getd d v with Some du, Some dv => dv =? du + w | _, _ => false end
    then v :: R else R) g R.

Fixpoint tight_closure (k : nat) (g : wgraph) (d : list (option Z)) (R : list nat) : list nat :=
  match k with O => R | S k' => tight_closure k' g d (tight_step g d R) end.

(* distance certificate: d[s] = 0, every edge inequality holds, every finite d[v] is reached from s
   through tight edges (hence attained by a walk) *)
Definition cert_check (g : wgraph) (s : nat) (d : list (option Z)) (n : nat) : bool :=
  oz_eqb (getd d s) (Some 0) && Nat.eqb (length d) n && forallb (edge_le d) g &&
  let R := tight_closure n g d [s] in
  forallb (fun v => match getd d v with None => true | Some _ => mem v R end) (seq 0 n).

(* one bellman_ford(start, edges, n, target=t) answer against the certified vector *)
Definition query_check (g : wgraph) (s : nat) (d : list (option Z)) (q : nat * BF.result) : bool :=
  let '(t, r) := q in
  match r with
  | BF.Path p x => walk_check g s t p x && oz_eqb (getd d t) (Some x)
  | BF.Infeasible => oz_eqb (getd d t) None
  | _ => false
  end.

Definition spec_check (s : nat) (g : wgraph) (n : nat) (d : list (option Z)) (qs : list (nat * BF.result)) : bool :=
  cert_check g s d n && forallb (query_check g s d) qs.

Definition fw_spec_check (n : nat) (edges : wgraph) (directed : bool) (m : FW.mat) : bool :=
  let g := if directed then edges else FW.sym edges in
  Nat.eqb (length m) n && forallb (fun i => cert_check g i (nth i m []) n) (seq 0 n).

(* the Props certified: DistCert.dist_vector, ~ neg_cycle_reachable, walk, is_dist (see BellmanFordSpecProofs.v) *)

End BFSpec.
