(* C11 bfs/dfs proofs, part 2: processed nodes are closed under the successor function and are not goals;
   consequences: INFEASIBLE iff no goal node reachable, visited = reachable set, dfs finds iff reachable. *)
From Coq Require Import List ZArith Bool Arith Lia.
From SV Require Import C11.Paths C11.PathsLemmas C11.Bfs C11.BfsProofs1.
Import ListNotations.
Import Bfs.
Local Open Scope nat_scope.

Lemma in_dec_nat (x : nat) l : In x l \/ ~ In x l.
Proof. destruct (in_dec Nat.eq_dec x l); tauto. Qed.

Lemma NoDup_app_intro {A} (a b : list A) : NoDup a -> NoDup b -> (forall x, In x a -> ~ In x b) -> NoDup (a ++ b).
Proof.
  induction a as [|x a IH]; intros Ha Hb Hd; [exact Hb|].
  inversion Ha; subst. simpl. constructor.
  - rewrite in_app_iff. intros [H|H]; [contradiction|]. apply (Hd x); [now left|exact H].
  - apply IH; auto. intros y Hy. apply Hd. now right.
Qed.

Section InvB.
Variable succ : nat -> list nat.
Variable start : nat.
Variable goal : option (nat -> bool).

(* visited nodes that left the frontier have been expanded and were not goals *)
Definition invB (st : state) : Prop :=
  forall v, In v (visited st) -> ~ In v (frontier st) ->
    goal_test goal v = false /\ forall x, In x (succ v) -> In x (visited st).

Definition invAB (st : state) : Prop := invA succ start st /\ invB st.

Lemma invB_init : invB (init start).
Proof. intros v Hv Hn. exfalso. apply Hn. exact Hv. Qed.


Lemma invAB_step m st cur rest : invAB st -> frontier st = cur :: rest -> goal_test goal cur = false ->
  invAB (pop_expand m succ st cur rest).
Proof.
  intros [HA HB] Ef Eg. split; [apply invA_step; assumption|].
  unfold pop_expand, invB. rewrite expand_char. cbn [visited parent frontier].
  set (news := fresh (succ cur) (visited st)).
  intros v Hv Hnf. rewrite in_pushall in Hnf. apply in_app_iff in Hv.
  destruct Hv as [Hv|Hv]; [exfalso; apply Hnf; right; now apply in_rev|].
  destruct (Nat.eq_dec v cur) as [->|Hne].
  - split; [exact Eg|]. intros x Hx. apply in_app_iff.
    destruct (in_dec_nat x (visited st)) as [H|H]; [now right|].
    left. rewrite <- in_rev. apply fresh_spec. split; assumption.
  - assert (Hnf0 : ~ In v (frontier st)).
    { rewrite Ef. intros [H|H]; [congruence|]. apply Hnf. now left. }
    destruct (HB v Hv Hnf0) as [H1 H2].
    split; [exact H1|]. intros x Hx. apply in_app_iff. right. now apply H2.
Qed.

(* a set closed under succ that contains s contains everything reachable from s *)
Lemma closed_reach (V : list nat) : (forall v, In v V -> forall x, In x (succ v) -> In x V) ->
  forall p s, In s V -> path_in succ p -> hd_error p = Some s -> In (last p s) V.
Proof.
  intros Hc. induction p as [|u p IH]; intros s Hs Hp Hh; [destruct Hp|].
  injection Hh as ->. destruct p as [|v p]; [exact Hs|].
  destruct Hp as [Huv Hp]. change (last (s :: v :: p) s) with (last (v :: p) s).
  rewrite (last_default (v :: p) s v) by discriminate.
  apply IH; [eapply Hc; eauto|exact Hp|reflexivity].
Qed.

Lemma visited_reach st : invA succ start st -> forall v, In v (visited st) -> reach succ start v.
Proof.
  intros (Hwf & Hvis & _) v Hv. apply Hvis in Hv. exists (anc (parent st) v ++ [v]).
  now apply chain_is_path.
Qed.

(* iterations <= number of visited nodes that left the frontier <= |visited| *)

(* processed nodes: visited, not in the frontier; frontier has no duplicates *)
Definition invN (it : Z) (st : state) : Prop :=
  NoDup (visited st) /\ NoDup (frontier st) /\ incl (frontier st) (visited st) /\
  (it + Z.of_nat (length (frontier st)) <= Z.of_nat (length (visited st)))%Z.

Lemma invN_init : invN 0%Z (init start).
Proof.
  unfold invN, init; simpl. repeat split; try (constructor; [intros []|constructor]); try lia.
  intros x H; exact H.
Qed.


Lemma invN_step m it st cur rest : invN it st -> frontier st = cur :: rest ->
  invN (it + 1)%Z (pop_expand m succ st cur rest).
Proof.
  intros (Hv & Hf & Hi & Hc) Ef. unfold pop_expand, invN. rewrite expand_char. cbn [visited parent frontier].
  set (news := fresh (succ cur) (visited st)).
  assert (Hnd : NoDup news) by apply fresh_nodup.
  assert (Hfresh : forall x, In x news -> ~ In x (visited st)) by (intros x Hx; now apply fresh_spec in Hx).
  rewrite Ef in Hf, Hi, Hc. inversion Hf as [|? ? Hcr Hrest]; subst.
  assert (Hri : incl rest (visited st)) by (intros x Hx; apply Hi; now right).
  split; [|split; [|split]].
  - apply NoDup_app_intro; [now apply NoDup_rev|exact Hv|]. intros x Hx. apply Hfresh. now apply in_rev.
  - destruct m; simpl.
    + apply NoDup_app_intro; auto. intros x Hx Hn. apply (Hfresh x Hn). now apply Hri.
    + apply NoDup_app_intro; [now apply NoDup_rev|exact Hrest|]. intros x Hx Hr.
      apply in_rev in Hx. apply (Hfresh x Hx). now apply Hri.
  - intros x Hx. apply in_pushall in Hx. apply in_app_iff. destruct Hx as [Hx|Hx]; [right; now apply Hri|left; now rewrite <- in_rev].
  - assert (length (pushall m news rest) = length rest + length news).
    { destruct m; simpl; rewrite app_length, ?rev_length; lia. }
    rewrite H, app_length, rev_length. simpl in Hc. lia.
Qed.


(* what a result of the loop means *)
Definition result_spec (m : mode) (max_iter : Z) (r : result) : Prop :=
  match r with
  | Found s p obj => s = found_status m /\
      exists t, is_path succ start t p /\ goal_test goal t = true /\ obj = (Z.of_nat (length p) - 1)%Z
  | NotFound INFEASIBLE => goal <> None /\ forall t, reach succ start t -> goal_test goal t = false
  | NotFound MAX_ITER => goal <> None /\
      (* the limit really was reached: at least max_iter distinct reachable nodes exist *)
      exists vs, NoDup vs /\ (forall v, In v vs -> reach succ start v) /\ (max_iter <= Z.of_nat (length vs))%Z
  | NotFound _ => False
  | Visited vs obj => goal = None /\ obj = Z.of_nat (length vs) /\ In start vs /\ NoDup vs /\
      (forall v, In v vs -> reach succ start v) /\
      ((Z.of_nat (length vs) < max_iter)%Z -> forall t, reach succ start t -> In t vs)
  | Hang => False
  end.

Definition invABN (it : Z) (st : state) : Prop := invAB st /\ invN it st.

Lemma loop_spec m max_iter fuel st r : invABN 0%Z st ->
  loop fuel m succ goal max_iter 0%Z st = Some r -> result_spec m max_iter r.
Proof.
  intros Hinv Hl.
  pose proof (loop_found succ start m goal max_iter fuel 0%Z st r (proj1 (proj1 Hinv)) Hl) as Hf.
  destruct (loop_end m succ goal max_iter invABN
              (fun it st cur rest H E G => conj (invAB_step m st cur rest (proj1 H) E G)
                                                (invN_step m it st cur rest (proj2 H) E))
              fuel 0%Z st r Hinv Hl)
    as (it' & st' & [[HA HB] (Hnv & Hnf & Hni & Hcnt)] & Ho).
  assert (Hstart : In start (visited st')) by (apply (proj1 (proj2 HA)); now left).
  assert (Hreach : forall v, In v (visited st') -> reach succ start v)
    by (intros v Hv; eapply visited_reach; eauto).
  unfold result_spec.
  inversion Ho as [st0 it0 Ef|st0 it0 Hle Hne|st0 it0 cur rest Ef Eg]; subst.
  - assert (Hc : forall v, In v (visited st') -> forall x, In x (succ v) -> In x (visited st')).
    { intros v Hv. apply (HB v Hv). rewrite Ef. intros []. }
    assert (Hall : forall t, reach succ start t -> In t (visited st')).
    { intros t (p & Hp & Hh & Hlast & Hne).
      pose proof (closed_reach _ Hc p start Hstart Hp Hh) as Ht. now rewrite Hlast in Ht. }
    unfold finish. destruct goal as [isg|] eqn:Egoal.
    + destruct (max_iter <=? it')%Z eqn:Ele.
      * split; [discriminate|]. exists (visited st'). repeat split; auto.
        apply Z.leb_le in Ele. rewrite Ef in Hcnt. simpl in Hcnt. lia.
      * split; [discriminate|]. intros t Ht. rewrite <- Egoal. apply (HB t (Hall t Ht)). rewrite Ef. intros [].
    + repeat split; auto.
  - unfold finish. destruct goal as [isg|] eqn:Egoal.
    + assert (Hle' := Hle). apply Z.leb_le in Hle'. rewrite Hle'. split; [discriminate|].
      exists (visited st'). repeat split; auto. lia.
    + repeat split; auto. intros Hlt. exfalso. lia.
  - destruct (reconstruct_path (parent st') cur); exact Hf.
Qed.

End InvB.
