(* C11 (5): agreement corollaries between the solvers of part A on shared inputs. *)
From Coq Require Import List ZArith Bool Arith Lia.
From SV Require Import C11.Paths C11.PathsLemmas C11.PathsSimple C11.DistCert C11.Bfs C11.BellmanFord C11.FloydWarshall
  C11.BfsProofs1 C11.BfsProofs2 C11.BfsTheorems C11.BellmanFordProofs1 C11.BellmanFordProofs2
  C11.FloydWarshallProofs1 C11.FloydWarshallProofs2.
Import ListNotations.
Local Open Scope Z_scope.

(* bellman_ford's distance vector from s is row s of floyd_warshall's matrix *)
Theorem bf_fw_agree s g n d m : (s < n)%nat ->
  BF.bellman_ford s g n None = BF.Dists d -> FW.floyd_warshall n g true = FW.Dist m ->
  forall v, nth v d None = FW.get m s v.
Proof.
  intros Hs Hbf Hfw v.
  pose proof (bellman_ford_sound s g n None) as Hb. rewrite Hbf in Hb. destruct Hb as (_ & _ & Hd).
  specialize (Hd v). unfold dget in Hd.
  pose proof (fw_dist n g true m Hfw s v Hs) as Hf. simpl FW.graph_of in Hf.
  destruct (nth v d None) as [x|], (FW.get m s v) as [y|]; auto.
  - f_equal. eapply is_dist_unique; eauto.
  - exfalso. apply Hf. eapply is_dist_reachable; eauto.
  - exfalso. apply Hd. eapply is_dist_reachable; eauto.
Qed.

(* a single-pair answer of bellman_ford equals floyd_warshall's entry *)
Theorem bf_fw_agree_target s g n t p x m : (s < n)%nat ->
  BF.bellman_ford s g n (Some t) = BF.Path p x -> FW.floyd_warshall n g true = FW.Dist m ->
  FW.get m s t = Some x.
Proof.
  intros Hs Hbf Hfw.
  pose proof (bellman_ford_sound s g n (Some t)) as Hb. rewrite Hbf in Hb.
  destruct Hb as (_ & t' & Ht & _ & Hd). injection Ht as <-.
  pose proof (fw_dist n g true m Hfw s t Hs) as Hf. simpl FW.graph_of in Hf.
  destruct (FW.get m s t) as [y|].
  - f_equal. eapply is_dist_unique; eauto.
  - exfalso. apply Hf. eapply is_dist_reachable; eauto.
Qed.

(* when floyd_warshall finds no negative cycle, bellman_ford is never UNBOUNDED *)
Theorem fw_dist_bf_bounded s g n target m :
  FW.floyd_warshall n g true = FW.Dist m -> BF.bellman_ford s g n target <> BF.Unbounded.
Proof.
  intros Hfw Hbf. apply (bf_unbounded_not_no_neg _ _ _ _ Hbf).
  pose proof (fw_dist_no_neg_cycle n g true m Hfw) as Hn. simpl FW.graph_of in Hn.
  intros v p c _ Hw. destruct (Z_lt_dec c 0) as [Hc|Hc]; [|lia]. exfalso. apply Hn.
  exists v, p, c. repeat split; auto. eapply walk_neg_long; eauto.
Qed.

(* bfs on a successor dictionary = shortest walks in its unit-weight graph *)
Definition adj_graph (adj : Bfs.adjl) : wgraph := unit_graph (map fst adj) (Bfs.succ_of adj).

Lemma succ_of_key adj u v : In v (Bfs.succ_of adj u) -> In u (map fst adj).
Proof.
  unfold Bfs.succ_of. induction adj as [|[k l] adj IH]; simpl; [intros []|].
  destruct (Nat.eqb k u) eqn:E; [apply Nat.eqb_eq in E; now left|right; now apply IH].
Qed.

Theorem bfs_is_unit_distance adj s t max_iter st p obj :
  Bfs.bfs adj s (Bfs.goal_val t) max_iter = Some (Bfs.Found st p obj) -> is_dist (adj_graph adj) s t obj.
Proof.
  intros H. pose proof (bfs_shortest _ _ _ _ _ _ _ H) as Hmin.
  apply (search_path_valid Bfs.Queue) in H as (t' & Hp & Hg & ->). simpl in Hg. apply Nat.eqb_eq in Hg. subst t'.
  split.
  - exists p. apply path_unit_walk; [apply succ_of_key|exact Hp].
  - intros q d Hw. apply unit_walk_path in Hw as [Hq ->]. apply (Hmin t q Hq). simpl. apply Nat.eqb_refl.
Qed.

Theorem bfs_bf_agree adj s t max_iter st p obj n p' x :
  Bfs.bfs adj s (Bfs.goal_val t) max_iter = Some (Bfs.Found st p obj) ->
  BF.bellman_ford s (adj_graph adj) n (Some t) = BF.Path p' x -> x = obj.
Proof.
  intros Hb Hbf. apply bfs_is_unit_distance in Hb.
  pose proof (bellman_ford_sound s (adj_graph adj) n (Some t)) as H. rewrite Hbf in H.
  destruct H as (_ & t' & Ht & _ & Hd). injection Ht as <-. eapply is_dist_unique; eauto.
Qed.

(* bfs and dfs agree on reachability of the goal *)
Theorem bfs_dfs_agree adj s isg mi mi' r r' :
  Bfs.bfs adj s (Some isg) mi = Some r -> Bfs.dfs adj s (Some isg) mi' = Some r' ->
  r <> Bfs.NotFound Bfs.MAX_ITER -> r' <> Bfs.NotFound Bfs.MAX_ITER ->
  ((exists p o, r = Bfs.Found Bfs.OPTIMAL p o) <-> (exists p o, r' = Bfs.Found Bfs.FEASIBLE p o)).
Proof.
  intros Hb Hd Hm Hm'.
  rewrite (search_finds_iff_reachable Bfs.Queue _ _ _ _ _ Hb Hm).
  rewrite (search_finds_iff_reachable Bfs.Stack _ _ _ _ _ Hd Hm'). tauto.
Qed.
