(* C11: soundness of the boolean checkers of BellmanFordSpec.v (run on implementation outputs). *)
From Coq Require Import List ZArith Bool Arith Lia.
From SV Require Import C11.Paths C11.PathsLemmas C11.DistCert C11.BellmanFord C11.FloydWarshall C11.BellmanFordSpec.
Import ListNotations.
Import BFSpec.
Local Open Scope Z_scope.

Lemma bmem_In x l : mem x l = true <-> In x l.
Proof.
  unfold mem. rewrite existsb_exists. split.
  - intros (y & Hy & He). apply Nat.eqb_eq in He. now subst.
  - intros H. exists x. split; [exact H|apply Nat.eqb_refl].
Qed.

Lemma oz_eqb_eq a b : oz_eqb a b = true -> a = b.
Proof. destruct a, b; simpl; intros H; try discriminate; [apply Z.eqb_eq in H; now subst|reflexivity]. Qed.

Lemma edge_le_sound g d : forallb (edge_le d) g = true -> edges_le g d.
Proof.
  intros H u v w du Hin Hu. rewrite forallb_forall in H. specialize (H _ Hin). unfold edge_le in H.
  change (getd d u) with (dget d u) in H. rewrite Hu in H. change (getd d v) with (dget d v) in H.
  destruct (dget d v) as [dv|]; [|discriminate]. exists dv. split; [reflexivity|]. now apply Z.leb_le.
Qed.

(* every member of the tight closure is reached by a walk of weight d[v] *)
Definition reached (g : wgraph) (s : nat) (d : list (option Z)) (R : list nat) : Prop :=
  forall v, In v R -> exists x p, dget d v = Some x /\ walk g s v p x.

Lemma tight_step_reached g s d : forall es R, incl es g -> reached g s d R -> reached g s d (tight_step es d R).
Proof.
  unfold tight_step. induction es as [|[[u v] w] es IH]; intros R Hi HR; [exact HR|].
  simpl. apply IH; [intros e He; apply Hi; now right|].
  destruct (mem u R && negb (mem v R) &&
            match getd d u, getd d v with Some du, Some dv => dv =? du + w | _, _ => false end) eqn:E; [|exact HR].
  apply andb_true_iff in E as [E Et]. apply andb_true_iff in E as [Eu _]. apply bmem_In in Eu.
  change (getd d u) with (dget d u) in Et. change (getd d v) with (dget d v) in Et.
  destruct (dget d u) as [du|] eqn:Edu; [|discriminate]. destruct (dget d v) as [dv|] eqn:Edv; [|discriminate].
  apply Z.eqb_eq in Et. intros y [<-|Hy]; [|now apply HR].
  destruct (HR u Eu) as (x & p & Hx & Hp). rewrite Edu in Hx. injection Hx as <-.
  exists dv, (p ++ [v]). split; [exact Edv|]. subst dv. eapply walk_snoc; [exact Hp|]. apply Hi. now left.
Qed.

Lemma tight_closure_reached g s d : forall k R, reached g s d R -> reached g s d (tight_closure k g d R).
Proof.
  induction k as [|k IH]; intros R HR; [exact HR|]. simpl. apply IH. apply tight_step_reached; [apply incl_refl|exact HR].
Qed.

Theorem cert_check_sound g s d n : cert_check g s d n = true -> dist_vector g s d /\ ~ neg_cycle_reachable g s.
Proof.
  unfold cert_check. intros H. apply andb_true_iff in H as [H Hall]. apply andb_true_iff in H as [H Hle].
  apply andb_true_iff in H as [Hs Hlen]. apply oz_eqb_eq in Hs. apply Nat.eqb_eq in Hlen.
  change (getd d s) with (dget d s) in Hs. pose proof (edge_le_sound _ _ Hle) as He.
  split; [|eapply cert_no_neg_cycle; eauto].
  apply cert_sound; auto.
  intros v x Hv.
  assert (Hvn : (v < n)%nat).
  { destruct (lt_dec v n) as [Hl|Hl]; [exact Hl|]. unfold dget in Hv. rewrite nth_overflow in Hv by lia. discriminate. }
  rewrite forallb_forall in Hall. specialize (Hall v). rewrite in_seq in Hall. specialize (Hall ltac:(lia)).
  change (getd d v) with (dget d v) in Hall. rewrite Hv in Hall. apply bmem_In in Hall.
  assert (H0 : reached g s d [s]).
  { intros y [<-|[]]. exists 0, [s]. split; [exact Hs|apply walk_nil]. }
  destruct (tight_closure_reached g s d n [s] H0 v Hall) as (x' & p & Hx' & Hp).
  rewrite Hv in Hx'. injection Hx' as <-. now exists p.
Qed.

(* bellman_ford answers for single targets, judged against the certified vector *)
Theorem spec_check_sound s g n d qs : spec_check s g n d qs = true ->
  dist_vector g s d /\ ~ neg_cycle_reachable g s /\
  forall t r, In (t, r) qs ->
    match r with
    | BF.Path p x => walk g s t p x /\ is_dist g s t x
    | BF.Infeasible => ~ reachable g s t
    | _ => False
    end.
Proof.
  unfold spec_check. intros H. apply andb_true_iff in H as [Hc Hq].
  destruct (cert_check_sound _ _ _ _ Hc) as [Hd Hn]. split; [exact Hd|]. split; [exact Hn|].
  intros t r Hin. rewrite forallb_forall in Hq. specialize (Hq _ Hin). unfold query_check in Hq.
  specialize (Hd t). change (getd d t) with (dget d t) in Hq.
  destruct r; try discriminate.
  - apply oz_eqb_eq in Hq. rewrite Hq in Hd. exact Hd.
  - apply andb_true_iff in Hq as [Hw Hx]. apply oz_eqb_eq in Hx. rewrite Hx in Hd.
    split; [now apply walk_check_sound|exact Hd].
Qed.

(* all-pairs matrix: row i is a certificate for source i *)
Definition fw_graph (edges : wgraph) (directed : bool) : wgraph := FW.graph_of edges directed.

Theorem fw_spec_check_sound n edges directed m : fw_spec_check n edges directed m = true ->
  forall i, (i < n)%nat -> dist_vector (fw_graph edges directed) i (nth i m []) /\
                           ~ neg_cycle_reachable (fw_graph edges directed) i.
Proof.
  unfold fw_spec_check, fw_graph, FW.graph_of. cbv zeta. intros H i Hi. apply andb_true_iff in H as [_ H].
  rewrite forallb_forall in H. specialize (H i). rewrite in_seq in H. specialize (H ltac:(lia)).
  now apply cert_check_sound in H.
Qed.
