(* C11 part B - the generic theorems of BestProofs1/2 instantiated for dijkstra, astar (graphs over Z, stated
   with C11.Paths.walk on the edge list) and astar_grid (exact Z[sqrt 2] grid graph). *)
From Coq Require Import List ZArith Bool Arith Lia.
From SV Require Import C11.Paths C11.BestFirst C11.BestGrid C11.BestSpec C11.BestGraph C11.BestProofs1 C11.BestProofs2.
Import ListNotations.
Open Scope Z_scope.

Lemma nat_eqb_spec : forall a b : nat, Nat.eqb a b = true <-> a = b.
Proof. intros. apply Nat.eqb_eq. Qed.

Lemma cell_eqb_spec : forall a b : cell, cell_eqb a b = true <-> a = b.
Proof.
  intros [a1 a2] [b1 b2]. unfold cell_eqb. simpl. rewrite andb_true_iff, !Z.eqb_eq.
  split; [intros [H1 H2]; subst; reflexivity|intros H; inversion H; auto].
Qed.

Lemma In_edges_from : forall adj k u v w,
  In (u, v, w) (edges_from k adj) <-> (k <= u)%nat /\ In (v, w) (nth (u - k) adj []).
Proof.
  induction adj as [|l rest IH]; intros k u v w; simpl.
  - split; [tauto|]. intros [_ H]. destruct (u - k)%nat; destruct H.
  - rewrite in_app_iff, in_map_iff, IH. split.
    + intros [[[v' w'] [E Hin]]|[Hle Hin]].
      * simpl in E. inversion E; subst. split; [lia|]. rewrite Nat.sub_diag. assumption.
      * split; [lia|]. replace (u - k)%nat with (S (u - S k)) by lia. assumption.
    + intros [Hle Hin]. destruct (u - k)%nat as [|m] eqn:E.
      * left. exists (v, w). simpl. split; [|assumption]. f_equal. f_equal. lia.
      * right. split; [lia|]. replace (u - S k)%nat with m by lia. assumption.
Qed.

Lemma In_adj_edges : forall adj u v w, In (u, v, w) (adj_edges adj) <-> In (v, w) (adj_nbrs adj u).
Proof.
  intros. unfold adj_edges, adj_nbrs. rewrite In_edges_from, Nat.sub_0_r. split; [tauto|]. split; [lia|assumption].
Qed.

Lemma lwalk_walk : forall adj u a q t d,
  lwalk Z.add (adj_nbrs adj) u a q t d -> walk (adj_edges adj) u t (u :: q) (d - a).
Proof.
  intros adj u a q t d H. induction H as [u a|u a v w q t d Hin Hw IH].
  - replace (a - a) with 0 by lia. constructor.
  - replace (d - a) with (w + (d - (a + w))) by lia. econstructor; [|exact IH].
    apply In_adj_edges. assumption.
Qed.

Lemma walk_lwalk : forall adj u t p d, walk (adj_edges adj) u t p d ->
  forall a, exists q, p = u :: q /\ lwalk Z.add (adj_nbrs adj) u a q t (a + d).
Proof.
  intros adj u t p d H. induction H as [u|u v t p w d Hin Hw IH]; intros a.
  - exists []. split; [reflexivity|]. replace (a + 0) with a by lia. constructor.
  - destruct (IH (a + w)) as [q [Hp Hq]]. exists (v :: q). split; [subst; reflexivity|].
    econstructor; [apply In_adj_edges; eassumption|]. replace (a + (w + d)) with (a + w + d) by lia. assumption.
Qed.

Lemma graph_res_ok_of : forall adj start goals found (r : result nat Z),
  res_ok 0 Z.add found (adj_nbrs adj) (goal_in goals) start r -> graph_res_ok adj start goals found r.
Proof.
  intros adj start goals found r H. unfold res_ok in H. unfold graph_res_ok.
  destruct (r_path r) as [p|]; [|assumption].
  destruct H as [d [Ho [[q [t [Hp [Hw Hg]]]] Hs]]]. subst p.
  exists d, t. repeat split; try assumption.
  apply lwalk_walk in Hw. replace (d - 0) with d in Hw by lia. assumption.
Qed.

Lemma unreachable_of : forall adj start goals,
  unreachable_goal Z.add (adj_nbrs adj) (goal_in goals) start -> no_goal_reachable adj start goals.
Proof.
  intros adj start goals H t Ht [p [d Hw]].
  destruct (walk_lwalk _ _ _ _ _ Hw 0) as [q [_ Hq]].
  apply H in Hq. congruence.
Qed.

(* ---- (1) returned paths are real ---- *)
Theorem dijkstra_path_valid : forall fuel adj start goals max_iter max_cost r,
  dijkstra_gen fuel adj start goals max_iter max_cost = Some r -> graph_res_ok adj start goals OPTIMAL r.
Proof.
  intros. apply graph_res_ok_of. unfold dijkstra_gen, dijkstra_c in H.
  eapply (best_first_path_valid Nat.eqb nat_eqb_spec). eassumption.
Qed.

Theorem astar_path_valid : forall fuel adj start goals htab weight max_iter max_cost r,
  astar_gen fuel adj start goals htab weight max_iter max_cost = Some r ->
  graph_res_ok adj start goals (if weight =? 1 then OPTIMAL else FEASIBLE) r.
Proof.
  intros. apply graph_res_ok_of. unfold astar_gen, astar_c in H.
  eapply (best_first_path_valid Nat.eqb nat_eqb_spec). eassumption.
Qed.

Theorem astar_grid_path_valid : forall g start goal directions h blocked cost_map weight max_iter r,
  astar_grid_zr g start goal directions h blocked cost_map weight max_iter = Some r ->
  grid_res_ok g start goal directions blocked cost_map weight r.
Proof.
  intros g start goal directions h blocked cost_map weight max_iter r H.
  unfold astar_grid_zr in H. unfold grid_res_ok.
  assert (G : forall wh, astar_c cell_eqb zr_zero zr_add zr_ltb wh (if weight =? 1 then OPTIMAL else FEASIBLE)
                 (grid_nbrs (1, 0) zr_of_Z zr_mul_sqrt2 g (dirs_of directions) blocked cost_map)
                 (cell_eqb goal) max_iter None (grid_fuel g) start = Some r ->
               res_ok zr_zero zr_add (if weight =? 1 then OPTIMAL else FEASIBLE)
                 (zr_grid_nbrs g directions blocked cost_map) (cell_eqb goal) start r).
  { intros wh Hr. unfold astar_c in Hr. eapply (best_first_path_valid cell_eqb cell_eqb_spec). eassumption. }
  destruct (resolve_h directions h); try discriminate; apply G in H; exact H.
Qed.

(* ---- (2) INFEASIBLE is sound when no max_cost limit is given ---- *)
Theorem dijkstra_infeasible_sound : forall fuel adj start goals max_iter r,
  dijkstra_gen fuel adj start goals max_iter None = Some r -> r_status r = INFEASIBLE ->
  no_goal_reachable adj start goals.
Proof.
  intros fuel adj start goals max_iter r H Hs. apply unreachable_of.
  unfold dijkstra_gen, dijkstra_c in H.
  eapply (best_first_infeasible_sound Nat.eqb nat_eqb_spec); [|exact H|exact Hs]. discriminate.
Qed.

Theorem astar_infeasible_sound : forall fuel adj start goals htab weight max_iter r,
  astar_gen fuel adj start goals htab weight max_iter None = Some r -> r_status r = INFEASIBLE ->
  no_goal_reachable adj start goals.
Proof.
  intros fuel adj start goals htab weight max_iter r H Hs. apply unreachable_of.
  unfold astar_gen, astar_c in H.
  eapply (best_first_infeasible_sound Nat.eqb nat_eqb_spec); [|exact H|exact Hs].
  destruct (weight =? 1); discriminate.
Qed.

Theorem astar_grid_infeasible_sound : forall g start goal directions h blocked cost_map weight max_iter r,
  astar_grid_zr g start goal directions h blocked cost_map weight max_iter = Some r -> r_status r = INFEASIBLE ->
  unreachable_goal zr_add (zr_grid_nbrs g directions blocked cost_map) (cell_eqb goal) start.
Proof.
  intros g start goal directions h blocked cost_map weight max_iter r H Hs.
  unfold astar_grid_zr in H.
  assert (G : forall wh, astar_c cell_eqb zr_zero zr_add zr_ltb wh (if weight =? 1 then OPTIMAL else FEASIBLE)
                 (grid_nbrs (1, 0) zr_of_Z zr_mul_sqrt2 g (dirs_of directions) blocked cost_map)
                 (cell_eqb goal) max_iter None (grid_fuel g) start = Some r ->
               unreachable_goal zr_add (zr_grid_nbrs g directions blocked cost_map) (cell_eqb goal) start).
  { intros wh Hr. unfold astar_c in Hr.
    eapply (best_first_infeasible_sound cell_eqb cell_eqb_spec); [|exact Hr|exact Hs].
    destruct (weight =? 1); discriminate. }
  destruct (resolve_h directions h); try discriminate; apply G in H; exact H.
Qed.
