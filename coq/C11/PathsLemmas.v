(* C11: basic lemmas about walks (shared by part A and part B). *)
From Coq Require Import List ZArith Bool Arith Lia.
From SV Require Import C11.Paths.
Import ListNotations.
Open Scope Z_scope.

Lemma walk_hd g u t p d : walk g u t p d -> exists q, p = u :: q.
Proof. intros H; inversion H; subst; eauto. Qed.

Lemma walk_nonempty g u t p d : walk g u t p d -> p <> [].
Proof. intros H; destruct (walk_hd _ _ _ _ _ H) as [q ->]; discriminate. Qed.

Lemma walk_last g u t p d : walk g u t p d -> forall x, last p x = t.
Proof.
  induction 1 as [u|u v t p w d Hin Hw IH]; intros x; [reflexivity|].
  destruct (walk_hd _ _ _ _ _ Hw) as [q ->]. specialize (IH x).
  change (last (u :: v :: q) x) with (last (v :: q) x). exact IH.
Qed.

Lemma walk_one g u v w : In (u, v, w) g -> walk g u v [u; v] w.
Proof.
  intros H. replace w with (w + 0) by lia. eapply walk_cons; [exact H|apply walk_nil].
Qed.

Lemma walk_app g u v p d : walk g u v p d ->
  forall t q e, walk g v t (v :: q) e -> walk g u t (p ++ q) (d + e).
Proof.
  induction 1 as [u|u v' v p w d Hin Hw IH]; intros t q e H2.
  - simpl. replace (0 + e) with e by lia. exact H2.
  - simpl. replace (w + d + e) with (w + (d + e)) by lia.
    eapply walk_cons; [exact Hin|]. apply IH. exact H2.
Qed.

Lemma walk_snoc g u v p d t w : walk g u v p d -> In (v, t, w) g -> walk g u t (p ++ [t]) (d + w).
Proof.
  intros H Hin. eapply walk_app; [exact H|]. apply walk_one. exact Hin.
Qed.

Lemma walk_split g : forall a u t x b d, walk g u t (a ++ x :: b) d ->
  exists d1 d2, walk g u x (a ++ [x]) d1 /\ walk g x t (x :: b) d2 /\ d = d1 + d2.
Proof.
  induction a as [|y a IH]; intros u t x b d H; simpl in *.
  - destruct (walk_hd _ _ _ _ _ H) as [q Hq]. injection Hq as -> _.
    exists 0, d. split; [apply walk_nil|split; [exact H|lia]].
  - inversion H as [|u' v t' p w d' Hin Hw]; subst.
    + destruct a; discriminate.
    + destruct (IH _ _ _ _ _ Hw) as (d1 & d2 & H1 & H2 & ->).
      exists (w + d1), d2. split; [|split; [exact H2|lia]].
      eapply walk_cons; [exact Hin|exact H1].
Qed.

Lemma reachable_refl g s : reachable g s s.
Proof. exists [s], 0. apply walk_nil. Qed.

Lemma reachable_trans g a b c : reachable g a b -> reachable g b c -> reachable g a c.
Proof.
  intros (p & d & H1) (q & e & H2). destruct (walk_hd _ _ _ _ _ H2) as [q' ->].
  exists (p ++ q'), (d + e). eapply walk_app; eauto.
Qed.

Lemma reachable_edge g s u v w : reachable g s u -> In (u, v, w) g -> reachable g s v.
Proof.
  intros (p & d & H) Hin. exists (p ++ [v]), (d + w). eapply walk_snoc; eauto.
Qed.

Lemma walk_in_graph_nodes g u t p d : walk g u t p d ->
  forall x, In x p -> x = u \/ exists a w, In (a, x, w) g.
Proof.
  induction 1 as [u|u v t p w d Hin Hw IH]; intros x Hx.
  - destruct Hx as [<-|[]]. now left.
  - destruct Hx as [<-|Hx]; [now left|].
    destruct (IH x Hx) as [->|H']; right; eauto.
Qed.

Lemma walk_mono g g' u t p d : incl g g' -> walk g u t p d -> walk g' u t p d.
Proof.
  intros Hi. induction 1; [apply walk_nil|]. eapply walk_cons; eauto.
Qed.

(* ---- boolean twins ---- *)
Lemma edge_weights_in g u v w : In w (edge_weights g u v) <-> In (u, v, w) g.
Proof.
  unfold edge_weights. rewrite in_map_iff. split.
  - intros ([[a b] c] & Hc & Hin). simpl in Hc. subst c. apply filter_In in Hin as [Hin Hf]. simpl in Hf.
    apply andb_true_iff in Hf as [Ha Hb]. apply Nat.eqb_eq in Ha, Hb. subst. exact Hin.
  - intros Hin. exists (u, v, w). split; [reflexivity|]. apply filter_In. split; [exact Hin|].
    simpl. rewrite !Nat.eqb_refl. reflexivity.
Qed.

Lemma walk_sums_sound g : forall p d, In d (walk_sums g p) ->
  exists u, hd_error p = Some u /\ walk g u (last p u) p d.
Proof.
  induction p as [|u q IH]; intros d H; [destruct H|].
  destruct q as [|v q'].
  - destruct H as [<-|[]]. exists u. split; [reflexivity|]. apply walk_nil.
  - change (walk_sums g (u :: v :: q')) with
      (flat_map (fun w => map (fun d => w + d) (walk_sums g (v :: q'))) (edge_weights g u v)) in H.
    apply in_flat_map in H as (w & Hw & Hd). apply in_map_iff in Hd as (d' & <- & Hd').
    apply edge_weights_in in Hw. destruct (IH _ Hd') as (v' & Hv & Hwalk). injection Hv as <-.
    exists u. split; [reflexivity|].
    change (last (u :: v :: q') u) with (last (v :: q') u).
    rewrite (walk_last _ _ _ _ _ Hwalk u). eapply walk_cons; [exact Hw|exact Hwalk].
Qed.

Lemma walk_check_sound g s t p d : walk_check g s t p d = true -> walk g s t p d.
Proof.
  unfold walk_check. destruct p as [|u q]; [discriminate|]. intros H.
  apply andb_true_iff in H as [H Hs]. apply andb_true_iff in H as [Hu Ht].
  apply Nat.eqb_eq in Hu, Ht. subst u.
  apply existsb_exists in Hs as (d' & Hin & Hd). apply Z.eqb_eq in Hd. subst d'.
  destruct (walk_sums_sound _ _ _ Hin) as (u & Hu & Hw). injection Hu as <-.
  rewrite Ht in Hw. exact Hw.
Qed.

Lemma walk_sums_complete g u t p d : walk g u t p d -> In d (walk_sums g p).
Proof.
  induction 1 as [u|u v t p w d Hin Hw IH]; [now left|].
  destruct (walk_hd _ _ _ _ _ Hw) as [q ->].
  change (walk_sums g (u :: v :: q)) with
    (flat_map (fun w => map (fun d => w + d) (walk_sums g (v :: q))) (edge_weights g u v)).
  apply in_flat_map. exists w. split; [now apply edge_weights_in|]. apply in_map. exact IH.
Qed.

Lemma walk_check_complete g s t p d : walk g s t p d -> walk_check g s t p d = true.
Proof.
  intros H. unfold walk_check. pose proof (walk_sums_complete _ _ _ _ _ H) as Hs.
  pose proof (walk_last _ _ _ _ _ H s) as Hl. destruct (walk_hd _ _ _ _ _ H) as [q ->].
  rewrite Nat.eqb_refl, Hl, Nat.eqb_refl. cbn [andb].
  apply existsb_exists. exists d. split; [exact Hs|apply Z.eqb_refl].
Qed.

(* ---- successor-function view ---- *)
Lemma last_default {A} (q : list A) d d' : q <> [] -> last q d = last q d'.
Proof.
  induction q as [|x q IH]; intros H; [congruence|].
  destruct q as [|y q]; [reflexivity|].
  change (last (x :: y :: q) d) with (last (y :: q) d). change (last (x :: y :: q) d') with (last (y :: q) d').
  apply IH. discriminate.
Qed.

Lemma is_path_single succ s : is_path succ s s [s].
Proof. repeat split; discriminate. Qed.

Lemma is_path_cons succ s v t q : In v (succ s) -> is_path succ v t (v :: q) -> is_path succ s t (s :: v :: q).
Proof.
  intros Hin (Hp & _ & Hl & _). split; [split; [exact Hin|exact Hp]|]. split; [reflexivity|]. split; [|discriminate].
  change (last (s :: v :: q) s) with (last (v :: q) s). rewrite <- Hl. apply last_default. discriminate.
Qed.

(* the last edge of a walk *)
Lemma walk_unsnoc g u t p c : walk g u t p c ->
  (p = [u] /\ t = u /\ c = 0) \/
  exists a p' c' w, p = p' ++ [t] /\ walk g u a p' c' /\ In (a, t, w) g /\ c = c' + w.
Proof.
  induction 1 as [u|u v t p w c Hin Hw IH]; [left; auto|]. right.
  destruct IH as [(-> & -> & ->)|(a & p' & c' & w' & -> & Hw' & Hin' & ->)].
  - exists u, [u], 0, w. repeat split; auto; [apply walk_nil|lia].
  - exists a, (u :: p'), (w + c'), w'. repeat split; auto; [eapply walk_cons; eauto|lia].
Qed.

Lemma walk_last_edge g u t q c : walk g u t (u :: q ++ [t]) c -> exists a w, In (a, t, w) g.
Proof.
  intros H. destruct (walk_unsnoc _ _ _ _ _ H) as [(Hp & _)|(a & p' & c' & w & _ & _ & Hin & _)]; [|eauto].
  exfalso. injection Hp as Hp. destruct q; discriminate.
Qed.

Lemma NoDup_app_l {A} (a b : list A) : NoDup (a ++ b) -> NoDup a.
Proof. induction a as [|x a IH]; intros H; [constructor|]. inversion H; subst. constructor; [rewrite in_app_iff in *; tauto|auto]. Qed.

Lemma NoDup_app_r {A} (a b : list A) : NoDup (a ++ b) -> NoDup b.
Proof. induction a as [|x a IH]; intros H; [exact H|]. inversion H; subst. auto. Qed.

Lemma is_dist_unique g s t x y : is_dist g s t x -> is_dist g s t y -> x = y.
Proof. intros [(p & Hp) Hx] [(q & Hq) Hy]. pose proof (Hx _ _ Hq). pose proof (Hy _ _ Hp). lia. Qed.

Lemma is_dist_reachable g s t x : is_dist g s t x -> reachable g s t.
Proof. intros [(p & Hp) _]. now exists p, x. Qed.

(* ---- unit-weight graph of a successor function: paths are walks whose weight is the number of edges ---- *)
Lemma in_unit_graph nodes succ u v w :
  In (u, v, w) (unit_graph nodes succ) <-> In u nodes /\ In v (succ u) /\ w = 1.
Proof.
  unfold unit_graph. rewrite in_flat_map. split.
  - intros (x & Hx & Hin). apply in_map_iff in Hin as (y & Heq & Hy). injection Heq as -> -> <-. auto.
  - intros (Hu & Hv & ->). exists u. split; [exact Hu|]. apply in_map_iff. exists v. auto.
Qed.

Lemma unit_walk_path nodes succ s t p d : walk (unit_graph nodes succ) s t p d ->
  is_path succ s t p /\ d = Z.of_nat (length p) - 1.
Proof.
  induction 1 as [u|u v t p w d Hin Hw [IHp IHd]].
  - split; [apply is_path_single|reflexivity].
  - apply in_unit_graph in Hin as (_ & Hv & ->). destruct (walk_hd _ _ _ _ _ Hw) as [q ->].
    split; [now apply is_path_cons|]. subst d. cbn [length]. lia.
Qed.

Lemma path_unit_walk nodes succ : (forall u v, In v (succ u) -> In u nodes) ->
  forall p s t, is_path succ s t p -> walk (unit_graph nodes succ) s t p (Z.of_nat (length p) - 1).
Proof.
  intros Hn. induction p as [|u p IH]; intros s t (Hp & Hh & Hl & Hne); [congruence|].
  injection Hh as ->. destruct p as [|v p].
  - simpl in Hl. subst t. apply walk_nil.
  - destruct Hp as [Huv Hp].
    replace (Z.of_nat (length (s :: v :: p)) - 1) with (1 + (Z.of_nat (length (v :: p)) - 1)) by (cbn [length]; lia).
    eapply walk_cons.
    + apply in_unit_graph. split; [eapply Hn; eauto|]. split; [exact Huv|reflexivity].
    + apply IH. split; [exact Hp|]. split; [reflexivity|]. split; [|discriminate].
      change (last (s :: v :: p) s) with (last (v :: p) s) in Hl. rewrite <- Hl. apply last_default. discriminate.
Qed.
