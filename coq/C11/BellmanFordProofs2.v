(* C11 bellman_ford proofs, part 2: n-1 rounds (or an earlier round without update) suffice when no negative
   closed walk is reachable: the detection round is then silent.  With part 1: UNBOUNDED iff a negative
   cycle is reachable, otherwise exact distances. *)
From Coq Require Import List ZArith Bool Arith Lia.
From SV Require Import C11.Paths C11.PathsLemmas C11.PathsSimple C11.DistCert C11.BellmanFord C11.BellmanFordProofs1.
Import ListNotations.
Import BF.
Local Open Scope Z_scope.


(* ---- a round that reports no update changed nothing and found nothing to relax ---- *)
Lemma fold_relax_flag_true : forall es d p, snd (fold_left relax es (d, p, true)) = true.
Proof.
  induction es as [|[[u v] w] es IH]; intros d p; [reflexivity|]. cbn [fold_left].
  unfold relax at 2. destruct (getd d u); [|apply IH]. destruct (lt_inf _ _); apply IH.
Qed.

Lemma fold_relax_noupd : forall es d p d' p', fold_left relax es (d, p, false) = (d', p', false) ->
  d' = d /\ p' = p /\ forall e, In e es -> relaxable d e = false.
Proof.
  induction es as [|[[u v] w] es IH]; intros d p d' p' H.
  - injection H as <- <-. repeat split; auto. intros e [].
  - cbn [fold_left] in H. destruct (relaxable d (u, v, w)) eqn:Er.
    + exfalso.
      assert (Hx : exists d1 p1, relax (d, p, false) (u, v, w) = (d1, p1, true)).
      { unfold relax, relaxable in *. destruct (getd d u) as [du|]; [|discriminate]. rewrite Er. eauto. }
      destruct Hx as (d1 & p1 & Hx). rewrite Hx in H.
      pose proof (fold_relax_flag_true es d1 p1) as Hf. rewrite H in Hf. discriminate.
    + assert (Hx : relax (d, p, false) (u, v, w) = (d, p, false)).
      { unfold relax, relaxable in *. destruct (getd d u) as [du|]; [|reflexivity]. now rewrite Er. }
      rewrite Hx in H. destruct (IH _ _ _ _ H) as (-> & -> & Hall).
      repeat split; auto. intros e [<-|He]; [exact Er|now apply Hall].
Qed.

Section Rounds.
Variable g : wgraph.
Variable s : nat.
Variable n : nat.
Hypothesis Hs : (s < n)%nat.
Hypothesis Hg : forall u v w, In (u, v, w) g -> (u < n)%nat /\ (v < n)%nat.

Notation inv := (inv g s n).

(* after processing an edge list containing (u,v,w): d[v] <= (any bound on the initial d[u]) + w *)
Lemma fold_relax_edge u v w : forall es d p upd du B, incl es g -> inv d p -> In (u, v, w) es ->
  dget d u = Some du -> du <= B ->
  let '(d', _, _) := fold_left relax es (d, p, upd) in exists x, dget d' v = Some x /\ x <= B + w.
Proof.
  induction es as [|[[a b] c] es IH]; intros d p upd du B Hi Hinv Hin Hdu HB; [destruct Hin|].
  cbn [fold_left].
  pose proof (relax_inv g s n Hs Hg d p upd a b c (Hi _ (or_introl eq_refl)) Hinv) as H1.
  destruct (relax (d, p, upd) (a, b, c)) as [[d1 p1] upd1] eqn:Er. destruct H1 as [Hinv1 Hle1].
  assert (Hi' : incl es g) by (intros e He; apply Hi; now right).
  destruct Hin as [Heq|Hin].
  - injection Heq as -> -> ->.
    (* right after relaxing this edge d1[v] <= du + w; later steps only decrease *)
    assert (H1v : exists x, dget d1 v = Some x /\ x <= du + w).
    { unfold relax in Er. change getd with dget in Er. rewrite Hdu in Er.
      destruct (lt_inf (du + w) (dget d v)) eqn:Elt.
      - injection Er as <- _ _. exists (du + w). split; [|lia].
        unfold dget. apply nth_set_nth_eq. destruct (Hg _ _ _ (Hi _ (or_introl eq_refl))). rewrite (i_len_d _ _ _ _ _ Hinv). lia.
      - injection Er as <- _ _. apply lt_inf_false in Elt as (y & Hy & Hle). eauto. }
    destruct H1v as (x & Hx & Hxle).
    pose proof (fold_relax_inv g s n Hs Hg es d1 p1 upd1 Hi' Hinv1) as H2.
    destruct (fold_left relax es (d1, p1, upd1)) as [[d2 p2] upd2]. destruct H2 as [_ Hle2].
    destruct (Hle2 _ _ Hx) as (y & Hy & Hyle). exists y. split; [exact Hy|lia].
  - destruct (Hle1 _ _ Hdu) as (du1 & Hdu1 & Hdu1le).
    apply (IH d1 p1 upd1 du1 B); auto. lia.
Qed.

(* K k d: d bounds every walk from s with at most k edges *)
Definition K (k : nat) (d : dvec) : Prop :=
  forall v q c, walk g s v q c -> (length q <= S k)%nat -> exists x, dget d v = Some x /\ x <= c.

Lemma K_mono k d d' : vec_le d' d -> K k d -> K k d'.
Proof.
  intros Hle HK v q c Hw Hl. destruct (HK v q c Hw Hl) as (x & Hx & Hxle).
  destruct (Hle _ _ Hx) as (y & Hy & Hyle). exists y. split; [exact Hy|lia].
Qed.

Lemma round_K k d p : inv d p -> K k d ->
  let '(d', _, _) := round g d p in K (S k) d'.
Proof.
  intros Hinv HK. unfold round.
  pose proof (fold_relax_inv g s n Hs Hg g d p false (incl_refl g) Hinv) as H1.
  destruct (fold_left relax g (d, p, false)) as [[d1 p1] upd1] eqn:Ef. destruct H1 as [_ Hle1].
  intros v q c Hw Hl. destruct (walk_unsnoc _ _ _ _ _ Hw) as [(-> & -> & ->)|(a & q' & c' & w & -> & Hw' & Hin & ->)].
  - apply (K_mono k d d1 Hle1 HK s [s] 0 Hw). simpl. lia.
  - assert (Hl' : (length q' <= S k)%nat) by (rewrite app_length in Hl; simpl in Hl; lia).
    destruct (HK a q' c' Hw' Hl') as (da & Hda & Hdale).
    pose proof (fold_relax_edge a v w g d p false da c' (incl_refl g) Hinv Hin Hda Hdale) as H2.
    rewrite Ef in H2. exact H2.
Qed.

Lemma edges_le_detect d : edges_le g d -> detect g d = false.
Proof.
  intros He. unfold detect. destruct (existsb (relaxable d) g) eqn:E; [|reflexivity]. exfalso.
  apply existsb_exists in E as ([[u v] w] & Hin & Hr). unfold relaxable in Hr. change getd with dget in Hr.
  destruct (dget d u) as [du|] eqn:Edu; [|discriminate].
  destruct (He _ _ _ _ Hin Edu) as (dv & Hdv & Hle). rewrite Hdv in Hr. simpl in Hr. apply Z.ltb_lt in Hr. lia.
Qed.

Lemma rounds_K : forall k k0 d p, inv d p -> K k0 d ->
  let '(d', _) := rounds k g d p in detect g d' = false \/ K (k0 + k) d'.
Proof.
  induction k as [|k IH]; intros k0 d p Hinv HK.
  - simpl. right. now rewrite Nat.add_0_r.
  - simpl. pose proof (round_K k0 d p Hinv HK) as H1. unfold round in *.
    pose proof (fold_relax_inv g s n Hs Hg g d p false (incl_refl g) Hinv) as H2.
    destruct (fold_left relax g (d, p, false)) as [[d1 p1] upd1] eqn:Ef. destruct H2 as [Hinv1 _].
    destruct upd1.
    + pose proof (IH (S k0) d1 p1 Hinv1 H1) as H3. destruct (rounds k g d1 p1) as [d2 p2].
      replace (k0 + S k)%nat with (S k0 + k)%nat by lia. exact H3.
    + left. destruct (fold_relax_noupd _ _ _ _ _ Ef) as (-> & -> & Hall).
      unfold detect. destruct (existsb (relaxable d) g) eqn:E; [|reflexivity].
      apply existsb_exists in E as (e & He & Hr). rewrite (Hall e He) in Hr. discriminate.
Qed.

Lemma K0_init : K 0 (init_dist n s).
Proof.
  intros v q c Hw Hl. inversion Hw as [|u x t r w d Hin Hr]; subst.
  - exists 0. split; [|lia]. unfold init_dist, dget. apply nth_set_nth_eq. now rewrite repeat_length.
  - destruct (walk_hd _ _ _ _ _ Hr) as [r' ->]. simpl in Hl. lia.
Qed.

(* the crux: without a negative closed walk reachable from s the detection round is silent *)
Theorem no_neg_detect_false : no_neg_from g s ->
  let '(d, _) := final_state s g n in detect g d = false.
Proof.
  intros Hnn. unfold final_state.
  pose proof (rounds_K (n - 1) 0 _ _ (init_inv g s n Hs) K0_init) as H1.
  pose proof (rounds_inv g s n Hs Hg (n - 1) _ _ (init_inv g s n Hs)) as H2.
  destruct (rounds (n - 1) g (init_dist n s) (init_parent n)) as [d p]. destruct H2 as [Hinv _].
  destruct H1 as [H1|HK]; [exact H1|]. apply edges_le_detect.
  apply exact_edges_le with (s := s); [apply (i_att _ _ _ _ _ Hinv)|].
  intros v q c Hw.
  destruct (walk_simplify g s Hnn (length q) v q c (Nat.le_refl _) Hw) as (q' & c' & Hw' & Hle & Hnd).
  assert (Hlen : (length q' <= n)%nat).
  { apply NoDup_bounded_length; [exact Hnd|]. eapply walk_bounded; eauto. }
  destruct (HK v q' c' Hw') as (x & Hx & Hxle); [simpl; lia|]. exists x. split; [exact Hx|lia].
Qed.

End Rounds.

(* ---- bellman_ford: UNBOUNDED exactly when a negative cycle is reachable ---- *)
Theorem bf_neg_cycle_unbounded start g n target : valid_input start g n target = true ->
  neg_cycle_reachable g start -> bellman_ford start g n target = Unbounded.
Proof.
  intros Hv Hneg. pose proof (bellman_ford_sound start g n target) as H.
  destruct (bellman_ford start g n target) eqn:E; simpl in H; try tauto.
  unfold bellman_ford in E. rewrite Hv in E. simpl in E. destruct (final_state start g n) as [d p].
  destruct (detect g d); [discriminate|]. destruct target as [t|]; [|discriminate].
  destruct (getd d t); [|discriminate]. destruct (reconstruct_indexed p t); discriminate.
Qed.

Theorem bf_unbounded_not_no_neg start g n target :
  bellman_ford start g n target = Unbounded -> ~ no_neg_from g start.
Proof.
  intros E Hnn. unfold bellman_ford in E. destruct (valid_input start g n target) eqn:Hv; [|discriminate].
  simpl in E. destruct (valid_input_facts _ _ _ _ Hv) as (Hs & Hg & _).
  pose proof (no_neg_detect_false g start n Hs Hg Hnn) as H.
  destruct (final_state start g n) as [d p]. rewrite H in E.
  destruct target as [t|]; [|discriminate]. destruct (getd d t); [|discriminate].
  destruct (reconstruct_indexed p t); discriminate.
Qed.

(* constructive form of "UNBOUNDED iff a negative cycle is reachable from the source" *)
Theorem bf_unbounded_iff start g n target : valid_input start g n target = true ->
  (bellman_ford start g n target = Unbounded <-> ~ no_neg_from g start).
Proof.
  intros Hv. split; [apply bf_unbounded_not_no_neg|]. intros Hn.
  pose proof (bellman_ford_sound start g n target) as H.
  destruct (bellman_ford start g n target) eqn:E; simpl in H; auto; exfalso.
  - unfold bellman_ford in E. rewrite Hv in E. simpl in E. destruct (final_state start g n) as [d p].
    destruct (detect g d); [discriminate|]. destruct target as [t|]; [|discriminate].
    destruct (getd d t); [|discriminate]. destruct (reconstruct_indexed p t); discriminate.
  - apply Hn, no_neg_from_intro, H.
  - apply Hn, no_neg_from_intro, H.
  - apply Hn, no_neg_from_intro, H.
  - apply Hn, no_neg_from_intro, H.
Qed.

(* with the (classically trivial) case distinction the textbook statement follows *)
Corollary bf_unbounded_iff_classical start g n target : valid_input start g n target = true ->
  (neg_cycle_reachable g start \/ ~ neg_cycle_reachable g start) ->
  (bellman_ford start g n target = Unbounded <-> neg_cycle_reachable g start).
Proof.
  intros Hv [Hneg|Hnn]; split; intros H; auto.
  - now apply bf_neg_cycle_unbounded.
  - exfalso. apply (bf_unbounded_not_no_neg _ _ _ _ H). now apply no_neg_from_intro.
  - contradiction.
Qed.
