(* C11 deepening (4) - bounded suboptimality instantiated: astar_c over any ordered cost type, astar_gen over Z
   (objective <= weight * weight of any walk to a goal node, in particular <= weight * distance), and astar_grid
   over Z[sqrt 2] (zr_scale weight). *)
From Coq Require Import List ZArith Bool Arith Lia.
From SV Require Import C11.Paths C11.BestFirst C11.BestGrid C11.BestSpec C11.BestGraph C11.BestOrder C11.BestHyps
  C11.BestProofs1 C11.BestProofsInst C11.BestProofs5 C11.BestZr2 C11.BestGridProofs C11.DeepBestWeighted.
Import ListNotations.

Section AstarW.
  Context {N C : Type}.
  Variable neqb : N -> N -> bool.
  Hypothesis neqb_spec : forall a b, neqb a b = true <-> a = b.
  Variable czero : C.
  Variable cadd : C -> C -> C.
  Variable cltb : C -> C -> bool.
  Hypothesis OC : ordered_costs czero cadd cltb.
  Variable nbrs : N -> list (N * C).
  Variable is_goal : N -> bool.
  Variable max_iter : Z.
  Variable start : N.
  Notation le := (cle cltb).
  Hypothesis nonneg : forall u v w, In (v, w) (nbrs u) -> le czero w.
  Variable h : N -> C.
  Variable sc : C -> C.
  Hypothesis consistent : forall u v w, In (v, w) (nbrs u) -> le (h u) (cadd w (h v)).
  Hypothesis goal_h : forall t, is_goal t = true -> h t = czero.
  Hypothesis sc_add : forall a b, sc (cadd a b) = cadd (sc a) (sc b).
  Hypothesis sc_mono : forall a b, le a b -> le (sc a) (sc b).
  Hypothesis sc_ge : forall a, le czero a -> le a (sc a).
  Hypothesis sc_zero : sc czero = czero.

  Theorem astar_c_weighted : forall found fuel r,
    astar_c neqb czero cadd cltb (fun v => sc (h v)) found nbrs is_goal max_iter None fuel start = Some r ->
    wopt_res czero cadd cltb nbrs is_goal start sc r.
  Proof.
    intros found fuel r H. unfold astar_c in H.
    eapply (best_first_weighted neqb neqb_spec czero cadd cltb OC (akey_ltb cltb)
              (lex_key_order cltb (fun x y => cltb y x) (ordered_costs_key_order czero cadd cltb OC)
                             (flip_key_order czero cadd cltb OC))
              (fun t v => (cadd t (sc (h v)), t)) (fun _ gc => gc) found nbrs is_goal max_iter start h sc fst);
      try eassumption.
    - intros a b Hab. unfold akey_ltb in Hab. unfold cle. destruct (cltb (fst a) (fst b)); [discriminate|reflexivity].
    - reflexivity.
  Qed.
End AstarW.

Open Scope Z_scope.

(* ---- graphs over Z ---- *)
Theorem astar_weighted_bound : forall fuel adj start goals htab weight max_iter r,
  (1 <=? weight) = true -> nonneg_adj adj = true -> consistent_adj adj goals htab = true ->
  astar_gen fuel adj start goals htab weight max_iter None = Some r ->
  forall d0, r_obj r = Some d0 ->
    (forall t p d, goal_in goals t = true -> walk (adj_edges adj) start t p d -> d0 <= weight * d)
    /\ (forall t dmin, goal_in goals t = true -> is_dist (adj_edges adj) start t dmin -> d0 <= weight * dmin).
Proof.
  intros fuel adj start goals htab weight max_iter r Hw Hn Hc H d0 Hd.
  apply Z.leb_le in Hw. destruct (consistent_adj_spec _ _ _ Hc) as [Hc1 Hc2].
  assert (G : wopt_res 0 Z.add Z.ltb (adj_nbrs adj) (goal_in goals) start (Z.mul weight) r).
  { unfold astar_gen in H.
    eapply (astar_c_weighted Nat.eqb nat_eqb_spec 0 Z.add Z.ltb Z_ordered_costs (adj_nbrs adj) (goal_in goals)
              max_iter start (nonneg_adj_spec adj Hn) (fun v => nth v htab 0) (Z.mul weight)); [| | | | | |exact H].
    - intros u v w Hin. specialize (Hc1 u v w Hin). unfold cle in *. rewrite Z.ltb_ge in *. lia.
    - intros t Ht. specialize (Hc2 t Ht). lia.
    - intros a b. lia.
    - intros a b Hab. unfold cle in *. rewrite Z.ltb_ge in *. nia.
    - intros a Ha. unfold cle in *. rewrite Z.ltb_ge in *. nia.
    - lia. }
  assert (G1 : forall t p d, goal_in goals t = true -> walk (adj_edges adj) start t p d -> d0 <= weight * d).
  { intros t p d Ht Hwk. destruct (walk_lwalk _ _ _ _ _ Hwk 0) as [q [_ Hq]]. simpl in Hq.
    specialize (G d0 Hd t q d Ht Hq). unfold cle in G. apply Z.ltb_ge in G. exact G. }
  split; [exact G1|]. intros t dmin Ht [[p Hp] _]. eapply G1; eassumption.
Qed.

(* ---- Z[sqrt 2]: scaling by a non-negative integer respects the exact order ---- *)
Lemma Pos_scale_inv : forall k a b, 0 < k -> Pos (k * a) (k * b) -> Pos a b.
Proof.
  intros k a b Hk H. unfold Pos in *. destruct H as [[H1 [H2 H3]]|[[H1 [H2 H3]]|[H1 [H2 H3]]]].
  - left. repeat split; [nia|nia|]. destruct H3 as [H3|H3]; [left|right]; nia.
  - right. left. repeat split; [nia|nia|].
    assert (E : k * k * (2 * (b * b)) < k * k * (a * a)) by nia.
    apply Z.mul_lt_mono_pos_l in E; [assumption|nia].
  - right. right. repeat split; [nia|nia|].
    assert (E : k * k * (a * a) < k * k * (2 * (b * b))) by nia.
    apply Z.mul_lt_mono_pos_l in E; [assumption|nia].
Qed.

Lemma zr_scale_mono : forall k x y, 0 <= k -> cle zr_ltb x y -> cle zr_ltb (zr_scale k x) (zr_scale k y).
Proof.
  intros k [a b] [c d] Hk H. unfold cle in *. rewrite zr_ltb_false in *. unfold zr_scale. cbn [fst snd] in *.
  intros HP. destruct (Z.eq_dec k 0) as [E|E].
  - subst k. unfold Pos in HP. lia.
  - apply H. apply (Pos_scale_inv k); [lia|].
    replace (k * (a - c)) with (k * a - k * c) by ring. replace (k * (b - d)) with (k * b - k * d) by ring. assumption.
Qed.

Lemma zr_scale_ge : forall k x, 1 <= k -> cle zr_ltb zr_zero x -> cle zr_ltb x (zr_scale k x).
Proof.
  intros k [a b] Hk H. unfold cle in *. rewrite zr_ltb_false in *. unfold zr_scale, zr_zero in *. cbn [fst snd] in *.
  intros HP. destruct (Z.eq_dec k 1) as [E|E].
  - subst k. replace (a - 1 * a) with 0 in HP by ring. replace (b - 1 * b) with 0 in HP by ring. unfold Pos in HP. lia.
  - apply H. apply (Pos_scale_inv (k - 1)); [lia|].
    replace ((k - 1) * (0 - a)) with (a - k * a) by ring. replace ((k - 1) * (0 - b)) with (b - k * b) by ring. assumption.
Qed.

Lemma zr_scale_add : forall k x y, zr_scale k (zr_add x y) = zr_add (zr_scale k x) (zr_scale k y).
Proof. intros k [a b] [c d]. unfold zr_scale, zr_add. cbn [fst snd]. f_equal; ring. Qed.

Lemma zr_scale_zero : forall k, zr_scale k zr_zero = zr_zero.
Proof. intros k. unfold zr_scale, zr_zero. cbn [fst snd]. f_equal; ring. Qed.

Theorem astar_grid_weighted_bound : forall g start goal directions h blocked cost_map weight max_iter r,
  (1 <=? weight) = true -> costs_ge1 cost_map = true -> heur_ok directions (resolve_h directions h) = true ->
  astar_grid_zr g start goal directions h blocked cost_map weight max_iter = Some r ->
  wopt_res zr_zero zr_add zr_ltb (zr_grid_nbrs g directions blocked cost_map) (cell_eqb goal) start (zr_scale weight) r.
Proof.
  intros g start goal directions h blocked cost_map weight max_iter r Hw Hc Hok H.
  apply Z.leb_le in Hw. unfold astar_grid_zr in H.
  set (hn := resolve_h directions h) in *.
  assert (Hsome : forall u, exists x, zr_heur hn goal u = Some x).
  { intros u. unfold heur_ok in Hok. destruct hn; try discriminate; eexists; reflexivity. }
  set (hh := fun v => match zr_heur hn goal v with Some x => x | None => zr_zero end).
  assert (G : astar_c cell_eqb zr_zero zr_add zr_ltb (fun v => zr_scale weight (hh v))
                (if weight =? 1 then OPTIMAL else FEASIBLE) (zr_grid_nbrs g directions blocked cost_map)
                (cell_eqb goal) max_iter None (grid_fuel g) start = Some r).
  { unfold heur_ok in Hok. unfold hh.
    destruct hn; try discriminate; exact H. }
  clear H.
  assert (Hcons : forall u v w, In (v, w) (zr_grid_nbrs g directions blocked cost_map u) ->
                    cle zr_ltb (hh u) (zr_add w (hh v))).
  { intros u v w Hin. destruct (Hsome u) as [x Hx].
    destruct (grid_consistent g directions blocked cost_map goal hn x Hc Hok u v w Hin Hx) as [y [Hy Hle]].
    unfold hh. rewrite Hx, Hy. assumption. }
  assert (Hgoal : forall t, cell_eqb goal t = true -> hh t = zr_zero).
  { intros t Ht. apply cell_eqb_spec in Ht. subst t. destruct (Hsome goal) as [x Hx]. unfold hh. rewrite Hx.
    unfold heur_ok in Hok. destruct goal as [gr gc]. unfold zr_heur in Hx. simpl fst in Hx. simpl snd in Hx.
    destruct hn; try discriminate; inversion Hx; unfold zr_zero; f_equal; lia. }
  exact (astar_c_weighted cell_eqb cell_eqb_spec zr_zero zr_add zr_ltb zr2_ordered_costs
           (zr_grid_nbrs g directions blocked cost_map) (cell_eqb goal) max_iter start
           (grid_nonneg g directions blocked cost_map Hc) hh (zr_scale weight) Hcons Hgoal
           (zr_scale_add weight) (fun a b => zr_scale_mono weight a b ltac:(lia))
           (fun a => zr_scale_ge weight a Hw) (zr_scale_zero weight) _ (grid_fuel g) r G).
Qed.
