(* C11 floyd_warshall proofs, part 2: the initial matrix, and the statements about FW.floyd_warshall:
   UNBOUNDED iff the graph has a negative closed walk; otherwise the matrix holds exactly the shortest-walk
   distances (None iff unreachable). *)
From Coq Require Import List ZArith Bool Arith Lia.
From SV Require Import C11.Paths C11.PathsLemmas C11.PathsSimple C11.DistCert C11.FloydWarshall C11.FloydWarshallProofs1.
Import ListNotations.
Import FW.
Local Open Scope Z_scope.

Lemma get_oob n m i j : wf n m -> ~ ((i < n)%nat /\ (j < n)%nat) -> get m i j = None.
Proof.
  intros [Hl Hr] H. unfold get. destruct (lt_dec i n) as [Hi|Hi].
  - apply nth_overflow. rewrite Hr by exact Hi. lia.
  - rewrite (nth_overflow m) by lia. now destruct j.
Qed.

Lemma in_sym a b w edges : In (a, b, w) (sym edges) <-> In (a, b, w) edges \/ In (b, a, w) edges.
Proof.
  unfold sym. rewrite in_flat_map. split.
  - intros ([[u v] w'] & Hin & [H|[H|[]]]); injection H as <- <- <-; auto.
  - intros [H|H]; [exists (a, b, w)|exists (b, a, w)]; simpl; auto.
Qed.

Section Init.
Variable g : wgraph.
Variable n : nat.
Hypothesis Hg : forall u v w, In (u, v, w) g -> (u < n)%nat /\ (v < n)%nat.

Notation I := (I g n).

Lemma set_min_I m u v w : In (u, v, w) g -> I m ->
  let m1 := set m u v (min_inf (get m u v) w) in
  I m1 /\ mat_le m1 m /\ exists x, get m1 u v = Some x /\ x <= w.
Proof.
  intros Hin [Hwf Hatt]. destruct (Hg _ _ _ Hin) as [Hu Hv]. cbv zeta.
  set (x := match get m u v with None => w | Some y => Z.min y w end).
  assert (Hm : min_inf (get m u v) w = Some x) by (unfold min_inf, x; destruct (get m u v); reflexivity).
  rewrite Hm. split; [split|split].
  - now apply wf_set.
  - intros i j y Hy. destruct (Nat.eq_dec i u) as [->|Hne1]; [destruct (Nat.eq_dec j v) as [->|Hne2]|].
    + rewrite (get_set_eq n) in Hy by assumption. injection Hy as <-. unfold x.
      destruct (get m u v) as [y|] eqn:Ey; [|exists [u; v]; now apply walk_one].
      destruct (Z.min_spec y w) as [[_ ->]|[_ ->]]; [now apply Hatt|exists [u; v]; now apply walk_one].
    + rewrite get_set_neq in Hy by congruence. now apply Hatt.
    + rewrite get_set_neq in Hy by congruence. now apply Hatt.
  - apply (mat_le_set n); auto. intros y Hy. unfold x. rewrite Hy. lia.
  - exists x. rewrite (get_set_eq n) by assumption. split; [reflexivity|]. unfold x. destruct (get m u v); lia.
Qed.

Lemma add_edge_I directed m u v w : incl (graph_of [(u, v, w)] directed) g -> I m ->
  let m1 := add_edge directed m (u, v, w) in
  I m1 /\ mat_le m1 m /\ forall a b c, In (a, b, c) (graph_of [(u, v, w)] directed) -> exists x, get m1 a b = Some x /\ x <= c.
Proof.
  intros Hi HI. unfold add_edge. cbv zeta. destruct directed; simpl in Hi.
  - destruct (set_min_I m u v w (Hi _ (or_introl eq_refl)) HI) as (H1 & H2 & H3).
    split; [exact H1|]. split; [exact H2|]. intros a b c [H|[]]. injection H as <- <- <-. exact H3.
  - destruct (set_min_I m u v w (Hi _ (or_introl eq_refl)) HI) as (H1 & H2 & x & Hx & Hxw).
    set (m1 := set m u v (min_inf (get m u v) w)) in *.
    destruct (set_min_I m1 v u w (Hi _ (or_intror (or_introl eq_refl))) H1) as (H1' & H2' & H3').
    split; [exact H1'|]. split; [eapply mat_le_trans; eauto|].
    intros a b c [H|[H|[]]]; injection H as <- <- <-; [|exact H3'].
    destruct (H2' _ _ _ Hx) as (y & Hy & Hyx). exists y. split; [exact Hy|lia].
Qed.

Lemma graph_of_cons e es directed : graph_of (e :: es) directed = graph_of [e] directed ++ graph_of es directed.
Proof. destruct directed; simpl; [reflexivity|]. destruct e as [[u v] w]. reflexivity. Qed.

Lemma init_edges_I directed : forall es m, incl (graph_of es directed) g -> I m ->
  let m' := fold_left (add_edge directed) es m in
  I m' /\ mat_le m' m /\ forall a b c, In (a, b, c) (graph_of es directed) -> exists x, get m' a b = Some x /\ x <= c.
Proof.
  induction es as [|[[u v] w] es IH]; intros m Hi HI; cbv zeta.
  - simpl. split; [exact HI|]. split; [apply mat_le_refl|]. intros a b c H. destruct directed; destruct H.
  - rewrite graph_of_cons in Hi. simpl fold_left.
    destruct (add_edge_I directed m u v w (fun e He => Hi e (in_or_app _ _ _ (or_introl He))) HI) as (H1 & H2 & H3).
    destruct (IH _ (fun e He => Hi e (in_or_app _ _ _ (or_intror He))) H1) as (H1' & H2' & H3').
    split; [exact H1'|]. split; [eapply mat_le_trans; eauto|].
    intros a b c Hin. rewrite graph_of_cons in Hin. apply in_app_iff in Hin as [Hin|Hin]; [|now apply H3'].
    destruct (H3 _ _ _ Hin) as (x & Hx & Hxc). destruct (H2' _ _ _ Hx) as (y & Hy & Hyx). exists y. split; [exact Hy|lia].
Qed.

Lemma init_I : I (init n) /\ diag n (init n).
Proof.
  split; [split; [apply wf_init|]|].
  - intros i j x Hx. destruct (lt_dec i n) as [Hi|Hi]; [destruct (lt_dec j n) as [Hj|Hj]|].
    + rewrite get_init in Hx by assumption. destruct (Nat.eqb i j) eqn:E; [|discriminate].
      apply Nat.eqb_eq in E. subst j. injection Hx as <-. exists [i]. apply walk_nil.
    + rewrite (get_oob n) in Hx; [discriminate|apply wf_init|tauto].
    + rewrite (get_oob n) in Hx; [discriminate|apply wf_init|tauto].
  - intros i Hi. exists 0. rewrite get_init by assumption. rewrite Nat.eqb_refl. split; [reflexivity|lia].
Qed.

End Init.

Lemma valid_input_graph n edges directed : valid_input n edges = true ->
  forall u v w, In (u, v, w) (graph_of edges directed) -> (u < n)%nat /\ (v < n)%nat.
Proof.
  unfold valid_input. intros H. apply andb_true_iff in H as [_ H]. rewrite forallb_forall in H.
  assert (He : forall u v w, In (u, v, w) edges -> (u < n)%nat /\ (v < n)%nat).
  { intros u v w Hin. specialize (H _ Hin). simpl in H. apply andb_true_iff in H as [H1 H2].
    apply Nat.ltb_lt in H1, H2. now split. }
  intros u v w Hin. destruct directed; simpl in Hin; [now apply He in Hin|].
  apply in_sym in Hin as [Hin|Hin]; apply He in Hin; tauto.
Qed.

Section Final.
Variable n : nat.
Variable edges : wgraph.
Variable directed : bool.
Hypothesis Hv : valid_input n edges = true.

Let g := graph_of edges directed.
Let m := final n edges directed.

Lemma Hg : forall u v w, In (u, v, w) g -> (u < n)%nat /\ (v < n)%nat.
Proof. exact (valid_input_graph n edges directed Hv). Qed.

Lemma final_facts : I g n m /\ diag n m /\ up g n n m.
Proof.
  unfold m, final, init_edges.
  destruct (init_I g n) as [HI0 Hd0].
  destruct (init_edges_I g n Hg directed edges (init n) (incl_refl _) HI0) as (HI1 & Hle1 & He1).
  set (m0 := fold_left (add_edge directed) edges (init n)) in *.
  assert (Hup0 : up g n 0 m0).
  { intros i j q c Hi Hj Hw Hnd Hq. destruct q as [|x q]; [|specialize (Hq x (or_introl eq_refl)); lia].
    simpl in Hw. inversion Hw as [|u v t p w d Hin Hr]; subst. inversion Hr; subst.
    - destruct (He1 _ _ _ Hin) as (x & Hx & Hxw). exists x. split; [exact Hx|lia].
    - match goal with Hx : walk _ _ _ [] _ |- _ => inversion Hx end. }
  destruct (loop_k_I g n m0 HI1) as [HI2 Hle2].
  split; [exact HI2|]. split.
  - eapply diag_mono; [exact Hle2|]. eapply diag_mono; [exact Hle1|exact Hd0].
  - apply loop_k_up; auto. exact Hg.
Qed.

(* every walk i ~> j whose vertex list has no repetition is bounded by the final matrix *)
Lemma final_bounds_simple i j p c : (i < n)%nat -> walk g i j p c -> NoDup p ->
  exists x, get m i j = Some x /\ x <= c.
Proof.
  intros Hi Hw Hnd. destruct final_facts as (HI & Hd & Hup).
  destruct (walk_unsnoc _ _ _ _ _ Hw) as [(-> & -> & ->)|(a & p' & c' & w & -> & Hw' & Hin & ->)].
  - apply Hd. exact Hi.
  - destruct (walk_hd _ _ _ _ _ Hw') as [q Hq]. subst p'.
    apply (Hup i j q (c' + w)); auto.
    + now apply Hg in Hin.
    + simpl in Hnd. inversion Hnd; subst. eapply NoDup_app_l; eauto.
    + intros x Hx. eapply (walk_bounded g n Hg _ _ _ _ Hw' Hi). now right.
Qed.

Lemma neg_diag_true_iff : neg_diag n m = true <-> neg_cycle g.
Proof.
  destruct final_facts as ([Hwf Hatt] & Hd & Hup). unfold neg_diag. rewrite existsb_exists. split.
  - intros (i & Hi & Hx). destruct (get m i i) as [x|] eqn:E; [|discriminate]. apply Z.ltb_lt in Hx.
    destruct (Hatt _ _ _ E) as (p & Hp). exists i, p, x. repeat split; auto. eapply walk_neg_long; eauto.
  - intros Hneg. destruct (neg_cycle_has_simple g Hneg) as (v & p & c & [Hw (q & -> & Hnd)] & Hc).
    assert (Hvn : (v < n)%nat).
    { destruct (walk_last_edge _ _ _ _ _ Hw) as (a & w & Hin). now apply Hg in Hin. }
    destruct (Hup v v q c Hvn Hvn Hw) as (x & Hx & Hxc).
    + now inversion Hnd.
    + intros x Hx. eapply (walk_bounded g n Hg _ _ _ _ Hw Hvn). right. apply in_app_iff. now left.
    + exists v. split; [apply in_seq; lia|]. rewrite Hx. apply Z.ltb_lt. lia.
Qed.

Lemma final_dist : neg_diag n m = false -> forall i j, (i < n)%nat ->
  match get m i j with Some x => is_dist g i j x | None => ~ reachable g i j end.
Proof.
  intros Hnd i j Hi. destruct final_facts as ([Hwf Hatt] & Hd & Hup).
  assert (Hnn : ~ neg_cycle g).
  { intros H. apply neg_diag_true_iff in H. congruence. }
  assert (Hnr : ~ neg_cycle_reachable g i).
  { intros (v & p & c & _ & Hw & Hc & Hl). apply Hnn. exists v, p, c. auto. }
  assert (Hb : forall p c, walk g i j p c -> exists x, get m i j = Some x /\ x <= c).
  { intros p c Hw. destruct (walk_to_simple g i j p c Hnr Hw) as (p' & c' & Hw' & Hle & Hnd').
    destruct (final_bounds_simple i j p' c' Hi Hw' Hnd') as (x & Hx & Hxc). exists x. split; [exact Hx|lia]. }
  destruct (get m i j) as [x|] eqn:E.
  - split; [now apply Hatt|]. intros p' c' Hw. destruct (Hb _ _ Hw) as (y & Hy & Hyc). injection Hy as <-. exact Hyc.
  - intros (p & c & Hw). destruct (Hb _ _ Hw) as (y & Hy & _). discriminate.
Qed.

End Final.

(* ---- the statements about floyd_warshall ---- *)
Theorem fw_unbounded_iff n edges directed : valid_input n edges = true ->
  (floyd_warshall n edges directed = Unbounded <-> neg_cycle (graph_of edges directed)).
Proof.
  intros Hv. unfold floyd_warshall. rewrite Hv. simpl negb. cbv iota beta zeta.
  rewrite <- (neg_diag_true_iff n edges directed Hv).
  destruct (neg_diag n (final n edges directed)); split; intros H; auto; discriminate.
Qed.

Theorem fw_dist n edges directed mt : floyd_warshall n edges directed = Dist mt ->
  forall i j, (i < n)%nat ->
  match get mt i j with
  | Some x => is_dist (graph_of edges directed) i j x
  | None => ~ reachable (graph_of edges directed) i j
  end.
Proof.
  unfold floyd_warshall. destruct (valid_input n edges) eqn:Hv; [|discriminate]. simpl negb. cbv iota beta zeta.
  destruct (neg_diag n (final n edges directed)) eqn:Hn; [discriminate|]. intros H. injection H as <-.
  intros i j Hi. now apply final_dist.
Qed.

Theorem fw_dist_no_neg_cycle n edges directed mt : floyd_warshall n edges directed = Dist mt ->
  ~ neg_cycle (graph_of edges directed).
Proof.
  unfold floyd_warshall. destruct (valid_input n edges) eqn:Hv; [|discriminate]. simpl negb. cbv iota beta zeta.
  destruct (neg_diag n (final n edges directed)) eqn:Hn; [discriminate|]. intros _ H.
  apply (neg_diag_true_iff n edges directed Hv) in H. congruence.
Qed.
