(* C11 part B - what the optimality proof needs from the cost type: a totally ordered commutative monoid with
   order-reflecting translation (Z, and Z[sqrt 2] with its exact order, are instances), and what it needs
   from the heap keys: a strict weak order that refines the order of the f-values.  Lemmas only. *)
From Coq Require Import List ZArith Bool Arith Lia.
Import ListNotations.

Record ordered_costs {C : Type} (czero : C) (cadd : C -> C -> C) (cltb : C -> C -> bool) : Prop := {
  oc_irrefl : forall a, cltb a a = false;
  oc_trans : forall a b c, cltb a b = true -> cltb b c = true -> cltb a c = true;
  oc_total : forall a b, cltb a b = false -> cltb b a = false -> a = b;
  oc_assoc : forall a b c, cadd (cadd a b) c = cadd a (cadd b c);
  oc_comm : forall a b, cadd a b = cadd b a;
  oc_zero : forall a, cadd a czero = a;
  oc_mono : forall a b c, cltb (cadd a c) (cadd b c) = cltb a b
}.

Section Order.
  Context {C : Type}.
  Variable czero : C.
  Variable cadd : C -> C -> C.
  Variable cltb : C -> C -> bool.
  Hypothesis OC : ordered_costs czero cadd cltb.

  Definition cle (a b : C) : Prop := cltb b a = false.

  Lemma cle_refl : forall a, cle a a.
  Proof. intros. apply (oc_irrefl _ _ _ OC). Qed.

  Lemma clt_cle : forall a b, cltb a b = true -> cle a b.
  Proof.
    intros a b H. unfold cle. destruct (cltb b a) eqn:E; [|reflexivity].
    pose proof (oc_trans _ _ _ OC _ _ _ H E) as H1. rewrite (oc_irrefl _ _ _ OC) in H1. discriminate.
  Qed.

  Lemma cle_cases : forall a b, cle a b -> a = b \/ cltb a b = true.
  Proof.
    intros a b H. destruct (cltb a b) eqn:E; [right; reflexivity|left].
    apply (oc_total _ _ _ OC); assumption.
  Qed.

  Lemma cle_trans : forall a b c, cle a b -> cle b c -> cle a c.
  Proof.
    intros a b c H1 H2. destruct (cle_cases _ _ H1) as [E|L1]; [subst; assumption|].
    destruct (cle_cases _ _ H2) as [E|L2]; [subst; assumption|].
    apply clt_cle. eapply (oc_trans _ _ _ OC); eassumption.
  Qed.

  Lemma clt_cle_trans : forall a b c, cltb a b = true -> cle b c -> cltb a c = true.
  Proof.
    intros a b c H1 H2. destruct (cle_cases _ _ H2) as [E|L2]; [subst; assumption|].
    eapply (oc_trans _ _ _ OC); eassumption.
  Qed.

  Lemma cle_clt_trans : forall a b c, cle a b -> cltb b c = true -> cltb a c = true.
  Proof.
    intros a b c H1 H2. destruct (cle_cases _ _ H1) as [E|L1]; [subst; assumption|].
    eapply (oc_trans _ _ _ OC); eassumption.
  Qed.

  Lemma cle_total : forall a b, cle a b \/ cle b a.
  Proof. intros a b. unfold cle. destruct (cltb b a) eqn:E; [right; apply clt_cle; assumption|left; reflexivity]. Qed.

  Lemma cle_add_r : forall a b c, cle a b -> cle (cadd a c) (cadd b c).
  Proof. intros a b c H. unfold cle in *. rewrite (oc_mono _ _ _ OC). assumption. Qed.

  Lemma cle_add_l : forall a b c, cle a b -> cle (cadd c a) (cadd c b).
  Proof. intros a b c H. rewrite (oc_comm _ _ _ OC c a), (oc_comm _ _ _ OC c b). apply cle_add_r. assumption. Qed.

  Lemma cle_cancel_r : forall a b c, cle (cadd a c) (cadd b c) -> cle a b.
  Proof. intros a b c H. unfold cle in *. rewrite (oc_mono _ _ _ OC) in H. assumption. Qed.

  Lemma cle_add_nonneg : forall a w, cle czero w -> cle a (cadd a w).
  Proof.
    intros a w H. apply (cle_add_l _ _ a) in H. rewrite (oc_zero _ _ _ OC) in H. assumption.
  Qed.

  Lemma czero_l : forall a, cadd czero a = a.
  Proof. intros. rewrite (oc_comm _ _ _ OC). apply (oc_zero _ _ _ OC). Qed.
End Order.

(* heap keys *)
Record key_order {K : Type} (kltb : K -> K -> bool) : Prop := {
  ko_asym : forall a b, kltb a b = true -> kltb b a = false;
  ko_trans : forall a b c, kltb a b = true -> kltb b c = true -> kltb a c = true;
  ko_negtrans : forall a b c, kltb a b = false -> kltb b c = false -> kltb a c = false
}.

Lemma ordered_costs_key_order : forall {C} czero cadd (cltb : C -> C -> bool),
  ordered_costs czero cadd cltb -> key_order cltb.
Proof.
  intros C czero cadd cltb OC. constructor.
  - intros a b H. apply (clt_cle czero cadd cltb OC). assumption.
  - apply (oc_trans _ _ _ OC).
  - intros a b c H1 H2. apply (cle_trans czero cadd cltb OC c b a); assumption.
Qed.

(* Z is an instance *)
Lemma Z_ordered_costs : ordered_costs 0%Z Z.add Z.ltb.
Proof.
  constructor; intros.
  - apply Z.ltb_irrefl.
  - rewrite Z.ltb_lt in *. lia.
  - rewrite Z.ltb_ge in *. lia.
  - lia.
  - lia.
  - lia.
  - destruct (Z.ltb_spec a b), (Z.ltb_spec (a + c) (b + c)); try reflexivity; lia.
Qed.
