(* C11: removing cycles from walks.  Without a negative closed walk (reachable from s) every walk can be
   replaced by a walk that repeats no vertex and is not heavier; a negative closed walk contains a negative
   closed walk whose inner vertices are pairwise distinct. *)
From Coq Require Import List ZArith Bool Arith Lia.
From SV Require Import C11.Paths C11.PathsLemmas.
Import ListNotations.
Local Open Scope Z_scope.

Lemma dup_split (l : list nat) : ~ NoDup l -> exists a x b c, l = a ++ x :: b ++ x :: c.
Proof.
  induction l as [|y l IH]; intros H; [exfalso; apply H; constructor|].
  destruct (in_dec Nat.eq_dec y l) as [Hin|Hnin].
  - apply in_split in Hin as (b & c & ->). exists [], y, b, c. reflexivity.
  - assert (Hl : ~ NoDup l) by (intros Hl; apply H; now constructor).
    destruct (IH Hl) as (a & x & b & c & ->). exists (y :: a), x, b, c. reflexivity.
Qed.

Lemma NoDup_dec_nat (l : list nat) : {NoDup l} + {~ NoDup l}.
Proof.
  induction l as [|y l IH]; [left; constructor|].
  destruct (in_dec Nat.eq_dec y l) as [Hin|Hnin].
  - right. intros H. inversion H; contradiction.
  - destruct IH as [Hl|Hl]; [left; now constructor|right; intros H; inversion H; contradiction].
Qed.

(* cut the closed part between two occurrences of x *)
Lemma walk_cut g u t a x b c d : walk g u t (a ++ x :: b ++ x :: c) d ->
  exists d1 e d2, walk g u x (a ++ [x]) d1 /\ walk g x x (x :: b ++ [x]) e /\ walk g x t (x :: c) d2 /\
                  d = d1 + e + d2.
Proof.
  intros H. apply walk_split in H as (d1 & d' & H1 & H2 & ->).
  change (x :: b ++ x :: c) with ((x :: b) ++ x :: c) in H2.
  apply walk_split in H2 as (e & d2 & He & H2 & ->).
  exists d1, e, d2. repeat split; auto. lia.
Qed.

Definition no_neg_from (g : wgraph) (s : nat) : Prop :=
  forall v p c, reachable g s v -> walk g v v p c -> 0 <= c.

Lemma no_neg_from_intro g s : ~ neg_cycle_reachable g s -> no_neg_from g s.
Proof.
  intros H v p c Hr Hw. destruct (Z_lt_dec c 0) as [Hc|Hc]; [|lia]. exfalso. apply H.
  exists v, p, c. repeat split; auto. inversion Hw; subst; [lia|].
  match goal with Hx : walk _ _ _ _ _ |- _ => destruct (walk_hd _ _ _ _ _ Hx) as [q ->] end. simpl. lia.
Qed.

Lemma walk_simplify g s : no_neg_from g s ->
  forall k t p c, (length p <= k)%nat -> walk g s t p c ->
  exists p' c', walk g s t p' c' /\ c' <= c /\ NoDup p'.
Proof.
  intros Hnn. induction k as [|k IH]; intros t p c Hk Hw.
  - destruct (walk_hd _ _ _ _ _ Hw) as [q ->]. simpl in Hk. lia.
  - destruct (NoDup_dec_nat p) as [Hnd|Hnd]; [exists p, c; repeat split; auto; lia|].
    destruct (dup_split p Hnd) as (a & x & b & c0 & ->).
    destruct (walk_cut _ _ _ _ _ _ _ _ Hw) as (d1 & e & d2 & H1 & He & H2 & ->).
    assert (Hrx : reachable g s x) by (now exists (a ++ [x]), d1).
    pose proof (Hnn x _ _ Hrx He) as Hpos.
    pose proof (walk_app _ _ _ _ _ H1 _ _ _ H2) as Hnew.
    destruct (IH t ((a ++ [x]) ++ c0) (d1 + d2)) as (p' & c' & Hp' & Hle & Hnd'); [|exact Hnew|].
    + rewrite !app_length in *. simpl in *. rewrite app_length in Hk. simpl in Hk. lia.
    + exists p', c'. repeat split; auto. lia.
Qed.

Theorem walk_to_simple g s t p c : ~ neg_cycle_reachable g s -> walk g s t p c ->
  exists p' c', walk g s t p' c' /\ c' <= c /\ NoDup p'.
Proof.
  intros Hn Hw. eapply walk_simplify; [now apply no_neg_from_intro| |exact Hw]. apply Nat.le_refl.
Qed.

(* vertices of a walk in a graph whose endpoints are all < n, started below n, are below n *)
Lemma walk_bounded g n : (forall u v w, In (u, v, w) g -> (u < n)%nat /\ (v < n)%nat) ->
  forall u t p c, walk g u t p c -> (u < n)%nat -> forall x, In x p -> (x < n)%nat.
Proof.
  intros Hg u t p c Hw Hu x Hx. destruct (walk_in_graph_nodes _ _ _ _ _ Hw x Hx) as [->|(a & w & Hin)]; [exact Hu|].
  now apply Hg in Hin.
Qed.

Lemma NoDup_bounded_length (p : list nat) n : NoDup p -> (forall x, In x p -> (x < n)%nat) -> (length p <= n)%nat.
Proof.
  intros Hnd Hb. rewrite <- (seq_length n 0). apply NoDup_incl_length; [exact Hnd|].
  intros x Hx. apply in_seq. specialize (Hb x Hx). lia.
Qed.

(* ---- negative closed walks contain simple negative closed walks ---- *)
(* a closed walk v :: q ++ [v] whose inner part q has no repetition and avoids v *)
Definition simple_cycle (g : wgraph) (v : nat) (p : list nat) (c : Z) : Prop :=
  walk g v v p c /\ exists q, p = v :: q ++ [v] /\ NoDup (v :: q).

Lemma neg_cycle_simple g : forall k v p c, (length p <= k)%nat -> walk g v v p c -> c < 0 ->
  exists v' p' c', simple_cycle g v' p' c' /\ c' < 0 /\ (exists a b, p = a ++ v' :: b).
Proof.
  induction k as [|k IH]; intros v p c Hk Hw Hc.
  - destruct (walk_hd _ _ _ _ _ Hw) as [q ->]. simpl in Hk. lia.
  - (* p = v :: r with last r = v, r nonempty since c < 0 *)
    inversion Hw as [|u x t r w d Hin Hr]; subst; [lia|].
    (* write r = q ++ [v] *)
    assert (Hrl : last r v = v) by (apply (walk_last _ _ _ _ _ Hr)).
    assert (Hrne : r <> []) by (eapply walk_nonempty; eauto).
    destruct (exists_last Hrne) as (q & z & ->). rewrite last_last in Hrl. subst z.
    destruct (NoDup_dec_nat (v :: q)) as [Hnd|Hnd].
    + exists v, (v :: q ++ [v]), (w + d). split; [split; [exact Hw|exists q; auto]|]. split; [exact Hc|].
      exists [], (q ++ [v]). reflexivity.
    + destruct (dup_split _ Hnd) as (a & y & b & c0 & Heq).
      (* the whole closed walk p = (a ++ y :: b ++ y :: c0) ++ [v] *)
      assert (Hp : v :: q ++ [v] = a ++ y :: b ++ y :: (c0 ++ [v])).
      { change (v :: q ++ [v]) with ((v :: q) ++ [v]). rewrite Heq. rewrite <- !app_assoc. simpl.
        rewrite <- app_assoc. reflexivity. }
      assert (Hlen : (length q + 2 = length a + length b + length c0 + 3)%nat).
      { apply (f_equal (@length nat)) in Hp. revert Hp. cbn [length]. rewrite !app_length. cbn [length].
        rewrite !app_length. cbn [length]. rewrite !app_length. cbn [length]. lia. }
      assert (Hk' : (length q + 2 <= S k)%nat).
      { revert Hk. cbn [length]. rewrite app_length. cbn [length]. lia. }
      rewrite Hp in Hw. destruct (walk_cut _ _ _ _ _ _ _ _ Hw) as (d1 & e & d2 & H1 & He & H2 & Hsum).
      destruct (Z_lt_dec e 0) as [Hneg|Hnn].
      * (* inner closed walk is negative and shorter *)
        destruct (IH y (y :: b ++ [y]) e) as (v' & p' & c' & Hs & Hc' & (a' & b' & Hsub)); auto.
        { cbn [length]. rewrite !app_length. cbn [length]. rewrite ?app_length. cbn [length]. lia. }
        exists v', p', c'. split; [exact Hs|]. split; [exact Hc'|].
        exists (a ++ a'), (b' ++ tl (y :: c0 ++ [v])).
        rewrite Hp. change (y :: b ++ y :: c0 ++ [v]) with ((y :: b) ++ y :: c0 ++ [v]).
        assert (Hyb : (y :: b) ++ [y] = a' ++ v' :: b') by exact Hsub.
        replace ((y :: b) ++ y :: c0 ++ [v]) with (((y :: b) ++ [y]) ++ (c0 ++ [v])) by (rewrite <- app_assoc; reflexivity).
        rewrite Hyb. simpl tl. rewrite <- !app_assoc. reflexivity.
      * (* the outer closed walk v ~> y ~> v is negative and shorter *)
        pose proof (walk_app _ _ _ _ _ H1 _ _ _ H2) as Hout.
        destruct (IH v ((a ++ [y]) ++ c0 ++ [v]) (d1 + d2)) as (v' & p' & c' & Hs & Hc' & (a' & b' & Hsub)); [|exact Hout|lia|].
        { cbn [length]. rewrite !app_length. cbn [length]. rewrite ?app_length. cbn [length]. lia. }
        exists v', p', c'. split; [exact Hs|]. split; [exact Hc'|].
        (* v' occurs in the outer walk, hence in p *)
        assert (Hin' : In v' ((a ++ [y]) ++ c0 ++ [v])) by (rewrite Hsub; apply in_app_iff; right; now left).
        assert (Hin2 : In v' (v :: q ++ [v])).
        { rewrite Hp. revert Hin'. repeat (rewrite in_app_iff || cbn [In]). tauto. }
        apply in_split in Hin2 as (l1 & l2 & ->). eauto.
Qed.

Theorem neg_cycle_has_simple g : neg_cycle g -> exists v p c, simple_cycle g v p c /\ c < 0.
Proof.
  intros (v & p & c & Hw & Hc & _). destruct (neg_cycle_simple g (length p) v p c (Nat.le_refl _) Hw Hc)
    as (v' & p' & c' & Hs & Hc' & _). eauto.
Qed.
