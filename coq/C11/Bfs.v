(* C11 model of solvor/bfs.py: bfs(), dfs() (callback based) and solvor/utils/helpers.py reconstruct_path().
   Definitions only.  Node labels are nat (first-occurrence numbering by the harness); the neighbours
   call-back is an adjacency association list recorded by the harness (nodes without an entry have no
   neighbours); the goal is None / a boolean predicate (a goal value g is the predicate (x = g), as in the
   code's `is_goal = lambda s: s == goal`).
   parent dict -> association list (it is only looked up, never iterated, so its order is unobservable;
   new entries are consed in front).  visited set -> list (observable only as a set / by its size).
   deque / stack -> list with the next element to pop at the head. *)
From Coq Require Import List ZArith Bool Arith.
Import ListNotations.

Module Bfs.

Inductive status := OPTIMAL | FEASIBLE | INFEASIBLE | MAX_ITER.
Inductive mode := Queue | Stack.

(* Result(solution, objective, _, _, status) *)
Inductive result :=
| Found (st : status) (path : list nat) (objective : Z)   (* goal popped: path, len(path)-1 *)
| NotFound (st : status)                                  (* None, inf, INFEASIBLE / MAX_ITER *)
| Visited (vs : list nat) (objective : Z)                 (* goal is None: visited set, len(visited) *)
| Hang.                                                   (* reconstruct_path would not terminate *)

Definition adjl := list (nat * list nat).

Fixpoint lookup {A} (k : nat) (l : list (nat * A)) : option A :=
  match l with
  | [] => None
  | (k', v) :: r => if Nat.eqb k' k then Some v else lookup k r
  end.

Definition succ_of (adj : adjl) (u : nat) : list nat :=
  match lookup u adj with Some l => l | None => [] end.

Definition mem (x : nat) (l : list nat) : bool := existsb (Nat.eqb x) l.

Record state := mk { visited : list nat; parent : list (nat * nat); frontier : list nat }.

(* queue.append(x) / stack.append(x) *)
Definition push (m : mode) (x : nat) (fr : list nat) : list nat :=
  match m with Queue => fr ++ [x] | Stack => x :: fr end.

(* for neighbor in neighbors(current):
       if neighbor not in visited: visited.add(neighbor); parent[neighbor] = current; <frontier>.append(neighbor) *)
Fixpoint expand (m : mode) (cur : nat) (ns : list nat) (st : state) : state :=
  match ns with
  | [] => st
  | x :: rest =>
      if mem x (visited st) then expand m cur rest st
      else expand m cur rest (mk (x :: visited st) ((x, cur) :: parent st) (push m x (frontier st)))
  end.

(* reconstruct_path: path = [current]; while current in parent: current = parent[current]; path.append(current);
   path.reverse().  acc is the already reversed path.  Fuel exhaustion (None) = the Python loop does not end. *)
Fixpoint recon (fuel : nat) (par : list (nat * nat)) (cur : nat) (acc : list nat) : option (list nat) :=
  match fuel with
  | O => None
  | S f => match lookup cur par with
           | None => Some acc
           | Some p => recon f par p (p :: acc)
           end
  end.

Definition reconstruct_path (par : list (nat * nat)) (cur : nat) : option (list nat) :=
  recon (S (length par)) par cur [cur].

Definition found_status (m : mode) := match m with Queue => OPTIMAL | Stack => FEASIBLE end.

(* code after the while loop *)
Definition finish (goal : option (nat -> bool)) (max_iter iters : Z) (st : state) : result :=
  match goal with
  | Some _ => if (max_iter <=? iters)%Z then NotFound MAX_ITER else NotFound INFEASIBLE
  | None => Visited (visited st) (Z.of_nat (length (visited st)))
  end.

(* while frontier and iterations < max_iter: ...   (None = out of fuel, never a normal result) *)
Fixpoint loop (fuel : nat) (m : mode) (succ : nat -> list nat) (goal : option (nat -> bool))
         (max_iter iters : Z) (st : state) : option result :=
  match fuel with
  | O => None
  | S f =>
      match frontier st with
      | [] => Some (finish goal max_iter iters st)
      | cur :: rest =>
          if (iters <? max_iter)%Z then
            let iters' := (iters + 1)%Z in
            if match goal with Some isg => isg cur | None => false end then
              match reconstruct_path (parent st) cur with
              | Some p => Some (Found (found_status m) p (Z.of_nat (length p) - 1))
              | None => Some Hang
              end
            else loop f m succ goal max_iter iters'
                      (expand m cur (succ cur) (mk (visited st) (parent st) rest))
          else Some (finish goal max_iter iters st)
      end
  end.

Definition init (start : nat) : state := mk [start] [] [start].

(* every node is popped at most once; nodes are start or listed as somebody's neighbour *)
Definition fuel_of (adj : adjl) : nat := 2 + length (flat_map snd adj).

Definition search (m : mode) (adj : adjl) (start : nat) (goal : option (nat -> bool)) (max_iter : Z) : option result :=
  loop (fuel_of adj) m (succ_of adj) goal max_iter 0%Z (init start).

Definition bfs := search Queue.
Definition dfs := search Stack.

(* ---- observable comparison (visited as a set: the harness sends it sorted; model side sorted here) ---- *)
Fixpoint insert (x : nat) (l : list nat) : list nat :=
  match l with [] => [x] | y :: r => if Nat.leb x y then x :: l else y :: insert x r end.
Definition sort (l : list nat) : list nat := fold_right insert [] l.

Definition status_eqb (a b : status) : bool :=
  match a, b with OPTIMAL, OPTIMAL | FEASIBLE, FEASIBLE | INFEASIBLE, INFEASIBLE | MAX_ITER, MAX_ITER => true | _, _ => false end.

Fixpoint nats_eqb (a b : list nat) : bool :=
  match a, b with [], [] => true | x :: xs, y :: ys => Nat.eqb x y && nats_eqb xs ys | _, _ => false end.

Definition result_eqb (a b : result) : bool :=
  match a, b with
  | Found s p o, Found s' p' o' => status_eqb s s' && nats_eqb p p' && Z.eqb o o'
  | NotFound s, NotFound s' => status_eqb s s'
  | Visited v o, Visited v' o' => nats_eqb (sort v) (sort v') && Z.eqb o o'
  | Hang, Hang => true
  | _, _ => false
  end.

Definition obs_eqb (a : option result) (b : result) : bool :=
  match a with Some r => result_eqb r b | None => false end.

(* goal given as a value / as the set of nodes on which the user predicate is true *)
Definition goal_val (g : nat) : option (nat -> bool) := Some (Nat.eqb g).
Definition goal_set (gs : list nat) : option (nat -> bool) := Some (fun x => mem x gs).

End Bfs.
