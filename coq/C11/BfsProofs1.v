(* C11 bfs/dfs proofs, part 1: what one expansion does, well-formed parent maps, reconstruct_path,
   the generic loop principle and path validity. *)
From Coq Require Import List ZArith Bool Arith Lia.
From SV Require Import C11.Paths C11.PathsLemmas C11.Bfs.
Import ListNotations.
Import Bfs.
Local Open Scope nat_scope.

Lemma mem_In x l : mem x l = true <-> In x l.
Proof.
  unfold mem. rewrite existsb_exists. split.
  - intros (y & Hy & He). apply Nat.eqb_eq in He. now subst.
  - intros H. exists x. split; [exact H|apply Nat.eqb_refl].
Qed.

Lemma mem_false x l : mem x l = false <-> ~ In x l.
Proof. rewrite <- mem_In. destruct (mem x l); split; congruence. Qed.

(* ---- the nodes newly discovered by one expansion, in discovery order ---- *)
Fixpoint fresh (ns vis : list nat) : list nat :=
  match ns with
  | [] => []
  | x :: r => if mem x vis then fresh r vis else x :: fresh r (x :: vis)
  end.

Definition pushall (m : mode) (news fr : list nat) : list nat :=
  match m with Queue => fr ++ news | Stack => rev news ++ fr end.

Definition entries (cur : nat) (l : list nat) : list (nat * nat) := map (fun x => (x, cur)) l.

Lemma expand_char m cur : forall ns st,
  expand m cur ns st =
  mk (rev (fresh ns (visited st)) ++ visited st)
     (entries cur (rev (fresh ns (visited st))) ++ parent st)
     (pushall m (fresh ns (visited st)) (frontier st)).
Proof.
  induction ns as [|x r IH]; intros st; simpl.
  - destruct st, m; simpl; rewrite ?app_nil_r; reflexivity.
  - destruct (mem x (visited st)) eqn:E; [apply IH|].
    rewrite IH. simpl. unfold entries. rewrite map_app. simpl. rewrite <- !app_assoc. simpl.
    f_equal. destruct m; simpl; rewrite <- ?app_assoc; reflexivity.
Qed.

Lemma fresh_spec : forall ns vis x,
  In x (fresh ns vis) <-> In x ns /\ ~ In x vis.
Proof.
  induction ns as [|y r IH]; intros vis x; simpl; [tauto|].
  destruct (mem y vis) eqn:E.
  - apply mem_In in E. rewrite IH. split; [tauto|]. intros [[->|H] Hn]; tauto.
  - apply mem_false in E. simpl. rewrite IH. simpl. split.
    + intros [->|[H Hn]]; [tauto|]. split; [tauto|]. intros Hv. apply Hn. now right.
    + intros [[->|H] Hn]; [now left|]. destruct (Nat.eq_dec y x) as [->|Hne]; [now left|].
      right. split; [exact H|]. intros [?|?]; [congruence|tauto].
Qed.

Lemma fresh_nodup : forall ns vis, NoDup (fresh ns vis).
Proof.
  induction ns as [|y r IH]; intros vis; simpl; [constructor|].
  destruct (mem y vis); [apply IH|]. constructor; [|apply IH].
  intros H. apply fresh_spec in H as [_ H]. apply H. now left.
Qed.

(* ---- parent maps ---- *)
Section Parent.
Variable succ : nat -> list nat.
Variable start : nat.

Definition good (par : list (nat * nat)) (v : nat) : Prop := v = start \/ lookup v par <> None.

Inductive wf_parent : list (nat * nat) -> Prop :=
| wf_nil : wf_parent []
| wf_cons : forall c p rest, wf_parent rest -> lookup c rest = None -> c <> start ->
    good rest p -> In c (succ p) -> wf_parent ((c, p) :: rest).

(* proper ancestors of v, from the start down to v's parent *)
Fixpoint anc (par : list (nat * nat)) (v : nat) : list nat :=
  match par with
  | [] => []
  | (c, p) :: rest => if Nat.eqb c v then anc rest p ++ [p] else anc rest v
  end.

(* number of edges of the parent chain of v *)
Fixpoint depth (par : list (nat * nat)) (v : nat) : nat :=
  match par with
  | [] => O
  | (c, p) :: rest => if Nat.eqb c v then S (depth rest p) else depth rest v
  end.

Lemma anc_length par : forall v, length (anc par v) = depth par v.
Proof.
  induction par as [|[c p] rest IH]; intros v; simpl; [reflexivity|].
  destruct (Nat.eqb c v); [rewrite app_length, IH; simpl; lia|apply IH].
Qed.

Lemma good_cons c p rest v : good rest v -> good ((c, p) :: rest) v.
Proof.
  intros [->|H]; [now left|]. right. simpl. destruct (Nat.eqb c v); [discriminate|exact H].
Qed.

Lemma good_cons_inv c p rest v : v <> c -> good ((c, p) :: rest) v -> good rest v.
Proof.
  intros Hne [->|H]; [now left|]. right. simpl in H.
  destruct (Nat.eqb c v) eqn:E; [apply Nat.eqb_eq in E; congruence|exact H].
Qed.

Lemma wf_parent_good par : wf_parent par -> forall v p, lookup v par = Some p -> good par p.
Proof.
  induction 1 as [|c p0 rest Hwf IH Hc Hs Hg Hin]; intros v p Hl; [discriminate|].
  simpl in Hl. destruct (Nat.eqb c v) eqn:E.
  - injection Hl as <-. now apply good_cons.
  - apply good_cons. eapply IH; eauto.
Qed.

Lemma good_not_fresh rest c x : lookup c rest = None -> c <> start -> good rest x -> x <> c.
Proof. intros Hc Hs [->|H] ->; congruence. Qed.

Lemma recon_skip c p0 rest : wf_parent rest -> lookup c rest = None -> c <> start ->
  forall fuel x acc, good rest x -> recon fuel ((c, p0) :: rest) x acc = recon fuel rest x acc.
Proof.
  intros Hwf Hc Hs. induction fuel as [|f IH]; intros x acc Hg; [reflexivity|].
  simpl. pose proof (good_not_fresh _ _ _ Hc Hs Hg) as Hne.
  destruct (Nat.eqb c x) eqn:E; [apply Nat.eqb_eq in E; congruence|].
  destruct (lookup x rest) as [p|] eqn:El; [|reflexivity].
  apply IH. eapply wf_parent_good; eauto.
Qed.

Lemma recon_anc par : wf_parent par -> forall fuel v acc, good par v -> length par < fuel ->
  recon fuel par v acc = Some (anc par v ++ acc).
Proof.
  induction 1 as [|c p0 rest Hwf IH Hc Hs Hg Hin]; intros fuel v acc Hv Hf.
  - destruct fuel; [simpl in Hf; lia|]. reflexivity.
  - destruct fuel as [|f]; [simpl in Hf; lia|]. simpl in Hf.
    destruct (Nat.eq_dec c v) as [->|Hne].
    + simpl. rewrite Nat.eqb_refl. rewrite recon_skip by assumption.
      rewrite IH; [|assumption|lia]. rewrite <- app_assoc. reflexivity.
    + assert (Hv' : good rest v) by (apply (good_cons_inv c p0); [congruence|exact Hv]).
      rewrite recon_skip by assumption.
      simpl anc. destruct (Nat.eqb c v) eqn:E; [apply Nat.eqb_eq in E; congruence|].
      apply IH; [exact Hv'|lia].
Qed.

Lemma reconstruct_path_anc par v : wf_parent par -> good par v ->
  reconstruct_path par v = Some (anc par v ++ [v]).
Proof. intros Hwf Hg. unfold reconstruct_path. apply recon_anc; auto. Qed.

(* ---- the chain is a genuine path ---- *)
Lemma path_in_snoc : forall l u c, l <> [] -> last l u = u -> path_in succ l -> In c (succ u) ->
  path_in succ (l ++ [c]).
Proof.
  induction l as [|x l IH]; intros u c Hne Hl Hp Hin; [congruence|].
  destruct l as [|y l].
  - simpl in Hl. subst x. simpl. tauto.
  - change ((x :: y :: l) ++ [c]) with (x :: (y :: l) ++ [c]).
    destruct Hp as [Hxy Hp]. change (last (x :: y :: l) u) with (last (y :: l) u) in Hl.
    simpl. split; [exact Hxy|]. apply (IH u c); try assumption. discriminate.
Qed.

Lemma is_path_snoc s u l c : is_path succ s u l -> In c (succ u) -> is_path succ s c (l ++ [c]).
Proof.
  intros (Hp & Hh & Hl & Hne) Hin. split; [|split; [|split]].
  - apply (path_in_snoc l u c); auto. rewrite <- Hl. apply last_default. exact Hne.
  - destruct l; [congruence|]. exact Hh.
  - apply last_last.
  - destruct l; discriminate.
Qed.

Lemma chain_is_path par : wf_parent par -> forall v, good par v -> is_path succ start v (anc par v ++ [v]).
Proof.
  induction 1 as [|c p0 rest Hwf IH Hc Hs Hg Hin]; intros v Hv.
  - destruct Hv as [->|Hv]; [apply is_path_single|simpl in Hv; congruence].
  - simpl. destruct (Nat.eqb c v) eqn:E.
    + apply Nat.eqb_eq in E. subst v. apply is_path_snoc with (u := p0); auto.
    + apply IH. apply (good_cons_inv c p0); [|exact Hv]. intros ->. rewrite Nat.eqb_refl in E. discriminate.
Qed.

(* ---- adding the entries of one expansion ---- *)
Lemma lookup_entries cur l par v :
  lookup v (entries cur l ++ par) = if mem v l then Some cur else lookup v par.
Proof.
  induction l as [|x l IH]; simpl; [reflexivity|].
  rewrite (Nat.eqb_sym v x). destruct (Nat.eqb x v); [reflexivity|exact IH].
Qed.

Lemma depth_entries cur l par : ~ In cur l -> forall v,
  depth (entries cur l ++ par) v = if mem v l then S (depth par cur) else depth par v.
Proof.
  induction l as [|x l IH]; intros Hc v; simpl; [reflexivity|].
  assert (Hc' : ~ In cur l) by (intros H; apply Hc; now right).
  rewrite (Nat.eqb_sym v x). destruct (Nat.eqb x v) eqn:E.
  - rewrite (IH Hc' cur). replace (mem cur l) with false; [reflexivity|].
    symmetry. apply mem_false. exact Hc'.
  - apply IH. exact Hc'.
Qed.

Lemma wf_entries cur par : wf_parent par -> good par cur ->
  forall l, NoDup l -> (forall x, In x l -> In x (succ cur) /\ ~ good par x) ->
  wf_parent (entries cur l ++ par).
Proof.
  intros Hwf Hcur. induction l as [|x l IH]; intros Hnd Hl; [exact Hwf|].
  inversion Hnd as [|? ? Hx Hnd']; subst. simpl.
  destruct (Hl x (or_introl eq_refl)) as [Hin Hng].
  apply wf_cons.
  - apply IH; [exact Hnd'|]. intros y Hy. apply Hl. now right.
  - rewrite lookup_entries. replace (mem x l) with false by (symmetry; now apply mem_false).
    destruct (lookup x par) eqn:E; [|reflexivity]. exfalso. apply Hng. right. congruence.
  - intros ->. apply Hng. now left.
  - destruct Hcur as [->|Hc]; [now left|]. right. rewrite lookup_entries.
    destruct (mem cur l); [discriminate|exact Hc].
  - exact Hin.
Qed.

End Parent.

(* ---- generic loop principle ---- *)
Definition goal_test (goal : option (nat -> bool)) (x : nat) : bool :=
  match goal with Some isg => isg x | None => false end.

Definition pop_expand (m : mode) (succ : nat -> list nat) (st : state) (cur : nat) (rest : list nat) : state :=
  expand m cur (succ cur) (mk (visited st) (parent st) rest).

(* how the loop can end, in terms of the state and iteration count it ends with *)
Inductive outcome (m : mode) (goal : option (nat -> bool)) (max_iter : Z) : Z -> state -> result -> Prop :=
| out_empty : forall st it, frontier st = [] -> outcome m goal max_iter it st (finish goal max_iter it st)
| out_limit : forall st it, (max_iter <= it)%Z -> frontier st <> [] ->
    outcome m goal max_iter it st (finish goal max_iter it st)
| out_goal : forall st it cur rest, frontier st = cur :: rest -> goal_test goal cur = true ->
    outcome m goal max_iter it st
      (match reconstruct_path (parent st) cur with
       | Some p => Found (found_status m) p (Z.of_nat (length p) - 1)
       | None => Hang
       end).

Lemma loop_end m succ goal max_iter (P : Z -> state -> Prop) :
  (forall it st cur rest, P it st -> frontier st = cur :: rest -> goal_test goal cur = false ->
     P (it + 1)%Z (pop_expand m succ st cur rest)) ->
  forall fuel it st r, P it st -> loop fuel m succ goal max_iter it st = Some r ->
  exists it' st', P it' st' /\ outcome m goal max_iter it' st' r.
Proof.
  intros Hstep. induction fuel as [|f IH]; intros it st r HP Hl; [discriminate|].
  simpl in Hl. destruct (frontier st) as [|cur rest] eqn:Ef.
  - injection Hl as <-. exists it, st. split; [exact HP|]. now apply out_empty.
  - destruct (it <? max_iter)%Z eqn:Elt.
    + fold (goal_test goal cur) in Hl. destruct (goal_test goal cur) eqn:Eg.
      * exists it, st. split; [exact HP|].
        pose proof (out_goal m goal max_iter st it cur rest Ef Eg) as Ho.
        destruct (reconstruct_path (parent st) cur); injection Hl as <-; exact Ho.
      * eapply IH; [|exact Hl]. eapply Hstep; eauto.
    + injection Hl as <-. exists it, st. split; [exact HP|]. apply out_limit.
      * apply Z.ltb_ge in Elt. exact Elt.
      * rewrite Ef. discriminate.
Qed.

Lemma in_pushall m news fr v : In v (pushall m news fr) <-> In v fr \/ In v news.
Proof.
  destruct m; simpl; rewrite in_app_iff; [tauto|]. rewrite <- in_rev. tauto.
Qed.

(* ---- invariant A: parent map well formed, visited = start + keys, frontier within visited ---- *)
Section InvA.
Variable succ : nat -> list nat.
Variable start : nat.

Definition invA (st : state) : Prop :=
  wf_parent succ start (parent st) /\
  (forall v, In v (visited st) <-> good start (parent st) v) /\
  (forall v, In v (frontier st) -> In v (visited st)).

Lemma invA_init : invA (init start).
Proof.
  split; [constructor|]. split.
  - intros v. simpl. unfold good. simpl. split; [intros [<-|[]]; now left|intros [->|H]; [now left|congruence]].
  - intros v H. exact H.
Qed.

Lemma invA_step m st cur rest : invA st -> frontier st = cur :: rest -> invA (pop_expand m succ st cur rest).
Proof.
  intros (Hwf & Hvis & Hfr) Ef. unfold pop_expand, invA. rewrite expand_char. cbn [visited parent frontier].
  set (news := fresh (succ cur) (visited st)).
  assert (Hcur : good start (parent st) cur) by (apply Hvis, Hfr; rewrite Ef; now left).
  assert (Hnews : forall x, In x (rev news) -> In x (succ cur) /\ ~ good start (parent st) x).
  { intros x Hx. apply in_rev in Hx. apply fresh_spec in Hx as [H1 H2]. split; [exact H1|].
    intros Hg. apply H2, Hvis, Hg. }
  split; [|split].
  - apply wf_entries; auto. apply NoDup_rev, fresh_nodup.
  - intros v. rewrite in_app_iff. unfold good. rewrite lookup_entries. split.
    + intros [H|H].
      * right. apply mem_In in H. rewrite H. discriminate.
      * apply Hvis in H. destruct H as [->|H]; [now left|]. right. destruct (mem v (rev news)); [discriminate|exact H].
    + intros [->|H]; [right; apply Hvis; now left|].
      destruct (mem v (rev news)) eqn:E; [left; now apply mem_In|right; apply Hvis; now right].
  - intros v Hv. apply in_pushall in Hv. rewrite in_app_iff. destruct Hv as [Hv|Hv].
    + right. apply Hfr. rewrite Ef. now right.
    + left. now apply in_rev in Hv.
Qed.

(* path validity of whatever the loop returns, and it never hangs *)
Lemma loop_found m goal max_iter fuel it st r : invA st ->
  loop fuel m succ goal max_iter it st = Some r ->
  match r with
  | Found s p obj => s = found_status m /\ exists t, is_path succ start t p /\ goal_test goal t = true /\
                       obj = (Z.of_nat (length p) - 1)%Z
  | Hang => False
  | _ => True
  end.
Proof.
  intros Hinv Hl.
  destruct (loop_end m succ goal max_iter (fun _ => invA) (fun _ st cur rest H E _ => invA_step m st cur rest H E)
              fuel it st r Hinv Hl) as (it' & st' & (Hwf & Hvis & Hfr) & Ho).
  inversion Ho as [st0 it0 Ef|st0 it0 Hle Hne|st0 it0 cur rest Ef Eg]; subst.
  - unfold finish. destruct goal; [destruct (max_iter <=? it')%Z|]; exact I.
  - unfold finish. destruct goal; [destruct (max_iter <=? it')%Z|]; exact I.
  - assert (Hg : good start (parent st') cur) by (apply Hvis, Hfr; rewrite Ef; now left).
    rewrite (reconstruct_path_anc succ start _ _ Hwf Hg). split; [reflexivity|].
    exists cur. split; [apply chain_is_path; assumption|]. split; [exact Eg|reflexivity].
Qed.

End InvA.
