(* C11 bellman_ford proofs, part 1: the relaxation invariant (finite entries are attained by walks, parent
   links are edges that were tight or better), and what follows when the detection round is silent:
   exact distances, no reachable negative cycle, valid returned path. *)
From Coq Require Import List ZArith Bool Arith Lia.
From SV Require Import C11.Paths C11.PathsLemmas C11.DistCert C11.BellmanFord.
Import ListNotations.
Import BF.
Local Open Scope Z_scope.

Lemma set_nth_length {A} (x : A) : forall l i, length (set_nth i x l) = length l.
Proof. induction l as [|h t IH]; intros [|i]; simpl; auto. Qed.

Lemma nth_set_nth_eq {A} (x d : A) : forall l i, (i < length l)%nat -> nth i (set_nth i x l) d = x.
Proof. induction l as [|h t IH]; intros [|i] H; simpl in *; try lia; auto. apply IH. lia. Qed.

Lemma nth_set_nth_neq {A} (x d : A) : forall l i j, i <> j -> nth j (set_nth i x l) d = nth j l d.
Proof.
  induction l as [|h t IH]; intros [|i] [|j] H; simpl; auto; try congruence.
Qed.

Lemma getd_dget d i : getd d i = dget d i. Proof. reflexivity. Qed.

Lemma lt_inf_true a b : lt_inf a b = true -> b = None \/ exists y, b = Some y /\ a < y.
Proof. destruct b as [y|]; simpl; intros H; [right; exists y; split; [reflexivity|now apply Z.ltb_lt]|now left]. Qed.

Lemma lt_inf_false a b : lt_inf a b = false -> exists y, b = Some y /\ y <= a.
Proof. destruct b as [y|]; simpl; intros H; [|discriminate]. exists y. split; [reflexivity|now apply Z.ltb_ge]. Qed.

Section Inv.
Variable g : wgraph.
Variable s : nat.
Variable n : nat.
Hypothesis Hs : (s < n)%nat.
Hypothesis Hg : forall u v w, In (u, v, w) g -> (u < n)%nat /\ (v < n)%nat.

Record inv (d : dvec) (p : pvec) : Prop := {
  i_len_d : length d = n;
  i_len_p : length p = n;
  i_src : exists x0, dget d s = Some x0 /\ x0 <= 0;
  i_att : attained g s d;
  i_par : forall v u, nth v p None = Some u ->
            exists w dv du, In (u, v, w) g /\ dget d v = Some dv /\ dget d u = Some du /\ du + w <= dv;
  i_root : forall v x, dget d v = Some x -> v <> s -> nth v p None <> None
}.

(* pointwise: finite stays finite and does not grow *)
Definition vec_le (d' d : dvec) : Prop :=
  forall v x, dget d v = Some x -> exists y, dget d' v = Some y /\ y <= x.

Lemma vec_le_refl d : vec_le d d.
Proof. intros v x H. exists x. split; [exact H|lia]. Qed.

Lemma vec_le_trans a b c : vec_le a b -> vec_le b c -> vec_le a c.
Proof.
  intros H1 H2 v x Hx. destruct (H2 _ _ Hx) as (y & Hy & Hle). destruct (H1 _ _ Hy) as (z & Hz & Hle').
  exists z. split; [exact Hz|lia].
Qed.

Lemma init_inv : inv (init_dist n s) (init_parent n).
Proof.
  unfold init_dist, init_parent.
  assert (Hget : forall v, dget (set_nth s (Some 0) (repeat None n)) v = if Nat.eqb v s then Some 0 else None).
  { intros v. unfold dget. destruct (Nat.eqb v s) eqn:E.
    - apply Nat.eqb_eq in E. subst. apply nth_set_nth_eq. now rewrite repeat_length.
    - apply Nat.eqb_neq in E. rewrite nth_set_nth_neq by congruence. apply nth_repeat. }
  constructor.
  - now rewrite set_nth_length, repeat_length.
  - apply repeat_length.
  - exists 0. rewrite Hget, Nat.eqb_refl. split; [reflexivity|lia].
  - intros v x Hv. rewrite Hget in Hv. destruct (Nat.eqb v s) eqn:E; [|discriminate].
    apply Nat.eqb_eq in E. injection Hv as <-. subst v. exists [s]. apply walk_nil.
  - intros v u Hv. rewrite nth_repeat in Hv. discriminate.
  - intros v x Hv Hne. rewrite Hget in Hv. apply Nat.eqb_neq in Hne. rewrite Hne in Hv. discriminate.
Qed.

Lemma relax_inv d p upd u v w : In (u, v, w) g -> inv d p ->
  let '(d', p', upd') := relax (d, p, upd) (u, v, w) in inv d' p' /\ vec_le d' d.
Proof.
  intros Hin Hi. destruct (Hg _ _ _ Hin) as [Hu Hv]. unfold relax. change getd with dget.
  destruct (dget d u) as [du|] eqn:Edu; [|cbv beta iota; split; [exact Hi|apply vec_le_refl]].
  destruct (lt_inf (du + w) (dget d v)) eqn:Elt; [|cbv beta iota; split; [exact Hi|apply vec_le_refl]].
  cbv beta iota.
  destruct Hi as [Hld Hlp Hsrc Hatt Hpar Hroot].
  assert (Hgetv : dget (set_nth v (Some (du + w)) d) v = Some (du + w))
    by (unfold dget; apply nth_set_nth_eq; lia).
  assert (Hgeto : forall y, y <> v -> dget (set_nth v (Some (du + w)) d) y = dget d y)
    by (intros y Hy; unfold dget; apply nth_set_nth_neq; congruence).
  assert (Hle : vec_le (set_nth v (Some (du + w)) d) d).
  { intros y x Hy. destruct (Nat.eq_dec y v) as [->|Hne].
    - exists (du + w). split; [exact Hgetv|]. apply lt_inf_true in Elt as [E|(y & E & Hlt)]; [congruence|].
      rewrite Hy in E. injection E as <-. lia.
    - exists x. rewrite Hgeto by exact Hne. split; [exact Hy|lia]. }
  split; [|exact Hle]. constructor.
  - now rewrite set_nth_length.
  - now rewrite set_nth_length.
  - destruct Hsrc as (x0 & Hx0 & Hx0le). destruct (Hle _ _ Hx0) as (y & Hy & Hyle). exists y. split; [exact Hy|lia].
  - intros y x Hy. destruct (Nat.eq_dec y v) as [->|Hne].
    + rewrite Hgetv in Hy. injection Hy as <-. destruct (Hatt _ _ Edu) as (q & Hq).
      exists (q ++ [v]). eapply walk_snoc; eauto.
    + rewrite Hgeto in Hy by exact Hne. now apply Hatt.
  - intros y a Hy. destruct (Nat.eq_dec y v) as [->|Hne].
    + rewrite nth_set_nth_eq in Hy by lia. injection Hy as <-.
      exists w, (du + w). destruct (Hle _ _ Edu) as (du' & Hdu' & Hdule).
      exists du'. repeat split; auto. lia.
    + rewrite nth_set_nth_neq in Hy by congruence.
      destruct (Hpar _ _ Hy) as (w' & dv & da & Hin' & Hdv & Hda & Hle').
      destruct (Hle _ _ Hda) as (da' & Hda' & Hdale).
      exists w', dv, da'. rewrite Hgeto by exact Hne. repeat split; auto. lia.
  - intros y x Hy Hys. destruct (Nat.eq_dec y v) as [->|Hne].
    + rewrite nth_set_nth_eq by lia. discriminate.
    + rewrite nth_set_nth_neq by congruence. rewrite Hgeto in Hy by exact Hne. eapply Hroot; eauto.
Qed.

Lemma fold_relax_inv : forall es d p upd, incl es g -> inv d p ->
  let '(d', p', _) := fold_left relax es (d, p, upd) in inv d' p' /\ vec_le d' d.
Proof.
  induction es as [|[[u v] w] es IH]; intros d p upd Hi Hinv; [split; [exact Hinv|apply vec_le_refl]|].
  cbn [fold_left].
  pose proof (relax_inv d p upd u v w (Hi _ (or_introl eq_refl)) Hinv) as H1.
  destruct (relax (d, p, upd) (u, v, w)) as [[d1 p1] upd1]. destruct H1 as [Hinv1 Hle1].
  assert (Hi' : incl es g) by (intros e He; apply Hi; now right).
  pose proof (IH d1 p1 upd1 Hi' Hinv1) as H2.
  destruct (fold_left relax es (d1, p1, upd1)) as [[d2 p2] upd2]. destruct H2 as [Hinv2 Hle2].
  cbv beta iota. split; [exact Hinv2|eapply vec_le_trans; eauto].
Qed.

Lemma rounds_inv : forall k d p, inv d p ->
  let '(d', p') := rounds k g d p in inv d' p' /\ vec_le d' d.
Proof.
  induction k as [|k IH]; intros d p Hinv; [split; [exact Hinv|apply vec_le_refl]|].
  simpl. unfold round. pose proof (fold_relax_inv g d p false (incl_refl g) Hinv) as H1.
  destruct (fold_left relax g (d, p, false)) as [[d1 p1] upd1]. destruct H1 as [Hinv1 Hle1].
  destruct upd1; [|split; assumption].
  pose proof (IH d1 p1 Hinv1) as H2. destruct (rounds k g d1 p1) as [d2 p2]. destruct H2 as [Hinv2 Hle2].
  split; [exact Hinv2|eapply vec_le_trans; eauto].
Qed.

(* ---- when no edge is relaxable ---- *)
Lemma detect_false_edges_le d : detect g d = false -> edges_le g d.
Proof.
  unfold detect. intros H u v w du Hin Hu.
  assert (Hr : relaxable d (u, v, w) = false).
  { destruct (relaxable d (u, v, w)) eqn:E; [|reflexivity].
    assert (existsb (relaxable d) g = true) by (apply existsb_exists; eauto). congruence. }
  unfold relaxable in Hr. change getd with dget in Hr. rewrite Hu in Hr. apply lt_inf_false in Hr as (y & Hy & Hle). eauto.
Qed.

Lemma fixpoint_exact d p : inv d p -> edges_le g d ->
  dget d s = Some 0 /\ dist_vector g s d /\ ~ neg_cycle_reachable g s.
Proof.
  intros Hi He. destruct (i_src _ _ Hi) as (x0 & Hx0 & Hle).
  assert (x0 = 0) by (eapply cert_source_zero; eauto; apply (i_att _ _ Hi)). subst x0.
  split; [exact Hx0|]. split; [apply cert_sound; auto; apply (i_att _ _ Hi)|eapply cert_no_neg_cycle; eauto].
Qed.

(* ---- the reconstructed path ---- *)
Lemma recon_walk d p t dt : inv d p -> edges_le g d -> dget d s = Some 0 -> dget d t = Some dt ->
  forall fuel cur acc path c dc, walk g cur t acc c -> dget d cur = Some dc -> dc + c = dt ->
  recon fuel p cur acc = Some path -> walk g s t path dt.
Proof.
  intros Hi He Hs0 Ht. induction fuel as [|f IH]; intros cur acc path c dc Hw Hc Hsum Hr; [discriminate|].
  simpl in Hr. destruct (nth cur p None) as [u|] eqn:Ep.
  - destruct (i_par _ _ Hi _ _ Ep) as (w & dv & du & Hin & Hdv & Hdu & Hle).
    rewrite Hc in Hdv. injection Hdv as <-.
    destruct (He _ _ _ _ Hin Hdu) as (dc' & Hdc' & Hle'). rewrite Hc in Hdc'. injection Hdc' as <-.
    apply (IH u (u :: acc) path (w + c) du); auto; [|lia].
    destruct (walk_hd _ _ _ _ _ Hw) as [q ->]. eapply walk_cons; eauto.
  - injection Hr as <-.
    destruct (Nat.eq_dec cur s) as [->|Hne].
    + rewrite Hs0 in Hc. injection Hc as <-. replace dt with c by lia. exact Hw.
    + exfalso. eapply (i_root _ _ Hi); eauto.
Qed.

End Inv.

(* ---- bellman_ford itself ---- *)
Lemma valid_input_facts start edges n target : valid_input start edges n target = true ->
  (start < n)%nat /\ (forall u v w, In (u, v, w) edges -> (u < n)%nat /\ (v < n)%nat) /\
  match target with Some t => (t < n)%nat | None => True end.
Proof.
  unfold valid_input. intros H. apply andb_true_iff in H as [H Ht]. apply andb_true_iff in H as [H He].
  apply andb_true_iff in H as [_ Hs]. apply Nat.ltb_lt in Hs. split; [exact Hs|]. split.
  - intros u v w Hin. rewrite forallb_forall in He. specialize (He _ Hin). simpl in He.
    apply andb_true_iff in He as [H1 H2]. apply Nat.ltb_lt in H1, H2. now split.
  - destruct target; [now apply Nat.ltb_lt|exact I].
Qed.

Definition bf_result_spec (start : nat) (g : wgraph) (target : option nat) (r : result) : Prop :=
  match r with
  | Error => True
  | Unbounded => True
  | Infeasible => ~ neg_cycle_reachable g start /\ exists t, target = Some t /\ ~ reachable g start t
  | Path p x => ~ neg_cycle_reachable g start /\ exists t, target = Some t /\ walk g start t p x /\ is_dist g start t x
  | Dists d => ~ neg_cycle_reachable g start /\ target = None /\ dist_vector g start d
  | Hang => ~ neg_cycle_reachable g start
  end.

Theorem bellman_ford_sound start g n target :
  bf_result_spec start g target (bellman_ford start g n target).
Proof.
  unfold bellman_ford. destruct (valid_input start g n target) eqn:Ev; [|exact I]. simpl negb. cbv iota.
  destruct (valid_input_facts _ _ _ _ Ev) as (Hs & Hg & Ht).
  unfold final_state.
  pose proof (rounds_inv g start n Hs Hg (n - 1) _ _ (init_inv g start n Hs)) as H.
  destruct (rounds (n - 1) g (init_dist n start) (init_parent n)) as [d p]. destruct H as [Hinv _].
  destruct (detect g d) eqn:Ed; [exact I|].
  pose proof (detect_false_edges_le g d Ed) as He.
  destruct (fixpoint_exact g start n d p Hinv He) as (Hs0 & Hdv & Hnn).
  destruct target as [t|]; [|simpl; auto].
  change getd with dget. pose proof (Hdv t) as Hdt. destruct (dget d t) as [dt|] eqn:Et.
  - unfold reconstruct_indexed. destruct (recon (S (length p)) p t [t]) as [path|] eqn:Er; simpl; [|exact Hnn].
    split; [exact Hnn|]. exists t. split; [reflexivity|]. split; [|exact Hdt].
    eapply recon_walk with (d := d) (p := p) (cur := t) (acc := [t]) (c := 0) (dc := dt) (n := n); eauto; [apply walk_nil|lia].
  - simpl. split; [exact Hnn|]. exists t. split; [reflexivity|exact Hdt].
Qed.
