(* C11 bellman_ford proofs, part 3: _reconstruct_indexed always terminates (the model never answers Hang).
   Without a reachable negative closed walk the parent pointers of the finite nodes form a forest at every
   moment (CLRS 24.16): a relaxation that would close a parent cycle exhibits a negative closed walk. *)
From Coq Require Import List ZArith Bool Arith Lia.
From SV Require Import C11.Paths C11.PathsLemmas C11.PathsSimple C11.DistCert C11.BellmanFord
  C11.BellmanFordProofs1 C11.BellmanFordProofs2.
Import ListNotations.
Import BF.
Local Open Scope Z_scope.

(* following parent pointers from v ends after h steps at a node without parent *)
Inductive rooted (p : pvec) : nat -> nat -> Prop :=
| rooted_root : forall v, nth v p None = None -> rooted p v 0
| rooted_step : forall v u h, nth v p None = Some u -> rooted p u h -> rooted p v (S h).

Lemma rooted_fun p v h : rooted p v h -> forall h', rooted p v h' -> h = h'.
Proof.
  induction 1 as [v Hv|v u h Hv Hr IH]; intros h' H'; inversion H'; subst; try congruence.
  f_equal. apply IH. congruence.
Qed.

Lemma recon_rooted p : forall cur h, rooted p cur h -> forall fuel acc, (h < fuel)%nat ->
  exists path, recon fuel p cur acc = Some path.
Proof.
  induction 1 as [v Hv|v u h Hv Hr IH]; intros fuel acc Hf; (destruct fuel as [|f]; [lia|]); simpl; rewrite Hv.
  - eauto.
  - apply IH. lia.
Qed.

Section Forest.
Variable g : wgraph.
Variable s : nat.
Variable n : nat.
Hypothesis Hs : (s < n)%nat.
Hypothesis Hg : forall u v w, In (u, v, w) g -> (u < n)%nat /\ (v < n)%nat.
Hypothesis Hnn : no_neg_from g s.

Notation inv := (inv g s n).

Definition all_rooted (d : dvec) (p : pvec) : Prop := forall v x, dget d v = Some x -> exists h, rooted p v h.

(* the ancestors of u (in p) do not contain v when (u,v,w) is relaxable: they stay rooted after parent[v] := u *)
Lemma rooted_avoid d p u v w du : inv d p -> In (u, v, w) g -> dget d u = Some du ->
  lt_inf (du + w) (dget d v) = true ->
  forall y h, rooted p y h -> forall q c dy, walk g y u q c -> dget d y = Some dy -> dy + c <= du ->
  rooted (set_nth v (Some u) p) y h.
Proof.
  intros Hinv Hin Hdu Hlt. induction 1 as [y Hy|y z h Hy Hr IH]; intros q c dy Hw Hdy Hle.
  - assert (Hne : y <> v).
    { intros ->. apply lt_inf_true in Hlt as [Hv|(dv & Hv & Hlt)]; [congruence|].
      rewrite Hdy in Hv. injection Hv as <-.
      destruct (i_att _ _ _ _ _ Hinv _ _ Hdy) as (r & Hr).
      pose proof (Hnn v (q ++ [v]) (c + w) (ex_intro _ r (ex_intro _ dy Hr)) (walk_snoc _ _ _ _ _ _ _ Hw Hin)). lia. }
    apply rooted_root. rewrite nth_set_nth_neq by congruence. exact Hy.
  - assert (Hne : y <> v).
    { intros ->. apply lt_inf_true in Hlt as [Hv|(dv & Hv & Hlt)]; [congruence|].
      rewrite Hdy in Hv. injection Hv as <-.
      destruct (i_att _ _ _ _ _ Hinv _ _ Hdy) as (r & Hr').
      pose proof (Hnn v (q ++ [v]) (c + w) (ex_intro _ r (ex_intro _ dy Hr')) (walk_snoc _ _ _ _ _ _ _ Hw Hin)). lia. }
    destruct (i_par _ _ _ _ _ Hinv _ _ Hy) as (w' & dy' & dz & Hin' & Hdy' & Hdz & Hle').
    rewrite Hdy in Hdy'. injection Hdy' as <-.
    apply rooted_step with (u := z); [rewrite nth_set_nth_neq by congruence; exact Hy|].
    destruct (walk_hd _ _ _ _ _ Hw) as [q' ->].
    apply (IH (z :: y :: q') (w' + c) dz); [eapply walk_cons; eauto|exact Hdz|lia].
Qed.

Lemma relax_rooted d p upd u v w : In (u, v, w) g -> inv d p -> all_rooted d p ->
  let '(d', p', _) := relax (d, p, upd) (u, v, w) in all_rooted d' p'.
Proof.
  intros Hin Hinv HR. destruct (Hg _ _ _ Hin) as [Hu Hv]. unfold relax. change getd with dget.
  destruct (dget d u) as [du|] eqn:Edu; [|exact HR].
  destruct (lt_inf (du + w) (dget d v)) eqn:Elt; [|exact HR].
  set (p' := set_nth v (Some u) p).
  destruct (HR _ _ Edu) as (hu & Hru).
  assert (Hru' : rooted p' u hu).
  { apply (rooted_avoid d p u v w du Hinv Hin Edu Elt u hu Hru [u] 0 du); [apply walk_nil|exact Edu|lia]. }
  assert (Hrv' : rooted p' v (S hu)).
  { apply rooted_step with (u := u); [|exact Hru']. unfold p'. apply nth_set_nth_eq. rewrite (i_len_p _ _ _ _ _ Hinv). exact Hv. }
  assert (Hother : forall y h, rooted p y h -> y <> v -> exists h', rooted p' y h').
  { induction 1 as [y Hy|y z h Hy Hr IH]; intros Hne.
    - exists 0%nat. apply rooted_root. unfold p'. rewrite nth_set_nth_neq by congruence. exact Hy.
    - assert (Hy' : nth y p' None = Some z) by (unfold p'; rewrite nth_set_nth_neq by congruence; exact Hy).
      destruct (Nat.eq_dec z v) as [->|Hzv].
      + exists (S (S hu)). eapply rooted_step; eauto.
      + destruct (IH Hzv) as (h' & Hh'). exists (S h'). eapply rooted_step; eauto. }
  intros y x Hy. destruct (Nat.eq_dec y v) as [->|Hne]; [eauto|].
  unfold dget in Hy. rewrite nth_set_nth_neq in Hy by congruence.
  destruct (HR _ _ Hy) as (h & Hh). now apply (Hother y h).
Qed.

Lemma fold_relax_rooted : forall es d p upd, incl es g -> inv d p -> all_rooted d p ->
  let '(d', p', _) := fold_left relax es (d, p, upd) in inv d' p' /\ all_rooted d' p'.
Proof.
  induction es as [|[[u v] w] es IH]; intros d p upd Hi Hinv HR; [split; assumption|].
  cbn [fold_left].
  pose proof (relax_inv g s n Hs Hg d p upd u v w (Hi _ (or_introl eq_refl)) Hinv) as H1.
  pose proof (relax_rooted d p upd u v w (Hi _ (or_introl eq_refl)) Hinv HR) as H2.
  destruct (relax (d, p, upd) (u, v, w)) as [[d1 p1] upd1]. destruct H1 as [Hinv1 _].
  apply IH; auto. intros e He. apply Hi. now right.
Qed.

Lemma rounds_rooted : forall k d p, inv d p -> all_rooted d p ->
  let '(d', p') := rounds k g d p in inv d' p' /\ all_rooted d' p'.
Proof.
  induction k as [|k IH]; intros d p Hinv HR; [split; assumption|].
  simpl. unfold round. pose proof (fold_relax_rooted g d p false (incl_refl g) Hinv HR) as H1.
  destruct (fold_left relax g (d, p, false)) as [[d1 p1] upd1]. destruct H1 as [Hinv1 HR1].
  destruct upd1; [now apply IH|split; assumption].
Qed.

Lemma init_rooted : all_rooted (init_dist n s) (init_parent n).
Proof. intros v x _. exists 0%nat. apply rooted_root. unfold init_parent. apply nth_repeat. Qed.

(* a rooted chain visits pairwise distinct nodes below n, so it has fewer than n steps *)
Lemma rooted_chain d p : inv d p -> forall v h, rooted p v h -> (v < n)%nat ->
  exists L, length L = S h /\ NoDup L /\ (forall x, In x L -> (x < n)%nat) /\
            (forall x, In x L -> exists hx, (hx <= h)%nat /\ rooted p x hx).
Proof.
  intros Hinv. induction 1 as [v Hv|v u h Hv Hr IH]; intros Hvn.
  - exists [v]. repeat split; [constructor; [intros []|constructor]|intros x [<-|[]]; exact Hvn|].
    intros x [<-|[]]. exists 0%nat. split; [lia|now apply rooted_root].
  - destruct (i_par _ _ _ _ _ Hinv _ _ Hv) as (w & _ & _ & Hin & _). destruct (Hg _ _ _ Hin) as [Hun _].
    destruct (IH Hun) as (L & Hlen & Hnd & Hb & Hh).
    exists (v :: L). split; [simpl; lia|]. split; [|split].
    + constructor; [|exact Hnd]. intros HinL. destruct (Hh _ HinL) as (hx & Hle & Hrx).
      pose proof (rooted_fun _ _ _ Hrx (S h) (rooted_step _ _ _ _ Hv Hr)). lia.
    + intros x [<-|Hx]; [exact Hvn|now apply Hb].
    + intros x [<-|Hx]; [exists (S h); split; [lia|eapply rooted_step; eauto]|].
      destruct (Hh _ Hx) as (hx & Hle & Hrx). exists hx. split; [lia|exact Hrx].
Qed.

Lemma final_recon_some t : (t < n)%nat ->
  let '(d, p) := final_state s g n in
  forall x, dget d t = Some x -> exists path, reconstruct_indexed p t = Some path.
Proof.
  intros Ht. unfold final_state.
  pose proof (rounds_rooted (n - 1) _ _ (init_inv g s n Hs) init_rooted) as H.
  destruct (rounds (n - 1) g (init_dist n s) (init_parent n)) as [d p]. destruct H as [Hinv HR].
  intros x Hx. destruct (HR _ _ Hx) as (h & Hh).
  destruct (rooted_chain d p Hinv t h Hh Ht) as (L & Hlen & Hnd & Hb & _).
  pose proof (NoDup_bounded_length L n Hnd Hb) as Hln.
  unfold reconstruct_indexed. apply recon_rooted with (h := h); [exact Hh|].
  rewrite (i_len_p _ _ _ _ _ Hinv). lia.
Qed.

End Forest.

Theorem bellman_ford_no_hang start g n target : bellman_ford start g n target <> Hang.
Proof.
  unfold bellman_ford. destruct (valid_input start g n target) eqn:Hv; [|discriminate]. simpl negb. cbv iota.
  destruct (valid_input_facts _ _ _ _ Hv) as (Hs & Hg & Ht).
  destruct (final_state start g n) as [d p] eqn:Ef.
  destruct (detect g d) eqn:Ed; [discriminate|].
  destruct target as [t|]; [|discriminate].
  change getd with dget. destruct (dget d t) as [x|] eqn:Ex; [|discriminate].
  (* detection silent: no negative closed walk is reachable *)
  assert (Hnn : no_neg_from g start).
  { apply no_neg_from_intro.
    pose proof (rounds_inv g start n Hs Hg (n - 1) _ _ (init_inv g start n Hs)) as H.
    unfold final_state in Ef. rewrite Ef in H. destruct H as [Hinv _].
    destruct (fixpoint_exact g start n d p Hinv (detect_false_edges_le g d Ed)) as (_ & _ & H). exact H. }
  pose proof (final_recon_some g start n Hs Hg Hnn t Ht) as H. rewrite Ef in H.
  destruct (H x Ex) as (path & ->). discriminate.
Qed.
