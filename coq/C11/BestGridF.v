(* C11 part B - astar_grid over IEEE binary64 (Coq primitive floats): bit-exact twin of the CPython run,
   used ONLY by the generated correspondence lemmas (no theorem of Props/ mentions floats; Print Assumptions
   of a float computation lists the PrimFloat primitives).  Definitions only. *)
From Coq Require Import List ZArith Bool Arith Floats Uint63.
From SV Require Import C11.BestFirst C11.BestGrid.
Import ListNotations.
Open Scope Z_scope.

Definition f_of_Z (z : Z) : float :=
  if z <? 0 then PrimFloat.opp (PrimFloat.of_uint63 (Uint63.of_Z (- z)))
  else PrimFloat.of_uint63 (Uint63.of_Z z).

Definition SQRT2 : float := PrimFloat.sqrt (f_of_Z 2).            (* _SQRT2 = sqrt(2) *)
Definition SQRT2_MINUS_1 : float := PrimFloat.sub SQRT2 (f_of_Z 1). (* _SQRT2_MINUS_1 = _SQRT2 - 1 *)

(* Python: ints are converted to float when they meet a float; all ints here are < 2^53 (exact) *)
Definition f_heur (h : hname) (goal s : cell) : float :=
  let dr := Z.abs (fst s - fst goal) in
  let dc := Z.abs (snd s - snd goal) in
  match h with
  | Hmanhattan | Hauto => f_of_Z (dr + dc)
  | Hoctile => PrimFloat.add (f_of_Z (Z.max dr dc)) (PrimFloat.mul SQRT2_MINUS_1 (f_of_Z (Z.min dr dc)))
  | Hchebyshev => f_of_Z (Z.max dr dc)
  | Heuclidean => PrimFloat.sqrt (f_of_Z (dr * dr + dc * dc))  (* (..) ** 0.5; harness checks x**0.5 == sqrt x *)
  end.

(* weight and terrain costs are passed as floats by the harness *)
Definition astar_grid_f (g : grid) (start goal : cell) (directions : Z) (h : hname) (blocked : list Z)
           (cost_map : list (Z * Z)) (weight : float) (max_iter : Z) : option (result cell float) :=
  let hn := resolve_h directions h in
  astar_c cell_eqb (f_of_Z 0) PrimFloat.add PrimFloat.ltb
    (fun v => PrimFloat.mul weight (f_heur hn goal v))
    (if PrimFloat.eqb weight (f_of_Z 1) then OPTIMAL else FEASIBLE)
    (grid_nbrs (f_of_Z 1) f_of_Z (fun b => PrimFloat.mul b SQRT2) g (dirs_of directions) blocked cost_map)
    (cell_eqb goal) max_iter None (grid_fuel g) start.

(* a + b*sqrt2 as a float, for the tolerance comparison of the exact model with the implementation *)
Definition zr_to_f (x : zr2) : float := PrimFloat.add (f_of_Z (fst x)) (PrimFloat.mul (f_of_Z (snd x)) SQRT2).
Definition f_close (x y : float) : bool :=
  PrimFloat.leb (PrimFloat.abs (PrimFloat.sub x y)) 0x1.12e0be826d695p-30.   (* 1e-9 *)
