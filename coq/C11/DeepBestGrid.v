(* C11 deepening (1) - totality of the grid model astar_grid_zr (BestGrid.v) with its built-in fuel.
   Universe: the rows*cols cells of the grid (plus the start cell if it lies outside).  Every neighbour
   yielded by the neighbour generator is a grid cell, every cell yields at most |dirs| <= 8 neighbours, so
   pushes <= 1 + 8 * |universe| and  fuel > 1 + 8 * |universe|  suffices (BestFirst loop on a closed universe,
   DeepBestUniv.v).  grid_fuel g = 2 + 8 * (rows*cols + 1). *)
From Coq Require Import List ZArith Bool Arith Lia FinFun.
From SV Require Import C11.BestFirst C11.BestGrid C11.BestSpec C11.BestProofs1 C11.BestProofs6 C11.BestProofsInst
  C11.DeepBestUniv.
Import ListNotations.
Open Scope Z_scope.

Definition in_grid (g : grid) (p : cell) : bool :=
  (0 <=? fst p) && (fst p <? grid_rows g) && (0 <=? snd p) && (snd p <? grid_cols g).

Definition cell_of (r c : nat) : cell := (Z.of_nat r, Z.of_nat c).

Definition all_cells (g : grid) : list cell :=
  flat_map (fun r => map (cell_of r) (seq 0 (length (hd [] g)))) (seq 0 (length g)).

Definition n_cells (g : grid) : nat := (length g * length (hd [] g))%nat.

Lemma all_cells_length : forall g, length (all_cells g) = n_cells g.
Proof.
  intros g. unfold all_cells, n_cells.
  assert (H : forall m n a, length (flat_map (fun r => map (cell_of r) (seq 0 m)) (seq a n)) = (n * m)%nat).
  { intros m n. induction n as [|n IH]; intros a; simpl; [reflexivity|].
    rewrite app_length, map_length, seq_length, IH. reflexivity. }
  apply H.
Qed.

Lemma In_all_cells : forall g p, In p (all_cells g) <-> in_grid g p = true.
Proof.
  intros g [r c]. unfold all_cells, in_grid, grid_rows, grid_cols. simpl. rewrite in_flat_map. split.
  - intros [x [Hx Hin]]. apply in_map_iff in Hin. destruct Hin as [y [E Hy]].
    apply in_seq in Hx. apply in_seq in Hy. unfold cell_of in E. inversion E; subst.
    rewrite !andb_true_iff, !Z.leb_le, !Z.ltb_lt. lia.
  - rewrite !andb_true_iff, !Z.leb_le, !Z.ltb_lt. intros [[[H1 H2] H3] H4].
    exists (Z.to_nat r). split; [apply in_seq; lia|]. apply in_map_iff. exists (Z.to_nat c).
    split; [unfold cell_of; f_equal; lia|apply in_seq; lia].
Qed.

Lemma NoDup_app_disj : forall (A : Type) (l1 l2 : list A),
  NoDup l1 -> NoDup l2 -> (forall x, In x l1 -> ~ In x l2) -> NoDup (l1 ++ l2).
Proof.
  intros A l1 l2 H1 H2. induction H1 as [|x l1 Hx H1 IH]; intros Hd; simpl; [assumption|].
  constructor.
  - intros Hin. apply in_app_or in Hin. destruct Hin as [Hin|Hin]; [contradiction|].
    apply (Hd x); [left; reflexivity|assumption].
  - apply IH. intros y Hy. apply Hd. right. assumption.
Qed.

Lemma NoDup_flat_map_disj : forall (A B : Type) (f : A -> list B) l,
  NoDup l -> (forall a, In a l -> NoDup (f a)) ->
  (forall a b x, In a l -> In b l -> In x (f a) -> In x (f b) -> a = b) -> NoDup (flat_map f l).
Proof.
  intros A B f l Hn. induction Hn as [|a l Ha Hn IH]; intros Hf Hd; simpl; [constructor|].
  apply NoDup_app_disj.
  - apply Hf. left. reflexivity.
  - apply IH; [intros; apply Hf; right; assumption|].
    intros a0 b x H1 H2. apply Hd; right; assumption.
  - intros x Hx Hin. apply in_flat_map in Hin. destruct Hin as [b [Hb Hxb]].
    assert (E : a = b) by (apply (Hd a b x); [left; reflexivity|right; assumption|assumption|assumption]).
    subst b. contradiction.
Qed.

Lemma all_cells_NoDup : forall g, NoDup (all_cells g).
Proof.
  intros g. unfold all_cells. apply NoDup_flat_map_disj.
  - apply seq_NoDup.
  - intros r _. apply Injective_map_NoDup; [|apply seq_NoDup].
    intros x y E. unfold cell_of in E. inversion E. lia.
  - intros a b x _ _ Ha Hb. apply in_map_iff in Ha, Hb. destruct Ha as [y [E1 _]], Hb as [z [E2 _]].
    subst x. unfold cell_of in E2. inversion E2. lia.
Qed.

Lemma flat_map_length_le1 : forall (A B : Type) (f : A -> list B) l,
  (forall x, (length (f x) <= 1)%nat) -> (length (flat_map f l) <= length l)%nat.
Proof.
  intros A B f l H. induction l as [|x l IH]; simpl; [lia|]. rewrite app_length. specialize (H x). lia.
Qed.

(* ---- the neighbour generator ---- *)
Section Nbrs.
  Context {C : Type}.
  Variable c_one : C.
  Variable c_of_Z : Z -> C.
  Variable c_diag : C -> C.
  Variable g : grid.
  Variable dirs : list (Z * Z).
  Variable blocked : list Z.
  Variable cost_map : list (Z * Z).
  Notation nb := (grid_nbrs c_one c_of_Z c_diag g dirs blocked cost_map).

  Lemma grid_nbrs_in_grid : forall pos v w, In (v, w) (nb pos) -> in_grid g v = true.
  Proof.
    intros [r c] v w H. unfold grid_nbrs in H. apply in_flat_map in H. destruct H as [[dr dc] [_ H]].
    destruct ((0 <=? r + dr) && (r + dr <? grid_rows g) && (0 <=? c + dc) && (c + dc <? grid_cols g)) eqn:E; [|destruct H].
    destruct (zmem (grid_at g (r + dr) (c + dc)) blocked); [destruct H|].
    destruct H as [H|[]]. inversion H; subst. unfold in_grid. simpl. exact E.
  Qed.

  Lemma grid_nbrs_length : forall pos, (length (nb pos) <= length dirs)%nat.
  Proof.
    intros [r c]. unfold grid_nbrs. apply flat_map_length_le1. intros [dr dc].
    destruct ((0 <=? r + dr) && (r + dr <? grid_rows g) && (0 <=? c + dc) && (c + dc <? grid_cols g)); [|simpl; lia].
    destruct (zmem (grid_at g (r + dr) (c + dc)) blocked); simpl; lia.
  Qed.
End Nbrs.

Lemma dirs_of_length : forall d, (length (dirs_of d) <= 8)%nat.
Proof. intros d. unfold dirs_of. destruct (d =? 8); simpl; lia. Qed.

Lemma sum_deg_le : forall (N C : Type) (nbrs : N -> list (N * C)) b L,
  (forall u, (length (nbrs u) <= b)%nat) -> (list_sum (map (deg nbrs) L) <= b * length L)%nat.
Proof.
  intros N C nbrs b L H. induction L as [|x L IH]; simpl; [lia|].
  unfold deg at 1. specialize (H x). lia.
Qed.

(* the universe of a grid run *)
Definition grid_univ (g : grid) (start : cell) : list cell :=
  if in_grid g start then all_cells g else start :: all_cells g.

Lemma grid_univ_length : forall g start,
  length (grid_univ g start) = if in_grid g start then n_cells g else S (n_cells g).
Proof. intros. unfold grid_univ. destruct (in_grid g start); simpl; rewrite all_cells_length; reflexivity. Qed.

Lemma grid_univ_length_le : forall g start, (length (grid_univ g start) <= S (n_cells g))%nat.
Proof. intros. rewrite grid_univ_length. destruct (in_grid g start); lia. Qed.

Lemma grid_univ_NoDup : forall g start, NoDup (grid_univ g start).
Proof.
  intros. unfold grid_univ. destruct (in_grid g start) eqn:E; [apply all_cells_NoDup|].
  constructor; [|apply all_cells_NoDup]. intros H. apply In_all_cells in H. congruence.
Qed.

Lemma grid_univ_start : forall g start, In start (grid_univ g start).
Proof.
  intros. unfold grid_univ. destruct (in_grid g start) eqn:E; [apply In_all_cells; assumption|left; reflexivity].
Qed.

Lemma grid_univ_cells : forall g start v, in_grid g v = true -> In v (grid_univ g start).
Proof.
  intros g start v H. apply In_all_cells in H. unfold grid_univ. destruct (in_grid g start); [assumption|right; assumption].
Qed.

(* ---- the model with an explicit fuel ---- *)
Definition astar_grid_zr_fuel (fuel : nat) (g : grid) (start goal : cell) (directions : Z) (h : hname)
           (blocked : list Z) (cost_map : list (Z * Z)) (weight : Z) (max_iter : Z) : option (result cell zr2) :=
  let hn := resolve_h directions h in
  match hn with
  | Heuclidean => None
  | _ =>
    astar_c cell_eqb zr_zero zr_add zr_ltb
      (fun v => match zr_heur hn goal v with Some x => zr_scale weight x | None => zr_zero end)
      (if weight =? 1 then OPTIMAL else FEASIBLE)
      (grid_nbrs (1, 0) zr_of_Z zr_mul_sqrt2 g (dirs_of directions) blocked cost_map)
      (cell_eqb goal) max_iter None fuel start
  end.

Lemma astar_grid_zr_fuel_eq : forall g start goal directions h blocked cost_map weight max_iter,
  astar_grid_zr g start goal directions h blocked cost_map weight max_iter
  = astar_grid_zr_fuel (grid_fuel g) g start goal directions h blocked cost_map weight max_iter.
Proof. reflexivity. Qed.

(* the heuristic is representable in Z[sqrt 2] (everything but euclidean) *)
Definition heur_repr (directions : Z) (h : hname) : bool :=
  match resolve_h directions h with Heuclidean => false | _ => true end.

(* the task's well-formedness: rectangular grid, start and goal cells inside *)
Definition grid_wf (g : grid) (start goal : cell) : bool :=
  forallb (fun row => Nat.eqb (length row) (length (hd [] g))) g && in_grid g start && in_grid g goal.

Section GridRun.
  Variables (g : grid) (start goal : cell) (directions : Z) (blocked : list Z) (cost_map : list (Z * Z))
            (max_iter : Z).
  Notation nb := (grid_nbrs (1, 0) zr_of_Z zr_mul_sqrt2 g (dirs_of directions) blocked cost_map).
  Notation U := (grid_univ g start).

  Lemma grid_astar_total : forall wh found fuel,
    (1 + 8 * length U < fuel)%nat ->
    exists r, astar_c cell_eqb zr_zero zr_add zr_ltb wh found nb (cell_eqb goal) max_iter None fuel start = Some r.
  Proof.
    intros wh found fuel Hf. unfold astar_c.
    apply (best_first_total_U cell_eqb cell_eqb_spec) with (U := U).
    - apply grid_univ_NoDup.
    - apply grid_univ_start.
    - intros u v w Hin. apply grid_univ_cells. eapply grid_nbrs_in_grid. eassumption.
    - pose proof (sum_deg_le cell zr2 nb 8 U) as H.
      assert (Hb : forall u, (length (nb u) <= 8)%nat).
      { intros u. etransitivity; [apply grid_nbrs_length|apply dirs_of_length]. }
      specialize (H Hb). lia.
  Qed.

  Lemma grid_astar_iters : forall wh found fuel r,
    astar_c cell_eqb zr_zero zr_add zr_ltb wh found nb (cell_eqb goal) max_iter None fuel start = Some r ->
    r_iters r <= Z.of_nat (length U) /\
    (found <> MAX_ITER -> r_status r = MAX_ITER -> max_iter <= Z.of_nat (length U)).
  Proof.
    intros wh found fuel r H. unfold astar_c in H.
    eapply (best_first_iters_U cell_eqb cell_eqb_spec) with (U := U); [| |exact H].
    - apply grid_univ_start.
    - intros u v w Hin. apply grid_univ_cells. eapply grid_nbrs_in_grid. eassumption.
  Qed.
End GridRun.

(* explicit bound: any fuel > 1 + 8 * |universe| *)
Theorem astar_grid_total_fuel : forall fuel g start goal directions h blocked cost_map weight max_iter,
  heur_repr directions h = true ->
  (1 + 8 * (if in_grid g start then n_cells g else S (n_cells g)) < fuel)%nat ->
  exists r, astar_grid_zr_fuel fuel g start goal directions h blocked cost_map weight max_iter = Some r.
Proof.
  intros fuel g start goal directions h blocked cost_map weight max_iter Hh Hf.
  unfold astar_grid_zr_fuel. unfold heur_repr in Hh. rewrite <- grid_univ_length in Hf.
  destruct (resolve_h directions h); try discriminate; apply grid_astar_total; exact Hf.
Qed.

(* the built-in fuel is enough: for EVERY input whose heuristic is representable *)
Theorem astar_grid_total : forall g start goal directions h blocked cost_map weight max_iter,
  heur_repr directions h = true ->
  exists r, astar_grid_zr g start goal directions h blocked cost_map weight max_iter = Some r.
Proof.
  intros. rewrite astar_grid_zr_fuel_eq. apply astar_grid_total_fuel; [assumption|].
  unfold grid_fuel, n_cells. destruct (in_grid g start); lia.
Qed.

Theorem astar_grid_total_wf : forall g start goal directions h blocked cost_map weight max_iter,
  grid_wf g start goal = true -> heur_repr directions h = true ->
  (forall fuel, (1 + 8 * n_cells g < fuel)%nat ->
     exists r, astar_grid_zr_fuel fuel g start goal directions h blocked cost_map weight max_iter = Some r)
  /\ exists r, astar_grid_zr g start goal directions h blocked cost_map weight max_iter = Some r.
Proof.
  intros g start goal directions h blocked cost_map weight max_iter Hwf Hh. split.
  - intros fuel Hf. apply astar_grid_total_fuel; [assumption|].
    unfold grid_wf in Hwf. apply andb_true_iff in Hwf. destruct Hwf as [Hwf _].
    apply andb_true_iff in Hwf. destruct Hwf as [_ Hs]. rewrite Hs. exact Hf.
  - apply astar_grid_total. assumption.
Qed.

(* each cell is closed at most once: iterations <= cells (+1 for an outside start); MAX_ITER needs max_iter <= that *)
Theorem astar_grid_iters : forall fuel g start goal directions h blocked cost_map weight max_iter r,
  astar_grid_zr_fuel fuel g start goal directions h blocked cost_map weight max_iter = Some r ->
  r_iters r <= Z.of_nat (if in_grid g start then n_cells g else S (n_cells g)) /\
  (r_status r = MAX_ITER -> max_iter <= Z.of_nat (if in_grid g start then n_cells g else S (n_cells g))).
Proof.
  intros fuel g start goal directions h blocked cost_map weight max_iter r H.
  unfold astar_grid_zr_fuel in H. rewrite <- grid_univ_length.
  assert (Hf : (if weight =? 1 then OPTIMAL else FEASIBLE) <> MAX_ITER) by (destruct (weight =? 1); discriminate).
  destruct (resolve_h directions h); try discriminate;
    apply grid_astar_iters in H; destruct H as [H1 H2]; (split; [exact H1|exact (H2 Hf)]).
Qed.
