(* C11 deepening - the generic best-first loop on a CLOSED FINITE UNIVERSE U of nodes (start in U, every
   neighbour of any node lies in U; nodes outside U may have neighbours - unlike BestProofs6, which needs
   nbrs u = [] outside U and therefore does not fit the grid, where cells outside the grid have neighbours inside):
     * totality: fuel > 1 + sum of the out-degrees of U suffices (each node of U is closed at most once, each
       pop closes a node or discards a stale entry, entries <= pushes <= 1 + sum of degrees);
     * iterations = number of closed nodes <= |U|, hence with |U| < max_iter the status is never MAX_ITER. *)
From Coq Require Import List ZArith Bool Arith Lia.
From SV Require Import C11.BestFirst C11.BestSpec C11.BestProofs1 C11.BestProofs6.
Import ListNotations.

Local Arguments BestFirst.expand : simpl never.

Section Univ.
  Context {N C K : Type}.
  Variable neqb : N -> N -> bool.
  Hypothesis neqb_spec : forall a b, neqb a b = true <-> a = b.
  Variable czero : C.
  Variable cadd : C -> C -> C.
  Variable cltb : C -> C -> bool.
  Variable kltb : K -> K -> bool.
  Variable mkkey : C -> N -> K.
  Variable limit_of : K -> C -> C.
  Variable found_status : status.
  Variable nbrs : N -> list (N * C).
  Variable is_goal : N -> bool.
  Variable max_iter : Z.
  Variable max_cost : option C.
  Variable start : N.
  Variable U : list N.
  Hypothesis U_nodup : NoDup U.
  Hypothesis U_start : In start U.
  Hypothesis U_closed : forall u v w, In (v, w) (nbrs u) -> In v U.

  Notation st := (@st N C K).
  Notation relax := (relax neqb cadd cltb kltb mkkey).
  Notation expand := (expand neqb cadd cltb kltb mkkey nbrs).
  Notation loop := (loop neqb cadd cltb kltb mkkey limit_of found_status nbrs is_goal max_iter max_cost).
  Notation lk := (lookup neqb).
  Notation mem := (memb neqb).
  Notation inv1 := (inv1 neqb czero cadd nbrs start).
  Notation inv6 := (inv6 neqb czero cadd nbrs start).
  Notation unexp := (unexp_in neqb nbrs).
  Notation deg := (deg nbrs).

  Ltac ssimpl := cbn [s_g s_parent s_closed s_counter s_heap s_evals].
  Tactic Notation "ssimpl" "in" hyp(H) := cbn [s_g s_parent s_closed s_counter s_heap s_evals] in H.

  Definition heap_in (s : st) : Prop := forall k c v, In (k, c, v) (s_heap s) -> In v U.

  Lemma hins_In : forall (e e' : @entry N K) h, In e' (hinsert kltb e h) <-> e' = e \/ In e' h.
  Proof.
    intros e e' h. induction h as [|x h IH]; simpl.
    - intuition.
    - destruct (entry_ltb kltb e x); simpl; [intuition|]. rewrite IH. intuition.
  Qed.

  Lemma relax_heap_in : forall cur gcur s nb, In nb (nbrs cur) -> heap_in s -> heap_in (relax cur gcur s nb).
  Proof.
    intros cur gcur s [v w] Hin H. unfold BestFirst.relax.
    destruct (mem v (s_closed s)); [assumption|].
    destruct (match lk v (s_g s) with Some gv => cltb (cadd gcur w) gv | None => true end); [|assumption].
    intros k c x Hx. ssimpl in Hx. apply hins_In in Hx. destruct Hx as [E|Hx].
    - inversion E; subst. eapply U_closed. eassumption.
    - eapply H. eassumption.
  Qed.

  Lemma fold_relax_heap_in : forall cur gcur l s, incl l (nbrs cur) -> heap_in s ->
    heap_in (fold_left (relax cur gcur) l s).
  Proof.
    intros cur gcur l. induction l as [|nb l IH]; intros s Hl H; simpl; [assumption|].
    apply IH.
    - intros x Hx. apply Hl. right. assumption.
    - apply relax_heap_in; [apply Hl; left; reflexivity|assumption].
  Qed.

  Lemma fold_relax_closed : forall cur gcur l s, s_closed (fold_left (relax cur gcur) l s) = s_closed s.
  Proof.
    intros cur gcur l. induction l as [|nb l IH]; intros s; simpl; [reflexivity|].
    rewrite IH. apply relax_closed.
  Qed.

  Lemma heap_in_tail : forall (s : st) e h' g p cl cn ev, heap_in s -> s_heap s = e :: h' ->
    heap_in (mkSt g p cl cn h' ev).
  Proof. intros s e h' g p cl cn ev H Eh k c v Hin. ssimpl in Hin. eapply H. rewrite Eh. right. eassumption. Qed.

  (* ---- totality ---- *)
  Definition phi (s : st) : nat := length (s_heap s) + unexp U (s_closed s).

  Lemma unexp_close_U : forall cur closed, In cur U -> mem cur closed = false ->
    unexp U (cur :: closed) + deg cur <= unexp U closed.
  Proof. intros cur closed Hin Hc. apply (unexp_cons_in neqb neqb_spec); assumption. Qed.

  Lemma loop_total_U : forall fuel s iters, inv6 s -> heap_in s -> phi s < fuel -> exists r, loop fuel s iters = Some r.
  Proof.
    induction fuel as [|f IH]; intros s iters I HU Hphi; [lia|].
    simpl. destruct (s_heap s) as [|[[k c] cur] h'] eqn:Eh; [eauto|].
    destruct (negb (iters <? max_iter)%Z); [eauto|].
    unfold phi in Hphi. rewrite Eh in Hphi. simpl in Hphi.
    assert (HcurU : In cur U) by (eapply HU; rewrite Eh; left; reflexivity).
    destruct (mem cur (s_closed s)) eqn:Ec.
    { apply IH.
      - destruct I as [I1 Tn Th]. constructor; ssimpl.
        + destruct I1; constructor; assumption.
        + assumption.
        + intros k' c' v Hin. eapply Th. rewrite Eh. right. eassumption.
      - eapply heap_in_tail; eassumption.
      - unfold phi. ssimpl. lia. }
    destruct (t_heap _ _ _ _ _ _ I k c cur) as [gcur Hg]; [rewrite Eh; left; reflexivity|]. rewrite Hg.
    pose proof (close_inv6 neqb neqb_spec czero cadd nbrs start s k c cur gcur h' I Eh Ec Hg) as I2.
    set (s2 := mkSt (s_g s) (s_parent s) (cur :: s_closed s) (s_counter s) h' (s_evals s)) in *.
    assert (HU2 : heap_in s2) by (eapply heap_in_tail; eassumption).
    assert (Hc2 : mem cur (s_closed s2) = true) by (simpl; rewrite (eqb_refl neqb neqb_spec); reflexivity).
    destruct (is_goal cur).
    - destruct (t_nd _ _ _ _ _ _ I2 cur gcur Hc2 Hg) as [q [Ha [Hnd _]]]. unfold reconstruct_path.
      change (s_parent s) with (s_parent s2).
      rewrite (recon_complete _ _ _ _ Ha) by (eapply (chain_len neqb neqb_spec); eassumption). eauto.
    - pose proof (unexp_close_U cur (s_closed s) HcurU Ec) as Hu.
      destruct (over_limit cltb limit_of max_cost k gcur).
      + apply IH; [assumption|assumption|]. unfold phi, s2. ssimpl. lia.
      + destruct (fold_relax_inv6 neqb neqb_spec czero cadd cltb kltb mkkey limit_of nbrs is_goal start
                    cur gcur (nbrs cur) s2 (incl_refl _) I2 Hc2 Hg) as [I3 [Hc3 Hlen]].
        apply IH; [exact I3| |].
        * apply fold_relax_heap_in; [apply incl_refl|assumption].
        * unfold phi, BestFirst.expand. rewrite Hc3. unfold s2 in *. ssimpl.
          unfold BestProofs6.deg in Hu. simpl in Hlen. lia.
  Qed.

  Theorem best_first_total_U : forall fuel,
    1 + list_sum (map deg U) < fuel ->
    exists r, best_first neqb czero cadd cltb kltb mkkey limit_of found_status nbrs is_goal max_iter max_cost fuel start = Some r.
  Proof.
    intros fuel Hf. unfold best_first. destruct fuel as [|f]; [lia|].
    simpl. destruct (negb (0 <? max_iter)%Z); [eauto|].
    rewrite (eqb_refl neqb neqb_spec).
    set (s2 := mkSt [(start, czero)] [] [start] 1 [] 1 : st).
    assert (I1 : inv1 s2).
    { constructor; simpl.
      - rewrite (eqb_refl neqb neqb_spec). reflexivity.
      - reflexivity.
      - rewrite (eqb_refl neqb neqb_spec). reflexivity.
      - intros; discriminate.
      - intros v gv Hv. destruct (neqb v start) eqn:E; [left; apply neqb_spec; assumption|discriminate].
      - intros p gp Hp Hgp. destruct (neqb p start) eqn:E; [|discriminate].
        apply neqb_spec in E. subst p. inversion Hgp; subst.
        exists []. repeat split.
        + apply anc_root. reflexivity.
        + constructor.
        + constructor; [|constructor]. simpl. rewrite (eqb_refl neqb neqb_spec). reflexivity. }
    assert (I2 : inv6 s2).
    { constructor; [assumption| |].
      - simpl. intros p gp Hp Hgp. destruct (neqb p start) eqn:E; [|discriminate].
        apply neqb_spec in E. subst p. exists []. repeat split.
        + apply anc_root. reflexivity.
        + constructor; [intros []|constructor].
        + constructor; [|constructor]. simpl. rewrite (eqb_refl neqb neqb_spec). reflexivity.
      - simpl. intros k c v []. }
    assert (HU2 : heap_in s2) by (intros k c v []).
    pose proof (unexp_nil neqb nbrs U) as Hall.
    assert (Hu : unexp U [start] + deg start <= unexp U []) by (apply unexp_close_U; [assumption|reflexivity]).
    assert (Hc2 : mem start (s_closed s2) = true) by (simpl; rewrite (eqb_refl neqb neqb_spec); reflexivity).
    assert (Hg2 : lk start (s_g s2) = Some czero) by (simpl; rewrite (eqb_refl neqb neqb_spec); reflexivity).
    destruct (is_goal start).
    - simpl. eauto.
    - destruct (over_limit cltb limit_of max_cost (mkkey czero start) czero).
      + apply loop_total_U; [assumption|assumption|]. unfold phi, s2. ssimpl. simpl length. lia.
      + match goal with |- context [BestFirst.expand _ _ _ _ _ _ ?cur ?g ?s] =>
          destruct (fold_relax_inv6 neqb neqb_spec czero cadd cltb kltb mkkey limit_of nbrs is_goal start
                      cur g (nbrs cur) s (incl_refl _) I2 Hc2 Hg2) as [I3 [Hc3 Hlen]];
          assert (HU3 : heap_in (fold_left (relax cur g) (nbrs cur) s))
            by (apply fold_relax_heap_in; [apply incl_refl|exact HU2]) end.
        apply loop_total_U; [exact I3|exact HU3|].
        unfold phi, BestFirst.expand. rewrite Hc3. ssimpl.
        unfold BestProofs6.deg in Hu. simpl in Hlen. simpl length. lia.
  Qed.

  (* ---- iterations = closed nodes <= |U| ---- *)
  Record invU (s : st) (iters : Z) : Prop := {
    u_heap : heap_in s;
    u_closed : incl (s_closed s) U;
    u_nd : NoDup (s_closed s);
    u_iters : iters = Z.of_nat (length (s_closed s))
  }.

  Lemma invU_len : forall s iters, invU s iters -> (iters <= Z.of_nat (length U))%Z.
  Proof.
    intros s iters [_ Hc Hn Hi]. subst iters. apply inj_le. apply NoDup_incl_length; assumption.
  Qed.

  Lemma invU_expand : forall cur gcur s iters, invU s iters -> invU (expand cur gcur s) iters.
  Proof.
    intros cur gcur s iters [Hh Hc Hn Hi]. unfold BestFirst.expand. constructor.
    - apply fold_relax_heap_in; [apply incl_refl|assumption].
    - rewrite fold_relax_closed. assumption.
    - rewrite fold_relax_closed. assumption.
    - rewrite fold_relax_closed. assumption.
  Qed.

  (* every result: iterations <= |U|; MAX_ITER only if max_iter <= |U| *)
  Lemma loop_iters_U : forall fuel s iters r, invU s iters -> loop fuel s iters = Some r ->
    (r_iters r <= Z.of_nat (length U))%Z /\
    (found_status <> MAX_ITER -> r_status r = MAX_ITER -> (max_iter <= Z.of_nat (length U))%Z).
  Proof.
    induction fuel as [|f IH]; intros s iters r I H; [discriminate|].
    pose proof (invU_len _ _ I) as Hlen.
    assert (Hfin : forall r0, Some (finish max_iter iters s) = Some r0 ->
              (r_iters r0 <= Z.of_nat (length U))%Z /\
              (found_status <> MAX_ITER -> r_status r0 = MAX_ITER -> (max_iter <= Z.of_nat (length U))%Z)).
    { intros r0 E. inversion E; subst r0. unfold finish. simpl. split; [assumption|].
      intros _. destruct (max_iter <=? iters)%Z eqn:E1; [|discriminate]. intros _. lia. }
    simpl in H.
    destruct (s_heap s) as [|[[k c] cur] h'] eqn:Eh; [apply Hfin; assumption|].
    destruct (negb (iters <? max_iter)%Z); [apply Hfin; assumption|].
    assert (HcurU : In cur U) by (eapply (u_heap _ _ I); rewrite Eh; left; reflexivity).
    destruct (mem cur (s_closed s)) eqn:Ec.
    { eapply IH; [|exact H]. destruct I as [Hh Hc Hn Hi]. constructor; ssimpl; try assumption.
      eapply heap_in_tail; eassumption. }
    destruct (lk cur (s_g s)) as [gcur|]; [|discriminate].
    assert (I2 : invU (mkSt (s_g s) (s_parent s) (cur :: s_closed s) (s_counter s) h' (s_evals s)) (iters + 1)).
    { destruct I as [Hh Hc Hn Hi]. constructor; ssimpl.
      - eapply heap_in_tail; eassumption.
      - intros x [E|Hx]; [subst; assumption|apply Hc; assumption].
      - constructor; [|assumption]. intros Hi'. apply (memb_In neqb neqb_spec) in Hi'. congruence.
      - simpl length. lia. }
    pose proof (invU_len _ _ I2) as Hlen2.
    destruct (is_goal cur).
    - destruct (reconstruct_path neqb (s_parent s) cur); [|discriminate].
      inversion H; subst r. simpl. split; [assumption|]. intros Hf E. congruence.
    - destruct (over_limit cltb limit_of max_cost k gcur).
      + eapply IH; [|exact H]. assumption.
      + eapply IH; [|exact H]. apply invU_expand. assumption.
  Qed.

  Theorem best_first_iters_U : forall fuel r,
    best_first neqb czero cadd cltb kltb mkkey limit_of found_status nbrs is_goal max_iter max_cost fuel start = Some r ->
    (r_iters r <= Z.of_nat (length U))%Z /\
    (found_status <> MAX_ITER -> r_status r = MAX_ITER -> (max_iter <= Z.of_nat (length U))%Z).
  Proof.
    intros fuel r H. unfold best_first in H. eapply loop_iters_U; [|exact H].
    unfold init_st. constructor; ssimpl.
    - intros k c v [E|[]]. inversion E; subst. assumption.
    - intros x [].
    - constructor.
    - reflexivity.
  Qed.
End Univ.
