(* C05 - basic lemmas: association-list domains, membership, linear normal form (local copies of the
   facts C06.CpAstProofs will also export; kept here so that C05 builds on its own). *)
From Coq Require Import List ZArith Bool Lia Arith.
From SV Require Import C06.CpAst C05.CpDfs.
Import ListNotations.
Open Scope Z_scope.

(* ------------------------------------------------------------------ zmem / discard *)
Lemma zmem_In x l : zmem x l = true <-> In x l.
Proof.
  unfold zmem. rewrite existsb_exists. split.
  - intros [y [Hy E]]. apply Z.eqb_eq in E. subst. exact Hy.
  - intros H. exists x. split; [exact H | apply Z.eqb_refl].
Qed.

Lemma discard_In x y d : In y (discard x d) <-> In y d /\ y <> x.
Proof.
  unfold discard. rewrite filter_In. rewrite negb_true_iff, Z.eqb_neq. tauto.
Qed.

Lemma discard_incl x d : incl (discard x d) d.
Proof. intros y H. apply discard_In in H. tauto. Qed.

(* ------------------------------------------------------------------ dget / dset *)
Lemma dkeys_dset ds i d : dkeys (dset ds i d) = dkeys ds.
Proof.
  unfold dkeys. induction ds as [|[j e] tl IH]; simpl; [reflexivity|].
  destruct (Nat.eqb j i); simpl; [reflexivity | now rewrite IH].
Qed.

Lemma dget_dset_other ds i j d : i <> j -> dget (dset ds i d) j = dget ds j.
Proof.
  intros N. induction ds as [|[k e] tl IH]; simpl; [reflexivity|].
  destruct (Nat.eqb k i) eqn:E; simpl.
  - apply Nat.eqb_eq in E. subst k. destruct (Nat.eqb i j) eqn:E2; [apply Nat.eqb_eq in E2; contradiction | reflexivity].
  - destruct (Nat.eqb k j); [reflexivity | exact IH].
Qed.

Lemma dget_dset_same ds i d : In i (dkeys ds) -> dget (dset ds i d) i = d.
Proof.
  unfold dkeys. induction ds as [|[k e] tl IH]; simpl; [tauto|].
  intros H. destruct (Nat.eqb k i) eqn:E; simpl.
  - rewrite E. reflexivity.
  - rewrite E. apply IH. destruct H as [H|H]; [subst; rewrite Nat.eqb_refl in E; discriminate | exact H].
Qed.

Lemma dget_notin ds i : ~ In i (dkeys ds) -> dget ds i = [].
Proof.
  unfold dkeys. induction ds as [|[k e] tl IH]; simpl; [reflexivity|].
  intros H. destruct (Nat.eqb k i) eqn:E.
  - apply Nat.eqb_eq in E. subst. tauto.
  - apply IH. tauto.
Qed.

Lemma dset_notin ds i d : ~ In i (dkeys ds) -> dset ds i d = ds.
Proof.
  unfold dkeys. induction ds as [|[k e] tl IH]; simpl; [reflexivity|].
  intros H. destruct (Nat.eqb k i) eqn:E.
  - apply Nat.eqb_eq in E. subst. tauto.
  - rewrite IH; [reflexivity | tauto].
Qed.

Lemma in_dkeys_dec i ds : {In i (dkeys ds)} + {~ In i (dkeys ds)}.
Proof. apply in_dec. apply Nat.eq_dec. Qed.

(* reading after writing, all cases *)
Lemma dget_dset ds i j d :
  dget (dset ds i d) j = if Nat.eqb i j then (if in_dkeys_dec i ds then d else []) else dget ds j.
Proof.
  destruct (Nat.eqb i j) eqn:E.
  - apply Nat.eqb_eq in E. subst j. destruct (in_dkeys_dec i ds) as [H|H].
    + apply dget_dset_same. exact H.
    + rewrite dset_notin by exact H. apply dget_notin. exact H.
  - apply dget_dset_other. intros ->. rewrite Nat.eqb_refl in E. discriminate.
Qed.

Lemma dset_incl ds i d : incl d (dget ds i) -> forall j, incl (dget (dset ds i d) j) (dget ds j).
Proof.
  intros H j. rewrite dget_dset. destruct (Nat.eqb i j) eqn:E.
  - apply Nat.eqb_eq in E. subst j. destruct (in_dkeys_dec i ds); [exact H | intros x []].
  - apply incl_refl.
Qed.

(* ------------------------------------------------------------------ assignments inside domains *)
Definition in_ds (s : asgn) (ds : doms) : Prop := forall i, In i (dkeys ds) -> In (s i) (dget ds i).

Lemma in_ds_dset s ds i d : in_ds s ds -> In (s i) d -> in_ds s (dset ds i d).
Proof.
  intros H Hd j Hj. rewrite dkeys_dset in Hj. rewrite dget_dset.
  destruct (Nat.eqb i j) eqn:E.
  - apply Nat.eqb_eq in E. subst j. destruct (in_dkeys_dec i ds); [exact Hd | contradiction].
  - apply H. exact Hj.
Qed.

Lemma in_ds_ddiscard s ds i x : in_ds s ds -> (In i (dkeys ds) -> s i <> x) -> in_ds s (ddiscard ds i x).
Proof.
  intros H N. unfold ddiscard. destruct (in_dkeys_dec i ds) as [K|K].
  - apply in_ds_dset; [exact H|]. apply discard_In. split; [apply H; exact K | apply N; exact K].
  - rewrite dset_notin by exact K. exact H.
Qed.

Lemma is_single_spec d : is_single d = true -> d = [first d].
Proof.
  unfold is_single, first. destruct d as [|x [|y tl]]; simpl; intros H; try discriminate. reflexivity.
Qed.

Lemma single_in s ds i : in_ds s ds -> In i (dkeys ds) -> is_single (dget ds i) = true -> first (dget ds i) = s i.
Proof.
  intros H K S. apply is_single_spec in S. specialize (H i K). rewrite S in H.
  destruct H as [H|[]]. exact H.
Qed.

Lemma not_open_in s ds i : in_ds s ds -> In i (dkeys ds) -> is_open (dget ds i) = false -> first (dget ds i) = s i.
Proof.
  intros H K S. specialize (H i K). unfold is_open in S. unfold first.
  destruct (dget ds i) as [|x [|y tl]]; simpl in *.
  - contradiction.
  - destruct H as [H|[]]. exact H.
  - discriminate.
Qed.

(* ------------------------------------------------------------------ min / max of a list *)
Lemma fold_min_le l : forall a, fold_left Z.min l a <= a /\ forall x, In x l -> fold_left Z.min l a <= x.
Proof.
  induction l as [|y tl IH]; intros a; simpl.
  - split; [lia | intros x []].
  - destruct (IH (Z.min a y)) as [H1 H2]. split; [lia|].
    intros x [->|Hx]; [lia | apply H2; exact Hx].
Qed.

Lemma fold_max_ge l : forall a, a <= fold_left Z.max l a /\ forall x, In x l -> x <= fold_left Z.max l a.
Proof.
  induction l as [|y tl IH]; intros a; simpl.
  - split; [lia | intros x []].
  - destruct (IH (Z.max a y)) as [H1 H2]. split; [lia|].
    intros x [->|Hx]; [lia | apply H2; exact Hx].
Qed.

Lemma zmin_list_le x l : In x l -> zmin_list l <= x.
Proof.
  destruct l as [|a tl]; [intros []|]. unfold zmin_list. destruct (fold_min_le tl a) as [H1 H2].
  intros [->|H]; [exact H1 | apply H2; exact H].
Qed.

Lemma zmax_list_ge x l : In x l -> x <= zmax_list l.
Proof.
  destruct l as [|a tl]; [intros []|]. unfold zmax_list. destruct (fold_max_ge tl a) as [H1 H2].
  intros [->|H]; [exact H1 | apply H2; exact H].
Qed.

(* ------------------------------------------------------------------ nodupb *)
Lemma nodupb_NoDup l : nodupb l = true <-> NoDup l.
Proof.
  induction l as [|x tl IH]; simpl.
  - split; [constructor | reflexivity].
  - rewrite andb_true_iff, negb_true_iff, IH. split.
    + intros [H1 H2]. constructor; [|exact H2]. intros Hin. apply zmem_In in Hin. congruence.
    + intros H. inversion H as [|? ? H1 H2]; subst. split; [|exact H2].
      destruct (zmem x tl) eqn:E; [apply zmem_In in E; contradiction | reflexivity].
Qed.

(* ------------------------------------------------------------------ linear normal form *)
Definition tids (ts : list (var * Z)) : list nat := map (fun t => vid (fst t)) ts.

Lemma terms_eval_lin_add s ts v m : terms_eval s (lin_add ts v m) = terms_eval s ts + m * aval s v.
Proof.
  induction ts as [|[w c] tl IH]; simpl.
  - lia.
  - destruct (Nat.eqb (vid w) (vid v)) eqn:E; simpl.
    + apply Nat.eqb_eq in E. unfold aval. rewrite E. lia.
    + rewrite IH. lia.
Qed.

Lemma visit_eval s e : forall m acc, lin_eval s (visit e m acc) = lin_eval s acc + m * eval s e.
Proof.
  unfold lin_eval. induction e as [v|c|a IHa b IHb|a IHa b IHb|a IHa b IHb|a IHa k]; intros m acc; simpl.
  - rewrite terms_eval_lin_add. lia.
  - lia.
  - rewrite IHb, IHa. lia.
  - rewrite IHb, IHa. lia.
  - rewrite IHa, IHb. lia.
  - rewrite IHa. lia.
Qed.

Lemma terms_eval_filter_nz s ts :
  terms_eval s (filter (fun t : var * Z => negb (snd t =? 0)) ts) = terms_eval s ts.
Proof.
  induction ts as [|[w c] tl IH]; simpl; [reflexivity|].
  destruct (c =? 0) eqn:E; simpl.
  - apply Z.eqb_eq in E. subst. rewrite IH. lia.
  - rewrite IH. reflexivity.
Qed.

Lemma linearize_eval_local s l r : lin_eval s (linearize l r) = eval s l - eval s r.
Proof.
  unfold linearize. unfold lin_eval at 1. cbn [fst snd]. rewrite terms_eval_filter_nz.
  change (lin_eval s (visit r (-1) (visit l 1 ([], 0))) = eval s l - eval s r).
  rewrite !visit_eval. unfold lin_eval. cbn [fst snd terms_eval fold_right]. lia.
Qed.

(* the variables of the normal form come from the expressions, with distinct ids *)
Lemma tids_lin_add ts v m : forall i, In i (tids (lin_add ts v m)) -> In i (tids ts) \/ i = vid v.
Proof.
  unfold tids. induction ts as [|[w c] tl IH]; simpl; intros i H.
  - destruct H as [H|[]]. right. symmetry. exact H.
  - destruct (Nat.eqb (vid w) (vid v)) eqn:E; simpl in H.
    + left. exact H.
    + destruct H as [H|H]; [left; left; exact H|]. destruct (IH i H) as [K|K]; [left; right; exact K | right; exact K].
Qed.

Lemma tids_visit e : forall m acc i, In i (tids (fst (visit e m acc))) -> In i (tids (fst acc)) \/ In i (map vid (expr_vars e)).
Proof.
  induction e as [v|c|a IHa b IHb|a IHa b IHb|a IHa b IHb|a IHa k]; intros m acc i H; simpl in *.
  - apply tids_lin_add in H. destruct H as [H|H]; [left; exact H | right; left; symmetry; exact H].
  - left. exact H.
  - rewrite map_app, in_app_iff. apply IHb in H. destruct H as [H|H]; [|tauto]. apply IHa in H. tauto.
  - rewrite map_app, in_app_iff. apply IHb in H. destruct H as [H|H]; [|tauto]. apply IHa in H. tauto.
  - rewrite map_app, in_app_iff. apply IHa in H. destruct H as [H|H]; [|tauto]. apply IHb in H. tauto.
  - apply IHa in H. exact H.
Qed.

Lemma tids_filter (p : var * Z -> bool) ts i : In i (tids (filter p ts)) -> In i (tids ts).
Proof.
  unfold tids. rewrite !in_map_iff. intros [t [E H]]. apply filter_In in H. exists t. tauto.
Qed.

Lemma linearize_ids l r i :
  In i (tids (fst (linearize l r))) -> In i (map vid (expr_vars l ++ expr_vars r)).
Proof.
  unfold linearize. cbn [fst]. intros H. apply tids_filter in H.
  rewrite map_app, in_app_iff. apply tids_visit in H. destruct H as [H|H]; [|tauto].
  apply tids_visit in H. destruct H as [H|H]; [destruct H | tauto].
Qed.

Lemma NoDup_tids_lin_add ts v m : NoDup (tids ts) -> NoDup (tids (lin_add ts v m)).
Proof.
  induction ts as [|[w c] tl IH]; simpl; intros H.
  - constructor; [intros [] | constructor].
  - inversion H as [|? ? H1 H2]; subst. destruct (Nat.eqb (vid w) (vid v)) eqn:E; simpl.
    + constructor; assumption.
    + constructor; [|apply IH; exact H2]. intros K. apply tids_lin_add in K. destruct K as [K|K].
      * apply H1. exact K.
      * simpl in K. rewrite K, Nat.eqb_refl in E. discriminate.
Qed.

Lemma NoDup_tids_visit e : forall m acc, NoDup (tids (fst acc)) -> NoDup (tids (fst (visit e m acc))).
Proof.
  induction e as [v|c|a IHa b IHb|a IHa b IHb|a IHa b IHb|a IHa k]; intros m acc H; simpl.
  - apply NoDup_tids_lin_add. exact H.
  - exact H.
  - apply IHb, IHa, H.
  - apply IHb, IHa, H.
  - apply IHa, IHb, H.
  - apply IHa, H.
Qed.

Lemma NoDup_map_filter {A B} (f : A -> B) (p : A -> bool) l : NoDup (map f l) -> NoDup (map f (filter p l)).
Proof.
  induction l as [|x tl IH]; simpl; intros H; [constructor|].
  inversion H as [|? ? H1 H2]; subst. destruct (p x); simpl.
  - constructor; [|apply IH; exact H2]. intros K. apply H1. apply in_map_iff in K. destruct K as [y [E K]].
    apply filter_In in K. apply in_map_iff. exists y. tauto.
  - apply IH. exact H2.
Qed.

Lemma linearize_NoDup l r : NoDup (tids (fst (linearize l r))).
Proof.
  unfold linearize. cbn [fst]. unfold tids. apply NoDup_map_filter.
  apply (NoDup_tids_visit r), (NoDup_tids_visit l). simpl. constructor.
Qed.
