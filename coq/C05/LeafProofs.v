(* C05 - (2) leaf_checked: when every domain is a singleton and propagation succeeds, every constraint of a
   kind the DFS handles holds under the induced assignment ("always evaluated once fully assigned"). *)
From Coq Require Import List ZArith Bool Lia Arith.
From SV Require Import C06.CpAst C05.CpDfs C05.CpLemmas C05.PropSound C05.PropMono.
Import ListNotations.
Open Scope Z_scope.

(* every domain is the singleton {s i} *)
Definition matches (s : asgn) (ds : doms) : Prop := forall i, In i (dkeys ds) -> dget ds i = [s i].
Definition no_empty (ds : doms) : Prop := forall i, In i (dkeys ds) -> dget ds i <> [].

Lemma matches_in_ds s ds : matches s ds -> in_ds s ds.
Proof. intros M i K. rewrite (M i K). left. reflexivity. Qed.

Lemma matches_dnodup s ds : matches s ds -> dnodup ds.
Proof.
  intros M i. destruct (in_dkeys_dec i ds) as [K|K].
  - rewrite (M i K). constructor; [intros [] | constructor].
  - rewrite dget_notin by exact K. constructor.
Qed.

Lemma matches_stay s ds ds' : matches s ds -> dsub ds' ds -> no_empty ds' -> matches s ds'.
Proof.
  intros M [K [I N]] NE i Hi. apply incl_single_eq.
  - rewrite <- (M i); [apply I | rewrite <- K; exact Hi].
  - apply N. eapply matches_dnodup. exact M.
  - apply NE. exact Hi.
Qed.

Lemma no_empty_back ds ds' : dsub ds' ds -> no_empty ds' -> no_empty ds.
Proof.
  intros [K [I N]] NE i Hi E. apply (NE i); [rewrite K; exact Hi|].
  specialize (I i). rewrite E in I. destruct (dget ds' i) as [|x tl]; [reflexivity|].
  destruct (I x (or_introl eq_refl)).
Qed.

Lemma no_empty_any ds : any_empty ds = false -> no_empty ds.
Proof.
  unfold any_empty. intros H i Hi E. assert (X : existsb (fun i => is_nil (dget ds i)) (dkeys ds) = true).
  { apply existsb_exists. exists i. split; [exact Hi | rewrite E; reflexivity]. }
  congruence.
Qed.

Lemma matches_no_empty s ds : matches s ds -> no_empty ds.
Proof. intros M i Hi E. rewrite (M i Hi) in E. discriminate. Qed.

(* ------------------------------------------------------------------ all_different *)
Lemma discard_others_absent i x : forall rest j ds p o,
  nth_error rest p = Some o -> (j + p)%nat <> i -> ~ In x (dget (discard_others rest i j x ds) (vid o)).
Proof.
  induction rest as [|a tl IH]; intros j ds p o Hp N; [destruct p; discriminate|].
  destruct p as [|p']; simpl in Hp |- *.
  - inversion Hp. subst a. rewrite Nat.add_0_r in N. apply Nat.eqb_neq in N. rewrite N.
    intros Hin. destruct (dsub_discard_others i x tl (S j) (ddiscard ds (vid o) x)) as [_ [I _]].
    apply I in Hin. unfold ddiscard in Hin. rewrite dget_dset, Nat.eqb_refl in Hin.
    destruct (in_dkeys_dec (vid o) ds); [apply discard_In in Hin; tauto | destruct Hin].
  - apply (IH _ _ p' o); [exact Hp | lia].
Qed.

Lemma alldiff_leaf s all : forall rest pre ds,
  all = pre ++ rest -> matches s ds -> (forall v, In v all -> In (vid v) (dkeys ds)) ->
  no_empty (alldiff_loop all rest (length pre) ds) ->
  forall p v q o, nth_error rest p = Some v -> nth_error all q = Some o -> q <> (length pre + p)%nat ->
  s (vid o) <> s (vid v).
Proof.
  induction rest as [|a tl IH]; intros pre ds E M K NE p v q o Hp Hq N; [destruct p; discriminate|].
  simpl in NE.
  assert (Ka : In (vid a) (dkeys ds)). { apply K. rewrite E. apply in_or_app. right. left. reflexivity. }
  rewrite (M _ Ka) in NE. simpl in NE.
  set (ds1 := discard_others all (length pre) 0 (s (vid a)) ds) in *.
  assert (S1 : dsub ds1 ds) by apply dsub_discard_others.
  assert (NE1 : no_empty ds1) by (eapply no_empty_back; [apply dsub_alldiff_loop | exact NE]).
  assert (M1 : matches s ds1) by (eapply matches_stay; eauto).
  destruct p as [|p']; simpl in Hp.
  - inversion Hp. subst a. rewrite Nat.add_0_r in N.
    assert (Ko : In (vid o) (dkeys ds1)).
    { destruct S1 as [K1 _]. rewrite K1. apply K. eapply nth_error_In. exact Hq. }
    pose proof (discard_others_absent (length pre) (s (vid v)) all 0 ds q o Hq N) as A.
    fold ds1 in A. rewrite (M1 _ Ko) in A. intros Eq. apply A. left. exact Eq.
  - replace (S (length pre)) with (length (pre ++ [a])) in NE by (rewrite app_length; simpl; lia).
    apply (IH (pre ++ [a]) ds1) with (p := p') (q := q); auto.
    + rewrite E, <- app_assoc. reflexivity.
    + intros w Hw. destruct S1 as [K1 _]. rewrite K1. apply K. exact Hw.
    + rewrite app_length. simpl. lia.
Qed.

Lemma alldiff_leaf_holds s vs ds :
  matches s ds -> (forall v, In v vs -> In (vid v) (dkeys ds)) ->
  no_empty (alldiff_loop vs vs 0 ds) -> NoDup (vals s vs).
Proof.
  intros M K NE. apply NoDup_nth_error. intros i j Hi Eij.
  destruct (Nat.eq_dec i j) as [|N]; [assumption|]. exfalso.
  unfold vals in *. rewrite !nth_error_map in Eij. rewrite map_length in Hi.
  destruct (nth_error vs i) as [v|] eqn:Ei; [|apply nth_error_None in Ei; lia].
  destruct (nth_error vs j) as [o|] eqn:Ej; [|discriminate].
  simpl in Eij. inversion Eij as [Eq].
  apply (alldiff_leaf s vs vs [] ds eq_refl M K NE i v j o Ei Ej); [simpl; lia|].
  unfold aval in Eq. symmetry. exact Eq.
Qed.

(* ------------------------------------------------------------------ one propagator at a leaf *)
Theorem leaf_checked_one s c ds ds' :
  matches s ds -> cvars_in c ds -> dfs_supported c = true ->
  prop_one c ds = Some ds' -> no_empty ds' -> holds s c.
Proof.
  intros M K Sup E NE. destruct c; simpl in Sup; try discriminate; simpl in E |- *.
  - (* all_different *)
    unfold prop_alldiff in E. inversion E. subst ds'. apply alldiff_leaf_holds with (ds := ds); auto.
  - (* eq_const *)
    assert (Kv : In (vid v) (dkeys ds)) by (apply K; left; reflexivity).
    destruct (zmem c (dget ds (vid v))) eqn:Z; [|discriminate].
    apply zmem_In in Z. rewrite (M _ Kv) in Z. destruct Z as [Z|[]]. exact Z.
  - (* ne_const *)
    assert (Kv : In (vid v) (dkeys ds)) by (apply K; left; reflexivity).
    inversion E. subst ds'. intros Eq. apply (NE (vid v)); [rewrite dkeys_ddiscard; exact Kv|].
    unfold ddiscard. rewrite dget_dset_same by exact Kv. rewrite (M _ Kv). simpl.
    unfold aval in Eq. rewrite Eq, Z.eqb_refl. reflexivity.
  - (* eq_var *)
    assert (Kv : In (vid v) (dkeys ds)) by (apply K; left; reflexivity).
    assert (Kw : In (vid w) (dkeys ds)) by (apply K; right; left; reflexivity).
    rewrite (M _ Kv), (M _ Kw) in E. simpl in E. unfold aval.
    destruct (s (vid v) =? s (vid w)) eqn:Q; [apply Z.eqb_eq in Q; exact Q | simpl in E; discriminate].
  - (* ne_var *)
    assert (Kv : In (vid v) (dkeys ds)) by (apply K; left; reflexivity).
    assert (Kw : In (vid w) (dkeys ds)) by (apply K; right; left; reflexivity).
    inversion E as [E']. clear E. rewrite (M _ Kv) in E'. simpl in E'. unfold aval. intros Eq.
    set (ds1 := ddiscard ds (vid w) (s (vid v))) in *.
    assert (S1 : dsub ds' ds1).
    { rewrite <- E'. destruct (is_single _); [apply dsub_ddiscard | apply dsub_refl]. }
    assert (NE1 : no_empty ds1) by (eapply no_empty_back; eauto).
    apply (NE1 (vid w)); [unfold ds1; rewrite dkeys_ddiscard; exact Kw|].
    unfold ds1, ddiscard. rewrite dget_dset_same by exact Kw. rewrite (M _ Kw). simpl.
    rewrite Eq, Z.eqb_refl. reflexivity.
  - (* linear *)
    destruct (prop_lin_unfold s l r is_ne ds (matches_in_ds _ _ M) K) as [free [const [EL [Eall [_ Kf]]]]].
    rewrite EL in E. destruct free as [|nc ftl].
    + unfold csum in Eall. simpl in Eall, E. destruct is_ne.
      * destruct (const =? 0) eqn:Q; [discriminate|]. apply Z.eqb_neq in Q. lia.
      * destruct (const =? 0) eqn:Q; [|discriminate]. apply Z.eqb_eq in Q. lia.
    + exfalso. destruct (Kf nc (or_introl eq_refl)) as [K1 O1]. rewrite (M _ K1) in O1. discriminate.
Qed.

(* ------------------------------------------------------------------ the last sweep *)
Lemma prop_pass_flag : forall cs ds ch ds', prop_pass cs ds ch = Some (ds', false) -> ch = false.
Proof.
  induction cs as [|c tl IH]; intros ds ch ds' H; simpl in H.
  - inversion H. reflexivity.
  - destruct (prop_one c ds) as [ds1|]; [|discriminate]. destruct (any_empty ds1); [discriminate|].
    apply IH in H. apply orb_false_iff in H. tauto.
Qed.

Lemma not_shrunk_matches s ds ds1 : dsub ds1 ds -> shrunk ds ds1 = false -> matches s ds1 -> matches s ds.
Proof.
  intros [K [I N]] Sh M i Hi.
  assert (L : (length (dget ds i) <= length (dget ds1 i))%nat).
  { unfold shrunk in Sh. destruct (Nat.ltb (length (dget ds1 i)) (length (dget ds i))) eqn:E.
    - assert (X : existsb (fun i => Nat.ltb (length (dget ds1 i)) (length (dget ds i))) (dkeys ds) = true)
        by (apply existsb_exists; exists i; tauto). congruence.
    - apply Nat.ltb_ge in E. exact E. }
  assert (M1 : dget ds1 i = [s i]) by (apply M; rewrite K; exact Hi).
  rewrite M1 in L. simpl in L. specialize (I i). rewrite M1 in I.
  destruct (dget ds i) as [|x [|y tl]]; simpl in L.
  - destruct (I (s i) (or_introl eq_refl)).
  - destruct (I (s i) (or_introl eq_refl)) as [->|[]]. reflexivity.
  - lia.
Qed.

Lemma prop_pass_leaf s : forall cs ds ch ds',
  prop_pass cs ds ch = Some (ds', false) -> matches s ds' ->
  (forall c, In c cs -> cvars_in c ds /\ dfs_supported c = true) ->
  matches s ds /\ forall c, In c cs -> holds s c.
Proof.
  induction cs as [|c tl IH]; intros ds ch ds' H M Hc; simpl in H.
  - inversion H. subst. split; [exact M | intros c []].
  - destruct (prop_one c ds) as [ds1|] eqn:E1; [|discriminate].
    destruct (any_empty ds1) eqn:AE; [discriminate|].
    pose proof (prop_pass_flag _ _ _ _ H) as F. apply orb_false_iff in F. destruct F as [_ Sh].
    pose proof (dsub_prop_one c ds ds1 E1) as S1.
    destruct (IH ds1 _ ds' H M) as [M1 Hall].
    { intros c' Hc'. destruct (Hc c' (or_intror Hc')) as [Kc Sc]. split; [|exact Sc].
      intros v Hv. destruct S1 as [K1 _]. rewrite K1. apply Kc. exact Hv. }
    assert (M0 : matches s ds) by (eapply not_shrunk_matches; eauto).
    split; [exact M0|]. intros c' [<-|Hc']; [|apply Hall; exact Hc'].
    destruct (Hc c (or_introl eq_refl)) as [Kc Sc].
    apply (leaf_checked_one s c ds ds1 M0 Kc Sc E1). apply no_empty_any. exact AE.
Qed.

Lemma prop_loop_last cs : forall fuel ds ds', prop_loop cs fuel ds = POk ds' ->
  exists dsl, dsub dsl ds /\ prop_pass cs dsl false = Some (ds', false).
Proof.
  induction fuel as [|f IH]; intros ds ds' H; simpl in H; [discriminate|].
  destruct (prop_pass cs ds false) as [[ds1 [|]]|] eqn:E; try discriminate.
  - destruct (IH ds1 ds' H) as [dsl [S P]]. exists dsl. split; [|exact P].
    eapply dsub_trans; [exact S | eapply dsub_prop_pass; exact E].
  - inversion H. subst. exists ds. split; [apply dsub_refl | exact E].
Qed.

(* (2) *)
Theorem leaf_checked s cs ds0 ds :
  propagate cs ds0 = POk ds -> matches s ds ->
  (forall c, In c cs -> cvars_in c ds0 /\ dfs_supported c = true) ->
  forall c, In c cs -> holds s c.
Proof.
  intros P M Hc. destruct (prop_loop_last cs _ _ _ P) as [dsl [[K _] PP]].
  apply (prop_pass_leaf s cs dsl false ds PP M).
  intros c Hin. destruct (Hc c Hin) as [Kc Sc]. split; [|exact Sc].
  intros v Hv. rewrite K. apply Kc. exact Hv.
Qed.
