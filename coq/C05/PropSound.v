(* C05 - (1) prop_sound: no propagator (hence neither a sweep nor the fixpoint) removes a value that occurs
   in a solution of the constraint inside the current domains, and none of them reports inconsistency
   when such a solution exists. *)
From Coq Require Import List ZArith Bool Lia Arith.
From SV Require Import C06.CpAst C05.CpDfs C05.CpLemmas.
Import ListNotations.
Open Scope Z_scope.

(* every variable of the constraint is a key of the domain dictionary *)
Definition cvars_in (c : cstr) (ds : doms) : Prop := forall v, In v (cons_vars c) -> In (vid v) (dkeys ds).

(* ------------------------------------------------------------------ keys never change *)
Lemma dkeys_ddiscard ds i x : dkeys (ddiscard ds i x) = dkeys ds.
Proof. apply dkeys_dset. Qed.

Lemma dkeys_discard_others i x : forall rest j ds, dkeys (discard_others rest i j x ds) = dkeys ds.
Proof.
  induction rest as [|o tl IH]; intros j ds; simpl; [reflexivity|].
  rewrite IH. destruct (Nat.eqb j i); [reflexivity | apply dkeys_ddiscard].
Qed.

Lemma dkeys_alldiff_loop all : forall rest i ds, dkeys (alldiff_loop all rest i ds) = dkeys ds.
Proof.
  induction rest as [|v tl IH]; intros i ds; simpl; [reflexivity|].
  rewrite IH. destruct (is_single (dget ds (vid v))); [apply dkeys_discard_others | reflexivity].
Qed.

Lemma dkeys_eq_loop free const : forall todo ds ds', eq_loop free todo const ds = Some ds' -> dkeys ds' = dkeys ds.
Proof.
  induction todo as [|[n c] tl IH]; intros ds ds' H; simpl in H.
  - inversion H. reflexivity.
  - destruct (eq_filter ds free const n c) as [|y ys] eqn:E; [discriminate|].
    apply IH in H. rewrite H. apply dkeys_dset.
Qed.

Lemma dkeys_prop_lin l r ne ds ds' : prop_lin l r ne ds = Some ds' -> dkeys ds' = dkeys ds.
Proof.
  unfold prop_lin.
  set (free := filter _ _). set (const := _ + _).
  destruct free as [|[n c] ftl] eqn:EF.
  - destruct ne; destruct (const =? 0); intros H; inversion H; reflexivity.
  - destruct ne.
    + destruct ftl; [destruct (const mod c =? 0)|]; intros H; inversion H; try reflexivity. apply dkeys_ddiscard.
    + apply dkeys_eq_loop.
Qed.

Lemma dkeys_prop_one c ds ds' : prop_one c ds = Some ds' -> dkeys ds' = dkeys ds.
Proof.
  destruct c; simpl; try (intros H; inversion H; reflexivity).
  - unfold prop_alldiff. intros H. inversion H. apply dkeys_alldiff_loop.
  - destruct (zmem c (dget ds (vid v))); intros H; inversion H. apply dkeys_dset.
  - intros H. inversion H. apply dkeys_ddiscard.
  - destruct (filter _ _); intros H; inversion H. rewrite !dkeys_dset. reflexivity.
  - intros H. inversion H. clear H.
    destruct (is_single (dget ds (vid v))); destruct (is_single _); rewrite ?dkeys_ddiscard; reflexivity.
  - apply dkeys_prop_lin.
Qed.

(* ------------------------------------------------------------------ all_different *)
Lemma discard_others_sound s i x : forall rest j ds,
  (forall k o, nth_error rest k = Some o -> (j + k)%nat <> i -> s (vid o) <> x) ->
  in_ds s ds -> in_ds s (discard_others rest i j x ds).
Proof.
  induction rest as [|a tl IH]; intros j ds H Hs; simpl; [exact Hs|].
  apply IH.
  - intros k o Hk N. apply (H (S k) o); [exact Hk | lia].
  - destruct (Nat.eqb j i) eqn:E; [exact Hs|]. apply in_ds_ddiscard; [exact Hs|].
    intros _. apply (H 0%nat a); [reflexivity|]. rewrite Nat.add_0_r. apply Nat.eqb_neq. exact E.
Qed.

Lemma NoDup_vals_nth s all i k v o :
  NoDup (vals s all) -> nth_error all i = Some v -> nth_error all k = Some o -> k <> i -> s (vid o) <> s (vid v).
Proof.
  intros ND Hi Hk N E. apply N.
  assert (Hi' := map_nth_error (aval s) _ _ Hi). assert (Hk' := map_nth_error (aval s) _ _ Hk).
  fold (vals s all) in Hi', Hk'.
  rewrite NoDup_nth_error in ND. apply ND.
  - apply nth_error_Some. rewrite Hk'. discriminate.
  - rewrite Hi', Hk'. unfold aval. rewrite E. reflexivity.
Qed.

Lemma alldiff_loop_sound s all :
  NoDup (vals s all) ->
  forall rest pre ds, all = pre ++ rest -> (forall v, In v all -> In (vid v) (dkeys ds)) ->
  in_ds s ds -> in_ds s (alldiff_loop all rest (length pre) ds).
Proof.
  intros ND. induction rest as [|v tl IH]; intros pre ds E K Hs; simpl; [exact Hs|].
  assert (Hv : nth_error all (length pre) = Some v).
  { rewrite E. rewrite nth_error_app2 by lia. rewrite Nat.sub_diag. reflexivity. }
  replace (S (length pre)) with (length (pre ++ [v])) by (rewrite app_length; simpl; lia).
  apply IH.
  - rewrite E, <- app_assoc. reflexivity.
  - intros w Hw. destruct (is_single (dget ds (vid v))); [rewrite dkeys_discard_others|]; apply K; exact Hw.
  - destruct (is_single (dget ds (vid v))) eqn:S1; [|exact Hs].
    assert (Kv : In (vid v) (dkeys ds)). { apply K. rewrite E. apply in_or_app. right. left. reflexivity. }
    rewrite (single_in s ds (vid v) Hs Kv S1).
    apply discard_others_sound; [|exact Hs].
    intros k o Hk N. simpl in N. eapply NoDup_vals_nth; eauto.
Qed.

(* ------------------------------------------------------------------ linear constraints *)
Definition csum (s : asgn) (cf : list coef_t) : Z := zsum (map (fun nc => snd nc * s (fst nc)) cf).

Lemma csum_terms s ts : csum s (map (fun t : var * Z => (vid (fst t), snd t)) ts) = terms_eval s ts.
Proof.
  unfold csum. induction ts as [|[w c] tl IH]; simpl; [reflexivity|]. rewrite IH. reflexivity.
Qed.

Lemma csum_split s (p : coef_t -> bool) cf :
  csum s cf = csum s (filter p cf) + csum s (filter (fun x => negb (p x)) cf).
Proof.
  unfold csum. induction cf as [|a tl IH]; simpl; [reflexivity|].
  destruct (p a); simpl; rewrite IH; lia.
Qed.

Lemma filter_ne_notin name (cf : list coef_t) :
  ~ In name (map fst cf) -> filter (fun nc => negb (Nat.eqb (fst nc) name)) cf = cf.
Proof.
  induction cf as [|[n c] tl IH]; simpl; intros H; [reflexivity|].
  destruct (Nat.eqb n name) eqn:E.
  - apply Nat.eqb_eq in E. subst. tauto.
  - simpl. rewrite IH; [reflexivity | tauto].
Qed.

Lemma csum_remove s name coef : forall cf, NoDup (map fst cf) -> In (name, coef) cf ->
  csum s cf = coef * s name + csum s (filter (fun nc => negb (Nat.eqb (fst nc) name)) cf).
Proof.
  induction cf as [|[n c] tl IH]; simpl; intros ND H; [destruct H|].
  inversion ND as [|? ? N1 N2]; subst.
  destruct (Nat.eqb n name) eqn:E; simpl.
  - apply Nat.eqb_eq in E. subst n. destruct H as [H|H].
    + inversion H; subst. rewrite filter_ne_notin by exact N1. unfold csum. simpl. reflexivity.
    + exfalso. apply N1. apply in_map_iff. exists (name, coef). split; [reflexivity | exact H].
  - destruct H as [H|H]; [inversion H; subst; rewrite Nat.eqb_refl in E; discriminate|].
    unfold csum in *. simpl. rewrite (IH N2 H). lia.
Qed.

Lemma others_bounds s ds : forall others,
  (forall nc, In nc others -> In (s (fst nc)) (dget ds (fst nc))) ->
  others_lo ds others <= csum s others <= others_hi ds others.
Proof.
  unfold others_lo, others_hi, csum. induction others as [|[o co] tl IH]; simpl; intros H; [lia|].
  assert (Ho : In (co * s o) (map (fun v => co * v) (dget ds o))).
  { apply in_map_iff. exists (s o). split; [reflexivity | apply (H (o, co)); left; reflexivity]. }
  pose proof (zmin_list_le _ _ Ho). pose proof (zmax_list_ge _ _ Ho).
  assert (IH' := IH (fun nc Hnc => H nc (or_intror Hnc))). lia.
Qed.

Lemma eq_filter_In s ds free const name coef :
  NoDup (map fst free) -> csum s free = - const -> In (name, coef) free ->
  (forall nc, In nc free -> In (fst nc) (dkeys ds)) -> in_ds s ds ->
  In (s name) (eq_filter ds free const name coef).
Proof.
  intros ND Hsum Hin K Hs.
  assert (Hn : In (s name) (dget ds name)). { apply Hs. apply (K (name, coef)). exact Hin. }
  rewrite (csum_remove s name coef free ND Hin) in Hsum.
  unfold eq_filter. set (others := filter _ free) in *.
  assert (Ho : forall nc, In nc others -> In (s (fst nc)) (dget ds (fst nc))).
  { intros nc Hnc. apply Hs. apply K. unfold others in Hnc. apply filter_In in Hnc. tauto. }
  pose proof (others_bounds s ds others Ho) as B.
  assert (Dflt : In (s name) (filter (fun v => (others_lo ds others <=? - const - coef * v)
                                               && (- const - coef * v <=? others_hi ds others)) (dget ds name))).
  { apply filter_In. split; [exact Hn|]. apply andb_true_iff. split; apply Z.leb_le; lia. }
  destruct others as [|[o co] [|p tl]] eqn:EO; try exact Dflt.
  apply filter_In. split; [exact Hn|]. apply zmem_In. apply in_map_iff. exists (s o). split.
  - unfold csum in Hsum. simpl in Hsum. lia.
  - apply (Ho (o, co)). left. reflexivity.
Qed.

Lemma eq_loop_sound s free const :
  NoDup (map fst free) -> csum s free = - const ->
  forall todo ds, incl todo free -> (forall nc, In nc free -> In (fst nc) (dkeys ds)) -> in_ds s ds ->
  exists ds', eq_loop free todo const ds = Some ds' /\ in_ds s ds'.
Proof.
  intros ND Hsum. induction todo as [|[n c] tl IH]; intros ds I K Hs; simpl.
  - exists ds. split; [reflexivity | exact Hs].
  - assert (Hin : In (n, c) free) by (apply I; left; reflexivity).
    pose proof (eq_filter_In s ds free const n c ND Hsum Hin K Hs) as HF.
    destruct (eq_filter ds free const n c) as [|y ys] eqn:E; [destruct HF|].
    apply IH.
    + intros x Hx. apply I. right. exact Hx.
    + intros nc Hnc. rewrite dkeys_dset. apply K. exact Hnc.
    + apply in_ds_dset; [exact Hs | exact HF].
Qed.

Lemma ne_single_value c sn const : c * sn + const <> 0 -> const mod c = 0 -> sn <> (- const) / c.
Proof.
  intros H M E. subst sn. destruct (Z.eq_dec c 0) as [->|N].
  - rewrite Zmod_0_r in M. lia.
  - apply Z.mod_divide in M; [|exact N]. destruct M as [k ->].
    replace (- (k * c)) with ((- k) * c) in H by lia. rewrite Z.div_mul in H by exact N. lia.
Qed.

(* what _propagate_ne_expr computes before it branches: the free terms and the constant *)
Definition lin_branch (free : list coef_t) (const : Z) (ne : bool) (ds : doms) : option doms :=
  match free with
  | [] => if ne then (if const =? 0 then None else Some ds) else (if const =? 0 then Some ds else None)
  | (n, c) :: ftl =>
      if ne then
        match ftl with
        | [] => if const mod c =? 0 then Some (ddiscard ds n ((- const) / c)) else Some ds
        | _ => Some ds
        end
      else eq_loop free free const ds
  end.

Lemma prop_lin_unfold s l r ne ds :
  in_ds s ds -> cvars_in (CLin l r ne) ds ->
  exists free const,
    prop_lin l r ne ds = lin_branch free const ne ds
    /\ eval s l - eval s r = csum s free + const
    /\ NoDup (map fst free)
    /\ (forall nc, In nc free -> In (fst nc) (dkeys ds) /\ is_open (dget ds (fst nc)) = true).
Proof.
  intros Hs K. unfold prop_lin. cbv zeta.
  set (tc := linearize l r).
  set (coefs := map _ (fst tc)).
  set (free := filter (fun nc => is_open _) coefs).
  set (fixed := filter (fun nc => negb _) coefs).
  set (const := snd tc + _).
  exists free, const.
  assert (Kc : forall nc, In nc coefs -> In (fst nc) (dkeys ds)).
  { intros nc Hnc. unfold coefs in Hnc. apply in_map_iff in Hnc. destruct Hnc as [t [<- Ht]]. simpl.
    assert (Hid : In (vid (fst t)) (tids (fst tc))) by (unfold tids; apply in_map_iff; exists t; tauto).
    apply linearize_ids in Hid. apply in_map_iff in Hid. destruct Hid as [v [<- Hv]]. apply K. exact Hv. }
  assert (Efix : zsum (map (fun nc : nat * Z => snd nc * first (dget ds (fst nc))) fixed) = csum s fixed).
  { unfold csum. f_equal. apply map_ext_in. intros nc Hnc. unfold fixed in Hnc. apply filter_In in Hnc.
    destruct Hnc as [H1 H2]. apply negb_true_iff in H2. rewrite (not_open_in s ds (fst nc) Hs (Kc nc H1) H2). reflexivity. }
  split; [reflexivity|]. split; [|split].
  - rewrite <- (linearize_eval_local s l r). fold tc. unfold lin_eval. rewrite <- csum_terms. fold coefs.
    rewrite (csum_split s (fun nc : nat * Z => is_open (dget ds (fst nc))) coefs).
    change (csum s free + csum s fixed + snd tc = csum s free + const).
    unfold const. rewrite Efix. lia.
  - apply NoDup_map_filter. unfold coefs. rewrite map_map. simpl. apply (linearize_NoDup l r).
  - intros nc Hnc. unfold free in Hnc. apply filter_In in Hnc. split; [apply Kc|]; tauto.
Qed.

Lemma prop_lin_sound s l r ne ds :
  in_ds s ds -> cvars_in (CLin l r ne) ds -> holds s (CLin l r ne) ->
  exists ds', prop_lin l r ne ds = Some ds' /\ in_ds s ds'.
Proof.
  intros Hs K Hh. destruct (prop_lin_unfold s l r ne ds Hs K) as [free [const [E [Eall [NDf Kf]]]]].
  rewrite E. unfold lin_branch. simpl in Hh.
  assert (Hsum : ne = false -> csum s free = - const). { intros ->. lia. }
  destruct free as [|[n c] ftl] eqn:EF.
  - unfold csum in Eall. simpl in Eall.
    destruct ne.
    + destruct (const =? 0) eqn:E0; [apply Z.eqb_eq in E0; lia|]. exists ds. split; [reflexivity | exact Hs].
    + destruct (const =? 0) eqn:E0; [|apply Z.eqb_neq in E0; lia]. exists ds. split; [reflexivity | exact Hs].
  - destruct ne.
    + destruct ftl as [|p q].
      * destruct (const mod c =? 0) eqn:EM; [|exists ds; split; [reflexivity | exact Hs]].
        apply Z.eqb_eq in EM. eexists. split; [reflexivity|].
        apply in_ds_ddiscard; [exact Hs|]. intros _. apply ne_single_value; [|exact EM].
        unfold csum in Eall. simpl in Eall. lia.
      * exists ds. split; [reflexivity | exact Hs].
    + apply (eq_loop_sound s _ const NDf (Hsum eq_refl)); [apply incl_refl | | exact Hs].
      intros nc Hnc. apply Kf. exact Hnc.
Qed.

(* ------------------------------------------------------------------ every propagator *)
Theorem prop_one_sound s c ds :
  in_ds s ds -> cvars_in c ds -> holds s c ->
  exists ds', prop_one c ds = Some ds' /\ in_ds s ds'.
Proof.
  intros Hs K Hh. destruct c; simpl; try (exists ds; split; [reflexivity | exact Hs]).
  - (* all_different *)
    eexists. split; [reflexivity|]. apply (alldiff_loop_sound s vs Hh vs [] ds); [reflexivity | | exact Hs].
    intros v Hv. apply K. exact Hv.
  - (* eq_const *)
    simpl in Hh. assert (Kv : In (vid v) (dkeys ds)) by (apply K; left; reflexivity).
    assert (Hm : zmem c (dget ds (vid v)) = true). { apply zmem_In. rewrite <- Hh. apply Hs. exact Kv. }
    rewrite Hm. eexists. split; [reflexivity|]. apply in_ds_dset; [exact Hs|]. left. symmetry. exact Hh.
  - (* ne_const *)
    eexists. split; [reflexivity|]. apply in_ds_ddiscard; [exact Hs|]. intros _. exact Hh.
  - (* eq_var *)
    simpl in Hh. assert (Kv : In (vid v) (dkeys ds)) by (apply K; left; reflexivity).
    assert (Kw : In (vid w) (dkeys ds)) by (apply K; right; left; reflexivity).
    assert (Hc : In (s (vid v)) (filter (fun x => zmem x (dget ds (vid w))) (dget ds (vid v)))).
    { apply filter_In. split; [apply Hs; exact Kv|]. apply zmem_In. unfold aval in Hh. rewrite Hh. apply Hs. exact Kw. }
    destruct (filter _ _) as [|y ys] eqn:E; [destruct Hc|].
    eexists. split; [reflexivity|]. apply in_ds_dset; [apply in_ds_dset; [exact Hs | exact Hc]|].
    unfold aval in Hh. rewrite <- Hh. exact Hc.
  - (* ne_var *)
    simpl in Hh. unfold aval in Hh. eexists. split; [reflexivity|].
    set (ds1 := if is_single (dget ds (vid v)) then ddiscard ds (vid w) (first (dget ds (vid v))) else ds).
    assert (H1 : in_ds s ds1).
    { unfold ds1. destruct (is_single (dget ds (vid v))) eqn:S1; [|exact Hs].
      apply in_ds_ddiscard; [exact Hs|]. intros _.
      rewrite (single_in s ds (vid v) Hs (K v (or_introl eq_refl)) S1). intros E. apply Hh. symmetry. exact E. }
    assert (K1 : dkeys ds1 = dkeys ds).
    { unfold ds1. destruct (is_single (dget ds (vid v))); [apply dkeys_ddiscard | reflexivity]. }
    destruct (is_single (dget ds1 (vid w))) eqn:S2; [|exact H1].
    apply in_ds_ddiscard; [exact H1|]. intros _.
    assert (Kw : In (vid w) (dkeys ds1)) by (rewrite K1; apply K; right; left; reflexivity).
    rewrite (single_in s ds1 (vid w) H1 Kw S2). exact Hh.
  - (* linear *)
    apply prop_lin_sound; assumption.
Qed.

(* ------------------------------------------------------------------ sweep and fixpoint *)
Lemma in_ds_not_empty s ds : in_ds s ds -> any_empty ds = false.
Proof.
  intros Hs. unfold any_empty. destruct (existsb _ _) eqn:E; [|reflexivity].
  apply existsb_exists in E. destruct E as [i [Hi E]]. specialize (Hs i Hi).
  destruct (dget ds i); [destruct Hs | discriminate].
Qed.

Lemma prop_pass_sound s : forall cs ds ch,
  in_ds s ds -> (forall c, In c cs -> cvars_in c ds /\ holds s c) ->
  exists ds' ch', prop_pass cs ds ch = Some (ds', ch') /\ in_ds s ds' /\ dkeys ds' = dkeys ds.
Proof.
  induction cs as [|c tl IH]; intros ds ch Hs H; simpl.
  - exists ds, ch. auto.
  - destruct (H c (or_introl eq_refl)) as [K Hh].
    destruct (prop_one_sound s c ds Hs K Hh) as [ds1 [E1 H1]]. rewrite E1.
    rewrite (in_ds_not_empty s ds1 H1).
    pose proof (dkeys_prop_one c ds ds1 E1) as K1.
    destruct (IH ds1 (ch || shrunk ds ds1) H1) as [ds' [ch' [E [H2 K2]]]].
    + intros c' Hc'. destruct (H c' (or_intror Hc')) as [Kc Hc]. split; [|exact Hc].
      intros v Hv. rewrite K1. apply Kc. exact Hv.
    + exists ds', ch'. split; [exact E|]. split; [exact H2 | congruence].
Qed.

Lemma prop_loop_sound s cs : forall fuel ds,
  in_ds s ds -> (forall c, In c cs -> cvars_in c ds /\ holds s c) ->
  prop_loop cs fuel ds <> PFail /\ forall ds', prop_loop cs fuel ds = POk ds' -> in_ds s ds' /\ dkeys ds' = dkeys ds.
Proof.
  induction fuel as [|f IH]; intros ds Hs H; simpl.
  - split; [discriminate | intros ds' E; discriminate].
  - destruct (prop_pass_sound s cs ds false Hs H) as [ds1 [ch [E [H1 K1]]]]. rewrite E.
    destruct ch.
    + assert (H' : forall c, In c cs -> cvars_in c ds1 /\ holds s c).
      { intros c Hc. destruct (H c Hc) as [Kc Hh]. split; [|exact Hh]. intros v Hv. rewrite K1. apply Kc. exact Hv. }
      destruct (IH ds1 H1 H') as [A B]. split; [exact A|].
      intros ds' E'. destruct (B ds' E') as [B1 B2]. split; [exact B1 | congruence].
    + split; [discriminate|]. intros ds' E'. inversion E'. subst. auto.
Qed.

(* (1) the fixpoint never fails and never drops the solution *)
Theorem prop_sound s cs ds :
  in_ds s ds -> (forall c, In c cs -> cvars_in c ds /\ holds s c) ->
  propagate cs ds <> PFail /\ forall ds', propagate cs ds = POk ds' -> in_ds s ds' /\ dkeys ds' = dkeys ds.
Proof. intros Hs H. apply prop_loop_sound; assumption. Qed.
