(* C05 - the fuel of the model (total domain size + 1, for the `while changed` loop and for the recursion
   of backtrack) is always sufficient: the model never answers PFuel / RFuel. *)
From Coq Require Import List ZArith Bool Lia Arith.
From SV Require Import C06.CpAst C06.CpAstProofs C05.CpDfs C05.CpSpec C05.CpLemmas C05.PropSound C05.PropMono
  C05.LeafProofs C05.DfsSound C05.DfsComplete C05.DfsEnum.
Import ListNotations.
Open Scope Z_scope.

(* total size as a sum over the keys *)
Fixpoint ksum (ds : doms) (ks : list nat) : nat :=
  match ks with [] => 0%nat | k :: tl => (length (dget ds k) + ksum ds tl)%nat end.

Lemma ksum_cons j d tl ks : ~ In j ks -> ksum ((j, d) :: tl) ks = ksum tl ks.
Proof.
  induction ks as [|k kt IH]; simpl; intros N; [reflexivity|].
  destruct (Nat.eqb j k) eqn:E; [apply Nat.eqb_eq in E; subst; tauto|]. rewrite IH by tauto. reflexivity.
Qed.

Lemma dsize_ksum ds : NoDup (dkeys ds) -> dsize ds = ksum ds (dkeys ds).
Proof.
  unfold dkeys. induction ds as [|[j d] tl IH]; simpl; intros ND; [reflexivity|].
  inversion ND as [|? ? N1 N2]; subst. rewrite Nat.eqb_refl. rewrite ksum_cons by exact N1. rewrite IH by exact N2. reflexivity.
Qed.

Lemma ksum_le ds' ds ks : (forall i, (length (dget ds' i) <= length (dget ds i))%nat) -> (ksum ds' ks <= ksum ds ks)%nat.
Proof. intros H. induction ks as [|k tl IH]; simpl; [lia|]. specialize (H k). lia. Qed.

Lemma ksum_lt ds' ds ks i : (forall i, (length (dget ds' i) <= length (dget ds i))%nat) ->
  In i ks -> (length (dget ds' i) < length (dget ds i))%nat -> (ksum ds' ks < ksum ds ks)%nat.
Proof.
  intros H. induction ks as [|k tl IH]; simpl; intros Hi L; [destruct Hi|].
  destruct Hi as [->|Hi].
  - pose proof (ksum_le ds' ds tl H). lia.
  - specialize (IH Hi L). specialize (H k). lia.
Qed.

(* invariants: duplicate-free keys and duplicate-free domains *)
Definition Good (ds : doms) : Prop := NoDup (dkeys ds) /\ dnodup ds.

Lemma Good_sub ds' ds : dsub ds' ds -> Good ds -> Good ds'.
Proof. intros [K [_ N]] [G1 G2]. split; [rewrite K; exact G1 | apply N; exact G2]. Qed.

Lemma sub_len ds' ds : dsub ds' ds -> Good ds -> forall i, (length (dget ds' i) <= length (dget ds i))%nat.
Proof. intros [K [I N]] [G1 G2] i. apply NoDup_incl_length; [apply N; exact G2 | apply I]. Qed.

Lemma sub_size_le ds' ds : dsub ds' ds -> Good ds -> (dsize ds' <= dsize ds)%nat.
Proof.
  intros S G. pose proof (Good_sub _ _ S G) as G'. destruct S as [K S'].
  rewrite (dsize_ksum ds') by apply G'. rewrite (dsize_ksum ds) by apply G. rewrite K.
  apply ksum_le. apply sub_len; [split; assumption | exact G].
Qed.

Lemma sub_size_lt ds' ds : dsub ds' ds -> Good ds -> shrunk ds ds' = true -> (dsize ds' < dsize ds)%nat.
Proof.
  intros S G Sh. pose proof (Good_sub _ _ S G) as G'. pose proof (sub_len _ _ S G) as L. destruct S as [K S'].
  rewrite (dsize_ksum ds') by apply G'. rewrite (dsize_ksum ds) by apply G. rewrite K.
  unfold shrunk in Sh. apply existsb_exists in Sh. destruct Sh as [i [Hi Li]]. apply Nat.ltb_lt in Li.
  apply (ksum_lt ds' ds (dkeys ds) i L Hi Li).
Qed.

Lemma prop_pass_size : forall cs ds ch ds' ch', Good ds -> prop_pass cs ds ch = Some (ds', ch') ->
  (dsize ds' <= dsize ds)%nat /\ (ch' = true -> ch = true \/ (dsize ds' < dsize ds)%nat).
Proof.
  induction cs as [|c tl IH]; intros ds ch ds' ch' G H; simpl in H.
  - inversion H. subst. split; [lia | tauto].
  - destruct (prop_one c ds) as [ds1|] eqn:E; [|discriminate]. destruct (any_empty ds1); [discriminate|].
    pose proof (dsub_prop_one c ds ds1 E) as S1. pose proof (Good_sub _ _ S1 G) as G1.
    destruct (IH ds1 _ ds' ch' G1 H) as [L1 L2]. pose proof (sub_size_le _ _ S1 G) as L0. split; [lia|].
    intros T. destruct (L2 T) as [X|X]; [|right; lia].
    apply orb_true_iff in X. destruct X as [X|X]; [left; exact X | right].
    pose proof (sub_size_lt _ _ S1 G X). lia.
Qed.

Lemma prop_loop_fuel cs : forall fuel ds, Good ds -> (dsize ds < fuel)%nat -> prop_loop cs fuel ds <> PFuel.
Proof.
  induction fuel as [|f IH]; intros ds G L; [lia|]. simpl.
  destruct (prop_pass cs ds false) as [[ds1 [|]]|] eqn:E; try discriminate.
  destruct (prop_pass_size _ _ _ _ _ G E) as [_ L2]. destruct (L2 eq_refl) as [X|X]; [discriminate|].
  apply IH; [|lia]. eapply Good_sub; [eapply dsub_prop_pass; exact E | exact G].
Qed.

Theorem propagate_fuel cs ds : Good ds -> propagate cs ds <> PFuel.
Proof. intros G. apply prop_loop_fuel; [exact G | lia]. Qed.

(* ------------------------------------------------------------------ backtrack *)
Lemma ksum_dset_other ds i d ks : ~ In i ks -> ksum (dset ds i d) ks = ksum ds ks.
Proof.
  induction ks as [|k tl IH]; simpl; intros N; [reflexivity|].
  rewrite dget_dset_other by (intros ->; tauto). rewrite IH by tauto. reflexivity.
Qed.

Lemma ksum_dset ds i d : forall ks, NoDup ks -> In i ks -> In i (dkeys ds) ->
  (ksum (dset ds i d) ks + length (dget ds i) = ksum ds ks + length d)%nat.
Proof.
  induction ks as [|k tl IH]; simpl; intros ND Hi K; [destruct Hi|].
  inversion ND as [|? ? N1 N2]; subst. destruct Hi as [->|Hi].
  - rewrite dget_dset_same by exact K. rewrite ksum_dset_other by exact N1. lia.
  - rewrite dget_dset_other by (intros ->; contradiction). specialize (IH N2 Hi K). lia.
Qed.

Lemma dsize_dset_single ds i x : Good ds -> In i (dkeys ds) -> is_open (dget ds i) = true ->
  (dsize (dset ds i [x]) < dsize ds)%nat.
Proof.
  intros [G1 G2] K O. rewrite (dsize_ksum (dset ds i [x])) by (rewrite dkeys_dset; exact G1).
  rewrite (dsize_ksum ds) by exact G1. rewrite dkeys_dset.
  pose proof (ksum_dset ds i [x] (dkeys ds) G1 K K) as E. unfold is_open in O. apply Nat.ltb_lt in O. simpl in E. lia.
Qed.

Lemma Good_dset_single ds i x : Good ds -> Good (dset ds i [x]).
Proof.
  intros [G1 G2]. split; [rewrite dkeys_dset; exact G1|]. intros j. rewrite dget_dset.
  destruct (Nat.eqb i j); [|apply G2]. destruct (in_dkeys_dec i ds); constructor; [intros [] | constructor].
Qed.

Section BtFuel.
  Variable vo : list Z -> list Z.
  Variable vs : list var.
  Variable cs : list cstr.
  Variable limit : Z.

  Lemma bt_loop_fuel (rec : doms -> list sol -> bt_out) ds v nn :
    Good ds -> In v (dkeys ds) -> is_open (dget ds v) = true ->
    (forall ds' sols, Good ds' -> dkeys ds' = dkeys ds -> (dsize ds' < dsize ds)%nat -> rec ds' sols <> None) ->
    forall vals sols, bt_loop cs limit rec ds v nn vals sols <> None.
  Proof.
    intros G K O REC. induction vals as [|val rest IH]; intros sols; simpl; [discriminate|].
    pose proof (Good_dset_single ds v val G) as G1.
    pose proof (propagate_fuel cs _ G1) as NF.
    destruct (propagate cs (dset ds v [val])) as [| |ds'] eqn:PR; [contradiction | apply IH |].
    pose proof (dsub_propagate _ _ _ PR) as S. pose proof (Good_sub _ _ S G1) as G'.
    assert (L : (dsize ds' < dsize ds)%nat).
    { pose proof (sub_size_le _ _ S G1). pose proof (dsize_dset_single ds v val G K O). lia. }
    assert (K' : dkeys ds' = dkeys ds) by (destruct S as [K' _]; rewrite K'; apply dkeys_dset).
    destruct (rec ds' sols) as [[sols' stop]|] eqn:R; [|exfalso; exact (REC ds' sols G' K' L R)].
    destruct (stop && _); [discriminate | apply IH].
  Qed.

  Lemma bt_fuel : forall fuel ds sols, Good ds -> dkeys ds = map vid vs -> (dsize ds < fuel)%nat ->
    bt vo vs cs limit fuel ds sols <> None.
  Proof.
    induction fuel as [|f IH]; intros ds sols G K L; [lia|]. cbn [bt].
    destruct (open_vars vs ds) as [|o otl] eqn:O; [discriminate|].
    set (v := match filter vnamed (o :: otl) with [] => argmin ds o otl | u :: utl => argmin ds u utl end).
    assert (Hv : In v (open_vars vs ds)).
    { rewrite O. unfold v. destruct (filter vnamed (o :: otl)) as [|u utl] eqn:U; [apply argmin_In|].
      assert (S : incl (u :: utl) (o :: otl)) by (rewrite <- U; intros x Hx; apply filter_In in Hx; tauto).
      apply S. apply argmin_In. }
    apply filter_In in Hv. destruct Hv as [Hv Ov].
    apply bt_loop_fuel; [exact G | rewrite K; apply in_map; exact Hv | exact Ov|].
    intros ds' sols' G' K' L'. apply IH; [exact G' | congruence | lia].
  Qed.
End BtFuel.

(* ------------------------------------------------------------------ the whole solver *)
Lemma Good_init M : wf_dfs M = true -> Good (init_doms (m_vars M)).
Proof.
  intros WF. split; [rewrite dkeys_init; apply (wf_dfs_ids M WF)|].
  intros i. destruct (in_dkeys_dec i (init_doms (m_vars M))) as [Ki|Ki].
  - rewrite dkeys_init in Ki. apply in_map_iff in Ki. destruct Ki as [v [<- Hv]].
    rewrite (dget_init _ v (wf_dfs_ids M WF) Hv). apply NoDup_zseq.
  - rewrite dget_notin by exact Ki. constructor.
Qed.

Theorem solve_dfs_fuel vo M hints limit : wf_dfs M = true -> solve_dfs vo M hints limit <> RFuel.
Proof.
  intros WF. unfold solve_dfs. destruct (existsb sat_required (m_cons M)); [discriminate|].
  destruct (apply_hints_inv hints (init_doms (m_vars M))) as [SH _].
  pose proof (Good_sub _ _ SH (Good_init M WF)) as G.
  pose proof (propagate_fuel (m_cons M) _ G) as NF.
  destruct (propagate (m_cons M) (apply_hints hints (init_doms (m_vars M)))) as [| |ds'] eqn:PR; [contradiction | discriminate |].
  pose proof (dsub_propagate _ _ _ PR) as Sb. pose proof (Good_sub _ _ Sb G) as G'.
  assert (K : dkeys ds' = map vid (m_vars M)).
  { destruct Sb as [K1 _]. destruct SH as [K2 _]. rewrite K1, K2. apply dkeys_init. }
  pose proof (bt_fuel vo (m_vars M) (m_cons M) limit (S (dsize ds')) ds' [] G' K (Nat.lt_succ_diag_r _)) as NB.
  destruct (bt vo (m_vars M) (m_cons M) limit (S (dsize ds')) ds' []) as [[out b]|]; [discriminate | contradiction].
Qed.

(* the model always gives a proper answer *)
Theorem solve_fuel vo M hints limit : wf_dfs M = true -> solve vo M hints limit <> RFuel.
Proof.
  intros WF. unfold solve. destruct (has_empty_dom M); [discriminate|].
  pose proof (solve_dfs_fuel vo M hints limit WF) as N1. pose proof (solve_dfs_fuel vo M [] limit WF) as N2.
  destruct (solve_dfs vo M hints limit) as [| |s1]; [contradiction | discriminate |].
  destruct s1; [destruct hints; [discriminate | exact N2] | discriminate].
Qed.

(* hence: Model.solve(solver='dfs') on a DFS-supported model answers either INFEASIBLE or solutions *)
Corollary solve_total vo M hints limit : wf_dfs M = true -> existsb sat_required (m_cons M) = false ->
  exists sols, solve vo M hints limit = RSols sols.
Proof.
  intros WF SUP. pose proof (solve_fuel vo M hints limit WF) as NF.
  assert (NS : forall h, solve_dfs vo M h limit <> RToSat).
  { intros h. pose proof (solve_dfs_fuel vo M h limit WF) as F. unfold solve_dfs in *. rewrite SUP in *.
    destruct (propagate _ _); try discriminate. destruct (bt _ _ _ _ _ _ _) as [[? ?]|]; discriminate. }
  unfold solve in *. destruct (has_empty_dom M); [eexists; reflexivity|].
  pose proof (NS hints) as N1. pose proof (NS []) as N2.
  destruct (solve_dfs vo M hints limit) as [| |s1]; [contradiction | contradiction |].
  destruct s1 as [|y ys]; [|eexists; reflexivity].
  destruct hints; [eexists; reflexivity|].
  destruct (solve_dfs vo M [] limit) as [| |s2]; [contradiction | contradiction | eexists; reflexivity].
Qed.

(* ------------------------------------------------------------------ the headline statement for the DFS path *)
Theorem dfs_verdict vo M hints limit :
  wf_dfs M = true -> existsb sat_required (m_cons M) = false ->
  (forall d, incl (vo d) d) -> (forall d, incl d (vo d)) ->
  exists sols, solve vo M hints limit = RSols sols
    /\ (forall x, In x sols -> answer_valid M x)
    /\ (sols = [] <-> no_solution M).
Proof.
  intros WF SUP V1 V2. destruct (solve_total vo M hints limit WF SUP) as [sols E]. exists sols.
  split; [exact E|]. split; [apply (dfs_sound vo M hints limit sols WF V1 E)|]. split.
  - intros ->. apply (dfs_infeasible vo M hints limit WF V2 E).
  - intros NS. destruct sols as [|y ys]; [reflexivity|]. exfalso.
    destruct (dfs_sound vo M hints limit _ WF V1 E y (or_introl eq_refl)) as [a [A _]]. exact (NS a A).
Qed.
