(* C05 - (3) C05_dfs_sound: every solution the DFS model returns - any value order, any solution_limit,
   any hints - gives every variable a value of its declared domain and satisfies every constraint. *)
From Coq Require Import List ZArith Bool Lia Arith.
From SV Require Import C06.CpAst C06.CpAstProofs C05.CpDfs C05.CpSpec C05.CpLemmas C05.PropSound C05.PropMono C05.LeafProofs.
Import ListNotations.
Open Scope Z_scope.

(* what the harness' translation guarantees: distinct ids (= distinct names) and every variable of a
   constraint is a variable of the model.  No condition on the domains (empty ones are handled by solve). *)
Definition wf_dfs (M : cpmodel) : bool :=
  nat_nodupb (map vid (m_vars M))
  && forallb (fun c => forallb (fun v => var_mem v (m_vars M)) (cons_vars c)) (m_cons M).

Lemma nat_nodupb_NoDup l : nat_nodupb l = true -> NoDup l.
Proof.
  induction l as [|x tl IH]; simpl; intros H; [constructor|].
  apply andb_true_iff in H. destruct H as [H1 H2]. constructor; [|apply IH; exact H2].
  intros Hin. apply negb_true_iff in H1.
  assert (X : existsb (Nat.eqb x) tl = true) by (apply existsb_exists; exists x; split; [exact Hin | apply Nat.eqb_refl]).
  congruence.
Qed.

Lemma dkeys_init vs : dkeys (init_doms vs) = map vid vs.
Proof. unfold dkeys, init_doms. rewrite map_map. reflexivity. Qed.

Lemma dget_init vs v : NoDup (map vid vs) -> In v vs -> dget (init_doms vs) (vid v) = vdom v.
Proof.
  induction vs as [|w tl IH]; simpl; intros ND H; [destruct H|].
  inversion ND as [|? ? N1 N2]; subst. destruct H as [->|H].
  - rewrite Nat.eqb_refl. reflexivity.
  - destruct (Nat.eqb (vid w) (vid v)) eqn:E.
    + apply Nat.eqb_eq in E. exfalso. apply N1. rewrite E. apply in_map. exact H.
    + apply IH; assumption.
Qed.

Lemma var_eqb_vid a b : var_eqb a b = true -> vid a = vid b.
Proof.
  unfold var_eqb. intros H. repeat (apply andb_true_iff in H; destruct H as [H ?]). apply Nat.eqb_eq. exact H.
Qed.

Lemma wf_dfs_ids M : wf_dfs M = true -> NoDup (map vid (m_vars M)).
Proof. unfold wf_dfs. intros H. apply andb_true_iff in H. apply nat_nodupb_NoDup. tauto. Qed.

Lemma wf_dfs_cvars M ds : wf_dfs M = true -> dkeys ds = map vid (m_vars M) ->
  forall c, In c (m_cons M) -> cvars_in c ds.
Proof.
  unfold wf_dfs. intros H K c Hc v Hv. apply andb_true_iff in H. destruct H as [_ H].
  rewrite forallb_forall in H. specialize (H c Hc). rewrite forallb_forall in H. specialize (H v Hv).
  unfold var_mem in H. apply existsb_exists in H. destruct H as [w [Hw E]].
  rewrite K, (var_eqb_vid _ _ E). apply in_map. exact Hw.
Qed.

Lemma supported_all cs : existsb sat_required cs = false -> forall c, In c cs -> dfs_supported c = true.
Proof.
  intros H c Hc. unfold dfs_supported. destruct (sat_required c) eqn:E; [|reflexivity].
  assert (X : existsb sat_required cs = true) by (apply existsb_exists; exists c; tauto). congruence.
Qed.

(* ------------------------------------------------------------------ non-emptiness through propagation *)
Lemma prop_pass_no_empty : forall cs ds ch ds' ch', prop_pass cs ds ch = Some (ds', ch') -> no_empty ds -> no_empty ds'.
Proof.
  induction cs as [|c tl IH]; intros ds ch ds' ch' H NE; simpl in H.
  - inversion H. subst. exact NE.
  - destruct (prop_one c ds) as [ds1|]; [|discriminate]. destruct (any_empty ds1) eqn:AE; [discriminate|].
    eapply IH; [exact H | apply no_empty_any; exact AE].
Qed.

Lemma prop_loop_no_empty cs : forall fuel ds ds', prop_loop cs fuel ds = POk ds' -> no_empty ds -> no_empty ds'.
Proof.
  induction fuel as [|f IH]; intros ds ds' H NE; simpl in H; [discriminate|].
  destruct (prop_pass cs ds false) as [[ds1 [|]]|] eqn:E; try discriminate.
  - eapply IH; [exact H | eapply prop_pass_no_empty; eauto].
  - inversion H. subst. eapply prop_pass_no_empty; eauto.
Qed.

Lemma no_empty_dset ds i d : no_empty ds -> d <> [] -> no_empty (dset ds i d).
Proof.
  intros NE Hd j Hj. rewrite dkeys_dset in Hj. rewrite dget_dset. destruct (Nat.eqb i j) eqn:E.
  - destruct (in_dkeys_dec i ds); [exact Hd|]. apply Nat.eqb_eq in E. subst. contradiction.
  - apply NE. exact Hj.
Qed.

Lemma dsub_dset_single ds i x : In x (dget ds i) -> dsub (dset ds i [x]) ds.
Proof.
  intros H. apply dsub_dset; [intros y [<-|[]]; exact H | intros _; constructor; [intros [] | constructor]].
Qed.

(* ------------------------------------------------------------------ hints *)
Lemma apply_hints_inv hints : forall ds, dsub (apply_hints hints ds) ds /\ (no_empty ds -> no_empty (apply_hints hints ds)).
Proof.
  unfold apply_hints. induction hints as [|[i x] tl IH]; intros ds; simpl.
  - split; [apply dsub_refl | tauto].
  - destruct (zmem x (dget ds i)) eqn:E.
    + destruct (IH (dset ds i [x])) as [S N]. apply zmem_In in E. split.
      * eapply dsub_trans; [exact S | apply dsub_dset_single; exact E].
      * intros NE. apply N. apply no_empty_dset; [exact NE | discriminate].
    + apply IH.
Qed.

(* ------------------------------------------------------------------ the search *)
Section Sound.
  Variable M : cpmodel.
  Variable vo : list Z -> list Z.
  Variable limit : Z.
  Hypothesis WF : wf_dfs M = true.
  Hypothesis SUP : existsb sat_required (m_cons M) = false.
  Hypothesis VO : forall d, incl (vo d) d.

  Let vs := m_vars M.
  Let cs := m_cons M.

  (* D = the domains the search starts from (declared domains cut by the applicable hints) *)
  Variable D : doms.
  Hypothesis HD : dsub D (init_doms vs).

  Definition Pre (ds : doms) : Prop :=
    dsub ds D /\ no_empty ds /\ exists ds0, propagate cs ds0 = POk ds.
  (* a returned solution is the projection of a CP solution that lies inside D *)
  Definition good (l : list sol) : Prop :=
    forall x, In x l -> exists a, cp_solution M a /\ project M a = x /\ in_ds a D.

  Lemma Pre_sub ds : Pre ds -> dsub ds (init_doms vs).
  Proof. intros [S _]. eapply dsub_trans; [exact S | exact HD]. Qed.

  Lemma Pre_keys ds : Pre ds -> dkeys ds = map vid vs.
  Proof. intros P. destruct (Pre_sub ds P) as [K _]. rewrite K. apply dkeys_init. Qed.

  Lemma leaf_matches ds : Pre ds -> open_vars vs ds = [] -> matches (asg_of_doms ds) ds.
  Proof.
    intros P O i Hi. pose proof (Pre_keys ds P) as K. destruct P as [_ [NE _]].
    pose proof (NE i Hi) as N. rewrite K in Hi. apply in_map_iff in Hi. destruct Hi as [v [<- Hv]].
    assert (Op : is_open (dget ds (vid v)) = false).
    { destruct (is_open (dget ds (vid v))) eqn:E; [|reflexivity].
      assert (X : In v (open_vars vs ds)) by (apply filter_In; tauto). rewrite O in X. destruct X. }
    unfold asg_of_doms, first. unfold is_open in Op.
    destruct (dget ds (vid v)) as [|x [|y tl]]; [contradiction | reflexivity | discriminate].
  Qed.

  Lemma Pre_cvars ds0 ds : dsub ds (init_doms vs) -> propagate cs ds0 = POk ds ->
    forall c, In c cs -> cvars_in c ds0 /\ dfs_supported c = true.
  Proof.
    intros [K _] PR c Hc. split; [|apply (supported_all cs SUP c Hc)].
    apply (wf_dfs_cvars M ds0 WF); [|exact Hc].
    destruct (dsub_propagate cs ds0 ds PR) as [K0 _]. rewrite <- K0, K. apply dkeys_init.
  Qed.

  Lemma leaf_valid ds : Pre ds -> open_vars vs ds = [] ->
    exists a, cp_solution M a /\ project M a = leaf_sol vs ds /\ in_ds a D.
  Proof.
    intros P O. pose proof (leaf_matches ds P O) as Mt. pose proof (Pre_keys ds P) as K.
    pose proof (Pre_sub ds P) as S0.
    exists (asg_of_doms ds). destruct P as [S [NE [ds0 PR]]]. split; [split|split; [reflexivity|]].
    - intros v Hv. apply In_zrange. fold (vdom v).
      rewrite <- (dget_init vs v (wf_dfs_ids M WF) Hv). destruct S0 as [_ [I _]]. apply I.
      assert (Kv : In (vid v) (dkeys ds)) by (rewrite K; apply in_map; exact Hv).
      rewrite (Mt _ Kv). left. reflexivity.
    - intros c Hc. apply (leaf_checked (asg_of_doms ds) cs ds0 ds PR Mt); [|exact Hc].
      apply (Pre_cvars ds0 ds S0 PR).
    - intros i Hi. destruct S as [KD [I _]]. apply I. rewrite <- KD in Hi. rewrite (Mt _ Hi). left. reflexivity.
  Qed.

  Lemma Pre_child ds v val ds' : Pre ds -> In val (dget ds v) -> propagate cs (dset ds v [val]) = POk ds' -> Pre ds'.
  Proof.
    intros [S [NE _]] Hval PR. split; [|split].
    - eapply dsub_trans; [apply (dsub_propagate _ _ _ PR)|]. eapply dsub_trans; [apply dsub_dset_single; exact Hval | exact S].
    - apply (prop_loop_no_empty cs _ _ _ PR). apply no_empty_dset; [exact NE | discriminate].
    - eexists. exact PR.
  Qed.

  Lemma bt_loop_sound (rec : doms -> list sol -> bt_out) ds v nn :
    (forall ds' sols out b, Pre ds' -> good sols -> rec ds' sols = Some (out, b) -> good out) ->
    Pre ds ->
    forall vals sols out b, incl vals (dget ds v) -> good sols ->
      bt_loop cs limit rec ds v nn vals sols = Some (out, b) -> good out.
  Proof.
    intros REC P. induction vals as [|val rest IH]; intros sols out b I G H; simpl in H.
    - inversion H. subst. exact G.
    - assert (I' : incl rest (dget ds v)) by (intros x Hx; apply I; right; exact Hx).
      destruct (propagate cs (dset ds v [val])) as [| |ds'] eqn:PR; [discriminate | eapply IH; eauto |].
      assert (P' : Pre ds') by (eapply Pre_child; eauto; apply I; left; reflexivity).
      destruct (rec ds' sols) as [[sols' stop]|] eqn:R; [|discriminate].
      pose proof (REC ds' sols sols' stop P' G R) as G'.
      destruct (stop && (nn || (limit <=? Z.of_nat (length sols')))).
      + inversion H. subst. exact G'.
      + eapply IH; eauto.
  Qed.

  Lemma bt_sound : forall fuel ds sols out b, Pre ds -> good sols ->
    bt vo vs cs limit fuel ds sols = Some (out, b) -> good out.
  Proof.
    induction fuel as [|f IH]; intros ds sols out b P G H; simpl in H; [discriminate|].
    destruct (open_vars vs ds) as [|o otl] eqn:O.
    - inversion H. subst. intros x Hx. apply in_app_or in Hx. destruct Hx as [Hx|[<-|[]]]; [apply G; exact Hx|].
      apply leaf_valid; assumption.
    - eapply bt_loop_sound; [| exact P | apply VO | exact G | exact H].
      intros ds' sols' out' b' P' G' H'. eapply IH; eauto.
  Qed.

End Sound.

Lemma init_no_empty M : wf_dfs M = true -> has_empty_dom M = false -> no_empty (init_doms (m_vars M)).
Proof.
  intros WF HE i Hi. rewrite dkeys_init in Hi. apply in_map_iff in Hi. destruct Hi as [v [<- Hv]].
  rewrite (dget_init _ v (wf_dfs_ids M WF) Hv). intros E.
  assert (L : vlb v <= vub v).
  { unfold has_empty_dom in HE. destruct (vub v <? vlb v) eqn:Q; [|apply Z.ltb_ge in Q; exact Q].
    assert (X : existsb (fun v => vub v <? vlb v) (m_vars M) = true) by (apply existsb_exists; exists v; tauto).
    congruence. }
  assert (X : In (vlb v) (vdom v)) by (apply In_zrange; lia). rewrite E in X. destruct X.
Qed.

(* solutions of one _solve_dfs call: valid, and inside the hint-restricted domains *)
Theorem solve_dfs_sound M vo limit hints sols :
  wf_dfs M = true -> (forall d, incl (vo d) d) -> has_empty_dom M = false ->
  solve_dfs vo M hints limit = RSols sols ->
  forall x, In x sols -> exists a, cp_solution M a /\ project M a = x /\ in_ds a (apply_hints hints (init_doms (m_vars M))).
Proof.
  intros WF VO HE H. unfold solve_dfs in H.
  destruct (existsb sat_required (m_cons M)) eqn:SUP; [discriminate|].
  destruct (apply_hints_inv hints (init_doms (m_vars M))) as [SH NH].
  set (D := apply_hints hints (init_doms (m_vars M))) in *.
  destruct (propagate (m_cons M) D) as [| |ds'] eqn:PR; [discriminate | |].
  - inversion H. intros x [].
  - destruct (bt vo (m_vars M) (m_cons M) limit (S (dsize ds')) ds' []) as [[out b]|] eqn:B; [|discriminate].
    inversion H. subst out.
    apply (bt_sound M vo limit WF SUP VO D SH _ _ _ _ _) with (3 := B); [|intros x []].
    split; [|split].
    + apply (dsub_propagate _ _ _ PR).
    + apply (prop_loop_no_empty _ _ _ _ PR). apply NH. apply init_no_empty; assumption.
    + eexists. exact PR.
Qed.

(* (3) every solution returned by Model.solve(solver='dfs') - one or many, with or without hints,
   whatever the iteration order of the domain sets - is a valid answer *)
Theorem dfs_sound (vo : list Z -> list Z) (M : cpmodel) (hints : list (nat * Z)) (limit : Z) (sols : list sol) :
  wf_dfs M = true -> (forall d, incl (vo d) d) ->
  solve vo M hints limit = RSols sols -> forall x, In x sols -> answer_valid M x.
Proof.
  intros WF VO H. unfold solve in H.
  destruct (has_empty_dom M) eqn:HE; [inversion H; intros x []|].
  assert (G : forall h s, solve_dfs vo M h limit = RSols s -> forall x, In x s -> answer_valid M x).
  { intros h s E x Hx. destruct (solve_dfs_sound M vo limit h s WF VO HE E x Hx) as [a [A1 [A2 _]]]. exists a. tauto. }
  destruct (solve_dfs vo M hints limit) as [| |s1] eqn:E1; try discriminate.
  destruct s1 as [|y ys].
  - destruct hints as [|h ht]; [inversion H; intros x []|]. apply (G [] sols H).
  - inversion H. subst. apply (G hints _ E1).
Qed.
