(* C05 - executable Gallina model of the DFS back-end of solvor/cp.py (after the fix commits 8fe1d28,
   7ef6c48, 1eb001c), over the shared abstract syntax SV.C06.CpAst.  DEFINITIONS ONLY (always compiles).

   One function per Python function:
     Model._propagate_all_different   -> prop_alldiff          Model._propagate_ne_expr -> prop_lin
     Model._propagate_constraint      -> prop_one              Model._propagate         -> propagate (prop_pass)
     backtrack (closure of _solve_dfs)-> bt / bt_loop          Model._solve_dfs         -> solve_dfs
     Model.solve (solver='dfs')       -> solve                 Model._choose_solver     -> choose_solver

   Representation
     domains : dict name -> set[int]   = `doms`, association list keyed by `vid`, in Model._vars order;
                                          a set = duplicate-free list (only ever filtered).
     `len(d) == 1` / `next(iter(d))`   = `length d =? 1` / `hd 0 d` (the code only calls next(iter(.)) on
                                          non-empty sets when every declared domain is non-empty: wf_model).
     `list(domains[var])`              = `vo d` : the VALUE ORDER is an oracle (iteration order of a Python
                                          set of ints); every theorem quantifies over all `vo`.
     solution_limit                    = Z (only compared: len(solutions) >= solution_limit).
     hints : dict name -> int          = list (vid * value) in dict order (unknown names: any vid not in the model).
   Loops: `while changed` and the recursion of backtrack use explicit fuel (total domain size + 1);
   exhaustion is the explicit value PFuel / RFuel, never a normal-looking answer. *)
From Coq Require Import List ZArith Bool Lia.
From SV Require Import C06.CpAst.
Import ListNotations.
Open Scope Z_scope.

Definition doms := list (nat * list Z).

Fixpoint dget (ds : doms) (i : nat) : list Z :=
  match ds with
  | [] => []
  | (j, d) :: tl => if Nat.eqb j i then d else dget tl i
  end.

Fixpoint dset (ds : doms) (i : nat) (d : list Z) : doms :=
  match ds with
  | [] => []
  | (j, e) :: tl => if Nat.eqb j i then (j, d) :: tl else (j, e) :: dset tl i d
  end.

Definition dkeys (ds : doms) : list nat := map fst ds.
Definition dsize (ds : doms) : nat := fold_right (fun p a => (length (snd p) + a)%nat) 0%nat ds.

(* set.discard(x) *)
Definition discard (x : Z) (d : list Z) : list Z := filter (fun y => negb (y =? x)) d.
Definition ddiscard (ds : doms) (i : nat) (x : Z) : doms := dset ds i (discard x (dget ds i)).

Definition is_single (d : list Z) : bool := Nat.eqb (length d) 1.
Definition is_open (d : list Z) : bool := Nat.ltb 1 (length d).
Definition first (d : list Z) : Z := hd 0 d.      (* next(iter(d)) *)

(* ------------------------------------------------------------------ all_different *)
(* for j, other in enumerate(variables): if j != i: domains[other.name].discard(val) *)
Fixpoint discard_others (vs : list var) (i j : nat) (val : Z) (ds : doms) : doms :=
  match vs with
  | [] => ds
  | o :: tl => discard_others tl i (S j) val (if Nat.eqb j i then ds else ddiscard ds (vid o) val)
  end.

(* for i, var in enumerate(variables): if len(domains[var.name]) == 1: ... *)
Fixpoint alldiff_loop (all rest : list var) (i : nat) (ds : doms) : doms :=
  match rest with
  | [] => ds
  | v :: tl =>
      let d := dget ds (vid v) in
      alldiff_loop all tl (S i) (if is_single d then discard_others all i 0 (first d) ds else ds)
  end.

Definition prop_alldiff (vs : list var) (ds : doms) : option doms := Some (alldiff_loop vs vs 0 ds).

(* ------------------------------------------------------------------ linear ==/!= (_propagate_ne_expr) *)
Definition zmin_list (l : list Z) : Z := match l with [] => 0 | x :: tl => fold_left Z.min tl x end.
Definition zmax_list (l : list Z) : Z := match l with [] => 0 | x :: tl => fold_left Z.max tl x end.

Definition coef_t := (nat * Z)%type.   (* (name, coef) *)

(* lo = sum(min(coefs[n] * v for v in domains[n]) for n in others), hi likewise *)
Definition others_lo (ds : doms) (others : list coef_t) : Z :=
  zsum (map (fun nc => zmin_list (map (fun v => snd nc * v) (dget ds (fst nc)))) others).
Definition others_hi (ds : doms) (others : list coef_t) : Z :=
  zsum (map (fun nc => zmax_list (map (fun v => snd nc * v) (dget ds (fst nc)))) others).

(* the new domain of `name` in the == loop *)
Definition eq_filter (ds : doms) (free : list coef_t) (const : Z) (name : nat) (coef : Z) : list Z :=
  let others := filter (fun nc => negb (Nat.eqb (fst nc) name)) free in
  match others with
  | [(o, co)] =>
      let reachable := map (fun v => - const - co * v) (dget ds o) in
      filter (fun v => zmem (coef * v) reachable) (dget ds name)
  | _ =>
      let lo := others_lo ds others in
      let hi := others_hi ds others in
      filter (fun v => (lo <=? - const - coef * v) && (- const - coef * v <=? hi)) (dget ds name)
  end.

(* for name in free: ... ; if not domains[name]: return False *)
Fixpoint eq_loop (free todo : list coef_t) (const : Z) (ds : doms) : option doms :=
  match todo with
  | [] => Some ds
  | (name, coef) :: tl =>
      match eq_filter ds free const name coef with
      | [] => None
      | d' => eq_loop free tl const (dset ds name d')
      end
  end.

Definition prop_lin (l r : expr) (is_ne : bool) (ds : doms) : option doms :=
  let tc := linearize l r in
  let coefs : list coef_t := map (fun t => (vid (fst t), snd t)) (fst tc) in
  let free := filter (fun nc => is_open (dget ds (fst nc))) coefs in
  let fixed := filter (fun nc => negb (is_open (dget ds (fst nc)))) coefs in
  let const := snd tc + zsum (map (fun nc => snd nc * first (dget ds (fst nc))) fixed) in
  match free with
  | [] => if is_ne then (if const =? 0 then None else Some ds) else (if const =? 0 then Some ds else None)
  | (n, c) :: ftl =>
      if is_ne then
        match ftl with
        | [] => if const mod c =? 0 then Some (ddiscard ds n ((- const) / c)) else Some ds
        | _ => Some ds
        end
      else eq_loop free free const ds
  end.

(* ------------------------------------------------------------------ _propagate_constraint *)
(* kinds for which _choose_solver / _solve_dfs hand the whole model to the SAT encoder *)
Definition sat_required (c : cstr) : bool :=
  match c with
  | CSumEq _ _ | CSumLe _ _ | CSumGe _ _ | CCircuit _ | CNoOverlap _ | CCumulative _ _ => true
  | _ => false
  end.
Definition dfs_supported (c : cstr) : bool := negb (sat_required c).

Definition prop_one (c : cstr) (ds : doms) : option doms :=
  match c with
  | CAllDiff vs => prop_alldiff vs ds
  | CEqConst v x => if zmem x (dget ds (vid v)) then Some (dset ds (vid v) [x]) else None
  | CNeConst v x => Some (ddiscard ds (vid v) x)
  | CEqVar v w =>
      let common := filter (fun x => zmem x (dget ds (vid w))) (dget ds (vid v)) in
      match common with
      | [] => None
      | _ => Some (dset (dset ds (vid v) common) (vid w) common)
      end
  | CNeVar v w =>
      let d1 := dget ds (vid v) in
      let ds1 := if is_single d1 then ddiscard ds (vid w) (first d1) else ds in
      let d2 := dget ds1 (vid w) in
      Some (if is_single d2 then ddiscard ds1 (vid v) (first d2) else ds1)
  | CLin l r is_ne => prop_lin l r is_ne ds
  (* never reached: _solve_dfs returns through the SAT encoder before the first propagation when the
     model has one of these (the dispatcher itself raises ValueError on them); solve_dfs answers RToSat *)
  | CSumEq _ _ | CSumLe _ _ | CSumGe _ _ | CCircuit _ | CNoOverlap _ | CCumulative _ _ => Some ds
  end.

(* ------------------------------------------------------------------ _propagate *)
Definition is_nil (d : list Z) : bool := match d with [] => true | _ => false end.
(* for n, d in domains.items(): if not d: return False *)
Definition any_empty (ds : doms) : bool := existsb (fun i => is_nil (dget ds i)) (dkeys ds).
(* some len(d) < old_sizes[n] *)
Definition shrunk (old new : doms) : bool :=
  existsb (fun i => Nat.ltb (length (dget new i)) (length (dget old i))) (dkeys old).

(* one sweep `for constraint in self._constraints`; None = return False *)
Fixpoint prop_pass (cs : list cstr) (ds : doms) (changed : bool) : option (doms * bool) :=
  match cs with
  | [] => Some (ds, changed)
  | c :: tl =>
      match prop_one c ds with
      | None => None
      | Some ds' => if any_empty ds' then None else prop_pass tl ds' (changed || shrunk ds ds')
      end
  end.

Inductive pres := PFuel | PFail | POk (ds : doms).

Fixpoint prop_loop (cs : list cstr) (fuel : nat) (ds : doms) : pres :=
  match fuel with
  | O => PFuel
  | S f =>
      match prop_pass cs ds false with
      | None => PFail
      | Some (ds', true) => prop_loop cs f ds'
      | Some (ds', false) => POk ds'
      end
  end.

Definition propagate (cs : list cstr) (ds : doms) : pres := prop_loop cs (S (dsize ds)) ds.

(* ------------------------------------------------------------------ backtrack *)
Definition sol := list (nat * Z).   (* {name: value} over the named variables, creation order *)

Definition asg_of_doms (ds : doms) : asgn := fun i => first (dget ds i).
Definition leaf_sol (vs : list var) (ds : doms) : sol :=
  map (fun v => (vid v, first (dget ds (vid v)))) (filter vnamed vs).

(* min(candidates, key=len): the FIRST variable of minimal domain size *)
Fixpoint argmin (ds : doms) (best : var) (rest : list var) : var :=
  match rest with
  | [] => best
  | v :: tl => if Nat.ltb (length (dget ds (vid v))) (length (dget ds (vid best)))
               then argmin ds v tl else argmin ds best tl
  end.

Definition bt_out := option (list sol * bool).   (* None = fuel; (solutions so far, "search can stop") *)

Section Search.
  Variable vo : list Z -> list Z.   (* list(domains[var_name]) *)
  Variable vs : list var.
  Variable cs : list cstr.
  Variable limit : Z.

  (* for val in var_domain: ...  (rec = backtrack) *)
  Fixpoint bt_loop (rec : doms -> list sol -> bt_out) (ds : doms) (v : nat) (no_named : bool)
                   (vals : list Z) (sols : list sol) : bt_out :=
    match vals with
    | [] => Some (sols, false)
    | val :: rest =>
        match propagate cs (dset ds v [val]) with
        | PFuel => None
        | PFail => bt_loop rec ds v no_named rest sols
        | POk ds' =>
            match rec ds' sols with
            | None => None
            | Some (sols', stop) =>
                if stop && (no_named || (limit <=? Z.of_nat (length sols')))
                then Some (sols', true)
                else bt_loop rec ds v no_named rest sols'
            end
        end
    end.

  Definition open_vars (ds : doms) : list var := filter (fun v => is_open (dget ds (vid v))) vs.

  Fixpoint bt (fuel : nat) (ds : doms) (sols : list sol) : bt_out :=
    match fuel with
    | O => None
    | S f =>
        match open_vars ds with
        | [] => Some (sols ++ [leaf_sol vs ds], true)
        | o :: otl =>
            let unassigned := filter vnamed (o :: otl) in
            let v := match unassigned with
                     | [] => argmin ds o otl
                     | u :: utl => argmin ds u utl
                     end in
            bt_loop (bt f) ds (vid v) (match unassigned with [] => true | _ => false end)
                    (vo (dget ds (vid v))) sols
        end
    end.
End Search.

(* ------------------------------------------------------------------ _solve_dfs / solve *)
Definition init_doms (vs : list var) : doms := map (fun v => (vid v, vdom v)) vs.

(* if name in domains and val in domains[name]: domains[name] = {val} *)
Definition apply_hints (hints : list (nat * Z)) (ds : doms) : doms :=
  fold_left (fun ds h => if zmem (snd h) (dget ds (fst h)) then dset ds (fst h) [snd h] else ds) hints ds.

Inductive dfs_result :=
| RFuel                       (* model ran out of fuel (proved impossible) *)
| RToSat                      (* the model has a sat_required constraint: handed to the SAT encoder *)
| RSols (sols : list sol).    (* [] = INFEASIBLE; otherwise Result.solution(s) *)

Definition choose_solver (M : cpmodel) : bool (* true = 'sat' *) := existsb sat_required (m_cons M).

Definition solve_dfs (vo : list Z -> list Z) (M : cpmodel) (hints : list (nat * Z)) (limit : Z) : dfs_result :=
  if existsb sat_required (m_cons M) then RToSat else
  let ds := apply_hints hints (init_doms (m_vars M)) in
  match propagate (m_cons M) ds with
  | PFuel => RFuel
  | PFail => RSols []
  | POk ds' =>
      match bt vo (m_vars M) (m_cons M) limit (S (dsize ds')) ds' [] with
      | None => RFuel
      | Some (sols, _) => RSols sols
      end
  end.

(* Model.solve(solver='dfs'), commit 39644fa + 7ef6c48:
     if any(var.lb > var.ub ...): return INFEASIBLE            (before _solve_dfs, whatever the constraints)
     result = _solve_dfs(hints, ...); if hints and result.status == INFEASIBLE: solve again without hints *)
Definition has_empty_dom (M : cpmodel) : bool := existsb (fun v => vub v <? vlb v) (m_vars M).

Definition solve (vo : list Z -> list Z) (M : cpmodel) (hints : list (nat * Z)) (limit : Z) : dfs_result :=
  if has_empty_dom M then RSols [] else
  match solve_dfs vo M hints limit with
  | RSols [] => match hints with [] => RSols [] | _ => solve_dfs vo M [] limit end
  | r => r
  end.

(* ------------------------------------------------------------------ observables for the correspondence *)
Fixpoint sol_eqb (a b : sol) : bool :=
  match a, b with
  | [], [] => true
  | (i, x) :: a', (j, y) :: b' => Nat.eqb i j && (x =? y) && sol_eqb a' b'
  | _, _ => false
  end.
Definition sol_mem (s : sol) (l : list sol) : bool := existsb (sol_eqb s) l.
Definition sols_subset (a b : list sol) : bool := forallb (fun s => sol_mem s b) a.
Fixpoint sols_eqb (a b : list sol) : bool :=
  match a, b with
  | [], [] => true
  | x :: a', y :: b' => sol_eqb x y && sols_eqb a' b'
  | _, _ => false
  end.

Definition vo_id (d : list Z) : list Z := d.      (* increasing order (domains are filtered ranges) *)
Definition vo_rev (d : list Z) : list Z := rev d.

(* implementation observable: the list of returned solutions ([] = INFEASIBLE), or "went through SAT" *)
Definition big_limit : Z := 1000000.

(* exact: the implementation's solution SEQUENCE equals the model's (only claimed when all domains lie in 0..7) *)
Definition corr_exact (M : cpmodel) (hints : list (nat * Z)) (limit : Z) (impl : list sol) : bool :=
  match solve vo_id M hints limit with
  | RSols sols => sols_eqb sols impl
  | _ => false
  end.

(* order-free: same number of solutions; each implementation solution is in the model's full enumeration
   (same hints); when the limit was not reached, the sets are equal *)
Definition corr_set (M : cpmodel) (hints : list (nat * Z)) (limit : Z) (impl : list sol) : bool :=
  match solve vo_id M hints limit, solve vo_id M hints big_limit with
  | RSols sols, RSols full =>
      Nat.eqb (length sols) (length impl)
      && sols_subset impl full
      && (if Z.of_nat (length impl) <? Z.max limit 1 then sols_subset full impl else true)
  | _, _ => false
  end.

Definition in_0_7 (M : cpmodel) : bool := forallb (fun v => (0 <=? vlb v) && (vub v <=? 7)) (m_vars M).
