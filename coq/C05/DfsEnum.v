(* C05 - (4b) when the solution limit is not reached the DFS returns every solution - projected on the named
   variables - exactly once (for every value order that is a duplicate-free listing of the domain).  Hidden
   ("_") variables are searched too, one completion per named assignment. *)
From Coq Require Import List ZArith Bool Lia Arith.
From SV Require Import C06.CpAst C06.CpAstProofs C05.CpDfs C05.CpSpec C05.CpLemmas C05.PropSound C05.PropMono
  C05.LeafProofs C05.DfsSound C05.DfsComplete.
Import ListNotations.
Open Scope Z_scope.

Lemma lookup_map (f : var -> Z) : forall l v, NoDup (map vid l) -> In v l ->
  lookup (map (fun w => (vid w, f w)) l) (vid v) = Some (f v).
Proof.
  induction l as [|w tl IH]; intros v ND H; [destruct H|]. simpl in *.
  inversion ND as [|? ? N1 N2]; subst. destruct H as [->|H].
  - rewrite Nat.eqb_refl. reflexivity.
  - destruct (Nat.eqb (vid w) (vid v)) eqn:E; [|apply IH; assumption].
    apply Nat.eqb_eq in E. exfalso. apply N1. rewrite E. apply in_map. exact H.
Qed.

Lemma NoDup_zseq : forall len start, NoDup (zseq start len).
Proof.
  induction len as [|k IH]; intros start; simpl; constructor; [|apply IH].
  intros H. apply In_zseq in H. lia.
Qed.

Lemma NoDup_app_disjoint {A} (l1 l2 : list A) :
  NoDup l1 -> NoDup l2 -> (forall x, In x l1 -> In x l2 -> False) -> NoDup (l1 ++ l2).
Proof.
  induction l1 as [|a tl IH]; simpl; intros N1 N2 D; [exact N2|].
  inversion N1 as [|? ? H1 H2]; subst. constructor.
  - intros H. apply in_app_or in H. destruct H as [H|H]; [contradiction | apply (D a); [left; reflexivity | exact H]].
  - apply IH; [exact H2 | exact N2 | intros x Hx; apply D; right; exact Hx].
Qed.

Section Enum.
  Variable M : cpmodel.
  Variable vo : list Z -> list Z.
  Variable limit : Z.
  Hypothesis WF : wf_dfs M = true.
  Hypothesis VO1 : forall d, incl (vo d) d.
  Hypothesis VO2 : forall d, incl d (vo d).
  Hypothesis VO3 : forall d, NoDup d -> NoDup (vo d).

  Let vs := m_vars M.
  Let cs := m_cons M.

  Definition Inv (ds : doms) : Prop := dkeys ds = map vid vs /\ no_empty ds /\ dnodup ds.

  (* the answer x gives every variable a value of its current domain *)
  Definition agrees (x : sol) (ds : doms) : Prop :=
    forall v, In v vs -> vnamed v = true -> exists val, lookup x (vid v) = Some val /\ In val (dget ds (vid v)).

  Definition Spec (ds : doms) (sols out : list sol) : Prop :=
    exists e, out = sols ++ e /\ NoDup e /\ (forall x, In x e -> agrees x ds)
              /\ (forall a, sol_in M a ds -> In (project M a) e).

  Lemma agrees_mono x ds' ds : (forall i, incl (dget ds' i) (dget ds i)) -> agrees x ds' -> agrees x ds.
  Proof. intros I A v Hv Nv. destruct (A v Hv Nv) as [val [L H]]. exists val. split; [exact L | apply I; exact H]. Qed.

  Lemma Inv_child ds v val ds' : Inv ds -> propagate cs (dset ds v [val]) = POk ds' -> Inv ds'.
  Proof.
    intros [K [NE ND]] PR. destruct (dsub_propagate _ _ _ PR) as [K' [_ N']]. split; [|split].
    - rewrite K', dkeys_dset. exact K.
    - apply (prop_loop_no_empty _ _ _ _ PR). apply no_empty_dset; [exact NE | discriminate].
    - apply N'. intros i. rewrite dget_dset. destruct (Nat.eqb v i); [|apply ND].
      destruct (in_dkeys_dec v ds); constructor; [intros [] | constructor].
  Qed.

  (* the answer read off domains dsl that lie inside ds and have no empty domain *)
  Lemma leaf_agrees dsl ds : (forall i, incl (dget dsl i) (dget ds i)) -> (forall v, In v vs -> dget dsl (vid v) <> []) ->
    agrees (leaf_sol vs dsl) ds.
  Proof.
    intros I NE v Hv Nv. exists (first (dget dsl (vid v))). split.
    - unfold leaf_sol. apply (lookup_map (fun w => first (dget dsl (vid w)))).
      + apply NoDup_map_filter. apply (wf_dfs_ids M WF).
      + apply filter_In. tauto.
    - apply I. specialize (NE v Hv). unfold first. destruct (dget dsl (vid v)); [contradiction | left; reflexivity].
  Qed.

  Lemma Inv_nonempty ds : Inv ds -> forall v, In v vs -> dget ds (vid v) <> [].
  Proof. intros [K [NE _]] v Hv. apply NE. rewrite K. apply in_map. exact Hv. Qed.

  (* a solution inside ds whose named variables are all fixed in ds projects onto the leaf answer of any dsl inside ds *)
  Lemma leaf_project a dsl ds : sol_in M a ds -> (forall i, incl (dget dsl i) (dget ds i)) ->
    (forall v, In v vs -> dget dsl (vid v) <> []) ->
    (forall v, In v vs -> vnamed v = true -> is_open (dget ds (vid v)) = false) ->
    project M a = leaf_sol vs dsl.
  Proof.
    intros [I [K _]] Sub NE Cl. unfold leaf_sol, project, named_vars. fold vs. apply map_ext_in. intros v Hv.
    apply filter_In in Hv. destruct Hv as [Hv Nv]. f_equal. unfold aval.
    assert (Kv : In (vid v) (dkeys ds)) by (rewrite K; apply in_map; exact Hv).
    pose proof (not_open_in a ds (vid v) I Kv (Cl v Hv Nv)) as F.
    assert (S1 : dget ds (vid v) = [a (vid v)]).
    { specialize (I _ Kv). specialize (Cl v Hv Nv). unfold is_open in Cl. unfold first in F.
      destruct (dget ds (vid v)) as [|y [|z tl]]; [destruct I | simpl in F; subst; reflexivity | discriminate]. }
    specialize (NE v Hv). specialize (Sub (vid v)). rewrite S1 in Sub. unfold first.
    destruct (dget dsl (vid v)) as [|y tl]; [contradiction|]. destruct (Sub y (or_introl eq_refl)) as [<-|[]]. reflexivity.
  Qed.

  Lemma leaf_spec ds sols : Inv ds -> open_vars vs ds = [] -> Spec ds sols (sols ++ [leaf_sol vs ds]).
  Proof.
    intros IV O. exists [leaf_sol vs ds]. split; [reflexivity|]. split; [constructor; [intros [] | constructor]|].
    assert (Closed : forall v, In v vs -> is_open (dget ds (vid v)) = false).
    { intros v Hv. destruct (is_open (dget ds (vid v))) eqn:E; [|reflexivity].
      assert (X : In v (open_vars vs ds)) by (apply filter_In; tauto). rewrite O in X. destruct X. }
    split.
    - intros x [<-|[]]. apply leaf_agrees; [intros i; apply incl_refl | apply Inv_nonempty; exact IV].
    - intros a SI. left. symmetry. apply (leaf_project a ds ds SI); [intros i; apply incl_refl | apply Inv_nonempty; exact IV|].
      intros v Hv _. apply Closed. exact Hv.
  Qed.

  (* the loop over the values of the branching variable (which is a named variable of the model) *)
  Lemma loop_spec (rec : doms -> list sol -> bt_out) ds v :
    In v vs -> vnamed v = true -> Inv ds ->
    (forall ds' sols out b, rec ds' sols = Some (out, b) -> grows sols out b) ->
    (forall ds' sols out b, Inv ds' -> rec ds' sols = Some (out, b) -> Z.of_nat (length out) < limit -> Spec ds' sols out) ->
    forall vals sols out b, NoDup vals -> incl vals (dget ds (vid v)) ->
      bt_loop cs limit rec ds (vid v) false vals sols = Some (out, b) -> Z.of_nat (length out) < limit ->
      exists e, out = sols ++ e /\ NoDup e
        /\ (forall x, In x e -> agrees x ds /\ exists val, In val vals /\ lookup x (vid v) = Some val)
        /\ (forall a, sol_in M a ds -> In (a (vid v)) vals -> In (project M a) e).
  Proof.
    intros Hv Nv IV REC SPEC. induction vals as [|val rest IH]; intros sols out b NDv Iv H Big; simpl in H.
    - inversion H. subst. exists []. split; [symmetry; apply app_nil_r|]. split; [constructor|].
      split; [intros x [] | intros a _ []].
    - inversion NDv as [|? ? Nval NDr]; subst.
      assert (Ir : incl rest (dget ds (vid v))) by (intros y Hy; apply Iv; right; exact Hy).
      assert (Hval : In val (dget ds (vid v))) by (apply Iv; left; reflexivity).
      destruct (propagate cs (dset ds (vid v) [val])) as [| |ds'] eqn:PR; [discriminate | |].
      + (* propagation refutes val: no solution takes it *)
        destruct (IH _ _ _ NDr Ir H Big) as [e [E [ND [A C]]]]. exists e. split; [exact E|]. split; [exact ND|]. split.
        * intros x Hx. destruct (A x Hx) as [A1 [w [Hw L]]]. split; [exact A1|]. exists w. split; [right; exact Hw | exact L].
        * intros a SI [Ha|Ha]; [|apply C; assumption]. exfalso.
          destruct (sol_in_child M WF a ds (vid v) ds SI) as [NF _]. rewrite <- Ha in NF. fold cs in NF. congruence.
      + destruct (rec ds' sols) as [[sols' stop]|] eqn:R; [|discriminate].
        pose proof (Inv_child ds (vid v) val ds' IV PR) as IV'.
        pose proof (REC _ _ _ _ R) as G1.
        assert (Sub : forall i, incl (dget ds' i) (dget ds i)).
        { intros i. destruct (dsub_propagate _ _ _ PR) as [_ [I1 _]]. destruct (dsub_dset_single ds (vid v) val Hval) as [_ [I2 _]].
          eapply incl_tran; [apply I1 | apply I2]. }
        assert (Kv : In (vid v) (dkeys ds)) by (destruct IV as [K _]; rewrite K; apply in_map; exact Hv).
        assert (Only : forall x, agrees x ds' -> lookup x (vid v) = Some val).
        { intros x A. destruct (A v Hv Nv) as [w [L Hw]]. destruct (dsub_propagate _ _ _ PR) as [_ [I1 _]].
          apply I1 in Hw. rewrite dget_dset_same in Hw by exact Kv. destruct Hw as [<-|[]]. exact L. }
        destruct (stop && (limit <=? Z.of_nat (length sols'))) eqn:C.
        * exfalso. inversion H. subst. apply andb_true_iff in C. destruct C as [_ C]. apply Z.leb_le in C. lia.
        * destruct (bt_loop_grows M limit rec ds (vid v) false REC _ _ _ _ H) as [e2' [E2' _]].
          assert (Big1 : Z.of_nat (length sols') < limit) by (rewrite E2', app_length in Big; lia).
          destruct (SPEC _ _ _ _ IV' R Big1) as [e1 [E1 [ND1 [A1 C1]]]].
          destruct (IH _ _ _ NDr Ir H Big) as [e2 [E2 [ND2 [A2 C2]]]].
          exists (e1 ++ e2). split; [rewrite E2, E1; apply app_assoc_reverse|]. split; [|split].
          -- apply NoDup_app_disjoint; [exact ND1 | exact ND2|]. intros x H1 H2.
             pose proof (Only x (A1 x H1)) as L1. destruct (A2 x H2) as [_ [w [Hw L2]]].
             rewrite L1 in L2. inversion L2. subst. contradiction.
          -- intros x Hx. apply in_app_or in Hx. destruct Hx as [Hx|Hx].
             ++ split; [eapply agrees_mono; [exact Sub | apply A1; exact Hx]|]. exists val. split; [left; reflexivity | apply Only, A1, Hx].
             ++ destruct (A2 x Hx) as [B1 [w [Hw L]]]. split; [exact B1|]. exists w. split; [right; exact Hw | exact L].
          -- intros a SI [Ha|Ha]; apply in_or_app.
             ++ left. apply C1. destruct (sol_in_child M WF a ds (vid v) ds' SI) as [_ OK]. apply OK. rewrite <- Ha. exact PR.
             ++ right. apply C2; assumption.
  Qed.

  (* ---- the hidden phase: every named variable is fixed; at most one answer comes out of the subtree *)
  Definition named_closed (ds : doms) : Prop :=
    forall v, In v vs -> vnamed v = true -> is_open (dget ds (vid v)) = false.

  Definition one_or_none (ds : doms) (sols out : list sol) (b : bool) : Prop :=
    (out = sols /\ b = false)
    \/ (exists dsl, out = sols ++ [leaf_sol vs dsl] /\ b = true
                    /\ (forall i, incl (dget dsl i) (dget ds i)) /\ (forall v, In v vs -> dget dsl (vid v) <> [])).

  Lemma child_sub ds v val ds' : In val (dget ds v) -> propagate cs (dset ds v [val]) = POk ds' ->
    forall i, incl (dget ds' i) (dget ds i).
  Proof.
    intros Hval PR i. destruct (dsub_propagate _ _ _ PR) as [_ [I1 _]].
    destruct (dsub_dset_single ds v val Hval) as [_ [I2 _]]. eapply incl_tran; [apply I1 | apply I2].
  Qed.

  Lemma named_closed_child ds ds' : Inv ds' -> (forall i, incl (dget ds' i) (dget ds i)) -> Inv ds ->
    named_closed ds -> named_closed ds'.
  Proof.
    intros [_ [_ ND']] Sub [_ [_ ND]] NC v Hv Nv. specialize (NC v Hv Nv). unfold is_open in *.
    apply Nat.ltb_ge in NC. apply Nat.ltb_ge.
    pose proof (NoDup_incl_length (ND' (vid v)) (Sub (vid v))). lia.
  Qed.

  Lemma hidden_loop (rec : doms -> list sol -> bt_out) ds v :
    Inv ds -> named_closed ds ->
    (forall ds' sols out b, Inv ds' -> named_closed ds' -> rec ds' sols = Some (out, b) -> one_or_none ds' sols out b) ->
    forall vals sols out b, incl vals (dget ds v) ->
      bt_loop cs limit rec ds v true vals sols = Some (out, b) -> one_or_none ds sols out b.
  Proof.
    intros IV NC REC. induction vals as [|val rest IH]; intros sols out b Iv H; simpl in H.
    - inversion H. left. split; reflexivity.
    - assert (Ir : incl rest (dget ds v)) by (intros y Hy; apply Iv; right; exact Hy).
      assert (Hval : In val (dget ds v)) by (apply Iv; left; reflexivity).
      destruct (propagate cs (dset ds v [val])) as [| |ds'] eqn:PR; [discriminate | apply IH; assumption |].
      pose proof (Inv_child ds v val ds' IV PR) as IV'.
      pose proof (child_sub ds v val ds' Hval PR) as Sub.
      pose proof (named_closed_child ds ds' IV' Sub IV NC) as NC'.
      destruct (rec ds' sols) as [[sols' stop]|] eqn:R; [|discriminate].
      destruct (REC _ _ _ _ IV' NC' R) as [[-> ->]|[dsl [-> [-> [S1 N1]]]]].
      + simpl in H. apply IH; assumption.
      + simpl in H. inversion H. right. exists dsl. split; [reflexivity|]. split; [reflexivity|]. split; [|exact N1].
        intros i. eapply incl_tran; [apply S1 | apply Sub].
  Qed.

  Lemma hidden_spec : forall fuel ds sols out b, Inv ds -> named_closed ds ->
    bt vo vs cs limit fuel ds sols = Some (out, b) -> one_or_none ds sols out b.
  Proof.
    induction fuel as [|f IH]; intros ds sols out b IV NC H; [discriminate|]. cbn [bt] in H.
    destruct (open_vars vs ds) as [|o otl] eqn:O.
    - inversion H. right. exists ds. split; [reflexivity|]. split; [reflexivity|].
      split; [intros i; apply incl_refl | apply Inv_nonempty; exact IV].
    - assert (U : filter vnamed (o :: otl) = []).
      { destruct (filter vnamed (o :: otl)) as [|u utl] eqn:U; [reflexivity|]. exfalso.
        assert (X : In u (filter vnamed (o :: otl))) by (rewrite U; left; reflexivity).
        apply filter_In in X. destruct X as [X Nu]. rewrite <- O in X. apply filter_In in X. destruct X as [Hu Ou].
        rewrite (NC u Hu Nu) in Ou. discriminate. }
      rewrite U in H.
      apply (hidden_loop (bt vo vs cs limit f) ds (vid (argmin ds o otl)) IV NC) with (3 := H); [|apply VO1].
      intros. eapply IH; eauto.
  Qed.

  Lemma bt_spec : forall fuel ds sols out b, Inv ds ->
    bt vo vs cs limit fuel ds sols = Some (out, b) -> Z.of_nat (length out) < limit -> Spec ds sols out.
  Proof.
    induction fuel as [|f IH]; intros ds sols out b IV H Big; [discriminate|].
    pose proof H as H0. cbn [bt] in H.
    destruct (open_vars vs ds) as [|o otl] eqn:O.
    - inversion H. subst. apply leaf_spec; assumption.
    - destruct (chosen_open M ds o otl O) as [Hv Nv]. cbv zeta in Hv, Nv.
      destruct (filter vnamed (o :: otl)) as [|u utl] eqn:U.
      + (* no named variable is open: hidden phase *)
        assert (NC : named_closed ds).
        { intros w Hw Nw. destruct (is_open (dget ds (vid w))) eqn:E; [|reflexivity]. exfalso.
          assert (X : In w (filter vnamed (o :: otl))).
          { apply filter_In. split; [|exact Nw]. rewrite <- O. apply filter_In. tauto. }
          rewrite U in X. destruct X. }
        destruct (hidden_spec _ _ _ _ _ IV NC H0) as [[-> ->]|[dsl [-> [-> [S1 N1]]]]].
        * exists []. split; [symmetry; apply app_nil_r|]. split; [constructor|]. split; [intros x []|].
          intros a SI. exfalso. destruct (bt_finds M vo limit WF VO2 a _ _ _ _ _ SI H0) as [e [E NE]].
          apply NE. apply (app_inv_head sols). rewrite <- E. symmetry. apply app_nil_r.
        * exists [leaf_sol vs dsl]. split; [reflexivity|]. split; [constructor; [intros [] | constructor]|]. split.
          -- intros x [<-|[]]. apply leaf_agrees; assumption.
          -- intros a SI. left. symmetry. apply (leaf_project a dsl ds SI S1 N1 NC).
      + set (v := argmin ds u utl) in *.
        assert (Nv' : vnamed v = true) by (apply Nv; discriminate).
        apply filter_In in Hv. destruct Hv as [Hv _].
        destruct IV as [K [NE ND]].
        assert (REC' : forall ds' sols out b, bt vo vs cs limit f ds' sols = Some (out, b) -> grows sols out b).
        { intros. eapply (bt_grows M vo limit); eauto. }
        assert (SPEC' : forall ds' sols out b, Inv ds' -> bt vo vs cs limit f ds' sols = Some (out, b) ->
                          Z.of_nat (length out) < limit -> Spec ds' sols out).
        { intros. eapply IH; eauto. }
        destruct (loop_spec (bt vo vs cs limit f) ds v Hv Nv' (conj K (conj NE ND)) REC' SPEC'
                            (vo (dget ds (vid v))) sols out b (VO3 _ (ND _)) (VO1 _) H Big) as [e [E [NDe [A C]]]].
        exists e. split; [exact E|]. split; [exact NDe|]. split.
        * intros x Hx. apply A. exact Hx.
        * intros a SI. apply C; [exact SI|]. apply VO2. destruct SI as [I _]. apply I. rewrite K. apply in_map. exact Hv.
  Qed.

  Lemma init_inv : has_empty_dom M = false -> Inv (init_doms vs).
  Proof.
    intros HE. split; [apply dkeys_init|]. split; [apply init_no_empty; assumption|].
    intros i. destruct (in_dkeys_dec i (init_doms vs)) as [Ki|Ki].
    - rewrite dkeys_init in Ki. apply in_map_iff in Ki. destruct Ki as [v [<- Hv]].
      rewrite (dget_init vs v (wf_dfs_ids M WF) Hv). apply NoDup_zseq.
    - rewrite dget_notin by exact Ki. constructor.
  Qed.

  Theorem dfs_enumerates_sec sols :
    solve vo M [] limit = RSols sols -> Z.of_nat (length sols) < limit ->
    NoDup sols /\ forall a, cp_solution M a -> In (project M a) sols.
  Proof.
    intros H Big. unfold solve in H.
    destruct (has_empty_dom M) eqn:HE.
    { inversion H. split; [constructor|]. intros a SA. exfalso. exact (empty_dom_no_solution M HE a SA). }
    assert (H' : solve_dfs vo M [] limit = RSols sols).
    { destruct (solve_dfs vo M [] limit) as [| |s1]; try discriminate. destruct s1; exact H. }
    clear H. unfold solve_dfs in H'. destruct (existsb sat_required (m_cons M)); [discriminate|].
    unfold apply_hints in H'. cbn [fold_left] in H'. fold vs cs in H'.
    pose proof (init_inv HE) as IV0.
    destruct (propagate cs (init_doms vs)) as [| |ds'] eqn:PR; [discriminate | |].
    - inversion H'. split; [constructor|]. intros a SA. exfalso.
      pose proof (solution_in_init M WF a SA) as [I [K Hh]].
      assert (H1 : forall c, In c cs -> cvars_in c (init_doms vs) /\ holds a c).
      { intros c Hc. split; [|apply Hh; exact Hc]. apply (wf_dfs_cvars M _ WF); [exact K | exact Hc]. }
      destruct (prop_sound a cs _ I H1) as [NF _]. fold vs in NF. congruence.
    - destruct (bt vo vs cs limit (S (dsize ds')) ds' []) as [[out b]|] eqn:B; [|discriminate].
      inversion H'. subst out.
      assert (IV : Inv ds').
      { destruct IV0 as [K [NE ND]]. destruct (dsub_propagate _ _ _ PR) as [K' [_ N']]. split; [congruence|].
        split; [apply (prop_loop_no_empty _ _ _ _ PR); exact NE | apply N'; exact ND]. }
      destruct (bt_spec _ _ _ _ _ IV B Big) as [e [E [ND [_ C]]]]. simpl in E. subst e.
      split; [exact ND|]. intros a SA. apply C.
      pose proof (solution_in_init M WF a SA) as [I [K Hh]].
      assert (H1 : forall c, In c cs -> cvars_in c (init_doms vs) /\ holds a c).
      { intros c Hc. split; [|apply Hh; exact Hc]. apply (wf_dfs_cvars M _ WF); [exact K | exact Hc]. }
      destruct (prop_sound a cs _ I H1) as [_ OK]. destruct (OK _ PR) as [I2 K2].
      split; [exact I2|]. split; [rewrite K2; exact K | exact Hh].
  Qed.
End Enum.

(* (4b) *)
Theorem dfs_enumerates (vo : list Z -> list Z) (M : cpmodel) (limit : Z) (sols : list sol) :
  wf_dfs M = true -> (forall d, incl (vo d) d) -> (forall d, incl d (vo d)) -> (forall d, NoDup d -> NoDup (vo d)) ->
  solve vo M [] limit = RSols sols -> Z.of_nat (length sols) < limit ->
  NoDup sols /\ forall a, cp_solution M a -> In (project M a) sols.
Proof. intros WF V1 V2 V3. apply (dfs_enumerates_sec M vo limit WF V1 V2 V3). Qed.
