(* C05 - (6) the SAT path as a composition, stated as closed implications:
     IF   the CNF produced for M has exactly the models of M      (C06's theorems, SV.C06.CpEnc.encode)
     AND  the SAT back-end's answer is right about that CNF       (C01's theorems)
     THEN the decoded assignment is a CP solution of M, and INFEASIBLE means that M has no solution.
   After the Section is closed the hypotheses are ordinary premises: nothing is assumed globally. *)
From Coq Require Import List ZArith Bool Lia Arith.
From SV Require Import C06.CpAst C06.CpEnc C05.CpDfs C05.CpSpec.
Import ListNotations.
Open Scope Z_scope.

Section SatPath.
  Variable M : cpmodel.
  (* the observable of solve_sat on the encoder's clause list: Some b = a model was returned, None = INFEASIBLE *)
  Variable sat_answer : option asg.

  (* C06_sound: every model of the CNF decodes to a CP solution *)
  Hypothesis enc_sound : forall b, models b (fst (encode M)) -> cp_solution M (dec_asgn (m_vars M) b).
  (* C06_complete: every CP solution extends to a model of the CNF *)
  Hypothesis enc_complete : forall a, cp_solution M a -> exists b, models b (fst (encode M)).
  (* C01: a returned model satisfies the clause list; INFEASIBLE only if it has no model *)
  Hypothesis sat_sound : forall b, sat_answer = Some b -> models b (fst (encode M)).
  Hypothesis sat_complete : sat_answer = None -> forall b, ~ models b (fst (encode M)).

  Theorem sat_path_sound b : sat_answer = Some b -> answer_valid M (project M (dec_asgn (m_vars M) b)).
  Proof. intros H. exists (dec_asgn (m_vars M) b). split; [apply enc_sound, sat_sound, H | reflexivity]. Qed.

  Theorem sat_path_infeasible : sat_answer = None -> no_solution M.
  Proof. intros H a SA. destruct (enc_complete a SA) as [b Hb]. exact (sat_complete H b Hb). Qed.

  (* SATEncoder.solve answers INFEASIBLE without calling the solver when some clause is empty *)
  Theorem sat_path_empty_clause : has_empty (fst (encode M)) = true -> no_solution M.
  Proof.
    intros H a SA. destruct (enc_complete a SA) as [b Hb].
    unfold has_empty in H. apply existsb_exists in H. destruct H as [c [Hc E]].
    destruct c; [|discriminate]. specialize (Hb [] Hc). discriminate.
  Qed.
End SatPath.

(* the dictionary decode_sat_solution builds is the projection of the decoded assignment
   (whenever every named variable has a true literal; ids distinct) *)
Lemma find_vid vs v : NoDup (map vid vs) -> In v vs -> find (fun w => Nat.eqb (vid w) (vid v)) vs = Some v.
Proof.
  induction vs as [|w tl IH]; simpl; intros ND H; [destruct H|].
  inversion ND as [|? ? N1 N2]; subst. destruct H as [->|H].
  - rewrite Nat.eqb_refl. reflexivity.
  - destruct (Nat.eqb (vid w) (vid v)) eqn:E; [|apply IH; assumption].
    apply Nat.eqb_eq in E. exfalso. apply N1. rewrite E. apply in_map. exact H.
Qed.

Theorem decode_is_projection M b :
  NoDup (map vid (m_vars M)) ->
  map (fun p => (fst p, match snd p with Some x => x | None => 0 end)) (decode M b)
  = project M (dec_asgn (m_vars M) b).
Proof.
  intros ND. unfold decode, project. rewrite map_map. apply map_ext_in. intros v Hv. simpl.
  unfold aval, dec_asgn. unfold named_vars in Hv. apply filter_In in Hv. destruct Hv as [Hv _].
  rewrite (find_vid _ v ND Hv). reflexivity.
Qed.
