(* C05 - the two back-ends agree on satisfiability: the DFS verdict (proved) against the SAT verdict (under the
   C06 / C01 premises of SatPath), a closed implication. *)
From Coq Require Import List ZArith Bool Lia Arith.
From SV Require Import C06.CpAst C06.CpEnc C05.CpDfs C05.CpSpec C05.DfsSound C05.DfsComplete C05.Fuel C05.SatPath.
Import ListNotations.
Open Scope Z_scope.

Theorem backends_agree (vo : list Z -> list Z) (M : cpmodel) (hints : list (nat * Z)) (limit : Z)
        (sat_answer : option asg) (sols : list sol) :
  wf_dfs M = true -> (forall d, incl (vo d) d) -> (forall d, incl d (vo d)) ->
  (* C06: the CNF has exactly the models of M *)
  (forall b, models b (fst (encode M)) -> cp_solution M (dec_asgn (m_vars M) b)) ->
  (forall a, cp_solution M a -> exists b, models b (fst (encode M))) ->
  (* C01: the SAT answer is right about the CNF *)
  (forall b, sat_answer = Some b -> models b (fst (encode M))) ->
  (sat_answer = None -> forall b, ~ models b (fst (encode M))) ->
  solve vo M hints limit = RSols sols ->
  (sols = [] <-> sat_answer = None).
Proof.
  intros WF V1 V2 ES EC SS SC E. split.
  - intros ->. pose proof (dfs_infeasible vo M hints limit WF V2 E) as NS.
    destruct sat_answer as [b|] eqn:SA; [|reflexivity]. exfalso.
    apply (NS (dec_asgn (m_vars M) b)). apply ES, SS. reflexivity.
  - intros SA. pose proof (sat_path_infeasible M sat_answer EC SC SA) as NS.
    destruct sols as [|y ys]; [reflexivity|]. exfalso.
    destruct (dfs_sound vo M hints limit _ WF V1 E y (or_introl eq_refl)) as [a [A _]]. exact (NS a A).
Qed.

(* ------------------------------------------------------------------ the C06 premises discharged
   (SV.C06.EncModel.encode_sound / encode_complete, proved for every constraint kind under wf_model);
   what remains is C01's statement about the SAT answer on this clause list. *)
From SV Require Import C06.EncModel.

Theorem sat_path_with_c06 (M : cpmodel) (sat_answer : option asg) :
  wf_model M = true ->
  (forall b, sat_answer = Some b -> models b (fst (encode M))) ->
  (sat_answer = None -> forall b, ~ models b (fst (encode M))) ->
  (forall b, sat_answer = Some b -> answer_valid M (project M (dec_asgn (m_vars M) b)))
  /\ (sat_answer = None -> no_solution M).
Proof.
  intros WF SS SC.
  assert (ES : forall b, models b (fst (encode M)) -> cp_solution M (dec_asgn (m_vars M) b)).
  { intros b Hb. exact (proj1 (encode_sound M b WF (model_proved_all M) Hb)). }
  assert (EC : forall a, cp_solution M a -> exists b, models b (fst (encode M))).
  { intros a Ha. destruct (encode_complete M a WF (model_proved_all M) Ha) as [b [Hb _]]. exists b. exact Hb. }
  split.
  - intros b H. exact (sat_path_sound M sat_answer ES SS b H).
  - intros H. exact (sat_path_infeasible M sat_answer EC SC H).
Qed.

Theorem backends_agree_with_c06 (vo : list Z -> list Z) (M : cpmodel) (hints : list (nat * Z)) (limit : Z)
        (sat_answer : option asg) (sols : list sol) :
  wf_model M = true -> wf_dfs M = true -> (forall d, incl (vo d) d) -> (forall d, incl d (vo d)) ->
  (forall b, sat_answer = Some b -> models b (fst (encode M))) ->
  (sat_answer = None -> forall b, ~ models b (fst (encode M))) ->
  solve vo M hints limit = RSols sols ->
  (sols = [] <-> sat_answer = None).
Proof.
  intros WF WD V1 V2 SS SC E.
  apply (backends_agree vo M hints limit sat_answer sols WD V1 V2); try assumption.
  - intros b Hb. exact (proj1 (encode_sound M b WF (model_proved_all M) Hb)).
  - intros a Ha. destruct (encode_complete M a WF (model_proved_all M) Ha) as [b [Hb _]]. exists b. exact Hb.
Qed.
