(* C05 - the two back-ends agree on satisfiability: the DFS verdict (proved) against the SAT verdict (under the
   C06 / C01 premises of SatPath), a closed implication. *)
From Coq Require Import List ZArith Bool Lia Arith.
From SV Require Import C06.CpAst C06.CpEnc C05.CpDfs C05.CpSpec C05.DfsSound C05.DfsComplete C05.Fuel C05.SatPath.
Import ListNotations.
Open Scope Z_scope.

Theorem backends_agree (vo : list Z -> list Z) (M : cpmodel) (hints : list (nat * Z)) (limit : Z)
        (sat_answer : option asg) (sols : list sol) :
  wf_dfs M = true -> (forall d, incl (vo d) d) -> (forall d, incl d (vo d)) ->
  (* C06: the CNF has exactly the models of M *)
  (forall b, models b (fst (encode M)) -> cp_solution M (dec_asgn (m_vars M) b)) ->
  (forall a, cp_solution M a -> exists b, models b (fst (encode M))) ->
  (* C01: the SAT answer is right about the CNF *)
  (forall b, sat_answer = Some b -> models b (fst (encode M))) ->
  (sat_answer = None -> forall b, ~ models b (fst (encode M))) ->
  solve vo M hints limit = RSols sols ->
  (sols = [] <-> sat_answer = None).
Proof.
  intros WF V1 V2 ES EC SS SC E. split.
  - intros ->. pose proof (dfs_infeasible vo M hints limit WF V2 E) as NS.
    destruct sat_answer as [b|] eqn:SA; [|reflexivity]. exfalso.
    apply (NS (dec_asgn (m_vars M) b)). apply ES, SS. reflexivity.
  - intros SA. pose proof (sat_path_infeasible M sat_answer EC SC SA) as NS.
    destruct sols as [|y ys]; [reflexivity|]. exfalso.
    destruct (dfs_sound vo M hints limit _ WF V1 E y (or_introl eq_refl)) as [a [A _]]. exact (NS a A).
Qed.
