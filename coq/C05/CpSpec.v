(* C05 - the readable specification of one answer of Model.solve and its boolean checker.
   DEFINITIONS ONLY; soundness of the checker is in CpSpecProofs.v.

   An answer `s` (the dict over the NAMED variables, creation order) is valid for model M when some
   assignment of ALL variables (hidden ones included) lies in the declared domains, satisfies every added
   constraint (`holds` of SV.C06.CpAst) and projects onto `s`. *)
From Coq Require Import List ZArith Bool Lia.
From SV Require Import C06.CpAst C05.CpDfs.
Import ListNotations.
Open Scope Z_scope.

Definition answer_valid (M : cpmodel) (s : sol) : Prop :=
  exists a : asgn, cp_solution M a /\ project M a = s.

(* INFEASIBLE is justified *)
Definition no_solution (M : cpmodel) : Prop := forall a : asgn, ~ cp_solution M a.

Fixpoint lookup (s : sol) (i : nat) : option Z :=
  match s with
  | [] => None
  | (j, x) :: tl => if Nat.eqb j i then Some x else lookup tl i
  end.

(* candidate completions: named variables take the answer's value, hidden ones range over their domain *)
Fixpoint boxf (vs : list var) (s : sol) : list (list Z) :=
  match vs with
  | [] => [[]]
  | v :: tl =>
      flat_map (fun x => map (cons x) (boxf tl s))
               (if vnamed v then match lookup s (vid v) with Some x => [x] | None => [] end else vdom v)
  end.

Definition spec_check (M : cpmodel) (s : sol) : bool :=
  existsb (fun xs => let a := asgn_of (m_vars M) xs in cp_solutionb M a && sol_eqb (project M a) s)
          (boxf (m_vars M) s).

(* brute force over the whole box finds nothing *)
Definition infeasible_check (M : cpmodel) : bool :=
  match cp_solutions M with [] => true | _ => false end.

(* one implementation answer: None = INFEASIBLE, Some sols = the returned solutions *)
Definition answer_check (M : cpmodel) (o : option (list sol)) : bool :=
  match o with
  | None => infeasible_check M
  | Some sols => forallb (spec_check M) sols
  end.
