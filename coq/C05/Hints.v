(* C05 - (5) hints only restrict the search, and - thanks to the retry without hints - the satisfiability
   verdict of Model.solve does not depend on the hints (nor on solution_limit). *)
From Coq Require Import List ZArith Bool Lia Arith.
From SV Require Import C06.CpAst C05.CpDfs C05.CpSpec C05.CpLemmas C05.PropSound C05.PropMono C05.LeafProofs
  C05.DfsSound C05.DfsComplete.
Import ListNotations.
Open Scope Z_scope.

(* a hint whose name is a variable and whose value lies in the (current) domain fixes that variable *)
Lemma apply_hints_other hints i : ~ In i (map fst hints) -> forall ds, dget (apply_hints hints ds) i = dget ds i.
Proof.
  unfold apply_hints. induction hints as [|[j y] tl IH]; intros N ds; simpl; [reflexivity|].
  simpl in N. rewrite IH by tauto. destruct (zmem y (dget ds j)); [|reflexivity].
  apply dget_dset_other. intros ->. tauto.
Qed.

Lemma apply_hints_effect hints : NoDup (map fst hints) -> forall ds i x,
  In (i, x) hints -> In x (dget ds i) -> dget (apply_hints hints ds) i = [x].
Proof.
  induction hints as [|[j y] tl IH]; intros ND ds i x Hin Hx; [destruct Hin|].
  simpl in ND. inversion ND as [|? ? N1 N2]; subst.
  assert (Ki : In i (dkeys ds)).
  { destruct (in_dkeys_dec i ds) as [K|K]; [exact K|]. rewrite dget_notin in Hx by exact K. destruct Hx. }
  destruct Hin as [E|Hin].
  - inversion E. subst j y. unfold apply_hints. simpl. fold (apply_hints tl).
    assert (Z : zmem x (dget ds i) = true) by (apply zmem_In; exact Hx). rewrite Z.
    fold (apply_hints tl (dset ds i [x])). rewrite apply_hints_other by exact N1. apply dget_dset_same. exact Ki.
  - assert (Nij : j <> i). { intros ->. apply N1. apply in_map_iff. exists (i, x). tauto. }
    unfold apply_hints. simpl. fold (apply_hints tl).
    destruct (zmem y (dget ds j)).
    + fold (apply_hints tl (dset ds j [y])). apply IH; [exact N2 | exact Hin|]. rewrite dget_dset_other by exact Nij. exact Hx.
    + fold (apply_hints tl ds). apply IH; assumption.
Qed.

(* hints only restrict: every solution of the hinted _solve_dfs run is a CP solution that takes the hinted
   value on every variable whose hint is applicable (name known, value in the declared domain) *)
Theorem hints_restrict vo M hints limit sols :
  wf_dfs M = true -> (forall d, incl (vo d) d) -> has_empty_dom M = false -> NoDup (map fst hints) ->
  solve_dfs vo M hints limit = RSols sols ->
  forall x, In x sols -> exists a, cp_solution M a /\ project M a = x /\
    forall v val, In v (m_vars M) -> In (vid v, val) hints -> in_dom v val = true -> a (vid v) = val.
Proof.
  intros WF VO HE ND H x Hx.
  destruct (solve_dfs_sound M vo limit hints sols WF VO HE H x Hx) as [a [A1 [A2 A3]]].
  exists a. split; [exact A1|]. split; [exact A2|]. intros v val Hv Hh Hd.
  assert (Hval : In val (dget (init_doms (m_vars M)) (vid v))).
  { rewrite (dget_init _ v (wf_dfs_ids M WF) Hv). apply C06.CpAstProofs.In_zrange.
    unfold in_dom in Hd. apply andb_true_iff in Hd. destruct Hd as [H1 H2]. apply Z.leb_le in H1, H2. lia. }
  pose proof (apply_hints_effect hints ND _ _ _ Hh Hval) as E.
  assert (K : In (vid v) (dkeys (apply_hints hints (init_doms (m_vars M))))).
  { destruct (apply_hints_inv hints (init_doms (m_vars M))) as [[K _] _]. rewrite K, dkeys_init. apply in_map. exact Hv. }
  specialize (A3 _ K). rewrite E in A3. destruct A3 as [A3|[]]. symmetry. exact A3.
Qed.

(* the verdict feasible / INFEASIBLE of Model.solve is the same for any two hint dictionaries and limits *)
Theorem hints_verdict vo M h1 l1 s1 h2 l2 s2 :
  wf_dfs M = true -> (forall d, incl (vo d) d) -> (forall d, incl d (vo d)) ->
  solve vo M h1 l1 = RSols s1 -> solve vo M h2 l2 = RSols s2 -> (s1 = [] <-> s2 = []).
Proof.
  intros WF V1 V2 E1 E2.
  assert (G : forall ha la sa hb lb sb, solve vo M ha la = RSols sa -> solve vo M hb lb = RSols sb -> sa = [] -> sb = []).
  { intros ha la sa hb lb sb Ea Eb ->. pose proof (dfs_infeasible vo M ha la WF V2 Ea) as NS.
    destruct sb as [|y ys]; [reflexivity|]. exfalso.
    destruct (dfs_sound vo M hb lb _ WF V1 Eb y (or_introl eq_refl)) as [a [A _]]. exact (NS a A). }
  split; [apply (G h1 l1 s1 h2 l2 s2) | apply (G h2 l2 s2 h1 l1 s1)]; assumption.
Qed.

(* in particular an INFEASIBLE answer obtained WITH hints is a true INFEASIBLE (the defect fixed by 7ef6c48) *)
Corollary hints_never_cause_infeasible vo M hints limit :
  wf_dfs M = true -> (forall d, incl d (vo d)) -> solve vo M hints limit = RSols [] -> no_solution M.
Proof. intros WF V H. exact (dfs_infeasible vo M hints limit WF V H). Qed.
