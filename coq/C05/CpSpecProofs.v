(* C05 - soundness of the boolean answer checker (it judges the IMPLEMENTATION's outputs inside coqc). *)
From Coq Require Import List ZArith Bool Lia Arith.
From SV Require Import C06.CpAst C06.CpAstProofs C05.CpDfs C05.CpSpec.
Import ListNotations.
Open Scope Z_scope.

Lemma sol_eqb_eq : forall a b : sol, sol_eqb a b = true -> a = b.
Proof.
  induction a as [|[i x] a' IH]; intros [|[j y] b'] H; simpl in H; try discriminate; [reflexivity|].
  apply andb_true_iff in H. destruct H as [H H3]. apply andb_true_iff in H. destruct H as [H1 H2].
  apply Nat.eqb_eq in H1. apply Z.eqb_eq in H2. subst. f_equal. apply IH. exact H3.
Qed.

Theorem spec_check_sound M s : spec_check M s = true -> answer_valid M s.
Proof.
  unfold spec_check. intros H. apply existsb_exists in H. destruct H as [xs [_ H]].
  apply andb_true_iff in H. destruct H as [H1 H2].
  exists (asgn_of (m_vars M) xs). split; [apply cp_solutionb_spec; exact H1 | apply sol_eqb_eq; exact H2].
Qed.

Theorem answer_check_sound M sols : answer_check M (Some sols) = true -> forall s, In s sols -> answer_valid M s.
Proof.
  simpl. intros H s Hs. rewrite forallb_forall in H. apply spec_check_sound. apply H. exact Hs.
Qed.

(* ------------------------------------------------------------------ INFEASIBLE verdicts *)
From SV Require Import C06.CpCheckProofs C06.CpCheckProofs2 C05.DfsSound.

Lemma var_eqb_eq a b : var_eqb a b = true -> a = b.
Proof.
  unfold var_eqb. intros H. repeat (apply andb_true_iff in H; destruct H as [H ?]).
  destruct a, b; simpl in *. apply Nat.eqb_eq in H. apply Z.eqb_eq in H3, H2, H0. apply Bool.eqb_prop in H1.
  subst. reflexivity.
Qed.

Lemma Forall2_map_r {A B} (P : A -> B -> Prop) (f : A -> B) l : (forall x, In x l -> P x (f x)) -> Forall2 P l (map f l).
Proof.
  induction l as [|x tl IH]; simpl; intros H; constructor; [apply H; left; reflexivity | apply IH; intros y Hy; apply H; right; exact Hy].
Qed.

(* brute force over the declared box finds nothing => no solution exists *)
Theorem infeasible_check_sound M : wf_dfs M = true -> infeasible_check M = true -> no_solution M.
Proof.
  intros WF H a [D Hh]. unfold infeasible_check in H.
  set (vs := m_vars M). set (xs := map (aval a) vs).
  assert (Hin : In xs (cp_solutions M)).
  { unfold cp_solutions. apply filter_In. split.
    - apply box_In. apply Forall2_map_r. intros v Hv. apply In_zrange. apply D. exact Hv.
    - apply forallb_forall. intros c Hc. rewrite (holdsb_ext _ a c).
      + apply holdsb_spec. apply Hh. exact Hc.
      + intros v Hv. apply asgn_of_map; [apply (wf_dfs_ids M WF)|].
        unfold wf_dfs in WF. apply andb_true_iff in WF. destruct WF as [_ W].
        rewrite forallb_forall in W. specialize (W c Hc). rewrite forallb_forall in W. specialize (W v Hv).
        unfold var_mem in W. apply existsb_exists in W. destruct W as [w [Hw E]]. apply var_eqb_eq in E. subst. exact Hw. }
  destruct (cp_solutions M); [destruct Hin | discriminate].
Qed.

Theorem answer_check_none_sound M : wf_dfs M = true -> answer_check M None = true -> no_solution M.
Proof. intros WF H. apply infeasible_check_sound; assumption. Qed.
