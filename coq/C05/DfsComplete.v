(* C05 - (4a) INFEASIBLE from the DFS model implies that no solution exists (any value order that lists
   every value of the domain, any solution_limit, any hints - thanks to the retry without hints). *)
From Coq Require Import List ZArith Bool Lia Arith.
From SV Require Import C06.CpAst C06.CpAstProofs C05.CpDfs C05.CpSpec C05.CpLemmas C05.PropSound C05.PropMono
  C05.LeafProofs C05.DfsSound.
Import ListNotations.
Open Scope Z_scope.

(* the solution list only grows, and "stop" is only signalled after something was appended *)
Definition grows (sols out : list sol) (b : bool) : Prop :=
  exists e, out = sols ++ e /\ (b = true -> e <> []).

Lemma grows_trans a b c x y : grows a b x -> grows b c y -> exists e, c = a ++ e /\ ((x = true \/ y = true) -> e <> []).
Proof.
  intros [e1 [-> H1]] [e2 [-> H2]]. exists (e1 ++ e2). split; [apply app_assoc_reverse|].
  intros [H|H] E; apply app_eq_nil in E; destruct E; [apply H1 | apply H2]; assumption.
Qed.

Section Complete.
  Variable M : cpmodel.
  Variable vo : list Z -> list Z.
  Variable limit : Z.
  Hypothesis WF : wf_dfs M = true.
  Hypothesis VO : forall d, incl d (vo d).

  Let vs := m_vars M.
  Let cs := m_cons M.

  Lemma bt_loop_grows (rec : doms -> list sol -> bt_out) ds v nn :
    (forall ds' sols out b, rec ds' sols = Some (out, b) -> grows sols out b) ->
    forall vals sols out b, bt_loop cs limit rec ds v nn vals sols = Some (out, b) -> grows sols out b.
  Proof.
    intros REC. induction vals as [|val rest IH]; intros sols out b H; simpl in H.
    - inversion H. subst. exists []. split; [symmetry; apply app_nil_r | discriminate].
    - destruct (propagate cs (dset ds v [val])) as [| |ds']; [discriminate | apply IH; exact H |].
      destruct (rec ds' sols) as [[sols' stop]|] eqn:R; [|discriminate].
      pose proof (REC _ _ _ _ R) as G1.
      destruct (stop && (nn || (limit <=? Z.of_nat (length sols')))) eqn:C.
      + inversion H. subst. apply andb_true_iff in C. destruct C as [-> _]. exact G1.
      + pose proof (IH _ _ _ H) as G2. destruct (grows_trans _ _ _ _ _ G1 G2) as [e [E N]].
        exists e. split; [exact E|]. intros Hb. apply N. right. exact Hb.
  Qed.

  Lemma bt_grows : forall fuel ds sols out b, bt vo vs cs limit fuel ds sols = Some (out, b) -> grows sols out b.
  Proof.
    induction fuel as [|f IH]; intros ds sols out b H; simpl in H; [discriminate|].
    destruct (open_vars vs ds) as [|o otl].
    - inversion H. subst. exists [leaf_sol vs ds]. split; [reflexivity | discriminate].
    - eapply bt_loop_grows; [|exact H]. intros. eapply IH; eauto.
  Qed.

  (* a solution inside the current domains *)
  Definition sol_in (a : asgn) (ds : doms) : Prop :=
    in_ds a ds /\ dkeys ds = map vid vs /\ forall c, In c cs -> holds a c.

  Lemma sol_in_child a ds v ds' : sol_in a ds -> propagate cs (dset ds v [a v]) <> PFail /\
    (propagate cs (dset ds v [a v]) = POk ds' -> sol_in a ds').
  Proof.
    intros [I [K H]].
    assert (I1 : in_ds a (dset ds v [a v])) by (apply in_ds_dset; [exact I | left; reflexivity]).
    assert (H1 : forall c, In c cs -> cvars_in c (dset ds v [a v]) /\ holds a c).
    { intros c Hc. split; [|apply H; exact Hc]. apply (wf_dfs_cvars M _ WF); [|exact Hc]. rewrite dkeys_dset. exact K. }
    destruct (prop_sound a cs _ I1 H1) as [NF OK]. split; [exact NF|].
    intros PR. destruct (OK _ PR) as [I2 K2]. split; [exact I2|]. split; [|exact H].
    rewrite K2, dkeys_dset. exact K.
  Qed.

  Lemma bt_loop_finds a (rec : doms -> list sol -> bt_out) ds v nn :
    (forall ds' sols out b, rec ds' sols = Some (out, b) -> grows sols out b) ->
    (forall ds' sols out b, sol_in a ds' -> rec ds' sols = Some (out, b) -> exists e, out = sols ++ e /\ e <> []) ->
    sol_in a ds ->
    forall vals sols out b, In (a v) vals ->
      bt_loop cs limit rec ds v nn vals sols = Some (out, b) -> exists e, out = sols ++ e /\ e <> [].
  Proof.
    intros REC FIND SI. induction vals as [|val rest IH]; intros sols out b Hin H; [destruct Hin|]. simpl in H.
    destruct (Z.eq_dec val (a v)) as [->|N].
    - destruct (sol_in_child a ds v) with (ds' := ds) as [NF _]; [exact SI|].
      destruct (propagate cs (dset ds v [a v])) as [| |ds'] eqn:PR; [discriminate | contradiction |].
      destruct (sol_in_child a ds v ds' SI) as [_ SI']. specialize (SI' PR).
      destruct (rec ds' sols) as [[sols' stop]|] eqn:R; [|discriminate].
      destruct (FIND _ _ _ _ SI' R) as [e [E NE]].
      destruct (stop && (nn || (limit <=? Z.of_nat (length sols')))).
      + inversion H. subst. exists e. tauto.
      + destruct (bt_loop_grows rec ds v nn REC _ _ _ _ H) as [e2 [E2 _]]. exists (e ++ e2). subst.
        split; [apply app_assoc_reverse|]. intros X. apply app_eq_nil in X. tauto.
    - destruct Hin as [Hin|Hin]; [contradiction|].
      destruct (propagate cs (dset ds v [val])) as [| |ds'] eqn:PR; [discriminate | eapply IH; eauto |].
      destruct (rec ds' sols) as [[sols' stop]|] eqn:R; [|discriminate].
      destruct (REC _ _ _ _ R) as [e [E NE]].
      destruct (stop && (nn || (limit <=? Z.of_nat (length sols')))) eqn:C.
      + inversion H. subst. apply andb_true_iff in C. destruct C as [-> _]. exists e. split; [reflexivity | apply NE; reflexivity].
      + destruct (IH _ _ _ Hin H) as [e2 [E2 NE2]]. exists (e ++ e2). subst.
        split; [apply app_assoc_reverse|]. intros X. apply app_eq_nil in X. tauto.
  Qed.

  Lemma argmin_In ds : forall rest best, In (argmin ds best rest) (best :: rest).
  Proof.
    induction rest as [|v tl IH]; intros best; simpl; [left; reflexivity|].
    destruct (Nat.ltb _ _).
    - destruct (IH v) as [H|H]; [right; left; exact H | right; right; exact H].
    - destruct (IH best) as [H|H]; [left; exact H | right; right; exact H].
  Qed.

  (* the branching variable is an open variable of the model *)
  Lemma chosen_open ds o otl : open_vars vs ds = o :: otl ->
    let un := filter vnamed (o :: otl) in
    let v := match un with [] => argmin ds o otl | u :: utl => argmin ds u utl end in
    In v (open_vars vs ds) /\ (un <> [] -> vnamed v = true).
  Proof.
    intros O un v. assert (Hv : In v (o :: otl) /\ (un <> [] -> vnamed v = true)).
    { unfold v. destruct un as [|u utl] eqn:U.
      - split; [apply argmin_In | intros X; contradiction].
      - assert (S : incl (u :: utl) (o :: otl)) by (rewrite <- U; intros x Hx; apply filter_In in Hx; tauto).
        pose proof (argmin_In ds utl u) as A. split; [apply S; exact A|]. intros _.
        rewrite <- U in A. apply filter_In in A. tauto. }
    rewrite O. exact Hv.
  Qed.

  Lemma bt_finds a : forall fuel ds sols out b, sol_in a ds ->
    bt vo vs cs limit fuel ds sols = Some (out, b) -> exists e, out = sols ++ e /\ e <> [].
  Proof.
    induction fuel as [|f IH]; intros ds sols out b SI H; simpl in H; [discriminate|].
    destruct (open_vars vs ds) as [|o otl] eqn:O.
    - inversion H. subst. exists [leaf_sol vs ds]. split; [reflexivity | discriminate].
    - destruct (chosen_open ds o otl O) as [Hv _]. cbv zeta in Hv.
      set (v := match filter vnamed (o :: otl) with [] => argmin ds o otl | u :: utl => argmin ds u utl end) in *.
      eapply (bt_loop_finds a (bt vo vs cs limit f) ds (vid v)); [| | exact SI | | exact H].
      + intros. eapply bt_grows; eauto.
      + intros. eapply IH; eauto.
      + apply VO. destruct SI as [I [K _]]. apply I. rewrite K. apply in_map.
        apply filter_In in Hv. tauto.
  Qed.

  Lemma solution_in_init a : cp_solution M a -> sol_in a (init_doms vs).
  Proof.
    intros [D H]. split; [|split; [apply dkeys_init | exact H]].
    intros i Hi. rewrite dkeys_init in Hi. apply in_map_iff in Hi. destruct Hi as [v [<- Hv]].
    rewrite (dget_init vs v (wf_dfs_ids M WF) Hv). apply In_zrange. apply D. exact Hv.
  Qed.

  Theorem solve_dfs_infeasible : solve_dfs vo M [] limit = RSols [] -> no_solution M.
  Proof.
    intros H a SA. pose proof (solution_in_init a SA) as SI. unfold solve_dfs in H.
    destruct (existsb sat_required (m_cons M)); [discriminate|]. unfold apply_hints in H. cbn [fold_left] in H. fold vs cs in H.
    destruct SI as [I [K Hh]].
    assert (H1 : forall c, In c cs -> cvars_in c (init_doms vs) /\ holds a c).
    { intros c Hc. split; [|apply Hh; exact Hc]. apply (wf_dfs_cvars M _ WF); [exact K | exact Hc]. }
    destruct (prop_sound a cs _ I H1) as [NF OK].
    destruct (propagate cs (init_doms vs)) as [| |ds'] eqn:PR; [discriminate | contradiction |].
    destruct (OK _ eq_refl) as [I2 K2].
    destruct (bt vo vs cs limit (S (dsize ds')) ds' []) as [[out b]|] eqn:B; [|discriminate].
    inversion H. subst out.
    destruct (bt_finds a _ _ _ _ _ (conj I2 (conj (eq_trans K2 K) Hh)) B) as [e [E NE]].
    simpl in E. subst e. contradiction.
  Qed.
End Complete.

Lemma empty_dom_no_solution M : has_empty_dom M = true -> no_solution M.
Proof.
  unfold has_empty_dom. intros H a [D _]. apply existsb_exists in H. destruct H as [v [Hv L]].
  apply Z.ltb_lt in L. specialize (D v Hv). lia.
Qed.

(* (4a) *)
Theorem dfs_infeasible (vo : list Z -> list Z) (M : cpmodel) (hints : list (nat * Z)) (limit : Z) :
  wf_dfs M = true -> (forall d, incl d (vo d)) ->
  solve vo M hints limit = RSols [] -> no_solution M.
Proof.
  intros WF VO H. unfold solve in H.
  destruct (has_empty_dom M) eqn:HE; [apply empty_dom_no_solution; exact HE|].
  destruct (solve_dfs vo M hints limit) as [| |s1] eqn:E1; try discriminate.
  destruct s1 as [|y ys]; [|discriminate].
  destruct hints as [|h ht].
  - apply (solve_dfs_infeasible M vo limit WF VO E1).
  - apply (solve_dfs_infeasible M vo limit WF VO H).
Qed.
