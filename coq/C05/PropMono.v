(* C05 - propagators only shrink domains: same keys, every new domain is included in the old one,
   duplicate-freeness is preserved. *)
From Coq Require Import List ZArith Bool Lia Arith.
From SV Require Import C06.CpAst C05.CpDfs C05.CpLemmas C05.PropSound.
Import ListNotations.
Open Scope Z_scope.

Definition dnodup (ds : doms) : Prop := forall i, NoDup (dget ds i).
Definition dsub (ds' ds : doms) : Prop :=
  dkeys ds' = dkeys ds /\ (forall i, incl (dget ds' i) (dget ds i)) /\ (dnodup ds -> dnodup ds').

Lemma incl_single_eq (d : list Z) x : incl d [x] -> NoDup d -> d <> [] -> d = [x].
Proof.
  intros I ND NE. destruct d as [|a [|b tl]]; [contradiction | |].
  - destruct (I a (or_introl eq_refl)) as [<-|[]]. reflexivity.
  - exfalso. destruct (I a (or_introl eq_refl)) as [<-|[]]. destruct (I b (or_intror (or_introl eq_refl))) as [<-|[]].
    inversion ND as [|? ? H1 H2]; subst. apply H1. left. reflexivity.
Qed.

Lemma dsub_refl ds : dsub ds ds.
Proof. split; [reflexivity | split; [intros i; apply incl_refl | tauto]]. Qed.

Lemma dsub_trans a b c : dsub a b -> dsub b c -> dsub a c.
Proof.
  intros [K1 [H1 N1]] [K2 [H2 N2]]. split; [congruence | split; [|tauto]].
  intros i. eapply incl_tran; [apply H1 | apply H2].
Qed.

Lemma dsub_dset ds i d : incl d (dget ds i) -> (dnodup ds -> NoDup d) -> dsub (dset ds i d) ds.
Proof.
  intros H N. split; [apply dkeys_dset|]. split.
  - apply dset_incl. exact H.
  - intros ND j. rewrite dget_dset. destruct (Nat.eqb i j); [|apply ND].
    destruct (in_dkeys_dec i ds); [apply N; exact ND | constructor].
Qed.

Lemma dsub_dset_filter ds i p : dsub (dset ds i (filter p (dget ds i))) ds.
Proof.
  apply dsub_dset; [intros x H; apply filter_In in H; tauto | intros ND; apply NoDup_filter, ND].
Qed.

Lemma dsub_ddiscard ds i x : dsub (ddiscard ds i x) ds.
Proof. apply dsub_dset_filter. Qed.

Lemma dsub_discard_others i x : forall rest j ds, dsub (discard_others rest i j x ds) ds.
Proof.
  induction rest as [|o tl IH]; intros j ds; simpl; [apply dsub_refl|].
  eapply dsub_trans; [apply IH|]. destruct (Nat.eqb j i); [apply dsub_refl | apply dsub_ddiscard].
Qed.

Lemma dsub_alldiff_loop all : forall rest i ds, dsub (alldiff_loop all rest i ds) ds.
Proof.
  induction rest as [|v tl IH]; intros i ds; simpl; [apply dsub_refl|].
  eapply dsub_trans; [apply IH|]. destruct (is_single _); [apply dsub_discard_others | apply dsub_refl].
Qed.

Lemma eq_filter_is_filter ds free const n c : exists p, eq_filter ds free const n c = filter p (dget ds n).
Proof.
  unfold eq_filter. cbv zeta.
  match goal with |- context [match ?X with _ => _ end] => destruct X as [|[o co] [|q tl]] end; eexists; reflexivity.
Qed.

Lemma dsub_eq_loop free const : forall todo ds ds', eq_loop free todo const ds = Some ds' -> dsub ds' ds.
Proof.
  induction todo as [|[n c] tl IH]; intros ds ds' H; simpl in H.
  - inversion H. apply dsub_refl.
  - destruct (eq_filter_is_filter ds free const n c) as [p Ep].
    destruct (eq_filter ds free const n c) as [|y ys] eqn:E; [discriminate|].
    eapply dsub_trans; [apply (IH _ _ H)|]. rewrite Ep. apply dsub_dset_filter.
Qed.

Lemma dsub_prop_lin l r ne ds ds' : prop_lin l r ne ds = Some ds' -> dsub ds' ds.
Proof.
  unfold prop_lin. cbv zeta.
  set (free := filter (fun nc => is_open _) _). set (const := snd _ + _).
  destruct free as [|[n c] ftl] eqn:EF.
  - destruct ne; destruct (const =? 0); intros H; inversion H; apply dsub_refl.
  - destruct ne.
    + destruct ftl; [destruct (const mod c =? 0)|]; intros H; inversion H; try apply dsub_refl. apply dsub_ddiscard.
    + apply dsub_eq_loop.
Qed.

Theorem dsub_prop_one c ds ds' : prop_one c ds = Some ds' -> dsub ds' ds.
Proof.
  destruct c; simpl; try (intros H; inversion H; apply dsub_refl).
  - unfold prop_alldiff. intros H. inversion H. apply dsub_alldiff_loop.
  - destruct (zmem c (dget ds (vid v))) eqn:E; intros H; inversion H. apply dsub_dset.
    + intros y [<-|[]]. apply zmem_In. exact E.
    + intros _. constructor; [intros [] | constructor].
  - intros H. inversion H. apply dsub_ddiscard.
  - destruct (filter _ _) as [|y ys] eqn:E; intros H; inversion H. rewrite <- E. clear H H1.
    set (common := filter (fun x => zmem x (dget ds (vid w))) (dget ds (vid v))).
    assert (Iv : incl common (dget ds (vid v))) by (intros x Hx; apply filter_In in Hx; tauto).
    assert (Iw : incl common (dget ds (vid w))) by (intros x Hx; apply filter_In in Hx; apply zmem_In; tauto).
    assert (Nc : dnodup ds -> NoDup common) by (intros ND; apply NoDup_filter, ND).
    split; [rewrite !dkeys_dset; reflexivity|]. split.
    + intros i. rewrite dget_dset. destruct (Nat.eqb (vid w) i) eqn:E1.
      * apply Nat.eqb_eq in E1. subst i. destruct (in_dkeys_dec _ _); [exact Iw | intros x []].
      * rewrite dget_dset. destruct (Nat.eqb (vid v) i) eqn:E2; [|apply incl_refl].
        apply Nat.eqb_eq in E2. subst i. destruct (in_dkeys_dec _ _); [exact Iv | intros x []].
    + intros ND i. rewrite dget_dset. destruct (Nat.eqb (vid w) i).
      * destruct (in_dkeys_dec _ _); [apply Nc, ND | constructor].
      * rewrite dget_dset. destruct (Nat.eqb (vid v) i); [|apply ND].
        destruct (in_dkeys_dec _ _); [apply Nc, ND | constructor].
  - intros H. inversion H. clear H.
    destruct (is_single (dget ds (vid v))).
    + destruct (is_single _); [eapply dsub_trans; apply dsub_ddiscard | apply dsub_ddiscard].
    + destruct (is_single _); [apply dsub_ddiscard | apply dsub_refl].
  - apply dsub_prop_lin.
Qed.

(* ------------------------------------------------------------------ sweep and fixpoint *)
Lemma dsub_prop_pass : forall cs ds ch ds' ch', prop_pass cs ds ch = Some (ds', ch') -> dsub ds' ds.
Proof.
  induction cs as [|c tl IH]; intros ds ch ds' ch' H; simpl in H.
  - inversion H. apply dsub_refl.
  - destruct (prop_one c ds) as [ds1|] eqn:E; [|discriminate].
    destruct (any_empty ds1); [discriminate|].
    eapply dsub_trans; [eapply IH; exact H | apply (dsub_prop_one c); exact E].
Qed.

Lemma dsub_prop_loop cs : forall fuel ds ds', prop_loop cs fuel ds = POk ds' -> dsub ds' ds.
Proof.
  induction fuel as [|f IH]; intros ds ds' H; simpl in H; [discriminate|].
  destruct (prop_pass cs ds false) as [[ds1 [|]]|] eqn:E; try discriminate.
  - eapply dsub_trans; [apply IH; exact H | eapply dsub_prop_pass; exact E].
  - inversion H. subst. eapply dsub_prop_pass; exact E.
Qed.

Theorem dsub_propagate cs ds ds' : propagate cs ds = POk ds' -> dsub ds' ds.
Proof. apply dsub_prop_loop. Qed.
