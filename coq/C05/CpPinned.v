(* C05 - model of the PINNED DFS dispatcher (solvor/cp.py before commit 8fe1d28): `_flatten_sum` only walks
   "add" nodes, `_propagate_ne_expr` only handles `var + c ==/!= var + c`, every other shape falls through
   as satisfied, and a solution is recorded as soon as all NAMED variables are fixed.  DEFINITIONS + the
   refutation witness (x - y == 2 over 0..3 answers x = 0, y = 0). *)
From Coq Require Import List ZArith Bool Lia Arith.
From SV Require Import C06.CpAst C05.CpDfs C05.CpSpec.
Import ListNotations.
Open Scope Z_scope.

(* Model._flatten_sum: IntVar -> term, int -> constant, ("add", a, b) -> both; anything else is IGNORED *)
Fixpoint flatten (e : expr) : list var * Z :=
  match e with
  | EVar v => ([v], 0)
  | EConst c => ([], c)
  | EAdd a b => (fst (flatten a) ++ fst (flatten b), snd (flatten a) + snd (flatten b))
  | _ => ([], 0)
  end.

Definition prop_lin_pinned (l r : expr) (is_ne : bool) (ds : doms) : option doms :=
  match fst (flatten l), fst (flatten r) with
  | [v1], [v2] =>
      let offset := snd (flatten r) - snd (flatten l) in
      if is_ne then
        let d1 := dget ds (vid v1) in
        let ds1 := if is_single d1 then ddiscard ds (vid v2) (first d1 - offset) else ds in
        let d2 := dget ds1 (vid v2) in
        Some (if is_single d2 then ddiscard ds1 (vid v1) (first d2 + offset) else ds1)
      else
        let valid1 := filter (fun v => zmem (v - offset) (dget ds (vid v2))) (dget ds (vid v1)) in
        let valid2 := filter (fun v => zmem (v + offset) (dget ds (vid v1))) (dget ds (vid v2)) in
        if is_nil valid1 || is_nil valid2 then None
        else Some (dset (dset ds (vid v1) valid1) (vid v2) valid2)
  | _, _ => Some ds      (* silently treated as satisfied *)
  end.

(* pinned all_different: `if other is not var` (identity instead of position) *)
Fixpoint alldiff_pinned (all rest : list var) (ds : doms) : doms :=
  match rest with
  | [] => ds
  | v :: tl =>
      let d := dget ds (vid v) in
      alldiff_pinned all tl
        (if is_single d
         then fold_left (fun acc o => if Nat.eqb (vid o) (vid v) then acc else ddiscard acc (vid o) (first d)) all ds
         else ds)
  end.

Definition prop_one_pinned (c : cstr) (ds : doms) : option doms :=
  match c with
  | CAllDiff vs => Some (alldiff_pinned vs vs ds)
  | CLin l r is_ne => prop_lin_pinned l r is_ne ds
  | CEqConst _ _ | CNeConst _ _ | CEqVar _ _ | CNeVar _ _ => prop_one c ds
  | _ => Some ds
  end.

Fixpoint prop_pass_pinned (cs : list cstr) (ds : doms) (changed : bool) : option (doms * bool) :=
  match cs with
  | [] => Some (ds, changed)
  | c :: tl =>
      match prop_one_pinned c ds with
      | None => None
      | Some ds' => if any_empty ds' then None else prop_pass_pinned tl ds' (changed || shrunk ds ds')
      end
  end.

Fixpoint prop_loop_pinned (cs : list cstr) (fuel : nat) (ds : doms) : pres :=
  match fuel with
  | O => PFuel
  | S f =>
      match prop_pass_pinned cs ds false with
      | None => PFail
      | Some (ds', true) => prop_loop_pinned cs f ds'
      | Some (ds', false) => POk ds'
      end
  end.
Definition propagate_pinned (cs : list cstr) (ds : doms) : pres := prop_loop_pinned cs (S (dsize ds)) ds.

Section SearchPinned.
  Variable vo : list Z -> list Z.
  Variable vs : list var.
  Variable cs : list cstr.
  Variable limit : Z.

  (* if self._propagate(new_domains): if backtrack(new_domains): return True *)
  Fixpoint loop_pinned (rec : doms -> list sol -> bt_out) (ds : doms) (v : nat) (vals : list Z) (sols : list sol) : bt_out :=
    match vals with
    | [] => Some (sols, false)
    | val :: rest =>
        match propagate_pinned cs (dset ds v [val]) with
        | PFuel => None
        | PFail => loop_pinned rec ds v rest sols
        | POk ds' =>
            match rec ds' sols with
            | None => None
            | Some (sols', true) => Some (sols', true)
            | Some (sols', false) => loop_pinned rec ds v rest sols'
            end
        end
    end.

  Fixpoint bt_pinned (fuel : nat) (ds : doms) (sols : list sol) : bt_out :=
    match fuel with
    | O => None
    | S f =>
        (* unassigned = [n for n in domains if len(domains[n]) > 1 and not n.startswith("_")] *)
        match filter (fun v => is_open (dget ds (vid v)) && vnamed v) vs with
        | [] => let sols' := sols ++ [leaf_sol vs ds] in Some (sols', limit <=? Z.of_nat (length sols'))
        | u :: utl => let v := argmin ds u utl in
                      loop_pinned (bt_pinned f) ds (vid v) (vo (dget ds (vid v))) sols
        end
    end.
End SearchPinned.

Definition solve_pinned (vo : list Z -> list Z) (M : cpmodel) (hints : list (nat * Z)) (limit : Z) : dfs_result :=
  if existsb sat_required (m_cons M) then RToSat else
  let ds := apply_hints hints (init_doms (m_vars M)) in
  match propagate_pinned (m_cons M) ds with
  | PFuel => RFuel
  | PFail => RSols []
  | POk ds' =>
      match bt_pinned vo (m_vars M) (m_cons M) limit (S (dsize ds')) ds' [] with
      | None => RFuel
      | Some (sols, _) => RSols sols
      end
  end.

(* ------------------------------------------------------------------ the witness of the property text *)
Definition wx : var := mkVar 0 0 3 true 1.
Definition wy : var := mkVar 1 0 3 true 5.
(* x - y == 2 : the operators build ("ne_expr", ("sub", x, y), 2, False) *)
Definition x_minus_y_eq_2 : cpmodel := mkModel [wx; wy] [CLin (ESub (EVar wx) (EVar wy)) (EConst 2) false] 9.

Lemma pinned_answer : solve_pinned vo_id x_minus_y_eq_2 [] 1 = RSols [[(0%nat, 0); (1%nat, 0)]].
Proof. vm_compute. reflexivity. Qed.

Lemma pinned_answer_invalid : ~ answer_valid x_minus_y_eq_2 [(0%nat, 0); (1%nat, 0)].
Proof.
  intros [a [[_ H] P]]. unfold project in P. simpl in P. inversion P as [[P0 P1]].
  specialize (H _ (or_introl eq_refl)). simpl in H. unfold aval in *. simpl in *. lia.
Qed.

(* the repaired dispatcher on the same model *)
Lemma fixed_answer : solve vo_id x_minus_y_eq_2 [] 1 = RSols [[(0%nat, 2); (1%nat, 0)]].
Proof. vm_compute. reflexivity. Qed.
