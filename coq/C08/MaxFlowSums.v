(* Finite sums over lists of nodes: the arithmetic used by the flow proofs. *)
From Coq Require Import List ZArith Bool Arith Lia.
Import ListNotations.
From SV Require Import C08.MaxFlowSpec.
Open Scope Z_scope.

Lemma sumz_app : forall a b, sumz (a ++ b) = sumz a + sumz b.
Proof. induction a as [|x a IH]; intros b; simpl; [reflexivity | rewrite IH; lia]. Qed.

Lemma sumz_map_ext : forall (A : Type) (g h : A -> Z) l,
  (forall x, In x l -> g x = h x) -> sumz (map g l) = sumz (map h l).
Proof.
  induction l as [|x l IH]; intros H; simpl; [reflexivity|].
  rewrite (H x (or_introl eq_refl)), IH; [reflexivity | intros y Hy; apply H; right; exact Hy].
Qed.

Lemma sumz_map_add : forall (A : Type) (g h : A -> Z) l,
  sumz (map (fun x => g x + h x) l) = sumz (map g l) + sumz (map h l).
Proof. induction l as [|x l IH]; simpl; [reflexivity | rewrite IH; lia]. Qed.

Lemma sumz_map_sub : forall (A : Type) (g h : A -> Z) l,
  sumz (map (fun x => g x - h x) l) = sumz (map g l) - sumz (map h l).
Proof. induction l as [|x l IH]; simpl; [reflexivity | rewrite IH; lia]. Qed.

Lemma sumz_map_le : forall (A : Type) (g h : A -> Z) l,
  (forall x, In x l -> g x <= h x) -> sumz (map g l) <= sumz (map h l).
Proof.
  induction l as [|x l IH]; intros H; simpl; [lia|].
  assert (g x <= h x) by (apply H; left; reflexivity).
  assert (sumz (map g l) <= sumz (map h l)) by (apply IH; intros y Hy; apply H; right; exact Hy).
  lia.
Qed.

Lemma sumz_map_zero : forall (A : Type) (g : A -> Z) l,
  (forall x, In x l -> g x = 0) -> sumz (map g l) = 0.
Proof.
  induction l as [|x l IH]; intros H; simpl; [reflexivity|].
  rewrite (H x (or_introl eq_refl)), IH; [reflexivity | intros y Hy; apply H; right; exact Hy].
Qed.

Lemma sumz_map_nonneg : forall (A : Type) (g : A -> Z) l,
  (forall x, In x l -> 0 <= g x) -> 0 <= sumz (map g l).
Proof.
  induction l as [|x l IH]; intros H; simpl; [lia|].
  assert (0 <= g x) by (apply H; left; reflexivity).
  assert (0 <= sumz (map g l)) by (apply IH; intros y Hy; apply H; right; exact Hy).
  lia.
Qed.

(* split a sum along a boolean predicate *)
Lemma sumz_filter_split : forall (A : Type) (p : A -> bool) (g : A -> Z) l,
  sumz (map g l) = sumz (map g (filter p l)) + sumz (map g (filter (fun x => negb (p x)) l)).
Proof.
  induction l as [|x l IH]; simpl; [reflexivity|].
  destruct (p x); simpl; rewrite IH; lia.
Qed.

(* exchange of the order of summation *)
Lemma sumz_swap : forall (A B : Type) (g : A -> B -> Z) la lb,
  sumz (map (fun a => sumz (map (fun b => g a b) lb)) la)
  = sumz (map (fun b => sumz (map (fun a => g a b) la)) lb).
Proof.
  induction la as [|a la IH]; intros lb; simpl.
  - symmetry. apply sumz_map_zero. intros; reflexivity.
  - rewrite IH. rewrite <- sumz_map_add. reflexivity.
Qed.

(* a sum in which one point of a duplicate-free list is shifted by a *)
Lemma sumz_point : forall (g : nat -> Z) (w : nat) (a : Z) l, NoDup l ->
  sumz (map (fun y => g y + (if Nat.eqb y w then a else 0)) l)
  = sumz (map g l) + (if existsb (Nat.eqb w) l then a else 0).
Proof.
  induction l as [|x l IH]; intros Hnd; simpl; [lia|].
  inversion Hnd as [|? ? Hx Hnd']; subst.
  rewrite (IH Hnd'). rewrite (Nat.eqb_sym w x).
  destruct (Nat.eqb x w) eqn:E; simpl.
  - apply Nat.eqb_eq in E. subst x.
    assert (existsb (Nat.eqb w) l = false) as ->.
    { destruct (existsb (Nat.eqb w) l) eqn:E2; [|reflexivity].
      apply existsb_exists in E2. destruct E2 as [y [Hy Hey]]. apply Nat.eqb_eq in Hey. subst y. contradiction. }
    lia.
  - lia.
Qed.

Lemma existsb_eqb_In : forall w l, existsb (Nat.eqb w) l = true <-> In w l.
Proof.
  intros w l. rewrite existsb_exists. split.
  - intros [y [Hy E]]. apply Nat.eqb_eq in E. subst. exact Hy.
  - intros H. exists w. split; [exact H | apply Nat.eqb_refl].
Qed.

Lemma sumz_point_in : forall (g : nat -> Z) (w : nat) (a : Z) l, NoDup l -> In w l ->
  sumz (map (fun y => g y + (if Nat.eqb y w then a else 0)) l) = sumz (map g l) + a.
Proof.
  intros g w a l Hnd Hin. rewrite sumz_point by exact Hnd.
  apply existsb_eqb_In in Hin. rewrite Hin. reflexivity.
Qed.

(* a sum over a duplicate-free list whose terms vanish except at w *)
Lemma sumz_single : forall (g : nat -> Z) (w : nat) l, NoDup l -> In w l ->
  (forall x, In x l -> x <> w -> g x = 0) -> sumz (map g l) = g w.
Proof.
  induction l as [|x l IH]; intros Hnd Hin Hz; [contradiction|].
  inversion Hnd as [|? ? Hx Hnd']; subst. simpl.
  destruct (Nat.eq_dec x w) as [E|E].
  - subst x. rewrite sumz_map_zero; [lia|].
    intros y Hy. apply Hz; [right; exact Hy | intros ->; contradiction].
  - destruct Hin as [Hin|Hin]; [contradiction|].
    rewrite (Hz x (or_introl eq_refl) E). rewrite IH; [lia | exact Hnd' | exact Hin |].
    intros y Hy Hne. apply Hz; [right; exact Hy | exact Hne].
Qed.

(* antisymmetric double sums vanish *)
Lemma sumz_antisym : forall (f : nat -> nat -> Z) l,
  sumz (map (fun u => sumz (map (fun v => f u v - f v u) l)) l) = 0.
Proof.
  intros f l.
  rewrite (sumz_map_ext _ _ (fun u => sumz (map (fun v => f u v) l) - sumz (map (fun v => f v u) l))).
  2:{ intros u _. apply sumz_map_sub. }
  rewrite sumz_map_sub.
  rewrite (sumz_swap _ _ (fun u v => f v u) l l). lia.
Qed.
