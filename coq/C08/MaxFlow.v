(* Model of solvor/flow.py: max_flow (lines 44-97 of the tree after commit f2b9028).  Definitions only.

   Python ints -> Z.  Node labels -> nat (injective numbering done by the harness).
   `capacity`, `flow` (defaultdict(lambda: defaultdict(int))) -> nested association lists in INSERTION
   order; a missing key reads as 0 / the empty inner dict (what the defaultdict gives).  The inner order of
   `capacity[node]` is the order in which BFS tries the neighbours, hence decides the augmenting paths and the
   returned flow.  The order of the keys of `flow` is not modelled (reads of a defaultdict insert zero
   entries); the returned dictionary is compared as a finite map (Python dict equality), not as a sequence.

   `fixed : bool` selects the code: true = current tree (with `capacity[v][u] += 0`, commit f2b9028),
   false = the PINNED code without that line (only used for C08_pinned_refuted).

   Loops: `for` -> fold_left / structural recursion; the BFS `while queue` and the outer `while path := bfs()`
   run on explicit fuel and return None when it is exhausted (never a normal-looking result).
   `path_flow = float("inf")` followed by `min` over the arcs of the path: the path has >= 1 arc whenever
   source <> sink; for a path without arcs (source = sink: the real code adds inf forever and does not
   return) the model returns None. *)
From Coq Require Import List ZArith Bool Arith.
Import ListNotations.
Open Scope Z_scope.

Definition amap := list (nat * Z).
Definition nmap := list (nat * amap).

(* d[k]  (defaultdict(int)) *)
Fixpoint aget (m : amap) (k : nat) : Z :=
  match m with
  | [] => 0
  | (k', x) :: r => if Nat.eqb k k' then x else aget r k
  end.

(* d[k] += x   (a new key goes to the end: dict insertion order) *)
Fixpoint aadd (m : amap) (k : nat) (d : Z) : amap :=
  match m with
  | [] => [(k, d)]
  | (k', x) :: r => if Nat.eqb k k' then (k', x + d) :: r else (k', x) :: aadd r k d
  end.

(* D[u]  (defaultdict(lambda: defaultdict(int))) *)
Fixpoint nget (m : nmap) (u : nat) : amap :=
  match m with
  | [] => []
  | (u', a) :: r => if Nat.eqb u u' then a else nget r u
  end.

Definition get2 (m : nmap) (u v : nat) : Z := aget (nget m u) v.

(* D[u][v] += d *)
Fixpoint add2 (m : nmap) (u v : nat) (d : Z) : nmap :=
  match m with
  | [] => [(u, [(v, d)])]
  | (u', a) :: r => if Nat.eqb u u' then (u', aadd a v d) :: r else (u', a) :: add2 r u v d
  end.

Definition keys (a : amap) : list nat := map fst a.

(* graph: {node: [(neighbor, capacity, ...), ...]} as the list of its items in dict order *)
Definition graph := list (nat * list (nat * Z)).

(* the arcs in the order the two nested `for` loops read them *)
Definition arcs (g : graph) : list (nat * nat * Z) :=
  flat_map (fun ua => map (fun vc => (fst ua, fst vc, snd vc)) (snd ua)) g.

(* capacity[u][v] += cap ; capacity[v][u] += 0 *)
Definition cap_step (fixed : bool) (cap : nmap) (a : nat * nat * Z) : nmap :=
  let '(u, v, c) := a in
  let cap1 := add2 cap u v c in
  if fixed then add2 cap1 v u 0 else cap1.

Definition build_capacity (fixed : bool) (g : graph) : nmap :=
  fold_left (cap_step fixed) (arcs g) [].

(* residual = capacity[node][neighbor] - flow[node][neighbor] + flow[neighbor][node] *)
Definition residual (cap flow : nmap) (u v : nat) : Z :=
  get2 cap u v - get2 flow u v + get2 flow v u.

Definition memb (x : nat) (l : list nat) : bool := existsb (Nat.eqb x) l.

(* for neighbor in capacity[node]: ... visited.add(neighbor); queue.append((neighbor, path + [neighbor])) *)
Fixpoint scan (cap flow : nmap) (node : nat) (path : list nat) (nbrs : list nat)
              (visited : list nat) (queue : list (nat * list nat)) : list nat * list (nat * list nat) :=
  match nbrs with
  | [] => (visited, queue)
  | nb :: r =>
      if negb (memb nb visited) && (0 <? residual cap flow node nb)
      then scan cap flow node path r (nb :: visited) (queue ++ [(nb, path ++ [nb])])
      else scan cap flow node path r visited queue
  end.

(* while queue: ...   Some (inl path) = `return path`, Some (inr visited) = `return None` (with the visited
   set at that moment), None = fuel exhausted *)
Fixpoint bfs_loop (fuel : nat) (cap flow : nmap) (sink : nat)
                  (visited : list nat) (queue : list (nat * list nat)) : option (list nat + list nat) :=
  match fuel with
  | O => None
  | S f =>
      match queue with
      | [] => Some (inr visited)
      | (node, path) :: q =>
          if Nat.eqb node sink then Some (inl path)
          else let '(vis', q') := scan cap flow node path (keys (nget cap node)) visited q in
               bfs_loop f cap flow sink vis' q'
      end
  end.

(* every node that can ever be visited: the source, the outer and the inner keys of capacity *)
Definition universe (cap : nmap) (source : nat) : list nat :=
  source :: map fst cap ++ flat_map (fun ua => keys (snd ua)) cap.

Definition bfs_fuel (cap : nmap) (source : nat) : nat := S (S (length (universe cap source))).

Definition bfs (cap flow : nmap) (source sink : nat) : option (list nat + list nat) :=
  bfs_loop (bfs_fuel cap source) cap flow sink [source] [(source, [source])].

(* zip(path, path[1:]) *)
Definition pairs (p : list nat) : list (nat * nat) := combine p (tl p).

(* path_flow = inf; for u, v in zip(path, path[1:]): path_flow = min(path_flow, residual) *)
Definition path_flow (cap flow : nmap) (p : list nat) : option Z :=
  match pairs p with
  | [] => None
  | (u, v) :: r =>
      Some (fold_left (fun acc uv => Z.min acc (residual cap flow (fst uv) (snd uv))) r (residual cap flow u v))
  end.

(* if flow[v][u] > 0: reduce = min(path_flow, flow[v][u]); flow[v][u] -= reduce;
                      flow[u][v] += path_flow - reduce
   else: flow[u][v] += path_flow *)
Definition aug_step (d : Z) (flow : nmap) (uv : nat * nat) : nmap :=
  let '(u, v) := uv in
  if 0 <? get2 flow v u then
    let reduce := Z.min d (get2 flow v u) in
    let flow1 := add2 flow v u (- reduce) in
    add2 flow1 u v (d - reduce)
  else add2 flow u v d.

Definition augment (flow : nmap) (d : Z) (p : list nat) : nmap :=
  fold_left (aug_step d) (pairs p) flow.

(* while path := bfs(): ...   state = (flow, total_flow, iterations) *)
Fixpoint mf_loop (fuel : nat) (cap flow : nmap) (source sink : nat) (total : Z) (iters : nat)
  : option (nmap * Z * nat) :=
  match fuel with
  | O => None
  | S f =>
      match bfs cap flow source sink with
      | None => None
      | Some (inr _) => Some (flow, total, iters)
      | Some (inl []) => Some (flow, total, iters)          (* an empty path is falsy *)
      | Some (inl path) =>
          match path_flow cap flow path with
          | None => None
          | Some d => mf_loop f cap (augment flow d path) source sink (total + d) (S iters)
          end
      end
  end.

(* flows = {(u, v): flow[u][v] for u in flow for v in flow[u] if flow[u][v] > 0} *)
Definition extract (flow : nmap) : list (nat * nat * Z) :=
  flat_map (fun ua => flat_map (fun vx => if 0 <? snd vx then [(fst ua, fst vx, snd vx)] else []) (snd ua)) flow.

(* fuel of the outer loop: capacity out of the source + 1 (each augmentation adds >= 1) *)
Definition source_cap (cap : nmap) (source : nat) : Z :=
  fold_right Z.add 0 (map snd (nget cap source)).

Definition mf_fuel (cap : nmap) (source : nat) : nat := S (Z.to_nat (source_cap cap source)).

Record result := { solution : list (nat * nat * Z); objective : Z; iterations : nat }.

Definition max_flow_gen (fixed : bool) (g : graph) (source sink : nat) : option result :=
  let cap := build_capacity fixed g in
  match mf_loop (mf_fuel cap source) cap [] source sink 0 0%nat with
  | None => None
  | Some (flow, total, iters) => Some {| solution := extract flow; objective := total; iterations := iters |}
  end.

(* the code in /repo *)
Definition max_flow := max_flow_gen true.
(* the pinned code (before commit f2b9028) *)
Definition max_flow_pinned := max_flow_gen false.

(* --- input validity (boolean): source <> sink, capacities >= 0 *)
Definition valid_input (g : graph) (source sink : nat) : bool :=
  negb (Nat.eqb source sink) && forallb (fun a => 0 <=? snd a) (arcs g).

(* --- observable comparison used by the generated correspondence lemmas: the solution as a finite map *)
Definition arc_eqb (a b : nat * nat * Z) : bool :=
  Nat.eqb (fst (fst a)) (fst (fst b)) && Nat.eqb (snd (fst a)) (snd (fst b)) && Z.eqb (snd a) (snd b).

Definition subset_b (a b : list (nat * nat * Z)) : bool :=
  forallb (fun x => existsb (arc_eqb x) b) a.

Definition obs_eqb (r : option result) (o : option (list (nat * nat * Z) * Z * nat)) : bool :=
  match r, o with
  | None, None => true
  | Some r, Some (sol, obj, it) =>
      Nat.eqb (length (solution r)) (length sol) && subset_b (solution r) sol && subset_b sol (solution r)
      && Z.eqb (objective r) obj && Nat.eqb (iterations r) it
  | _, _ => false
  end.

(* the witness of the pinned defect: s->a, s->b, a->c, a->d, b->c, c->t, d->t, all capacity 1
   (s=0 a=1 b=2 c=3 d=4 t=5) *)
Definition witness_graph : graph :=
  [(0%nat, [(1%nat, 1); (2%nat, 1)]); (1%nat, [(3%nat, 1); (4%nat, 1)]); (2%nat, [(3%nat, 1)]);
   (3%nat, [(5%nat, 1)]); (4%nat, [(5%nat, 1)])].
