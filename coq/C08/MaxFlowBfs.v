(* The BFS of max_flow: a returned path is a simple path of positive residual capacity from the source to
   the sink; when it returns None the visited set contains the source, not the sink, and is closed under
   the arcs (u, v) with v a key of capacity[u] and positive residual capacity; the fuel is sufficient. *)
From Coq Require Import List ZArith Bool Arith Lia Permutation.
Import ListNotations.
From SV Require Import C08.MaxFlow C08.MaxFlowSpec C08.MaxFlowSums C08.MaxFlowMaps C08.MaxFlowAug.
Open Scope Z_scope.

Lemma memb_In : forall x l, memb x l = true <-> In x l.
Proof. intros. unfold memb. apply existsb_eqb_In. Qed.

Lemma memb_false : forall x l, memb x l = false <-> ~ In x l.
Proof.
  intros x l. split.
  - intros H Hin. apply memb_In in Hin. congruence.
  - intros H. destruct (memb x l) eqn:E; [|reflexivity]. apply memb_In in E. contradiction.
Qed.

Lemma pairs_snoc : forall p x (d : nat), p <> [] -> pairs (p ++ [x]) = pairs p ++ [(last p d, x)].
Proof.
  induction p as [|a p IH]; intros x d Hne; [contradiction|].
  destruct p as [|b r]; [reflexivity|].
  change ((a :: b :: r) ++ [x]) with (a :: b :: (r ++ [x])).
  rewrite !pairs_cons2.
  change (b :: r ++ [x]) with ((b :: r) ++ [x]).
  rewrite (IH x d) by discriminate. reflexivity.
Qed.

Section Bfs.
Variables (cap flow : nmap) (s sink : nat) (P : nat -> Prop).
Hypothesis Ps : P s.
Hypothesis Pkeys : forall u x, In x (keys (nget cap u)) -> P x.

(* a queue entry: a simple path from s to n inside the visited set, every arc of positive residual *)
Definition good (visited : list nat) (p : list nat) (n : nat) : Prop :=
  NoDup p /\ hd s p = s /\ last p s = n /\ p <> []
  /\ (forall x, In x p -> In x visited /\ P x)
  /\ (forall u v, In (u, v) (pairs p) -> 0 < residual cap flow u v).

Definition qinv (visited : list nat) (queue : list (nat * list nat)) : Prop :=
  forall n p, In (n, p) queue -> In n visited /\ good visited p n.

Lemma good_mono : forall vis vis' p n, (forall x, In x vis -> In x vis') -> good vis p n -> good vis' p n.
Proof.
  intros vis vis' p n Hsub (H1 & H2 & H3 & H4 & H5 & H6).
  split; [exact H1|]. split; [exact H2|]. split; [exact H3|]. split; [exact H4|]. split; [|exact H6].
  intros x Hx. destruct (H5 x Hx) as [Ha Hb]. split; [apply Hsub; exact Ha | exact Hb].
Qed.

Lemma good_snoc : forall vis p node nb, good vis p node -> ~ In nb vis -> P nb ->
  0 < residual cap flow node nb -> good (nb :: vis) (p ++ [nb]) nb.
Proof.
  intros vis p node nb (H1 & H2 & H3 & H4 & H5 & H6) Hnb HP Hres.
  split; [|split; [|split; [|split; [|split]]]].
  - assert (NoDup (nb :: p)) as Hnd.
    { constructor; [|exact H1]. intros Hin. apply Hnb. apply (H5 nb Hin). }
    apply (Permutation_NoDup (l := nb :: p)); [|exact Hnd].
    apply Permutation_cons_append.
  - destruct p; [contradiction | exact H2].
  - apply last_last.
  - intros E. apply app_eq_nil in E. destruct E as [_ E]. discriminate.
  - intros x Hx. apply in_app_or in Hx. destruct Hx as [Hx|[Hx|[]]].
    + destruct (H5 x Hx) as [Ha Hb]. split; [right; exact Ha | exact Hb].
    + subst x. split; [left; reflexivity | exact HP].
  - intros u v Huv. rewrite (pairs_snoc p nb s H4) in Huv. apply in_app_or in Huv.
    destruct Huv as [Huv|[Huv|[]]]; [apply H6; exact Huv|].
    injection Huv as <- <-. rewrite H3. exact Hres.
Qed.

(* ---------------- the inner for loop ---------------- *)
Lemma scan_spec : forall node path nbrs visited queue vis' q',
  scan cap flow node path nbrs visited queue = (vis', q') ->
  (forall x, In x visited -> In x vis')
  /\ (forall e, In e queue -> In e q')
  /\ (forall x, In x vis' -> In x visited \/ exists p, In (x, p) q')
  /\ (forall v, In v nbrs -> 0 < residual cap flow node v -> In v vis').
Proof.
  intros node path. induction nbrs as [|nb r IH]; intros visited queue vis' q' H; simpl in H.
  - injection H as <- <-. repeat split; auto. intros v [].
  - destruct (negb (memb nb visited) && (0 <? residual cap flow node nb)) eqn:E.
    + apply IH in H. destruct H as (A & B & C & D).
      repeat split.
      * intros x Hx. apply A. right. exact Hx.
      * intros e He. apply B. apply in_or_app. left. exact He.
      * intros x Hx. destruct (C x Hx) as [[->|Hx']|Hx']; auto.
        right. exists (path ++ [x]). apply B. apply in_or_app. right. left. reflexivity.
      * intros v [->|Hv] Hres; [apply A; left; reflexivity | apply D; assumption].
    + apply IH in H. destruct H as (A & B & C & D).
      repeat split; auto.
      intros v [->|Hv] Hres; [|apply D; assumption].
      apply A. apply andb_false_iff in E. destruct E as [E|E].
      * apply negb_false_iff in E. apply memb_In. exact E.
      * apply Z.ltb_ge in E. lia.
Qed.

Lemma scan_qinv : forall node path nbrs visited queue vis' q',
  (forall x, In x nbrs -> P x) ->
  scan cap flow node path nbrs visited queue = (vis', q') ->
  good visited path node -> qinv visited queue -> qinv vis' q'.
Proof.
  intros node path. induction nbrs as [|nb r IH]; intros visited queue vis' q' HP H Hg Hq; simpl in H.
  - injection H as <- <-. exact Hq.
  - destruct (negb (memb nb visited) && (0 <? residual cap flow node nb)) eqn:E.
    + apply andb_true_iff in E. destruct E as [E1 E2].
      apply negb_true_iff in E1. apply memb_false in E1. apply Z.ltb_lt in E2.
      apply IH in H; [exact H | intros x Hx; apply HP; right; exact Hx | |].
      * apply good_mono with (vis := visited); [intros x Hx; right; exact Hx | exact Hg].
      * intros n p Hin. apply in_app_or in Hin. destruct Hin as [Hin|[Hin|[]]].
        -- destruct (Hq n p Hin) as [Q1 Q2]. split; [right; exact Q1|].
           apply good_mono with (vis := visited); [intros x Hx; right; exact Hx | exact Q2].
        -- injection Hin as <- <-. split; [left; reflexivity|].
           apply good_snoc with (node := node); [exact Hg | exact E1 | apply HP; left; reflexivity | exact E2].
    + apply IH in H; [exact H | intros x Hx; apply HP; right; exact Hx | exact Hg | exact Hq].
Qed.

(* ---------------- the while loop ---------------- *)
Definition done (visited : list nat) (u : nat) : Prop :=
  u <> sink /\ forall v, In v (keys (nget cap u)) -> 0 < residual cap flow u v -> In v visited.

Definition cinv (visited : list nat) (queue : list (nat * list nat)) : Prop :=
  forall u, In u visited -> (exists p, In (u, p) queue) \/ done visited u.

Definition bfs_post (r : list nat + list nat) : Prop :=
  match r with
  | inl p => exists vis, good vis p sink
  | inr vis => In s vis /\ ~ In sink vis
               /\ forall u v, In u vis -> In v (keys (nget cap u)) -> 0 < residual cap flow u v -> In v vis
  end.

Lemma bfs_loop_spec : forall fuel visited queue r,
  In s visited -> qinv visited queue -> cinv visited queue ->
  bfs_loop fuel cap flow sink visited queue = Some r -> bfs_post r.
Proof.
  induction fuel as [|f IH]; intros visited queue r Hs Hq Hc H; simpl in H; [discriminate|].
  destruct queue as [|[node path] q].
  - injection H as <-. simpl. split; [exact Hs|]. split.
    + intros Hin. destruct (Hc sink Hin) as [[p []]|[Hne _]]. apply Hne. reflexivity.
    + intros u v Hu Hv Hres. destruct (Hc u Hu) as [[p []]|[_ Hd]]. apply Hd; assumption.
  - destruct (Nat.eqb node sink) eqn:E.
    + injection H as <-. apply Nat.eqb_eq in E. subst node. simpl. exists visited.
      apply (Hq sink path). left. reflexivity.
    + apply Nat.eqb_neq in E.
      destruct (scan cap flow node path (keys (nget cap node)) visited q) as [vis' q'] eqn:Es.
      destruct (scan_spec _ _ _ _ _ _ _ Es) as (A & B & C & D).
      apply (IH vis' q' r); [apply A; exact Hs | | | exact H].
      * apply (scan_qinv _ _ _ _ _ _ _ (Pkeys node) Es).
        -- apply (Hq node path). left. reflexivity.
        -- intros n p Hin. apply Hq. right. exact Hin.
      * intros u Hu. destruct (C u Hu) as [Hold|Hnew]; [|left; exact Hnew].
        destruct (Hc u Hold) as [[p [Hp|Hp]]|[Hne Hd]].
        -- injection Hp as -> ->. right. split; [exact E|]. intros v Hv Hres. apply D; assumption.
        -- left. exists p. apply B. exact Hp.
        -- right. split; [exact Hne|]. intros v Hv Hres. apply A. apply Hd; assumption.
Qed.

Lemma bfs_spec : forall r, bfs cap flow s sink = Some r -> bfs_post r.
Proof.
  intros r H. unfold bfs in H. apply bfs_loop_spec in H; [exact H | left; reflexivity | |].
  - intros n p [Hin|[]]. injection Hin as <- <-. split; [left; reflexivity|].
    split; [constructor; [intros []|constructor]|].
    split; [reflexivity|]. split; [reflexivity|]. split; [discriminate|]. split.
    + intros x [<-|[]]. split; [left; reflexivity | exact Ps].
    + intros u v [].
  - intros u [<-|[]]. left. exists [s]. left. reflexivity.
Qed.

(* ---------------- fuel ---------------- *)
Definition unv (U visited : list nat) : nat := length (filter (fun x => negb (memb x visited)) U).

Lemma filter_length_le : forall (p p' : nat -> bool) U, (forall x, p' x = true -> p x = true) ->
  (length (filter p' U) <= length (filter p U))%nat.
Proof.
  induction U as [|x U IH]; intros Himp; simpl; [lia|].
  specialize (IH Himp). destruct (p' x) eqn:E.
  - rewrite (Himp x E). simpl. lia.
  - destruct (p x); simpl; lia.
Qed.

Lemma filter_length_lt : forall (p p' : nat -> bool) U w, (forall x, p' x = true -> p x = true) ->
  In w U -> p w = true -> p' w = false -> (length (filter p' U) < length (filter p U))%nat.
Proof.
  induction U as [|x U IH]; intros w Himp Hin Hp Hp'; [contradiction|]. simpl.
  destruct Hin as [->|Hin].
  - rewrite Hp, Hp'. simpl. pose proof (filter_length_le p p' U Himp). lia.
  - specialize (IH w Himp Hin Hp Hp'). destruct (p' x) eqn:E.
    + rewrite (Himp x E). simpl. lia.
    + destruct (p x); simpl; lia.
Qed.

Lemma unv_cons : forall U visited nb, In nb U -> ~ In nb visited -> (unv U (nb :: visited) < unv U visited)%nat.
Proof.
  intros U visited nb HU Hnb. unfold unv. apply filter_length_lt with (w := nb).
  - intros x Hx. apply negb_true_iff in Hx. apply negb_true_iff.
    apply memb_false. apply memb_false in Hx. intros Hin. apply Hx. right. exact Hin.
  - exact HU.
  - apply negb_true_iff. apply memb_false. exact Hnb.
  - apply negb_false_iff. apply memb_In. left. reflexivity.
Qed.

Lemma scan_measure : forall U node path nbrs visited queue vis' q', (forall x, In x nbrs -> In x U) ->
  scan cap flow node path nbrs visited queue = (vis', q') ->
  (length q' + unv U vis' <= length queue + unv U visited)%nat.
Proof.
  intros U node path. induction nbrs as [|nb r IH]; intros visited queue vis' q' HU H; simpl in H.
  - injection H as <- <-. lia.
  - destruct (negb (memb nb visited) && (0 <? residual cap flow node nb)) eqn:E.
    + apply andb_true_iff in E. destruct E as [E1 _].
      apply negb_true_iff in E1. apply memb_false in E1.
      apply IH in H; [|intros x Hx; apply HU; right; exact Hx].
      rewrite app_length in H. simpl in H.
      pose proof (unv_cons U visited nb (HU nb (or_introl eq_refl)) E1). lia.
    + apply IH in H; [exact H | intros x Hx; apply HU; right; exact Hx].
Qed.

Lemma bfs_loop_fuel : forall U, (forall u x, In x (keys (nget cap u)) -> In x U) ->
  forall fuel visited queue, (length queue + unv U visited < fuel)%nat ->
  bfs_loop fuel cap flow sink visited queue <> None.
Proof.
  intros U HU. induction fuel as [|f IH]; intros visited queue Hm; [lia|]. simpl.
  destruct queue as [|[node path] q]; [discriminate|].
  destruct (Nat.eqb node sink); [discriminate|].
  destruct (scan cap flow node path (keys (nget cap node)) visited q) as [vis' q'] eqn:Es.
  apply IH. apply (scan_measure U) in Es; [|apply HU]. simpl in Hm. lia.
Qed.

Lemma bfs_terminates : bfs cap flow s sink <> None.
Proof.
  unfold bfs. apply (bfs_loop_fuel (universe cap s)).
  - intros u x H. apply (keys_in_universe cap s u x H).
  - unfold bfs_fuel, unv. simpl length at 1.
    pose proof (filter_length_le (fun _ => true) (fun x => negb (memb x [s])) (universe cap s) (fun _ _ => eq_refl)) as L.
    assert (length (filter (fun _ : nat => true) (universe cap s)) = length (universe cap s)) as E.
    { clear. induction (universe cap s) as [|x l IHl]; simpl; [reflexivity | rewrite IHl; reflexivity]. }
    lia.
Qed.

End Bfs.
