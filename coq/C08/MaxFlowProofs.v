(* The outer loop of max_flow: invariant, result theorems (feasible, value, maximum, minimum cut),
   BFS closedness for the code after commit f2b9028, fuel sufficiency. *)
From Coq Require Import List ZArith Bool Arith Lia.
Import ListNotations.
From SV Require Import C08.MaxFlow C08.MaxFlowSpec C08.MaxFlowSums C08.MaxFlowMaps C08.MaxFlowAug
                       C08.MaxFlowBfs C08.MaxFlowDuality.
Open Scope Z_scope.

(* ---------------- more facts on build_capacity ---------------- *)
Lemma cap_step_keys_inv : forall fx m a b c u x,
  In x (keys (nget (cap_step fx m (a, b, c)) u)) -> In x (keys (nget m u)) \/ x = a \/ x = b.
Proof.
  intros fx m a b c u x H. unfold cap_step in H.
  assert (H1 : forall m' p q d, In x (keys (nget (add2 m' p q d) u)) -> In x (keys (nget m' u)) \/ x = q).
  { intros m' p q d H'. rewrite nget_add2 in H'. destruct (Nat.eqb u p) eqn:E; [|left; exact H'].
    apply Nat.eqb_eq in E. subst. apply keys_aadd_inv in H'. tauto. }
  destruct fx.
  - apply H1 in H. destruct H as [H|H]; [|tauto]. apply H1 in H. tauto.
  - apply H1 in H. tauto.
Qed.

Lemma fold_cap_keys_inv : forall fx l m u x,
  In x (keys (nget (fold_left (cap_step fx) l m) u)) ->
  In x (keys (nget m u)) \/ exists a b c, In (a, b, c) l /\ (x = a \/ x = b).
Proof.
  induction l as [|[[a b] c] l IH]; intros m u x H; simpl in H; [left; exact H|].
  apply IH in H. destruct H as [H|[a' [b' [c' [Hin Hx]]]]].
  - apply cap_step_keys_inv in H. destruct H as [H|H]; [left; exact H|].
    right. exists a, b, c. split; [left; reflexivity | exact H].
  - right. exists a', b', c'. split; [right; exact Hin | exact Hx].
Qed.

Lemma build_keys_nodes : forall fx g s t u x,
  In x (keys (nget (build_capacity fx g) u)) -> In x (nodes_of (arcs g) s t).
Proof.
  intros fx g s t u x H. unfold build_capacity in H. apply fold_cap_keys_inv in H.
  destruct H as [[]|[a [b [c [Hin [->| ->]]]]]]; apply (nodes_of_arc _ s t) in Hin; tauto.
Qed.

Lemma cap_step_wf : forall fx m a, wf m -> wf (cap_step fx m a).
Proof.
  intros fx m [[a b] c] H. unfold cap_step. destruct fx; repeat apply wf_add2; exact H.
Qed.

Lemma build_wf : forall fx g, wf (build_capacity fx g).
Proof.
  intros fx g. unfold build_capacity. generalize (arcs g) ([] : nmap) wf_nil.
  induction l as [|a l IH]; intros m H; simpl; [exact H|]. apply IH. apply cap_step_wf. exact H.
Qed.

Lemma augment_wf : forall d p f, wf f -> wf (augment f d p).
Proof.
  intros d p f. unfold augment. generalize (pairs p). intros l. revert f.
  induction l as [|[u v] l IH]; intros f H; simpl; [exact H|]. apply IH.
  unfold aug_step. destruct (0 <? get2 f v u); repeat apply wf_add2; exact H.
Qed.

(* sum of a dictionary's values = sum of its reads over any duplicate-free list containing its keys *)
Lemma sum_reads : forall V a, NoDup V -> NoDup (keys a) -> (forall x, In x (keys a) -> In x V) ->
  sumz (map (aget a) V) = sumz (map snd a).
Proof.
  intros V a HV. induction a as [|[k x] r IH]; intros Hnd Hsub; simpl.
  - apply sumz_map_zero. reflexivity.
  - simpl in Hnd. inversion Hnd as [|? ? Hk Hr]; subst.
    rewrite (sumz_map_ext _ _ (fun v => aget r v + (if Nat.eqb v k then x else 0))).
    + rewrite sumz_point_in; [|exact HV|apply Hsub; left; reflexivity].
      rewrite IH; [lia | exact Hr | intros y Hy; apply Hsub; right; exact Hy].
    + intros v _. destruct (Nat.eqb v k) eqn:E; [|lia].
      apply Nat.eqb_eq in E. subst. rewrite (aget_notin r k Hk). lia.
Qed.

(* ---------------- the loop ---------------- *)
Section Loop.
Variables (g : graph) (s t : nat).
Hypothesis Hvalid : valid_input g s t = true.

Let cap := build_capacity true g.
Let wg := arcs g.
Let V := nodes_of wg s t.

Lemma Hst : s <> t.
Proof.
  unfold valid_input in Hvalid. apply andb_true_iff in Hvalid. destruct Hvalid as [H _].
  apply negb_true_iff in H. apply Nat.eqb_neq. exact H.
Qed.

Lemma caps_nonneg : forall u v, 0 <= get2 cap u v.
Proof.
  intros u v. unfold cap. rewrite build_capacity_get2. apply cap_of_nonneg.
  unfold valid_input in Hvalid. apply andb_true_iff in Hvalid. destruct Hvalid as [_ H].
  rewrite forallb_forall in H. intros a Ha. specialize (H a Ha). apply Z.leb_le. exact H.
Qed.

Definition Inv (flow : nmap) (total : Z) : Prop := flow_inv cap V s t flow total /\ wf flow.

Lemma Inv_init : Inv [] 0.
Proof.
  split; [|apply wf_nil]. unfold flow_inv.
  assert (Z0 : forall x, net_out V (get2 []) x = 0).
  { intros x. unfold net_out. rewrite !sumz_map_zero by reflexivity. reflexivity. }
  split; [|split; [|split]].
  - intros u v. pose proof (caps_nonneg u v). change (get2 [] u v) with 0. lia.
  - intros u _ _ _. apply Z0.
  - apply Z0.
  - rewrite Z0. reflexivity.
Qed.

Definition Pn (x : nat) : Prop := In x V.

Lemma bfs_path_ok : forall flow p, bfs cap flow s t = Some (inl p) ->
  aug_path cap flow s t p /\ (forall x, In x p -> In x V) /\ pairs p <> [].
Proof.
  intros flow p H.
  apply (bfs_spec cap flow s t Pn) in H.
  - destruct H as [vis (H1 & H2 & H3 & H4 & H5 & H6)].
    split; [|split].
    + unfold aug_path. auto.
    + intros x Hx. apply (H5 x Hx).
    + destruct p as [|x [|y r]]; [contradiction| |discriminate].
      simpl in H2, H3. exfalso. apply Hst. congruence.
  - apply nodes_of_s.
  - intros u x Hx. apply (build_keys_nodes true g s t u x Hx).
Qed.

Lemma Inv_step : forall flow total p d, Inv flow total ->
  bfs cap flow s t = Some (inl p) -> path_flow cap flow p = Some d ->
  0 < d /\ Inv (augment flow d p) (total + d).
Proof.
  intros flow total p d [Hi Hw] Hb Hp. destruct (bfs_path_ok flow p Hb) as (Ha & HpV & _).
  destruct (aug_preserves cap V s t flow total p d (nodes_of_NoDup wg s t) HpV Hst Hi Ha Hp) as [Hd Hi'].
  split; [exact Hd|]. split; [exact Hi' | apply augment_wf; exact Hw].
Qed.

Lemma mf_loop_spec : forall fuel flow total iters flow' total' iters',
  Inv flow total -> mf_loop fuel cap flow s t total iters = Some (flow', total', iters') ->
  Inv flow' total' /\ exists vis, bfs cap flow' s t = Some (inr vis).
Proof.
  induction fuel as [|f IH]; intros flow total iters flow' total' iters' Hi H; simpl in H; [discriminate|].
  destruct (bfs cap flow s t) as [[p|vis]|] eqn:Eb; [| |discriminate].
  - destruct p as [|x p'].
    + destruct (bfs_path_ok flow [] Eb) as (_ & _ & Hne). exfalso. apply Hne. reflexivity.
    + destruct (path_flow cap flow (x :: p')) as [d|] eqn:Ep; [|discriminate].
      destruct (Inv_step flow total (x :: p') d Hi Eb Ep) as [_ Hi'].
      apply (IH _ _ _ _ _ _ Hi' H).
  - injection H as <- <- <-. split; [exact Hi|]. exists vis. exact Eb.
Qed.

(* ---------------- bfs_closed: with capacity[v][u] registered, closed under ALL positive-residual arcs *)
Lemma residual_key : forall flow u v, bounded cap flow -> 0 < residual cap flow u v ->
  In v (keys (nget cap u)).
Proof.
  intros flow u v Hb Hres. unfold residual in Hres.
  pose proof (Hb u v) as B1. pose proof (Hb v u) as B2.
  destruct (Z_lt_le_dec 0 (get2 cap u v)) as [Hc|Hc].
  - unfold cap in Hc. rewrite build_capacity_get2 in Hc.
    destruct (cap_of_nonzero (arcs g) u v) as [c Hin]; [lia|].
    apply (build_registers g u v c Hin).
  - assert (Hc' : 0 < get2 cap v u) by lia.
    unfold cap in Hc'. rewrite build_capacity_get2 in Hc'.
    destruct (cap_of_nonzero (arcs g) v u) as [c Hin]; [lia|].
    apply (build_registers g v u c Hin).
Qed.

Theorem bfs_closed : forall flow vis, bounded cap flow -> bfs cap flow s t = Some (inr vis) ->
  In s vis /\ ~ In t vis /\ forall u v, In u vis -> 0 < residual cap flow u v -> In v vis.
Proof.
  intros flow vis Hb H.
  apply (bfs_spec cap flow s t (fun _ => True) I (fun _ _ _ => I)) in H.
  destruct H as (H1 & H2 & H3). split; [exact H1|]. split; [exact H2|].
  intros u v Hu Hres. apply (H3 u v Hu); [|exact Hres]. apply (residual_key flow u v Hb Hres).
Qed.

(* ---------------- results ---------------- *)
Lemma feasible_of_Inv : forall flow total, Inv flow total ->
  feasible_flow V wg s t (fmap_of (extract flow))
  /\ flow_value V (fmap_of (extract flow)) t = total
  /\ net_out V (fmap_of (extract flow)) s = total.
Proof.
  intros flow total [(Hb & Hc & Hs & Ht) Hw].
  assert (E : forall u v, fmap_of (extract flow) u v = get2 flow u v).
  { apply extract_fmap; [exact Hw|]. intros u v. apply (Hb u v). }
  assert (En : forall x, net_out V (fmap_of (extract flow)) x = net_out V (get2 flow) x).
  { intros x. unfold net_out. f_equal; apply sumz_map_ext; intros y _; apply E. }
  split; [split|split].
  - intros u v. rewrite E. unfold wg. rewrite <- build_capacity_get2 with (fx := true). apply Hb.
  - intros u Hu H1 H2. rewrite En. apply Hc; assumption.
  - unfold flow_value. rewrite En, Ht. lia.
  - rewrite En. exact Hs.
Qed.

Lemma max_flow_unfold : forall r, max_flow g s t = Some r ->
  exists flow, mf_loop (mf_fuel cap s) cap [] s t 0 0%nat = Some (flow, objective r, iterations r)
               /\ solution r = extract flow.
Proof.
  intros r H. unfold max_flow, max_flow_gen in H. fold cap in H.
  destruct (mf_loop (mf_fuel cap s) cap [] s t 0 0%nat) as [[[flow total] iters]|]; [|discriminate].
  injection H as <-. exists flow. split; reflexivity.
Qed.

Theorem max_flow_feasible : forall r, max_flow g s t = Some r ->
  feasible_flow V wg s t (fmap_of (solution r)).
Proof.
  intros r H. destruct (max_flow_unfold r H) as [flow [Hl ->]].
  destruct (mf_loop_spec _ _ _ _ _ _ _ Inv_init Hl) as [Hi _].
  apply (feasible_of_Inv flow (objective r) Hi).
Qed.

Theorem max_flow_value : forall r, max_flow g s t = Some r ->
  flow_value V (fmap_of (solution r)) t = objective r
  /\ net_out V (fmap_of (solution r)) s = objective r.
Proof.
  intros r H. destruct (max_flow_unfold r H) as [flow [Hl ->]].
  destruct (mf_loop_spec _ _ _ _ _ _ _ Inv_init Hl) as [Hi _].
  apply (feasible_of_Inv flow (objective r) Hi).
Qed.

Lemma final_cut : forall r, max_flow g s t = Some r ->
  exists vis, closed_cut V (fun x => memb x vis) wg (fmap_of (solution r))
              /\ memb s vis = true /\ memb t vis = false.
Proof.
  intros r H. destruct (max_flow_unfold r H) as [flow [Hl ->]].
  destruct (mf_loop_spec _ _ _ _ _ _ _ Inv_init Hl) as [Hi [vis Hb]].
  destruct Hi as [(Hbd & Hc & Hs & Ht) Hw].
  destruct (bfs_closed flow vis Hbd Hb) as (C1 & C2 & C3).
  exists vis. split; [|split].
  - intros u v _ _ Hu Hres. apply memb_In. apply memb_In in Hu. apply (C3 u v Hu).
    unfold residual_f in Hres. rewrite !extract_fmap in Hres; try exact Hw; try (intros a b; apply (Hbd a b)).
    unfold residual, cap. rewrite build_capacity_get2. exact Hres.
  - apply memb_In. exact C1.
  - apply memb_false. exact C2.
Qed.

Theorem max_flow_max : forall r, max_flow g s t = Some r -> is_max_flow V wg s t (fmap_of (solution r)).
Proof.
  intros r H. destruct (final_cut r H) as [vis (Hcl & Hs & Ht)].
  apply (closed_cut_max V s t (fun x => memb x vis)); auto.
  - apply nodes_of_NoDup.
  - apply nodes_of_t.
  - apply max_flow_feasible. exact H.
Qed.

Theorem max_flow_no_augmenting_path : forall r, max_flow g s t = Some r ->
  no_augmenting_path V wg s t (fmap_of (solution r)).
Proof.
  intros r H. destruct (final_cut r H) as [vis (Hcl & Hs & Ht)].
  exists (fun x => memb x vis). split; [exact Hs|]. split; [exact Ht|]. exact Hcl.
Qed.

(* objective = capacity of a minimum cut *)
Theorem max_flow_min_cut : forall r, max_flow g s t = Some r ->
  exists inS, inS s = true /\ inS t = false /\ cut_cap V wg inS = objective r
    /\ forall inS', inS' s = true -> inS' t = false -> objective r <= cut_cap V wg inS'.
Proof.
  intros r H. destruct (final_cut r H) as [vis (Hcl & Hs & Ht)].
  pose proof (max_flow_feasible r H) as Hf. destruct (max_flow_value r H) as [Hv _].
  exists (fun x => memb x vis). split; [exact Hs|]. split; [exact Ht|]. split.
  - rewrite <- Hv. symmetry.
    apply (closed_cut_value V s t (fun x => memb x vis) (nodes_of_NoDup wg s t) (nodes_of_t wg s t) Hs Ht wg _ Hf Hcl).
  - intros inS' Hs' Ht'. rewrite <- Hv.
    apply (weak_duality_cut V s t inS' (nodes_of_NoDup wg s t) (nodes_of_t wg s t) Hs' Ht' wg _ Hf).
Qed.

(* everything the property states, in the form judged by spec_check *)
Theorem max_flow_spec : forall r, max_flow g s t = Some r -> Spec wg s t (solution r) (objective r).
Proof.
  intros r H. unfold Spec. split; [apply max_flow_max; exact H|]. split.
  - apply (max_flow_value r H).
  - apply max_flow_no_augmenting_path. exact H.
Qed.

(* ---------------- fuel ---------------- *)
Lemma total_le_source_cap : forall flow total, Inv flow total -> total <= source_cap cap s.
Proof.
  intros flow total [(Hb & Hc & Hs & Ht) Hw]. rewrite <- Hs. unfold net_out.
  assert (0 <= sumz (map (fun v => get2 flow v s) V)).
  { apply sumz_map_nonneg. intros x _. apply (Hb x s). }
  assert (sumz (map (get2 flow s) V) <= sumz (map (get2 cap s) V)).
  { apply sumz_map_le. intros x _. apply (Hb s x). }
  assert (sumz (map (get2 cap s) V) = source_cap cap s).
  { unfold source_cap. change (fold_right Z.add 0 (map snd (nget cap s))) with (sumz (map snd (nget cap s))).
    unfold get2. apply sum_reads.
    - apply nodes_of_NoDup.
    - destruct (build_wf true g) as [_ W]. fold cap in W.
      destruct (nget_In cap s) as [E|E]; [rewrite E; constructor|].
      rewrite Forall_forall in W. apply (W _ E).
    - intros x Hx. apply (build_keys_nodes true g s t s x Hx). }
  lia.
Qed.

Lemma mf_loop_fuel : forall fuel flow total iters, Inv flow total ->
  (Z.to_nat (source_cap cap s - total) < fuel)%nat ->
  mf_loop fuel cap flow s t total iters <> None.
Proof.
  induction fuel as [|f IH]; intros flow total iters Hi Hm; [lia|]. simpl.
  destruct (bfs cap flow s t) as [[p|vis]|] eqn:Eb.
  - destruct p as [|x p'].
    + discriminate.
    + destruct (bfs_path_ok flow (x :: p') Eb) as (_ & _ & Hne).
      destruct (path_flow_some cap flow (x :: p') Hne) as [d Hd]. rewrite Hd.
      destruct (Inv_step flow total (x :: p') d Hi Eb Hd) as [Hpos Hi'].
      apply IH; [exact Hi'|].
      pose proof (total_le_source_cap _ _ Hi'). lia.
  - discriminate.
  - exfalso. apply (bfs_terminates cap flow s t Eb).
Qed.

Theorem max_flow_terminates : max_flow g s t <> None.
Proof.
  unfold max_flow, max_flow_gen. fold cap.
  destruct (mf_loop (mf_fuel cap s) cap [] s t 0 0%nat) as [[[flow total] iters]|] eqn:E; [discriminate|].
  exfalso. revert E. apply mf_loop_fuel; [apply Inv_init|].
  unfold mf_fuel. rewrite Z.sub_0_r. lia.
Qed.

End Loop.
