(* Specification of property C08 (DESIGN.md Appendix A, "flows") and a boolean checker of it.
   Definitions only; the soundness lemma of spec_check is in MaxFlowDuality.v. *)
From Coq Require Import List ZArith Bool Arith.
Import ListNotations.
Open Scope Z_scope.

(* weighted multigraph: arcs (tail, head, capacity); parallel arcs allowed *)
Definition wgraph := list (nat * nat * Z).
Definition fmap := nat -> nat -> Z.

Definition sumz (l : list Z) : Z := fold_right Z.add 0 l.

(* pooled capacity of all parallel arcs u -> v *)
Definition cap_of (g : wgraph) : fmap := fun u v =>
  sumz (map (fun a => if Nat.eqb (fst (fst a)) u && Nat.eqb (snd (fst a)) v then snd a else 0) g).

Definition net_out (nodes : list nat) (f : fmap) (u : nat) : Z :=
  sumz (map (f u) nodes) - sumz (map (fun v => f v u) nodes).

Definition feasible_flow (nodes : list nat) (g : wgraph) (s t : nat) (f : fmap) : Prop :=
  (forall u v, 0 <= f u v <= cap_of g u v)
  /\ (forall u, In u nodes -> u <> s -> u <> t -> net_out nodes f u = 0).

Definition flow_value (nodes : list nat) (f : fmap) (t : nat) : Z := - net_out nodes f t.

Definition is_max_flow (nodes : list nat) (g : wgraph) (s t : nat) (f : fmap) : Prop :=
  feasible_flow nodes g s t f
  /\ forall f', feasible_flow nodes g s t f' -> flow_value nodes f' t <= flow_value nodes f t.

(* cuts: a source side given by a boolean predicate *)
Definition cut_cap (nodes : list nat) (g : wgraph) (inS : nat -> bool) : Z :=
  sumz (map (fun u => sumz (map (fun v => cap_of g u v) (filter (fun v => negb (inS v)) nodes)))
            (filter inS nodes)).

Definition residual_f (g : wgraph) (f : fmap) (u v : nat) : Z := cap_of g u v - f u v + f v u.

(* no augmenting path: a set containing s, not t, closed under arcs of positive residual capacity *)
Definition no_augmenting_path (nodes : list nat) (g : wgraph) (s t : nat) (f : fmap) : Prop :=
  exists inS : nat -> bool, inS s = true /\ inS t = false
    /\ forall u v, In u nodes -> In v nodes -> inS u = true -> 0 < residual_f g f u v -> inS v = true.

(* all nodes of the instance: source, sink, end points of the arcs (no repetition) *)
Definition nodes_of (g : wgraph) (s t : nat) : list nat :=
  nodup Nat.eq_dec (s :: t :: flat_map (fun a => [fst (fst a); snd (fst a)]) g).

(* a returned dictionary {(u, v): x} as a function; absent keys read 0 *)
Definition fmap_of (sol : list (nat * nat * Z)) : fmap := fun u v =>
  sumz (map (fun a => if Nat.eqb (fst (fst a)) u && Nat.eqb (snd (fst a)) v then snd a else 0) sol).

(* ---------------- boolean checker ---------------- *)
Definition memn (x : nat) (l : list nat) : bool := existsb (Nat.eqb x) l.

Definition grow (g : wgraph) (f : fmap) (nodes S : list nat) : list nat :=
  fold_left (fun S v => if memn v S then S
                        else if existsb (fun u => 0 <? residual_f g f u v) S then v :: S else S) nodes S.

Fixpoint iterate {A} (n : nat) (h : A -> A) (x : A) : A :=
  match n with O => x | S k => iterate k h (h x) end.

Definition reach (g : wgraph) (f : fmap) (nodes : list nat) (s : nat) : list nat :=
  iterate (length nodes) (grow g f nodes) [s].

Definition closed_b (g : wgraph) (f : fmap) (nodes S : list nat) : bool :=
  forallb (fun u => negb (memn u S)
                    || forallb (fun v => negb (0 <? residual_f g f u v) || memn v S) nodes) nodes.

Definition bounds_b (g : wgraph) (f : fmap) (nodes : list nat) : bool :=
  forallb (fun u => forallb (fun v => (0 <=? f u v) && (f u v <=? cap_of g u v)) nodes) nodes.

Definition conserv_b (f : fmap) (nodes : list nat) (s t : nat) : bool :=
  forallb (fun u => Nat.eqb u s || Nat.eqb u t || (net_out nodes f u =? 0)) nodes.

Definition keys_in_b (sol : list (nat * nat * Z)) (nodes : list nat) : bool :=
  forallb (fun a => memn (fst (fst a)) nodes && memn (snd (fst a)) nodes) sol.

(* input g s t, output (solution dictionary, objective) *)
Definition spec_check (g : wgraph) (s t : nat) (sol : list (nat * nat * Z)) (obj : Z) : bool :=
  let nodes := nodes_of g s t in
  let f := fmap_of sol in
  let S := reach g f nodes s in
  negb (Nat.eqb s t)
  && keys_in_b sol nodes
  && bounds_b g f nodes
  && conserv_b f nodes s t
  && (flow_value nodes f t =? obj)
  && memn s S && negb (memn t S) && closed_b g f nodes S.

(* what a `true` of spec_check means (proved in MaxFlowDuality.spec_check_sound) *)
Definition Spec (g : wgraph) (s t : nat) (sol : list (nat * nat * Z)) (obj : Z) : Prop :=
  let nodes := nodes_of g s t in
  is_max_flow nodes g s t (fmap_of sol)
  /\ flow_value nodes (fmap_of sol) t = obj
  /\ no_augmenting_path nodes g s t (fmap_of sol).
