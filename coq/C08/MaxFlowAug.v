(* One augmentation (aug_step / augment / path_flow): capacity bounds and conservation are preserved,
   the net outflow of the two ends of the path moves by the path flow. *)
From Coq Require Import List ZArith Bool Arith Lia.
Import ListNotations.
From SV Require Import C08.MaxFlow C08.MaxFlowSpec C08.MaxFlowSums C08.MaxFlowMaps.
Open Scope Z_scope.

Definition bounded (cap flow : nmap) : Prop := forall u v, 0 <= get2 flow u v <= get2 cap u v.

(* amount of reverse flow cancelled on the arc (u, v) *)
Definition red (f : nmap) (d : Z) (u v : nat) : Z :=
  if 0 <? get2 f v u then Z.min d (get2 f v u) else 0.

Lemma aug_step_get2 : forall d f u v x y,
  get2 (aug_step d f (u, v)) x y
  = get2 f x y + (if Nat.eqb x u && Nat.eqb y v then d - red f d u v else 0)
               + (if Nat.eqb x v && Nat.eqb y u then - red f d u v else 0).
Proof.
  intros d f u v x y. unfold aug_step, red.
  destruct (0 <? get2 f v u).
  - rewrite !get2_add2. lia.
  - rewrite get2_add2. destruct (Nat.eqb x u && Nat.eqb y v); destruct (Nat.eqb x v && Nat.eqb y u); lia.
Qed.

Lemma aug_step_bounded : forall cap f d u v,
  bounded cap f -> u <> v -> 0 <= d -> d <= residual cap f u v -> bounded cap (aug_step d f (u, v)).
Proof.
  intros cap f d u v Hb Huv Hd0 Hd x y. rewrite aug_step_get2.
  pose proof (Hb u v) as B1. pose proof (Hb v u) as B2. pose proof (Hb x y) as B3.
  unfold residual in Hd. unfold red.
  destruct (Nat.eqb x u) eqn:E1; destruct (Nat.eqb y v) eqn:E2;
  destruct (Nat.eqb x v) eqn:E3; destruct (Nat.eqb y u) eqn:E4; simpl;
  try apply Nat.eqb_eq in E1; try apply Nat.eqb_eq in E2;
  try apply Nat.eqb_eq in E3; try apply Nat.eqb_eq in E4; subst;
  try (exfalso; apply Huv; reflexivity);
  destruct (0 <? get2 f v u) eqn:E5;
  try apply Z.ltb_lt in E5; try apply Z.ltb_ge in E5; lia.
Qed.

Lemma aug_step_residual_other : forall cap f d u v a b,
  a <> u -> b <> u -> residual cap (aug_step d f (u, v)) a b = residual cap f a b.
Proof.
  intros cap f d u v a b Ha Hb. unfold residual. rewrite !aug_step_get2.
  apply Nat.eqb_neq in Ha. apply Nat.eqb_neq in Hb. rewrite Ha, Hb. simpl.
  rewrite !andb_false_r. lia.
Qed.

(* ---------------- net outflow under a point update ---------------- *)
Lemma sumz_ind : forall (c : bool) (w : nat) (a : Z) l, NoDup l -> In w l ->
  sumz (map (fun y => if c && Nat.eqb y w then a else 0) l) = if c then a else 0.
Proof.
  intros c w a l Hnd Hin. destruct c; simpl.
  - rewrite (sumz_map_ext _ _ (fun y => (fun _ => 0) y + (if Nat.eqb y w then a else 0))) by (intros; lia).
    rewrite sumz_point_in by assumption. rewrite sumz_map_zero by reflexivity. lia.
  - apply sumz_map_zero. reflexivity.
Qed.

Lemma net_out_upd : forall V (f f' : fmap) p q a, NoDup V -> In p V -> In q V ->
  (forall x y, f' x y = f x y + (if Nat.eqb x p && Nat.eqb y q then a else 0)) ->
  forall x, net_out V f' x = net_out V f x + (if Nat.eqb x p then a else 0) - (if Nat.eqb x q then a else 0).
Proof.
  intros V f f' p q a Hnd Hp Hq Hf x. unfold net_out.
  rewrite (sumz_map_ext _ (f' x) (fun y => f x y + (if Nat.eqb x p && Nat.eqb y q then a else 0)))
    by (intros; apply Hf).
  rewrite sumz_map_add, (sumz_ind (Nat.eqb x p) q a V Hnd Hq).
  rewrite (sumz_map_ext _ (fun v => f' v x) (fun y => f y x + (if Nat.eqb x q && Nat.eqb y p then a else 0))).
  2:{ intros y _. rewrite Hf, andb_comm. reflexivity. }
  rewrite sumz_map_add, (sumz_ind (Nat.eqb x q) p a V Hnd Hp). lia.
Qed.

Lemma aug_step_net_out : forall V f d u v, NoDup V -> In u V -> In v V ->
  forall x, net_out V (get2 (aug_step d f (u, v))) x
            = net_out V (get2 f) x + (if Nat.eqb x u then d else 0) - (if Nat.eqb x v then d else 0).
Proof.
  intros V f d u v Hnd Hu Hv x.
  set (b := red f d u v).
  set (f1 := fun x y => get2 f x y + (if Nat.eqb x v && Nat.eqb y u then - b else 0)).
  rewrite (net_out_upd V f1 (get2 (aug_step d f (u, v))) u v (d - b) Hnd Hu Hv).
  2:{ intros a c. rewrite aug_step_get2. unfold f1, b. lia. }
  rewrite (net_out_upd V (get2 f) f1 v u (- b) Hnd Hv Hu) by (intros; reflexivity).
  destruct (Nat.eqb x u); destruct (Nat.eqb x v); lia.
Qed.

(* ---------------- paths ---------------- *)
Lemma pairs_cons2 : forall u v r, pairs (u :: v :: r) = (u, v) :: pairs (v :: r).
Proof. reflexivity. Qed.

Lemma pairs_In : forall p a b, In (a, b) (pairs p) -> In a p /\ In b p.
Proof.
  intros p a b H. unfold pairs in H. split.
  - apply (in_combine_l _ _ _ _ H).
  - apply in_combine_r in H. destruct p; simpl in *; [contradiction | right; exact H].
Qed.

Lemma augment_cons2 : forall f d u v r,
  augment f d (u :: v :: r) = augment (aug_step d f (u, v)) d (v :: r).
Proof. reflexivity. Qed.

Lemma augment_bounded : forall cap d p f, NoDup p -> bounded cap f -> 0 <= d ->
  (forall u v, In (u, v) (pairs p) -> d <= residual cap f u v) -> bounded cap (augment f d p).
Proof.
  intros cap d p. induction p as [|u p IH]; intros f Hnd Hb Hd Hres; [exact Hb|].
  destruct p as [|v r]; [exact Hb|].
  rewrite augment_cons2.
  inversion Hnd as [|? ? Hu Hnd']; subst.
  apply IH; [exact Hnd' | | exact Hd |].
  - apply aug_step_bounded; [exact Hb | | exact Hd |].
    + intros ->. apply Hu. left. reflexivity.
    + apply Hres. rewrite pairs_cons2. left. reflexivity.
  - intros a b Hab. rewrite aug_step_residual_other.
    + apply Hres. rewrite pairs_cons2. right. exact Hab.
    + apply pairs_In in Hab. intros ->. apply Hu. tauto.
    + apply pairs_In in Hab. intros ->. apply Hu. tauto.
Qed.

Lemma last_cons_nonempty : forall r (v u : nat), last (v :: r) u = last r v.
Proof.
  induction r as [|w r IH]; intros v u; [reflexivity|].
  change (last (v :: w :: r) u) with (last (w :: r) u).
  rewrite (IH w u), (IH w v). reflexivity.
Qed.

Lemma augment_net_out : forall V d r u f, NoDup V -> (forall x, In x (u :: r) -> In x V) ->
  forall x, net_out V (get2 (augment f d (u :: r))) x
            = net_out V (get2 f) x + (if Nat.eqb x u then d else 0) - (if Nat.eqb x (last r u) then d else 0).
Proof.
  intros V d r. induction r as [|v r IH]; intros u f Hnd Hin x.
  - simpl. unfold augment. simpl. lia.
  - rewrite augment_cons2. rewrite IH; [|exact Hnd|intros y Hy; apply Hin; right; exact Hy].
    rewrite aug_step_net_out; [|exact Hnd|apply Hin; left; reflexivity|apply Hin; right; left; reflexivity].
    rewrite last_cons_nonempty. lia.
Qed.

(* ---------------- path_flow is the minimum residual along the path ---------------- *)
Lemma fold_min_le : forall (h : nat * nat -> Z) r acc,
  fold_left (fun a uv => Z.min a (h uv)) r acc <= acc
  /\ forall uv, In uv r -> fold_left (fun a uv => Z.min a (h uv)) r acc <= h uv.
Proof.
  induction r as [|x r IH]; intros acc; simpl.
  - split; [lia | intros uv []].
  - destruct (IH (Z.min acc (h x))) as [I1 I2]. split; [lia|].
    intros uv [->|Hin]; [lia | apply I2; exact Hin].
Qed.

Lemma fold_min_pos : forall (h : nat * nat -> Z) r acc, 0 < acc -> (forall uv, In uv r -> 0 < h uv) ->
  0 < fold_left (fun a uv => Z.min a (h uv)) r acc.
Proof.
  induction r as [|x r IH]; intros acc Ha Hr; simpl; [exact Ha|].
  apply IH; [|intros uv Huv; apply Hr; right; exact Huv].
  assert (0 < h x) by (apply Hr; left; reflexivity). lia.
Qed.

Lemma path_flow_spec : forall cap f p d, path_flow cap f p = Some d ->
  (forall u v, In (u, v) (pairs p) -> d <= residual cap f u v)
  /\ ((forall u v, In (u, v) (pairs p) -> 0 < residual cap f u v) -> 0 < d).
Proof.
  intros cap f p d H. unfold path_flow in H.
  destruct (pairs p) as [|[u v] r] eqn:E; [discriminate|]. injection H as H.
  set (h := fun uv : nat * nat => residual cap f (fst uv) (snd uv)) in *.
  destruct (fold_min_le h r (residual cap f u v)) as [I1 I2]. split.
  - intros a b [Hab|Hab].
    + injection Hab as -> ->. rewrite <- H. exact I1.
    + rewrite <- H. apply (I2 (a, b) Hab).
  - intros Hpos. rewrite <- H. apply fold_min_pos.
    + apply Hpos. left. reflexivity.
    + intros [a b] Hab. apply Hpos. right. exact Hab.
Qed.

Lemma path_flow_some : forall cap f p, pairs p <> [] -> exists d, path_flow cap f p = Some d.
Proof.
  intros cap f p H. unfold path_flow. destruct (pairs p) as [|[u v] r]; [contradiction|]. eauto.
Qed.

(* ---------------- the invariant of the outer loop and its preservation ---------------- *)
(* V: a duplicate-free list of nodes containing the path; s, t the ends *)
Definition flow_inv (cap : nmap) (V : list nat) (s t : nat) (flow : nmap) (total : Z) : Prop :=
  bounded cap flow
  /\ (forall u, In u V -> u <> s -> u <> t -> net_out V (get2 flow) u = 0)
  /\ net_out V (get2 flow) s = total
  /\ net_out V (get2 flow) t = - total.

(* an augmenting path as BFS returns it *)
Definition aug_path (cap flow : nmap) (s t : nat) (p : list nat) : Prop :=
  NoDup p /\ hd s p = s /\ last p s = t /\ p <> []
  /\ forall u v, In (u, v) (pairs p) -> 0 < residual cap flow u v.

Theorem aug_preserves : forall cap V s t flow total p d,
  NoDup V -> (forall x, In x p -> In x V) -> s <> t ->
  flow_inv cap V s t flow total -> aug_path cap flow s t p -> path_flow cap flow p = Some d ->
  0 < d /\ flow_inv cap V s t (augment flow d p) (total + d).
Proof.
  intros cap V s t flow total p d HV HpV Hst [Hb [Hc [Hs Ht]]] [Hnd [Hhd [Hlast [Hne Hres]]]] Hpf.
  destruct (path_flow_spec _ _ _ _ Hpf) as [Hle Hpos]. specialize (Hpos Hres).
  split; [exact Hpos|].
  destruct p as [|u r]; [contradiction|]. simpl in Hhd. subst u.
  assert (Hl : last r s = t).
  { destruct r as [|v r]; [simpl in Hlast; contradiction|]. rewrite <- Hlast.
    symmetry. apply last_cons_nonempty. }
  assert (Hnet := augment_net_out V d r s flow HV HpV). rewrite Hl in Hnet.
  split; [|split; [|split]].
  - apply augment_bounded; [exact Hnd | exact Hb | lia | exact Hle].
  - intros x Hx Hxs Hxt. rewrite Hnet. apply Nat.eqb_neq in Hxs. apply Nat.eqb_neq in Hxt.
    rewrite Hxs, Hxt. rewrite (Hc x Hx); [lia | apply Nat.eqb_neq; exact Hxs | apply Nat.eqb_neq; exact Hxt].
  - rewrite Hnet, Nat.eqb_refl. apply Nat.eqb_neq in Hst. rewrite Hst. lia.
  - rewrite Hnet, Nat.eqb_refl. assert (Nat.eqb t s = false) as -> by (apply Nat.eqb_neq; auto). lia.
Qed.
