(* Weak duality (value of a feasible flow <= capacity of any s-t cut), equality for a cut closed under
   positive-residual arcs, hence maximality; soundness of the boolean spec_check. *)
From Coq Require Import List ZArith Bool Arith Lia.
Import ListNotations.
From SV Require Import C08.MaxFlowSpec C08.MaxFlowSums.
Open Scope Z_scope.

Lemma sumz_map_opp : forall (A : Type) (g : A -> Z) l, sumz (map (fun x => - g x) l) = - sumz (map g l).
Proof. induction l as [|x l IH]; simpl; [reflexivity | rewrite IH; lia]. Qed.

Section Cut.
Variables (V : list nat) (s t : nat) (inS : nat -> bool).
Hypothesis HV : NoDup V.
Hypothesis Ht : In t V.
Hypothesis HinS : inS s = true.
Hypothesis HinT : inS t = false.

Let Sl := filter inS V.
Let Tl := filter (fun v => negb (inS v)) V.

Definition conserved (f : fmap) : Prop := forall u, In u V -> u <> s -> u <> t -> net_out V f u = 0.

(* the value of a conserved flow is the net flow across the cut *)
Lemma value_across_cut : forall f, conserved f ->
  flow_value V f t = sumz (map (fun u => sumz (map (fun v => f v u - f u v) Sl)) Tl).
Proof.
  intros f Hc. unfold flow_value.
  assert (E1 : sumz (map (net_out V f) Tl) = net_out V f t).
  { apply sumz_single.
    - apply NoDup_filter. exact HV.
    - apply filter_In. split; [exact Ht | rewrite HinT; reflexivity].
    - intros x Hx Hne. apply filter_In in Hx. destruct Hx as [HxV Hx].
      apply Hc; [exact HxV | | exact Hne]. intros ->. rewrite HinS in Hx. discriminate. }
  assert (E2 : sumz (map (net_out V f) Tl)
               = sumz (map (fun u => sumz (map (fun v => f u v - f v u) Sl)) Tl)
                 + sumz (map (fun u => sumz (map (fun v => f u v - f v u) Tl)) Tl)).
  { rewrite <- sumz_map_add. apply sumz_map_ext. intros u _.
    unfold net_out. rewrite <- sumz_map_sub.
    apply (sumz_filter_split nat inS (fun v => f u v - f v u) V). }
  rewrite sumz_antisym in E2.
  rewrite <- E1, E2, Z.add_0_r, <- sumz_map_opp.
  apply sumz_map_ext. intros u _. rewrite <- sumz_map_opp.
  apply sumz_map_ext. intros v _. lia.
Qed.

Lemma cut_cap_swap : forall g,
  cut_cap V g inS = sumz (map (fun u => sumz (map (fun v => cap_of g v u) Sl)) Tl).
Proof. intros g. unfold cut_cap. apply sumz_swap. Qed.

Theorem weak_duality_cut : forall g f, feasible_flow V g s t f -> flow_value V f t <= cut_cap V g inS.
Proof.
  intros g f [Hb Hc]. rewrite (value_across_cut f Hc), cut_cap_swap.
  apply sumz_map_le. intros u _. apply sumz_map_le. intros v _.
  pose proof (Hb v u). pose proof (Hb u v). lia.
Qed.

Definition closed_cut (g : wgraph) (f : fmap) : Prop :=
  forall u v, In u V -> In v V -> inS u = true -> 0 < residual_f g f u v -> inS v = true.

Theorem closed_cut_value : forall g f, feasible_flow V g s t f -> closed_cut g f ->
  flow_value V f t = cut_cap V g inS.
Proof.
  intros g f [Hb Hc] Hcl. rewrite (value_across_cut f Hc), cut_cap_swap.
  apply sumz_map_ext. intros u Hu. apply sumz_map_ext. intros v Hv.
  apply filter_In in Hu. destruct Hu as [HuV Hu]. apply filter_In in Hv. destruct Hv as [HvV Hv].
  pose proof (Hb v u). pose proof (Hb u v).
  destruct (Z_lt_le_dec 0 (residual_f g f v u)) as [Hpos|Hle].
  - rewrite (Hcl v u HvV HuV Hv Hpos) in Hu. discriminate.
  - unfold residual_f in Hle. lia.
Qed.

Theorem closed_cut_max : forall g f, feasible_flow V g s t f -> closed_cut g f -> is_max_flow V g s t f.
Proof.
  intros g f Hf Hcl. split; [exact Hf|]. intros f' Hf'.
  rewrite (closed_cut_value g f Hf Hcl). apply weak_duality_cut. exact Hf'.
Qed.

End Cut.

(* ---------------- soundness of the boolean checker ---------------- *)
Lemma memn_In : forall x l, memn x l = true <-> In x l.
Proof. intros. unfold memn. apply existsb_eqb_In. Qed.

Lemma nodes_of_NoDup : forall g s t, NoDup (nodes_of g s t).
Proof. intros. unfold nodes_of. apply NoDup_nodup. Qed.

Lemma nodes_of_s : forall g s t, In s (nodes_of g s t).
Proof. intros. unfold nodes_of. apply nodup_In. left. reflexivity. Qed.

Lemma nodes_of_t : forall g s t, In t (nodes_of g s t).
Proof. intros. unfold nodes_of. apply nodup_In. right. left. reflexivity. Qed.

Lemma nodes_of_arc : forall g s t u v c, In (u, v, c) g -> In u (nodes_of g s t) /\ In v (nodes_of g s t).
Proof.
  intros g s t u v c H. unfold nodes_of. split; apply nodup_In; right; right; apply in_flat_map;
    exists (u, v, c); (split; [exact H|]); simpl; auto.
Qed.

Lemma cap_of_nonzero' : forall (l : wgraph) u v, cap_of l u v <> 0 -> exists c, In (u, v, c) l.
Proof.
  induction l as [|[[a b] c] l IH]; intros u v H.
  - exfalso. apply H. reflexivity.
  - unfold cap_of in H. simpl in H. fold (cap_of l u v) in H.
    destruct (Nat.eqb a u && Nat.eqb b v) eqn:E.
    + apply andb_true_iff in E. destruct E as [E1 E2].
      apply Nat.eqb_eq in E1. apply Nat.eqb_eq in E2. subst. exists c. left. reflexivity.
    + destruct (IH u v) as [c' Hc']; [lia|]. exists c'. right. exact Hc'.
Qed.

Lemma cap_of_outside : forall g s t u v,
  ~ (In u (nodes_of g s t) /\ In v (nodes_of g s t)) -> cap_of g u v = 0.
Proof.
  intros g s t u v H. destruct (Z.eq_dec (cap_of g u v) 0) as [E|E]; [exact E|].
  exfalso. apply H. destruct (cap_of_nonzero' g u v E) as [c Hc]. apply (nodes_of_arc g s t u v c Hc).
Qed.

Lemma fmap_of_outside : forall sol nodes u v, keys_in_b sol nodes = true ->
  ~ (In u nodes /\ In v nodes) -> fmap_of sol u v = 0.
Proof.
  intros sol nodes u v Hk H. unfold fmap_of. apply sumz_map_zero. intros a Ha.
  unfold keys_in_b in Hk. rewrite forallb_forall in Hk. specialize (Hk a Ha).
  apply andb_true_iff in Hk. destruct Hk as [K1 K2]. apply memn_In in K1. apply memn_In in K2.
  destruct (Nat.eqb (fst (fst a)) u && Nat.eqb (snd (fst a)) v) eqn:E; [|reflexivity].
  apply andb_true_iff in E. destruct E as [E1 E2]. apply Nat.eqb_eq in E1. apply Nat.eqb_eq in E2.
  subst. exfalso. apply H. split; assumption.
Qed.

Theorem spec_check_sound : forall g s t sol obj, spec_check g s t sol obj = true -> Spec g s t sol obj.
Proof.
  intros g s t sol obj H. unfold spec_check in H.
  set (nodes := nodes_of g s t) in *. set (f := fmap_of sol) in *.
  set (S := reach g f nodes s) in *.
  repeat (apply andb_true_iff in H; destruct H as [H ?]).
  rename H into Hst, H0 into Hclosed, H1 into HtS, H2 into HsS, H3 into Hval, H4 into Hcons, H5 into Hbnd, H6 into Hkeys.
  apply negb_true_iff in Hst. apply Nat.eqb_neq in Hst.
  apply Z.eqb_eq in Hval. apply negb_true_iff in HtS.
  assert (Hfeas : feasible_flow nodes g s t f).
  { split.
    - intros u v.
      destruct (in_dec Nat.eq_dec u nodes) as [Hu|Hu]; [destruct (in_dec Nat.eq_dec v nodes) as [Hv|Hv]|].
      + unfold bounds_b in Hbnd. rewrite forallb_forall in Hbnd. specialize (Hbnd u Hu).
        rewrite forallb_forall in Hbnd. specialize (Hbnd v Hv).
        apply andb_true_iff in Hbnd. destruct Hbnd as [B1 B2].
        apply Z.leb_le in B1. apply Z.leb_le in B2. lia.
      + unfold f. rewrite (fmap_of_outside sol nodes u v Hkeys) by tauto.
        unfold nodes. rewrite (cap_of_outside g s t u v) by tauto. lia.
      + unfold f. rewrite (fmap_of_outside sol nodes u v Hkeys) by tauto.
        unfold nodes. rewrite (cap_of_outside g s t u v) by tauto. lia.
    - intros u Hu Hus Hut. unfold conserv_b in Hcons. rewrite forallb_forall in Hcons.
      specialize (Hcons u Hu). apply Nat.eqb_neq in Hus. apply Nat.eqb_neq in Hut.
      rewrite Hus, Hut in Hcons. simpl in Hcons. apply Z.eqb_eq in Hcons. exact Hcons. }
  assert (Hcl : closed_cut nodes (fun x => memn x S) g f).
  { intros u v Hu Hv HuS Hres. unfold closed_b in Hclosed. rewrite forallb_forall in Hclosed.
    specialize (Hclosed u Hu). rewrite HuS in Hclosed. simpl in Hclosed.
    rewrite forallb_forall in Hclosed. specialize (Hclosed v Hv).
    apply Z.ltb_lt in Hres. rewrite Hres in Hclosed. simpl in Hclosed. exact Hclosed. }
  split; [|split].
  - apply (closed_cut_max nodes s t (fun x => memn x S)); auto.
    + apply nodes_of_NoDup.
    + apply nodes_of_t.
  - exact Hval.
  - exists (fun x => memn x S). split; [exact HsS|]. split; [exact HtS|]. exact Hcl.
Qed.
