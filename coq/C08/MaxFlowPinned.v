(* The PINNED code (before commit f2b9028: no `capacity[v][u] += 0`) is not maximal on the witness
   s->a, s->b, a->c, a->d, b->c, c->t, d->t (all capacity 1): it returns 1, a feasible flow of value 2 exists. *)
From Coq Require Import List ZArith Bool Arith Lia.
Import ListNotations.
From SV Require Import C08.MaxFlow C08.MaxFlowSpec C08.MaxFlowDuality.
Open Scope Z_scope.

Definition better_flow : list (nat * nat * Z) :=
  [(0%nat, 1%nat, 1); (0%nat, 2%nat, 1); (1%nat, 4%nat, 1); (2%nat, 3%nat, 1); (3%nat, 5%nat, 1); (4%nat, 5%nat, 1)].

Lemma better_flow_ok :
  feasible_flow (nodes_of (arcs witness_graph) 0 5) (arcs witness_graph) 0 5 (fmap_of better_flow)
  /\ flow_value (nodes_of (arcs witness_graph) 0 5) (fmap_of better_flow) 5 = 2.
Proof.
  assert (H : spec_check (arcs witness_graph) 0 5 better_flow 2 = true) by (vm_compute; reflexivity).
  apply spec_check_sound in H. destruct H as [[Hf _] [Hv _]]. split; assumption.
Qed.

Theorem pinned_refuted :
  exists g s t r,
    valid_input g s t = true /\ max_flow_pinned g s t = Some r /\ objective r = 1
    /\ flow_value (nodes_of (arcs g) s t) (fmap_of (solution r)) t = 1
    /\ (exists f', feasible_flow (nodes_of (arcs g) s t) (arcs g) s t f'
                   /\ flow_value (nodes_of (arcs g) s t) f' t = 2)
    /\ ~ is_max_flow (nodes_of (arcs g) s t) (arcs g) s t (fmap_of (solution r)).
Proof.
  exists witness_graph, 0%nat, 5%nat.
  eexists. split; [vm_compute; reflexivity|]. split; [vm_compute; reflexivity|].
  split; [reflexivity|]. split; [vm_compute; reflexivity|].
  destruct better_flow_ok as [Hf Hv]. split.
  - exists (fmap_of better_flow). split; assumption.
  - intros [_ Hmax]. specialize (Hmax _ Hf). rewrite Hv in Hmax.
    assert (E : flow_value (nodes_of (arcs witness_graph) 0 5)
                  (fmap_of (solution {| solution := [(0%nat, 1%nat, 1); (1%nat, 3%nat, 1); (3%nat, 5%nat, 1)];
                                        objective := 1; iterations := 1 |})) 5 = 1) by (vm_compute; reflexivity).
    rewrite E in Hmax. lia.
Qed.
