(* Association-list dictionaries of the model: reads after writes, key sets, well-formedness,
   build_capacity computes the pooled capacities and (fixed code) registers both directions. *)
From Coq Require Import List ZArith Bool Arith Lia.
Import ListNotations.
From SV Require Import C08.MaxFlow C08.MaxFlowSpec C08.MaxFlowSums.
Open Scope Z_scope.

Lemma aget_aadd : forall m k d k',
  aget (aadd m k d) k' = aget m k' + (if Nat.eqb k' k then d else 0).
Proof.
  induction m as [|[k0 x] r IH]; intros k d k'; simpl.
  - destruct (Nat.eqb k' k); lia.
  - destruct (Nat.eqb k k0) eqn:E; simpl.
    + apply Nat.eqb_eq in E. subst k0. destruct (Nat.eqb k' k); lia.
    + destruct (Nat.eqb k' k0) eqn:E2.
      * apply Nat.eqb_eq in E2. subst k0. rewrite Nat.eqb_sym, E. lia.
      * apply IH.
Qed.

Lemma nget_add2 : forall m u v d u',
  nget (add2 m u v d) u' = if Nat.eqb u' u then aadd (nget m u) v d else nget m u'.
Proof.
  induction m as [|[u0 a] r IH]; intros u v d u'; simpl.
  - destruct (Nat.eqb u' u); reflexivity.
  - destruct (Nat.eqb u u0) eqn:E; simpl.
    + apply Nat.eqb_eq in E. subst u0. destruct (Nat.eqb u' u); reflexivity.
    + destruct (Nat.eqb u' u0) eqn:E2.
      * apply Nat.eqb_eq in E2. subst u0. rewrite Nat.eqb_sym, E. reflexivity.
      * apply IH.
Qed.

Lemma get2_add2 : forall m u v d u' v',
  get2 (add2 m u v d) u' v' = get2 m u' v' + (if Nat.eqb u' u && Nat.eqb v' v then d else 0).
Proof.
  intros. unfold get2. rewrite nget_add2.
  destruct (Nat.eqb u' u) eqn:E; simpl.
  - apply Nat.eqb_eq in E. subst u'. apply aget_aadd.
  - lia.
Qed.

(* ---------------- keys ---------------- *)
Lemma keys_aadd_in : forall a v d, In v (keys (aadd a v d)).
Proof.
  induction a as [|[k x] r IH]; intros v d; simpl; [left; reflexivity|].
  destruct (Nat.eqb v k) eqn:E; simpl.
  - left. apply Nat.eqb_eq in E. auto.
  - right. apply IH.
Qed.

Lemma keys_aadd_mono : forall a v d x, In x (keys a) -> In x (keys (aadd a v d)).
Proof.
  induction a as [|[k y] r IH]; intros v d x H; simpl in *; [contradiction|].
  destruct (Nat.eqb v k); simpl; destruct H as [H|H]; auto.
Qed.

Lemma keys_aadd_inv : forall a v d x, In x (keys (aadd a v d)) -> x = v \/ In x (keys a).
Proof.
  induction a as [|[k y] r IH]; intros v d x H; simpl in *.
  - destruct H as [H|[]]; auto.
  - destruct (Nat.eqb v k); simpl in H; destruct H as [H|H]; auto.
    destruct (IH _ _ _ H); auto.
Qed.

Lemma NoDup_keys_aadd : forall a v d, NoDup (keys a) -> NoDup (keys (aadd a v d)).
Proof.
  induction a as [|[k y] r IH]; intros v d H; simpl in *.
  - constructor; [intros [] | constructor].
  - inversion H as [|? ? Hk Hr]; subst.
    destruct (Nat.eqb v k) eqn:E; simpl.
    + constructor; assumption.
    + constructor; [|apply IH; exact Hr].
      intros Hin. apply keys_aadd_inv in Hin. destruct Hin as [->|Hin]; [|contradiction].
      rewrite Nat.eqb_refl in E. discriminate.
Qed.

Lemma aget_notin : forall a v, ~ In v (keys a) -> aget a v = 0.
Proof.
  induction a as [|[k y] r IH]; intros v H; simpl in *; [reflexivity|].
  destruct (Nat.eqb v k) eqn:E.
  - apply Nat.eqb_eq in E. subst. exfalso. apply H. left. reflexivity.
  - apply IH. intros Hin. apply H. right. exact Hin.
Qed.

Lemma nget_notin : forall m u, ~ In u (map fst m) -> nget m u = [].
Proof.
  induction m as [|[k a] r IH]; intros u H; simpl in *; [reflexivity|].
  destruct (Nat.eqb u k) eqn:E.
  - apply Nat.eqb_eq in E. subst. exfalso. apply H. left. reflexivity.
  - apply IH. intros Hin. apply H. right. exact Hin.
Qed.

Lemma nget_In : forall m u, nget m u = [] \/ In (u, nget m u) m.
Proof.
  induction m as [|[k a] r IH]; intros u; simpl; [left; reflexivity|].
  destruct (Nat.eqb u k) eqn:E.
  - apply Nat.eqb_eq in E. subst. right. left. reflexivity.
  - destruct (IH u); auto.
Qed.

(* ---------------- well-formed dictionaries: keys are unique ---------------- *)
Definition wf (m : nmap) : Prop :=
  NoDup (map fst m) /\ Forall (fun ua => NoDup (keys (snd ua))) m.

Lemma wf_nil : wf [].
Proof. split; constructor. Qed.

Lemma add2_outer_inv : forall m u v d x, In x (map fst (add2 m u v d)) -> x = u \/ In x (map fst m).
Proof.
  induction m as [|[k a] r IH]; intros u v d x H; simpl in *.
  - destruct H as [H|[]]; auto.
  - destruct (Nat.eqb u k); simpl in H; destruct H as [H|H]; auto.
    destruct (IH _ _ _ _ H); auto.
Qed.

Lemma wf_add2 : forall m u v d, wf m -> wf (add2 m u v d).
Proof.
  induction m as [|[k a] r IH]; intros u v d [H1 H2]; simpl in *.
  - split; simpl.
    + constructor; [intros []|constructor].
    + constructor; [|constructor]. simpl. constructor; [intros []|constructor].
  - inversion H1 as [|? ? Hk Hr]; subst. inversion H2 as [|? ? Ha Hr2]; subst.
    destruct (Nat.eqb u k) eqn:E; simpl.
    + split; simpl; [constructor; assumption|]. constructor; [|exact Hr2].
      simpl. apply NoDup_keys_aadd. exact Ha.
    + destruct (IH u v d (conj Hr Hr2)) as [I1 I2].
      split; simpl; [|constructor; assumption].
      constructor; [|exact I1].
      intros Hin. apply add2_outer_inv in Hin. destruct Hin as [->|Hin]; [|contradiction].
      rewrite Nat.eqb_refl in E. discriminate.
Qed.

(* ---------------- the returned dictionary as a function ---------------- *)
Definition sel (u v : nat) (a : nat * nat * Z) : Z :=
  if Nat.eqb (fst (fst a)) u && Nat.eqb (snd (fst a)) v then snd a else 0.

Lemma fmap_of_app : forall l1 l2 u v, fmap_of (l1 ++ l2) u v = fmap_of l1 u v + fmap_of l2 u v.
Proof. intros. unfold fmap_of. rewrite map_app, sumz_app. reflexivity. Qed.

Definition inner_extract (u0 : nat) (a : amap) : list (nat * nat * Z) :=
  flat_map (fun vx => if 0 <? snd vx then [(u0, fst vx, snd vx)] else []) a.

Lemma inner_extract_val : forall u0 a u v, NoDup (keys a) ->
  fmap_of (inner_extract u0 a) u v
  = if Nat.eqb u0 u then (if 0 <? aget a v then aget a v else 0) else 0.
Proof.
  induction a as [|[k x] r IH]; intros u v Hnd; simpl in *.
  - destruct (Nat.eqb u0 u); reflexivity.
  - inversion Hnd as [|? ? Hk Hr]; subst.
    unfold inner_extract in *. simpl. rewrite fmap_of_app. rewrite (IH u v Hr).
    destruct (Nat.eqb u0 u) eqn:E.
    + destruct (Nat.eqb v k) eqn:E2.
      * apply Nat.eqb_eq in E2. subst k. rewrite (aget_notin r v Hk). simpl.
        destruct (0 <? x) eqn:E3; unfold fmap_of; simpl; [|reflexivity].
        rewrite E, Nat.eqb_refl. simpl. lia.
      * destruct (0 <? x) eqn:E3; unfold fmap_of; simpl; [|reflexivity].
        rewrite E, (Nat.eqb_sym k v), E2. simpl. lia.
    + destruct (0 <? x); unfold fmap_of; simpl; [rewrite E; simpl|]; lia.
Qed.

Lemma extract_val : forall m u v, wf m ->
  fmap_of (extract m) u v = if 0 <? get2 m u v then get2 m u v else 0.
Proof.
  induction m as [|[k a] r IH]; intros u v [H1 H2]; simpl in *.
  - reflexivity.
  - inversion H1 as [|? ? Hk Hr]; subst. inversion H2 as [|? ? Ha Hr2]; subst. simpl in Ha.
    unfold extract in *. simpl. rewrite fmap_of_app.
    change (flat_map (fun vx : nat * Z => if 0 <? snd vx then [(k, fst vx, snd vx)] else []) a)
      with (inner_extract k a).
    rewrite (inner_extract_val k a u v Ha). rewrite (IH u v (conj Hr Hr2)).
    unfold get2. simpl. rewrite (Nat.eqb_sym u k).
    destruct (Nat.eqb k u) eqn:E.
    + apply Nat.eqb_eq in E. subst k. rewrite (nget_notin r u Hk). simpl. lia.
    + lia.
Qed.

Lemma extract_fmap : forall m, wf m -> (forall u v, 0 <= get2 m u v) ->
  forall u v, fmap_of (extract m) u v = get2 m u v.
Proof.
  intros m Hwf Hpos u v. rewrite (extract_val m u v Hwf).
  specialize (Hpos u v). destruct (0 <? get2 m u v) eqn:E; [reflexivity|].
  apply Z.ltb_ge in E. lia.
Qed.

(* ---------------- build_capacity ---------------- *)
Lemma cap_of_cons : forall a l u v,
  cap_of (a :: l) u v = (if Nat.eqb (fst (fst a)) u && Nat.eqb (snd (fst a)) v then snd a else 0) + cap_of l u v.
Proof. reflexivity. Qed.

Lemma cap_step_get2 : forall fx m a u v,
  get2 (cap_step fx m a) u v
  = get2 m u v + (if Nat.eqb (fst (fst a)) u && Nat.eqb (snd (fst a)) v then snd a else 0).
Proof.
  intros fx m [[a b] c] u v. unfold cap_step. simpl.
  destruct fx; [rewrite get2_add2|]; rewrite get2_add2;
    rewrite (Nat.eqb_sym u a), (Nat.eqb_sym v b).
  - destruct (Nat.eqb u b && Nat.eqb v a); lia.
  - reflexivity.
Qed.

Lemma fold_cap_get2 : forall fx l m u v,
  get2 (fold_left (cap_step fx) l m) u v = get2 m u v + cap_of l u v.
Proof.
  induction l as [|a l IH]; intros m u v; simpl.
  - unfold cap_of. simpl. lia.
  - rewrite IH, cap_step_get2, cap_of_cons. lia.
Qed.

Lemma build_capacity_get2 : forall fx g u v, get2 (build_capacity fx g) u v = cap_of (arcs g) u v.
Proof. intros. unfold build_capacity. rewrite fold_cap_get2. reflexivity. Qed.

Lemma cap_step_keys_mono : forall fx m a u x,
  In x (keys (nget m u)) -> In x (keys (nget (cap_step fx m a) u)).
Proof.
  intros fx m [[a b] c] u x H. unfold cap_step.
  assert (H1 : In x (keys (nget (add2 m a b c) u))).
  { rewrite nget_add2. destruct (Nat.eqb u a) eqn:E; [|exact H].
    apply Nat.eqb_eq in E. subst. apply keys_aadd_mono. exact H. }
  destruct fx; [|exact H1].
  rewrite nget_add2. destruct (Nat.eqb u b) eqn:E; [|exact H1].
  apply Nat.eqb_eq in E. subst. apply keys_aadd_mono. exact H1.
Qed.

Lemma fold_cap_keys_mono : forall fx l m u x,
  In x (keys (nget m u)) -> In x (keys (nget (fold_left (cap_step fx) l m) u)).
Proof.
  induction l as [|a l IH]; intros m u x H; simpl; [exact H|].
  apply IH. apply cap_step_keys_mono. exact H.
Qed.

Lemma cap_step_registers : forall m a b c,
  In b (keys (nget (cap_step true m (a, b, c)) a)) /\ In a (keys (nget (cap_step true m (a, b, c)) b)).
Proof.
  intros m a b c. unfold cap_step. split.
  - rewrite nget_add2. destruct (Nat.eqb a b) eqn:E.
    + apply Nat.eqb_eq in E. subst b. apply keys_aadd_in.
    + rewrite nget_add2, Nat.eqb_refl. apply keys_aadd_in.
  - rewrite nget_add2, Nat.eqb_refl. apply keys_aadd_in.
Qed.

(* the point of commit f2b9028: both end points of every input arc see each other in `capacity` *)
Lemma fold_cap_registers : forall l m a b c, In (a, b, c) l ->
  In b (keys (nget (fold_left (cap_step true) l m) a)) /\ In a (keys (nget (fold_left (cap_step true) l m) b)).
Proof.
  induction l as [|x l IH]; intros m a b c H; simpl in *; [contradiction|].
  destruct H as [->|H]; [|apply (IH _ _ _ _ H)].
  destruct (cap_step_registers m a b c) as [H1 H2].
  split; apply fold_cap_keys_mono; assumption.
Qed.

Lemma build_registers : forall g a b c, In (a, b, c) (arcs g) ->
  In b (keys (nget (build_capacity true g) a)) /\ In a (keys (nget (build_capacity true g) b)).
Proof. intros. unfold build_capacity. apply (fold_cap_registers _ _ _ _ c). assumption. Qed.

(* a non-zero pooled capacity comes from an input arc *)
Lemma cap_of_nonzero : forall l u v, cap_of l u v <> 0 -> exists c, In (u, v, c) l.
Proof.
  induction l as [|[[a b] c] l IH]; intros u v H.
  - exfalso. apply H. reflexivity.
  - rewrite cap_of_cons in H. simpl in H.
    destruct (Nat.eqb a u && Nat.eqb b v) eqn:E.
    + apply andb_true_iff in E. destruct E as [E1 E2].
      apply Nat.eqb_eq in E1. apply Nat.eqb_eq in E2. subst. exists c. left. reflexivity.
    + destruct (IH u v) as [c' Hc']; [lia|]. exists c'. right. exact Hc'.
Qed.

Lemma cap_of_nonneg : forall l u v, (forall a, In a l -> 0 <= snd a) -> 0 <= cap_of l u v.
Proof.
  intros l u v H. unfold cap_of. apply sumz_map_nonneg. intros a Ha.
  specialize (H a Ha). destruct (Nat.eqb (fst (fst a)) u && Nat.eqb (snd (fst a)) v); lia.
Qed.

(* neighbours live in the universe used for the BFS fuel *)
Lemma keys_in_universe : forall cap s u x, In x (keys (nget cap u)) -> In x (universe cap s).
Proof.
  intros cap s u x H. unfold universe. right. apply in_or_app. right.
  destruct (nget_In cap u) as [E|E]; [rewrite E in H; contradiction|].
  apply in_flat_map. exists (u, nget cap u). split; [exact E | exact H].
Qed.
