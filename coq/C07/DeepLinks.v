(* POINTER-LEVEL model of solvor/dlx.py (_build_links, _cover, _uncover, search).  Definitions only.

   Nodes are natural-number ids; every Python attribute is one finite map `id -> nat` stored as a `list nat`
   indexed by the id (`get` = nth, `set` = pointwise update; out-of-range update = no-op):
       left / right / up / down           -> fL fR fU fD     (object identity `a is b` -> a =? b on ids)
       node.column                        -> fC              (id of the column header)
       node.row                           -> fRow
       column.size                        -> fS              (meaningful at header ids only)
   Ids:  0 = root, 1 = secondary_root, 2+i = col_headers[i], then one fresh id per `_Node(column=col, row=row_idx)`
   in creation order (a fresh node points to itself in all four directions: __post_init__).
   Every `while x is not y` loop is a structurally recursive walk with explicit fuel = number of allocated ids + 1;
   exhaustion = None (-> OutOfFuel), proved impossible under the representation invariant in DeepSearch*.v.
   The statements inside the loops are transcribed one assignment at a time IN THE ORDER OF THE CODE (the right-hand
   sides are read from the state produced by the previous assignment).
   Counters, limits, result construction: shared with the functional model SV.C07.Dlx (sst, ms_hit, finish ...). *)
From Coq Require Import List Arith Bool ZArith.
From SV Require Import Common.Corr C07.Dlx.
Import ListNotations.

Definition get (l : list nat) (i : nat) : nat := nth i l 0.
Fixpoint set (l : list nat) (i v : nat) : list nat :=
  match l, i with
  | [], _ => []
  | _ :: t, 0 => v :: t
  | x :: t, S i' => x :: set t i' v
  end.

Record lst := { fL : list nat; fR : list nat; fU : list nat; fD : list nat;
                fC : list nat; fRow : list nat; fS : list nat }.

Definition setL (s : lst) (i v : nat) : lst :=
  {| fL := set (fL s) i v; fR := fR s; fU := fU s; fD := fD s; fC := fC s; fRow := fRow s; fS := fS s |}.
Definition setR (s : lst) (i v : nat) : lst :=
  {| fL := fL s; fR := set (fR s) i v; fU := fU s; fD := fD s; fC := fC s; fRow := fRow s; fS := fS s |}.
Definition setU (s : lst) (i v : nat) : lst :=
  {| fL := fL s; fR := fR s; fU := set (fU s) i v; fD := fD s; fC := fC s; fRow := fRow s; fS := fS s |}.
Definition setD (s : lst) (i v : nat) : lst :=
  {| fL := fL s; fR := fR s; fU := fU s; fD := set (fD s) i v; fC := fC s; fRow := fRow s; fS := fS s |}.
Definition setS (s : lst) (i v : nat) : lst :=
  {| fL := fL s; fR := fR s; fU := fU s; fD := fD s; fC := fC s; fRow := fRow s; fS := set (fS s) i v |}.

Definition left (s : lst) (i : nat) := get (fL s) i.
Definition right (s : lst) (i : nat) := get (fR s) i.
Definition up (s : lst) (i : nat) := get (fU s) i.
Definition down (s : lst) (i : nat) := get (fD s) i.
Definition column (s : lst) (i : nat) := get (fC s) i.
Definition row_id (s : lst) (i : nat) := get (fRow s) i.
Definition csize (s : lst) (i : nat) := get (fS s) i.

Definition ROOT : nat := 0.
Definition SROOT : nat := 1.
Definition hdr (i : nat) : nat := 2 + i.
Definition n_ids (s : lst) : nat := length (fL s).
Definition loop_fuel (s : lst) : nat := S (n_ids s).

(* ---------------------------------------------------------------- _build_links *)
(* root = _Node(); secondary_root = _Node(); col = _Column(name) for every name: all self-linked, size 0 *)
Definition init_links (nh : nat) : lst :=
  let n := 2 + nh in
  {| fL := seq 0 n; fR := seq 0 n; fU := seq 0 n; fD := seq 0 n; fC := seq 0 n;
     fRow := repeat 0 n; fS := repeat 0 n |}.

(* for idx, name in enumerate(col_names): if <sel idx>: col.left = prev; prev.right = col; prev = col *)
Fixpoint link_headers (sel : nat -> bool) (idxs : list nat) (prev : nat) (s : lst) : nat * lst :=
  match idxs with
  | [] => (prev, s)
  | i :: t =>
      if sel i then
        let col := hdr i in
        let s1 := setL s col prev in
        let s2 := setR s1 prev col in
        link_headers sel t col s2
      else link_headers sel t prev s
  end.
(* prev.right = root; root.left = prev *)
Definition close_ring (root : nat) (p : nat * lst) : lst :=
  let (prev, s) := p in setL (setR s prev root) root prev.

(* node = _Node(column=col, row=row_idx) *)
Definition alloc (s : lst) (col row_idx : nat) : nat * lst :=
  let id := n_ids s in
  (id, {| fL := fL s ++ [id]; fR := fR s ++ [id]; fU := fU s ++ [id]; fD := fD s ++ [id];
          fC := fC s ++ [col]; fRow := fRow s ++ [row_idx]; fS := fS s ++ [0] |}).

(* for col_idx, val in enumerate(row): ...   fp = (first, prev_node), None while first is None.
   None = IndexError raised by col_headers[col_idx] (nh = len(col_headers)) *)
Fixpoint build_row (nh row_idx : nat) (j : nat) (r : list bool) (fp : option (nat * nat)) (s : lst)
  : option (option (nat * nat) * lst) :=
  match r with
  | [] => Some (fp, s)
  | val :: t =>
      if val then
        if j <? nh then
          let col := hdr j in
          let (node, s0) := alloc s col row_idx in
          let s1 := setU s0 node (up s0 col) in            (* node.up = col.up *)
          let s2 := setD s1 node col in                    (* node.down = col *)
          let s3 := setD s2 (up s2 col) node in            (* col.up.down = node *)
          let s4 := setU s3 col node in                    (* col.up = node *)
          let s5 := setS s4 col (csize s4 col + 1) in      (* col.size += 1 *)
          match fp with
          | None => build_row nh row_idx (S j) t (Some (node, node)) s5
          | Some (first, prev) =>
              let s6 := setL s5 node prev in               (* node.left = prev_node *)
              let s7 := setR s6 prev node in               (* prev_node.right = node *)
              build_row nh row_idx (S j) t (Some (first, node)) s7
          end
        else None
      else build_row nh row_idx (S j) t fp s
  end.

(* for row_idx, row in enumerate(matrix): ...; if first is not None: first.left = prev_node; prev_node.right = first *)
Fixpoint build_rows (nh : nat) (i : nat) (m : list (list bool)) (s : lst) : option lst :=
  match m with
  | [] => Some s
  | r :: t =>
      match build_row nh i 0 r None s with
      | None => None
      | Some (None, s1) => build_rows nh (S i) t s1
      | Some (Some (first, prev), s1) =>
          let s2 := setL s1 first prev in
          let s3 := setR s2 prev first in
          build_rows nh (S i) t s3
      end
  end.

(* the non-degenerate part of _build_links; None = IndexError *)
Definition build_links (inp : input) : option lst :=
  let nh := length (col_names inp) in
  let idxs := seq 0 nh in
  let s0 := init_links nh in
  let s1 := close_ring ROOT (link_headers (fun i => negb (is_secondary inp i)) idxs ROOT s0) in
  let s2 := close_ring SROOT (link_headers (fun i => is_secondary inp i) idxs SROOT s1) in
  build_rows nh 0 (matrix inp) s2.

(* ---------------------------------------------------------------- loops *)
(* x = start; while x is not stop: <body x>; x = next(x)      (next is read in the state AFTER the body) *)
Fixpoint walk {A : Type} (fuel : nat) (next : A -> nat -> nat) (stop : nat) (body : nat -> A -> option A)
         (x : nat) (a : A) : option A :=
  match fuel with
  | 0 => None
  | S f =>
      if x =? stop then Some a
      else match body x a with
           | None => None
           | Some a' => walk f next stop body (next a' x) a'
           end
  end.

(* ---------------------------------------------------------------- _cover / _uncover *)
(* row_node.down.up = row_node.up; row_node.up.down = row_node.down; row_node.column.size -= 1 *)
Definition unlink_v (rn : nat) (s : lst) : lst :=
  let s1 := setU s (down s rn) (up s rn) in
  let s2 := setD s1 (up s1 rn) (down s1 rn) in
  let c := column s2 rn in
  setS s2 c (csize s2 c - 1).

(* row_node.column.size += 1; row_node.down.up = row_node; row_node.up.down = row_node *)
Definition relink_v (rn : nat) (s : lst) : lst :=
  let c := column s rn in
  let s1 := setS s c (csize s c + 1) in
  let s2 := setU s1 (down s1 rn) rn in
  setD s2 (up s2 rn) rn.

(* col.right.left = col.left; col.left.right = col.right *)
Definition unlink_h (col : nat) (s : lst) : lst :=
  let s1 := setL s (right s col) (left s col) in
  setR s1 (left s1 col) (right s1 col).
(* col.right.left = col; col.left.right = col *)
Definition relink_h (col : nat) (s : lst) : lst :=
  let s1 := setL s (right s col) col in
  setR s1 (left s1 col) col.

Definition cover (col : nat) (s : lst) : option lst :=
  let s1 := unlink_h col s in
  walk (loop_fuel s1) down col                       (* node = col.down; while node is not col: ...; node = node.down *)
       (fun node s2 =>
          walk (loop_fuel s2) right node             (* row_node = node.right; while row_node is not node: ... .right *)
               (fun rn s3 => Some (unlink_v rn s3))
               (right s2 node) s2)
       (down s1 col) s1.

Definition uncover (col : nat) (s : lst) : option lst :=
  match
    walk (loop_fuel s) up col                        (* node = col.up; while node is not col: ...; node = node.up *)
         (fun node s2 =>
            walk (loop_fuel s2) left node            (* row_node = node.left; while row_node is not node: ... .left *)
                 (fun rn s3 => Some (relink_v rn s3))
                 (left s2 node) s2)
         (up s col) s
  with
  | None => None
  | Some s1 => Some (relink_h col s1)
  end.

(* ---------------------------------------------------------------- search *)
(* col = root.right; while col is not root: if col.size < min_size: ...; if min_size == 0: break; col = col.right
   (min_size = inf <-> best = None) *)
Fixpoint pchoose (fuel : nat) (s : lst) (col : nat) (best : option (nat * nat)) : option (option (nat * nat)) :=
  match fuel with
  | 0 => None
  | S f =>
      if col =? ROOT then Some best
      else
        let sz := csize s col in
        let better := match best with None => true | Some (_, bs) => sz <? bs end in
        if better then (if sz =? 0 then Some (Some (col, sz)) else pchoose f s (right s col) (Some (col, sz)))
        else pchoose f s (right s col) best
  end.

Section PSearch.
  Variable fa : bool.
  Variable ms : option Z.
  Variable mi : Z.

  (* node = row_node.right; while node is not row_node: _cover(node.column); covers += 1; node = node.right *)
  Definition cover_others (rn : nat) (p : lst * sst) : option (lst * sst) :=
    walk (loop_fuel (fst p)) (fun q => right (fst q)) rn
         (fun node q => match cover (column (fst q) node) (fst q) with
                        | None => None
                        | Some s' => Some (s', bump_cover 1 (snd q))
                        end)
         (right (fst p) rn) p.
  (* node = row_node.left; while node is not row_node: _uncover(node.column); node = node.left *)
  Definition uncover_others (rn : nat) (s : lst) : option lst :=
    walk (loop_fuel s) left rn (fun node s' => uncover (column s' node) s') (left s rn) s.

  (* row_node = min_col.down; while row_node is not min_col: ...; row_node = row_node.down;  _uncover(min_col); return False *)
  Fixpoint ptry_rows (rec : lst -> list nat -> sst -> option (bool * sst * lst))
           (lf : nat) (mc rn : nat) (s : lst) (cur : list nat) (st : sst) : option (bool * sst * lst) :=
    match lf with
    | 0 => None
    | S lf' =>
        if rn =? mc then
          match uncover mc s with None => None | Some s' => Some (false, st, s') end
        else
          let cur1 := row_id s rn :: cur in                                  (* current.append(row_node.row) *)
          match cover_others rn (s, st) with
          | None => None
          | Some (s1, st1) =>
              match rec s1 cur1 st1 with
              | None => None
              | Some (b, st2, s2) =>
                  let continue :=                                             (* current.pop(); uncover ...; next row *)
                    match uncover_others rn s2 with
                    | None => None
                    | Some s3 => ptry_rows rec lf' mc (down s3 rn) s3 cur st2
                    end in
                  if b then
                    if negb fa then Some (true, st2, s2)
                    else if ms_hit ms (length (sols st2)) then Some (true, st2, s2)
                    else continue
                  else continue
              end
          end
    end.

  Fixpoint psearch (fuel : nat) (s : lst) (cur : list nat) (st : sst) : option (bool * sst * lst) :=
    match fuel with
    | 0 => None
    | S f =>
        let st1 := bump_iter st in
        if (mi <? Z.of_nat (iters st1))%Z then Some (false, st1, s)
        else if right s ROOT =? ROOT then                                     (* root.right is root *)
          let st2 := add_sol (rev cur) st1 in
          if negb fa then Some (true, st2, s)
          else if ms_hit ms (length (sols st2)) then Some (true, st2, s)
          else Some (false, st2, s)
        else
          match pchoose (loop_fuel s) s (right s ROOT) None with
          | None => None
          | Some None => Some (false, st1, s)
          | Some (Some (mc, sz)) =>
              if sz =? 0 then Some (false, st1, s)
              else
                match cover mc s with                                         (* _cover(min_col); covers += 1 *)
                | None => None
                | Some s1 => ptry_rows (psearch f) (loop_fuel s1) mc (down s1 mc) s1 cur (bump_cover 1 st1)
                end
          end
    end.
End PSearch.

Definition psolve (inp : input) : outcome :=
  if degenerate inp then Done (degenerate_result (find_all inp) (max_solutions inp))
  else
    match build_links inp with
    | None => IndexError
    | Some s =>
        match psearch (find_all inp) (max_solutions inp) (max_iter inp) (fuel_of inp) s [] init_st with
        | None => OutOfFuel
        | Some (_, st, _) => Done (finish (find_all inp) (max_solutions inp) (max_iter inp) st)
        end
    end.

(* what the harness evaluates: the pointer model equals the implementation's observable AND the functional model *)
Definition deep_corr (c : input * outcome) : bool :=
  outcome_eqb (psolve (fst c)) (snd c) && outcome_eqb (psolve (fst c)) (solve (fst c)).
