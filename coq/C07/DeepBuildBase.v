(* Lemmas for _build_links: open chains (a ring under construction), inserting a node at the end of a ring, and the
   field maps after `alloc` and the setters. *)
From Coq Require Import List Arith Bool Lia.
From SV Require Import C07.Dlx C07.DeepLinks C07.DeepBase C07.DeepOps C07.DeepVert.
Import ListNotations.

(* ---------------------------------------------------------------- open chains *)
Fixpoint path (f : nat -> nat) (a : nat) (l : list nat) : Prop :=
  match l with [] => True | x :: t => f a = x /\ path f x t end.
Fixpoint bpath (g : nat -> nat) (a : nat) (l : list nat) : Prop :=
  match l with [] => True | x :: t => g x = a /\ bpath g x t end.

Lemma last_cons {A} (x : A) t a : last (x :: t) a = last t x.
Proof.
  revert x a. induction t as [|y t IH]; intros x a; [reflexivity|].
  change (last (y :: t) a = last (y :: t) x). rewrite (IH y a), (IH y x). reflexivity.
Qed.

Lemma chain_of_path f : forall l a b, path f a l -> f (last l a) = b -> chain f a l b.
Proof.
  induction l as [|x t IH]; intros a b Hp Hl; [exact Hl|].
  cbn [path] in Hp. destruct Hp as [H1 H2]. cbn [chain]. split; [exact H1|].
  apply IH; [exact H2|]. rewrite <- (last_cons x t a). exact Hl.
Qed.

Lemma path_of_chain f : forall l a b, chain f a l b -> path f a l /\ f (last l a) = b.
Proof.
  induction l as [|x t IH]; intros a b H; [split; [exact I | exact H]|].
  cbn [chain] in H. destruct H as [H1 H2]. destruct (IH x b H2) as [A B]. split; [cbn [path]; auto|].
  rewrite (last_cons x t a). exact B.
Qed.

Lemma rchain_of_bpath g : forall l a e, bpath g a l -> g e = last l a -> chain g e (rev l) a.
Proof.
  induction l as [|x t IH]; intros a e Hb He; [exact He|].
  cbn [bpath] in Hb. destruct Hb as [H1 H2]. cbn [rev]. apply chain_snoc. split; [|exact H1].
  apply IH; [exact H2|]. rewrite He. apply last_cons.
Qed.

Lemma path_ext f f' : forall l a, (forall y, In y (a :: l) -> f' y = f y) -> path f a l -> path f' a l.
Proof.
  induction l as [|x t IH]; intros a He H; simpl in *; [exact I|].
  destruct H as [H1 H2]. split; [rewrite He; auto|]. apply IH; [|exact H2]. intros y Hy. apply He. right. exact Hy.
Qed.

Lemma bpath_ext g g' : forall l a, (forall y, In y l -> g' y = g y) -> bpath g a l -> bpath g' a l.
Proof.
  induction l as [|x t IH]; intros a He H; simpl in *; [exact I|].
  destruct H as [H1 H2]. split; [rewrite He; auto|]. apply IH; [|exact H2]. intros y Hy. apply He. right. exact Hy.
Qed.

(* all sources of a path except the last element *)
Lemma path_snoc f f' : forall l a x,
  path f a l -> NoDup (a :: l) ->
  (forall y, y <> last l a -> f' y = f y) -> f' (last l a) = x ->
  path f' a (l ++ [x]).
Proof.
  induction l as [|z t IH]; intros a x Hp Hnd Hoth Hat.
  - simpl in *. split; [exact Hat | exact I].
  - cbn [path] in Hp. destruct Hp as [H1 H2].
    assert (Hna : ~ In a (z :: t)) by (inversion Hnd; assumption).
    assert (Hnd' : NoDup (z :: t)) by (inversion Hnd; assumption).
    rewrite (last_cons z t a) in Hoth, Hat.
    change (path f' a (z :: (t ++ [x]))). cbn [path]. split.
    + rewrite Hoth; [exact H1|]. intros E. apply Hna. rewrite E. rewrite <- (last_cons z t z). apply last_cons_in.
    + apply IH; auto.
Qed.

Lemma bpath_snoc g g' : forall l a x,
  bpath g a l -> ~ In x l ->
  (forall y, y <> x -> g' y = g y) -> g' x = last l a ->
  bpath g' a (l ++ [x]).
Proof.
  induction l as [|z t IH]; intros a x Hp Hx Hoth Hat.
  - simpl in *. split; [exact Hat | exact I].
  - cbn [bpath] in Hp. destruct Hp as [H1 H2].
    change (bpath g' a (z :: (t ++ [x]))). cbn [bpath]. split.
    + rewrite Hoth; [exact H1|]. intros E. apply Hx. left. exact E.
    + apply IH; auto.
      * intros K. apply Hx. right. exact K.
      * rewrite Hat. apply last_cons.
Qed.

Lemma path_redirect f x : forall l a e,
  path f a l -> NoDup (a :: l) -> e = last l a ->
  path (fun y => if y =? e then x else f y) a l.
Proof.
  induction l as [|z t IH]; intros a e Hp Hnd He; [exact I|].
  cbn [path] in Hp. destruct Hp as [A B]. cbn [path].
  assert (Hna : ~ In a (z :: t)) by (inversion Hnd; assumption).
  rewrite (last_cons z t a) in He.
  split.
  - assert (a <> e) by (intros E; apply Hna; rewrite E, He; rewrite <- (last_cons z t z); apply last_cons_in).
    apply Nat.eqb_neq in H. rewrite H. exact A.
  - apply IH; [exact B | inversion Hnd; assumption | exact He].
Qed.

(* appending x at the end of a closed ring (just before the head h) *)
Lemma dring_insert_last f g f' g' h l x :
  dring f g h l -> NoDup (h :: l) -> ~ In x (h :: l) ->
  (forall y, f' y = if y =? x then h else if y =? g h then x else f y) ->
  (forall y, g' y = if y =? x then g h else if y =? h then x else g y) ->
  dring f' g' h (l ++ [x]).
Proof.
  intros [H1 H2] Hnd Hx Hf Hg.
  assert (Egh : g h = last l h) by (apply chain_hd in H2; rewrite hd_rev in H2; exact H2).
  assert (Hlast : In (last l h) (h :: l)) by apply last_in.
  assert (Hxl : x <> last l h) by (intros E; apply Hx; rewrite E; exact Hlast).
  split.
  - apply chain_snoc. split.
    + apply path_of_chain in H1. destruct H1 as [Hp _]. apply chain_of_path.
      * apply path_ext with (f := fun y => if y =? last l h then x else f y).
        { intros y Hy. rewrite Hf. assert (y <> x) by (intros ->; contradiction).
          apply Nat.eqb_neq in H. rewrite H, Egh. reflexivity. }
        apply path_redirect; [exact Hp | exact Hnd | reflexivity].
      * rewrite Hf. assert (last l h <> x) by congruence. apply Nat.eqb_neq in H. rewrite H, Egh, Nat.eqb_refl. reflexivity.
    + rewrite Hf, Nat.eqb_refl. reflexivity.
  - rewrite rev_app_distr. simpl. split.
    + rewrite Hg. assert (h <> x) by (intros ->; apply Hx; left; reflexivity).
      apply Nat.eqb_neq in H. rewrite H, Nat.eqb_refl. reflexivity.
    + assert (Hgx : g' x = g h) by (rewrite Hg, Nat.eqb_refl; reflexivity).
      assert (Hext : forall y, In y (rev l) -> g' y = g y).
      { intros y Hy. apply in_rev in Hy. rewrite Hg.
        assert (y <> x) by (intros ->; apply Hx; right; exact Hy).
        assert (y <> h) by (intros ->; inversion Hnd; contradiction).
        apply Nat.eqb_neq in H, H0. rewrite H, H0. reflexivity. }
      destruct (rev l) as [|z t] eqn:Er; simpl in *.
      * rewrite Hgx. exact H2.
      * destruct H2 as [A B]. split; [rewrite Hgx; exact A|].
        apply chain_ext with (f := g); [|exact B]. intros y Hy. apply Hext. exact Hy.
Qed.

(* ---------------------------------------------------------------- field maps after the primitive operations *)
Lemma get_app_last l v z : get (l ++ [v]) z = if z =? length l then v else get l z.
Proof.
  unfold get. destruct (z =? length l) eqn:E.
  - apply Nat.eqb_eq in E. subst. rewrite app_nth2 by lia. rewrite Nat.sub_diag. reflexivity.
  - apply Nat.eqb_neq in E. destruct (Nat.lt_ge_cases z (length l)).
    + apply app_nth1. exact H.
    + rewrite !nth_overflow; [reflexivity | lia | rewrite app_length; simpl; lia].
Qed.

Lemma lens_setL s N i v : lens s N -> lens (setL s i v) N.
Proof. unfold lens; simpl; rewrite set_length; tauto. Qed.
Lemma lens_setR s N i v : lens s N -> lens (setR s i v) N.
Proof. unfold lens; simpl; rewrite set_length; tauto. Qed.
Lemma lens_setU s N i v : lens s N -> lens (setU s i v) N.
Proof. unfold lens; simpl; rewrite set_length; tauto. Qed.
Lemma lens_setD s N i v : lens s N -> lens (setD s i v) N.
Proof. unfold lens; simpl; rewrite set_length; tauto. Qed.
Lemma lens_setS s N i v : lens s N -> lens (setS s i v) N.
Proof. unfold lens; simpl; rewrite set_length; tauto. Qed.

Lemma left_setL s N i v k : lens s N -> i < N -> left (setL s i v) k = if k =? i then v else left s k.
Proof. intros H Hi. unfold left; simpl. apply get_set. destruct H as [A _]. lia. Qed.
Lemma right_setR s N i v k : lens s N -> i < N -> right (setR s i v) k = if k =? i then v else right s k.
Proof. intros H Hi. unfold right; simpl. apply get_set. destruct H as [_ [A _]]. lia. Qed.
Lemma up_setU s N i v k : lens s N -> i < N -> up (setU s i v) k = if k =? i then v else up s k.
Proof. intros H Hi. unfold up; simpl. apply get_set. destruct H as [_ [_ [A _]]]. lia. Qed.
Lemma down_setD s N i v k : lens s N -> i < N -> down (setD s i v) k = if k =? i then v else down s k.
Proof. intros H Hi. unfold down; simpl. apply get_set. destruct H as [_ [_ [_ [A _]]]]. lia. Qed.
Lemma csize_setS s N i v k : lens s N -> i < N -> csize (setS s i v) k = if k =? i then v else csize s k.
Proof. intros H Hi. unfold csize; simpl. apply get_set. destruct H as [_ [_ [_ [_ [_ [_ A]]]]]]. lia. Qed.

Lemma alloc_fields s N col r : lens s N ->
  let s' := snd (alloc s col r) in
  fst (alloc s col r) = N /\ lens s' (S N)
  /\ (forall z, left s' z = if z =? N then N else left s z)
  /\ (forall z, right s' z = if z =? N then N else right s z)
  /\ (forall z, up s' z = if z =? N then N else up s z)
  /\ (forall z, down s' z = if z =? N then N else down s z)
  /\ (forall z, column s' z = if z =? N then col else column s z)
  /\ (forall z, row_id s' z = if z =? N then r else row_id s z)
  /\ (forall z, csize s' z = if z =? N then 0 else csize s z).
Proof.
  intros [A [B [C [D [E [F G]]]]]]. unfold alloc, n_ids. simpl. rewrite A.
  split; [reflexivity|]. split.
  - unfold lens; simpl. rewrite !app_length. simpl. repeat split; lia.
  - unfold left, right, up, down, column, row_id, csize; simpl.
    repeat split; intros z; rewrite get_app_last; [rewrite A | rewrite B | rewrite C | rewrite D | rewrite E | rewrite F | rewrite G]; reflexivity.
Qed.
