(* Proofs, part 1: the pure enumeration `all_sols` that search() walks (no counters, no limits), and its
   meaning: it lists exactly the covers of the sub-problem (active primary columns, active rows), each once. *)
From Coq Require Import List Arith Bool Lia Permutation.
From SV Require Import C07.Dlx C07.DlxSpec.
Import ListNotations.

(* ------------------------------------------------------------------ pairwise *)
Fixpoint pairwise {A} (R : A -> A -> Prop) (l : list A) : Prop :=
  match l with
  | [] => True
  | x :: t => Forall (R x) t /\ pairwise R t
  end.

Lemma pairwise_app {A} (R : A -> A -> Prop) l1 l2 :
  pairwise R (l1 ++ l2) <->
  pairwise R l1 /\ pairwise R l2 /\ (forall a b, In a l1 -> In b l2 -> R a b).
Proof.
  induction l1 as [|x t IH]; simpl.
  - split; [intros H; repeat split; [exact H | intros a b []] | intros [_ [H _]]; exact H].
  - rewrite Forall_app, IH. split.
    + intros [[F1 F2] [P1 [P2 C]]]. repeat split; try assumption.
      intros a b [Ha|Ha] Hb; [subst; rewrite Forall_forall in F2; apply F2; exact Hb | apply C; assumption].
    + intros [[F1 P1] [P2 C]]. repeat split; try assumption.
      * apply Forall_forall. intros b Hb. apply C; [left; reflexivity | exact Hb].
      * intros a b Ha Hb. apply C; [right; exact Ha | exact Hb].
Qed.

Lemma pairwise_map {A B} (R : B -> B -> Prop) (f : A -> B) l :
  pairwise R (map f l) <-> pairwise (fun a b => R (f a) (f b)) l.
Proof.
  induction l as [|x t IH]; simpl; [tauto|].
  rewrite IH, Forall_map. tauto.
Qed.

Lemma pairwise_impl {A} (R Q : A -> A -> Prop) l :
  (forall a b, In a l -> In b l -> R a b -> Q a b) -> pairwise R l -> pairwise Q l.
Proof.
  induction l as [|x t IH]; simpl; intros H P; [exact I|].
  destruct P as [F P]. split.
  - rewrite Forall_forall in *. intros b Hb. apply H; [left; reflexivity | right; exact Hb | apply F; exact Hb].
  - apply IH; [|exact P]. intros a b Ha Hb. apply H; right; assumption.
Qed.

Lemma pairwise_perm {A} (R : A -> A -> Prop) l l' :
  (forall a b, R a b -> R b a) -> Permutation l l' -> pairwise R l -> pairwise R l'.
Proof.
  intros Sym HP. induction HP as [|x l l' HP IH|x y l|l l' l'' HP1 IH1 HP2 IH2]; simpl.
  - trivial.
  - intros [F P]. split; [|apply IH; exact P].
    rewrite Forall_forall in *. intros b Hb. apply F. apply Permutation_sym in HP.
    eapply Permutation_in; eassumption.
  - intros [Fy [Fx P]]. inversion Fy as [|y' l' Ryx Fy']; subst.
    split; [constructor; [apply Sym; exact Ryx | exact Fx]|]. split; assumption.
  - intros P. apply IH2. apply IH1. exact P.
Qed.

Lemma pairwise_In {A} (R : A -> A -> Prop) l :
  (forall a b, R a b -> R b a) -> pairwise R l ->
  forall a b, In a l -> In b l -> a <> b -> R a b.
Proof.
  intros Sym. induction l as [|x t IH]; simpl; intros P a b Ha Hb Hne; [destruct Ha|].
  destruct P as [F P]. rewrite Forall_forall in F.
  destruct Ha as [Ha|Ha]; destruct Hb as [Hb|Hb]; subst.
  - exfalso. apply Hne. reflexivity.
  - apply F. exact Hb.
  - apply Sym. apply F. exact Ha.
  - apply IH; assumption.
Qed.

Lemma NoDup_pairwise_neq {A} (l : list A) : NoDup l -> pairwise (fun a b => a <> b) l.
Proof.
  induction 1 as [|x t Hx Ht IH]; simpl; [exact I|].
  split; [|exact IH]. apply Forall_forall. intros b Hb E. subst. apply Hx. exact Hb.
Qed.

Lemma pairwise_flat_map {A B} (Q : A -> A -> Prop) (R : B -> B -> Prop) (f : A -> list B) l :
  pairwise Q l ->
  (forall x, In x l -> pairwise R (f x)) ->
  (forall x y, In x l -> In y l -> Q x y -> forall a b, In a (f x) -> In b (f y) -> R a b) ->
  pairwise R (flat_map f l).
Proof.
  induction l as [|x t IH]; simpl; intros PQ Hin Hcross; [exact I|].
  destruct PQ as [FQ PQ]. apply pairwise_app. split; [apply Hin; left; reflexivity|]. split.
  - apply IH; [exact PQ | intros y Hy; apply Hin; right; exact Hy |].
    intros y z Hy Hz. apply Hcross; right; assumption.
  - intros a b Ha Hb. apply in_flat_map in Hb. destruct Hb as [y [Hy Hb]].
    rewrite Forall_forall in FQ.
    apply (Hcross x y); [left; reflexivity | right; exact Hy | apply FQ; exact Hy | exact Ha | exact Hb].
Qed.

Lemma pairwise_nth {A} (R : A -> A -> Prop) l d :
  pairwise R l -> forall i j, i < j < length l -> R (nth i l d) (nth j l d).
Proof.
  induction l as [|x t IH]; simpl; intros P i j Hij; [lia|].
  destruct P as [F P]. destruct j as [|j]; [lia|]. destruct i as [|i].
  - rewrite Forall_forall in F. apply F. apply nth_In. lia.
  - apply IH; [exact P | lia].
Qed.

(* ------------------------------------------------------------------ disjoint, remove_cols, remove_rows *)
Lemma disjoint_spec a b : disjoint a b = true <-> forall x, In x a -> ~ In x b.
Proof.
  unfold disjoint. rewrite forallb_forall. split; intros H x Hx.
  - apply mem_false_In. apply negb_true_iff. apply H. exact Hx.
  - apply negb_true_iff. apply mem_false_In. apply H. exact Hx.
Qed.

Definition rdisj (a b : row) : Prop := disjoint (snd a) (snd b) = true.

Lemma rdisj_sym a b : rdisj a b -> rdisj b a.
Proof.
  unfold rdisj. rewrite !disjoint_spec. intros H x Hb Ha. exact (H x Ha Hb).
Qed.

Lemma rdisj_common a b c : rdisj a b -> In c (snd a) -> In c (snd b) -> False.
Proof. unfold rdisj. rewrite disjoint_spec. intros H Ha Hb. exact (H c Ha Hb). Qed.

Lemma has_In c r : has c r = true <-> In c (snd r).
Proof. unfold has. apply mem_In. Qed.

Lemma in_remove_cols c rc cols : In c (remove_cols rc cols) <-> In c cols /\ ~ In c rc.
Proof.
  unfold remove_cols. rewrite filter_In, negb_true_iff, mem_false_In. tauto.
Qed.

Lemma in_remove_rows r' r rows : In r' (remove_rows r rows) <-> In r' rows /\ rdisj r r'.
Proof. unfold remove_rows, rdisj. rewrite filter_In. tauto. Qed.

Lemma filter_length_le {A} (p : A -> bool) l : length (filter p l) <= length l.
Proof. induction l as [|y t IH]; simpl; [lia|]. destruct (p y); simpl; lia. Qed.

Lemma filter_length_lt {A} (p : A -> bool) l x :
  In x l -> p x = false -> length (filter p l) < length l.
Proof.
  induction l as [|y t IH]; intros Hin Hp; [destruct Hin|].
  simpl. destruct Hin as [E|Hin].
  - subst. rewrite Hp. pose proof (filter_length_le p t). lia.
  - specialize (IH Hin Hp). destruct (p y); simpl; lia.
Qed.

Lemma remove_cols_shrinks c rc cols :
  In c cols -> In c rc -> length (remove_cols rc cols) < length cols.
Proof.
  intros Hc Hr. unfold remove_cols. apply (filter_length_lt _ cols c Hc).
  apply negb_false_iff. apply mem_In. exact Hr.
Qed.

(* ------------------------------------------------------------------ choose_loop *)
Lemma choose_loop_spec rows cols : forall best c sz,
  choose_loop rows cols best = Some (c, sz) ->
  best = Some (c, sz) \/ (In c cols /\ sz = size rows c).
Proof.
  induction cols as [|c0 rest IH]; simpl; intros best c sz H; [left; exact H|].
  destruct (match best with None => true | Some (_, bs) => size rows c0 <? bs end).
  - destruct (size rows c0 =? 0).
    + inversion H; subst. right. split; [left; reflexivity | reflexivity].
    + apply IH in H. destruct H as [H|[H1 H2]].
      * inversion H; subst. right. split; [left; reflexivity | reflexivity].
      * right. split; [right; exact H1 | exact H2].
  - apply IH in H. destruct H as [H|[H1 H2]]; [left; exact H | right; split; [right; exact H1 | exact H2]].
Qed.

Lemma choose_loop_some rows cols : forall b, exists p, choose_loop rows cols (Some b) = Some p.
Proof.
  induction cols as [|c0 rest IH]; simpl; intros b; [exists b; reflexivity|].
  destruct b as [bc bs]. destruct (size rows c0 <? bs).
  - destruct (size rows c0 =? 0); [eexists; reflexivity | apply IH].
  - apply IH.
Qed.

Lemma choose_nonempty rows c0 rest :
  exists c sz, choose_loop rows (c0 :: rest) None = Some (c, sz) /\ In c (c0 :: rest) /\ sz = size rows c.
Proof.
  assert (E : exists p, choose_loop rows (c0 :: rest) None = Some p).
  { simpl. destruct (size rows c0 =? 0); [eexists; reflexivity | apply choose_loop_some]. }
  destruct E as [[c sz] E]. exists c, sz. split; [exact E|].
  apply choose_loop_spec in E. destruct E as [E|E]; [discriminate | exact E].
Qed.

(* ------------------------------------------------------------------ the enumeration *)
Fixpoint all_sols (fuel : nat) (cols : list nat) (rows : list row) : list (list row) :=
  match fuel with
  | 0 => []
  | S f =>
      match cols with
      | [] => [[]]
      | _ :: _ =>
          match choose_loop rows cols None with
          | None => []
          | Some (c, sz) =>
              if sz =? 0 then []
              else flat_map (fun r => map (cons r) (all_sols f (remove_cols (snd r) cols) (remove_rows r rows)))
                            (filter (has c) rows)
          end
      end
  end.

(* S (a list of active rows) solves the sub-problem: pairwise column-disjoint rows, each with an active
   primary column, together covering every active primary column *)
Definition sub_cover (cols : list nat) (rows S : list row) : Prop :=
  incl S rows
  /\ pairwise rdisj S
  /\ (forall r, In r S -> exists c, In c cols /\ In c (snd r))
  /\ (forall c, In c cols -> exists r, In r S /\ In c (snd r)).

Lemma sub_cover_perm cols rows S S' : Permutation S S' -> sub_cover cols rows S -> sub_cover cols rows S'.
Proof.
  intros HP [H1 [H2 [H3 H4]]]. pose proof (Permutation_sym HP) as HP'. split; [|split; [|split]].
  - intros r Hr. apply H1. eapply Permutation_in; eassumption.
  - eapply pairwise_perm; [exact rdisj_sym | exact HP | exact H2].
  - intros r Hr. apply H3. eapply Permutation_in; eassumption.
  - intros c Hc. destruct (H4 c Hc) as [r [Hr Hin]]. exists r. split; [|exact Hin].
    eapply Permutation_in; eassumption.
Qed.

Lemma all_sols_sound : forall f cols rows S, In S (all_sols f cols rows) -> sub_cover cols rows S.
Proof.
  induction f as [|f IH]; intros cols rows S H; [destruct H|].
  simpl in H. destruct cols as [|c0 rest].
  - destruct H as [H|[]]. subst. repeat split.
    + intros r [].
    + intros r [].
    + intros c [].
  - destruct (choose_loop rows (c0 :: rest) None) as [[c sz]|] eqn:Ech; [|destruct H].
    apply choose_loop_spec in Ech. destruct Ech as [Ech|[Hc Hsz]]; [discriminate|].
    destruct (sz =? 0); [destruct H|].
    apply in_flat_map in H. destruct H as [r [Hr H]].
    apply filter_In in Hr. destruct Hr as [Hr Hhas]. apply has_In in Hhas.
    apply in_map_iff in H. destruct H as [S' [E HS']]. subst S.
    apply IH in HS'. destruct HS' as [H1 [H2 [H3 H4]]].
    split; [|split; [|split]].
    + intros x [Hx|Hx]; [subst; exact Hr|]. apply H1 in Hx. apply in_remove_rows in Hx. apply Hx.
    + simpl. split; [|exact H2]. apply Forall_forall. intros x Hx. apply H1 in Hx.
      apply in_remove_rows in Hx. apply Hx.
    + intros x [Hx|Hx]; [subst; exists c; split; assumption|].
      destruct (H3 x Hx) as [c' [Hc' Hin]]. exists c'. split; [|exact Hin].
      apply in_remove_cols in Hc'. apply Hc'.
    + intros c' Hc'. destruct (in_dec Nat.eq_dec c' (snd r)) as [Hin|Hnin].
      * exists r. split; [left; reflexivity | exact Hin].
      * destruct (H4 c') as [x [Hx Hxin]]; [apply in_remove_cols; split; assumption|].
        exists x. split; [right; exact Hx | exact Hxin].
Qed.

Lemma all_sols_complete : forall f cols rows S,
  length cols < f -> sub_cover cols rows S ->
  exists S', In S' (all_sols f cols rows) /\ Permutation S S'.
Proof.
  induction f as [|f IH]; intros cols rows S Hf HS; [lia|].
  simpl. destruct cols as [|c0 rest].
  - exists []. split; [left; reflexivity|].
    destruct S as [|r t]; [constructor|]. destruct HS as [_ [_ [H3 _]]].
    destruct (H3 r) as [c [[] _]]. left. reflexivity.
  - destruct (choose_nonempty rows c0 rest) as [c [sz [Ech [Hc Hsz]]]]. rewrite Ech.
    pose proof HS as [H1 [H2 [H3 H4]]].
    destruct (H4 c Hc) as [r [Hr Hcr]].
    assert (Hcand : In r (filter (has c) rows)).
    { apply filter_In. split; [apply H1; exact Hr | apply has_In; exact Hcr]. }
    assert (Hsz0 : (sz =? 0) = false).
    { apply Nat.eqb_neq. subst sz. unfold size. destruct (filter (has c) rows); [destruct Hcand | simpl; lia]. }
    rewrite Hsz0.
    destruct (in_split r S Hr) as [S1 [S2 ES]].
    assert (HP : Permutation S (r :: S1 ++ S2)).
    { subst S. apply Permutation_sym. apply Permutation_middle. }
    pose proof (sub_cover_perm _ _ _ _ HP HS) as [G1 [G2 [G3 G4]]].
    simpl in G2. destruct G2 as [GF G2]. rewrite Forall_forall in GF.
    assert (Hsub : sub_cover (remove_cols (snd r) (c0 :: rest)) (remove_rows r rows) (S1 ++ S2)).
    { split; [|split; [|split]].
      - intros x Hx. apply in_remove_rows. split; [apply G1; right; exact Hx | apply GF; exact Hx].
      - exact G2.
      - intros x Hx. destruct (G3 x (or_intror Hx)) as [c' [Hc' Hin]]. exists c'. split; [|exact Hin].
        apply in_remove_cols. split; [exact Hc'|]. intros Hr'. exact (rdisj_common _ _ _ (GF x Hx) Hr' Hin).
      - intros c' Hc'. apply in_remove_cols in Hc'. destruct Hc' as [Hc' Hnr].
        destruct (G4 c' Hc') as [x [[Hx|Hx] Hin]]; [subst x; contradiction|].
        exists x. split; assumption. }
    assert (Hlen : length (remove_cols (snd r) (c0 :: rest)) < f).
    { pose proof (remove_cols_shrinks c (snd r) (c0 :: rest) Hc Hcr). lia. }
    destruct (IH _ _ _ Hlen Hsub) as [S' [HS' HP']].
    exists (r :: S'). split.
    + apply in_flat_map. exists r. split; [exact Hcand|]. apply in_map. exact HS'.
    + eapply Permutation_trans; [exact HP|]. constructor. exact HP'.
Qed.

Definition same_rows (a b : list row) : Prop := forall x, In x a <-> In x b.

Lemma all_sols_distinct : forall f cols rows,
  NoDup rows -> pairwise (fun a b => ~ same_rows a b) (all_sols f cols rows).
Proof.
  induction f as [|f IH]; intros cols rows Hnd; [exact I|].
  simpl. destruct cols as [|c0 rest]; [simpl; split; [constructor | exact I]|].
  destruct (choose_loop rows (c0 :: rest) None) as [[c sz]|]; [|exact I].
  destruct (sz =? 0); [exact I|].
  apply pairwise_flat_map with (Q := fun a b : row => a <> b).
  - apply NoDup_pairwise_neq. apply NoDup_filter. exact Hnd.
  - intros r Hr. apply pairwise_map.
    assert (Hnd' : NoDup (remove_rows r rows)) by (apply NoDup_filter; exact Hnd).
    eapply pairwise_impl; [|apply (IH (remove_cols (snd r) (c0 :: rest)) _ Hnd')].
    intros a b Ha Hb Hab Hsame. apply Hab.
    apply filter_In in Hr. destruct Hr as [Hr Hhas]. apply has_In in Hhas.
    assert (Hnot : forall T, In T (all_sols f (remove_cols (snd r) (c0 :: rest)) (remove_rows r rows)) -> ~ In r T).
    { intros T HT HrT. apply all_sols_sound in HT. destruct HT as [T1 _]. apply T1 in HrT.
      apply in_remove_rows in HrT. destruct HrT as [_ Hd]. exact (rdisj_common _ _ _ Hd Hhas Hhas). }
    intros x. split; intros Hx.
    + destruct (proj1 (Hsame x) (or_intror Hx)) as [E|Hx']; [subst x; exfalso; exact (Hnot a Ha Hx) | exact Hx'].
    + destruct (proj2 (Hsame x) (or_intror Hx)) as [E|Hx']; [subst x; exfalso; exact (Hnot b Hb Hx) | exact Hx'].
  - intros r1 r2 Hr1 Hr2 Hne a b Ha Hb Hsame.
    apply filter_In in Hr1. destruct Hr1 as [Hr1 Hh1]. apply has_In in Hh1.
    apply filter_In in Hr2. destruct Hr2 as [Hr2 Hh2]. apply has_In in Hh2.
    apply in_map_iff in Ha. destruct Ha as [A [EA HA]]. subst a.
    apply in_map_iff in Hb. destruct Hb as [B [EB HB]]. subst b.
    destruct (proj1 (Hsame r1) (or_introl eq_refl)) as [E|Hin]; [apply Hne; symmetry; exact E|].
    apply all_sols_sound in HB. destruct HB as [B1 _]. apply B1 in Hin.
    apply in_remove_rows in Hin. destruct Hin as [_ Hd]. exact (rdisj_common _ _ _ Hd Hh2 Hh1).
Qed.
