(* Specification of exact cover (property C07) + boolean checkers with soundness lemmas.
   Independent of the search model: only the input record and the reading of `columns=` / `secondary=`
   (col_names / prim_cols / sec_cols, defined next to the record in Dlx.v) are shared. *)
From Coq Require Import List Arith Bool Lia.
From SV Require Import C07.Dlx.
Import ListNotations.

(* M r c : entry of row r, column c (false outside the matrix) *)
Definition cell (M : list (list bool)) (r c : nat) : bool := nth c (nth r M []) false.

Definition covers_once (M : list (list bool)) (S : list nat) (c : nat) : Prop :=
  exists r, In r S /\ cell M r c = true /\ forall r', In r' S -> cell M r' c = true -> r' = r.
Definition covers_at_most_once (M : list (list bool)) (S : list nat) (c : nat) : Prop :=
  forall r r', In r S -> In r' S -> cell M r c = true -> cell M r' c = true -> r = r'.

(* S (row indices) is an exact cover: no row twice, every row exists and covers >= 1 primary column,
   every primary column exactly once, every secondary column at most once *)
Definition exact_cover (M : list (list bool)) (prim sec S : list nat) : Prop :=
  NoDup S
  /\ (forall r, In r S -> r < length M /\ exists c, In c prim /\ cell M r c = true)
  /\ (forall c, In c prim -> covers_once M S c)
  /\ (forall c, In c sec -> covers_at_most_once M S c).

Definition same_set (a b : list nat) : Prop := forall x, In x a <-> In x b.

(* R lists all exact covers, each once (as a set of rows) *)
Definition all_covers (M : list (list bool)) (prim sec : list nat) (R : list (list nat)) : Prop :=
  (forall S, In S R -> exact_cover M prim sec S)
  /\ (forall S, exact_cover M prim sec S -> exists S', In S' R /\ same_set S S')
  /\ (forall i j, i < j < length R -> ~ same_set (nth i R []) (nth j R [])).

(* the property's reading of an input *)
Definition is_cover (inp : input) (S : list nat) : Prop :=
  exact_cover (matrix inp) (prim_cols inp) (sec_cols inp) S.
Definition lists_all_covers (inp : input) (R : list (list nat)) : Prop :=
  all_covers (matrix inp) (prim_cols inp) (sec_cols inp) R.

(* ------------------------------------------------------------------ boolean checkers *)
Fixpoint nodupb (l : list nat) : bool :=
  match l with
  | [] => true
  | x :: t => negb (mem x t) && nodupb t
  end.

Definition count (M : list (list bool)) (S : list nat) (c : nat) : nat :=
  length (filter (fun r => cell M r c) S).

Definition cover_check (M : list (list bool)) (prim sec S : list nat) : bool :=
  nodupb S
  && forallb (fun r => (r <? length M) && existsb (fun c => cell M r c) prim) S
  && forallb (fun c => count M S c =? 1) prim
  && forallb (fun c => count M S c <=? 1) sec.

Definition same_setb (a b : list nat) : bool :=
  forallb (fun x => mem x b) a && forallb (fun x => mem x a) b.

Fixpoint distinct_sets (R : list (list nat)) : bool :=
  match R with
  | [] => true
  | a :: t => forallb (fun b => negb (same_setb a b)) t && distinct_sets t
  end.

(* spec_check input output: every selection in the result is an exact cover, and no two selections are
   the same set of rows *)
Definition spec_check (inp : input) (r : result) : bool :=
  forallb (cover_check (matrix inp) (prim_cols inp) (sec_cols inp)) (selections r)
  && distinct_sets (selections r).

Definition spec_check_outcome (inp : input) (o : outcome) : bool :=
  match o with
  | Done r => spec_check inp r
  | IndexError => true       (* a raised IndexError returns no selection *)
  | OutOfFuel => false
  end.

(* ------------------------------------------------------------------ soundness of the checkers *)
Lemma mem_In x l : mem x l = true <-> In x l.
Proof.
  unfold mem. rewrite existsb_exists. split.
  - intros [y [Hy E]]. apply Nat.eqb_eq in E. subst. exact Hy.
  - intros H. exists x. split; [exact H | apply Nat.eqb_refl].
Qed.

Lemma mem_false_In x l : mem x l = false <-> ~ In x l.
Proof.
  rewrite <- mem_In. destruct (mem x l); split; intro H.
  - discriminate.
  - exfalso. apply H. reflexivity.
  - intro H'. discriminate.
  - reflexivity.
Qed.

Lemma nodupb_NoDup l : nodupb l = true -> NoDup l.
Proof.
  induction l as [|x t IH]; intros H; [constructor|].
  simpl in H. apply andb_true_iff in H. destruct H as [H1 H2].
  constructor; [|apply IH; exact H2].
  apply negb_true_iff in H1. apply mem_false_In. exact H1.
Qed.

Lemma filter_le1_unique {A} (p : A -> bool) (l : list A) :
  NoDup l -> length (filter p l) <= 1 ->
  forall a b, In a l -> In b l -> p a = true -> p b = true -> a = b.
Proof.
  induction l as [|x t IH]; intros Hnd Hlen a b Ha Hb Pa Pb; [destruct Ha|].
  inversion Hnd as [|x' t' Hx Ht]; subst.
  simpl in Hlen. destruct (p x) eqn:Px.
  - simpl in Hlen.
    assert (Hnil : filter p t = []) by (destruct (filter p t); [reflexivity | simpl in Hlen; lia]).
    assert (Hno : forall y, In y t -> p y = true -> False).
    { intros y Hy Py. assert (In y (filter p t)) by (apply filter_In; split; assumption).
      rewrite Hnil in H. destruct H. }
    destruct Ha as [Ha|Ha]; destruct Hb as [Hb|Hb]; subst.
    + reflexivity.
    + exfalso. eapply Hno; eassumption.
    + exfalso. eapply Hno; eassumption.
    + exfalso. eapply Hno; eassumption.
  - destruct Ha as [Ha|Ha]; [subst; congruence|].
    destruct Hb as [Hb|Hb]; [subst; congruence|].
    apply IH; assumption.
Qed.

Lemma filter_ge1_exists {A} (p : A -> bool) (l : list A) :
  1 <= length (filter p l) -> exists a, In a l /\ p a = true.
Proof.
  intros H. destruct (filter p l) as [|a t] eqn:E; [simpl in H; lia|].
  assert (Ha : In a (filter p l)) by (rewrite E; left; reflexivity).
  apply filter_In in Ha. exists a. exact Ha.
Qed.

Theorem cover_check_sound M prim sec S :
  cover_check M prim sec S = true -> exact_cover M prim sec S.
Proof.
  unfold cover_check. intros H.
  apply andb_true_iff in H. destruct H as [H Hsec].
  apply andb_true_iff in H. destruct H as [H Hprim].
  apply andb_true_iff in H. destruct H as [Hnd Hrows].
  apply nodupb_NoDup in Hnd.
  rewrite forallb_forall in Hrows, Hprim, Hsec.
  split; [exact Hnd|]. split; [|split].
  - intros r Hr. specialize (Hrows r Hr). apply andb_true_iff in Hrows. destruct Hrows as [Hlt Hex].
    apply Nat.ltb_lt in Hlt. split; [exact Hlt|].
    apply existsb_exists in Hex. destruct Hex as [c [Hc Hcell]]. exists c. split; assumption.
  - intros c Hc. specialize (Hprim c Hc). apply Nat.eqb_eq in Hprim. unfold count in Hprim.
    destruct (filter_ge1_exists (fun r => cell M r c) S) as [r [Hr Hcell]]; [lia|].
    exists r. split; [exact Hr|]. split; [exact Hcell|].
    intros r' Hr' Hcell'.
    apply (filter_le1_unique (fun r => cell M r c) S Hnd); try assumption. lia.
  - intros c Hc. specialize (Hsec c Hc). apply Nat.leb_le in Hsec. unfold count in Hsec.
    intros r r' Hr Hr' Hcell Hcell'.
    apply (filter_le1_unique (fun r => cell M r c) S Hnd); assumption.
Qed.

Lemma same_setb_true a b : same_set a b -> same_setb a b = true.
Proof.
  intros H. unfold same_setb. apply andb_true_iff. split; apply forallb_forall; intros x Hx; apply mem_In; apply H; exact Hx.
Qed.

Lemma distinct_sets_sound R :
  distinct_sets R = true -> forall i j, i < j < length R -> ~ same_set (nth i R []) (nth j R []).
Proof.
  induction R as [|a t IH]; intros H i j Hij; [simpl in Hij; lia|].
  simpl in H. apply andb_true_iff in H. destruct H as [Ha Ht].
  destruct j as [|j]; [lia|]. destruct i as [|i].
  - simpl. intros Hs. rewrite forallb_forall in Ha.
    assert (Hin : In (nth j t []) t) by (apply nth_In; simpl in Hij; lia).
    specialize (Ha _ Hin). rewrite (same_setb_true _ _ Hs) in Ha. discriminate.
  - simpl. apply IH; [exact Ht|]. simpl in Hij. lia.
Qed.

Theorem spec_check_sound inp r :
  spec_check inp r = true ->
  (forall S, In S (selections r) -> is_cover inp S)
  /\ (forall i j, i < j < length (selections r) -> ~ same_set (nth i (selections r) []) (nth j (selections r) [])).
Proof.
  unfold spec_check. intros H. apply andb_true_iff in H. destruct H as [H1 H2]. split.
  - intros S HS. rewrite forallb_forall in H1. apply cover_check_sound. apply H1. exact HS.
  - apply distinct_sets_sound. exact H2.
Qed.
