(* The pointer-level solver equals the functional model on every input. *)
From Coq Require Import List Arith Bool Lia ZArith.
From SV Require Import C07.Dlx C07.DlxSpec C07.DlxEnum C07.DlxSearch C07.DlxTop C07.DlxPrefix.
From SV Require Import C07.DeepLinks C07.DeepBase C07.DeepOps C07.DeepVert C07.DeepRows C07.DeepRep C07.DeepCover C07.DeepMulti
                       C07.DeepSearch C07.DeepBuildAll.
Import ListNotations.

(* ---------------------------------------------------------------- rows without any column never matter *)
Lemma has_nonempty c r : has c r = true -> nonemptyb r = true.
Proof. unfold has, nonemptyb. destruct (snd r); [discriminate | reflexivity]. Qed.

Lemma filter_has_ne c rows : filter (has c) (filter nonemptyb rows) = filter (has c) rows.
Proof.
  rewrite filter_filter. apply filter_ext. intros r. destruct (has c r) eqn:E; [|apply andb_false_r].
  rewrite (has_nonempty c r E). reflexivity.
Qed.

Lemma size_ne rows c : size (filter nonemptyb rows) c = size rows c.
Proof. unfold size. rewrite filter_has_ne. reflexivity. Qed.

Lemma choose_loop_ne rows : forall cols best, choose_loop (filter nonemptyb rows) cols best = choose_loop rows cols best.
Proof.
  induction cols as [|c t IH]; intros best; [reflexivity|]. cbn [choose_loop]. rewrite size_ne, !IH. reflexivity.
Qed.

Lemma try_rows_ext fa ms rec rec' : (forall r st, rec r st = rec' r st) ->
  forall cands st, try_rows fa ms rec cands st = try_rows fa ms rec' cands st.
Proof.
  intros E. induction cands as [|r t IH]; intros st; [reflexivity|]. cbn [try_rows]. rewrite E.
  destruct (rec' r (bump_cover (length (snd r) - 1) st)) as [[[|] st']|]; rewrite ?IH; reflexivity.
Qed.

Lemma search_ne fa ms mi : forall f cols rows cur st,
  search fa ms mi f cols (filter nonemptyb rows) cur st = search fa ms mi f cols rows cur st.
Proof.
  induction f as [|f IH]; intros cols rows cur st; [reflexivity|].
  rewrite !search_S. rewrite choose_loop_ne.
  destruct (mi <? Z.of_nat (iters (bump_iter st)))%Z; [reflexivity|].
  destruct cols as [|c0 rest]; [reflexivity|].
  destruct (choose_loop rows (c0 :: rest) None) as [[c sz]|]; [|reflexivity].
  destruct (sz =? 0); [reflexivity|]. rewrite filter_has_ne.
  apply try_rows_ext. intros r st'. unfold remove_rows. rewrite filter_comm. apply IH.
Qed.

(* ---------------------------------------------------------------- search_refines, top level *)
Theorem psolve_eq_solve : forall inp, psolve inp = solve inp.
Proof.
  intros inp. unfold psolve, solve. destruct (degenerate inp); [reflexivity|].
  destruct (rows_in_range (length (col_names inp)) (mk_rows (matrix inp))) eqn:Hr; cbn [negb].
  - destruct (build_links_ok inp Hr) as [s [N [G [Eb [HR [_ [_ EG]]]]]]]. rewrite Eb.
    destruct (search (find_all inp) (max_solutions inp) (max_iter inp) (fuel_of inp) (prim_cols inp)
                     (mk_rows (matrix inp)) [] init_st) as [[b st']|] eqn:Es.
    + rewrite <- search_ne, <- EG in Es.
      destruct (psearch_refines _ _ _ _ _ _ _ _ _ _ _ _ _ _ _ HR Es) as [s' [Ep _]].
      rewrite Ep. reflexivity.
    + exfalso. revert Es. apply search_fuel. unfold fuel_of. lia.
  - rewrite (build_links_none inp Hr). reflexivity.
Qed.

(* ---------------------------------------------------------------- the theorems of Props/C07.v hold of the pointer-level solver *)
Section Transfer.
  Import DlxSpec DlxTop DlxPrefix.

  Lemma psolve_sound : forall inp r,
    valid_input inp = true -> psolve inp = Done r -> forall S, In S (selections r) -> is_cover inp S.
  Proof. intros inp r. rewrite psolve_eq_solve. apply solve_sound. Qed.

  Lemma psolve_complete : forall inp r,
    valid_input inp = true -> psolve inp = Done r -> find_all inp = true -> r_status r = OPTIMAL ->
    (exists R, r_sol r = SMany R /\ r_obj r = length R) /\ lists_all_covers inp (selections r).
  Proof. intros inp r. rewrite psolve_eq_solve. apply solve_complete. Qed.

  Lemma psolve_nodup : forall inp r,
    valid_input inp = true -> psolve inp = Done r -> find_all inp = true -> r_status r = OPTIMAL ->
    forall i j, i < j < length (selections r) -> ~ same_set (nth i (selections r) []) (nth j (selections r) []).
  Proof. intros inp r. rewrite psolve_eq_solve. apply solve_nodup. Qed.

  Lemma psolve_nodup_any : forall inp r,
    valid_input inp = true -> psolve inp = Done r ->
    forall i j, i < j < length (selections r) -> ~ same_set (nth i (selections r) []) (nth j (selections r) []).
  Proof. intros inp r. rewrite psolve_eq_solve. apply solve_nodup_any. Qed.

  Lemma psolve_prefix : forall inp r,
    valid_input inp = true -> psolve inp = Done r -> find_all inp = true ->
    exists R Q, lists_all_covers inp R /\ R = selections r ++ Q.
  Proof. intros inp r. rewrite psolve_eq_solve. apply solve_prefix. Qed.

  Lemma psolve_find_all_uncut : forall inp r,
    valid_input inp = true -> psolve inp = Done r -> find_all inp = true ->
    r_status r = OPTIMAL \/ r_status r = INFEASIBLE -> lists_all_covers inp (selections r).
  Proof. intros inp r. rewrite psolve_eq_solve. apply solve_find_all_uncut. Qed.

  Lemma psolve_infeasible_iff : forall inp r,
    valid_input inp = true -> psolve inp = Done r -> r_status r <> MAX_ITER ->
    (r_status r = INFEASIBLE <-> ~ exists S, is_cover inp S).
  Proof. intros inp r. rewrite psolve_eq_solve. apply solve_infeasible_iff. Qed.

  Lemma psolve_first : forall inp r,
    valid_input inp = true -> psolve inp = Done r -> find_all inp = false -> r_status r = OPTIMAL ->
    exists s, r_sol r = SOne s /\ r_obj r = length s /\ is_cover inp s.
  Proof. intros inp r. rewrite psolve_eq_solve. apply solve_first. Qed.

  Lemma psolve_status : forall inp r, psolve inp = Done r -> status_facts inp r.
  Proof. intros inp r. rewrite psolve_eq_solve. apply solve_status. Qed.

  Lemma psolve_fuel_ok : forall inp, psolve inp <> OutOfFuel.
  Proof. intros inp. rewrite psolve_eq_solve. apply solve_fuel_ok. Qed.

  Lemma psolve_index_error : forall inp,
    psolve inp = IndexError <->
    degenerate inp = false /\ rows_in_range (length (col_names inp)) (mk_rows (matrix inp)) = false.
  Proof. intros inp. rewrite psolve_eq_solve. apply solve_index_error. Qed.
End Transfer.
