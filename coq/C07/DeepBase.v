(* Basic lemmas for the pointer-level model: get/set on id-indexed lists, chains / doubly linked rings over
   successor functions, unlinking one element of a ring, and the generic `walk` loop lemma. *)
From Coq Require Import List Arith Bool Lia.
From SV Require Import C07.Dlx C07.DeepLinks.
Import ListNotations.

(* ---------------------------------------------------------------- get / set *)
Lemma set_length l : forall i v, length (set l i v) = length l.
Proof. induction l as [|x t IH]; intros [|i] v; simpl; auto. Qed.

Lemma get_set_same l : forall i v, i < length l -> get (set l i v) i = v.
Proof.
  unfold get. induction l as [|x t IH]; intros [|i] v H; simpl in *; try lia; auto. apply IH. lia.
Qed.

Lemma get_set_other l : forall i j v, i <> j -> get (set l i v) j = get l j.
Proof.
  unfold get. induction l as [|x t IH]; intros [|i] [|j] v H; simpl in *; auto; try lia.
Qed.

Lemma get_set l i j v : i < length l -> get (set l i v) j = if j =? i then v else get l j.
Proof.
  intros H. destruct (j =? i) eqn:E.
  - apply Nat.eqb_eq in E. subst. apply get_set_same. exact H.
  - apply Nat.eqb_neq in E. apply get_set_other. lia.
Qed.

Lemma set_get_id l : forall i, set l i (get l i) = l.
Proof. unfold get. induction l as [|x t IH]; intros [|i]; simpl; auto. f_equal. apply IH. Qed.

Lemma set_set l : forall i a b, set (set l i a) i b = set l i b.
Proof. induction l as [|x t IH]; intros [|i] a b; simpl; auto. f_equal. apply IH. Qed.

Lemma set_same_val l i v : get l i = v -> set l i v = l.
Proof. intros <-. apply set_get_id. Qed.

(* ---------------------------------------------------------------- chains and rings *)
Fixpoint chain (f : nat -> nat) (a : nat) (l : list nat) (b : nat) : Prop :=
  match l with
  | [] => f a = b
  | x :: t => f a = x /\ chain f x t b
  end.

(* h -> l1 -> ... -> lk -> h along f, and back along g *)
Definition dring (f g : nat -> nat) (h : nat) (l : list nat) : Prop :=
  chain f h l h /\ chain g h (rev l) h.

Lemma chain_app f : forall l1 a x l2 b,
  chain f a (l1 ++ x :: l2) b <-> chain f a l1 x /\ chain f x l2 b.
Proof.
  induction l1 as [|y t IH]; intros a x l2 b; simpl.
  - tauto.
  - rewrite IH. tauto.
Qed.

Lemma chain_snoc f l a x b : chain f a (l ++ [x]) b <-> chain f a l x /\ f x = b.
Proof. rewrite chain_app. simpl. tauto. Qed.

Lemma chain_ext f f' : forall l a b,
  (forall y, In y (a :: l) -> f' y = f y) -> chain f a l b -> chain f' a l b.
Proof.
  induction l as [|x t IH]; intros a b He H; simpl in *.
  - rewrite He; auto.
  - destruct H as [H1 H2]. split; [rewrite He; auto|]. apply IH; [|exact H2].
    intros y Hy. apply He. right. exact Hy.
Qed.

Lemma chain_hd f l a b : chain f a l b -> f a = hd b l.
Proof. destruct l; simpl; tauto. Qed.

Lemma hd_rev {A} (l : list A) d : hd d (rev l) = last l d.
Proof.
  induction l as [|x t IH]; simpl; [reflexivity|].
  destruct t as [|y t'].
  - reflexivity.
  - rewrite <- IH. simpl. destruct (rev t' ++ [y]) eqn:E; [destruct (rev t'); discriminate|]. reflexivity.
Qed.

Lemma last_rev {A} (l : list A) d : last (rev l) d = hd d l.
Proof. rewrite <- hd_rev, rev_involutive. reflexivity. Qed.

(* the value of f at an inner element: its successor *)
Lemma chain_at f l1 x l2 a b : chain f a (l1 ++ x :: l2) b -> f x = hd b l2.
Proof. intros H. apply chain_app in H. destruct H as [_ H]. apply chain_hd in H. exact H. Qed.

Lemma dring_sym f g h l : dring f g h l -> dring g f h (rev l).
Proof. unfold dring. rewrite rev_involutive. tauto. Qed.

Lemma dring_succ f g h l1 x l2 : dring f g h (l1 ++ x :: l2) -> f x = hd h l2.
Proof. intros [H _]. eapply chain_at. exact H. Qed.

Lemma dring_pred f g h l1 x l2 : dring f g h (l1 ++ x :: l2) -> g x = last l1 h.
Proof.
  intros [_ H]. rewrite rev_app_distr in H. simpl in H. rewrite <- app_assoc in H. simpl in H.
  apply chain_at in H. rewrite hd_rev in H. exact H.
Qed.

(* rotation: the same ring seen from one of its elements *)
Lemma dring_rot f g h l1 x l2 : dring f g h (l1 ++ x :: l2) -> dring f g x (l2 ++ h :: l1).
Proof.
  intros [H1 H2]. split.
  - apply chain_app in H1. apply chain_app. tauto.
  - rewrite rev_app_distr in H2. simpl in H2. rewrite <- app_assoc in H2. simpl in H2.
    rewrite rev_app_distr. simpl. rewrite <- app_assoc. simpl.
    apply chain_app in H2. apply chain_app. tauto.
Qed.

Lemma last_indep {A} (l : list A) d e : l <> [] -> last l d = last l e.
Proof.
  induction l as [|u l' IHl]; intros Hl; [congruence|]. destruct l'; [reflexivity|].
  change (last (a :: l') d = last (a :: l') e). apply IHl. discriminate.
Qed.

Lemma last_in {A} (l : list A) d : In (last l d) (d :: l).
Proof.
  induction l as [|u t IH]; [left; reflexivity|].
  destruct t as [|v t']; [right; left; reflexivity|].
  change (In (last (v :: t') d) (d :: u :: v :: t')).
  destruct IH as [E|E]; [left; exact E | right; right; exact E].
Qed.

Lemma last_cons_in {A} (y : A) t d : In (last (y :: t) d) (y :: t).
Proof.
  rewrite (last_indep (y :: t) d y) by discriminate.
  destruct t as [|v t']; [left; reflexivity|].
  change (In (last (v :: t') y) (y :: v :: t')). apply last_in.
Qed.

(* removing x: only f at the predecessor changes *)
Lemma chain_remove f f' : forall l1 a x l2 b p n,
  chain f a (l1 ++ x :: l2) b ->
  NoDup (a :: l1) -> ~ In p l2 -> p <> x ->
  p = last l1 a -> n = hd b l2 ->
  (forall y, y <> p -> f' y = f y) -> f' p = n ->
  chain f' a (l1 ++ l2) b.
Proof.
  induction l1 as [|y t IH]; intros a x l2 b p n H Hnd Hp2 Hpx Hp Hn Hoth Hat.
  - simpl in *. rewrite Hp in *. destruct H as [_ H]. destruct l2 as [|z t2]; simpl in *.
    + rewrite Hat, Hn. reflexivity.
    + destruct H as [H1 H2]. rewrite Hn in Hat. split; [exact Hat|].
      apply chain_ext with (f := f); [|exact H2].
      intros w Hw. apply Hoth. intros E. apply Hp2. rewrite <- E. exact Hw.
  - change (chain f a (y :: (t ++ x :: l2)) b) in H. destruct H as [H1 H2].
    assert (Hna : ~ In a (y :: t)) by (inversion Hnd; assumption).
    assert (Hnd' : NoDup (y :: t)) by (inversion Hnd; assumption).
    assert (Hpa : p <> a).
    { intros E. apply Hna. rewrite <- E, Hp. apply last_cons_in. }
    change (chain f' a (y :: (t ++ l2)) b). split.
    + rewrite Hoth; [exact H1|]. intros E. apply Hpa. symmetry. exact E.
    + eapply IH; eauto.
      rewrite Hp. destruct t as [|u t']; [reflexivity|].
      change (last (u :: t') a = last (u :: t') y). apply last_indep. discriminate.
Qed.

Definition upd (f : nat -> nat) (i v : nat) : nat -> nat := fun k => if k =? i then v else f k.

Lemma filter_neq_split (x : nat) : forall l1 l2, ~ In x l1 -> ~ In x l2 ->
  filter (fun y => negb (y =? x)) (l1 ++ x :: l2) = l1 ++ l2.
Proof.
  intros l1 l2 H1 H2. rewrite filter_app. simpl. rewrite Nat.eqb_refl. simpl.
  assert (G : forall l, ~ In x l -> filter (fun y => negb (y =? x)) l = l).
  { induction l as [|y t IH]; intros H; simpl; [reflexivity|].
    destruct (y =? x) eqn:E; simpl.
    - apply Nat.eqb_eq in E. subst. exfalso. apply H. left. reflexivity.
    - f_equal. apply IH. intros K. apply H. right. exact K. }
  rewrite (G l1 H1), (G l2 H2). reflexivity.
Qed.

Lemma nodup_app_l {A} (l1 l2 : list A) : NoDup (l1 ++ l2) -> NoDup l1.
Proof.
  induction l1 as [|x t IH]; intros H; [constructor|]. inversion H; subst. constructor.
  - intros K. apply H2. apply in_or_app. left. exact K.
  - apply IH. assumption.
Qed.
Lemma nodup_app_r {A} (l1 l2 : list A) : NoDup (l1 ++ l2) -> NoDup l2.
Proof. induction l1 as [|x t IH]; intros H; [exact H|]. inversion H; subst. apply IH. assumption. Qed.
Lemma nodup_app_disj {A} (l1 l2 : list A) : NoDup (l1 ++ l2) -> forall y, In y l1 -> In y l2 -> False.
Proof.
  induction l1 as [|u t IH]; intros H y A1 B; simpl in *; [contradiction|].
  inversion H; subst. destruct A1 as [->|A1]; [apply H2; apply in_or_app; right; exact B | eapply IH; eauto].
Qed.

(* unlinking x from a doubly linked ring, the dancing-links way: x keeps its own pointers *)
Lemma dring_unlink f g f' g' h l x :
  dring f g h l -> NoDup (h :: l) -> In x l ->
  (forall y, f' y = upd f (g x) (f x) y) ->
  (forall y, g' y = upd g (f x) (g x) y) ->
  dring f' g' h (filter (fun y => negb (y =? x)) l).
Proof.
  intros Hr Hnd Hx Hf Hg.
  apply in_split in Hx. destruct Hx as [l1 [l2 ->]].
  assert (Hnd' := Hnd). inversion Hnd' as [|? ? Hh Hl]; subst.
  apply NoDup_remove in Hl. destruct Hl as [Hl12 Hx12].
  assert (Hx1 : ~ In x l1) by (intros K; apply Hx12; apply in_or_app; left; exact K).
  assert (Hx2 : ~ In x l2) by (intros K; apply Hx12; apply in_or_app; right; exact K).
  rewrite filter_neq_split by assumption.
  pose proof (dring_succ _ _ _ _ _ _ Hr) as Hs.
  pose proof (dring_pred _ _ _ _ _ _ Hr) as Hp.
  assert (Hhx : h <> x) by (intros ->; apply Hh; apply in_or_app; right; left; reflexivity).
  assert (Hnd1 : NoDup (h :: l1)).
  { constructor.
    - intros K. apply Hh. apply in_or_app. left. exact K.
    - apply nodup_app_l in Hl12. exact Hl12. }
  assert (Hnd2 : NoDup (h :: rev l2)).
  { constructor.
    - intros K. apply Hh. apply in_or_app. right. right. apply in_rev. exact K.
    - apply NoDup_rev. apply nodup_app_r in Hl12. exact Hl12. }
  assert (Hdisj : forall y, In y l1 -> In y l2 -> False).
  { apply nodup_app_disj. exact Hl12. }
  assert (Hlast1 : In (last l1 h) (h :: l1)) by apply last_in.
  assert (Hhd2 : In (hd h l2) (h :: l2)) by (destruct l2; simpl; auto).
  destruct Hr as [H1 H2]. split.
  - eapply chain_remove with (f := f) (x := x) (p := g x) (n := f x); eauto.
    + rewrite Hp. intros K. destruct Hlast1 as [E|E].
      * apply Hh. rewrite E. apply in_or_app. right. right. exact K.
      * eapply Hdisj; eauto.
    + rewrite Hp. intros E. destruct Hlast1 as [E1|E1]; [congruence|]. rewrite E in E1. contradiction.
    + intros y Hy. rewrite Hf. unfold upd. apply Nat.eqb_neq in Hy. rewrite Hy. reflexivity.
    + rewrite Hf. unfold upd. rewrite Nat.eqb_refl. reflexivity.
  - rewrite rev_app_distr.
    rewrite rev_app_distr in H2. simpl in H2. rewrite <- app_assoc in H2. simpl in H2.
    eapply chain_remove with (f := g) (x := x) (p := f x) (n := g x); eauto.
    + rewrite Hs. intros K. apply in_rev in K. destruct Hhd2 as [E|E].
      * apply Hh. rewrite E. apply in_or_app. left. exact K.
      * eapply Hdisj; eauto.
    + rewrite Hs. intros E. destruct Hhd2 as [E1|E1]; [congruence|]. rewrite E in E1. contradiction.
    + rewrite Hs. rewrite last_rev. reflexivity.
    + rewrite Hp. rewrite hd_rev. reflexivity.
    + intros y Hy. rewrite Hg. unfold upd. apply Nat.eqb_neq in Hy. rewrite Hy. reflexivity.
    + rewrite Hg. unfold upd. rewrite Nat.eqb_refl. reflexivity.
Qed.

(* in a ring without repetition, predecessor and successor of an element differ from it and point back to it *)
Lemma dring_linked f g h l x :
  dring f g h l -> NoDup (h :: l) -> In x l ->
  f x <> x /\ g x <> x /\ g (f x) = x /\ f (g x) = x /\ In (f x) (h :: l) /\ In (g x) (h :: l).
Proof.
  intros Hr Hnd Hx. apply in_split in Hx. destruct Hx as [l1 [l2 ->]].
  pose proof (dring_succ _ _ _ _ _ _ Hr) as Hs.
  pose proof (dring_pred _ _ _ _ _ _ Hr) as Hp.
  inversion Hnd as [|? ? Hh Hl]; subst.
  assert (Hx12 := NoDup_remove_2 _ _ _ Hl).
  assert (Hhx : h <> x) by (intros ->; apply Hh; apply in_or_app; right; left; reflexivity).
  assert (Hlast1 : In (last l1 h) (h :: l1)) by apply last_in.
  assert (Hhd2 : In (hd h l2) (h :: l2)) by (destruct l2; simpl; auto).
  repeat split.
  - rewrite Hs. intros E. destruct Hhd2 as [E1|E1]; [congruence|]. rewrite E in E1. apply Hx12. apply in_or_app. right. exact E1.
  - rewrite Hp. intros E. destruct Hlast1 as [E1|E1]; [congruence|]. rewrite E in E1. apply Hx12. apply in_or_app. left. exact E1.
  - rewrite Hs. destruct l2 as [|z t2]; simpl.
    + (* successor is h: g h = last of the whole list = x *)
      destruct Hr as [_ H2]. apply chain_hd in H2. rewrite hd_rev in H2. rewrite H2.
      clear. induction l1 as [|u t IH]; simpl; [reflexivity|]. destruct (t ++ [x]) eqn:E; [destruct t; discriminate|]. exact IH.
    + replace (l1 ++ x :: z :: t2) with ((l1 ++ [x]) ++ z :: t2) in Hr by (rewrite <- app_assoc; reflexivity).
      apply dring_pred in Hr. rewrite Hr. rewrite last_last. reflexivity.
  - rewrite Hp. destruct l1 as [|z t1] using rev_ind; simpl.
    + destruct Hr as [H1 _]. apply chain_hd in H1. exact H1.
    + clear IHt1. rewrite last_last. rewrite <- app_assoc in Hr. simpl in Hr. apply dring_succ in Hr. exact Hr.
  - rewrite Hs. destruct Hhd2 as [E|E]; [left; exact E | right; apply in_or_app; right; right; exact E].
  - rewrite Hp. destruct Hlast1 as [E|E]; [left; exact E | right; apply in_or_app; left; exact E].
Qed.

(* ---------------------------------------------------------------- the loop lemma *)
(* P rest a: invariant when the elements `rest` are still to be visited *)
Lemma walk_inv {A} (next : A -> nat -> nat) (stop : nat) (body : nat -> A -> option A) (P : list nat -> A -> Prop) :
  (forall y rest a, P (y :: rest) a ->
     y <> stop /\ exists a', body y a = Some a' /\ P rest a' /\ next a' y = hd stop rest) ->
  forall l fuel a, P l a -> length l < fuel ->
  exists a', walk fuel next stop body (hd stop l) a = Some a' /\ P [] a'.
Proof.
  intros Hstep. induction l as [|y rest IH]; intros fuel a HP Hf.
  - destruct fuel; [simpl in Hf; lia|]. simpl. rewrite Nat.eqb_refl. exists a. auto.
  - destruct fuel; [simpl in Hf; lia|]. simpl.
    destruct (Hstep y rest a HP) as [Hne [a' [Hb [HP' Hn]]]].
    apply Nat.eqb_neq in Hne. rewrite Hne, Hb, Hn. apply IH; [exact HP'|]. simpl in Hf. lia.
Qed.
