(* Selecting a row: _cover of every other column of the row (walk to the right), and the symmetric _uncover walk to
   the left, as a sequence of cover_ok steps (LIFO discipline). *)
From Coq Require Import List Arith Bool Lia.
From SV Require Import C07.Dlx C07.DeepLinks C07.DeepBase C07.DeepOps C07.DeepVert C07.DeepRows C07.DeepRep C07.DeepCover.
Import ListNotations.

Definition rowsdel (k : nat) (rows : list grow) : list grow := filter (fun g => negb (ghas k g)) rows.
Fixpoint rmvs (ks : list nat) (l : list nat) : list nat :=
  match ks with [] => l | k :: t => rmvs t (rmv k l) end.
Fixpoint rowsdels (ks : list nat) (rows : list grow) : list grow :=
  match ks with [] => rows | k :: t => rowsdels t (rowsdel k rows) end.

Definition gcol_of (g : grow) (y : nat) : nat :=
  match find (fun p => snd p =? y) (snd g) with Some p => fst p | None => 0 end.
(* the columns covered after the chosen one when the row is selected at its node x, in the order of the code *)
Definition rcols (g : grow) (x : nat) : list nat := map (gcol_of g) (rowrest g x).

Lemma gcol_of_spec g k y : NoDup (gids g) -> In (k, y) (snd g) -> gcol_of g y = k.
Proof.
  unfold gcol_of, gids. induction (snd g) as [|[a b] t IH]; simpl; [tauto|].
  intros Hnd [E|H].
  - inversion E; subst. rewrite Nat.eqb_refl. reflexivity.
  - inversion Hnd as [|? ? Hni Hnd']; subst. destruct (b =? y) eqn:Eb.
    + apply Nat.eqb_eq in Eb. subst. exfalso. apply Hni. apply in_map_iff. exists (k, y). auto.
    + apply IH; assumption.
Qed.

Lemma rmvs_filter ks : forall l, rmvs ks l = filter (fun z => negb (mem z ks)) l.
Proof.
  induction ks as [|k t IH]; intros l; simpl.
  - symmetry. apply filter_id. reflexivity.
  - rewrite IH. unfold rmv. rewrite filter_filter. apply filter_ext. intros z.
    unfold mem. simpl. destruct (z =? k); reflexivity.
Qed.

Lemma rowsdels_filter ks : forall rows, rowsdels ks rows = filter (fun g => disjoint ks (gcols g)) rows.
Proof.
  induction ks as [|k t IH]; intros rows; simpl.
  - symmetry. apply filter_id. reflexivity.
  - rewrite IH. unfold rowsdel. rewrite filter_filter. apply filter_ext. intros g. reflexivity.
Qed.

Lemma rcols_facts g c : GRow g -> ghas c g = true ->
  let x := gcell c g in
  NoDup (rcols g x) /\ (forall k, In k (rcols g x) <-> In k (gcols g) /\ k <> c)
  /\ length (rcols g x) = length (gcols g) - 1
  /\ (forall y, In y (rowrest g x) -> In (gcol_of g y, y) (snd g)).
Proof.
  intros [Hnc Hni] Hc x.
  assert (Hx : In x (gids g)) by (apply gcell_gids; exact Hc).
  assert (Hcell : forall y, In y (rowrest g x) -> In (gcol_of g y, y) (snd g)).
  { intros y Hy. apply rowrest_in in Hy; auto. destruct Hy as [Hy _]. apply gids_cell in Hy.
    destruct Hy as [k Hk]. rewrite (gcol_of_spec g k y Hni Hk). exact Hk. }
  split; [|split; [|split]]; auto.
  - unfold rcols. pose proof (rowrest_nodup g x Hni Hx) as Hnd.
    assert (Hsub : forall y, In y (rowrest g x) -> In (gcol_of g y, y) (snd g)) by exact Hcell.
    revert Hnd Hsub. generalize (rowrest g x). induction l as [|y t IH]; intros Hnd Hsub; simpl; constructor.
    + intros K. apply in_map_iff in K. destruct K as [y' [E Hy']].
      pose proof (Hsub y (or_introl eq_refl)) as A. pose proof (Hsub y' (or_intror Hy')) as B. rewrite E in B.
      assert (y' = y).
      { clear -Hnc A B. unfold gcols in Hnc. induction (snd g) as [|[a b] l IHl]; [contradiction|].
        simpl in Hnc. inversion Hnc as [|? ? Hn1 Hn2]; subst. destruct A as [A|A], B as [B|B].
        - congruence.
        - inversion A; subst. exfalso. apply Hn1. apply in_map_iff. exists (gcol_of g y, y'). auto.
        - inversion B; subst. exfalso. apply Hn1. apply in_map_iff. exists (gcol_of g y, y). auto.
        - apply IHl; assumption. }
      subst. inversion Hnd; contradiction.
    + apply IH; [inversion Hnd; assumption | intros z Hz; apply Hsub; right; exact Hz].
  - intros k. unfold rcols. rewrite in_map_iff. split.
    + intros [y [E Hy]]. pose proof (Hcell y Hy) as Hk. rewrite E in Hk. split.
      * apply in_map_iff. exists (k, y). auto.
      * intros ->. apply rowrest_in in Hy; auto. destruct Hy as [_ Hne]. apply Hne.
        symmetry. apply gcell_unique; assumption.
    + intros [Hk Hne]. apply in_map_iff in Hk. destruct Hk as [[k' y] [E Hky]]. simpl in E. subst k'.
      exists y. split; [apply gcol_of_spec; assumption|].
      apply rowrest_in; auto. split; [apply in_map_iff; exists (k, y); auto|].
      intros ->. apply Hne. eapply cell_inj; eauto. apply gcell_in. exact Hc.
  - unfold rcols. rewrite map_length, rowrest_length by exact Hx. unfold gids, gcols. rewrite !map_length. reflexivity.
Qed.

Lemma Rep_static s nc N G cols scols rows : Rep s nc N G cols scols rows -> Static s nc N G /\ lens s N.
Proof. intros [A [_ [[B _] _]]]. auto. Qed.

Section Multi.
  Variables (nc N : nat) (G : list grow).

  Fixpoint cseq (s : lst) (ks : list nat) (s' : lst) : Prop :=
    match ks with
    | [] => s' = s
    | k :: t => exists m, cover (hdr k) s = Some m /\ uncover (hdr k) m = Some s
                          /\ Static m nc N G /\ lens m N /\ cseq m t s'
    end.

  Lemma cseq_exists : forall ks s cols scols rows,
    Rep s nc N G cols scols rows -> NoDup ks -> incl ks (cols ++ scols) ->
    exists s', cseq s ks s' /\ Rep s' nc N G (rmvs ks cols) (rmvs ks scols) (rowsdels ks rows).
  Proof.
    induction ks as [|k t IH]; intros s cols scols rows HR Hnd Hinc.
    - exists s. split; [reflexivity | exact HR].
    - destruct (cover_ok s nc N G cols scols rows k HR (Hinc k (or_introl eq_refl))) as [m [Hcv [HRm [Hun _]]]].
      inversion Hnd as [|? ? Hk Hnd']; subst.
      destruct (IH m (rmv k cols) (rmv k scols) (rowsdel k rows) HRm Hnd') as [s' [Hs HR']].
      + intros z Hz. assert (Hza : In z (cols ++ scols)) by (apply Hinc; right; exact Hz).
        assert (Hne : z <> k) by (intros ->; contradiction).
        apply in_app_or in Hza. apply in_or_app.
        destruct Hza as [A|A]; [left | right]; apply filter_In; (split; [exact A|]);
          apply negb_true_iff, Nat.eqb_neq; exact Hne.
      + exists s'. split; [|exact HR']. simpl. exists m.
        destruct (Rep_static _ _ _ _ _ _ _ HRm) as [A B]. auto 6.
  Qed.

  Lemma cseq_snoc : forall ks s k s',
    Static s nc N G -> lens s N ->
    cseq s (ks ++ [k]) s' ->
    exists m, cseq s ks m /\ Static m nc N G /\ lens m N /\ cover (hdr k) m = Some s' /\ uncover (hdr k) s' = Some m
              /\ Static s' nc N G /\ lens s' N.
  Proof.
    induction ks as [|k0 t IH]; intros s k s' HS HL H; simpl in H.
    - destruct H as [m [A [B [C [D E]]]]]. subst s'. exists s. simpl. auto 10.
    - destruct H as [m [A [B [C [D E]]]]].
      destruct (IH m k s' C D E) as [m' [F R]]. exists m'. split; [|exact R].
      simpl. exists m. auto 6.
  Qed.

  (* the static right/left ring of the row containing x *)
  Variables (g : grow) (x : nat).
  Hypothesis Hg : In g G.
  Hypothesis Hx : In x (gids g).
  Hypothesis Hcell : forall y, In y (rowrest g x) -> In (gcol_of g y, y) (snd g).

  Lemma static_row s : Static s nc N G ->
    dring (right s) (left s) x (rowrest g x)
    /\ (forall y, In y (rowrest g x) -> column s y = hdr (gcol_of g y))
    /\ length (rowrest g x) <= N /\ ~ In x (rowrest g x).
  Proof.
    intros [W HRow]. destruct (HRow g Hg) as [_ [Hcells Hring]].
    assert (GR : GRow g) by (apply W; exact Hg).
    split; [apply Hring; exact Hx|]. split; [|split].
    - intros y Hy. apply Hcell in Hy. apply Hcells in Hy. tauto.
    - apply nodup_bound; [apply rowrest_nodup; [apply GR | exact Hx]|].
      intros y Hy. apply Hcell in Hy. apply Hcells in Hy. lia.
    - apply rowrest_notin; [apply GR | exact Hx].
  Qed.

  Lemma cseq_last : forall ks s s', Static s nc N G -> lens s N -> cseq s ks s' -> Static s' nc N G /\ lens s' N.
  Proof.
    induction ks as [|k t IH]; intros s s' HS HL H; simpl in H.
    - subst. auto.
    - destruct H as [m [_ [_ [C [D E]]]]]. eapply IH; eauto.
  Qed.

  Lemma cover_others_ok s sK st :
    Static s nc N G -> lens s N -> cseq s (rcols g x) sK ->
    cover_others x (s, st) = Some (sK, bump_cover (length (rcols g x)) st).
  Proof.
    intros HS HL Hseq. unfold cover_others. simpl fst.
    set (body := fun (node : nat) (q : lst * sst) =>
                   match cover (column (fst q) node) (fst q) with
                   | Some s' => Some (s', bump_cover 1 (snd q))
                   | None => None
                   end).
    set (P := fun (irest : list nat) (q : lst * sst) =>
                exists idone, idone ++ irest = rowrest g x /\ Static (fst q) nc N G /\ lens (fst q) N
                              /\ cseq (fst q) (map (gcol_of g) irest) sK /\ snd q = bump_cover (length idone) st).
    destruct (static_row s HS) as [Hring [_ [Hlen Hnx]]].
    destruct (walk_inv (fun q : lst * sst => right (fst q)) x body P) with (l := rowrest g x) (fuel := loop_fuel s) (a := (s, st))
      as [a' [Hw HP]].
    - intros y rest q [idone [Hd [HSq [HLq [Hq Hst]]]]].
      assert (Hy : In y (rowrest g x)) by (rewrite <- Hd; apply in_or_app; right; left; reflexivity).
      split; [intros ->; contradiction|].
      simpl in Hq. destruct Hq as [m [Hcv [Hun [HSm [HLm Hrest]]]]].
      destruct (static_row (fst q) HSq) as [_ [Hcol _]].
      exists (m, bump_cover 1 (snd q)). split; [|split].
      + unfold body. rewrite (Hcol y Hy), Hcv. reflexivity.
      + exists (idone ++ [y]). rewrite <- app_assoc. simpl. split; [exact Hd|]. split; [exact HSm|]. split; [exact HLm|].
        split; [exact Hrest|]. rewrite Hst, app_length. simpl. unfold bump_cover. simpl. f_equal. lia.
      + simpl. destruct (static_row m HSm) as [[Hr _] _]. rewrite <- Hd in Hr. apply chain_at in Hr. exact Hr.
    - exists []. simpl. split; [reflexivity|]. split; [exact HS|]. split; [exact HL|]. split; [exact Hseq|].
      destruct st; unfold bump_cover; simpl. f_equal. lia.
    - unfold loop_fuel. rewrite (lens_n_ids s N HL). lia.
    - destruct Hring as [Hr _]. apply chain_hd in Hr. rewrite Hr. rewrite Hw.
      destruct HP as [idone [Hd [_ [_ [Hq Hst]]]]]. rewrite app_nil_r in Hd. simpl in Hq.
      destruct a' as [a1 a2]. simpl in *. subst. unfold rcols. rewrite map_length. reflexivity.
  Qed.

  Lemma uncover_others_ok s sK :
    Static s nc N G -> lens s N -> cseq s (rcols g x) sK -> uncover_others x sK = Some s.
  Proof.
    intros HS HL Hseq. unfold uncover_others.
    destruct (cseq_last _ _ _ HS HL Hseq) as [HSK HLK].
    set (body := fun (node : nat) (s' : lst) => uncover (column s' node) s').
    set (P := fun (irest : list nat) (t : lst) =>
                exists idone, idone ++ irest = rev (rowrest g x) /\ Static t nc N G /\ lens t N
                              /\ cseq s (map (gcol_of g) (rev irest)) t).
    destruct (static_row sK HSK) as [Hring [_ [Hlen Hnx]]].
    destruct (walk_inv left x body P) with (l := rev (rowrest g x)) (fuel := loop_fuel sK) (a := sK) as [a' [Hw HP]].
    - intros y rest t [idone [Hd [HSt [HLt Hq]]]].
      assert (Hy : In y (rowrest g x)).
      { apply in_rev. rewrite <- Hd. apply in_or_app. right. left. reflexivity. }
      split; [intros ->; contradiction|].
      simpl in Hq. rewrite map_app in Hq. simpl in Hq.
      destruct (cseq_snoc _ _ _ _ HS HL Hq) as [m [Hm [HSm [HLm [_ [Hun _]]]]]].
      destruct (static_row t HSt) as [_ [Hcol _]].
      exists m. split; [|split].
      + unfold body. rewrite (Hcol y Hy). exact Hun.
      + exists (idone ++ [y]). rewrite <- app_assoc. simpl. auto.
      + destruct (static_row m HSm) as [[_ Hr] _]. rewrite <- Hd in Hr. apply chain_at in Hr. exact Hr.
    - exists []. simpl. rewrite rev_involutive. auto.
    - unfold loop_fuel. rewrite (lens_n_ids sK N HLK). rewrite rev_length. lia.
    - destruct Hring as [_ Hr]. apply chain_hd in Hr. rewrite Hr. rewrite Hw.
      destruct HP as [idone [_ [_ [_ Hq]]]]. simpl in Hq. subst. reflexivity.
  Qed.
End Multi.
