(* The abstraction function abs : pointer state -> state of the functional model (active primary columns, active rows),
   the representation invariant LInv, and abs = (cols, rows) for every state related by Rep. *)
From Coq Require Import List Arith Bool Lia Sorted.
From SV Require Import C07.Dlx C07.DeepLinks C07.DeepBase C07.DeepOps C07.DeepVert C07.DeepRows C07.DeepRep C07.DeepCover.
Import ListNotations.

(* ---------------------------------------------------------------- definitions *)
(* x, next x, next (next x), ... up to (excluding) stop *)
Fixpoint ring_list (fuel : nat) (next : nat -> nat) (stop x : nat) : list nat :=
  match fuel with
  | 0 => []
  | S f => if x =? stop then [] else x :: ring_list f next stop (next x)
  end.
Definition ring_of (s : lst) (next : lst -> nat -> nat) (h : nat) : list nat :=
  ring_list (loop_fuel s) (next s) h (next s h).

(* active primary / secondary columns: the header ring from root / secondary_root via `right` *)
Definition acols (s : lst) : list nat := map (fun h => h - 2) (ring_of s right ROOT).
Definition ascols (s : lst) : list nat := map (fun h => h - 2) (ring_of s right SROOT).
(* x is a node (not a header / root): headers carry their own id in `column` *)
Definition is_node (s : lst) (x : nat) : bool := column s x <? x.
(* x is linked into the down-ring of its column and that column is on one of the header rings *)
Definition node_active (s : lst) (x : nat) : bool :=
  mem x (ring_of s down (column s x)) && mem (column s x - 2) (acols s ++ ascols s).
(* the row whose leftmost node is x: its index and its columns (the right-ring of x) *)
Definition row_at (s : lst) (x : nat) : list row :=
  if is_node s x && (x <=? left s x) && node_active s x
  then [(row_id s x, map (fun y => column s y - 2) (x :: ring_of s right x))]
  else [].
Definition arows (s : lst) : list row := flat_map (row_at s) (seq 0 (n_ids s)).
Definition abs (s : lst) : list nat * list row := (acols s, arows s).

(* node ids are allocated row by row, left to right, after the headers *)
Definition GOrd (nc N : nat) (G : list grow) : Prop :=
  concat (map gids G) = seq (2 + nc) (N - (2 + nc)) /\ forall g, In g G -> StronglySorted lt (gids g).
Definition HdrCol (s : lst) (nc : nat) : Prop := forall z, z < 2 + nc -> column s z = z.

(* the representation invariant *)
Definition LInv (s : lst) : Prop :=
  exists nc N G cols scols rows, Rep s nc N G cols scols rows /\ GOrd nc N G /\ HdrCol s nc.

(* ---------------------------------------------------------------- ring_list on a well-formed ring *)
Lemma ring_list_chain f h : forall l a fuel,
  chain f a l h -> ~ In h l -> length l < fuel -> ring_list fuel f h (f a) = l.
Proof.
  induction l as [|x t IH]; intros a fuel Hc Hh Hf.
  - simpl in Hc. destruct fuel; [simpl in Hf; lia|]. simpl. rewrite Hc, Nat.eqb_refl. reflexivity.
  - destruct Hc as [H1 H2]. destruct fuel; [simpl in Hf; lia|]. simpl. rewrite H1.
    assert (E : (x =? h) = false) by (apply Nat.eqb_neq; intros ->; apply Hh; left; reflexivity).
    rewrite E. f_equal. apply IH; [exact H2 | intros K; apply Hh; right; exact K | simpl in Hf; lia].
Qed.

Lemma map_sub2_hdr l : map (fun h => h - 2) (map hdr l) = l.
Proof. rewrite map_map. rewrite <- (map_id l) at 2. apply map_ext. intros a. unfold hdr. lia. Qed.

Lemma flat_map_concat_map {A B C} (f : B -> list C) (g : A -> list B) (l : list A) :
  flat_map f (concat (map g l)) = flat_map (fun a => flat_map f (g a)) l.
Proof. induction l as [|a t IH]; simpl; [reflexivity|]. rewrite flat_map_app, IH. reflexivity. Qed.

Lemma flat_map_if_filter {A B} (p : A -> bool) (f : A -> B) (l : list A) :
  flat_map (fun a => if p a then [f a] else []) l = map f (filter p l).
Proof. induction l as [|a t IH]; simpl; [reflexivity|]. destruct (p a); simpl; rewrite IH; reflexivity. Qed.

Lemma flat_map_all_nil {A B} (f : A -> list B) l : (forall x, In x l -> f x = []) -> flat_map f l = [].
Proof.
  induction l as [|a t IH]; intros H; simpl; [reflexivity|]. rewrite (H a (or_introl eq_refl)). apply IH.
  intros x Hx. apply H. right. exact Hx.
Qed.

Lemma flat_map_ext_in' {A B} (f g : A -> list B) l : (forall x, In x l -> f x = g x) -> flat_map f l = flat_map g l.
Proof.
  induction l as [|a t IH]; intros H; simpl; [reflexivity|]. rewrite (H a (or_introl eq_refl)). f_equal. apply IH.
  intros x Hx. apply H. right. exact Hx.
Qed.

Section AbsRep.
  Variables (s : lst) (nc N : nat) (G : list grow) (cols scols : list nat) (rows : list grow).
  Hypothesis HR : Rep s nc N G cols scols rows.
  Hypothesis HO : GOrd nc N G.
  Hypothesis HC : HdrCol s nc.

  Lemma ar_basic : lens s N /\ 2 + nc <= N /\ loop_fuel s = S N.
  Proof.
    destruct HR as [_ [_ [[HL [HN _]] _]]]. split; [exact HL|]. split; [exact HN|].
    unfold loop_fuel. rewrite (lens_n_ids s N HL). reflexivity.
  Qed.

  Lemma acols_eq : acols s = cols.
  Proof.
    destruct ar_basic as [HL [HN EF]]. destruct HR as [_ [[[R1 _] [_ [Hnd Hlt]]] _]].
    unfold acols, ring_of. rewrite EF, (ring_list_chain (right s) ROOT (map hdr cols) ROOT (S N) R1).
    - apply map_sub2_hdr.
    - intros K. apply in_map_iff in K. destruct K as [k [E _]]. unfold hdr, ROOT in E. lia.
    - rewrite map_length. assert (length (map hdr cols) <= N); [|rewrite map_length in H; lia].
      apply nodup_bound; [apply nodup_map_hdr; eapply nodup_app_l; eauto|].
      intros z Hz. apply in_map_iff in Hz. destruct Hz as [k [<- Hk]].
      specialize (Hlt k (in_or_app _ _ _ (or_introl Hk))). unfold hdr. lia.
  Qed.

  Lemma ascols_eq : ascols s = scols.
  Proof.
    destruct ar_basic as [HL [HN EF]]. destruct HR as [_ [[_ [[R2 _] [Hnd Hlt]]] _]].
    unfold ascols, ring_of. rewrite EF, (ring_list_chain (right s) SROOT (map hdr scols) SROOT (S N) R2).
    - apply map_sub2_hdr.
    - intros K. apply in_map_iff in K. destruct K as [k [E _]]. unfold hdr, SROOT in E. lia.
    - rewrite map_length. assert (length (map hdr scols) <= N); [|rewrite map_length in H; lia].
      apply nodup_bound; [apply nodup_map_hdr; eapply nodup_app_r; eauto|].
      intros z Hz. apply in_map_iff in Hz. destruct Hz as [k [<- Hk]].
      specialize (Hlt k (in_or_app _ _ _ (or_intror Hk))). unfold hdr. lia.
  Qed.

  (* the nodes of one static row contribute the row iff it is active *)
  Lemma row_scan g p : rows = filter p G -> In g G ->
    flat_map (row_at s) (gids g) = if p g then [erase g] else [].
  Proof.
    intros Hp Hg. destruct ar_basic as [HL [HN EF]].
    destruct HR as [[W HRow] [HH [[_ [_ HCol]] [_ Hclo]]]].
    destruct (HRow g Hg) as [Hne [Hcells Hring]].
    assert (GR : GRow g) by (apply W; exact Hg). destruct GR as [Hnc Hni].
    destruct HO as [_ Hsorted]. specialize (Hsorted g Hg).
    destruct (snd g) as [|[c1 n1] cells] eqn:Ecells; [congruence|]. rewrite <- Ecells in Hcells.
    assert (Egids : gids g = n1 :: map snd cells) by (unfold gids; rewrite Ecells; reflexivity).
    set (rest := map snd cells) in *.
    assert (Hn1 : In (c1, n1) (snd g)) by (rewrite Ecells; left; reflexivity).
    destruct (Hcells c1 n1 Hn1) as [Hc1 [Hn1r [Hn1c Hn1row]]].
    assert (Hrr : rowrest g n1 = rest).
    { unfold rowrest. rewrite Egids. simpl. rewrite Nat.eqb_refl. apply app_nil_r. }
    assert (Hring1 : dring (right s) (left s) n1 rest).
    { rewrite <- Hrr. apply Hring. rewrite Egids. left. reflexivity. }
    assert (Hrange : forall y, In y (n1 :: rest) -> 2 + nc <= y < N /\ exists k, In (k, y) (snd g) /\ column s y = hdr k).
    { intros y Hy. rewrite <- Egids in Hy. apply gids_cell in Hy. destruct Hy as [k Hk].
      destruct (Hcells k y Hk) as [A [B [C _]]]. split; [exact B|]. exists k. auto. }
    rewrite Egids. cbn [flat_map].
    (* the non-leftmost nodes contribute nothing *)
    assert (Hrest : flat_map (row_at s) rest = []).
    { assert (Hall : forall l1 y l2, rest = l1 ++ y :: l2 -> row_at s y = []).
      { intros l1 y l2 E. unfold row_at.
        assert (Hl : left s y = last l1 n1) by (rewrite E in Hring1; eapply dring_pred; eauto).
        assert (Hlt : last l1 n1 < y).
        { rewrite Egids, E in Hsorted.
          assert (K : In (last l1 n1) (n1 :: l1)) by apply last_in.
          change (n1 :: l1 ++ y :: l2) with ((n1 :: l1) ++ y :: l2) in Hsorted.
          clear -Hsorted K. induction (n1 :: l1) as [|u t IH]; [contradiction|].
          simpl in Hsorted. inversion Hsorted as [|? ? Hs Hf]; subst. destruct K as [<-|K].
          - rewrite Forall_forall in Hf. apply Hf. apply in_or_app. right. left. reflexivity.
          - apply IH; assumption. }
        assert (E2 : (y <=? left s y) = false) by (apply Nat.leb_gt; rewrite Hl; exact Hlt).
        rewrite E2, andb_false_r. reflexivity. }
      clear -Hall. assert (G : forall done todo, rest = done ++ todo -> flat_map (row_at s) todo = []).
      { intros done todo. revert done. induction todo as [|y t IH]; intros done E; [reflexivity|].
        simpl. rewrite (Hall done y t E). simpl. apply (IH (done ++ [y])). rewrite <- app_assoc. exact E. }
      apply (G [] rest). reflexivity. }
    rewrite Hrest, app_nil_r.
    (* the leftmost node *)
    unfold row_at.
    assert (E1 : is_node s n1 = true) by (unfold is_node; rewrite Hn1c; apply Nat.ltb_lt; unfold hdr; lia).
    assert (E2 : (n1 <=? left s n1) = true).
    { apply Nat.leb_le. destruct Hring1 as [_ H2]. apply chain_hd in H2. rewrite hd_rev in H2. rewrite H2.
      assert (K : In (last rest n1) (n1 :: rest)) by apply last_in.
      destruct K as [K|K]; [lia|]. rewrite Egids in Hsorted. inversion Hsorted as [|? ? _ Hf]; subst.
      rewrite Forall_forall in Hf. specialize (Hf _ K). lia. }
    rewrite E1, E2. cbn [andb].
    assert (E3 : node_active s n1 = p g).
    { unfold node_active. rewrite Hn1c, acols_eq, ascols_eq.
      replace (hdr c1 - 2) with c1 by (unfold hdr; lia).
      destruct (mem c1 (cols ++ scols)) eqn:Eact.
      - rewrite andb_true_r. apply mem_true_iff in Eact. destruct (HCol c1 Eact) as [[R1 _] [Hnd [_ [Hcol _]]]].
        unfold ring_of. rewrite EF. rewrite (ring_list_chain (down s) (hdr c1) (vcol c1 rows) (hdr c1) (S N) R1).
        + destruct (p g) eqn:Epg.
          * apply mem_true_iff. unfold vcol. apply in_map_iff. exists g. split.
            { apply gcell_unique; assumption. }
            { apply filter_In. split; [rewrite Hp; apply filter_In; auto|].
              apply ghas_In. apply in_map_iff. exists (c1, n1). auto. }
          * apply mem_false_iff. intros K. unfold vcol in K. apply in_map_iff in K. destruct K as [g' [Eg' Hg']].
            apply filter_In in Hg'. destruct Hg' as [Hg' Hc'].
            assert (Hg'G : In g' G) by (rewrite Hp in Hg'; apply filter_In in Hg'; tauto).
            assert (g' = g).
            { eapply row_unique; [apply W | exact Hg'G | exact Hg | apply gcell_gids; exact Hc' |].
              rewrite Eg', Egids. left. reflexivity. }
            subst g'. rewrite Hp in Hg'. apply filter_In in Hg'. destruct Hg' as [_ Hg']. congruence.
        + intros K. apply Hcol in K. unfold hdr in K. lia.
        + assert (length (vcol c1 rows) <= N); [|lia]. apply nodup_bound; [exact Hnd|].
          intros z Hz. apply Hcol in Hz. lia.
      - rewrite andb_false_r. destruct (p g) eqn:Epg; [|reflexivity]. exfalso.
        apply mem_false_iff in Eact. apply Eact. apply (Hclo g c1).
        + rewrite Hp. apply filter_In. auto.
        + apply in_map_iff. exists (c1, n1). auto. }
    rewrite E3. destruct (p g); [|reflexivity].
    unfold erase. rewrite Hn1row. f_equal. f_equal.
    unfold ring_of. rewrite EF. destruct Hring1 as [R1 _].
    rewrite (ring_list_chain (right s) n1 rest n1 (S N) R1).
    - change (n1 :: rest) with (map snd ((c1, n1) :: cells)). rewrite <- Ecells.
      unfold gcols. rewrite map_map. apply map_ext_in. intros [k y] Hky. simpl.
      destruct (Hcells k y Hky) as [_ [_ [Ec _]]]. rewrite Ec. unfold hdr. lia.
    - rewrite Egids in Hni. inversion Hni; assumption.
    - assert (length rest <= N); [|lia]. apply nodup_bound.
      + rewrite Egids in Hni. inversion Hni; assumption.
      + intros z Hz. destruct (Hrange z (or_intror Hz)) as [A _]. lia.
  Qed.

  Theorem abs_Rep : abs s = (cols, map erase rows).
  Proof.
    unfold abs. rewrite acols_eq. f_equal.
    destruct ar_basic as [HL [HN EF]]. unfold arows. rewrite (lens_n_ids s N HL).
    replace N with ((2 + nc) + (N - (2 + nc))) at 1 by lia. rewrite seq_app, flat_map_app.
    assert (E0 : flat_map (row_at s) (seq 0 (2 + nc)) = []).
    { apply flat_map_all_nil. intros z Hz. apply in_seq in Hz. unfold row_at, is_node.
      rewrite (HC z) by lia. rewrite Nat.ltb_irrefl. reflexivity. }
    rewrite E0. cbn [app]. change (0 + (2 + nc)) with (2 + nc).
    destruct HO as [Eids _]. rewrite <- Eids. rewrite flat_map_concat_map.
    destruct HR as [_ [_ [_ [[p Hp] _]]]].
    rewrite (flat_map_ext_in' _ (fun g => if p g then [erase g] else [])).
    - rewrite flat_map_if_filter, Hp. reflexivity.
    - intros g Hg. apply row_scan; assumption.
  Qed.
End AbsRep.
