(* The refinement theorems in terms of the abstraction function `abs` and the representation invariant `LInv`. *)
From Coq Require Import List Arith Bool Lia ZArith.
From SV Require Import C07.Dlx C07.DlxSearch.
From SV Require Import C07.DeepLinks C07.DeepBase C07.DeepOps C07.DeepVert C07.DeepRows C07.DeepRep C07.DeepCover C07.DeepMulti
                       C07.DeepSearch C07.DeepAbs C07.DeepBuildAll C07.DeepTop.
Import ListNotations.

(* c is on the primary or on the secondary header ring *)
Definition active (s : lst) (c : nat) : bool := mem c (acols s ++ ascols s).

(* the functional model's step "column c leaves the ring, every row that has c becomes inactive" *)
Definition fstep (c : nat) (a : list nat * list row) : list nat * list row :=
  (remove_cols [c] (fst a), filter (fun r => negb (has c r)) (snd a)).

Lemma rmv_remove_cols c l : rmv c l = remove_cols [c] l.
Proof. unfold rmv, remove_cols. apply filter_ext. intros z. unfold mem. simpl. rewrite orb_false_r. reflexivity. Qed.

Lemma HdrCol_fC s s' nc : HdrCol s nc -> fC s' = fC s -> HdrCol s' nc.
Proof. intros H E z Hz. unfold column. rewrite E. apply H. exact Hz. Qed.

Theorem cover_refines : forall s c,
  LInv s -> active s c = true ->
  exists s', cover (hdr c) s = Some s' /\ LInv s' /\ abs s' = fstep c (abs s).
Proof.
  intros s c [nc [N [G [cols [scols [rows [HR [HO HC]]]]]]]] Hact.
  unfold active in Hact. rewrite (acols_eq s nc N G cols scols rows HR), (ascols_eq s nc N G cols scols rows HR) in Hact.
  apply mem_true_iff in Hact.
  destruct (cover_ok s nc N G cols scols rows c HR Hact) as [s' [Hcv [HR' [_ [_ EC]]]]].
  exists s'. split; [exact Hcv|].
  assert (HC' : HdrCol s' nc) by (eapply HdrCol_fC; eauto).
  split.
  - exists nc, N, G, (rmv c cols), (rmv c scols), (filter (fun g => negb (ghas c g)) rows). auto.
  - rewrite (abs_Rep s' nc N G _ _ _ HR' HO HC'), (abs_Rep s nc N G _ _ _ HR HO HC).
    unfold fstep. cbn [fst snd]. rewrite rmv_remove_cols. f_equal. rewrite filter_map_comm. reflexivity.
Qed.

Theorem uncover_inverse : forall s c s',
  LInv s -> active s c = true -> cover (hdr c) s = Some s' -> uncover (hdr c) s' = Some s.
Proof.
  intros s c s' [nc [N [G [cols [scols [rows [HR [HO HC]]]]]]]] Hact Hcv.
  unfold active in Hact. rewrite (acols_eq s nc N G cols scols rows HR), (ascols_eq s nc N G cols scols rows HR) in Hact.
  apply mem_true_iff in Hact.
  destruct (cover_ok s nc N G cols scols rows c HR Hact) as [s1 [Hcv1 [_ [Hun _]]]].
  rewrite Hcv in Hcv1. inversion Hcv1; subst. exact Hun.
Qed.

(* nested covers are undone by the uncovers in the reverse order (LIFO) *)
Fixpoint cover_all (ks : list nat) (s : lst) : option lst :=
  match ks with
  | [] => Some s
  | k :: t => match cover (hdr k) s with Some s1 => cover_all t s1 | None => None end
  end.
Fixpoint uncover_all (ks : list nat) (s : lst) : option lst :=
  match ks with
  | [] => Some s
  | k :: t => match uncover (hdr k) s with Some s1 => uncover_all t s1 | None => None end
  end.

Lemma uncover_all_app a b s :
  uncover_all (a ++ b) s = match uncover_all a s with Some s1 => uncover_all b s1 | None => None end.
Proof.
  revert s. induction a as [|k t IH]; intros s; simpl; [reflexivity|].
  destruct (uncover (hdr k) s); [apply IH | reflexivity].
Qed.

Lemma cseq_all nc N G : forall ks s s', cseq nc N G s ks s' ->
  cover_all ks s = Some s' /\ uncover_all (rev ks) s' = Some s.
Proof.
  induction ks as [|k t IH]; intros s s' H; simpl in H.
  - subst. auto.
  - destruct H as [m [Hcv [Hun [_ [_ Hrest]]]]]. destruct (IH m s' Hrest) as [A B].
    simpl. rewrite Hcv. split; [exact A|]. rewrite uncover_all_app, B. simpl. rewrite Hun. reflexivity.
Qed.

Theorem uncover_inverse_nested : forall s ks,
  LInv s -> NoDup ks -> (forall k, In k ks -> active s k = true) ->
  exists s', cover_all ks s = Some s' /\ LInv s' /\ uncover_all (rev ks) s' = Some s.
Proof.
  intros s ks [nc [N [G [cols [scols [rows [HR [HO HC]]]]]]]] Hnd Hact.
  assert (Hinc : incl ks (cols ++ scols)).
  { intros k Hk. specialize (Hact k Hk). unfold active in Hact.
    rewrite (acols_eq s nc N G cols scols rows HR), (ascols_eq s nc N G cols scols rows HR) in Hact.
    apply mem_true_iff. exact Hact. }
  assert (Gen : forall ks s cols scols rows, Rep s nc N G cols scols rows -> NoDup ks -> incl ks (cols ++ scols) ->
            exists s', cseq nc N G s ks s' /\ Rep s' nc N G (rmvs ks cols) (rmvs ks scols) (rowsdels ks rows) /\ fC s' = fC s).
  { clear. induction ks as [|k t IH]; intros s cols scols rows HR Hnd Hinc.
    - exists s. simpl. auto.
    - destruct (cover_ok s nc N G cols scols rows k HR (Hinc k (or_introl eq_refl))) as [m [Hcv [HRm [Hun [_ EC]]]]].
      inversion Hnd as [|? ? Hk Hnd']; subst.
      destruct (IH m (rmv k cols) (rmv k scols) (rowsdel k rows) HRm Hnd') as [s' [Hs [HR' EC']]].
      + intros z Hz. assert (Hza : In z (cols ++ scols)) by (apply Hinc; right; exact Hz).
        assert (Hne : z <> k) by (intros ->; contradiction).
        apply in_app_or in Hza. apply in_or_app.
        destruct Hza as [A|A]; [left | right]; apply filter_In; (split; [exact A|]);
          apply negb_true_iff, Nat.eqb_neq; exact Hne.
      + exists s'. split; [|split; [exact HR' | rewrite EC', EC; reflexivity]]. simpl. exists m.
        destruct (Rep_static _ _ _ _ _ _ _ HRm) as [A B]. auto 6. }
  destruct (Gen ks s cols scols rows HR Hnd Hinc) as [s' [Hseq [HR' EC]]].
  destruct (cseq_all nc N G ks s s' Hseq) as [A B].
  exists s'. split; [exact A|]. split; [|exact B].
  exists nc, N, G, (rmvs ks cols), (rmvs ks scols), (rowsdels ks rows).
  split; [exact HR'|]. split; [exact HO | eapply HdrCol_fC; eauto].
Qed.

Theorem build_refines : forall inp,
  rows_in_range (length (col_names inp)) (mk_rows (matrix inp)) = true ->
  exists s, build_links inp = Some s /\ LInv s
            /\ abs s = (prim_cols inp, filter nonemptyb (mk_rows (matrix inp))).
Proof.
  intros inp Hr. destruct (build_links_ok inp Hr) as [s [N [G [Eb [HR [HO [HC EG]]]]]]].
  exists s. split; [exact Eb|]. split.
  - exists (length (col_names inp)), N, G, (prim_cols inp), (sec_cols inp), G. auto.
  - rewrite (abs_Rep s _ N G _ _ _ HR HO HC), EG. reflexivity.
Qed.

(* the search on any represented state: same flag, same counters / solutions; an unsuccessful search restores the
   links exactly *)
Theorem search_refines_state : forall fa ms mi f s cur st b st',
  LInv s ->
  search fa ms mi f (fst (abs s)) (snd (abs s)) cur st = Some (b, st') ->
  exists s', psearch fa ms mi f s cur st = Some (b, st', s') /\ (b = false -> s' = s).
Proof.
  intros fa ms mi f s cur st b st' [nc [N [G [cols [scols [rows [HR [HO HC]]]]]]]] Hs.
  rewrite (abs_Rep s nc N G _ _ _ HR HO HC) in Hs. cbn [fst snd] in Hs.
  exact (psearch_refines fa ms mi nc N G f s cols scols rows cur st b st' HR Hs).
Qed.

Theorem search_refines : forall inp, psolve inp = solve inp.
Proof. exact psolve_eq_solve. Qed.
