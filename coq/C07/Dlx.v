(* Model of solvor/dlx.py (solve_exact_cover, _build_links, _cover/_uncover, search).  Definitions only.

   Shape A, no pointers.  The dancing-links structure is replaced by what it denotes:
     - the header ring reachable from `root`            -> ordered list of ACTIVE PRIMARY columns
     - the nodes still linked into the column lists      -> ordered list of ACTIVE ROWS,
       a row = (row index, list of the columns in which the row has a truthy entry, ascending)
     - `col.size`                                        -> number of active rows that contain the column
   `_cover(col)` unlinks col from its header ring and unlinks every row that has a node in col from all
   OTHER columns; the rows of a column were appended bottom-most by _build_links in increasing row index and
   _uncover relinks in exactly the reverse order, so a column list is always "active rows containing it,
   by increasing row index".  Selecting row r in search() = cover(min_col) + cover of every other column of
   r = all columns of r leave the rings and every active row sharing a column with r becomes inactive.
   (Every column of an active row is still uncovered, hence `covers` grows by the full length of the row.)
   Secondary columns live on a separate ring that search() never walks: they are never chosen, but they
   are covered together with a selected row.  A row with no primary column is never selected.
   That this denotation is what the pointer code computes is NOT proved here; it is checked on every run by
   the correspondence lemmas (ordered solution list, `iterations` and `evaluations` (= covers) counters,
   status and objective are all compared, so a cover/uncover asymmetry would show as a different trace).

   Python ints: indices / counters -> nat, max_iter / max_solutions -> Z (may be 0 or negative).
   Column names (arbitrary hashables) -> nat by the harness (identity for the default names 0..n-1).
   Recursion of search(): explicit fuel = number of primary columns + 1; exhaustion = OutOfFuel
   (proved impossible in DlxProofs*.v).  `IndexError` = the exception raised by col_headers[col_idx]. *)
From Coq Require Import List Arith Bool ZArith.
From SV Require Import Common.Corr.
Import ListNotations.

Record input := {
  matrix : list (list bool);          (* truthiness of the entries *)
  columns : option (list nat);        (* columns=  (None or names) *)
  secondary : list nat;               (* secondary= (None = []) *)
  find_all : bool;
  max_solutions : option Z;
  max_iter : Z
}.

Inductive status := OPTIMAL | FEASIBLE | INFEASIBLE | MAX_ITER.
Inductive sol := SNone | SOne (s : list nat) | SMany (l : list (list nat)).
Record result := { r_sol : sol; r_obj : nat; r_iters : nat; r_evals : nat; r_status : status }.
Inductive outcome := Done (r : result) | IndexError | OutOfFuel.

Definition mem (x : nat) (l : list nat) : bool := existsb (Nat.eqb x) l.

(* ---- _build_links ---- *)
Definition n_cols (inp : input) : nat := length (hd [] (matrix inp)).
(* col_names = columns if columns else list(range(n_cols)) *)
Definition col_names (inp : input) : list nat :=
  match columns inp with
  | Some (c :: cs) => c :: cs
  | _ => seq 0 (n_cols inp)
  end.
Definition is_secondary (inp : input) (i : nat) : bool := mem (nth i (col_names inp) 0) (secondary inp).
Definition prim_cols (inp : input) : list nat :=
  filter (fun i => negb (is_secondary inp i)) (seq 0 (length (col_names inp))).
Definition sec_cols (inp : input) : list nat :=
  filter (fun i => is_secondary inp i) (seq 0 (length (col_names inp))).

Definition row := (nat * list nat)%type.

(* for col_idx, val in enumerate(row): if val: ... *)
Fixpoint row_cols_from (j : nat) (r : list bool) : list nat :=
  match r with
  | [] => []
  | b :: t => if b then j :: row_cols_from (S j) t else row_cols_from (S j) t
  end.
(* for row_idx, row in enumerate(matrix) *)
Fixpoint mk_rows_from (i : nat) (m : list (list bool)) : list row :=
  match m with
  | [] => []
  | r :: t => (i, row_cols_from 0 r) :: mk_rows_from (S i) t
  end.
Definition mk_rows (m : list (list bool)) : list row := mk_rows_from 0 m.

(* ---- search state (the nonlocal counters and the solutions list, newest first) ---- *)
Record sst := { iters : nat; covers : nat; sols : list (list nat) }.
Definition bump_iter (st : sst) : sst := {| iters := S (iters st); covers := covers st; sols := sols st |}.
Definition bump_cover (k : nat) (st : sst) : sst := {| iters := iters st; covers := covers st + k; sols := sols st |}.
Definition add_sol (s : list nat) (st : sst) : sst := {| iters := iters st; covers := covers st; sols := s :: sols st |}.

Definition has (c : nat) (r : row) : bool := mem c (snd r).
Definition size (rows : list row) (c : nat) : nat := length (filter (has c) rows).
Definition disjoint (a b : list nat) : bool := forallb (fun x => negb (mem x b)) a.
(* columns leaving the ring / rows becoming inactive when row r is selected *)
Definition remove_cols (rc : list nat) (cols : list nat) : list nat := filter (fun c => negb (mem c rc)) cols.
Definition remove_rows (r : row) (rows : list row) : list row := filter (fun r' => disjoint (snd r) (snd r')) rows.

(* min_col / min_size loop: first column of strictly smaller size, break at size 0 *)
Fixpoint choose_loop (rows : list row) (cols : list nat) (best : option (nat * nat)) : option (nat * nat) :=
  match cols with
  | [] => best
  | c :: rest =>
      let s := size rows c in
      let better := match best with None => true | Some (_, bs) => s <? bs end in
      if better then (if s =? 0 then Some (c, s) else choose_loop rows rest (Some (c, s)))
      else choose_loop rows rest best
  end.

Section Search.
  Variable fa : bool.            (* find_all *)
  Variable ms : option Z.        (* max_solutions *)
  Variable mi : Z.               (* max_iter *)

  (* `max_solutions and len(solutions) >= max_solutions` *)
  Definition ms_hit (n : nat) : bool :=
    match ms with
    | None => false
    | Some k => negb (k =? 0)%Z && (k <=? Z.of_nat n)%Z
    end.

  (* the `while row_node is not min_col` loop; `rec r st` is the recursive search() after selecting r *)
  Fixpoint try_rows (rec : row -> sst -> option (bool * sst)) (cands : list row) (st : sst)
    : option (bool * sst) :=
    match cands with
    | [] => Some (false, st)                                   (* _uncover(min_col); return False *)
    | r :: rest =>
        match rec r (bump_cover (length (snd r) - 1) st) with  (* cover the other columns of r *)
        | None => None
        | Some (true, st') =>
            if negb fa then Some (true, st')
            else if ms_hit (length (sols st')) then Some (true, st')
            else try_rows rec rest st'
        | Some (false, st') => try_rows rec rest st'
        end
    end.

  Fixpoint search (fuel : nat) (cols : list nat) (rows : list row) (cur : list nat) (st : sst)
    : option (bool * sst) :=
    match fuel with
    | 0 => None
    | S f =>
        let st1 := bump_iter st in                              (* iterations += 1 *)
        if (mi <? Z.of_nat (iters st1))%Z then Some (false, st1)  (* if iterations > max_iter: return False *)
        else
          match cols with
          | [] =>                                               (* root.right is root *)
              let st2 := add_sol (rev cur) st1 in
              if negb fa then Some (true, st2)
              else if ms_hit (length (sols st2)) then Some (true, st2)
              else Some (false, st2)
          | _ :: _ =>
              match choose_loop rows cols None with
              | None => Some (false, st1)                       (* min_col is None *)
              | Some (c, sz) =>
                  if sz =? 0 then Some (false, st1)
                  else
                    try_rows
                      (fun r st' => search f (remove_cols (snd r) cols) (remove_rows r rows) (fst r :: cur) st')
                      (filter (has c) rows)
                      (bump_cover 1 st1)                        (* _cover(min_col); covers += 1 *)
              end
          end
    end.
End Search.

(* `root is None` early return (_build_links returns None for `not matrix or not matrix[0]`):
     if find_all: status = FEASIBLE if max_solutions and max_solutions <= 1 else OPTIMAL; Result([()], 1, 0, 0, status)
     return Result((), 0, 0, 0) *)
Definition degenerate_result (fa : bool) (ms : option Z) : result :=
  if fa then {| r_sol := SMany [[]]; r_obj := 1; r_iters := 0; r_evals := 0;
                r_status := if ms_hit ms 1 then FEASIBLE else OPTIMAL |}
  else {| r_sol := SOne []; r_obj := 0; r_iters := 0; r_evals := 0; r_status := OPTIMAL |}.

Definition init_st : sst := {| iters := 0; covers := 0; sols := [] |}.

(* lines 302-315 *)
Definition finish (fa : bool) (ms : option Z) (mi : Z) (st : sst) : result :=
  let sl := rev (sols st) in
  let it := iters st in
  let cv := covers st in
  if (mi <? Z.of_nat it)%Z then
    match sl with
    | [] => {| r_sol := SNone; r_obj := 0; r_iters := it; r_evals := cv; r_status := MAX_ITER |}
    | s0 :: _ =>
        {| r_sol := if fa then SMany sl else SOne s0;
           r_obj := if fa then length sl else length s0;
           r_iters := it; r_evals := cv; r_status := MAX_ITER |}
    end
  else
    match sl with
    | [] => {| r_sol := SNone; r_obj := 0; r_iters := it; r_evals := cv; r_status := INFEASIBLE |}
    | s0 :: _ =>
        if fa then
          {| r_sol := SMany sl; r_obj := length sl; r_iters := it; r_evals := cv;
             r_status := if ms_hit ms (length sl) then FEASIBLE else OPTIMAL |}
        else
          {| r_sol := SOne s0; r_obj := length s0; r_iters := it; r_evals := cv; r_status := OPTIMAL |}
    end.

Definition rows_in_range (nc : nat) (rows : list row) : bool :=
  forallb (fun r : row => forallb (fun c => c <? nc) (snd r)) rows.

Definition degenerate (inp : input) : bool :=
  match matrix inp with
  | [] => true            (* not matrix *)
  | [] :: _ => true       (* not matrix[0] *)
  | _ => false
  end.

Definition fuel_of (inp : input) : nat := S (length (prim_cols inp)).

Definition solve (inp : input) : outcome :=
  if degenerate inp then Done (degenerate_result (find_all inp) (max_solutions inp))
  else
    let rows := mk_rows (matrix inp) in
    if negb (rows_in_range (length (col_names inp)) rows) then IndexError
    else
      match search (find_all inp) (max_solutions inp) (max_iter inp)
                   (fuel_of inp) (prim_cols inp) rows [] init_st with
      | None => OutOfFuel
      | Some (_, st) => Done (finish (find_all inp) (max_solutions inp) (max_iter inp) st)
      end.

(* the selections a result contains, whatever its shape *)
Definition selections (r : result) : list (list nat) :=
  match r_sol r with
  | SNone => []
  | SOne s => [s]
  | SMany l => l
  end.

(* real calls give a name to every matrix column *)
Definition valid_input (inp : input) : bool := length (col_names inp) =? n_cols inp.

(* ---- boolean equality of outcomes, for the correspondence check ---- *)
Definition status_eqb (a b : status) : bool :=
  match a, b with
  | OPTIMAL, OPTIMAL | FEASIBLE, FEASIBLE | INFEASIBLE, INFEASIBLE | MAX_ITER, MAX_ITER => true
  | _, _ => false
  end.
Definition sol_eqb (a b : sol) : bool :=
  match a, b with
  | SNone, SNone => true
  | SOne x, SOne y => list_eqb Nat.eqb x y
  | SMany x, SMany y => list_eqb (list_eqb Nat.eqb) x y
  | _, _ => false
  end.
Definition result_eqb (a b : result) : bool :=
  sol_eqb (r_sol a) (r_sol b) && (r_obj a =? r_obj b) && (r_iters a =? r_iters b)
  && (r_evals a =? r_evals b) && status_eqb (r_status a) (r_status b).
Definition outcome_eqb (a b : outcome) : bool :=
  match a, b with
  | Done x, Done y => result_eqb x y
  | IndexError, IndexError => true
  | _, _ => false
  end.
