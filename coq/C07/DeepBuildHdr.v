(* _build_links, part 1: the two header rings (primary columns on root, secondary columns on secondary_root). *)
From Coq Require Import List Arith Bool Lia.
From SV Require Import C07.Dlx C07.DeepLinks C07.DeepBase C07.DeepOps C07.DeepVert C07.DeepRows C07.DeepRep C07.DeepBuildBase.
Import ListNotations.

Lemma get_seq n z : get (seq 0 n) z = if z <? n then z else 0.
Proof.
  unfold get. destruct (z <? n) eqn:E.
  - apply Nat.ltb_lt in E. rewrite seq_nth by exact E. reflexivity.
  - apply Nat.ltb_ge in E. apply nth_overflow. rewrite seq_length. exact E.
Qed.

Lemma get_repeat0 n z : get (repeat 0 n) z = 0.
Proof. unfold get. revert z. induction n as [|n IH]; intros [|z]; simpl; auto. Qed.

Lemma init_lens nh : lens (init_links nh) (2 + nh).
Proof. unfold lens, init_links. cbn [fL fR fU fD fC fRow fS]. rewrite !seq_length, !repeat_length. tauto. Qed.

Lemma path_except_last f f' l a :
  path f a l -> NoDup (a :: l) -> (forall y, y <> last l a -> f' y = f y) -> path f' a l.
Proof.
  intros Hp Hnd He.
  apply path_ext with (f := fun y => if y =? last l a then f' (last l a) else f y).
  - intros y _. destruct (y =? last l a) eqn:E; [apply Nat.eqb_eq in E; subst; reflexivity|].
    apply Nat.eqb_neq in E. apply He. exact E.
  - apply path_redirect; auto.
Qed.

Lemma last_in_map_hdr done root : In (last (map hdr done) root) (root :: map hdr done).
Proof. apply last_in. Qed.

Section Link.
  Variables (sel : nat -> bool) (root N : nat).
  Hypothesis Hroot : root < 2.
  Hypothesis HN : 2 <= N.

  Lemma link_headers_spec : forall idxs done prev s,
    lens s N -> (forall i, In i (done ++ idxs) -> hdr i < N) -> NoDup (done ++ idxs) ->
    prev = last (map hdr done) root ->
    path (right s) root (map hdr done) -> bpath (left s) root (map hdr done) ->
    let r := link_headers sel idxs prev s in
    let done' := done ++ filter sel idxs in
    fst r = last (map hdr done') root /\ path (right (snd r)) root (map hdr done')
    /\ bpath (left (snd r)) root (map hdr done') /\ lens (snd r) N
    /\ fU (snd r) = fU s /\ fD (snd r) = fD s /\ fC (snd r) = fC s /\ fRow (snd r) = fRow s /\ fS (snd r) = fS s
    /\ (forall z, z <> prev -> (forall i, In i idxs -> sel i = true -> z <> hdr i) ->
          left (snd r) z = left s z /\ right (snd r) z = right s z).
  Proof.
    induction idxs as [|i t IH]; intros done prev s HL Hb Hnd Hprev Hp Hbp.
    - cbn [link_headers filter fst snd]. rewrite app_nil_r. auto 20.
    - cbn [link_headers filter]. destruct (sel i) eqn:Esel.
      + assert (Hcol : hdr i < N) by (apply Hb; apply in_or_app; right; left; reflexivity).
        assert (Hprevin : In prev (root :: map hdr done)) by (rewrite Hprev; apply last_in).
        assert (Hprevlt : prev < N).
        { destruct Hprevin as [<-|K]; [lia|]. apply in_map_iff in K. destruct K as [k [<- Hk]].
          apply Hb. apply in_or_app. left. exact Hk. }
        assert (Hndr : NoDup (root :: map hdr done)).
        { apply ring_nodup; [exact Hroot | eapply nodup_app_l; eauto]. }
        assert (Hinot : ~ In i done).
        { intros K. apply (nodup_app_disj _ _ Hnd i K). left. reflexivity. }
        assert (Hcolnot : ~ In (hdr i) (root :: map hdr done)).
        { intros [K|K]; [unfold hdr in K; lia|]. apply (proj1 (in_map_hdr i done)) in K. contradiction. }
        set (s1 := setL s (hdr i) prev). set (s2 := setR s1 prev (hdr i)).
        assert (HL1 : lens s1 N) by (apply lens_setL; exact HL).
        assert (HL2 : lens s2 N) by (apply lens_setR; exact HL1).
        assert (ER : forall y, right s2 y = if y =? prev then (hdr i) else right s y).
        { intros y. unfold s2. rewrite (right_setR s1 N) by assumption. reflexivity. }
        assert (EL : forall y, left s2 y = if y =? (hdr i) then prev else left s y).
        { intros y. unfold s2, s1. change (left (setR (setL s (hdr i) prev) prev (hdr i)) y) with (left (setL s (hdr i) prev) y).
          apply (left_setL s N); assumption. }
        destruct (IH (done ++ [i]) (hdr i) s2) as [A [B [C [D [E1 [E2 [E3 [E4 [E5 F]]]]]]]]].
        * exact HL2.
        * intros k Hk. apply Hb. rewrite <- app_assoc in Hk. exact Hk.
        * rewrite <- app_assoc. exact Hnd.
        * rewrite map_app. simpl. rewrite last_last. reflexivity.
        * rewrite map_app. simpl. apply path_snoc with (f := right s); auto.
          { intros y Hy. rewrite ER. rewrite <- Hprev in Hy. apply Nat.eqb_neq in Hy. rewrite Hy. reflexivity. }
          { rewrite ER, <- Hprev, Nat.eqb_refl. reflexivity. }
        * rewrite map_app. simpl. apply bpath_snoc with (g := left s); auto.
          { intros K. apply Hcolnot. right. exact K. }
          { intros y Hy. rewrite EL. apply Nat.eqb_neq in Hy. rewrite Hy. reflexivity. }
          { rewrite EL, Nat.eqb_refl. exact Hprev. }
        * rewrite <- app_assoc in A, B, C. simpl in A, B, C.
          split; [exact A|]. split; [exact B|]. split; [exact C|]. split; [exact D|].
          split; [exact E1|]. split; [exact E2|]. split; [exact E3|]. split; [exact E4|]. split; [exact E5|].
          intros z Hz1 Hz2.
          assert (Hzc : z <> hdr i) by (apply Hz2; [left; reflexivity | exact Esel]).
          destruct (F z Hzc) as [F1 F2].
          { intros k Hk Hs. apply Hz2; [right; exact Hk | exact Hs]. }
          rewrite F1, F2, EL, ER. apply Nat.eqb_neq in Hz1, Hzc. rewrite Hz1, Hzc. auto.
      + destruct (IH done prev s) as [A [B [C [D [E1 [E2 [E3 [E4 [E5 F]]]]]]]]]; auto.
        * intros k Hk. apply Hb. apply in_app_or in Hk. apply in_or_app. destruct Hk; [left | right; right]; assumption.
        * apply NoDup_remove_1 in Hnd. exact Hnd.
        * split; [exact A|]. split; [exact B|]. split; [exact C|]. split; [exact D|].
          split; [exact E1|]. split; [exact E2|]. split; [exact E3|]. split; [exact E4|]. split; [exact E5|].
          intros z Hz1 Hz2. apply F; [exact Hz1|]. intros k Hk Hs. apply Hz2; [right; exact Hk | exact Hs].
  Qed.

  (* linking all of idxs from scratch and closing the ring *)
  Lemma ring_built idxs s :
    lens s N -> (forall i, In i idxs -> hdr i < N) -> NoDup idxs ->
    let s' := close_ring root (link_headers sel idxs root s) in
    dring (right s') (left s') root (map hdr (filter sel idxs)) /\ lens s' N
    /\ fU s' = fU s /\ fD s' = fD s /\ fC s' = fC s /\ fRow s' = fRow s /\ fS s' = fS s
    /\ (forall z, z <> root -> (forall i, In i idxs -> sel i = true -> z <> hdr i) ->
          left s' z = left s z /\ right s' z = right s z).
  Proof.
    intros HL Hb Hnd.
    destruct (link_headers_spec idxs [] root s HL Hb Hnd eq_refl I I) as [A [B [C [D [E1 [E2 [E3 [E4 [E5 F]]]]]]]]].
    simpl app in *. destruct (link_headers sel idxs root s) as [prev s1] eqn:El. simpl fst in *. simpl snd in *.
    cbn [close_ring]. set (l := map hdr (filter sel idxs)) in *.
    assert (Hndr : NoDup (root :: l)).
    { apply ring_nodup; [exact Hroot | apply NoDup_filter; exact Hnd]. }
    assert (Hprevlt : prev < N).
    { assert (K : In prev (root :: l)) by (rewrite A; apply last_in).
      destruct K as [<-|K]; [lia|]. apply in_map_iff in K. destruct K as [k [<- Hk]].
      apply Hb. apply filter_In in Hk. tauto. }
    set (s2 := setR s1 prev root). set (s3 := setL s2 root prev).
    assert (HL2 : lens s2 N) by (apply lens_setR; exact D).
    assert (ER : forall y, right s3 y = if y =? prev then root else right s1 y).
    { intros y. change (right s3 y) with (right s2 y). apply (right_setR s1 N); assumption. }
    assert (EL : forall y, left s3 y = if y =? root then prev else left s1 y).
    { intros y. unfold s3. rewrite (left_setL s2 N) by (assumption || lia). reflexivity. }
    split; [split|].
    - apply chain_of_path.
      + apply path_except_last with (f := right s1); auto.
        intros y Hy. rewrite ER. rewrite <- A in Hy. apply Nat.eqb_neq in Hy. rewrite Hy. reflexivity.
      + rewrite ER, <- A, Nat.eqb_refl. reflexivity.
    - apply rchain_of_bpath.
      + apply bpath_ext with (g := left s1); [|exact C]. intros y Hy. rewrite EL.
        assert (y <> root) by (intros ->; inversion Hndr; contradiction).
        apply Nat.eqb_neq in H. rewrite H. reflexivity.
      + rewrite EL, Nat.eqb_refl. exact A.
    - split; [apply lens_setL; exact HL2|].
      split; [exact E1|]. split; [exact E2|]. split; [exact E3|]. split; [exact E4|]. split; [exact E5|].
      intros z Hz1 Hz2. destruct (Nat.eq_dec z prev) as [->|Hzp].
      + (* prev is root or a selected header *)
        exfalso. assert (K : In prev (root :: l)) by (rewrite A; apply last_in).
        destruct K as [K|K]; [congruence|]. apply in_map_iff in K. destruct K as [k [Ek Hk]].
        apply filter_In in Hk. destruct Hk as [Hk Hs]. apply (Hz2 k Hk Hs). symmetry. exact Ek.
      + destruct (F z Hz1 Hz2) as [F1 F2]. rewrite EL, ER.
        apply Nat.eqb_neq in Hz1, Hzp. rewrite Hz1, Hzp. auto.
  Qed.
End Link.

(* ---------------------------------------------------------------- the state before the rows are added *)
Definition headers_state (inp : input) : lst :=
  let nh := length (col_names inp) in
  let idxs := seq 0 nh in
  let s0 := init_links nh in
  let s1 := close_ring ROOT (link_headers (fun i => negb (is_secondary inp i)) idxs ROOT s0) in
  close_ring SROOT (link_headers (fun i => is_secondary inp i) idxs SROOT s1).

Lemma prim_sec_all inp j : j < length (col_names inp) -> In j (prim_cols inp ++ sec_cols inp).
Proof.
  intros H. apply in_or_app. unfold prim_cols, sec_cols.
  destruct (is_secondary inp j) eqn:E; [right | left]; apply filter_In; (split; [apply in_seq; lia|]); rewrite E; reflexivity.
Qed.

Lemma prim_sec_nodup inp : NoDup (prim_cols inp ++ sec_cols inp) /\
  forall j, In j (prim_cols inp ++ sec_cols inp) -> j < length (col_names inp).
Proof.
  unfold prim_cols, sec_cols. split.
  - apply nodup_app_intro; try (apply NoDup_filter; apply seq_NoDup).
    intros x A B. apply filter_In in A, B. destruct A as [_ A], B as [_ B]. rewrite B in A. discriminate.
  - intros j Hj. apply in_app_or in Hj. destruct Hj as [Hj|Hj]; apply filter_In in Hj; destruct Hj as [Hj _];
      apply in_seq in Hj; lia.
Qed.

Lemma headers_ok inp :
  let nh := length (col_names inp) in
  Rep (headers_state inp) nh (2 + nh) [] (prim_cols inp) (sec_cols inp) [].
Proof.
  intros nh. unfold headers_state. fold nh.
  set (idxs := seq 0 nh). set (s0 := init_links nh).
  assert (HL0 : lens s0 (2 + nh)) by apply init_lens.
  assert (Hb : forall i, In i idxs -> hdr i < 2 + nh).
  { intros i Hi. apply in_seq in Hi. unfold hdr. lia. }
  assert (Hnd : NoDup idxs) by apply seq_NoDup.
  destruct (ring_built (fun i => negb (is_secondary inp i)) ROOT (2 + nh) ltac:(unfold ROOT; lia) ltac:(lia) idxs s0 HL0 Hb Hnd)
    as [R1 [HL1 [U1 [D1 [C1 [W1 [S1 F1]]]]]]].
  set (s1 := close_ring ROOT (link_headers (fun i => negb (is_secondary inp i)) idxs ROOT s0)) in *.
  destruct (ring_built (fun i => is_secondary inp i) SROOT (2 + nh) ltac:(unfold SROOT; lia) ltac:(lia) idxs s1 HL1 Hb Hnd)
    as [R2 [HL2 [U2 [D2 [C2 [W2 [S2 F2]]]]]]].
  set (s2 := close_ring SROOT (link_headers (fun i => is_secondary inp i) idxs SROOT s1)) in *.
  destruct (prim_sec_nodup inp) as [Hndps Hltps].
  split; [|split; [|split; [|split]]].
  - split; [split; [intros g [] | constructor] | intros g []].
  - split; [|split; [exact R2|split; [exact Hndps | exact Hltps]]].
    (* the primary ring is not touched by the secondary linking *)
    eapply dring_ext; [|exact R1]. intros z Hz.
    assert (Hz1 : z <> SROOT).
    { intros ->. destruct Hz as [K|K]; [unfold ROOT, SROOT in K; discriminate|].
      apply in_map_iff in K. destruct K as [k [E _]]. unfold hdr, SROOT in E. lia. }
    assert (Hz2 : forall i, In i idxs -> is_secondary inp i = true -> z <> hdr i).
    { intros i Hi Hs ->. destruct Hz as [K|K]; [unfold ROOT, hdr in K; lia|].
      apply (proj1 (in_map_hdr _ _)) in K. apply filter_In in K. destruct K as [_ K]. rewrite Hs in K. discriminate. }
    destruct (F2 z Hz1 Hz2) as [A B]. auto.
  - split; [exact HL2|]. split; [lia|]. intros j Hj. apply Hltps in Hj. fold nh in Hj.
    assert (Hh : hdr j < 2 + nh) by (unfold hdr; lia).
    assert (Ed : down s2 (hdr j) = hdr j).
    { unfold down. rewrite D2, D1. unfold s0, init_links. cbn [fD]. rewrite get_seq.
      apply Nat.ltb_lt in Hh. rewrite Hh. reflexivity. }
    assert (Eu : up s2 (hdr j) = hdr j).
    { unfold up. rewrite U2, U1. unfold s0, init_links. cbn [fU]. rewrite get_seq.
      apply Nat.ltb_lt in Hh. rewrite Hh. reflexivity. }
    assert (Es : csize s2 (hdr j) = 0).
    { unfold csize. rewrite S2, S1. unfold s0, init_links. cbn [fS]. apply get_repeat0. }
    unfold vcol. simpl. split; [split; simpl; assumption|]. split; [constructor|]. split; [exact Es|].
    split; [intros y []|exact Hj].
  - exists (fun _ => true). reflexivity.
  - intros g c [].
Qed.
