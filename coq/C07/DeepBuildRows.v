(* _build_links, part 3: one row (loop over the columns + closing the row ring), all rows, and the whole function. *)
From Coq Require Import List Arith Bool Lia.
From SV Require Import C07.Dlx C07.DeepLinks C07.DeepBase C07.DeepOps C07.DeepVert C07.DeepRows C07.DeepRep C07.DeepCover
                       C07.DeepBuildBase C07.DeepBuildHdr C07.DeepBuildRow.
Import ListNotations.

Lemma build_row_true nc i j t fp s : j < nc ->
  build_row nc i j (true :: t) fp s =
  let node := fst (add_node s j i) in
  let s5 := snd (add_node s j i) in
  match fp with
  | None => build_row nc i (S j) t (Some (node, node)) s5
  | Some (first, prev) => build_row nc i (S j) t (Some (first, node)) (setR (setL s5 node prev) prev node)
  end.
Proof.
  intros Hj. cbn [build_row]. apply Nat.ltb_lt in Hj. rewrite Hj. unfold add_node.
  destruct (alloc s (hdr j) i) as [node s0]. reflexivity.
Qed.

Lemma BInv_next_col s nc N0 N G cols scols i cs fp j :
  BInv s nc N0 N G cols scols i cs fp j -> BInv s nc N0 N G cols scols i cs fp (S j).
Proof.
  intros [A [B [C [D [E [F [P1 [P2 [P3 P4]]]]]]]]].
  split; [exact A|]. split; [exact B|]. split; [exact C|]. split; [exact D|]. split; [exact E|]. split; [exact F|].
  split; [|auto]. intros k y H. destruct (P1 k y H) as [H1 [H2 H3]]. split; [exact H1|]. split; [lia | exact H3].
Qed.

Section Step.
  Variables (s : lst) (nc N0 N : nat) (G : list grow) (cols scols : list nat) (i : nat)
            (cs : list (nat * nat)) (fp : option (nat * nat)) (j : nat).
  Hypothesis HB : BInv s nc N0 N G cols scols i cs fp j.
  Hypothesis Hj : j < nc.

  Let s5 := snd (add_node s j i).
  Let s' := match fp with None => s5 | Some (first, prev) => setR (setL s5 N prev) prev N end.
  Let fp' := match fp with None => Some (N, N) | Some (first, prev) => Some (first, N) end.

  Lemma step_fields :
    fst (add_node s j i) = N /\ lens s' (S N)
    /\ fU s' = fU s5 /\ fD s' = fD s5 /\ fC s' = fC s5 /\ fRow s' = fRow s5 /\ fS s' = fS s5
    /\ (forall z, column s' z = if z =? N then hdr j else column s z)
    /\ (forall z, row_id s' z = if z =? N then i else row_id s z)
    /\ (forall z, z < N0 -> left s' z = left s z /\ right s' z = right s z)
    /\ (forall z, right s' z = match fp with
                                | Some (_, prev) => if z =? prev then N else if z =? N then N else right s z
                                | None => if z =? N then N else right s z end)
    /\ (forall z, left s' z = match fp with
                               | Some (_, prev) => if z =? N then prev else left s z
                               | None => if z =? N then N else left s z end)
    /\ match fp with Some (_, prev) => N0 <= prev < N | None => True end.
  Proof.
    destruct HB as [HN0 [EN [HS [HH [Hall [HV HP]]]]]].
    assert (Hk : In j (cols ++ scols)) by (apply Hall; exact Hj).
    destruct HV as [HL [HN HC]].
    pose proof (HC j Hk) as VCk. destruct VCk as [Hr [Hnd [Hsz [Hcol Hkn]]]].
    assert (Hh : hdr j < N) by (unfold hdr; lia).
    assert (Hu : up s (hdr j) < N).
    { destruct Hr as [_ H2]. apply chain_hd in H2. rewrite hd_rev in H2.
      assert (K : In (up s (hdr j)) (hdr j :: (vcol j G ++ pcol j cs))) by (rewrite H2; apply last_in).
      destruct K as [<-|K]; [exact Hh | apply Hcol in K; lia]. }
    destruct (add_node_fields s N j i HL Hh Hu) as [En [HL' [EL [ER [EU [ED [EC [ERow ES]]]]]]]].
    fold s5 in HL', EL, ER, EU, ED, EC, ERow, ES.
    split; [exact En|].
    assert (Hprev : match fp with Some (_, prev) => N0 <= prev < N | None => True end).
    { destruct HP as [P1 [_ [_ P4]]]. destruct fp as [[first prev]|]; [|exact I].
      destruct (map snd cs) as [|n1 rest] eqn:Eids; [discriminate|]. destruct P4 as [P4 _]. inversion P4; subst.
      assert (K : In (last rest n1) (map snd cs)) by (rewrite Eids; apply last_in).
      apply in_map_iff in K. destruct K as [[k y] [E K]]. simpl in E. subst y. apply P1 in K. lia. }
    unfold s'. destruct fp as [[first prev]|].
    - assert (HL6 : lens (setL s5 N prev) (S N)) by (apply lens_setL; exact HL').
      split; [apply lens_setR; exact HL6|].
      split; [reflexivity|]. split; [reflexivity|]. split; [reflexivity|]. split; [reflexivity|]. split; [reflexivity|].
      split; [exact EC|]. split; [exact ERow|].
      assert (ER' : forall z, right (setR (setL s5 N prev) prev N) z = if z =? prev then N else if z =? N then N else right s z).
      { intros z. rewrite (right_setR (setL s5 N prev) (S N)) by (assumption || lia).
        change (right (setL s5 N prev) z) with (right s5 z). rewrite ER. reflexivity. }
      assert (EL' : forall z, left (setR (setL s5 N prev) prev N) z = if z =? N then prev else left s z).
      { intros z. change (left (setR (setL s5 N prev) prev N) z) with (left (setL s5 N prev) z).
        rewrite (left_setL s5 (S N)) by (assumption || lia). rewrite EL. destruct (z =? N); reflexivity. }
      split; [|split; [exact ER'|split; [exact EL' | exact Hprev]]].
      intros z Hz. rewrite EL', ER'.
      assert (A : (z =? N) = false) by (apply Nat.eqb_neq; lia).
      assert (B : (z =? prev) = false) by (apply Nat.eqb_neq; lia). rewrite A, B. auto.
    - split; [exact HL'|].
      split; [reflexivity|]. split; [reflexivity|]. split; [reflexivity|]. split; [reflexivity|]. split; [reflexivity|].
      split; [exact EC|]. split; [exact ERow|].
      split; [|split; [exact ER|split; [exact EL | exact I]]].
      intros z Hz. rewrite EL, ER. assert (A : (z =? N) = false) by (apply Nat.eqb_neq; lia). rewrite A. auto.
  Qed.

  Lemma step_BInv : BInv s' nc N0 (S N) G cols scols i (cs ++ [(j, N)]) fp' (S j).
  Proof.
    destruct step_fields as [En [HL' [EU [ED [EC [ERow [ES [ECol [ERid [Hold [ER [EL Hprev]]]]]]]]]]]].
    destruct HB as [HN0 [EN [HS [HH [Hall [HV HP]]]]]].
    assert (Hk : In j (cols ++ scols)) by (apply Hall; exact Hj).
    split; [exact HN0|]. split; [rewrite app_length; simpl; lia|].
    split.
    { apply (Static_pointwise s s' nc N0 N0 G HS (le_n _)). intros z Hz.
      rewrite ECol, ERid. assert (A : (z =? N) = false) by (apply Nat.eqb_neq; lia). rewrite A.
      destruct (Hold z) as [B C]; [lia | auto]. }
    split.
    { apply (HInv_pointwise s s' nc cols scols HH). intros z Hz. destruct (Hold z) as [B C]; [lia | auto]. }
    split; [exact Hall|].
    split.
    { pose proof (add_node_VInv s nc N (cols ++ scols) _ j i HV Hk) as HV5. fold s5 in HV5.
      apply VInv_ext with (V := fun k' => (vcol k' G ++ pcol k' cs) ++ (if k' =? j then [N] else [])).
      - intros k. rewrite pcol_app, app_assoc. f_equal. unfold pcol. simpl. rewrite (Nat.eqb_sym j k).
        destruct (k =? j); reflexivity.
      - eapply VInv_frame; eauto. }
    (* the row under construction *)
    destruct HP as [P1 [P2 [P3 P4]]].
    assert (Hjnot : ~ In j (map fst cs)).
    { intros K. apply in_map_iff in K. destruct K as [[k y] [E K]]. simpl in E. subst k. apply P1 in K. lia. }
    assert (HNnot : ~ In N (map snd cs)).
    { intros K. apply in_map_iff in K. destruct K as [[k y] [E K]]. simpl in E. subst y. apply P1 in K. lia. }
    split; [|split; [|split]].
    - intros k y Hky. apply in_app_or in Hky. destruct Hky as [Hky|[E|[]]].
      + destruct (P1 k y Hky) as [A [B [C [D E]]]]. rewrite ECol, ERid.
        assert (F : (y =? N) = false) by (apply Nat.eqb_neq; lia). rewrite F. repeat split; auto; lia.
      + inversion E; subst k y. rewrite ECol, ERid, Nat.eqb_refl. repeat split; auto; lia.
    - rewrite map_app. simpl. apply nodup_app_comm. simpl. constructor; assumption.
    - rewrite map_app. simpl. apply nodup_app_comm. simpl. constructor; assumption.
    - rewrite map_app. simpl. destruct (map snd cs) as [|n1 rest] eqn:Eids.
      + unfold fp'. rewrite P4. simpl. auto.
      + destruct P4 as [Efp [Hpath Hbpath]]. rewrite Efp in *. unfold fp'. rewrite Efp. cbn [app]. cbv iota beta.
        rewrite last_last. split; [reflexivity|].
        assert (Hids : forall y, In y (n1 :: rest) -> y < N /\ N0 <= y).
        { intros y Hy. rewrite <- Eids in Hy. apply in_map_iff in Hy. destruct Hy as [[k y'] [E K]]. simpl in E. subst y'.
          apply P1 in K. lia. }
        assert (Hndr : NoDup (n1 :: rest)) by exact P3.
        set (prev := last rest n1) in *.
        assert (Hpin : In prev (n1 :: rest)) by apply last_in.
        split.
        * apply path_snoc with (f := fun z => if z =? N then N else right s z).
          { eapply path_ext; [|exact Hpath]. intros y Hy. apply Hids in Hy.
            assert (F : (y =? N) = false) by (apply Nat.eqb_neq; lia). rewrite F. reflexivity. }
          { exact Hndr. }
          { intros y Hy. rewrite ER. fold prev in Hy. apply Nat.eqb_neq in Hy. rewrite Hy. reflexivity. }
          { rewrite ER. fold prev. rewrite Nat.eqb_refl. reflexivity. }
        * apply bpath_snoc with (g := left s).
          { exact Hbpath. }
          { intros K. destruct (Hids N (or_intror K)) as [K1 _]. lia. }
          { intros y Hy. rewrite EL. apply Nat.eqb_neq in Hy. rewrite Hy. reflexivity. }
          { rewrite EL, Nat.eqb_refl. reflexivity. }
  Qed.
End Step.
