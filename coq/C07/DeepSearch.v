(* The pointer-level search() computes exactly what the functional model's search computes on the abstraction. *)
From Coq Require Import List Arith Bool Lia ZArith.
From SV Require Import C07.Dlx C07.DlxEnum C07.DlxSearch.
From SV Require Import C07.DeepLinks C07.DeepBase C07.DeepOps C07.DeepVert C07.DeepRows C07.DeepRep C07.DeepCover C07.DeepMulti.
Import ListNotations.

(* ---------------------------------------------------------------- functional model on erased rows *)
Lemma filter_has_erase c rows : filter (has c) (map erase rows) = map erase (filter (ghas c) rows).
Proof. rewrite filter_map_comm. reflexivity. Qed.

Lemma size_erase c rows : size (map erase rows) c = length (vcol c rows).
Proof. unfold size, vcol. rewrite filter_has_erase, !map_length. reflexivity. Qed.

Lemma mem_same a a' x : (forall z, In z a <-> In z a') -> mem x a = mem x a'.
Proof.
  intros H. destruct (mem x a) eqn:E.
  - symmetry. apply mem_true_iff. apply H. apply mem_true_iff. exact E.
  - symmetry. apply mem_false_iff. intros K. apply H in K. apply mem_true_iff in K. congruence.
Qed.

Lemma forallb_same {A} (p : A -> bool) a a' : (forall z, In z a <-> In z a') -> forallb p a = forallb p a'.
Proof.
  intros H. destruct (forallb p a) eqn:E.
  - symmetry. apply forallb_forall. intros z Hz. rewrite forallb_forall in E. apply E. apply H. exact Hz.
  - symmetry. apply not_true_is_false. intros K. rewrite forallb_forall in K.
    assert (forallb p a = true) by (apply forallb_forall; intros z Hz; apply K; apply H; exact Hz). congruence.
Qed.

Lemma select_cols g c cols : (forall k, In k (rcols g (gcell c g)) <-> In k (gcols g) /\ k <> c) -> In c (gcols g) ->
  rmvs (rcols g (gcell c g)) (rmv c cols) = remove_cols (gcols g) cols.
Proof.
  intros H Hc. change (rmvs (rcols g (gcell c g)) (rmv c cols)) with (rmvs (c :: rcols g (gcell c g)) cols).
  rewrite rmvs_filter. unfold remove_cols. apply filter_ext. intros z. f_equal. apply mem_same.
  intros k. simpl. rewrite H. destruct (Nat.eq_dec k c) as [->|Hne]; [tauto|].
  split; [intros [E|[A _]]; [congruence | exact A] | intros A; right; auto].
Qed.

Lemma select_rows g c rows : (forall k, In k (rcols g (gcell c g)) <-> In k (gcols g) /\ k <> c) -> In c (gcols g) ->
  map erase (rowsdels (rcols g (gcell c g)) (rowsdel c rows)) = remove_rows (erase g) (map erase rows).
Proof.
  intros H Hc. change (rowsdels (rcols g (gcell c g)) (rowsdel c rows)) with (rowsdels (c :: rcols g (gcell c g)) rows).
  rewrite rowsdels_filter. unfold remove_rows. rewrite filter_map_comm. f_equal. apply filter_ext.
  intros g'. unfold disjoint. simpl snd. apply forallb_same.
  intros k. simpl. rewrite H. destruct (Nat.eq_dec k c) as [->|Hne]; [tauto|].
  split; [intros [E|[A _]]; [congruence | exact A] | intros A; right; auto].
Qed.

(* ---------------------------------------------------------------- the column choice *)
Definition trb (b : option (nat * nat)) : option (nat * nat) :=
  match b with None => None | Some (c, sz) => Some (hdr c, sz) end.

Lemma pchoose_ok s erows : forall rest fb fuel,
  (forall j, In j rest -> csize s (hdr j) = size erows j) ->
  match rest with [] => True | j :: t => chain (right s) (hdr j) (map hdr t) ROOT end ->
  length rest < fuel ->
  pchoose fuel s (hd ROOT (map hdr rest)) (trb fb) = Some (trb (choose_loop erows rest fb)).
Proof.
  induction rest as [|j t IH]; intros fb fuel Hsz Hch Hf.
  - destruct fuel; [simpl in Hf; lia|]. reflexivity.
  - destruct fuel; [simpl in Hf; lia|]. simpl hd. cbn [pchoose].
    assert (Hne : (hdr j =? ROOT) = false) by (apply Nat.eqb_neq; unfold hdr, ROOT; lia).
    rewrite Hne. rewrite (Hsz j (or_introl eq_refl)). cbn [choose_loop].
    assert (Hnext : right s (hdr j) = hd ROOT (map hdr t)) by (apply chain_hd in Hch; exact Hch).
    assert (Hch' : match t with [] => True | j' :: t' => chain (right s) (hdr j') (map hdr t') ROOT end).
    { destruct t as [|j' t']; [exact I|]. simpl in Hch. apply Hch. }
    assert (Hsz' : forall k, In k t -> csize s (hdr k) = size erows k) by (intros k Hk; apply Hsz; right; exact Hk).
    assert (Hf' : length t < fuel) by (simpl in Hf; lia).
    assert (Eb : match trb fb with None => true | Some (_, bs) => size erows j <? bs end
                 = match fb with None => true | Some (_, bs) => size erows j <? bs end).
    { destruct fb as [[bc bs]|]; reflexivity. }
    rewrite Eb. destruct (match fb with None => true | Some (_, bs) => size erows j <? bs end).
    + destruct (size erows j =? 0); [reflexivity|].
      rewrite Hnext. apply (IH (Some (j, size erows j)) fuel Hsz' Hch' Hf').
    + rewrite Hnext. apply (IH fb fuel Hsz' Hch' Hf').
Qed.

(* ---------------------------------------------------------------- search *)
Section SearchRef.
  Variables (fa : bool) (ms : option Z) (mi : Z) (nc N : nat) (G : list grow).

  Definition refines (f : nat) : Prop :=
    forall s cols scols rows cur st b st',
      Rep s nc N G cols scols rows ->
      search fa ms mi f cols (map erase rows) cur st = Some (b, st') ->
      exists s', psearch fa ms mi f s cur st = Some (b, st', s') /\ (b = false -> s' = s).

  Section Rows.
    Variable f : nat.
    Hypothesis IH : refines f.
    Variables (s s1 : lst) (cols scols : list nat) (rows : list grow) (c : nat) (cur : list nat).
    Hypothesis HR : Rep s nc N G cols scols rows.
    Hypothesis Hc : In c cols.
    Hypothesis HR1 : Rep s1 nc N G (rmv c cols) (rmv c scols) (rowsdel c rows).
    Hypothesis Hun : uncover (hdr c) s1 = Some s.
    Hypothesis Hring : dring (down s1) (up s1) (hdr c) (vcol c rows).

    Let rec := fun (r : row) (st' : sst) =>
                 search fa ms mi f (remove_cols (snd r) cols) (remove_rows r (map erase rows)) (fst r :: cur) st'.

    Lemma ptry_rows_ok : forall gs pre lf st b st',
      pre ++ gs = filter (ghas c) rows -> length gs < lf ->
      try_rows fa ms rec (map erase gs) st = Some (b, st') ->
      exists s', ptry_rows fa ms (psearch fa ms mi f) lf (hdr c) (hd (hdr c) (map (gcell c) gs)) s1 cur st
                 = Some (b, st', s') /\ (b = false -> s' = s).
    Proof.
      induction gs as [|g gs' IHg]; intros pre lf st b st' Hsplit Hlf Htry.
      - destruct lf; [simpl in Hlf; lia|]. simpl in *. rewrite Nat.eqb_refl, Hun.
        inversion Htry; subst. exists s. auto.
      - destruct lf; [simpl in Hlf; lia|].
        assert (Hgin : In g (filter (ghas c) rows)) by (rewrite <- Hsplit; apply in_or_app; right; left; reflexivity).
        apply filter_In in Hgin. destruct Hgin as [Hg Hcg].
        destruct HR as [[W HRow] [HH [HV [[p Hp] Hclo]]]].
        assert (HgG : In g G) by (rewrite Hp in Hg; apply filter_In in Hg; tauto).
        assert (GR : GRow g) by (apply W; exact HgG).
        set (x := gcell c g).
        assert (Hx : In x (gids g)) by (apply gcell_gids; exact Hcg).
        destruct (rcols_facts g c GR Hcg) as [Hknd [Hkin [Hklen Hkcell]]]. fold x in Hknd, Hkin, Hklen, Hkcell.
        assert (Hcin : In c (gcols g)) by (apply ghas_In; exact Hcg).
        destruct (HRow g HgG) as [_ [Hcells _]].
        pose proof (gcell_in c g Hcg) as Hxc. fold x in Hxc. destruct (Hcells c x Hxc) as [Hcnc [Hxr [Hxcol Hxrow]]].
        (* the other columns of the row *)
        destruct (cseq_exists nc N G (rcols g x) s1 (rmv c cols) (rmv c scols) (rowsdel c rows) HR1 Hknd) as [sK [Hseq HRK]].
        { intros k Hk. apply Hkin in Hk. destruct Hk as [Hk Hne].
          pose proof (Hclo g k Hg Hk) as Hka. apply in_app_or in Hka. apply in_or_app.
          destruct Hka as [A|A]; [left | right]; apply filter_In; (split; [exact A|]);
            apply negb_true_iff, Nat.eqb_neq; exact Hne. }
        destruct (Rep_static _ _ _ _ _ _ _ HR1) as [HS1 HL1].
        pose proof (cover_others_ok nc N G g x HgG Hx Hkcell s1 sK st HS1 HL1 Hseq) as Hco.
        pose proof (uncover_others_ok nc N G g x HgG Hx Hkcell s1 sK HS1 HL1 Hseq) as Huo.
        pose proof (select_cols g c cols Hkin Hcin) as Esc. fold x in Esc. rewrite Esc in HRK.
        (* one iteration of the loop *)
        cbn [map try_rows] in Htry.
        cbn [map hd]. fold x. cbn [ptry_rows].
        assert (Hxne : (x =? hdr c) = false) by (apply Nat.eqb_neq; unfold hdr; lia).
        rewrite Hxne, Hco.
        assert (Hrow1 : row_id s1 x = fst g).
        { destruct HS1 as [_ HRow1]. destruct (HRow1 g HgG) as [_ [Hcells1 _]]. apply (Hcells1 c x Hxc). }
        rewrite Hrow1.
        assert (Hlen : length (snd (erase g)) - 1 = length (rcols g x)) by (simpl; rewrite Hklen; reflexivity).
        rewrite Hlen in Htry.
        destruct (rec (erase g) (bump_cover (length (rcols g x)) st)) as [[b1 st2]|] eqn:Erec; [|discriminate].
        unfold rec in Erec. simpl fst in Erec. simpl snd in Erec.
        pose proof (select_rows g c rows Hkin Hcin) as Esr. fold x in Esr. rewrite <- Esr in Erec.
        destruct (IH sK _ _ _ _ _ _ _ HRK Erec) as [s2 [Hps Hs2]].
        rewrite Hps.
        (* what happens after an unsuccessful (or non-final) recursive call *)
        assert (Hnext : down s1 x = hd (hdr c) (map (gcell c) gs')).
        { destruct Hring as [Hr _]. unfold vcol in Hr. rewrite <- Hsplit, map_app in Hr. simpl in Hr.
          apply chain_at in Hr. exact Hr. }
        assert (Hcont : s2 = sK ->
                  forall b st', try_rows fa ms rec (map erase gs') st2 = Some (b, st') ->
                  exists s', match uncover_others x s2 with
                             | Some s3 => ptry_rows fa ms (psearch fa ms mi f) lf (hdr c) (down s3 x) s3 cur st2
                             | None => None
                             end = Some (b, st', s') /\ (b = false -> s' = s)).
        { intros -> b0 st0 Ht. rewrite Huo, Hnext.
          apply (IHg (pre ++ [g]) lf st2 b0 st0); [rewrite <- app_assoc; exact Hsplit | simpl in Hlf; lia | exact Ht]. }
        destruct b1.
        + apply search_true in Erec. destruct Erec as [Hstop _].
          destruct (negb fa) eqn:Efa.
          * inversion Htry; subst. exists s2. split; [reflexivity | discriminate].
          * destruct (ms_hit ms (length (sols st2))) eqn:Ehit.
            { inversion Htry; subst. exists s2. split; [reflexivity | discriminate]. }
            { exfalso. destruct Hstop as [A|A]; [rewrite A in Efa; discriminate | congruence]. }
        + apply Hcont; [apply Hs2; reflexivity | exact Htry].
    Qed.
  End Rows.

  Theorem psearch_refines : forall f, refines f.
  Proof.
    induction f as [|f IH]; intros s cols scols rows cur st b st' HR Hs; [discriminate|].
    rewrite search_S in Hs. cbn [psearch].
    destruct (mi <? Z.of_nat (iters (bump_iter st)))%Z.
    { inversion Hs; subst. exists s. auto. }
    pose proof HR as HR0.
    destruct HR as [HS [HH [HV [Hrows Hclo]]]].
    destruct HH as [R1 [R2 [Hnd Hlt]]].
    destruct cols as [|c0 rest].
    - assert (E : right s ROOT = ROOT) by (destruct R1 as [A _]; exact A).
      rewrite E, Nat.eqb_refl.
      destruct (negb fa); [inversion Hs; subst; exists s; split; [reflexivity | discriminate]|].
      destruct (ms_hit ms (length (sols (add_sol (rev cur) (bump_iter st))))); inversion Hs; subst; exists s; auto.
    - assert (E : right s ROOT = hdr c0) by (destruct R1 as [A _]; apply A).
      rewrite E. assert (Hne : (hdr c0 =? ROOT) = false) by (apply Nat.eqb_neq; unfold hdr, ROOT; lia).
      rewrite Hne.
      assert (HL : lens s N) by apply HV.
      assert (Hcl : length (c0 :: rest) <= N).
      { rewrite <- (map_length hdr). apply nodup_bound.
        - apply nodup_map_hdr. eapply nodup_app_l; eauto.
        - intros z Hz. apply in_map_iff in Hz. destruct Hz as [k [<- Hk]].
          destruct HV as [_ [HN _]]. specialize (Hlt k (in_or_app _ _ _ (or_introl Hk))). unfold hdr. lia. }
      pose proof (pchoose_ok s (map erase rows) (c0 :: rest) None (loop_fuel s)) as Hch.
      cbn [hd map trb] in Hch. rewrite Hch; clear Hch.
      2:{ intros j Hj. rewrite size_erase. destruct HV as [_ [_ HC]].
          destruct (HC j (in_or_app _ _ _ (or_introl Hj))) as [_ [_ [Hsz _]]]. exact Hsz. }
      2:{ destruct R1 as [A _]. simpl in A. apply A. }
      2:{ unfold loop_fuel. rewrite (lens_n_ids s N HL). lia. }
      destruct (choose_loop (map erase rows) (c0 :: rest) None) as [[c sz]|] eqn:Ech.
      2:{ simpl. inversion Hs; subst. exists s. auto. }
      simpl trb. cbv iota beta.
      destruct (sz =? 0); [inversion Hs; subst; exists s; auto|].
      apply choose_loop_spec in Ech. destruct Ech as [Ech|[Hc _]]; [discriminate|].
      destruct (cover_ok s nc N G (c0 :: rest) scols rows c HR0 (in_or_app _ _ _ (or_introl Hc)))
        as [s1 [Hcv [HR1 [Hun [Hring _]]]]].
      rewrite Hcv.
      destruct (Rep_static _ _ _ _ _ _ _ HR1) as [_ HL1].
      assert (Hstart : down s1 (hdr c) = hd (hdr c) (map (gcell c) (filter (ghas c) rows))).
      { destruct Hring as [A _]. apply chain_hd in A. exact A. }
      rewrite Hstart.
      rewrite filter_has_erase in Hs.
      apply (ptry_rows_ok f IH s s1 (c0 :: rest) scols rows c cur HR0 HR1 Hun Hring
               (filter (ghas c) rows) [] (loop_fuel s1) _ b st' eq_refl); [|exact Hs].
      unfold loop_fuel. rewrite (lens_n_ids s1 N HL1).
      assert (length (vcol c rows) <= N).
      { destruct HV as [_ [_ HC]]. destruct (HC c (in_or_app _ _ _ (or_introl Hc))) as [_ [Hnd' [_ [Hcol _]]]].
        apply nodup_bound; [exact Hnd'|]. intros z Hz. apply Hcol in Hz. lia. }
      unfold vcol in H. rewrite map_length in H. lia.
  Qed.
End SearchRef.
