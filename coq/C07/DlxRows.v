(* Proofs, part 3: the row list built by _build_links, and the bridge between covers of the initial
   sub-problem (lists of rows, DlxEnum.sub_cover) and the Spec (lists of row indices, DlxSpec.exact_cover). *)
From Coq Require Import List Arith Bool Lia Permutation.
From SV Require Import C07.Dlx C07.DlxSpec C07.DlxEnum.
Import ListNotations.

Lemma row_eq_dec (a b : row) : {a = b} + {a <> b}.
Proof. decide equality; [apply (list_eq_dec Nat.eq_dec) | apply Nat.eq_dec]. Qed.

Lemma in_row_cols_from : forall r j c,
  In c (row_cols_from j r) <-> j <= c /\ nth (c - j) r false = true.
Proof.
  induction r as [|b t IH]; intros j c; simpl.
  - split; [intros [] | intros [_ H]; destruct (c - j); discriminate].
  - assert (Hstep : In c (row_cols_from (S j) t) <-> j < c /\ nth (c - j) (b :: t) false = true).
    { rewrite IH. split; intros [H1 H2]; (split; [lia|]).
      - replace (c - j) with (S (c - S j)) by lia. exact H2.
      - replace (c - j) with (S (c - S j)) in H2 by lia. exact H2. }
    destruct b; simpl.
    + rewrite Hstep. split.
      * intros [E|[H1 H2]]; [subst; split; [lia | rewrite Nat.sub_diag; reflexivity] | split; [lia | exact H2]].
      * intros [H1 H2]. destruct (Nat.eq_dec j c) as [E|Hne]; [left; exact E | right; split; [lia | exact H2]].
    + rewrite Hstep. split.
      * intros [H1 H2]. split; [lia | exact H2].
      * intros [H1 H2]. split; [|exact H2].
        destruct (Nat.eq_dec j c) as [E|Hne]; [|lia]. subst. rewrite Nat.sub_diag in H2. discriminate.
Qed.

Lemma in_mk_rows_from : forall M k r,
  In r (mk_rows_from k M) <->
  k <= fst r < k + length M /\ snd r = row_cols_from 0 (nth (fst r - k) M []).
Proof.
  induction M as [|m t IH]; intros k r; simpl.
  - split; [intros [] | intros [H _]; lia].
  - rewrite IH. split.
    + intros [E|[H1 H2]].
      * subst r. simpl. split; [lia|]. rewrite Nat.sub_diag. reflexivity.
      * split; [lia|]. replace (fst r - k) with (S (fst r - S k)) by lia. exact H2.
    + intros [H1 H2]. destruct (Nat.eq_dec (fst r) k) as [E|Hne].
      * left. destruct r as [i cs]. simpl in *. subst i. rewrite Nat.sub_diag in H2. subst cs. reflexivity.
      * right. split; [lia|]. replace (fst r - k) with (S (fst r - S k)) in H2 by lia. exact H2.
Qed.

Lemma in_mk_rows M r :
  In r (mk_rows M) <-> fst r < length M /\ snd r = row_cols_from 0 (nth (fst r) M []).
Proof.
  unfold mk_rows. rewrite in_mk_rows_from. rewrite Nat.sub_0_r. split; intros [H1 H2]; (split; [lia | exact H2]).
Qed.

Lemma mk_rows_cell M r c : In r (mk_rows M) -> (In c (snd r) <-> cell M (fst r) c = true).
Proof.
  intros Hr. apply in_mk_rows in Hr. destruct Hr as [_ E]. rewrite E, in_row_cols_from, Nat.sub_0_r.
  unfold cell. split; [intros [_ H]; exact H | intros H; split; [lia | exact H]].
Qed.

Lemma mk_rows_fst_inj M a b : In a (mk_rows M) -> In b (mk_rows M) -> fst a = fst b -> a = b.
Proof.
  intros Ha Hb E. apply in_mk_rows in Ha. apply in_mk_rows in Hb.
  destruct a as [i ca], b as [j cb]. simpl in *. subst j.
  destruct Ha as [_ Ha], Hb as [_ Hb]. subst. reflexivity.
Qed.

Lemma map_fst_mk_rows_from : forall M k, map fst (mk_rows_from k M) = seq k (length M).
Proof. induction M as [|m t IH]; intros k; simpl; [reflexivity | rewrite IH; reflexivity]. Qed.

Lemma mk_rows_NoDup M : NoDup (mk_rows M).
Proof.
  apply (NoDup_map_inv fst). unfold mk_rows. rewrite map_fst_mk_rows_from. apply seq_NoDup.
Qed.

Lemma rows_in_range_spec nc rows :
  rows_in_range nc rows = true -> forall r c, In r rows -> In c (snd r) -> c < nc.
Proof.
  unfold rows_in_range. rewrite forallb_forall. intros H r c Hr Hc.
  specialize (H r Hr). rewrite forallb_forall in H. apply Nat.ltb_lt. apply H. exact Hc.
Qed.

Lemma in_prim_cols inp c : In c (prim_cols inp) <-> c < length (col_names inp) /\ is_secondary inp c = false.
Proof. unfold prim_cols. rewrite filter_In, in_seq, negb_true_iff. split; intros [H1 H2]; (split; [lia | exact H2]). Qed.

Lemma in_sec_cols inp c : In c (sec_cols inp) <-> c < length (col_names inp) /\ is_secondary inp c = true.
Proof. unfold sec_cols. rewrite filter_In, in_seq. split; intros [H1 H2]; (split; [lia | exact H2]). Qed.

Lemma prim_or_sec inp c : c < length (col_names inp) -> In c (prim_cols inp) \/ In c (sec_cols inp).
Proof.
  intros H. destruct (is_secondary inp c) eqn:E.
  - right. apply in_sec_cols. split; assumption.
  - left. apply in_prim_cols. split; assumption.
Qed.

Lemma pairwise_NoDup_map {A B} (f : A -> B) l : pairwise (fun a b => f a <> f b) l -> NoDup (map f l).
Proof.
  induction l as [|x t IH]; simpl; intros P; [constructor|].
  destruct P as [F P]. constructor; [|apply IH; exact P].
  intros Hin. apply in_map_iff in Hin. destruct Hin as [y [E Hy]].
  rewrite Forall_forall in F. apply (F y Hy). symmetry. exact E.
Qed.

Section Bridge.
  Variable M : list (list bool).
  Variables prim sec : list nat.
  Variable nc : nat.
  Hypothesis Hpart : forall c, c < nc -> In c prim \/ In c sec.
  Hypothesis Hrange : forall r c, In r (mk_rows M) -> In c (snd r) -> c < nc.

  Lemma unique_row S a b c :
    pairwise rdisj S -> In a S -> In b S -> In c (snd a) -> In c (snd b) -> a = b.
  Proof.
    intros P Ha Hb Hca Hcb. destruct (row_eq_dec a b) as [E|Hne]; [exact E|]. exfalso.
    exact (rdisj_common _ _ _ (pairwise_In rdisj S rdisj_sym P a b Ha Hb Hne) Hca Hcb).
  Qed.

  Lemma sub_cover_exact S : sub_cover prim (mk_rows M) S -> exact_cover M prim sec (map fst S).
  Proof.
    intros [H1 [H2 [H3 H4]]]. split; [|split; [|split]].
    - apply pairwise_NoDup_map. eapply pairwise_impl; [|exact H2].
      intros a b Ha Hb Hd E.
      assert (a = b) by (apply (mk_rows_fst_inj M); [apply H1; exact Ha | apply H1; exact Hb | exact E]).
      subst b. destruct (H3 a Ha) as [c [_ Hc]]. exact (rdisj_common _ _ _ Hd Hc Hc).
    - intros i Hi. apply in_map_iff in Hi. destruct Hi as [r [E Hr]]. subst i.
      pose proof (H1 r Hr) as Hr0. split; [apply in_mk_rows in Hr0; apply Hr0|].
      destruct (H3 r Hr) as [c [Hc Hin]]. exists c. split; [exact Hc|]. apply (mk_rows_cell M r c Hr0). exact Hin.
    - intros c Hc. destruct (H4 c Hc) as [r [Hr Hin]]. exists (fst r). split; [apply in_map; exact Hr|]. split.
      + apply (mk_rows_cell M r c (H1 r Hr)). exact Hin.
      + intros i Hi Hcell. apply in_map_iff in Hi. destruct Hi as [r' [E Hr']]. subst i.
        apply (mk_rows_cell M r' c (H1 r' Hr')) in Hcell.
        rewrite (unique_row S r' r c H2 Hr' Hr Hcell Hin). reflexivity.
    - intros c Hc i j Hi Hj Ci Cj.
      apply in_map_iff in Hi. destruct Hi as [a [Ea Ha]]. subst i.
      apply in_map_iff in Hj. destruct Hj as [b [Eb Hb]]. subst j.
      apply (mk_rows_cell M a c (H1 a Ha)) in Ci. apply (mk_rows_cell M b c (H1 b Hb)) in Cj.
      rewrite (unique_row S a b c H2 Ha Hb Ci Cj). reflexivity.
  Qed.

  Definition row_of (i : nat) : row := (i, row_cols_from 0 (nth i M [])).

  Lemma row_of_in i : i < length M -> In (row_of i) (mk_rows M).
  Proof. intros H. apply in_mk_rows. split; [exact H | reflexivity]. Qed.

  Lemma exact_sub_cover I :
    exact_cover M prim sec I -> sub_cover prim (mk_rows M) (map row_of I) /\ map fst (map row_of I) = I.
  Proof.
    intros [Hnd [Hrows [Hprim Hsec]]]. split; [|rewrite map_map; simpl; apply map_id].
    split; [|split; [|split]].
    - intros x Hx. apply in_map_iff in Hx. destruct Hx as [i [E Hi]]. subst x.
      apply row_of_in. apply Hrows. exact Hi.
    - apply pairwise_map. eapply pairwise_impl; [|apply NoDup_pairwise_neq; exact Hnd].
      intros i j Hi Hj Hne. unfold rdisj. apply disjoint_spec. intros c Hci Hcj.
      pose proof (row_of_in i (proj1 (Hrows i Hi))) as Ri.
      pose proof (row_of_in j (proj1 (Hrows j Hj))) as Rj.
      pose proof (Hrange _ _ Ri Hci) as Hlt.
      apply (mk_rows_cell M _ c Ri) in Hci. apply (mk_rows_cell M _ c Rj) in Hcj. simpl in Hci, Hcj.
      destruct (Hpart c Hlt) as [Hp|Hs].
      + destruct (Hprim c Hp) as [r0 [_ [_ Hu]]]. apply Hne.
        rewrite (Hu i Hi Hci), (Hu j Hj Hcj). reflexivity.
      + apply Hne. exact (Hsec c Hs i j Hi Hj Hci Hcj).
    - intros x Hx. apply in_map_iff in Hx. destruct Hx as [i [E Hi]]. subst x.
      destruct (Hrows i Hi) as [Hlt [c [Hc Hcell]]]. exists c. split; [exact Hc|].
      apply (mk_rows_cell M _ c (row_of_in i Hlt)). exact Hcell.
    - intros c Hc. destruct (Hprim c Hc) as [r0 [Hr0 [Hcell _]]]. exists (row_of r0). split.
      + apply in_map. exact Hr0.
      + apply (mk_rows_cell M _ c (row_of_in r0 (proj1 (Hrows r0 Hr0)))). exact Hcell.
  Qed.

  Lemma same_set_same_rows T1 T2 :
    incl T1 (mk_rows M) -> incl T2 (mk_rows M) -> same_set (map fst T1) (map fst T2) -> same_rows T1 T2.
  Proof.
    assert (K : forall A B, incl A (mk_rows M) -> incl B (mk_rows M) ->
                (forall i, In i (map fst A) -> In i (map fst B)) -> forall x, In x A -> In x B).
    { intros A B HA HB Hs x Hx. assert (Hi : In (fst x) (map fst B)) by (apply Hs; apply in_map; exact Hx).
      apply in_map_iff in Hi. destruct Hi as [y [E Hy]].
      rewrite <- (mk_rows_fst_inj M y x (HB y Hy) (HA x Hx) E). exact Hy. }
    intros H1 H2 Hs x. split; [apply (K T1 T2 H1 H2) | apply (K T2 T1 H2 H1)]; intros i; apply Hs.
  Qed.
End Bridge.
