(* A boolean checker for the COMPLETENESS clause, usable on the implementation's outputs: the returned list
   must contain (as sets) every element of the enumeration `enum_covers`, which is PROVED to list all exact
   covers (DlxTop.enumeration_lists_all).  Its soundness theorem mentions only the Spec, so nothing about the
   search model has to be trusted when it accepts an output. *)
From Coq Require Import List Arith Bool Lia ZArith.
From SV Require Import C07.Dlx C07.DlxSpec C07.DlxEnum C07.DlxRows C07.DlxTop.
Import ListNotations.

Definition enum_covers (inp : input) : list (list nat) :=
  map (map fst) (all_sols (fuel_of inp) (prim_cols inp) (mk_rows (matrix inp))).

Definition input_in_range (inp : input) : bool :=
  rows_in_range (length (col_names inp)) (mk_rows (matrix inp)).

Definition complete_check (inp : input) (r : result) : bool :=
  spec_check inp r
  && forallb (fun S0 => existsb (same_setb S0) (selections r)) (enum_covers inp).

(* what the harness evaluates: for find_all answers reported as not cut (OPTIMAL / INFEASIBLE) *)
Definition complete_check_outcome (inp : input) (o : outcome) : bool :=
  match o with
  | Done r =>
      if valid_input inp && input_in_range inp && find_all inp
         && (status_eqb (r_status r) OPTIMAL || status_eqb (r_status r) INFEASIBLE)
      then complete_check inp r else true
  | _ => true
  end.

Lemma same_setb_sound a b : same_setb a b = true -> same_set a b.
Proof.
  unfold same_setb. intros H. apply andb_true_iff in H. destruct H as [H1 H2].
  rewrite forallb_forall in H1, H2. intros x. split; intros Hx; apply mem_In; [apply H1 | apply H2]; exact Hx.
Qed.

Theorem complete_check_sound inp r :
  input_in_range inp = true -> complete_check inp r = true -> lists_all_covers inp (selections r).
Proof.
  unfold complete_check. intros Hr H. apply andb_true_iff in H. destruct H as [Hs Hc].
  apply spec_check_sound in Hs. destruct Hs as [Hsound Hdist].
  split; [exact Hsound|]. split; [|exact Hdist].
  intros S HS. destruct (enumeration_lists_all inp Hr) as [_ [Hall _]].
  destruct (Hall S HS) as [S0 [HS0 Hsame]].
  rewrite forallb_forall in Hc. specialize (Hc S0 HS0). apply existsb_exists in Hc.
  destruct Hc as [S' [HS' Hb]]. apply same_setb_sound in Hb.
  exists S'. split; [exact HS'|]. intros x. rewrite (Hsame x). apply Hb.
Qed.
