(* _cover(col) refines "remove column c and every row that has c"; _uncover(col) undoes it exactly. *)
From Coq Require Import List Arith Bool Lia.
From SV Require Import C07.Dlx C07.DeepLinks C07.DeepBase C07.DeepOps C07.DeepVert C07.DeepRows C07.DeepRep.
Import ListNotations.

Lemma nodup_bound (l : list nat) N : NoDup l -> (forall x, In x l -> x < N) -> length l <= N.
Proof.
  intros Hnd Hb. rewrite <- (seq_length N 0). apply NoDup_incl_length; [exact Hnd|].
  intros x Hx. apply in_seq. specialize (Hb x Hx). lia.
Qed.

Lemma concat_rev_map {A} (f : A -> list nat) (l : list A) :
  concat (map (fun x => rev (f x)) (rev l)) = rev (concat (map f l)).
Proof.
  induction l as [|x t IH]; simpl; [reflexivity|].
  rewrite map_app, concat_app, IH. simpl. rewrite app_nil_r, rev_app_distr. reflexivity.
Qed.

Lemma filter_filter {A} (p q : A -> bool) l : filter q (filter p l) = filter (fun x => p x && q x) l.
Proof.
  induction l as [|x t IH]; simpl; [reflexivity|]. destruct (p x); simpl; [|exact IH].
  destruct (q x); [f_equal|]; exact IH.
Qed.

Lemma VInv_ext_in s nc N act V V' :
  (forall k, In k act -> V k = V' k) -> VInv s nc N act V -> VInv s nc N act V'.
Proof. intros E [A [B C]]. split; [exact A|]. split; [exact B|]. intros j Hj. rewrite <- E by exact Hj. apply C. exact Hj. Qed.

Section CoverCol.
  Variables (s : lst) (nc N : nat) (G : list grow) (cols scols : list nat) (rows : list grow) (c : nat).
  Hypothesis HR : Rep s nc N G cols scols rows.
  Hypothesis Hc : In c (cols ++ scols).

  Let act := cols ++ scols.
  Let V := fun j => vcol j rows.
  Let s1 := unlink_h (hdr c) s.
  Let vs := victims G c rows.
  Let rows' := filter (fun g => negb (ghas c g)) rows.

  Lemma cc_basic : GWf G /\ incl rows G /\ lens s N /\ 2 + nc <= N /\ HInv s nc cols scols.
  Proof.
    destruct HR as [[W _] [HH [[Hl [HN _]] [[p Hp] _]]]].
    split; [exact W|]. split; [|auto].
    rewrite Hp. intros g Hg. apply filter_In in Hg. tauto.
  Qed.

  Lemma cc_VInv1 : VInv s1 nc N act V.
  Proof.
    destruct cc_basic as [W [Hinc [Hl [HN HH]]]].
    destruct HR as [_ [_ [HV _]]].
    destruct (header_linked s nc N cols scols c HH HN Hc) as [Hr [Hlf [Hrc _]]].
    destruct (unlink_h_fields s (hdr c)) as [EU [ED [EC [ERow ES]]]].
    eapply VInv_frame; eauto. unfold s1. eapply unlink_h_lens; eauto; lia.
  Qed.

  Lemma cc_vs_nodup : NoDup vs.
  Proof.
    destruct cc_basic as [W _]. destruct HR as [_ [_ [_ [[p Hp] _]]]].
    unfold vs. rewrite Hp. apply victims_nodup. exact W.
  Qed.

  Lemma cc_vs_owned : owned act V vs.
  Proof.
    destruct cc_basic as [W [Hinc _]]. destruct HR as [_ [_ [_ [_ Hclo]]]].
    intros z Hz. apply victims_in in Hz; auto. destruct Hz as [g [Hg [Hcg [Hzg Hne]]]].
    destruct (gids_cell z g Hzg) as [k Hk].
    assert (Hkc : In k (gcols g)) by (apply in_map_iff; exists (k, z); auto).
    exists k. split; [eapply Hclo; eauto|].
    unfold V, vcol. apply in_map_iff. exists g. split.
    - apply gcell_unique; [apply W; apply Hinc; exact Hg | exact Hk].
    - apply filter_In. split; [exact Hg | apply ghas_In; exact Hkc].
  Qed.

  (* every state on the way: vs = pre ++ post, pre already unlinked *)
  Lemma cc_prefix pre post : vs = pre ++ post ->
    let sp := foldop unlink_v pre s1 in
    VInv sp nc N act (Vdel pre V) /\ fL sp = fL s1 /\ fR sp = fR s1 /\ fC sp = fC s /\ fRow sp = fRow s.
  Proof.
    intros E sp.
    pose proof cc_vs_nodup as Hnd. pose proof cc_vs_owned as Ho. rewrite E in Hnd, Ho.
    destruct (unlink_fold_VInv nc N act pre s1 V cc_VInv1) as [A [B [C [D F]]]].
    - eapply nodup_app_l; eauto.
    - intros z Hz. apply Ho. apply in_or_app. left. exact Hz.
    - destruct (unlink_h_fields s (hdr c)) as [_ [_ [EC [ERow _]]]].
      split; [exact A|]. split; [exact B|]. split; [exact C|].
      split; [exact (eq_trans D EC) | exact (eq_trans F ERow)].
  Qed.

  Lemma cc_Vc_fixed pre post : vs = pre ++ post -> Vdel pre V c = V c.
  Proof.
    intros E. destruct cc_basic as [W [Hinc _]]. apply Vdel_notin. intros z Hz.
    apply (victims_not_vcol G c rows z W Hinc). fold vs. rewrite E. apply in_or_app. left. exact Hz.
  Qed.

  Lemma cc_Vc_range : forall x, In x (V c) -> 2 + nc <= x < N.
  Proof.
    destruct HR as [_ [_ [[_ [_ HC]] _]]]. destruct (HC c Hc) as [_ [_ [_ [Hcol _]]]].
    intros x Hx. apply Hcol. exact Hx.
  Qed.

  Lemma cc_row_of x : In x (V c) ->
    exists g, In g rows /\ In g G /\ ghas c g = true /\ x = gcell c g /\ rs G x = rowrest g x /\ In x (gids g).
  Proof.
    destruct cc_basic as [W [Hinc _]].
    intros Hx. unfold V, vcol in Hx. apply in_map_iff in Hx. destruct Hx as [g [E Hg]].
    apply filter_In in Hg. destruct Hg as [Hg Hcg]. exists g.
    assert (Hxg : In x (gids g)) by (rewrite <- E; apply gcell_gids; exact Hcg).
    repeat split; auto. apply rs_spec; auto.
  Qed.

  Lemma cc_chains pre post : vs = pre ++ post ->
    let sp := foldop unlink_v pre s1 in
    n_ids sp = N /\ dring (down sp) (up sp) (hdr c) (V c)
    /\ forall x, In x (V c) -> dring (right sp) (left sp) x (rs G x).
  Proof.
    intros E sp. destruct (cc_prefix pre post E) as [HV [EL [ER [EC ERow]]]]. fold sp in HV, EL, ER.
    destruct cc_basic as [W [Hinc [Hl [HN HH]]]].
    split; [apply lens_n_ids; apply HV|]. split.
    - destruct HV as [_ [_ HC]]. destruct (HC c Hc) as [Hr _]. rewrite (cc_Vc_fixed pre post E) in Hr. exact Hr.
    - intros x Hx. destruct (cc_row_of x Hx) as [g [Hg [HgG [Hcg [Ex [Ers Hxg]]]]]]. rewrite Ers.
      destruct HR as [[_ HRow] _]. destruct (HRow g HgG) as [_ [Hcells Hring]].
      eapply dring_ext; [|apply Hring; exact Hxg].
      intros z Hz.
      assert (Hzg : In z (gids g)).
      { destruct Hz as [<-|Hz]; [exact Hxg|]. apply rowrest_in in Hz; [tauto | apply W; exact HgG | exact Hxg]. }
      apply gids_cell in Hzg. destruct Hzg as [k Hk]. apply Hcells in Hk.
      unfold right, left. rewrite EL, ER.
      apply (unlink_h_nodes s nc N cols scols c HH Hl HN Hc). lia.
  Qed.

  Lemma cc_lengths : length (V c) <= N /\ forall x, In x (V c) -> length (rs G x) <= N /\ ~ In x (rs G x).
  Proof.
    destruct cc_basic as [W [Hinc _]].
    split.
    - apply nodup_bound.
      + destruct HR as [_ [_ [[_ [_ HC]] _]]]. destruct (HC c Hc) as [_ [Hnd _]]. exact Hnd.
      + intros x Hx. apply cc_Vc_range in Hx. lia.
    - intros x Hx. destruct (cc_row_of x Hx) as [g [Hg [HgG [Hcg [Ex [Ers Hxg]]]]]]. rewrite Ers.
      assert (GR : GRow g) by (apply W; exact HgG).
      split; [|apply rowrest_notin; [apply GR | exact Hxg]].
      apply nodup_bound; [apply rowrest_nodup; [apply GR | exact Hxg]|].
      intros z Hz. apply rowrest_in in Hz; [|apply GR | exact Hxg]. destruct Hz as [Hz _].
      apply gids_cell in Hz. destruct Hz as [k Hk].
      destruct HR as [[_ HRow] _]. destruct (HRow g HgG) as [_ [Hcells _]]. apply Hcells in Hk. lia.
  Qed.

  Lemma cc_hdr_notin : ~ In (hdr c) (V c).
  Proof. intros K. apply cc_Vc_range in K. destruct HR as [_ [[_ [_ [_ Hlt]]] _]]. specialize (Hlt c Hc). unfold hdr in K. lia. Qed.

  Lemma cover_eq : cover (hdr c) s = Some (foldop unlink_v vs s1).
  Proof.
    unfold cover. fold s1.
    assert (EN : loop_fuel s1 = S N).
    { unfold loop_fuel. destruct (cc_chains [] vs eq_refl) as [A _]. simpl in A. rewrite A. reflexivity. }
    rewrite EN.
    destruct cc_lengths as [L1 L2].
    apply (walk2 down right unlink_v N (hdr c) (V c) (rs G) s1).
    - intros pre post E. destruct (cc_chains pre post E) as [A [B C]].
      split; [exact A|]. split; [apply B|]. intros x Hx. apply C. exact Hx.
    - exact cc_hdr_notin.
    - intros x Hx. apply L2. exact Hx.
    - exact L1.
    - intros x Hx. apply L2. exact Hx.
  Qed.

  Lemma cover_Rep : Rep (foldop unlink_v vs s1) nc N G (rmv c cols) (rmv c scols) rows'.
  Proof.
    destruct (cc_prefix vs [] (eq_sym (app_nil_r vs))) as [HV [EL [ER [EC ERow]]]].
    destruct cc_basic as [W [Hinc [Hl [HN HH]]]].
    set (s' := foldop unlink_v vs s1) in *.
    assert (Hact' : forall k, In k (rmv c cols ++ rmv c scols) -> In k act /\ k <> c).
    { intros k Hk. apply in_app_or in Hk. unfold act.
      destruct Hk as [Hk|Hk]; apply filter_In in Hk; destruct Hk as [Hk Hne];
        apply negb_true_iff, Nat.eqb_neq in Hne; (split; [apply in_or_app; auto | exact Hne]). }
    split; [|split; [|split; [|split]]].
    - destruct HR as [HS _]. eapply Static_frame; eauto.
      intros z Hz. unfold right, left. rewrite EL, ER.
      apply (unlink_h_nodes s nc N cols scols c HH Hl HN Hc). exact Hz.
    - eapply HInv_frame; [apply (unlink_h_HInv s nc N cols scols c HH Hl HN Hc) | exact EL | exact ER].
    - apply VInv_ext_in with (V := Vdel vs V).
      + intros k Hk. apply Hact' in Hk. destruct Hk as [_ Hne]. unfold vs, V, rows'. apply Vdel_victims; auto.
      + eapply VInv_sub; [|exact HV]. intros k Hk. apply Hact' in Hk. apply Hk.
    - destruct HR as [_ [_ [_ [[p Hp] _]]]]. exists (fun g => p g && negb (ghas c g)).
      unfold rows'. rewrite Hp. apply filter_filter.
    - intros g k Hg Hk. unfold rows' in Hg. apply filter_In in Hg. destruct Hg as [Hg Hnc].
      destruct HR as [_ [_ [_ [_ Hclo]]]]. pose proof (Hclo g k Hg Hk) as Hka.
      assert (Hne : k <> c).
      { intros ->. apply negb_true_iff in Hnc. apply ghas_In in Hk. congruence. }
      apply in_app_or in Hka. apply in_or_app.
      destruct Hka as [Hka|Hka]; [left | right]; apply filter_In; (split; [exact Hka|]);
        apply negb_true_iff, Nat.eqb_neq; exact Hne.
  Qed.

  Lemma cover_keeps_col : dring (down (foldop unlink_v vs s1)) (up (foldop unlink_v vs s1)) (hdr c) (vcol c rows).
  Proof. destruct (cc_chains vs [] (eq_sym (app_nil_r vs))) as [_ [B _]]. exact B. Qed.

  (* ---- _uncover *)
  Lemma uc_state pre post : rev vs = pre ++ post ->
    foldop relink_v pre (foldop unlink_v vs s1) = foldop unlink_v (rev post) s1.
  Proof.
    intros E.
    assert (E' : vs = rev post ++ rev pre).
    { rewrite <- (rev_involutive vs), E, rev_app_distr. reflexivity. }
    rewrite E' at 1. rewrite foldop_app.
    destruct (cc_prefix (rev post) (rev pre) E') as [HV _].
    rewrite <- (rev_involutive pre) at 1.
    apply (relink_fold_unlink nc N act (rev pre) _ (Vdel (rev post) V) HV).
    - pose proof cc_vs_nodup as Hnd. rewrite E' in Hnd. eapply nodup_app_r; eauto.
    - intros z Hz. destruct (cc_vs_owned z) as [j [Hj Hin]].
      { rewrite E'. apply in_or_app. right. exact Hz. }
      exists j. split; [exact Hj|]. unfold Vdel. apply filter_In. split; [exact Hin|].
      apply negb_true_iff. apply mem_false_iff. intros K.
      pose proof cc_vs_nodup as Hnd. rewrite E' in Hnd. exact (nodup_app_disj _ _ Hnd z K Hz).
  Qed.

  Lemma uncover_eq : uncover (hdr c) (foldop unlink_v vs s1) = Some s.
  Proof.
    set (s' := foldop unlink_v vs s1).
    unfold uncover.
    assert (EN : loop_fuel s' = S N).
    { unfold loop_fuel. destruct (cc_chains vs [] (eq_sym (app_nil_r vs))) as [A _]. fold s' in A. rewrite A. reflexivity. }
    rewrite EN.
    destruct cc_lengths as [L1 L2].
    rewrite (walk2 up left relink_v N (hdr c) (rev (V c)) (fun x => rev (rs G x)) s').
    - rewrite concat_rev_map. change (concat (map (rs G) (V c))) with vs. unfold s'.
      rewrite (uc_state (rev vs) [] (eq_sym (app_nil_r _))). simpl.
      destruct cc_basic as [W [Hinc [Hl [HN HH]]]].
      f_equal. apply (relink_unlink_header s nc N cols scols c HH HN Hc).
    - intros pre post E. rewrite concat_rev_map in E. change (concat (map (rs G) (V c))) with vs in E.
      unfold s'. rewrite (uc_state pre post E).
      assert (E' : vs = rev post ++ rev pre).
      { rewrite <- (rev_involutive vs), E, rev_app_distr. reflexivity. }
      destruct (cc_chains (rev post) (rev pre) E') as [A [B C]].
      split; [exact A|]. split; [apply B|].
      intros x Hx. apply in_rev in Hx. destruct (C x Hx) as [_ C2]. exact C2.
    - intros K. apply in_rev in K. exact (cc_hdr_notin K).
    - intros x Hx K. apply in_rev in Hx. apply in_rev in K. exact (proj2 (L2 x Hx) K).
    - rewrite rev_length. exact L1.
    - intros x Hx. apply in_rev in Hx. rewrite rev_length. apply L2. exact Hx.
  Qed.
End CoverCol.

(* ---------------------------------------------------------------- the two refinement lemmas, relational form *)
Theorem cover_ok s nc N G cols scols rows c :
  Rep s nc N G cols scols rows -> In c (cols ++ scols) ->
  exists s', cover (hdr c) s = Some s'
    /\ Rep s' nc N G (rmv c cols) (rmv c scols) (filter (fun g => negb (ghas c g)) rows)
    /\ uncover (hdr c) s' = Some s
    /\ dring (down s') (up s') (hdr c) (vcol c rows)
    /\ fC s' = fC s.
Proof.
  intros HR Hc. exists (foldop unlink_v (victims G c rows) (unlink_h (hdr c) s)).
  split; [eapply cover_eq; eauto|]. split; [eapply cover_Rep; eauto|].
  split; [eapply uncover_eq; eauto|]. split; [eapply cover_keeps_col; eauto|].
  destruct (cc_prefix s nc N G cols scols rows c HR Hc (victims G c rows) [] (eq_sym (app_nil_r _))) as [_ [_ [_ [E _]]]].
  exact E.
Qed.
