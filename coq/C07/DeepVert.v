(* Vertical structure: every active column j owns a doubly linked ring hdr j -> V j (down / up), its size field is the
   ring length.  Unlinking a node of an active column removes it from that ring and leaves every other ring alone;
   relinking in the reverse order restores the state exactly (the dancing-links property). *)
From Coq Require Import List Arith Bool Lia.
From SV Require Import C07.Dlx C07.DeepLinks C07.DeepBase C07.DeepOps.
Import ListNotations.

Definition VCol (s : lst) (nc N j : nat) (l : list nat) : Prop :=
  dring (down s) (up s) (hdr j) l /\ NoDup l /\ csize s (hdr j) = length l /\
  (forall y, In y l -> column s y = hdr j /\ 2 + nc <= y < N) /\ j < nc.

Definition VInv (s : lst) (nc N : nat) (act : list nat) (V : nat -> list nat) : Prop :=
  lens s N /\ 2 + nc <= N /\ forall j, In j act -> VCol s nc N j (V j).

Definition Vdel (ys : list nat) (V : nat -> list nat) : nat -> list nat :=
  fun k => filter (fun z => negb (mem z ys)) (V k).

Lemma VInv_ext s nc N act V V' : (forall k, V k = V' k) -> VInv s nc N act V -> VInv s nc N act V'.
Proof. intros E [A [B C]]. split; [exact A|]. split; [exact B|]. intros j Hj. rewrite <- E. apply C. exact Hj. Qed.

Lemma VInv_sub s nc N act act' V : incl act' act -> VInv s nc N act V -> VInv s nc N act' V.
Proof. intros I [A [B C]]. split; [exact A|]. split; [exact B|]. intros j Hj. apply C. apply I. exact Hj. Qed.

Lemma mem_true_iff x l : mem x l = true <-> In x l.
Proof.
  unfold mem. rewrite existsb_exists. split.
  - intros [y [Hy E]]. apply Nat.eqb_eq in E. subst. exact Hy.
  - intros H. exists x. split; [exact H | apply Nat.eqb_refl].
Qed.

Lemma mem_false_iff x l : mem x l = false <-> ~ In x l.
Proof. rewrite <- mem_true_iff. destruct (mem x l); split; intros; congruence. Qed.

Lemma filter_id {A} (p : A -> bool) l : (forall x, In x l -> p x = true) -> filter p l = l.
Proof.
  induction l as [|x t IH]; intros H; simpl; [reflexivity|].
  rewrite (H x (or_introl eq_refl)). f_equal. apply IH. intros z Hz. apply H. right. exact Hz.
Qed.

Lemma filter_remove_len (y : nat) l : NoDup l -> In y l ->
  length (filter (fun z => negb (z =? y)) l) = length l - 1.
Proof.
  intros Hnd Hy. apply in_split in Hy. destruct Hy as [l1 [l2 ->]].
  apply NoDup_remove_2 in Hnd.
  rewrite filter_neq_split.
  - rewrite !app_length. simpl. lia.
  - intros K. apply Hnd. apply in_or_app. left. exact K.
  - intros K. apply Hnd. apply in_or_app. right. exact K.
Qed.

Lemma Vdel_single y V k : Vdel [y] V k = filter (fun z => negb (z =? y)) (V k).
Proof. unfold Vdel. apply filter_ext. intros z. unfold mem. simpl. rewrite orb_false_r. reflexivity. Qed.

Lemma Vdel_cons y t V k : Vdel (y :: t) V k = Vdel t (Vdel [y] V) k.
Proof.
  unfold Vdel. generalize (V k). induction l as [|z l IH]; simpl; [reflexivity|].
  unfold mem at 1 3. simpl. rewrite orb_false_r.
  destruct (z =? y) eqn:E; simpl; [exact IH|].
  fold (mem z t). destruct (mem z t); simpl; [exact IH | f_equal; exact IH].
Qed.

Lemma Vdel_nil V k : Vdel [] V k = V k.
Proof. unfold Vdel. apply filter_id. intros. reflexivity. Qed.

Lemma Vdel_notin ys V k : (forall y, In y ys -> ~ In y (V k)) -> Vdel ys V k = V k.
Proof.
  intros H. unfold Vdel. apply filter_id. intros z Hz. apply negb_true_iff. apply mem_false_iff.
  intros K. exact (H z K Hz).
Qed.

Lemma dring_ext f g f' g' h l :
  (forall z, In z (h :: l) -> f' z = f z /\ g' z = g z) -> dring f g h l -> dring f' g' h l.
Proof.
  intros E [H1 H2]. split.
  - apply chain_ext with (f := f); [|exact H1]. intros z Hz. apply E. exact Hz.
  - apply chain_ext with (f := g); [|exact H2]. intros z Hz. apply E.
    destruct Hz as [Hz|Hz]; [left; exact Hz | right; apply in_rev; exact Hz].
Qed.

Lemma VCol_nodup s nc N j l : VCol s nc N j l -> NoDup (hdr j :: l).
Proof.
  intros [_ [Hnd [_ [Hc Hj]]]]. constructor; [|exact Hnd].
  intros K. apply Hc in K. unfold hdr in K. lia.
Qed.

Lemma VCol_disj s nc N j k l l' z :
  VCol s nc N j l -> VCol s nc N k l' -> j <> k -> In z (hdr j :: l) -> In z (hdr k :: l') -> False.
Proof.
  intros [_ [_ [_ [Hc Hj]]]] [_ [_ [_ [Hc' Hk]]]] Hne [A|A] [B|B]; unfold hdr in *.
  - lia.
  - apply Hc' in B. lia.
  - apply Hc in A. lia.
  - apply Hc in A. apply Hc' in B. destruct A as [A _], B as [B _]. rewrite A in B. lia.
Qed.

Section Unlink1.
  Variables (s : lst) (nc N : nat) (act : list nat) (V : nat -> list nat) (j y : nat).
  Hypothesis HV : VInv s nc N act V.
  Hypothesis Hj : In j act.
  Hypothesis Hy : In y (V j).

  Lemma linked_facts :
    lens s N /\ down s y < N /\ up s y < N /\ column s y = hdr j /\ hdr j < N /\ down s y <> y /\ up s y <> y
    /\ up s (down s y) = y /\ down s (up s y) = y /\ In (down s y) (hdr j :: V j) /\ In (up s y) (hdr j :: V j)
    /\ 1 <= csize s (hdr j).
  Proof.
    destruct HV as [Hl [HN HC]]. pose proof (HC j Hj) as VC.
    pose proof (VCol_nodup _ _ _ _ _ VC) as Hnd.
    destruct VC as [Hr [Hndl [Hsz [Hcol Hjn]]]].
    destruct (dring_linked _ _ _ _ _ Hr Hnd Hy) as [A [B [C [D [E F]]]]].
    assert (Hh : hdr j < N) by (unfold hdr; lia).
    assert (R : forall z, In z (hdr j :: V j) -> z < N).
    { intros z [<-|Hz]; [exact Hh | apply Hcol in Hz; lia]. }
    assert (Hs1 : 1 <= csize s (hdr j)).
    { rewrite Hsz. destruct (V j); [contradiction | simpl; lia]. }
    destruct (Hcol y Hy) as [Hcy _].
    split; [exact Hl|]. split; [apply R; exact E|]. split; [apply R; exact F|].
    split; [exact Hcy|]. split; [exact Hh|]. auto 10.
  Qed.

  Lemma unlink_v_VInv : VInv (unlink_v y s) nc N act (Vdel [y] V).
  Proof.
    destruct linked_facts as [Hl [Hd [Hu [Hc [Hh [Hdy [Huy [Hud [Hdu [Hdin [Huin Hsz]]]]]]]]]]].
    assert (Hcn : column s y < N) by (rewrite Hc; exact Hh).
    destruct HV as [_ [HN HC]].
    split; [eapply unlink_v_lens; eauto|]. split; [exact HN|].
    intros k Hk. pose proof (HC k Hk) as VCk. pose proof (HC j Hj) as VCj.
    destruct (unlink_v_fields s y) as [_ [_ [EC _]]].
    assert (Ecol : forall z, column (unlink_v y s) z = column s z) by (intros z; unfold column; rewrite EC; reflexivity).
    rewrite Vdel_single.
    destruct (Nat.eq_dec k j) as [->|Hkj].
    - destruct VCj as [Hr [Hndl [Hs [Hcol Hjn]]]].
      split; [|split; [|split; [|split]]].
      + eapply dring_unlink; eauto.
        * eapply VCol_nodup. apply HC. exact Hj.
        * intros z. eapply unlink_v_down; eauto.
        * intros z. eapply unlink_v_up; eauto.
      + apply NoDup_filter. exact Hndl.
      + erewrite unlink_v_size by eauto. unfold upd. rewrite Hc, Nat.eqb_refl.
        rewrite filter_remove_len by assumption. rewrite Hs. reflexivity.
      + intros z Hz. apply filter_In in Hz. destruct Hz as [Hz _]. rewrite Ecol. apply Hcol. exact Hz.
      + exact Hjn.
    - assert (Hny : ~ In y (V k)).
      { intros K. apply (VCol_disj s nc N j k (V j) (V k) y VCj VCk); [congruence | right; exact Hy | right; exact K]. }
      rewrite filter_id.
      2:{ intros z Hz. apply negb_true_iff. apply Nat.eqb_neq. intros ->. contradiction. }
      destruct VCk as [Hr [Hndl [Hs [Hcol Hkn]]]].
      split; [|split; [exact Hndl|split; [|split; [|exact Hkn]]]].
      + eapply dring_ext; [|exact Hr]. intros z Hz.
        erewrite unlink_v_down, unlink_v_up by eauto. unfold upd.
        assert (z <> up s y).
        { intros ->. apply (VCol_disj s nc N j k (V j) (V k) (up s y) (HC j Hj) (HC k Hk)); [congruence | exact Huin | exact Hz]. }
        assert (z <> down s y).
        { intros ->. apply (VCol_disj s nc N j k (V j) (V k) (down s y) (HC j Hj) (HC k Hk)); [congruence | exact Hdin | exact Hz]. }
        apply Nat.eqb_neq in H, H0. rewrite H, H0. auto.
      + erewrite unlink_v_size by eauto. unfold upd. rewrite Hc.
        assert (hdr k <> hdr j) by (unfold hdr; lia). apply Nat.eqb_neq in H. rewrite H. exact Hs.
      + intros z Hz. rewrite Ecol. apply Hcol. exact Hz.
  Qed.

  Lemma relink_unlink_here : relink_v y (unlink_v y s) = s.
  Proof.
    destruct linked_facts as [Hl [Hd [Hu [Hc [Hh [Hdy [Huy [Hud [Hdu [Hdin [Huin Hsz]]]]]]]]]]].
    eapply relink_unlink_v; eauto; rewrite Hc; assumption.
  Qed.
End Unlink1.

Definition owned (act : list nat) (V : nat -> list nat) (ys : list nat) : Prop :=
  forall y, In y ys -> exists j, In j act /\ In y (V j).

Lemma owned_step act V y t : NoDup (y :: t) -> owned act V (y :: t) -> owned act (Vdel [y] V) t.
Proof.
  intros Hnd Ho z Hz. destruct (Ho z (or_intror Hz)) as [j [Hj Hin]]. exists j. split; [exact Hj|].
  rewrite Vdel_single. apply filter_In. split; [exact Hin|].
  apply negb_true_iff. apply Nat.eqb_neq. intros ->. inversion Hnd. contradiction.
Qed.

Lemma unlink_fold_VInv nc N act : forall ys s V,
  VInv s nc N act V -> NoDup ys -> owned act V ys ->
  VInv (foldop unlink_v ys s) nc N act (Vdel ys V)
  /\ fL (foldop unlink_v ys s) = fL s /\ fR (foldop unlink_v ys s) = fR s
  /\ fC (foldop unlink_v ys s) = fC s /\ fRow (foldop unlink_v ys s) = fRow s.
Proof.
  induction ys as [|y t IH]; intros s V HV Hnd Ho.
  - simpl. split; [|auto]. eapply VInv_ext; [|exact HV]. intros k. symmetry. apply Vdel_nil.
  - destruct (Ho y (or_introl eq_refl)) as [j [Hj Hy]].
    pose proof (unlink_v_VInv s nc N act V j y HV Hj Hy) as HV1.
    assert (Hnd' : NoDup t) by (inversion Hnd; assumption).
    destruct (IH (unlink_v y s) (Vdel [y] V) HV1 Hnd' (owned_step _ _ _ _ Hnd Ho)) as [A [B [C [D E]]]].
    change (foldop unlink_v (y :: t) s) with (foldop unlink_v t (unlink_v y s)).
    split.
    + eapply VInv_ext; [|exact A]. intros k. symmetry. apply Vdel_cons.
    + rewrite B, C, D, E. unfold unlink_v. simpl. auto.
Qed.

Lemma relink_fold_unlink nc N act : forall ys s V,
  VInv s nc N act V -> NoDup ys -> owned act V ys ->
  foldop relink_v (rev ys) (foldop unlink_v ys s) = s.
Proof.
  induction ys as [|y t IH]; intros s V HV Hnd Ho; [reflexivity|].
  destruct (Ho y (or_introl eq_refl)) as [j [Hj Hy]].
  pose proof (unlink_v_VInv s nc N act V j y HV Hj Hy) as HV1.
  assert (Hnd' : NoDup t) by (inversion Hnd; assumption).
  change (foldop unlink_v (y :: t) s) with (foldop unlink_v t (unlink_v y s)).
  simpl rev. rewrite foldop_app.
  rewrite (IH (unlink_v y s) (Vdel [y] V) HV1 Hnd' (owned_step _ _ _ _ Hnd Ho)).
  simpl. eapply relink_unlink_here; eauto.
Qed.
