(* Effect of the elementary pointer operations (unlink_v / relink_v / unlink_h / relink_h) on the field maps, the
   fact that relink undoes unlink on a linked node, and the two-level loop lemma shared by _cover and _uncover. *)
From Coq Require Import List Arith Bool Lia.
From SV Require Import C07.Dlx C07.DeepLinks C07.DeepBase.
Import ListNotations.

Definition lens (s : lst) (N : nat) : Prop :=
  length (fL s) = N /\ length (fR s) = N /\ length (fU s) = N /\ length (fD s) = N /\
  length (fC s) = N /\ length (fRow s) = N /\ length (fS s) = N.

Lemma lens_n_ids s N : lens s N -> n_ids s = N.
Proof. intros H. apply H. Qed.

Lemma lst_eq (a b : lst) :
  fL a = fL b -> fR a = fR b -> fU a = fU b -> fD a = fD b -> fC a = fC b -> fRow a = fRow b -> fS a = fS b -> a = b.
Proof. destruct a, b; simpl; intros; subst; reflexivity. Qed.

(* ---------------------------------------------------------------- unlink_v *)
Section UnlinkV.
  Variables (s : lst) (N y : nat).
  Hypothesis Hl : lens s N.
  Hypothesis Hd : down s y < N.
  Hypothesis Hu : up s y < N.
  Hypothesis Hc : column s y < N.
  Hypothesis Hdy : down s y <> y.

  Lemma unlink_v_fields :
    fL (unlink_v y s) = fL s /\ fR (unlink_v y s) = fR s /\ fC (unlink_v y s) = fC s /\ fRow (unlink_v y s) = fRow s.
  Proof. unfold unlink_v. simpl. auto. Qed.

  Lemma unlink_v_lens : lens (unlink_v y s) N.
  Proof.
    destruct Hl as [A [B [C [D [E [F G]]]]]]. unfold unlink_v, lens; simpl.
    rewrite !set_length. auto 10.
  Qed.

  Lemma unlink_v_up k : up (unlink_v y s) k = upd (up s) (down s y) (up s y) k.
  Proof.
    unfold unlink_v, up, upd; simpl. apply get_set. destruct Hl as [_ [_ [C _]]]. rewrite C. exact Hd.
  Qed.

  Lemma unlink_v_down k : down (unlink_v y s) k = upd (down s) (up s y) (down s y) k.
  Proof.
    unfold unlink_v, down, upd, up; simpl.
    rewrite (get_set_other (fU s)) by exact Hdy.
    apply get_set. destruct Hl as [_ [_ [_ [D _]]]]. rewrite D. exact Hu.
  Qed.

  Lemma unlink_v_size k :
    csize (unlink_v y s) k = upd (csize s) (column s y) (csize s (column s y) - 1) k.
  Proof.
    unfold unlink_v, csize, upd, column; simpl. apply get_set.
    destruct Hl as [_ [_ [_ [_ [_ [_ G]]]]]]. rewrite G. exact Hc.
  Qed.
End UnlinkV.

(* relink_v undoes unlink_v on a node that is linked in (neighbours point to it) *)
Lemma relink_unlink_v s N y :
  lens s N -> column s y < N ->
  down s y <> y -> up s y <> y ->
  up s (down s y) = y -> down s (up s y) = y ->
  1 <= csize s (column s y) ->
  relink_v y (unlink_v y s) = s.
Proof.
  intros Hl Hc Hdy Huy Hud Hdu Hsz.
  destruct Hl as [_ [_ [_ [_ [_ [_ G]]]]]].
  unfold relink_v, unlink_v, column, csize, up, down in *; simpl.
  rewrite (get_set_other (fU s)) by exact Hdy.
  rewrite (get_set_other (fD s)) by exact Huy.
  apply lst_eq; simpl; try reflexivity.
  - rewrite set_set. apply set_same_val. exact Hud.
  - rewrite set_set. rewrite (get_set_other (fU s)) by exact Hdy. rewrite set_set. apply set_same_val. exact Hdu.
  - rewrite set_set. apply set_same_val. rewrite get_set_same by (rewrite G; exact Hc). lia.
Qed.

(* ---------------------------------------------------------------- unlink_h *)
Section UnlinkH.
  Variables (s : lst) (N c : nat).
  Hypothesis Hl : lens s N.
  Hypothesis Hr : right s c < N.
  Hypothesis Hlf : left s c < N.
  Hypothesis Hrc : right s c <> c.

  Lemma unlink_h_fields :
    fU (unlink_h c s) = fU s /\ fD (unlink_h c s) = fD s /\ fC (unlink_h c s) = fC s
    /\ fRow (unlink_h c s) = fRow s /\ fS (unlink_h c s) = fS s.
  Proof. unfold unlink_h. simpl. auto. Qed.

  Lemma unlink_h_lens : lens (unlink_h c s) N.
  Proof.
    destruct Hl as [A [B [C [D [E [F G]]]]]]. unfold unlink_h, lens; simpl.
    rewrite !set_length. auto 10.
  Qed.

  Lemma unlink_h_left k : left (unlink_h c s) k = upd (left s) (right s c) (left s c) k.
  Proof.
    unfold unlink_h, left, upd; simpl. apply get_set. destruct Hl as [A _]. rewrite A. exact Hr.
  Qed.

  Lemma unlink_h_right k : right (unlink_h c s) k = upd (right s) (left s c) (right s c) k.
  Proof.
    unfold unlink_h, right, upd, left; simpl.
    rewrite (get_set_other (fL s)) by exact Hrc.
    apply get_set. destruct Hl as [_ [B _]]. rewrite B. exact Hlf.
  Qed.
End UnlinkH.

Lemma relink_unlink_h s c :
  right s c <> c -> left s c <> c ->
  left s (right s c) = c -> right s (left s c) = c ->
  relink_h c (unlink_h c s) = s.
Proof.
  intros Hrc Hlc Hlr Hrl.
  unfold relink_h, unlink_h, left, right in *; simpl.
  rewrite (get_set_other (fL s)) by exact Hrc.
  rewrite (get_set_other (fR s)) by exact Hlc.
  apply lst_eq; simpl; try reflexivity.
  - rewrite set_set. apply set_same_val. exact Hlr.
  - rewrite set_set. rewrite (get_set_other (fL s)) by exact Hrc. rewrite set_set. apply set_same_val. exact Hrl.
Qed.

(* ---------------------------------------------------------------- the two-level loop of _cover / _uncover *)
Definition foldop (op : nat -> lst -> lst) (ys : list nat) (s : lst) : lst :=
  fold_left (fun a y => op y a) ys s.

Lemma foldop_app op a b s : foldop op (a ++ b) s = foldop op b (foldop op a s).
Proof. unfold foldop. apply fold_left_app. Qed.

Lemma walk2 (nO nI : lst -> nat -> nat) (op : nat -> lst -> lst) (N h : nat) (xs : list nat)
      (rs : nat -> list nat) (s0 : lst) :
  (forall pre post, concat (map rs xs) = pre ++ post ->
     n_ids (foldop op pre s0) = N /\ chain (nO (foldop op pre s0)) h xs h
     /\ forall x, In x xs -> chain (nI (foldop op pre s0)) x (rs x) x) ->
  ~ In h xs -> (forall x, In x xs -> ~ In x (rs x)) ->
  length xs <= N -> (forall x, In x xs -> length (rs x) <= N) ->
  walk (S N) nO h
       (fun node s2 => walk (loop_fuel s2) nI node (fun rn s3 => Some (op rn s3)) (nI s2 node) s2)
       (nO s0 h) s0
  = Some (foldop op (concat (map rs xs)) s0).
Proof.
  intros Good Hh Hx HlenO HlenI.
  set (body := fun node s2 => walk (loop_fuel s2) nI node (fun rn s3 => Some (op rn s3)) (nI s2 node) s2).
  set (P := fun (rest : list nat) (s : lst) =>
              exists done, done ++ rest = xs /\ s = foldop op (concat (map rs done)) s0).
  assert (Hstart : nO s0 h = hd h xs).
  { destruct (Good [] (concat (map rs xs)) eq_refl) as [_ [Hc _]]. apply chain_hd in Hc. exact Hc. }
  rewrite Hstart.
  assert (Hsplit : forall done x rest, done ++ x :: rest = xs ->
            concat (map rs xs) = concat (map rs done) ++ rs x ++ concat (map rs rest)).
  { intros done x rest <-. rewrite map_app, concat_app. simpl. reflexivity. }
  destruct (walk_inv nO h body P) with (l := xs) (fuel := S N) (a := s0) as [a' [Hw HP]].
  - intros x rest s [done [Hd Hs]].
    assert (Hin : In x xs) by (rewrite <- Hd; apply in_or_app; right; left; reflexivity).
    split; [intros ->; contradiction|].
    pose proof (Hsplit done x rest Hd) as Hall.
    (* inner loop *)
    set (P' := fun (irest : list nat) (s' : lst) =>
                 exists idone, idone ++ irest = rs x /\ s' = foldop op (concat (map rs done) ++ idone) s0).
    assert (Hgood_s : n_ids s = N /\ chain (nI s) x (rs x) x).
    { destruct (Good (concat (map rs done)) (rs x ++ concat (map rs rest)) Hall) as [A [_ B]].
      rewrite <- Hs in A, B. split; [exact A | apply B; exact Hin]. }
    destruct Hgood_s as [HN Hci].
    destruct (walk_inv nI x (fun rn s3 => Some (op rn s3)) P') with (l := rs x) (fuel := loop_fuel s) (a := s)
      as [a1 [Hw1 HP1]].
    + intros y irest s' [idone [Hid Hs']].
      split.
      { intros ->. apply (Hx x Hin). rewrite <- Hid. apply in_or_app. right. left. reflexivity. }
      exists (op y s'). split; [reflexivity|]. split.
      * exists (idone ++ [y]). split; [rewrite <- app_assoc; exact Hid|].
        rewrite Hs'. rewrite app_assoc. rewrite (foldop_app op _ [y]). reflexivity.
      * assert (E : op y s' = foldop op ((concat (map rs done) ++ idone) ++ [y]) s0).
        { rewrite Hs'. rewrite (foldop_app op _ [y]). reflexivity. }
        destruct (Good ((concat (map rs done) ++ idone) ++ [y]) (irest ++ concat (map rs rest))) as [_ [_ B]].
        { rewrite Hall, <- Hid. rewrite <- !app_assoc. reflexivity. }
        rewrite <- E in B. specialize (B x Hin). rewrite <- Hid in B. apply chain_at in B. exact B.
    + exists []. split; [reflexivity|]. rewrite app_nil_r. exact Hs.
    + unfold loop_fuel. rewrite HN. specialize (HlenI x Hin). lia.
    + destruct HP1 as [idone [Hid Hs1]]. rewrite app_nil_r in Hid. subst idone.
      exists a1. split.
      * unfold body. apply chain_hd in Hci. rewrite Hci. exact Hw1.
      * split.
        { exists (done ++ [x]). split; [rewrite <- app_assoc; exact Hd|].
          rewrite map_app, concat_app. simpl. rewrite app_nil_r. exact Hs1. }
        { destruct (Good (concat (map rs done) ++ rs x) (concat (map rs rest))) as [_ [B _]].
          { rewrite Hall. rewrite app_assoc. reflexivity. }
          rewrite <- Hs1 in B. rewrite <- Hd in B. apply chain_at in B. exact B. }
  - exists []. split; reflexivity.
  - lia.
  - destruct HP as [done [Hd Hs]]. rewrite app_nil_r in Hd. subst done. rewrite Hw, Hs. reflexivity.
Qed.
