(* Proofs, part 2: what search() (with its counters, find_all / max_solutions / max_iter cut-offs) records,
   relative to the pure enumeration all_sols; fuel sufficiency. *)
From Coq Require Import List Arith Bool Lia ZArith.
From SV Require Import C07.Dlx C07.DlxSpec C07.DlxEnum.
Import ListNotations.

Lemma all_sols_cons f c0 rest rows :
  all_sols (S f) (c0 :: rest) rows =
  match choose_loop rows (c0 :: rest) None with
  | None => []
  | Some (c, sz) =>
      if sz =? 0 then []
      else flat_map (fun r => map (cons r) (all_sols f (remove_cols (snd r) (c0 :: rest)) (remove_rows r rows)))
                    (filter (has c) rows)
  end.
Proof. reflexivity. Qed.

Section WithFlags.
  Variable fa : bool.
  Variable ms : option Z.
  Variable mi : Z.

  Lemma search_S f cols rows cur st :
    search fa ms mi (S f) cols rows cur st =
    if (mi <? Z.of_nat (iters (bump_iter st)))%Z then Some (false, bump_iter st)
    else
      match cols with
      | [] =>
          if negb fa then Some (true, add_sol (rev cur) (bump_iter st))
          else if ms_hit ms (length (sols (add_sol (rev cur) (bump_iter st))))
               then Some (true, add_sol (rev cur) (bump_iter st))
               else Some (false, add_sol (rev cur) (bump_iter st))
      | _ :: _ =>
          match choose_loop rows cols None with
          | None => Some (false, bump_iter st)
          | Some (c, sz) =>
              if sz =? 0 then Some (false, bump_iter st)
              else try_rows fa ms
                     (fun r st' => search fa ms mi f (remove_cols (snd r) cols) (remove_rows r rows) (fst r :: cur) st')
                     (filter (has c) rows) (bump_cover 1 (bump_iter st))
          end
      end.
  Proof. reflexivity. Qed.

  Lemma ms_hit_mono n n' : ms_hit ms n = true -> n <= n' -> ms_hit ms n' = true.
  Proof.
    unfold ms_hit. destruct ms as [k|]; [|discriminate]. intros H Hle.
    apply andb_true_iff in H. destruct H as [H1 H2]. apply andb_true_iff. split; [exact H1|].
    apply Z.leb_le in H2. apply Z.leb_le. lia.
  Qed.

  (* st' extends st: counters only grow, solutions are only added in front, and the added ones are Good *)
  Definition ext (Good : list nat -> Prop) (st st' : sst) : Prop :=
    iters st <= iters st' /\ exists new, sols st' = new ++ sols st /\ forall s, In s new -> Good s.

  Lemma ext_refl Good st : ext Good st st.
  Proof. split; [lia|]. exists []. split; [reflexivity | intros s []]. Qed.

  Lemma ext_trans Good a b c : ext Good a b -> ext Good b c -> ext Good a c.
  Proof.
    intros [I1 [n1 [E1 G1]]] [I2 [n2 [E2 G2]]]. split; [lia|].
    exists (n2 ++ n1). split; [rewrite E2, E1, app_assoc; reflexivity|].
    intros s Hs. apply in_app_or in Hs. destruct Hs; auto.
  Qed.

  Lemma ext_impl (G1 G2 : list nat -> Prop) a b : (forall s, G1 s -> G2 s) -> ext G1 a b -> ext G2 a b.
  Proof. intros H [I1 [n [E G]]]. split; [exact I1|]. exists n. split; [exact E | auto]. Qed.

  Lemma ext_bump_cover Good k st st' : ext Good (bump_cover k st) st' -> ext Good st st'.
  Proof. intros H. exact H. Qed.

  Lemma ext_len Good st st' : ext Good st st' -> length (sols st) <= length (sols st').
  Proof. intros [_ [n [E _]]]. rewrite E, app_length. lia. Qed.

  Lemma try_rows_ext Good rec : forall cands st b st',
    (forall r s b1 s1, In r cands -> rec r s = Some (b1, s1) -> ext Good s s1) ->
    try_rows fa ms rec cands st = Some (b, st') -> ext Good st st'.
  Proof.
    induction cands as [|r rest IH]; intros st b st' Hrec H; simpl in H.
    - inversion H; subst. apply ext_refl.
    - destruct (rec r (bump_cover (length (snd r) - 1) st)) as [[b1 s1]|] eqn:E; [|discriminate].
      assert (X : ext Good st s1) by (apply (ext_bump_cover Good (length (snd r) - 1)); eapply Hrec; [left; reflexivity | exact E]).
      assert (Y : forall b st', try_rows fa ms rec rest s1 = Some (b, st') -> ext Good st st').
      { intros b' st'' H'. eapply ext_trans; [exact X|]. eapply IH; [|exact H'].
        intros r0 s b0 s0 Hr0. apply Hrec. right. exact Hr0. }
      destruct b1.
      + destruct (negb fa); [inversion H; subst; exact X|].
        destruct (ms_hit ms (length (sols s1))); [inversion H; subst; exact X|].
        eapply Y; exact H.
      + eapply Y; exact H.
  Qed.

  Definition good_sol (f : nat) (cols : list nat) (rows : list row) (cur : list nat) (s : list nat) : Prop :=
    exists T, In T (all_sols f cols rows) /\ s = rev cur ++ map fst T.

  (* every solution recorded by search (whatever the flags and limits) is one of all_sols *)
  Lemma search_ext : forall f cols rows cur st b st',
    search fa ms mi f cols rows cur st = Some (b, st') -> ext (good_sol f cols rows cur) st st'.
  Proof.
    induction f as [|f IH]; intros cols rows cur st b st' H; [discriminate|].
    rewrite search_S in H.
    destruct (mi <? Z.of_nat (iters (bump_iter st)))%Z.
    { inversion H; subst. split; [simpl; lia|]. exists []. split; [reflexivity | intros s []]. }
    destruct cols as [|c0 rest].
    - assert (X : ext (good_sol (S f) [] rows cur) st (add_sol (rev cur) (bump_iter st))).
      { split; [simpl; lia|]. exists [rev cur]. split; [reflexivity|].
        intros s [E|[]]. subst s. exists []. split; [left; reflexivity | simpl; rewrite app_nil_r; reflexivity]. }
      destruct (negb fa); [inversion H; subst; exact X|].
      destruct (ms_hit ms (length (sols (add_sol (rev cur) (bump_iter st))))); inversion H; subst; exact X.
    - assert (B : ext (good_sol (S f) (c0 :: rest) rows cur) st (bump_iter st)).
      { split; [simpl; lia|]. exists []. split; [reflexivity | intros s []]. }
      destruct (choose_loop rows (c0 :: rest) None) as [[c sz]|] eqn:Ech; [|inversion H; subst; exact B].
      destruct (sz =? 0) eqn:Esz; [inversion H; subst; exact B|].
      eapply ext_trans; [exact B|].
      apply (ext_bump_cover _ 1).
      eapply try_rows_ext; [|exact H].
      intros r s b1 s1 Hr Hs. apply IH in Hs.
      eapply ext_impl; [|exact Hs].
      intros sol [T [HT Es]]. exists (r :: T). split.
      + rewrite all_sols_cons, Ech, Esz. apply in_flat_map. exists r. split; [exact Hr|]. apply in_map. exact HT.
      + rewrite Es. simpl. rewrite <- app_assoc. reflexivity.
  Qed.

  Lemma search_iters_mono f cols rows cur st b st' :
    search fa ms mi f cols rows cur st = Some (b, st') -> iters st <= iters st'.
  Proof. intros H. apply search_ext in H. apply H. Qed.

  (* search returns True only in the two situations in which the callers stop, and only after a solution
     was recorded *)
  Definition stop_ok (st st' : sst) : Prop :=
    (fa = false \/ ms_hit ms (length (sols st')) = true) /\ length (sols st) < length (sols st').

  Lemma search_true : forall f cols rows cur st st',
    search fa ms mi f cols rows cur st = Some (true, st') -> stop_ok st st'.
  Proof.
    induction f as [|f IH]; intros cols rows cur st st' H; [discriminate|].
    rewrite search_S in H.
    destruct (mi <? Z.of_nat (iters (bump_iter st)))%Z; [discriminate|].
    destruct cols as [|c0 rest].
    - destruct (negb fa) eqn:Efa.
      + inversion H; subst. split; [left; apply negb_true_iff; exact Efa | simpl; lia].
      + destruct (ms_hit ms (length (sols (add_sol (rev cur) (bump_iter st))))) eqn:Ehit; [|discriminate].
        inversion H; subst. split; [right; exact Ehit | simpl; lia].
    - destruct (choose_loop rows (c0 :: rest) None) as [[c sz]|]; [|discriminate].
      destruct (sz =? 0); [discriminate|].
      remember (fun (r : row) (st'0 : sst) =>
                  search fa ms mi f (remove_cols (snd r) (c0 :: rest)) (remove_rows r rows) (fst r :: cur) st'0) as rec.
      assert (G : forall cands s s', try_rows fa ms rec cands s = Some (true, s') -> stop_ok s s').
      { induction cands as [|r more IHc]; intros s s' Ht; simpl in Ht; [discriminate|].
        destruct (rec r (bump_cover (length (snd r) - 1) s)) as [[b1 s1]|] eqn:E; [|discriminate].
        assert (Hle : length (sols s) <= length (sols s1)).
        { rewrite Heqrec in E. apply search_ext in E. apply ext_len in E. exact E. }
        assert (K : try_rows fa ms rec more s1 = Some (true, s') -> stop_ok s s').
        { intros Ht'. apply IHc in Ht'. destruct Ht' as [A Bl]. split; [exact A | lia]. }
        destruct b1; [|exact (K Ht)].
        assert (St : stop_ok s s1).
        { rewrite Heqrec in E. apply IH in E. destruct E as [A Bl]. split; [exact A | simpl in Bl; exact Bl]. }
        destruct (negb fa); [inversion Ht; subst; exact St|].
        destruct (ms_hit ms (length (sols s1))); [inversion Ht; subst; exact St | exact (K Ht)]. }
      apply G in H. destruct H as [A Bl]. split; [exact A | simpl in Bl; exact Bl].
  Qed.

  (* a search that returned False without having run over max_iter has recorded the whole enumeration *)
  Lemma search_false_full : forall f cols rows cur st st',
    search fa ms mi f cols rows cur st = Some (false, st') ->
    length cols < f ->
    (Z.of_nat (iters st') <= mi)%Z ->
    sols st' = rev (map (fun T => rev cur ++ map fst T) (all_sols f cols rows)) ++ sols st.
  Proof.
    induction f as [|f IH]; intros cols rows cur st st' H Hlen Hmi; [discriminate|].
    rewrite search_S in H.
    destruct (mi <? Z.of_nat (iters (bump_iter st)))%Z eqn:Ecut.
    { inversion H; subst. apply Z.ltb_lt in Ecut. lia. }
    destruct cols as [|c0 rest].
    - simpl. rewrite app_nil_r.
      destruct (negb fa); [discriminate|].
      destruct (ms_hit ms (length (sols (add_sol (rev cur) (bump_iter st))))); [discriminate|].
      inversion H; subst. reflexivity.
    - rewrite all_sols_cons.
      destruct (choose_loop rows (c0 :: rest) None) as [[c sz]|] eqn:Ech; [|inversion H; subst; reflexivity].
      destruct (sz =? 0) eqn:Esz; [inversion H; subst; reflexivity|].
      apply choose_loop_spec in Ech. destruct Ech as [Ech|[Hc _]]; [discriminate|].
      set (F := fun T : list row => rev cur ++ map fst T).
      set (G := fun r : row => map (cons r) (all_sols f (remove_cols (snd r) (c0 :: rest)) (remove_rows r rows))).
      remember (fun (r : row) (st'0 : sst) =>
                  search fa ms mi f (remove_cols (snd r) (c0 :: rest)) (remove_rows r rows) (fst r :: cur) st'0) as rec.
      assert (Hrec_ext : forall r s b1 s1, rec r s = Some (b1, s1) -> ext (fun _ => True) s s1).
      { intros r s b1 s1 E. rewrite Heqrec in E. apply search_ext in E. eapply ext_impl; [|exact E]. trivial. }
      assert (L : forall cands s s',
                 (forall r, In r cands -> In c (snd r)) ->
                 try_rows fa ms rec cands s = Some (false, s') ->
                 (Z.of_nat (iters s') <= mi)%Z ->
                 sols s' = rev (map F (flat_map G cands)) ++ sols s).
      { induction cands as [|r more IHc]; intros s s' Hhas Ht Hmi'; simpl in Ht.
        - inversion Ht; subst. reflexivity.
        - destruct (rec r (bump_cover (length (snd r) - 1) s)) as [[b1 s1]|] eqn:E; [|discriminate].
          assert (Hrest : forall b', try_rows fa ms rec more s1 = Some (b', s') -> iters s1 <= iters s').
          { intros b' Ht'. eapply try_rows_ext in Ht'; [apply Ht'|]. intros r0 s0 b0 s2 _. apply Hrec_ext. }
          destruct b1.
          + exfalso. pose proof E as E'. rewrite Heqrec in E'. apply search_true in E'. destruct E' as [[A|A] _].
            * rewrite A in Ht. simpl in Ht. discriminate.
            * destruct (negb fa); [discriminate|]. rewrite A in Ht. discriminate.
          + pose proof (Hrest _ Ht) as Hle.
            pose proof E as E'. rewrite Heqrec in E'. apply IH in E'.
            * change (sols (bump_cover (length (snd r) - 1) s)) with (sols s) in E'.
              rewrite (IHc s1 s' (fun r0 Hr0 => Hhas r0 (or_intror Hr0)) Ht Hmi').
              rewrite E'. simpl flat_map. rewrite map_app, rev_app_distr, <- app_assoc.
              f_equal. f_equal. f_equal. unfold G. rewrite map_map. apply map_ext.
              intros T. unfold F. simpl. rewrite <- app_assoc. reflexivity.
            * pose proof (remove_cols_shrinks c (snd r) (c0 :: rest) Hc (Hhas r (or_introl eq_refl))). lia.
            * lia. }
      apply L in H; [exact H | | exact Hmi].
      intros r Hr. apply filter_In in Hr. apply has_In. apply Hr.
  Qed.

  (* fuel: one level of recursion per covered primary column *)
  Lemma search_fuel : forall f cols rows cur st,
    length cols < f -> search fa ms mi f cols rows cur st <> None.
  Proof.
    induction f as [|f IH]; intros cols rows cur st Hlen; [lia|].
    rewrite search_S.
    destruct (mi <? Z.of_nat (iters (bump_iter st)))%Z; [discriminate|].
    destruct cols as [|c0 rest].
    - destruct (negb fa); [discriminate|].
      destruct (ms_hit ms (length (sols (add_sol (rev cur) (bump_iter st))))); discriminate.
    - destruct (choose_loop rows (c0 :: rest) None) as [[c sz]|] eqn:Ech; [|discriminate].
      destruct (sz =? 0); [discriminate|].
      apply choose_loop_spec in Ech. destruct Ech as [Ech|[Hc _]]; [discriminate|].
      remember (fun (r : row) (st'0 : sst) =>
                  search fa ms mi f (remove_cols (snd r) (c0 :: rest)) (remove_rows r rows) (fst r :: cur) st'0) as rec.
      assert (L : forall cands s, (forall r, In r cands -> In c (snd r)) -> try_rows fa ms rec cands s <> None).
      { induction cands as [|r more IHc]; intros s Hhas; simpl; [discriminate|].
        destruct (rec r (bump_cover (length (snd r) - 1) s)) as [[b1 s1]|] eqn:E.
        - assert (K : try_rows fa ms rec more s1 <> None) by (apply IHc; intros r0 Hr0; apply Hhas; right; exact Hr0).
          destruct b1; [|exact K].
          destruct (negb fa); [discriminate|]. destruct (ms_hit ms (length (sols s1))); [discriminate | exact K].
        - exfalso. rewrite Heqrec in E. revert E. apply IH.
          pose proof (remove_cols_shrinks c (snd r) (c0 :: rest) Hc (Hhas r (or_introl eq_refl))). lia. }
      apply L. intros r Hr. apply filter_In in Hr. apply has_In. apply Hr.
  Qed.
End WithFlags.
