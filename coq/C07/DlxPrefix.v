(* Proofs, part 5: whatever the flags and limits, the recorded solutions are a PREFIX of the enumeration
   (so a cut-off answer never lists a cover twice either). *)
From Coq Require Import List Arith Bool Lia ZArith.
From SV Require Import C07.Dlx C07.DlxSpec C07.DlxEnum C07.DlxSearch C07.DlxRows C07.DlxTop.
Import ListNotations.

Section WithFlags.
  Variable fa : bool.
  Variable ms : option Z.
  Variable mi : Z.

  (* once the counter is past max_iter every further call returns at once *)
  Lemma search_after_cut f cols rows cur st b st' :
    (mi < Z.of_nat (iters st))%Z ->
    search fa ms mi f cols rows cur st = Some (b, st') ->
    sols st' = sols st /\ iters st <= iters st'.
  Proof.
    intros Hcut. destruct f as [|f]; [discriminate|]. rewrite search_S.
    assert (E : (mi <? Z.of_nat (iters (bump_iter st)))%Z = true) by (apply Z.ltb_lt; simpl iters; lia).
    rewrite E. intros H. inversion H. subst. simpl. split; [reflexivity | lia].
  Qed.

  Lemma try_rows_after_cut rec : forall cands st b st',
    (forall r s b1 s1, rec r s = Some (b1, s1) -> (mi < Z.of_nat (iters s))%Z ->
                       sols s1 = sols s /\ iters s <= iters s1) ->
    (mi < Z.of_nat (iters st))%Z ->
    try_rows fa ms rec cands st = Some (b, st') -> sols st' = sols st.
  Proof.
    induction cands as [|r more IH]; intros st b st' Hrec Hcut H; simpl in H.
    - inversion H. reflexivity.
    - destruct (rec r (bump_cover (length (snd r) - 1) st)) as [[b1 s1]|] eqn:E; [|discriminate].
      apply Hrec in E; [|exact Hcut]. destruct E as [E1 E2]. simpl in E1, E2.
      assert (K : forall b st', try_rows fa ms rec more s1 = Some (b, st') -> sols st' = sols st).
      { intros b' st'' H'. rewrite <- E1. eapply IH; [exact Hrec | lia | exact H']. }
      destruct b1; [|eapply K; exact H].
      destruct (negb fa); [inversion H; subst; exact E1|].
      destruct (ms_hit ms (length (sols s1))); [inversion H; subst; exact E1 | eapply K; exact H].
  Qed.

  Lemma search_prefix : forall f cols rows cur st b st',
    length cols < f ->
    search fa ms mi f cols rows cur st = Some (b, st') ->
    exists P Q, all_sols f cols rows = P ++ Q
                /\ sols st' = rev (map (fun T => rev cur ++ map fst T) P) ++ sols st.
  Proof.
    induction f as [|f IH]; intros cols rows cur st b st' Hlen H; [discriminate|].
    rewrite search_S in H.
    destruct (mi <? Z.of_nat (iters (bump_iter st)))%Z eqn:Ecut.
    { inversion H; subst. exists [], (all_sols (S f) cols rows). split; reflexivity. }
    destruct cols as [|c0 rest].
    - exists [[]], []. split; [reflexivity|]. simpl. rewrite app_nil_r.
      destruct (negb fa); [inversion H; subst; reflexivity|].
      destruct (ms_hit ms (length (sols (add_sol (rev cur) (bump_iter st))))); inversion H; subst; reflexivity.
    - rewrite all_sols_cons.
      destruct (choose_loop rows (c0 :: rest) None) as [[c sz]|] eqn:Ech;
        [|inversion H; subst; exists [], []; split; reflexivity].
      destruct (sz =? 0) eqn:Esz; [inversion H; subst; exists [], []; split; reflexivity|].
      apply choose_loop_spec in Ech. destruct Ech as [Ech|[Hc _]]; [discriminate|].
      set (F := fun T : list row => rev cur ++ map fst T).
      set (G := fun r : row => map (cons r) (all_sols f (remove_cols (snd r) (c0 :: rest)) (remove_rows r rows))).
      remember (fun (r : row) (st'0 : sst) =>
                  search fa ms mi f (remove_cols (snd r) (c0 :: rest)) (remove_rows r rows) (fst r :: cur) st'0) as rec.
      assert (Hfuel : forall r : row, In c (snd r) -> length (remove_cols (snd r) (c0 :: rest)) < f).
      { intros r Hr. pose proof (remove_cols_shrinks c (snd r) (c0 :: rest) Hc Hr). lia. }
      assert (HF : forall (r : row) (P1 : list (list row)), map F (map (cons r) P1) = map (fun T => rev (fst r :: cur) ++ map fst T) P1).
      { intros r P1. rewrite map_map. apply map_ext. intros T. unfold F. simpl. rewrite <- app_assoc. reflexivity. }
      assert (L : forall cands s b s',
                 (forall r : row, In r cands -> In c (snd r)) ->
                 try_rows fa ms rec cands s = Some (b, s') ->
                 exists P Q, flat_map G cands = P ++ Q /\ sols s' = rev (map F P) ++ sols s).
      { induction cands as [|r more IHc]; intros s b' s' Hhas Ht; simpl in Ht.
        - inversion Ht; subst. exists [], []. split; reflexivity.
        - destruct (rec r (bump_cover (length (snd r) - 1) s)) as [[b1 s1]|] eqn:E; [|discriminate].
          pose proof (Hhas r (or_introl eq_refl)) as Hcr.
          pose proof E as Epre. rewrite Heqrec in Epre. apply IH in Epre; [|apply Hfuel; exact Hcr].
          destruct Epre as [P1 [Q1 [EPQ Esols]]].
          change (sols (bump_cover (length (snd r) - 1) s)) with (sols s) in Esols.
          (* answer when the loop stops right after r *)
          assert (Stop : exists P Q, flat_map G (r :: more) = P ++ Q /\ sols s1 = rev (map F P) ++ sols s).
          { exists (map (cons r) P1), (map (cons r) Q1 ++ flat_map G more). split.
            - simpl. unfold G at 1. rewrite EPQ, map_app, <- app_assoc. reflexivity.
            - rewrite HF. exact Esols. }
          (* answer when the loop goes on with the remaining rows *)
          assert (Go : b1 = false -> try_rows fa ms rec more s1 = Some (b', s') ->
                       exists P Q, flat_map G (r :: more) = P ++ Q /\ sols s' = rev (map F P) ++ sols s).
          { intros Eb Ht'. subst b1.
            destruct (Z_lt_le_dec mi (Z.of_nat (iters s1))) as [Hcut|Hok].
            - assert (Es' : sols s' = sols s1).
              { eapply try_rows_after_cut; [|exact Hcut | exact Ht'].
                intros r0 s0 b0 s2 E0 Hc0. rewrite Heqrec in E0. eapply search_after_cut; eassumption. }
              rewrite Es'. exact Stop.
            - pose proof E as Efull. rewrite Heqrec in Efull.
              apply search_false_full in Efull; [|apply Hfuel; exact Hcr | exact Hok].
              change (sols (bump_cover (length (snd r) - 1) s)) with (sols s) in Efull.
              destruct (IHc s1 b' s' (fun r0 Hr0 => Hhas r0 (or_intror Hr0)) Ht') as [P2 [Q2 [E2 Es2]]].
              exists (G r ++ P2), Q2. split.
              + simpl. rewrite E2, app_assoc. reflexivity.
              + rewrite Es2, Efull, map_app, rev_app_distr, <- app_assoc. unfold G. rewrite HF. reflexivity. }
          destruct b1; [|apply Go; [reflexivity | exact Ht]].
          pose proof E as Etrue. rewrite Heqrec in Etrue. apply search_true in Etrue. destruct Etrue as [[A|A] _].
          + rewrite A in Ht. simpl in Ht. inversion Ht; subst. exact Stop.
          + destruct (negb fa); [inversion Ht; subst; exact Stop|].
            rewrite A in Ht. inversion Ht; subst. exact Stop. }
      apply L in H; [exact H|].
      intros r Hr. apply filter_In in Hr. apply has_In. apply Hr.
  Qed.
End WithFlags.

Lemma pairwise_prefix {A} (R : A -> A -> Prop) P Q : pairwise R (P ++ Q) -> pairwise R P.
Proof. intros H. apply pairwise_app in H. apply H. Qed.

(* With find_all, whatever max_solutions / max_iter: the returned list is an initial segment of a complete,
   duplicate-free list of all exact covers. *)
Theorem solve_prefix inp r :
  valid_input inp = true -> solve inp = Done r -> find_all inp = true ->
  exists R Q, lists_all_covers inp R /\ R = selections r ++ Q.
Proof.
  intros Hv H Hfa. pose proof H as H0.
  apply solve_cases in H. destruct H as [[Hd Er]|[Hd [Hr [b [st [Hs Er]]]]]].
  - exists (selections r), []. split; [|rewrite app_nil_r; reflexivity].
    subst r. rewrite Hfa. apply (degenerate_all_covers inp Hv Hd).
  - exists (map (map fst) (all_sols (fuel_of inp) (prim_cols inp) (mk_rows (matrix inp)))).
    unfold search_of in Hs. apply search_prefix in Hs; [|unfold fuel_of; lia].
    destruct Hs as [P [Q [EPQ Es]]]. simpl in Es. rewrite app_nil_r in Es.
    exists (map (map fst) Q). split; [apply enumeration_lists_all; exact Hr|].
    rewrite EPQ, map_app. f_equal.
    assert (Esel : selections r = rev (sols st)).
    { subst r. rewrite Hfa. unfold finish, selections.
      destruct (max_iter inp <? Z.of_nat (iters st))%Z; destruct (rev (sols st)); reflexivity. }
    rewrite Esel, Es, rev_involutive. reflexivity.
Qed.

(* No answer, cut or not, find_all or not, contains the same cover twice. *)
Theorem solve_nodup_any inp r :
  valid_input inp = true -> solve inp = Done r ->
  forall i j, i < j < length (selections r) -> ~ same_set (nth i (selections r) []) (nth j (selections r) []).
Proof.
  intros Hv H. destruct (find_all inp) eqn:Hfa.
  - destruct (solve_prefix inp r Hv H Hfa) as [R [Q [[_ [_ Hd]] ER]]].
    intros i j Hij. specialize (Hd i j). rewrite ER in Hd.
    rewrite !app_nth1 in Hd by lia. apply Hd. rewrite app_length. lia.
  - destruct (solve_status inp r H) as [_ [_ [_ [_ [_ [_ [Hshape _]]]]]]].
    unfold selections. destruct (Hshape Hfa) as [[E _]|[s [E _]]]; rewrite E; simpl; intros i j Hij; lia.
Qed.
