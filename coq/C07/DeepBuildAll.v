(* _build_links, part 4: a whole row, all rows, the whole function: build_refines. *)
From Coq Require Import List Arith Bool Lia Sorted.
From SV Require Import C07.Dlx C07.DeepLinks C07.DeepBase C07.DeepOps C07.DeepVert C07.DeepRows C07.DeepRep C07.DeepCover
                       C07.DeepAbs C07.DeepBuildBase C07.DeepBuildHdr C07.DeepBuildRow C07.DeepBuildRows.
Import ListNotations.

Definition nonemptyb (r : row) : bool := match snd r with [] => false | _ :: _ => true end.

(* ---------------------------------------------------------------- the inner loop *)
Lemma build_row_ok nc N0 G cols scols i : forall r j cs fp s N,
  BInv s nc N0 N G cols scols i cs fp j ->
  forallb (fun c => c <? nc) (row_cols_from j r) = true ->
  exists fp' s' cs', build_row nc i j r fp s = Some (fp', s')
    /\ BInv s' nc N0 (N0 + length cs') G cols scols i cs' fp' (j + length r)
    /\ map fst cs' = map fst cs ++ row_cols_from j r
    /\ (map snd cs = seq N0 (length cs) -> map snd cs' = seq N0 (length cs'))
    /\ (forall z, z < N -> column s' z = column s z).
Proof.
  induction r as [|b t IH]; intros j cs fp s N HB Hr.
  - exists fp, s, cs. simpl. rewrite Nat.add_0_r, app_nil_r.
    split; [reflexivity|]. split; [|auto].
    destruct HB as [A [B C]]. rewrite <- B. split; [exact A|]. split; [exact B | exact C].
  - destruct b.
    + cbn [row_cols_from forallb] in Hr. apply andb_true_iff in Hr. destruct Hr as [Hj Hr]. apply Nat.ltb_lt in Hj.
      rewrite (build_row_true nc i j t fp s Hj). cbv zeta.
      pose proof (step_BInv s nc N0 N G cols scols i cs fp j HB Hj) as HB'.
      destruct (step_fields s nc N0 N G cols scols i cs fp j HB Hj) as [En [_ [_ [_ [_ [_ [_ [ECol _]]]]]]]]. rewrite En.
      assert (EN : N = N0 + length cs) by apply HB.
      assert (Hseq : map snd cs = seq N0 (length cs) -> map snd (cs ++ [(j, N)]) = seq N0 (length (cs ++ [(j, N)]))).
      { intros E. rewrite map_app, app_length, seq_app, E. simpl. rewrite EN. reflexivity. }
      assert (Hfin : forall fp1 s1,
                BInv s1 nc N0 (S N) G cols scols i (cs ++ [(j, N)]) fp1 (S j) ->
                (forall z, column s1 z = if z =? N then hdr j else column s z) ->
                exists fp' s' cs', build_row nc i (S j) t fp1 s1 = Some (fp', s')
                  /\ BInv s' nc N0 (N0 + length cs') G cols scols i cs' fp' (j + length (true :: t))
                  /\ map fst cs' = map fst cs ++ j :: row_cols_from (S j) t
                  /\ (map snd cs = seq N0 (length cs) -> map snd cs' = seq N0 (length cs'))
                  /\ (forall z, z < N -> column s' z = column s z)).
      { intros fp1 s1 HB1 EC1.
        destruct (IH (S j) _ _ _ _ HB1 Hr) as [fp' [s' [cs' [E1 [E2 [E3 [E4 E5]]]]]]].
        exists fp', s', cs'. split; [exact E1|]. split.
        { replace (j + length (true :: t)) with (S j + length t) by (simpl; lia). exact E2. }
        split; [rewrite E3, map_app; simpl; rewrite <- app_assoc; reflexivity|].
        split; [intros E; apply E4; apply Hseq; exact E|].
        intros z Hz. rewrite E5 by lia. rewrite EC1.
        assert (F : (z =? N) = false) by (apply Nat.eqb_neq; lia). rewrite F. reflexivity. }
      destruct fp as [[first prev]|]; apply Hfin; assumption.
    + cbn [row_cols_from build_row] in *.
      destruct (IH (S j) cs fp s N (BInv_next_col _ _ _ _ _ _ _ _ _ _ _ HB) Hr) as [fp' [s' [cs' [E1 [E2 [E3 [E4 E5]]]]]]].
      exists fp', s', cs'. split; [exact E1|]. split; [|auto].
      replace (j + length (false :: t)) with (S j + length t) by (simpl; lia). exact E2.
Qed.

Lemma build_row_none nh i : forall r j fp s,
  forallb (fun c => c <? nh) (row_cols_from j r) = false -> build_row nh i j r fp s = None.
Proof.
  induction r as [|b t IH]; intros j fp s H; [discriminate|].
  destruct b; cbn [row_cols_from forallb build_row] in *.
  - destruct (j <? nh); [|reflexivity]. simpl in H.
    destruct (alloc s (hdr j) i) as [node s0]. destruct fp as [[first prev]|]; apply IH; exact H.
  - apply IH. exact H.
Qed.

(* ---------------------------------------------------------------- closing the row *)
Lemma after_split y : forall l1 l2, ~ In y l1 -> after y (l1 ++ y :: l2) = l2.
Proof.
  induction l1 as [|z t IH]; intros l2 H; simpl.
  - rewrite Nat.eqb_refl. reflexivity.
  - destruct (z =? y) eqn:E; [apply Nat.eqb_eq in E; subst; exfalso; apply H; left; reflexivity|].
    apply IH. intros K. apply H. right. exact K.
Qed.

Lemma before_split y : forall l1 l2, ~ In y l1 -> before y (l1 ++ y :: l2) = l1.
Proof.
  induction l1 as [|z t IH]; intros l2 H; simpl.
  - rewrite Nat.eqb_refl. reflexivity.
  - destruct (z =? y) eqn:E; [apply Nat.eqb_eq in E; subst; exfalso; apply H; left; reflexivity|].
    f_equal. apply IH. intros K. apply H. right. exact K.
Qed.

Lemma ring_all_rot f g n1 rest y :
  dring f g n1 rest -> NoDup (n1 :: rest) -> In y (n1 :: rest) ->
  dring f g y (after y (n1 :: rest) ++ before y (n1 :: rest)).
Proof.
  intros Hr Hnd [<-|Hy].
  - simpl. rewrite Nat.eqb_refl. rewrite app_nil_r. exact Hr.
  - apply in_split in Hy. destruct Hy as [l1 [l2 ->]].
    assert (Hy1 : ~ In y (n1 :: l1)).
    { change (n1 :: l1 ++ y :: l2) with ((n1 :: l1) ++ y :: l2) in Hnd. apply NoDup_remove_2 in Hnd.
      intros K. apply Hnd. apply in_or_app. left. exact K. }
    change (n1 :: l1 ++ y :: l2) with ((n1 :: l1) ++ y :: l2).
    rewrite after_split, before_split by exact Hy1. apply dring_rot. exact Hr.
Qed.

Lemma pcol_single k : forall cs, NoDup (map fst cs) ->
  pcol k cs = if mem k (map fst cs) then [cell_id k cs] else [].
Proof.
  induction cs as [|[a b] t IH]; intros Hnd; [reflexivity|].
  simpl in Hnd. inversion Hnd as [|? ? Hna Hnd']; subst.
  unfold pcol. cbn [filter fst map cell_id]. unfold mem. cbn [existsb]. rewrite (Nat.eqb_sym k a).
  destruct (a =? k) eqn:E.
  - apply Nat.eqb_eq in E. subst a. cbn [map snd orb].
    fold (pcol k t). rewrite (IH Hnd'). assert (M : mem k (map fst t) = false) by (apply mem_false_iff; exact Hna).
    rewrite M. reflexivity.
  - cbn [orb]. fold (pcol k t). fold (mem k (map fst t)). apply IH. exact Hnd'.
Qed.

Lemma vcol_snoc k G g : vcol k (G ++ [g]) = vcol k G ++ (if ghas k g then [gcell k g] else []).
Proof. unfold vcol. rewrite filter_app, map_app. simpl. destruct (ghas k g); reflexivity. Qed.

Lemma row_end s nc N0 N G cols scols i cs first prev j :
  BInv s nc N0 N G cols scols i cs (Some (first, prev)) j ->
  let s3 := setR (setL s first prev) prev first in
  let G' := G ++ [(i, cs)] in
  Rep s3 nc N G' cols scols G'.
Proof.
  intros [HN0 [EN [HS [HH [Hall [HV [P1 [P2 [P3 P4]]]]]]]]] s3 G'.
  destruct (map snd cs) as [|n1 rest] eqn:Eids; [discriminate|].
  destruct P4 as [Efp [Hpath Hbpath]]. inversion Efp; subst first prev. clear Efp.
  set (prev := last rest n1) in *.
  assert (Hids : forall y, In y (n1 :: rest) -> N0 <= y < N).
  { intros y Hy. rewrite <- Eids in Hy. apply in_map_iff in Hy. destruct Hy as [[k y'] [E K]]. simpl in E. subst y'.
    apply P1 in K. lia. }
  assert (Hpin : In prev (n1 :: rest)) by apply last_in.
  assert (HL : lens s N) by apply HV.
  assert (ER : forall z, right s3 z = if z =? prev then n1 else right s z).
  { intros z. unfold s3. rewrite (right_setR (setL s n1 prev) N); [reflexivity | apply lens_setL; exact HL | apply Hids; exact Hpin]. }
  assert (EL : forall z, left s3 z = if z =? n1 then prev else left s z).
  { intros z. change (left s3 z) with (left (setL s n1 prev) z). apply (left_setL s N); [exact HL | apply Hids; left; reflexivity]. }
  assert (Hold : forall z, z < N0 -> right s3 z = right s z /\ left s3 z = left s z).
  { intros z Hz. rewrite ER, EL.
    assert (A : (z =? prev) = false) by (apply Nat.eqb_neq; specialize (Hids prev Hpin); lia).
    assert (B : (z =? n1) = false) by (apply Nat.eqb_neq; specialize (Hids n1 (or_introl eq_refl)); lia).
    rewrite A, B. auto. }
  assert (Hring : dring (right s3) (left s3) n1 rest).
  { split.
    - apply chain_of_path.
      + apply path_except_last with (f := right s); auto.
        intros y Hy. rewrite ER. fold prev in Hy. apply Nat.eqb_neq in Hy. rewrite Hy. reflexivity.
      + rewrite ER. fold prev. rewrite Nat.eqb_refl. reflexivity.
    - apply rchain_of_bpath.
      + apply bpath_ext with (g := left s); [|exact Hbpath]. intros y Hy. rewrite EL.
        assert (y <> n1) by (intros ->; inversion P3; contradiction). apply Nat.eqb_neq in H. rewrite H. reflexivity.
      + rewrite EL, Nat.eqb_refl. reflexivity. }
  set (g0 := (i, cs) : grow).
  assert (Hgids : gids g0 = n1 :: rest) by exact Eids.
  assert (HSold : Static s3 nc N G).
  { apply (Static_pointwise s s3 nc N0 N G HS); [lia|]. intros z Hz.
    destruct (Hold z) as [A B]; [lia|]. repeat split; auto. }
  assert (HRow0 : RowOK s3 nc N g0).
  { split; [|split].
    - simpl. intros E. rewrite E in Eids. discriminate.
    - intros c y Hc. destruct (P1 c y Hc) as [A [_ [B [C D]]]]. repeat split; auto; lia.
    - intros y Hy. unfold rowrest. rewrite Hgids in Hy. rewrite Hgids. apply ring_all_rot; assumption. }
  split; [|split; [|split; [|split]]].
  - split.
    + split.
      * intros g Hg. apply in_app_or in Hg. destruct Hg as [Hg|[<-|[]]]; [apply HS; exact Hg|].
        split; [exact P2 | unfold gids; cbn [snd]; rewrite Eids; exact P3].
      * unfold G'. rewrite map_app, concat_app. simpl. rewrite app_nil_r. apply nodup_app_intro.
        { apply HS. }
        { unfold gids; cbn [snd]; rewrite ?Eids; exact P3. }
        { intros x Hx Hx'. unfold gids in Hx'; cbn [snd] in Hx'; rewrite ?Eids in Hx'. apply Hids in Hx'.
          apply in_concat in Hx. destruct Hx as [l [Hl Hxl]]. apply in_map_iff in Hl. destruct Hl as [g [<- Hg]].
          apply gids_cell in Hxl. destruct Hxl as [c Hc]. destruct HS as [_ HR]. destruct (HR g Hg) as [_ [Hcells _]].
          apply Hcells in Hc. lia. }
    + intros g Hg. apply in_app_or in Hg. destruct Hg as [Hg|[<-|[]]]; [apply HSold; exact Hg | exact HRow0].
  - apply (HInv_pointwise s s3 nc cols scols HH). intros z Hz. apply Hold. lia.
  - apply VInv_ext with (V := fun k => vcol k G ++ pcol k cs).
    + intros k. unfold G'. rewrite vcol_snoc. f_equal. rewrite (pcol_single k cs P2). reflexivity.
    + eapply VInv_frame; [exact HV | | reflexivity | reflexivity | reflexivity | reflexivity].
      apply lens_setR. apply lens_setL. exact HL.
  - exists (fun _ => true). symmetry. apply filter_id. reflexivity.
  - intros g c Hg Hc. apply Hall. apply in_app_or in Hg.
    assert (HR : RowOK s3 nc N g) by (destruct Hg as [Hg|[<-|[]]]; [apply HSold; exact Hg | exact HRow0]).
    destruct HR as [_ [Hcells _]]. apply in_map_iff in Hc. destruct Hc as [[c' y] [E Hcy]]. simpl in E. subst c'.
    apply Hcells in Hcy. lia.
Qed.

Lemma row_start s nc N G cols scols i :
  Rep s nc N G cols scols G -> (forall k, k < nc -> In k (cols ++ scols)) ->
  BInv s nc N N G cols scols i [] None 0.
Proof.
  intros [HS [HH [HV _]]] Hall.
  split; [apply HV|]. split; [simpl; lia|]. split; [exact HS|]. split; [exact HH|]. split; [exact Hall|].
  split.
  - eapply VInv_ext; [|exact HV]. intros k. simpl. rewrite app_nil_r. reflexivity.
  - split; [intros k y []|]. split; [constructor|]. split; [constructor | reflexivity].
Qed.

Lemma row_end_empty s nc N0 N G cols scols i j :
  BInv s nc N0 N G cols scols i [] None j -> Rep s nc N G cols scols G.
Proof.
  intros [HN0 [EN [HS [HH [Hall [HV _]]]]]]. simpl in EN. rewrite Nat.add_0_r in EN. subst N0.
  split; [exact HS|]. split; [exact HH|]. split.
  - eapply VInv_ext; [|exact HV]. intros k. simpl. apply app_nil_r.
  - split; [exists (fun _ => true); symmetry; apply filter_id; reflexivity|].
    intros g c Hg Hc. apply Hall. destruct HS as [_ HR]. destruct (HR g Hg) as [_ [Hcells _]].
    apply in_map_iff in Hc. destruct Hc as [[c' y] [E Hcy]]. simpl in E. subst c'. apply Hcells in Hcy. lia.
Qed.

(* ---------------------------------------------------------------- all rows *)
Lemma sorted_seq : forall n a, StronglySorted lt (seq a n).
Proof.
  induction n as [|n IH]; intros a; simpl; constructor; [apply IH|].
  apply Forall_forall. intros x Hx. apply in_seq in Hx. lia.
Qed.

Lemma build_rows_ok nc cols scols : forall m i s N G,
  Rep s nc N G cols scols G -> GOrd nc N G -> HdrCol s nc -> (forall k, k < nc -> In k (cols ++ scols)) ->
  rows_in_range nc (mk_rows_from i m) = true ->
  exists s' N' G', build_rows nc i m s = Some s' /\ Rep s' nc N' G' cols scols G'
    /\ GOrd nc N' G' /\ HdrCol s' nc
    /\ map erase G' = map erase G ++ filter nonemptyb (mk_rows_from i m).
Proof.
  induction m as [|r t IH]; intros i s N G HR HO HC Hall Hrange.
  - exists s, N, G. simpl. rewrite app_nil_r. auto.
  - cbn [mk_rows_from rows_in_range forallb snd] in Hrange. apply andb_true_iff in Hrange. destruct Hrange as [Hr Ht].
    destruct (build_row_ok nc N G cols scols i r 0 [] None s N (row_start s nc N G cols scols i HR Hall) Hr)
      as [fp' [s1 [cs' [E1 [HB [E3 [Eseq Ecolf]]]]]]].
    cbn [build_rows]. rewrite E1. simpl in E3. specialize (Eseq eq_refl).
    assert (HN : 2 + nc <= N) by apply HB.
    assert (Hfp : match fp' with None => cs' = [] | Some _ => cs' <> [] end).
    { destruct HB as [_ [_ [_ [_ [_ [_ [_ [_ [_ P4]]]]]]]]].
      destruct (map snd cs') as [|n1 rest] eqn:Eids.
      - rewrite P4. destruct cs'; [reflexivity | discriminate].
      - destruct P4 as [-> _]. intros ->. discriminate. }
    assert (HC1 : HdrCol s1 nc) by (intros z Hz; rewrite Ecolf by lia; apply HC; exact Hz).
    destruct fp' as [[first prev]|].
    + pose proof (row_end _ _ _ _ _ _ _ _ _ _ _ _ HB) as HR'. cbv zeta in HR'.
      assert (HO' : GOrd nc (N + length cs') (G ++ [(i, cs')])).
      { destruct HO as [Eids Hs]. split.
        - rewrite map_app, concat_app, Eids. cbn [map concat]. rewrite app_nil_r. unfold gids at 1. cbn [snd]. rewrite Eseq.
          replace (N + length cs' - (2 + nc)) with ((N - (2 + nc)) + length cs') by lia.
          rewrite seq_app. f_equal. f_equal. lia.
        - intros g Hg. apply in_app_or in Hg. destruct Hg as [Hg|[<-|[]]]; [apply Hs; exact Hg|].
          unfold gids. cbn [snd]. rewrite Eseq. apply sorted_seq. }
      destruct (IH (S i) _ _ _ HR' HO' HC1 Hall Ht) as [s' [N' [G' [F1 [F2 [F4 [F5 F3]]]]]]].
      exists s', N', G'. split; [exact F1|]. split; [exact F2|]. split; [exact F4|]. split; [exact F5|].
      rewrite F3, map_app. cbn [mk_rows_from filter]. unfold nonemptyb at 2. cbn [snd map erase].
      unfold erase at 2. cbn [fst snd]. unfold gcols. cbn [snd]. rewrite E3.
      destruct (row_cols_from 0 r) eqn:Erc.
      * exfalso. apply Hfp. destruct cs'; [reflexivity | discriminate].
      * rewrite <- app_assoc. reflexivity.
    + subst cs'. pose proof (row_end_empty _ _ _ _ _ _ _ _ _ HB) as HR'. rewrite Nat.add_0_r in HR'.
      destruct (IH (S i) _ _ _ HR' HO HC1 Hall Ht) as [s' [N' [G' [F1 [F2 [F4 [F5 F3]]]]]]].
      exists s', N', G'. split; [exact F1|]. split; [exact F2|]. split; [exact F4|]. split; [exact F5|].
      rewrite F3. cbn [mk_rows_from filter]. unfold nonemptyb at 2. cbn [snd]. rewrite <- E3. reflexivity.
Qed.

Lemma build_rows_none nh : forall m i s,
  rows_in_range nh (mk_rows_from i m) = false -> build_rows nh i m s = None.
Proof.
  induction m as [|r t IH]; intros i s H; [discriminate|].
  cbn [mk_rows_from rows_in_range forallb snd] in H. cbn [build_rows].
  destruct (forallb (fun c => c <? nh) (row_cols_from 0 r)) eqn:E.
  - simpl in H. destruct (build_row nh i 0 r None s) as [[[[first prev]|] s1]|]; [| |reflexivity]; apply IH; exact H.
  - rewrite (build_row_none nh i r 0 None s E). reflexivity.
Qed.

(* ---------------------------------------------------------------- build_refines *)
Lemma headers_col inp : HdrCol (headers_state inp) (length (col_names inp)).
Proof.
  set (nh := length (col_names inp)). unfold headers_state. fold nh.
  set (idxs := seq 0 nh). set (s0 := init_links nh).
  assert (HL0 : lens s0 (2 + nh)) by apply init_lens.
  assert (Hb : forall i, In i idxs -> hdr i < 2 + nh).
  { intros i Hi. apply in_seq in Hi. unfold hdr. lia. }
  assert (Hnd : NoDup idxs) by apply seq_NoDup.
  destruct (ring_built (fun i => negb (is_secondary inp i)) ROOT (2 + nh) ltac:(unfold ROOT; lia) ltac:(lia) idxs s0 HL0 Hb Hnd)
    as [_ [HL1 [_ [_ [C1 _]]]]].
  set (s1 := close_ring ROOT (link_headers (fun i => negb (is_secondary inp i)) idxs ROOT s0)) in *.
  destruct (ring_built (fun i => is_secondary inp i) SROOT (2 + nh) ltac:(unfold SROOT; lia) ltac:(lia) idxs s1 HL1 Hb Hnd)
    as [_ [_ [_ [_ [C2 _]]]]].
  intros z Hz. unfold column. rewrite C2, C1. unfold s0, init_links. cbn [fC]. rewrite get_seq.
  apply Nat.ltb_lt in Hz. rewrite Hz. reflexivity.
Qed.

Theorem build_links_ok inp :
  rows_in_range (length (col_names inp)) (mk_rows (matrix inp)) = true ->
  exists s N G, build_links inp = Some s
    /\ Rep s (length (col_names inp)) N G (prim_cols inp) (sec_cols inp) G
    /\ GOrd (length (col_names inp)) N G /\ HdrCol s (length (col_names inp))
    /\ map erase G = filter nonemptyb (mk_rows (matrix inp)).
Proof.
  intros Hr. pose proof (headers_ok inp) as H0. cbv zeta in H0.
  assert (HO0 : GOrd (length (col_names inp)) (2 + length (col_names inp)) []).
  { split; [rewrite Nat.sub_diag; reflexivity | intros g []]. }
  destruct (build_rows_ok (length (col_names inp)) (prim_cols inp) (sec_cols inp) (matrix inp) 0
              (headers_state inp) _ [] H0 HO0 (headers_col inp) (prim_sec_all inp) Hr)
    as [s' [N' [G' [E1 [E2 [E4 [E5 E3]]]]]]].
  exists s', N', G'. auto 10.
Qed.

Theorem build_links_none inp :
  rows_in_range (length (col_names inp)) (mk_rows (matrix inp)) = false -> build_links inp = None.
Proof. intros H. unfold build_links. apply build_rows_none. exact H. Qed.
