(* _build_links, part 2: adding the nodes of one matrix row (inner loop over the columns). *)
From Coq Require Import List Arith Bool Lia.
From SV Require Import C07.Dlx C07.DeepLinks C07.DeepBase C07.DeepOps C07.DeepVert C07.DeepRows C07.DeepRep C07.DeepCover
                       C07.DeepBuildBase.
Import ListNotations.

(* the five vertical assignments for one new node *)
Definition add_node (s : lst) (k i : nat) : nat * lst :=
  let col := hdr k in
  let (node, s0) := alloc s col i in
  let s1 := setU s0 node (up s0 col) in
  let s2 := setD s1 node col in
  let s3 := setD s2 (up s2 col) node in
  let s4 := setU s3 col node in
  (node, setS s4 col (csize s4 col + 1)).

Lemma add_node_fields s N k i :
  lens s N -> hdr k < N -> up s (hdr k) < N ->
  let s' := snd (add_node s k i) in
  fst (add_node s k i) = N /\ lens s' (S N)
  /\ (forall z, left s' z = if z =? N then N else left s z)
  /\ (forall z, right s' z = if z =? N then N else right s z)
  /\ (forall z, up s' z = if z =? hdr k then N else if z =? N then up s (hdr k) else up s z)
  /\ (forall z, down s' z = if z =? up s (hdr k) then N else if z =? N then hdr k else down s z)
  /\ (forall z, column s' z = if z =? N then hdr k else column s z)
  /\ (forall z, row_id s' z = if z =? N then i else row_id s z)
  /\ (forall z, csize s' z = if z =? hdr k then csize s (hdr k) + 1 else if z =? N then 0 else csize s z).
Proof.
  intros HL Hh Hu.
  destruct (alloc_fields s N (hdr k) i HL) as [En [HL0 [EL [ER [EU [ED [EC [ERow ES]]]]]]]].
  unfold add_node. destruct (alloc s (hdr k) i) as [node s0] eqn:Ea. simpl fst in En. simpl snd in *. subst node.
  assert (HhN : (hdr k =? N) = false) by (apply Nat.eqb_neq; lia).
  assert (Eu0 : up s0 (hdr k) = up s (hdr k)) by (rewrite EU, HhN; reflexivity).
  set (u := up s (hdr k)) in *.
  assert (HuN : (u =? N) = false) by (apply Nat.eqb_neq; lia).
  set (s1 := setU s0 N (up s0 (hdr k))).
  assert (HL1 : lens s1 (S N)) by (apply lens_setU; exact HL0).
  assert (EU1 : forall z, up s1 z = if z =? N then u else up s0 z).
  { intros z. unfold s1. rewrite (up_setU s0 (S N)) by (assumption || lia). rewrite Eu0. reflexivity. }
  set (s2 := setD s1 N (hdr k)).
  assert (HL2 : lens s2 (S N)) by (apply lens_setD; exact HL1).
  assert (ED2 : forall z, down s2 z = if z =? N then hdr k else down s0 z).
  { intros z. unfold s2. rewrite (down_setD s1 (S N)) by (assumption || lia). reflexivity. }
  assert (Eu2 : up s2 (hdr k) = u).
  { change (up s2 (hdr k)) with (up s1 (hdr k)). rewrite EU1, HhN. exact Eu0. }
  rewrite Eu2.
  set (s3 := setD s2 u N).
  assert (HL3 : lens s3 (S N)) by (apply lens_setD; exact HL2).
  assert (ED3 : forall z, down s3 z = if z =? u then N else down s2 z).
  { intros z. unfold s3. rewrite (down_setD s2 (S N)) by (assumption || lia). reflexivity. }
  set (s4 := setU s3 (hdr k) N).
  assert (HL4 : lens s4 (S N)) by (apply lens_setU; exact HL3).
  assert (EU4 : forall z, up s4 z = if z =? hdr k then N else up s1 z).
  { intros z. unfold s4. rewrite (up_setU s3 (S N)) by (assumption || lia). reflexivity. }
  set (s5 := setS s4 (hdr k) (csize s4 (hdr k) + 1)).
  simpl fst. simpl snd.
  split; [reflexivity|]. split; [apply lens_setS; exact HL4|].
  split; [exact EL|]. split; [exact ER|].
  split.
  { intros z. change (up s5 z) with (up s4 z). rewrite EU4, EU1, EU. destruct (z =? N); reflexivity. }
  split.
  { intros z. change (down s5 z) with (down s3 z). rewrite ED3, ED2, ED. destruct (z =? N); reflexivity. }
  split; [exact EC|]. split; [exact ERow|].
  intros z. unfold s5. rewrite (csize_setS s4 (S N)) by (assumption || lia).
  change (csize s4) with (csize s0). rewrite !ES, HhN. reflexivity.
Qed.

Definition pcol (k : nat) (cs : list (nat * nat)) : list nat := map snd (filter (fun p => fst p =? k) cs).

Lemma pcol_app k cs cs' : pcol k (cs ++ cs') = pcol k cs ++ pcol k cs'.
Proof. unfold pcol. rewrite filter_app, map_app. reflexivity. Qed.

Lemma pcol_in k cs y : In y (pcol k cs) <-> In (k, y) cs.
Proof.
  unfold pcol. rewrite in_map_iff. split.
  - intros [[a b] [E H]]. apply filter_In in H. destruct H as [H E2]. simpl in *. apply Nat.eqb_eq in E2. subst. exact H.
  - intros H. exists (k, y). split; [reflexivity|]. apply filter_In. split; [exact H | simpl; apply Nat.eqb_refl].
Qed.

(* ---------------------------------------------------------------- invariant inside a row *)
Definition PRow (s : lst) (nc N0 N i : nat) (cs : list (nat * nat)) (fp : option (nat * nat)) (j : nat) : Prop :=
  (forall k y, In (k, y) cs -> k < nc /\ k < j /\ N0 <= y < N /\ column s y = hdr k /\ row_id s y = i) /\
  NoDup (map fst cs) /\ NoDup (map snd cs) /\
  match map snd cs with
  | [] => fp = None
  | n1 :: rest => fp = Some (n1, last rest n1) /\ path (right s) n1 rest /\ bpath (left s) n1 rest
  end.

Definition BInv (s : lst) (nc N0 N : nat) (G : list grow) (cols scols : list nat)
           (i : nat) (cs : list (nat * nat)) (fp : option (nat * nat)) (j : nat) : Prop :=
  2 + nc <= N0 /\ N = N0 + length cs /\
  Static s nc N0 G /\ HInv s nc cols scols /\ (forall k, k < nc -> In k (cols ++ scols)) /\
  VInv s nc N (cols ++ scols) (fun k => vcol k G ++ pcol k cs) /\
  PRow s nc N0 N i cs fp j.

Lemma Static_pointwise s s' nc N N' G :
  Static s nc N G -> N <= N' ->
  (forall z, 2 + nc <= z < N ->
     column s' z = column s z /\ row_id s' z = row_id s z /\ right s' z = right s z /\ left s' z = left s z) ->
  Static s' nc N' G.
Proof.
  intros [W HR] HN Hp. split; [exact W|]. intros g Hg. destruct (HR g Hg) as [A [B C]].
  split; [exact A|]. split.
  - intros c y Hc. destruct (B c y Hc) as [B1 [B2 [B3 B4]]]. destruct (Hp y B2) as [P1 [P2 _]].
    rewrite P1, P2. repeat split; auto; lia.
  - intros y Hy. eapply dring_ext; [|apply C; exact Hy].
    intros z Hz.
    assert (Hzg : In z (gids g)).
    { destruct Hz as [<-|Hz]; [exact Hy|]. apply rowrest_in in Hz; [tauto | apply W; exact Hg | exact Hy]. }
    apply gids_cell in Hzg. destruct Hzg as [c Hc]. apply B in Hc.
    destruct (Hp z) as [_ [_ [P3 P4]]]; [lia | auto].
Qed.

Lemma HInv_pointwise s s' nc cols scols :
  HInv s nc cols scols ->
  (forall z, z < 2 + nc -> right s' z = right s z /\ left s' z = left s z) ->
  HInv s' nc cols scols.
Proof.
  intros [R1 [R2 [Hnd Hlt]]] Hp.
  assert (Hr : forall r l z, r < 2 -> incl l (cols ++ scols) -> In z (r :: map hdr l) -> z < 2 + nc).
  { intros r l z Hr Hi [<-|Hz]; [lia|]. apply in_map_iff in Hz. destruct Hz as [k [<- Hk]].
    apply Hi in Hk. apply Hlt in Hk. unfold hdr. lia. }
  split; [|split; [|split; assumption]].
  - eapply dring_ext; [|exact R1]. intros z Hz. apply Hp.
    apply (Hr ROOT cols z); [unfold ROOT; lia | apply incl_appl, incl_refl | exact Hz].
  - eapply dring_ext; [|exact R2]. intros z Hz. apply Hp.
    apply (Hr SROOT scols z); [unfold SROOT; lia | apply incl_appr, incl_refl | exact Hz].
Qed.

(* the vertical structure after add_node *)
Lemma add_node_VInv s nc N act V k i :
  VInv s nc N act V -> In k act ->
  VInv (snd (add_node s k i)) nc (S N) act (fun k' => V k' ++ (if k' =? k then [N] else [])).
Proof.
  intros HV Hk. destruct HV as [HL [HN HC]].
  pose proof (HC k Hk) as VCk. pose proof (VCol_nodup _ _ _ _ _ VCk) as Hndk.
  destruct VCk as [Hr [Hnd [Hsz [Hcol Hkn]]]].
  assert (Hh : hdr k < N) by (unfold hdr; lia).
  assert (Egh : up s (hdr k) = last (V k) (hdr k)).
  { destruct Hr as [_ H2]. apply chain_hd in H2. rewrite hd_rev in H2. exact H2. }
  assert (Huin : In (up s (hdr k)) (hdr k :: V k)) by (rewrite Egh; apply last_in).
  assert (Hu : up s (hdr k) < N).
  { destruct Huin as [<-|K]; [exact Hh | apply Hcol in K; lia]. }
  destruct (add_node_fields s N k i HL Hh Hu) as [_ [HL' [EL [ER [EU [ED [EC [ERow ES]]]]]]]].
  set (s' := snd (add_node s k i)) in *.
  split; [exact HL'|]. split; [lia|].
  intros k' Hk'. pose proof (HC k' Hk') as VCk'.
  destruct (Nat.eq_dec k' k) as [->|Hne].
  - rewrite Nat.eqb_refl.
    assert (HNnot : ~ In N (hdr k :: V k)).
    { intros [K|K]; [lia | apply Hcol in K; lia]. }
    split; [|split; [|split; [|split]]].
    + apply (dring_insert_last (down s) (up s) (down s') (up s') (hdr k) (V k) N Hr Hndk HNnot).
      * intros y. rewrite ED. destruct (y =? N) eqn:E1, (y =? up s (hdr k)) eqn:E2; try reflexivity.
        apply Nat.eqb_eq in E1, E2. lia.
      * intros y. rewrite EU. destruct (y =? N) eqn:E1, (y =? hdr k) eqn:E2; try reflexivity.
        apply Nat.eqb_eq in E1, E2. lia.
    + apply nodup_app_comm. simpl. constructor; [|exact Hnd]. intros K. apply HNnot. right. exact K.
    + rewrite ES, Nat.eqb_refl, app_length, Hsz. reflexivity.
    + intros y Hy. apply in_app_or in Hy. destruct Hy as [Hy|[<-|[]]].
      * destruct (Hcol y Hy) as [A B]. rewrite EC. assert (E : (y =? N) = false) by (apply Nat.eqb_neq; lia).
        rewrite E. split; [exact A | lia].
      * rewrite EC, Nat.eqb_refl. split; [reflexivity | lia].
    + exact Hkn.
  - assert (E : (k' =? k) = false) by (apply Nat.eqb_neq; exact Hne). rewrite E, app_nil_r.
    destruct VCk' as [Hr' [Hnd' [Hsz' [Hcol' Hkn']]]].
    split; [|split; [exact Hnd'|split; [|split; [|exact Hkn']]]].
    + eapply dring_ext; [|exact Hr']. intros z Hz. rewrite ED, EU.
      assert (Hz1 : z <> N) by (destruct Hz as [<-|K]; [unfold hdr; lia | apply Hcol' in K; lia]).
      assert (Hz2 : z <> up s (hdr k)).
      { intros ->. apply (VCol_disj s nc N k k' (V k) (V k') (up s (hdr k)) (HC k Hk) (HC k' Hk')); auto. }
      assert (Hz3 : z <> hdr k).
      { intros ->. apply (VCol_disj s nc N k k' (V k) (V k') (hdr k) (HC k Hk) (HC k' Hk')); auto. left. reflexivity. }
      apply Nat.eqb_neq in Hz1, Hz2, Hz3. rewrite Hz1, Hz2, Hz3. auto.
    + rewrite ES. assert (E1 : (hdr k' =? hdr k) = false) by (apply Nat.eqb_neq; unfold hdr; lia).
      assert (E2 : (hdr k' =? N) = false) by (apply Nat.eqb_neq; unfold hdr; lia). rewrite E1, E2. exact Hsz'.
    + intros y Hy. destruct (Hcol' y Hy) as [A B]. rewrite EC.
      assert (E3 : (y =? N) = false) by (apply Nat.eqb_neq; lia). rewrite E3. split; [exact A | lia].
Qed.
