(* The representation relation between a pointer state and (active primary columns, active secondary columns,
   active rows), and the effect of unlinking a column header. *)
From Coq Require Import List Arith Bool Lia.
From SV Require Import C07.Dlx C07.DeepLinks C07.DeepBase C07.DeepOps C07.DeepVert C07.DeepRows.
Import ListNotations.

Definition rmv (c : nat) (l : list nat) : list nat := filter (fun z => negb (z =? c)) l.

Definition RowOK (s : lst) (nc N : nat) (g : grow) : Prop :=
  snd g <> [] /\
  (forall c y, In (c, y) (snd g) -> c < nc /\ 2 + nc <= y < N /\ column s y = hdr c /\ row_id s y = fst g) /\
  (forall y, In y (gids g) -> dring (right s) (left s) y (rowrest g y)).

Definition Static (s : lst) (nc N : nat) (G : list grow) : Prop :=
  GWf G /\ forall g, In g G -> RowOK s nc N g.

Definition HInv (s : lst) (nc : nat) (cols scols : list nat) : Prop :=
  dring (right s) (left s) ROOT (map hdr cols) /\ dring (right s) (left s) SROOT (map hdr scols) /\
  NoDup (cols ++ scols) /\ (forall j, In j (cols ++ scols) -> j < nc).

Definition Rep (s : lst) (nc N : nat) (G : list grow) (cols scols : list nat) (rows : list grow) : Prop :=
  Static s nc N G /\ HInv s nc cols scols /\ VInv s nc N (cols ++ scols) (fun j => vcol j rows) /\
  (exists p, rows = filter p G) /\ (forall g c, In g rows -> In c (gcols g) -> In c (cols ++ scols)).

(* ---------------------------------------------------------------- frames *)
Lemma Static_frame s s' nc N G :
  Static s nc N G -> fC s' = fC s -> fRow s' = fRow s ->
  (forall z, 2 + nc <= z -> right s' z = right s z /\ left s' z = left s z) ->
  Static s' nc N G.
Proof.
  intros [W HR] EC ER Hlr. split; [exact W|]. intros g Hg. destruct (HR g Hg) as [A [B C]].
  split; [exact A|]. split.
  - intros c y Hc. unfold column, row_id. rewrite EC, ER. apply B. exact Hc.
  - intros y Hy. eapply dring_ext; [|apply C; exact Hy].
    intros z Hz. apply Hlr.
    assert (Hzg : In z (gids g)).
    { destruct Hz as [<-|Hz]; [exact Hy|]. apply rowrest_in in Hz; [tauto | apply W; exact Hg | exact Hy]. }
    apply gids_cell in Hzg. destruct Hzg as [c Hc]. apply B in Hc. lia.
Qed.

Lemma VInv_frame s s' nc N act V :
  VInv s nc N act V -> lens s' N -> fU s' = fU s -> fD s' = fD s -> fC s' = fC s -> fS s' = fS s ->
  VInv s' nc N act V.
Proof.
  intros [Hl [HN HC]] Hl' EU ED EC ES. split; [exact Hl'|]. split; [exact HN|].
  intros j Hj. destruct (HC j Hj) as [A [B [C [D E]]]].
  unfold VCol, down, up, csize, column in *. rewrite EU, ED, EC, ES. auto.
Qed.

Lemma HInv_frame s s' nc cols scols :
  HInv s nc cols scols -> fL s' = fL s -> fR s' = fR s -> HInv s' nc cols scols.
Proof. unfold HInv, right, left. intros H EL ER. rewrite EL, ER. exact H. Qed.

(* ---------------------------------------------------------------- header rings *)
Lemma two_rings f g f' g' h1 l1 h2 l2 x :
  dring f g h1 l1 -> dring f g h2 l2 -> NoDup (h1 :: l1) ->
  (forall z, In z (h1 :: l1) -> In z (h2 :: l2) -> False) -> In x l1 ->
  (forall y, f' y = upd f (g x) (f x) y) -> (forall y, g' y = upd g (f x) (g x) y) ->
  dring f' g' h1 (filter (fun y => negb (y =? x)) l1) /\ dring f' g' h2 l2.
Proof.
  intros R1 R2 Hnd Hdisj Hx Hf Hg. split.
  - exact (dring_unlink f g f' g' h1 l1 x R1 Hnd Hx Hf Hg).
  - destruct (dring_linked _ _ _ _ _ R1 Hnd Hx) as [_ [_ [_ [_ [Fin Gin]]]]].
    eapply dring_ext; [|exact R2]. intros z Hz. rewrite Hf, Hg. unfold upd.
    assert (A : z <> g x) by (intros E; rewrite E in Hz; exact (Hdisj _ Gin Hz)).
    assert (B : z <> f x) by (intros E; rewrite E in Hz; exact (Hdisj _ Fin Hz)).
    apply Nat.eqb_neq in A, B. rewrite A, B. auto.
Qed.

Lemma hdr_inj a b : hdr a = hdr b -> a = b.
Proof. unfold hdr. lia. Qed.

Lemma in_map_hdr j l : In (hdr j) (map hdr l) <-> In j l.
Proof.
  rewrite in_map_iff. split; [intros [k [E H]]; apply hdr_inj in E; subst; exact H | intros H; exists j; auto].
Qed.

Lemma filter_hdr c l : filter (fun y => negb (y =? hdr c)) (map hdr l) = map hdr (rmv c l).
Proof. rewrite filter_map_comm. unfold rmv. f_equal. Qed.

Lemma rmv_notin c l : ~ In c l -> rmv c l = l.
Proof.
  intros H. apply filter_id. intros z Hz. apply negb_true_iff. apply Nat.eqb_neq. intros ->. contradiction.
Qed.

Lemma nodup_map_hdr l : NoDup l -> NoDup (map hdr l).
Proof.
  induction 1 as [|x t Hx Hnd IH]; simpl; constructor; [|exact IH].
  rewrite in_map_hdr. exact Hx.
Qed.

Lemma ring_nodup r l : r < 2 -> NoDup l -> NoDup (r :: map hdr l).
Proof.
  intros Hr Hnd. constructor; [|apply nodup_map_hdr; exact Hnd].
  intros K. apply in_map_iff in K. destruct K as [k [E _]]. unfold hdr in E. lia.
Qed.

Lemma rings_disj r1 r2 l1 l2 z :
  r1 < 2 -> r2 < 2 -> r1 <> r2 -> (forall j, In j l1 -> In j l2 -> False) ->
  In z (r1 :: map hdr l1) -> In z (r2 :: map hdr l2) -> False.
Proof.
  intros H1 H2 Hne Hd [A|A] [B|B].
  - congruence.
  - subst. apply in_map_iff in B. destruct B as [k [E _]]. unfold hdr in E. lia.
  - subst. apply in_map_iff in A. destruct A as [k [E _]]. unfold hdr in E. lia.
  - apply in_map_iff in A. destruct A as [k [E Hk]]. subst. apply (proj1 (in_map_hdr _ _)) in B. exact (Hd k Hk B).
Qed.

Section UnlinkHeader.
  Variables (s : lst) (nc N : nat) (cols scols : list nat) (c : nat).
  Hypothesis HH : HInv s nc cols scols.
  Hypothesis Hl : lens s N.
  Hypothesis HN : 2 + nc <= N.
  Hypothesis Hc : In c (cols ++ scols).

  Lemma header_linked :
    right s (hdr c) < 2 + nc /\ left s (hdr c) < 2 + nc /\ right s (hdr c) <> hdr c /\ left s (hdr c) <> hdr c
    /\ left s (right s (hdr c)) = hdr c /\ right s (left s (hdr c)) = hdr c.
  Proof.
    destruct HH as [R1 [R2 [Hnd Hlt]]].
    assert (Hrange : forall r l z, r < 2 -> incl l (cols ++ scols) -> In z (r :: map hdr l) -> z < 2 + nc).
    { intros r l z Hr Hi [<-|Hz]; [lia|]. apply in_map_iff in Hz. destruct Hz as [k [<- Hk]].
      apply Hi in Hk. apply Hlt in Hk. unfold hdr. lia. }
    apply in_app_or in Hc. destruct Hc as [Hc1|Hc2].
    - assert (Hx : In (hdr c) (map hdr cols)) by (apply in_map_hdr; exact Hc1).
      destruct (dring_linked _ _ _ _ _ R1 (ring_nodup ROOT cols ltac:(unfold ROOT; lia) (nodup_app_l _ _ Hnd)) Hx)
        as [A [B [C [D [E F]]]]].
      repeat split; auto.
      + eapply Hrange with (r := ROOT); [unfold ROOT; lia | | exact E]. apply incl_appl, incl_refl.
      + eapply Hrange with (r := ROOT); [unfold ROOT; lia | | exact F]. apply incl_appl, incl_refl.
    - assert (Hx : In (hdr c) (map hdr scols)) by (apply in_map_hdr; exact Hc2).
      destruct (dring_linked _ _ _ _ _ R2 (ring_nodup SROOT scols ltac:(unfold SROOT; lia) (nodup_app_r _ _ Hnd)) Hx)
        as [A [B [C [D [E F]]]]].
      repeat split; auto.
      + eapply Hrange with (r := SROOT); [unfold SROOT; lia | | exact E]. apply incl_appr, incl_refl.
      + eapply Hrange with (r := SROOT); [unfold SROOT; lia | | exact F]. apply incl_appr, incl_refl.
  Qed.

  Lemma unlink_h_HInv : HInv (unlink_h (hdr c) s) nc (rmv c cols) (rmv c scols).
  Proof.
    destruct header_linked as [Hr [Hlf [Hrc [Hlc _]]]].
    assert (Hr' : right s (hdr c) < N) by lia. assert (Hlf' : left s (hdr c) < N) by lia.
    pose proof (unlink_h_left s N (hdr c) Hl Hr') as EL.
    pose proof (unlink_h_right s N (hdr c) Hl Hlf' Hrc) as ER.
    destruct HH as [R1 [R2 [Hnd Hlt]]].
    assert (Hd : forall j, In j cols -> In j scols -> False) by (apply nodup_app_disj; exact Hnd).
    assert (Hnd' : NoDup (rmv c cols ++ rmv c scols)).
    { apply nodup_app_intro.
      - apply NoDup_filter. eapply nodup_app_l; eauto.
      - apply NoDup_filter. eapply nodup_app_r; eauto.
      - intros x A B. apply filter_In in A, B. eapply Hd; [apply A | apply B]. }
    assert (Hlt' : forall j, In j (rmv c cols ++ rmv c scols) -> j < nc).
    { intros j Hj. apply Hlt. apply in_app_or in Hj. apply in_or_app.
      destruct Hj as [Hj|Hj]; apply filter_In in Hj; tauto. }
    apply in_app_or in Hc. destruct Hc as [Hc1|Hc2].
    - destruct (two_rings (right s) (left s) (right (unlink_h (hdr c) s)) (left (unlink_h (hdr c) s))
                  ROOT (map hdr cols) SROOT (map hdr scols) (hdr c)) as [A B]; auto.
      + apply ring_nodup; [unfold ROOT; lia | eapply nodup_app_l; eauto].
      + intros z. apply rings_disj; unfold ROOT, SROOT; auto.
      + apply in_map_hdr. exact Hc1.
      + rewrite filter_hdr in A. rewrite (rmv_notin c scols) by (intros K; eapply Hd; eauto).
        rewrite (rmv_notin c scols) in Hnd', Hlt' by (intros K; eapply Hd; eauto).
        split; [exact A|]. split; [exact B|]. split; assumption.
    - destruct (two_rings (right s) (left s) (right (unlink_h (hdr c) s)) (left (unlink_h (hdr c) s))
                  SROOT (map hdr scols) ROOT (map hdr cols) (hdr c)) as [A B]; auto.
      + apply ring_nodup; [unfold SROOT; lia | eapply nodup_app_r; eauto].
      + intros z Hz1 Hz2. revert Hz2 Hz1. apply rings_disj; unfold ROOT, SROOT; auto.
      + apply in_map_hdr. exact Hc2.
      + rewrite filter_hdr in A. rewrite (rmv_notin c cols) by (intros K; eapply Hd; eauto).
        rewrite (rmv_notin c cols) in Hnd', Hlt' by (intros K; eapply Hd; eauto).
        split; [exact B|]. split; [exact A|]. split; assumption.
  Qed.

  Lemma unlink_h_nodes z : 2 + nc <= z ->
    right (unlink_h (hdr c) s) z = right s z /\ left (unlink_h (hdr c) s) z = left s z.
  Proof.
    intros Hz. destruct header_linked as [Hr [Hlf [Hrc [Hlc _]]]].
    rewrite (unlink_h_left s N (hdr c) Hl) by lia.
    rewrite (unlink_h_right s N (hdr c) Hl) by (lia || assumption).
    unfold upd.
    assert (A : z <> left s (hdr c)) by lia. assert (B : z <> right s (hdr c)) by lia.
    apply Nat.eqb_neq in A, B. rewrite A, B. auto.
  Qed.

  Lemma relink_unlink_header : relink_h (hdr c) (unlink_h (hdr c) s) = s.
  Proof.
    destruct header_linked as [_ [_ [Hrc [Hlc [A B]]]]]. apply relink_unlink_h; assumption.
  Qed.
End UnlinkHeader.
