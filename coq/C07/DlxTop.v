(* Proofs, part 4: the theorems about solve (the model of solve_exact_cover). *)
From Coq Require Import List Arith Bool Lia ZArith Permutation.
From SV Require Import C07.Dlx C07.DlxSpec C07.DlxEnum C07.DlxSearch C07.DlxRows.
Import ListNotations.

(* ------------------------------------------------------------------ shape of a run of solve *)
Definition search_of (inp : input) : option (bool * sst) :=
  search (find_all inp) (max_solutions inp) (max_iter inp)
         (fuel_of inp) (prim_cols inp) (mk_rows (matrix inp)) [] init_st.

Lemma solve_cases inp r :
  solve inp = Done r ->
  (degenerate inp = true /\ r = degenerate_result (find_all inp) (max_solutions inp))
  \/ (degenerate inp = false
      /\ rows_in_range (length (col_names inp)) (mk_rows (matrix inp)) = true
      /\ exists b st, search_of inp = Some (b, st)
                      /\ r = finish (find_all inp) (max_solutions inp) (max_iter inp) st).
Proof.
  unfold solve. fold (search_of inp). destruct (degenerate inp).
  - intros H. inversion H. left. split; reflexivity.
  - destruct (rows_in_range (length (col_names inp)) (mk_rows (matrix inp))); simpl; [|discriminate].
    destruct (search_of inp) as [[b st]|]; [|discriminate].
    intros H. inversion H. right. split; [reflexivity|]. split; [reflexivity|]. exists b, st. split; reflexivity.
Qed.

Lemma degenerate_no_cols inp :
  valid_input inp = true -> degenerate inp = true -> prim_cols inp = [] /\ sec_cols inp = [].
Proof.
  unfold valid_input, degenerate, prim_cols, sec_cols, n_cols. intros Hv Hd. apply Nat.eqb_eq in Hv.
  assert (E : length (col_names inp) = 0).
  { rewrite Hv. destruct (matrix inp) as [|[|x t] m]; [reflexivity | reflexivity | discriminate]. }
  rewrite E. split; reflexivity.
Qed.

Lemma empty_cover M : exact_cover M [] [] [].
Proof.
  split; [constructor|]. split; [intros r []|]. split; intros c [].
Qed.

Lemma cover_of_nothing M sec S : exact_cover M [] sec S -> S = [].
Proof.
  intros [_ [H _]]. destruct S as [|r t]; [reflexivity|].
  destruct (H r (or_introl eq_refl)) as [_ [c [[] _]]].
Qed.

Lemma degenerate_all_covers inp :
  valid_input inp = true -> degenerate inp = true -> lists_all_covers inp [[]].
Proof.
  intros Hv Hd. destruct (degenerate_no_cols inp Hv Hd) as [Ep Es]. unfold lists_all_covers. rewrite Ep, Es.
  split; [|split].
  - intros S [E|[]]. subst S. apply empty_cover.
  - intros S HS. apply cover_of_nothing in HS. subst S. exists []. split; [left; reflexivity | intros x; tauto].
  - simpl. intros i j Hij. lia.
Qed.

(* ------------------------------------------------------------------ finish *)
Lemma finish_selections_incl fa ms mi st S :
  In S (selections (finish fa ms mi st)) -> In S (sols st).
Proof.
  unfold finish, selections. intros H. apply in_rev.
  destruct (mi <? Z.of_nat (iters st))%Z; destruct (rev (sols st)) as [|s0 t]; simpl in H; try (destruct H; fail).
  - destruct fa; simpl in H; [exact H | destruct H as [E|[]]; subst; left; reflexivity].
  - destruct fa; simpl in H; [exact H | destruct H as [E|[]]; subst; left; reflexivity].
Qed.

Lemma finish_optimal_find_all ms mi st :
  r_status (finish true ms mi st) = OPTIMAL ->
  (Z.of_nat (iters st) <= mi)%Z
  /\ ms_hit ms (length (sols st)) = false
  /\ r_sol (finish true ms mi st) = SMany (rev (sols st))
  /\ r_obj (finish true ms mi st) = length (sols st)
  /\ sols st <> [].
Proof.
  unfold finish. destruct (mi <? Z.of_nat (iters st))%Z eqn:Ecut.
  - destruct (rev (sols st)); simpl; discriminate.
  - apply Z.ltb_ge in Ecut. pose proof (rev_length (sols st)) as Hl.
    destruct (rev (sols st)) as [|s0 t] eqn:Er; simpl; [discriminate|].
    simpl in Hl. rewrite Hl. destruct (ms_hit ms (length (sols st))) eqn:Eh; [discriminate|].
    intros _. repeat split; try assumption. intros E. rewrite E in Er. discriminate.
Qed.

Lemma finish_not_max_iter fa ms mi st :
  r_status (finish fa ms mi st) <> MAX_ITER ->
  (Z.of_nat (iters st) <= mi)%Z /\ (r_status (finish fa ms mi st) = INFEASIBLE <-> sols st = []).
Proof.
  unfold finish. destruct (mi <? Z.of_nat (iters st))%Z eqn:Ecut.
  - destruct (rev (sols st)); simpl; intros H; exfalso; apply H; reflexivity.
  - apply Z.ltb_ge in Ecut. intros _. split; [exact Ecut|].
    destruct (sols st) as [|s t] eqn:Es; simpl; [split; reflexivity|].
    destruct (rev t ++ [s]) as [|s0 t0] eqn:Er; [apply app_eq_nil in Er; destruct Er as [_ Er]; discriminate Er|].
    destruct fa; simpl; [match goal with |- context [ms_hit ?a ?b] => destruct (ms_hit a b) end|]; split; discriminate.
Qed.

(* ------------------------------------------------------------------ the solutions recorded by the top-level search *)
Section Run.
  Variable inp : input.
  Let M := matrix inp.
  Let prim := prim_cols inp.
  Let sec := sec_cols inp.
  Let rows0 := mk_rows (matrix inp).
  Hypothesis Hrange : rows_in_range (length (col_names inp)) rows0 = true.

  Lemma range_ok : forall r c, In r (mk_rows M) -> In c (snd r) -> c < length (col_names inp).
  Proof. intros r c. apply (rows_in_range_spec _ _ Hrange). Qed.

  Lemma recorded_are_covers b st S :
    search_of inp = Some (b, st) -> In S (sols st) -> is_cover inp S.
  Proof.
    unfold search_of. intros H HS. apply search_ext in H. destruct H as [_ [new [E G]]].
    simpl in E. rewrite app_nil_r in E. subst new. destruct (G S HS) as [T [HT ES]]. simpl in ES. subst S.
    apply all_sols_sound in HT. apply (sub_cover_exact (matrix inp)). exact HT.
  Qed.

  Lemma fuel_enough : length (prim_cols inp) < fuel_of inp.
  Proof. unfold fuel_of. lia. Qed.

  (* if the search was not cut (returned False, iteration limit not exceeded): everything was recorded *)
  Lemma uncut_all st :
    search_of inp = Some (false, st) -> (Z.of_nat (iters st) <= max_iter inp)%Z ->
    rev (sols st) = map (map fst) (all_sols (fuel_of inp) prim rows0).
  Proof.
    unfold search_of. intros H Hmi. apply search_false_full in H; [|exact fuel_enough | exact Hmi].
    rewrite H. simpl. rewrite app_nil_r, rev_involutive. reflexivity.
  Qed.

  Lemma enumeration_lists_all : lists_all_covers inp (map (map fst) (all_sols (fuel_of inp) prim rows0)).
  Proof.
    split; [|split].
    - intros S HS. apply in_map_iff in HS. destruct HS as [T [E HT]]. subst S.
      apply all_sols_sound in HT. apply (sub_cover_exact (matrix inp)). exact HT.
    - intros S HS.
      destruct (exact_sub_cover M prim sec (length (col_names inp)) (prim_or_sec inp) range_ok S HS) as [Hsub Hfst].
      destruct (all_sols_complete (fuel_of inp) prim rows0 _ fuel_enough Hsub) as [T [HT HP]].
      exists (map fst T). split; [apply in_map; exact HT|].
      intros x. rewrite <- Hfst. split; intros Hx.
      + eapply Permutation_in; [apply Permutation_map; exact HP | exact Hx].
      + eapply Permutation_in; [apply Permutation_map; apply Permutation_sym; exact HP | exact Hx].
    - intros i j Hij. rewrite map_length in Hij.
      pose proof (all_sols_distinct (fuel_of inp) prim rows0 (mk_rows_NoDup _)) as P.
      pose proof (pairwise_nth _ _ [] P i j Hij) as Hne.
      assert (Hi : In (nth i (all_sols (fuel_of inp) prim rows0) []) (all_sols (fuel_of inp) prim rows0)) by (apply nth_In; eapply Nat.lt_trans; [apply Hij | apply Hij]).
      assert (Hj : In (nth j (all_sols (fuel_of inp) prim rows0) []) (all_sols (fuel_of inp) prim rows0)) by (apply nth_In; apply Hij).
      change (@nil nat) with (map (@fst nat (list nat)) []). rewrite !map_nth.
      intros Hs. apply Hne. apply (same_set_same_rows M); [| | exact Hs].
      + apply all_sols_sound in Hi. apply Hi.
      + apply all_sols_sound in Hj. apply Hj.
  Qed.
End Run.

(* ------------------------------------------------------------------ theorems *)
Theorem solve_sound inp r :
  valid_input inp = true -> solve inp = Done r ->
  forall S, In S (selections r) -> is_cover inp S.
Proof.
  intros Hv H S HS. apply solve_cases in H. destruct H as [[Hd Er]|[Hd [Hr [b [st [Hs Er]]]]]]; subst r.
  - destruct (degenerate_no_cols inp Hv Hd) as [Ep Es]. unfold is_cover. rewrite Ep, Es.
    assert (S = []) by (unfold degenerate_result in HS; destruct (find_all inp); simpl in HS; destruct HS as [E|[]]; symmetry; exact E).
    subst S. apply empty_cover.
  - apply finish_selections_incl in HS. eapply recorded_are_covers; eassumption.
Qed.

Theorem solve_complete inp r :
  valid_input inp = true -> solve inp = Done r -> find_all inp = true -> r_status r = OPTIMAL ->
  (exists R, r_sol r = SMany R /\ r_obj r = length R) /\ lists_all_covers inp (selections r).
Proof.
  intros Hv H Hfa Hst. apply solve_cases in H. destruct H as [[Hd Er]|[Hd [Hr [b [st [Hs Er]]]]]]; subst r.
  - rewrite Hfa. split; [exists [[]]; split; reflexivity|].
    apply (degenerate_all_covers inp Hv Hd).
  - rewrite Hfa in *. apply finish_optimal_find_all in Hst. destruct Hst as [Hmi [Hhit [Esol [Eobj Hne]]]].
    split; [exists (rev (sols st)); split; [exact Esol | rewrite rev_length; exact Eobj]|].
    unfold selections. rewrite Esol.
    destruct b.
    + exfalso. unfold search_of in Hs. apply search_true in Hs. rewrite Hfa in Hs. destruct Hs as [[A|A] _]; [discriminate|].
      rewrite A in Hhit. discriminate.
    + rewrite (uncut_all inp st Hs Hmi). apply enumeration_lists_all. exact Hr.
Qed.

Theorem solve_infeasible_iff inp r :
  valid_input inp = true -> solve inp = Done r -> r_status r <> MAX_ITER ->
  (r_status r = INFEASIBLE <-> ~ exists S, is_cover inp S).
Proof.
  intros Hv H Hst. apply solve_cases in H. destruct H as [[Hd Er]|[Hd [Hr [b [st [Hs Er]]]]]]; subst r.
  - destruct (degenerate_no_cols inp Hv Hd) as [Ep Es]. split.
    + unfold degenerate_result. destruct (find_all inp); simpl; [destruct (ms_hit (max_solutions inp) 1)|]; discriminate.
    + intros Hno. exfalso. apply Hno. exists []. unfold is_cover. rewrite Ep, Es. apply empty_cover.
  - apply finish_not_max_iter in Hst. destruct Hst as [Hmi Hiff]. rewrite Hiff. split.
    + intros Hnil [S HS]. destruct b.
      * unfold search_of in Hs. apply search_true in Hs. destruct Hs as [_ Hlt]. rewrite Hnil in Hlt. simpl in Hlt. lia.
      * pose proof (uncut_all inp st Hs Hmi) as E. rewrite Hnil in E. change (rev (@nil (list nat))) with (@nil (list nat)) in E.
        destruct (enumeration_lists_all inp Hr) as [_ [Hc _]]. destruct (Hc S HS) as [S' [HS' _]].
        rewrite <- E in HS'. destruct HS'.
    + intros Hno. destruct (sols st) as [|s t] eqn:Es; [reflexivity|]. exfalso. apply Hno. exists s.
      eapply recorded_are_covers; [exact Hs | rewrite Es; left; reflexivity].
Qed.

Theorem solve_fuel_ok inp : solve inp <> OutOfFuel.
Proof.
  unfold solve. fold (search_of inp). destruct (degenerate inp); [discriminate|].
  destruct (negb (rows_in_range (length (col_names inp)) (mk_rows (matrix inp)))); [discriminate|].
  destruct (search_of inp) as [[b st]|] eqn:E; [discriminate|].
  exfalso. revert E. unfold search_of. apply search_fuel. unfold fuel_of. lia.
Qed.

(* IndexError is raised exactly when a row has a truthy entry beyond the named columns *)
Theorem solve_index_error inp :
  solve inp = IndexError <->
  degenerate inp = false /\ rows_in_range (length (col_names inp)) (mk_rows (matrix inp)) = false.
Proof.
  unfold solve. fold (search_of inp). destruct (degenerate inp).
  - split; [discriminate | intros [H _]; discriminate].
  - destruct (rows_in_range (length (col_names inp)) (mk_rows (matrix inp))); simpl.
    + destruct (search_of inp) as [[b st]|]; split; try discriminate; intros [_ H]; discriminate.
    + split; [intros _; split; reflexivity | reflexivity].
Qed.

(* ------------------------------------------------------------------ status mapping *)
Lemma search_iters_pos fa ms mi f cols rows cur st b st' :
  search fa ms mi f cols rows cur st = Some (b, st') -> iters st < iters st'.
Proof.
  destruct f as [|f]; [discriminate|]. rewrite search_S.
  destruct (mi <? Z.of_nat (iters (bump_iter st)))%Z; [intros H; inversion H; simpl; lia|].
  destruct cols as [|c0 rest].
  - destruct (negb fa); [intros H; inversion H; simpl; lia|].
    destruct (ms_hit ms (length (sols (add_sol (rev cur) (bump_iter st))))); intros H; inversion H; simpl; lia.
  - destruct (choose_loop rows (c0 :: rest) None) as [[c sz]|]; [|intros H; inversion H; simpl; lia].
    destruct (sz =? 0); [intros H; inversion H; simpl; lia|].
    intros H. eapply (try_rows_ext fa ms (fun _ => True)) in H.
    + destruct H as [H _]. simpl in H. lia.
    + intros r s b1 s1 _ Hs. apply search_ext in Hs. eapply ext_impl; [|exact Hs]. trivial.
Qed.

Definition status_facts (inp : input) (r : result) : Prop :=
  (* MAX_ITER is reported exactly when a search ran and its iteration counter passed max_iter *)
  (r_status r = MAX_ITER <-> (1 <= r_iters r /\ (max_iter inp < Z.of_nat (r_iters r))%Z))
  (* FEASIBLE only for an enumeration stopped by max_solutions *)
  /\ (r_status r = FEASIBLE -> find_all inp = true /\ ms_hit (max_solutions inp) (length (selections r)) = true)
  (* no selection <-> INFEASIBLE or MAX_ITER *)
  /\ (r_sol r = SNone <-> selections r = [])
  /\ (r_status r = INFEASIBLE -> r_sol r = SNone)
  /\ (r_sol r = SNone -> r_status r = INFEASIBLE \/ r_status r = MAX_ITER)
  (* shape of `solution` and `objective` *)
  /\ (find_all inp = true -> r_sol r = SNone /\ r_obj r = 0 \/ exists R, r_sol r = SMany R /\ R <> [] /\ r_obj r = length R)
  /\ (find_all inp = false -> r_sol r = SNone /\ r_obj r = 0 \/ exists s, r_sol r = SOne s /\ r_obj r = length s)
  /\ (find_all inp = false -> r_status r <> FEASIBLE).

Theorem solve_status inp r : solve inp = Done r -> status_facts inp r.
Proof.
  intros H. apply solve_cases in H. destruct H as [[Hd Er]|[Hd [Hr [b [st [Hs Er]]]]]]; subst r.
  - unfold status_facts, degenerate_result, selections. destruct (find_all inp); simpl.
    + destruct (ms_hit (max_solutions inp) 1) eqn:Eh; simpl;
        repeat split; try discriminate; try (intros [? ?]; lia); try tauto; try exact Eh;
        intros _; right; exists [[]]; repeat split; discriminate.
    + repeat split; try discriminate; try (intros [? ?]; lia); try tauto.
      intros _. right. exists []. split; reflexivity.
  - assert (Hpos : 1 <= iters st).
    { unfold search_of in Hs. apply search_iters_pos in Hs. simpl in Hs. lia. }
    unfold status_facts, finish, selections.
    destruct (max_iter inp <? Z.of_nat (iters st))%Z eqn:Ecut.
    + apply Z.ltb_lt in Ecut.
      destruct (rev (sols st)) as [|s0 t] eqn:Er; destruct (find_all inp); simpl;
        repeat split; try discriminate; try tauto; try lia;
        try (intros _; left; split; reflexivity).
      * intros _. right. exists (s0 :: t). repeat split. discriminate.
      * intros _. right. exists s0. split; reflexivity.
    + apply Z.ltb_ge in Ecut.
      destruct (rev (sols st)) as [|s0 t] eqn:Er; simpl.
      * repeat split; try discriminate; try tauto; try (intros [? ?]; lia);
          try (intros _; left; split; reflexivity).
      * destruct (find_all inp); simpl.
        -- destruct (ms_hit (max_solutions inp) (S (length t))) eqn:Eh; simpl;
             repeat split; try discriminate; try tauto; try (intros [? ?]; lia);
             try (intros _; right; exists (s0 :: t); repeat split; discriminate).
        -- repeat split; try discriminate; try tauto; try (intros [? ?]; lia).
           intros _. right. exists s0. split; reflexivity.
Qed.

(* ------------------------------------------------------------------ corollaries used by Props/C07.v *)
Theorem solve_nodup inp r :
  valid_input inp = true -> solve inp = Done r -> find_all inp = true -> r_status r = OPTIMAL ->
  forall i j, i < j < length (selections r) -> ~ same_set (nth i (selections r) []) (nth j (selections r) []).
Proof.
  intros Hv H Hfa Hst. destruct (solve_complete inp r Hv H Hfa Hst) as [_ [_ [_ Hd]]]. exact Hd.
Qed.

(* find_all, and the enumeration was cut neither by max_solutions (FEASIBLE) nor by max_iter (MAX_ITER) *)
Theorem solve_find_all_uncut inp r :
  valid_input inp = true -> solve inp = Done r -> find_all inp = true ->
  r_status r = OPTIMAL \/ r_status r = INFEASIBLE ->
  lists_all_covers inp (selections r).
Proof.
  intros Hv H Hfa [Hst|Hst]; [apply (solve_complete inp r Hv H Hfa Hst)|].
  assert (Hne : r_status r <> MAX_ITER) by (rewrite Hst; discriminate).
  pose proof (proj1 (solve_infeasible_iff inp r Hv H Hne) Hst) as Hno.
  destruct (solve_status inp r H) as [_ [_ [Hsel [Hinf _]]]].
  rewrite (proj1 Hsel (Hinf Hst)). split; [intros S []|]. split.
  - intros S HS. exfalso. apply Hno. exists S. exact HS.
  - simpl. intros i j Hij. lia.
Qed.

(* find_all=False: OPTIMAL comes with exactly one selection, which is an exact cover *)
Theorem solve_first inp r :
  valid_input inp = true -> solve inp = Done r -> find_all inp = false -> r_status r = OPTIMAL ->
  exists s, r_sol r = SOne s /\ r_obj r = length s /\ is_cover inp s.
Proof.
  intros Hv H Hfa Hst.
  destruct (solve_status inp r H) as [_ [_ [_ [_ [Hnone [_ [Hshape _]]]]]]].
  destruct (Hshape Hfa) as [[E _]|[s [E Eo]]].
  - destruct (Hnone E) as [X|X]; rewrite X in Hst; discriminate.
  - exists s. split; [exact E|]. split; [exact Eo|].
    apply (solve_sound inp r Hv H). unfold selections. rewrite E. left. reflexivity.
Qed.
