(* Static description of the node layout (which id sits at which row / column) and the pure list facts about it:
   G : list grow, a grow = (row index, [(column, node id); ...]) in increasing column order. *)
From Coq Require Import List Arith Bool Lia Permutation.
From SV Require Import C07.Dlx C07.DeepLinks C07.DeepBase C07.DeepOps C07.DeepVert.
Import ListNotations.

Definition grow := (nat * list (nat * nat))%type.
Definition gcols (g : grow) : list nat := map fst (snd g).
Definition gids (g : grow) : list nat := map snd (snd g).
Definition erase (g : grow) : row := (fst g, gcols g).
Definition ghas (c : nat) (g : grow) : bool := mem c (gcols g).

Fixpoint cell_id (c : nat) (cells : list (nat * nat)) : nat :=
  match cells with
  | [] => 0
  | (c', y) :: t => if c' =? c then y else cell_id c t
  end.
Definition gcell (c : nat) (g : grow) : nat := cell_id c (snd g).
(* the down-ring of column c when exactly `rows` are active *)
Definition vcol (c : nat) (rows : list grow) : list nat := map (gcell c) (filter (ghas c) rows).

Fixpoint before (y : nat) (l : list nat) : list nat :=
  match l with [] => [] | z :: t => if z =? y then [] else z :: before y t end.
Fixpoint after (y : nat) (l : list nat) : list nat :=
  match l with [] => [] | z :: t => if z =? y then t else after y t end.
(* the right-ring of a row seen from its node y (y excluded) *)
Definition rowrest (g : grow) (y : nat) : list nat := after y (gids g) ++ before y (gids g).

Definition row_of (G : list grow) (y : nat) : option grow := find (fun g => mem y (gids g)) G.
Definition rs (G : list grow) (y : nat) : list nat :=
  match row_of G y with Some g => rowrest g y | None => [] end.

(* nodes unlinked (in this order) by _cover(column c) when `rows` are active *)
Definition victims (G : list grow) (c : nat) (rows : list grow) : list nat := concat (map (rs G) (vcol c rows)).

(* pure well-formedness of the layout *)
Definition GRow (g : grow) : Prop := NoDup (gcols g) /\ NoDup (gids g).
Definition GWf (G : list grow) : Prop := (forall g, In g G -> GRow g) /\ NoDup (concat (map gids G)).

(* ---------------------------------------------------------------- before / after *)
Lemma before_after y : forall l, In y l -> l = before y l ++ y :: after y l.
Proof.
  induction l as [|z t IH]; intros H; [contradiction|]. simpl.
  destruct (z =? y) eqn:E.
  - apply Nat.eqb_eq in E. subst. reflexivity.
  - simpl. f_equal. apply IH. destruct H as [H|H]; [apply Nat.eqb_neq in E; congruence | exact H].
Qed.

Lemma before_notin y : forall l, ~ In y (before y l).
Proof.
  induction l as [|z t IH]; simpl; [tauto|]. destruct (z =? y) eqn:E; simpl; [tauto|].
  apply Nat.eqb_neq in E. intros [K|K]; [congruence | exact (IH K)].
Qed.

Lemma rowrest_in g y z : NoDup (gids g) -> In y (gids g) ->
  (In z (rowrest g y) <-> In z (gids g) /\ z <> y).
Proof.
  intros Hnd Hy. unfold rowrest. pose proof (before_after y (gids g) Hy) as E.
  rewrite E in Hnd. apply NoDup_remove_2 in Hnd.
  rewrite in_app_iff. rewrite E at 3. rewrite in_app_iff. simpl. split.
  - intros [K|K]; (split; [tauto|]); intros ->; apply Hnd; apply in_or_app; tauto.
  - intros [[K|[K|K]] Hne]; [tauto | congruence | tauto].
Qed.

Lemma nodup_app_comm {A} (a b : list A) : NoDup (a ++ b) -> NoDup (b ++ a).
Proof. apply Permutation_NoDup. apply Permutation_app_comm. Qed.

Lemma nodup_app_intro {A} (a b : list A) :
  NoDup a -> NoDup b -> (forall x, In x a -> In x b -> False) -> NoDup (a ++ b).
Proof.
  induction a as [|u a IH]; intros Ha Hb Hd; simpl; [exact Hb|].
  inversion Ha; subst. constructor.
  - intros K. apply in_app_or in K. destruct K as [K|K]; [contradiction | apply (Hd u); [left; reflexivity | exact K]].
  - apply IH; auto. intros x Hx. apply Hd. right. exact Hx.
Qed.

Lemma rowrest_nodup g y : NoDup (gids g) -> In y (gids g) -> NoDup (rowrest g y).
Proof.
  intros Hnd Hy. unfold rowrest. pose proof (before_after y (gids g) Hy) as E.
  rewrite E in Hnd. apply NoDup_remove_1 in Hnd. apply nodup_app_comm. exact Hnd.
Qed.

Lemma rowrest_notin g y : NoDup (gids g) -> In y (gids g) -> ~ In y (rowrest g y).
Proof. intros Hnd Hy K. apply rowrest_in in K; auto. destruct K as [_ K]. congruence. Qed.

Lemma rowrest_length g y : In y (gids g) -> length (rowrest g y) = length (gids g) - 1.
Proof.
  intros Hy. unfold rowrest. pose proof (before_after y (gids g) Hy) as E.
  rewrite E at 3. rewrite !app_length. simpl. lia.
Qed.

(* ---------------------------------------------------------------- cells *)
Lemma ghas_In c g : ghas c g = true <-> In c (gcols g).
Proof. apply mem_true_iff. Qed.

Lemma gcell_in c g : ghas c g = true -> In (c, gcell c g) (snd g).
Proof.
  unfold ghas, gcell, gcols. rewrite mem_true_iff. induction (snd g) as [|[c' y] t IH]; simpl; [tauto|].
  intros [E|H].
  - subst. rewrite Nat.eqb_refl. left. reflexivity.
  - destruct (c' =? c) eqn:E; [apply Nat.eqb_eq in E; subst; left; reflexivity | right; apply IH; exact H].
Qed.

Lemma gcell_unique c y g : NoDup (gcols g) -> In (c, y) (snd g) -> gcell c g = y.
Proof.
  unfold gcell, gcols. induction (snd g) as [|[c' y'] t IH]; simpl; [tauto|].
  intros Hnd [E|H].
  - inversion E; subst. rewrite Nat.eqb_refl. reflexivity.
  - inversion Hnd as [|? ? Hni Hnd']; subst. destruct (c' =? c) eqn:E.
    + apply Nat.eqb_eq in E. subst. exfalso. apply Hni. apply in_map_iff. exists (c, y). auto.
    + apply IH; assumption.
Qed.

Lemma gcell_gids c g : ghas c g = true -> In (gcell c g) (gids g).
Proof. intros H. apply gcell_in in H. unfold gids. apply in_map_iff. exists (c, gcell c g). auto. Qed.

Lemma gids_cell y g : In y (gids g) -> exists c, In (c, y) (snd g).
Proof. unfold gids. rewrite in_map_iff. intros [[c y'] [E H]]. simpl in E. subst. exists c. exact H. Qed.

Lemma cell_inj g c c' y : NoDup (gids g) -> In (c, y) (snd g) -> In (c', y) (snd g) -> c = c'.
Proof.
  unfold gids. induction (snd g) as [|[a b] t IH]; simpl; [tauto|].
  intros Hnd [E|H] [E'|H'].
  - congruence.
  - inversion E; subst. inversion Hnd as [|? ? Hni Hnd']; subst. exfalso. apply Hni. apply in_map_iff. exists (c', y). auto.
  - inversion E'; subst. inversion Hnd as [|? ? Hni Hnd']; subst. exfalso. apply Hni. apply in_map_iff. exists (c, y). auto.
  - inversion Hnd as [|? ? Hni Hnd']; subst. apply IH; assumption.
Qed.

(* ---------------------------------------------------------------- ids identify their row *)
Lemma row_unique G g g' z :
  NoDup (concat (map gids G)) -> In g G -> In g' G -> In z (gids g) -> In z (gids g') -> g = g'.
Proof.
  induction G as [|g0 G' IH]; intros Hnd Hg Hg' Hz Hz'; [contradiction|].
  simpl in Hnd.
  assert (Hcross : forall a, In a G' -> In z (gids g0) -> In z (gids a) -> False).
  { intros a Ha Z0 Za. apply (nodup_app_disj _ _ Hnd z Z0). apply in_concat. exists (gids a). split; [|exact Za].
    apply in_map. exact Ha. }
  destruct Hg as [<-|Hg], Hg' as [<-|Hg'].
  - reflexivity.
  - exfalso. eapply Hcross; eauto.
  - exfalso. eapply Hcross; eauto.
  - apply IH; auto. apply nodup_app_r in Hnd. exact Hnd.
Qed.

Lemma row_of_spec G g y : GWf G -> In g G -> In y (gids g) -> row_of G y = Some g.
Proof.
  intros [_ Hnd] Hg Hy. unfold row_of.
  destruct (find (fun g0 => mem y (gids g0)) G) as [g'|] eqn:E.
  - apply find_some in E. destruct E as [Hg' Hm]. apply mem_true_iff in Hm.
    f_equal. eapply row_unique; eauto.
  - exfalso. eapply find_none in E; [|exact Hg]. apply mem_false_iff in E. contradiction.
Qed.

Lemma rs_spec G g y : GWf G -> In g G -> In y (gids g) -> rs G y = rowrest g y.
Proof. intros W Hg Hy. unfold rs. rewrite (row_of_spec G g y W Hg Hy). reflexivity. Qed.

Lemma victims_eq G c rows : GWf G -> incl rows G ->
  victims G c rows = concat (map (fun g => rowrest g (gcell c g)) (filter (ghas c) rows)).
Proof.
  intros W Hinc. unfold victims, vcol. rewrite map_map. f_equal. apply map_ext_in.
  intros g Hg. apply filter_In in Hg. destruct Hg as [Hg Hc].
  apply rs_spec; auto. apply gcell_gids. exact Hc.
Qed.

Lemma victims_in G c rows z : GWf G -> incl rows G ->
  (In z (victims G c rows) <->
   exists g, In g rows /\ ghas c g = true /\ In z (gids g) /\ z <> gcell c g).
Proof.
  intros W Hinc. rewrite victims_eq by assumption. rewrite in_concat. split.
  - intros [l [Hl Hz]]. apply in_map_iff in Hl. destruct Hl as [g [<- Hg]].
    apply filter_In in Hg. destruct Hg as [Hg Hc]. exists g.
    apply rowrest_in in Hz; [tauto | apply W; auto | apply gcell_gids; exact Hc].
  - intros [g [Hg [Hc [Hz Hne]]]]. exists (rowrest g (gcell c g)). split.
    + apply in_map_iff. exists g. split; [reflexivity|]. apply filter_In. auto.
    + apply rowrest_in; [apply W; auto | apply gcell_gids; exact Hc | auto].
Qed.

Lemma concat_nodup {A B} (f f' : A -> list B) : forall (G : list A) (p : A -> bool),
  NoDup (concat (map f G)) ->
  (forall g, In g G -> NoDup (f' g) /\ incl (f' g) (f g)) ->
  NoDup (concat (map f' (filter p G))).
Proof.
  induction G as [|g G' IH]; intros p Hnd Hf; simpl; [constructor|].
  simpl in Hnd.
  assert (Hrest : NoDup (concat (map f' (filter p G')))).
  { apply IH; [apply nodup_app_r in Hnd; exact Hnd|]. intros a Ha. apply Hf. right. exact Ha. }
  destruct (p g); [|exact Hrest]. simpl.
  destruct (Hf g (or_introl eq_refl)) as [Hn Hi].
  apply nodup_app_intro; [exact Hn | exact Hrest|].
  intros x Hx Hx'. apply (nodup_app_disj _ _ Hnd x (Hi x Hx)).
  apply in_concat in Hx'. destruct Hx' as [l [Hl Hxl]]. apply in_map_iff in Hl. destruct Hl as [a [<- Ha]].
  apply filter_In in Ha. destruct Ha as [Ha _].
  apply in_concat. exists (f a). split; [apply in_map; exact Ha|]. apply (Hf a (or_intror Ha)). exact Hxl.
Qed.

Lemma victims_nodup G c p : GWf G -> NoDup (victims G c (filter p G)).
Proof.
  intros W. rewrite victims_eq; [|exact W | intros g Hg; apply filter_In in Hg; tauto].
  assert (E : filter (ghas c) (filter p G) = filter (fun g => p g && ghas c g) G).
  { clear. induction G as [|g G IH]; simpl; [reflexivity|]. destruct (p g); simpl; [|exact IH].
    destruct (ghas c g); [f_equal|]; exact IH. }
  rewrite E.
  set (f' := fun g => if ghas c g then rowrest g (gcell c g) else []).
  rewrite (map_ext_in _ f').
  2:{ intros g Hg. apply filter_In in Hg. destruct Hg as [_ Hg]. apply andb_true_iff in Hg. unfold f'.
      destruct Hg as [_ ->]. reflexivity. }
  apply concat_nodup with (f := gids); [apply W|].
  intros g Hg. unfold f'. destruct (ghas c g) eqn:Hc.
  - split.
    + apply rowrest_nodup; [apply W; exact Hg | apply gcell_gids; exact Hc].
    + intros z Hz. apply rowrest_in in Hz; [tauto | apply W; exact Hg | apply gcell_gids; exact Hc].
  - split; [constructor | intros z []].
Qed.

(* the victims are never in the covered column's own ring *)
Lemma victims_not_vcol G c rows z : GWf G -> incl rows G ->
  In z (victims G c rows) -> ~ In z (vcol c rows).
Proof.
  intros W Hinc Hz K. apply victims_in in Hz; auto. destruct Hz as [g [Hg [Hc [Hzg Hne]]]].
  unfold vcol in K. apply in_map_iff in K. destruct K as [g' [E Hg']]. apply filter_In in Hg'.
  destruct Hg' as [Hg' Hc']. subst z.
  assert (g = g').
  { eapply row_unique; [apply W | apply Hinc; exact Hg | apply Hinc; exact Hg' | exact Hzg | apply gcell_gids; exact Hc']. }
  subst. congruence.
Qed.

Lemma filter_map_comm {A B} (f : A -> B) (p : B -> bool) l :
  filter p (map f l) = map f (filter (fun x => p (f x)) l).
Proof. induction l as [|x t IH]; simpl; [reflexivity|]. destruct (p (f x)); simpl; [f_equal|]; exact IH. Qed.

Lemma filter_comm {A} (p q : A -> bool) l : filter p (filter q l) = filter q (filter p l).
Proof.
  induction l as [|x t IH]; simpl; [reflexivity|].
  destruct (p x) eqn:P, (q x) eqn:Q; simpl; rewrite ?P, ?Q; rewrite IH; reflexivity.
Qed.

(* removing the victims from column k's ring = dropping the rows that contain c *)
Lemma Vdel_victims G c k rows : GWf G -> incl rows G -> k <> c ->
  Vdel (victims G c rows) (fun j => vcol j rows) k = vcol k (filter (fun g => negb (ghas c g)) rows).
Proof.
  intros W Hinc Hkc. unfold Vdel, vcol. rewrite filter_map_comm. f_equal.
  rewrite (filter_comm (ghas k)). apply filter_ext_in. intros g Hg.
  apply filter_In in Hg. destruct Hg as [Hg Hk]. f_equal.
  destruct (ghas c g) eqn:Hc.
  - apply mem_true_iff. apply victims_in; auto. exists g. repeat split; auto.
    + apply gcell_gids. exact Hk.
    + intros E. apply Hkc. destruct (W) as [WR _]. destruct (WR g (Hinc g Hg)) as [Hnc Hni].
      apply (cell_inj g k c (gcell k g) Hni); [apply gcell_in; exact Hk | rewrite E; apply gcell_in; exact Hc].
  - apply mem_false_iff. intros K. apply victims_in in K; auto. destruct K as [g' [Hg' [Hc' [Hz _]]]].
    assert (g' = g).
    { eapply row_unique; [apply W | apply Hinc; exact Hg' | apply Hinc; exact Hg | exact Hz | apply gcell_gids; exact Hk]. }
    subst. congruence.
Qed.
