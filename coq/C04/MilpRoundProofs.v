(* _round_binary (code after 7e63594) only returns points that pass _is_feasible: after the rounding loop the point is
   checked; a flip of phase 1 is kept only if the flipped point passes; a swap trial of phase 2 leaves the point
   unchanged and the swap that is finally applied is exactly the state that passed when it was recorded. *)
From Coq Require Import List QArith Qabs Qround Bool Arith ZArith Lia.
From SV Require Import C03.Simplex C03.LPSpec C04.Milp.
Import ListNotations.
Open Scope Q_scope.

Lemma set_nth_len : forall X i (v : X) l, length (set_nth i v l) = length l.
Proof. intros X i v l. revert i. induction l as [|x l IH]; intros [|i]; simpl; auto. Qed.

Lemma rb_round_length : forall eps A b cands sol sol',
  rb_round eps A b cands sol = Some sol' -> length sol' = length sol.
Proof.
  intros eps A b cands. induction cands as [|[[k v] j] r IH]; intros sol sol' H; simpl in H.
  - injection H as H. subst. reflexivity.
  - destruct (rows_ok eps (set_nth j (inject_Z (pyround v)) sol) A b).
    + rewrite (IH _ _ H). apply set_nth_len.
    + destruct (rows_ok eps (set_nth j (1 - inject_Z (pyround v)) sol) A b); [|discriminate].
      rewrite (IH _ _ H). apply set_nth_len.
Qed.

Section Round.
  Variable eps : Q.
  Variable minimize : bool.
  Variable c : list Q.
  Variable A : list (list Q).
  Variable b : list Q.
  Variable ints : list nat.

  Notation feas := (fun s => is_feasible eps s A b ints = true).

  Lemma flip_pass_inv : forall fc sol imp sol' imp',
    feas sol -> rb_flip_pass eps A b ints fc sol imp = (sol', imp') -> feas sol' /\ length sol' = length sol.
  Proof.
    induction fc as [|[k j] r IH]; intros sol imp sol' imp' F H; simpl in H.
    - injection H as H1 H2. subst. split; [exact F|reflexivity].
    - destruct (is_feasible eps (set_nth j (1 - nth j sol 0) sol) A b ints) eqn:E.
      + destruct (IH _ _ _ _ E H) as [F' L']. split; [exact F'|]. rewrite L'. apply set_nth_len.
      + exact (IH _ _ _ _ F H).
  Qed.

  Lemma phase1_inv : forall fuel sol sol',
    feas sol -> rb_phase1 fuel eps minimize c A b ints sol = Some sol' -> feas sol' /\ length sol' = length sol.
  Proof.
    induction fuel as [|f IH]; intros sol sol' F H; simpl in H; [discriminate|].
    match type of H with (let '(_, _) := ?X in _) = _ => destruct X as [s1 imp] eqn:P end.
    destruct (flip_pass_inv _ _ _ _ _ F P) as [F1 L1].
    destruct imp.
    - destruct (IH _ _ F1 H) as [F2 L2]. split; [exact F2|congruence].
    - injection H as H. subst. split; assumption.
  Qed.

  (* phase 2, code after 7e63594: the sweep does not change sol; a recorded swap passed _is_feasible *)
  Definition sweep_ok (sol : list Q) (st : Q * option (nat * nat) * list Q) : Prop :=
    snd st = sol /\ forall j_on j_off, snd (fst st) = Some (j_on, j_off) ->
                      is_feasible eps (set_nth j_off 0 (set_nth j_on 1 sol)) A b ints = true.

  Lemma try_inv : forall sol s j_on st j_off, sweep_ok sol st -> sweep_ok sol (rb_try true eps A b ints s c j_on st j_off).
  Proof.
    intros sol s j_on [[bg bs] s0] j_off [E W]. simpl in E. subst s0. unfold rb_try.
    destruct (Qltb bg (- s * nth j_on c 0 + s * nth j_off c 0)); [|split; [reflexivity|exact W]].
    destruct (is_feasible eps (set_nth j_off 0 (set_nth j_on 1 sol)) A b ints) eqn:F; split; simpl; try reflexivity.
    - intros a b' H. injection H as H1 H2. subst. exact F.
    - exact W.
  Qed.

  Lemma inner_inv : forall sol s j_on ones st, sweep_ok sol st ->
    sweep_ok sol (fold_left (rb_try true eps A b ints s c j_on) ones st).
  Proof. intros sol s j_on ones. induction ones as [|j r IH]; intros st H; simpl; [exact H|]. apply IH. apply try_inv. exact H. Qed.

  Lemma outer_inv : forall sol s ones zeros st, sweep_ok sol st ->
    sweep_ok sol (fold_left (fun st j_on => fold_left (rb_try true eps A b ints s c j_on) ones st) zeros st).
  Proof. intros sol s ones zeros. induction zeros as [|j r IH]; intros st H; simpl; [exact H|]. apply IH. apply inner_inv. exact H. Qed.

  Lemma phase2_inv : forall fuel sol sol',
    feas sol -> rb_phase2 true fuel eps minimize c A b ints sol = Some sol' -> feas sol' /\ length sol' = length sol.
  Proof.
    induction fuel as [|f IH]; intros sol sol' F H; simpl in H; [discriminate|].
    match type of H with match ?X with _ => _ end = _ =>
      pose proof (outer_inv sol (sgn minimize) (filter (fun j => Qltb (1 # 2) (nth j sol 0)) ints)
                            (filter (fun j => Qltb (nth j sol 0) (1 # 2)) ints) (0, None, sol)) as SW;
      destruct X as [[bg bs] s1] eqn:P end.
    destruct SW as [E W]; [split; [reflexivity|intros a b' H0; discriminate]|]. simpl in E, W. subst s1.
    destruct bs as [[j_on j_off]|].
    - destruct (IH _ _ (W j_on j_off eq_refl) H) as [F2 L2]. split; [exact F2|]. rewrite L2, !set_nth_len. reflexivity.
    - injection H as H. subst. split; [exact F|reflexivity].
  Qed.

  Theorem round_binary_feasible : forall lp_solution rd,
    round_binary eps lp_solution ints c A b minimize = Some (Some rd) ->
    length rd = length lp_solution /\ is_feasible eps rd A b ints = true.
  Proof.
    intros lps rd H. unfold round_binary, round_binary_gen in H.
    match type of H with match ?X with _ => _ end = _ => destruct X as [s0|] eqn:R0 end; [|discriminate].
    destruct (is_feasible eps s0 A b ints) eqn:F0; cbn [negb] in H; cbv iota in H; [|discriminate].
    destruct (rb_phase1 (S (length ints)) eps minimize c A b ints s0) as [s1|] eqn:P1; [|discriminate].
    destruct (rb_phase2 true (S (2 ^ length ints)) eps minimize c A b ints s1) as [s2|] eqn:P2; [|discriminate].
    injection H as H. subst s2.
    destruct (phase1_inv _ _ _ F0 P1) as [F1 L1]. destruct (phase2_inv _ _ _ F1 P2) as [F2 L2].
    split; [|exact F2]. rewrite L2, L1. exact (rb_round_length _ _ _ _ _ _ R0).
  Qed.
End Round.
