(* Model of solvor/milp.py  (solve_milp 74-232, _solve_node 235-298, _most_fractional 301-308, _compute_gap 311-314,
   _detect_binary 317-329, _is_feasible 332-343, _round_binary 346-421), tree after commits 5461f0f, 48990b1, 7e63594 and cccee4d.
   Definitions only.  Shape O over Q: float arithmetic is carried out in exact rationals, `eps` and `gap_tol` are
   parameters.  Two things are NOT modelled but taken as arguments (oracles):
     lp  : the LP kernel `solve_lp` called by `_solve_node`  (instantiated with SV.C03.Simplex.solve_lp in MilpInst.v)
     lns : `_lns_improve` (uses random.Random): a function from the incumbent handed to it to the point it returns.
   Conventions.  `upper[j] = float('inf')` is `None`.  `int_set = set(integers)`: small non-negative ints iterate in
   increasing order, the harness passes `ints` sorted and duplicate-free, and the model iterates the list in order.
   The heap `tree` holds keys (bound, counter, node) with unique counters: a list sorted by (bound, counter); heappop is
   the head.  `while tree and nodes_explored < max_nodes` runs on explicit fuel (2*max_nodes+2 suffices, see `bb_fuel`);
   exhausted fuel is the error value `None`, as is exhausted fuel in the two `while improved` loops of _round_binary.
   Result: `solution=None` is `None`; `objective=+-inf` is PInf/NInf; `iterations` (= nodes_explored) is m_nodes;
   `evaluations` (LP iteration total) is not modelled. *)
From Coq Require Import List QArith Qabs Qround Bool Arith ZArith.
From SV Require Import C03.Simplex C03.LPSpec.
Import ListNotations.
Open Scope Q_scope.

(* ---------- numbers *)
Definition ub := option Q.                       (* None = float('inf') *)

(* python round(): nearest, ties to even *)
Definition pyround (x : Q) : Z :=
  let f := Qfloor x in
  let d := x - inject_Z f in
  if Qltb d (1 # 2) then f
  else if Qltb (1 # 2) d then (f + 1)%Z
  else if Z.even f then f else (f + 1)%Z.

(* abs(val - round(val)) *)
Definition frac_dist (x : Q) : Q := Qabs (x - inject_Z (pyround x)).

Definition sgn (minimize : bool) : Q := if minimize then 1 else - (1).

Inductive qext := Fin (q : Q) | PInf | NInf.
Definition worst (minimize : bool) : qext := if minimize then PInf else NInf.

Inductive mstatus := S_OPTIMAL | S_FEASIBLE | S_INFEASIBLE | S_UNBOUNDED | S_MAX_ITER.

Record milp_result := mkM {
  m_status : mstatus;
  m_solution : option (list Q);
  m_objective : qext;
  m_nodes : nat;
  m_solutions : option (list (list Q))
}.

(* class Node(NamedTuple) *)
Record node := mkNode { nd_bound : Q; nd_lower : list Q; nd_upper : list ub; nd_depth : nat }.

(* what _solve_node returns, as far as solve_milp looks at it *)
Record nres := mkN { n_status : lp_status; n_sol : list Q; n_obj : Q }.

(* the LP kernel: minimize, max_iter, c, A, b  |->  status, solution, objective   (eps is fixed by the instantiation) *)
Definition lp_kernel := bool -> nat -> list Q -> list (list Q) -> list Q -> lp_status * list Q * Q.

(* the tolerance _solve_node hands to solve_lp since commit cccee4d: `eps=min(eps, 1e-10)` (milp's eps is its integrality /
   feasibility tolerance, the simplex pivots use their own tighter one).  The instantiation of the kernel uses it:
   MilpInst.run_case runs  simplex_kernel (lp_eps eps). *)
Definition lp_eps (eps : Q) : Q := if Qleb eps (1 # 10000000000) then eps else 1 # 10000000000.

(* ---------- def _solve_node(c, A, b, lower, upper, minimize, eps, max_iter) *)
(* first loop.  Outer None: some `hi < lo - eps`.  Per variable: Some lo = fixed[j], None = j in free_vars *)
Fixpoint classify (eps : Q) (lower : list Q) (upper : list ub) : option (list (option Q)) :=
  match lower, upper with
  | lo :: ls, hi :: us =>
      if match hi with Some h => Qltb h (lo - eps) | None => false end then None
      else match classify eps ls us with
           | None => None
           | Some r =>
               Some ((if match hi with Some h => Qltb (h - lo) eps | None => false end then Some lo else None) :: r)
           end
  | _, _ => Some []
  end.

Definition is_fixed (o : option Q) : bool := match o with Some _ => true | None => false end.

(* [v[j] for j in free_vars] *)
Fixpoint sel {A} (fx : list (option Q)) (v : list A) : list A :=
  match fx, v with
  | Some _ :: fx', _ :: v' => sel fx' v'
  | None :: fx', x :: v' => x :: sel fx' v'
  | _, _ => []
  end.

(* sum(row[j] * fixed[j] for j in fixed) *)
Fixpoint fdot (fx : list (option Q)) (row : list Q) : Q :=
  match fx, row with
  | Some v :: fx', a :: row' => a * v + fdot fx' row'
  | None :: fx', _ :: row' => fdot fx' row'
  | _, _ => 0
  end.

(* full_sol: fixed values at fixed positions, result.solution[j_new] at free positions *)
Fixpoint merge (fx : list (option Q)) (xs : list Q) : list Q :=
  match fx with
  | [] => []
  | Some v :: fx' => v :: merge fx' xs
  | None :: fx' => hd 0 xs :: merge fx' (tl xs)
  end.

Definition unit_row (k i : nat) (v : Q) : list Q := map (fun j => if Nat.eqb j i then v else 0) (seq 0 k).

(* "Only add non-trivial bounds": for j_new, j_old in enumerate(free_vars) *)
Fixpoint bound_rows (eps : Q) (nf : nat) (j : nat) (lbs : list (Q * ub)) : list (list Q * Q) :=
  match lbs with
  | [] => []
  | (lo, hi) :: r =>
      (if Qltb eps lo then [(unit_row nf j (- (1)), - lo)] else [])
      ++ (match hi with Some h => [(unit_row nf j 1, h)] | None => [] end)
      ++ bound_rows eps nf (S j) r
  end.

(* `lhs > b[i] + eps` for some row *)
Definition row_violated (eps : Q) (x : list Q) (rb : list Q * Q) : bool := Qltb (snd rb + eps) (dot (fst rb) x).

Definition solve_node (lp : lp_kernel) (eps : Q) (minimize : bool) (max_iter : nat)
           (c : list Q) (A : list (list Q)) (b : list Q) (lower : list Q) (upper : list ub) : nres :=
  match classify eps lower upper with
  | None => mkN INFEASIBLE [] 0
  | Some fx =>
      if forallb is_fixed fx then
        let sol := map (fun o => match o with Some v => v | None => 0 end) fx in
        if existsb (row_violated eps sol) (combine A b) then mkN INFEASIBLE [] 0
        else mkN OPTIMAL sol (Qred (fdot fx c))
      else
        let brs := bound_rows eps (length (sel fx c)) 0 (sel fx (combine lower upper)) in
        let A_red := map (sel fx) A ++ map fst brs in
        let b_red := map (fun rb => snd rb - fdot fx (fst rb)) (combine A b) ++ map snd brs in
        let '(st, x, z) := lp minimize max_iter (sel fx c) A_red b_red in
        match st with
        | OPTIMAL => mkN OPTIMAL (merge fx x) (Qred (z + fdot fx c))
        | _ => mkN st [] 0
        end
  end.

(* ---------- def _most_fractional(solution, int_set, eps) *)
Definition mf_step (eps : Q) (sol : list Q) (st : option nat * Q) (j : nat) : option nat * Q :=
  let fr := frac_dist (nth j sol 0) in
  if Qltb eps fr && Qltb (snd st) fr then (Some j, fr) else st.

Definition most_fractional (eps : Q) (sol : list Q) (ints : list nat) : option nat :=
  fst (fold_left (mf_step eps sol) ints (None, 0)).

(* ---------- def _compute_gap(best_obj, bound) *)
Definition compute_gap (best_obj bound : Q) : Q :=
  if Qltb (Qabs best_obj) (1 # 10000000000) then Qabs (best_obj - bound)
  else Qabs (best_obj - bound) / Qabs best_obj.

(* ---------- def _is_feasible(x, A, b, int_set, eps) *)
Definition is_feasible (eps : Q) (x : list Q) (A : list (list Q)) (b : list Q) (ints : list nat) : bool :=
  forallb (fun v => negb (Qltb v (- eps))) x
  && forallb (fun j => negb (Qltb eps (frac_dist (nth j x 0)))) ints
  && negb (existsb (row_violated eps x) (combine A b)).

(* ---------- def _detect_binary(A, b, int_set, n, eps) *)
Definition db_row (eps : Q) (ints : list nat) (n : nat) (bounded : list nat) (rb : list Q * Q) : list nat :=
  let '(row, bi) := rb in
  if Qltb eps (Qabs (bi - 1)) then bounded
  else
    match filter (fun j => Qltb eps (Qabs (nth j row 0))) (seq 0 n) with
    | [j] =>
        if mem_nat j ints && Qltb (Qabs (nth j row 0 - 1)) eps && negb (mem_nat j bounded)
        then bounded ++ [j] else bounded
    | _ => bounded
    end.

Definition detect_binary (eps : Q) (A : list (list Q)) (b : list Q) (ints : list nat) (n : nat) : bool :=
  let bounded := fold_left (db_row eps ints n) (combine A b) [] in
  Nat.eqb (length bounded) (length ints) && negb (Nat.eqb (length ints) 0).

(* ---------- def _round_binary(lp_solution, int_set, c, A, b, minimize, eps) *)
(* list.sort() of tuples whose last component is a distinct index: insertion by the strict lexicographic order *)
Definition key3_lt (a b : Q * Q * nat) : bool :=
  let '(a1, a2, a3) := a in let '(b1, b2, b3) := b in
  Qltb a1 b1 || (Qeq_bool a1 b1 && (Qltb a2 b2 || (Qeq_bool a2 b2 && Nat.ltb a3 b3))).
Definition key2_lt (a b : Q * nat) : bool :=
  Qltb (fst a) (fst b) || (Qeq_bool (fst a) (fst b) && Nat.ltb (snd a) (snd b)).

Fixpoint insert_by {K} (lt : K -> K -> bool) (x : K) (l : list K) : list K :=
  match l with
  | [] => [x]
  | y :: l' => if lt x y then x :: l else y :: insert_by lt x l'
  end.
Definition sort_by {K} (lt : K -> K -> bool) (l : list K) : list K := fold_right (insert_by lt) [] l.

Definition rows_ok (eps : Q) (x : list Q) (A : list (list Q)) (b : list Q) : bool :=
  negb (existsb (row_violated eps x) (combine A b)).

(* `for _, val, j in candidates:` ; None = `return None` *)
Fixpoint rb_round (eps : Q) (A : list (list Q)) (b : list Q) (cands : list (Q * Q * nat)) (sol : list Q)
  : option (list Q) :=
  match cands with
  | [] => Some sol
  | (_, val, j) :: r =>
      let rd := inject_Z (pyround val) in
      let sol1 := set_nth j rd sol in
      if rows_ok eps sol1 A b then rb_round eps A b r sol1
      else
        let sol2 := set_nth j (1 - rd) sol in
        if rows_ok eps sol2 A b then rb_round eps A b r sol2 else None
  end.

(* one pass `for _, j in flip_candidates:` -> (sol, improved) *)
Fixpoint rb_flip_pass (eps : Q) (A : list (list Q)) (b : list Q) (ints : list nat) (fc : list (Q * nat))
         (sol : list Q) (improved : bool) : list Q * bool :=
  match fc with
  | [] => (sol, improved)
  | (_, j) :: r =>
      let sol' := set_nth j (1 - nth j sol 0) sol in
      if is_feasible eps sol' A b ints then rb_flip_pass eps A b ints r sol' true
      else rb_flip_pass eps A b ints r sol improved
  end.

Fixpoint rb_phase1 (fuel : nat) (eps : Q) (minimize : bool) (c : list Q) (A : list (list Q)) (b : list Q)
         (ints : list nat) (sol : list Q) : option (list Q) :=
  match fuel with
  | O => None
  | S f =>
      let fc := sort_by key2_lt
                  (map (fun j => (sgn minimize * nth j c 0, j))
                       (filter (fun j => if minimize then Qltb (1 # 2) (nth j sol 0) else Qltb (nth j sol 0) (1 # 2)) ints)) in
      let '(sol', improved) := rb_flip_pass eps A b ints fc sol false in
      if improved then rb_phase1 f eps minimize c A b ints sol' else Some sol'
  end.

(* inner double loop of phase 2: state (best_gain, best_swap, sol).
   `restore_old` = true is the code after commit 7e63594: a trial writes sol[j_on], sol[j_off] = 1.0, 0.0, runs
   _is_feasible and then restores the two old values, i.e. leaves sol as it was (j_on and j_off are distinct: one value is
   < 0.5, the other > 0.5), so the trial is a pure test.  `restore_old` = false is the pinned code before that commit,
   which "restored" 0.0 / 1.0 (kept for C04_round_binary_unchecked_pinned_refuted). *)
Definition rb_try (restore_old : bool) (eps : Q) (A : list (list Q)) (b : list Q) (ints : list nat) (s : Q) (c : list Q)
           (j_on : nat) (st : Q * option (nat * nat) * list Q) (j_off : nat) : Q * option (nat * nat) * list Q :=
  let '(best_gain, best_swap, sol) := st in
  let net := (- s * nth j_on c 0) + s * nth j_off c 0 in
  if Qltb best_gain net then
    let sol1 := set_nth j_off 0 (set_nth j_on 1 sol) in
    let st' := if is_feasible eps sol1 A b ints then (net, Some (j_on, j_off)) else (best_gain, best_swap) in
    (st', if restore_old then sol else set_nth j_off 1 (set_nth j_on 0 sol))
  else st.

Fixpoint rb_phase2 (restore_old : bool) (fuel : nat) (eps : Q) (minimize : bool) (c : list Q) (A : list (list Q))
         (b : list Q) (ints : list nat) (sol : list Q) : option (list Q) :=
  match fuel with
  | O => None
  | S f =>
      let zeros := filter (fun j => Qltb (nth j sol 0) (1 # 2)) ints in
      let ones := filter (fun j => Qltb (1 # 2) (nth j sol 0)) ints in
      let '(_, best_swap, sol') :=
        fold_left (fun st j_on => fold_left (rb_try restore_old eps A b ints (sgn minimize) c j_on) ones st) zeros (0, None, sol) in
      match best_swap with
      | Some (j_on, j_off) => rb_phase2 restore_old f eps minimize c A b ints (set_nth j_off 0 (set_nth j_on 1 sol'))
      | None => Some sol'
      end
  end.

(* outer None = fuel exhausted (an error of the model, never a result); inner None = `return None` *)
Definition round_binary_gen (restore_old : bool) (eps : Q) (lp_solution : list Q) (ints : list nat) (c : list Q)
           (A : list (list Q)) (b : list Q) (minimize : bool) : option (option (list Q)) :=
  let cands := sort_by key3_lt
                 (map (fun j => (sgn minimize * nth j c 0, nth j lp_solution 0, j))
                      (filter (fun j => Qltb eps (frac_dist (nth j lp_solution 0))) ints)) in
  match rb_round eps A b cands lp_solution with
  | None => Some None
  | Some sol =>
      if negb (is_feasible eps sol A b ints) then Some None
      else
        match rb_phase1 (S (length ints)) eps minimize c A b ints sol with
        | None => None
        | Some sol1 =>
            match rb_phase2 restore_old (S (2 ^ length ints)) eps minimize c A b ints sol1 with
            | None => None
            | Some sol2 => Some (Some sol2)
            end
        end
  end.

(* the code that exists (after 7e63594) *)
Definition round_binary := round_binary_gen true.

(* ---------- def solve_milp *)
Fixpoint tuple_eqb (a b : list Q) : bool :=           (* == of two tuples of floats *)
  match a, b with
  | [], [] => true
  | x :: a', y :: b' => Qeq_bool x y && tuple_eqb a' b'
  | _, _ => false
  end.
Definition mem_sol (s : list Q) (l : list (list Q)) : bool := existsb (tuple_eqb s) l.

Definition hkey := (Q * nat * node)%type.
(* heappush on a list sorted by (bound, counter); the new counter is larger than every counter present *)
Fixpoint heap_push (k : hkey) (t : list hkey) : list hkey :=
  match t with
  | [] => [k]
  | h :: t' => if Qleb (fst (fst h)) (fst (fst k)) then h :: heap_push k t' else k :: t
  end.

Record bstate := mkS {
  s_tree : list hkey;
  s_counter : nat;
  s_nodes : nat;
  s_best : option (list Q * Q);            (* best_solution, best_obj;  None: (None, +-inf) *)
  s_all : list (list Q);
  s_hit : bool                             (* lp_limit_hit *)
}.

Section BB.
  Variable lp : lp_kernel.
  Variable eps gap_tol : Q.
  Variable minimize : bool.
  Variable max_iter max_nodes : nat.
  Variable c : list Q.
  Variable A : list (list Q).
  Variable b : list Q.
  Variable ints : list nat.
  Variable solution_limit : nat.

  Definition sg : Q := sgn minimize.

  (* `best_solution is not None and v >= sign * best_obj - eps` *)
  Definition prune (best : option (list Q * Q)) (v : Q) : bool :=
    match best with
    | Some (_, bo) => Qleb (sg * bo - eps) v
    | None => false
    end.

  (* `sign * sol_obj < sign * best_obj`  (best_obj = +-inf when there is no incumbent) *)
  Definition improves (best : option (list Q * Q)) (o : Q) : bool :=
    match best with
    | Some (_, bo) => Qltb (sg * o) (sg * bo)
    | None => true
    end.

  (* `best_solution or sol`, `best_obj if best_solution else sol_obj`: an empty tuple is falsy *)
  Definition best_or (best : option (list Q * Q)) (sol : list Q) (o : Q) : list Q * Q :=
    match best with
    | Some (x :: xs, bo) => (x :: xs, bo)
    | _ => (sol, o)
    end.

  (* body of the while loop after heappop gave (node_bound, _, node); st has the popped tree *)
  Definition bb_step (node_bound : Q) (nd : node) (st : bstate) : bstate + milp_result :=
    if prune (s_best st) node_bound then inl st
    else
      let r := solve_node lp eps minimize max_iter c A b (nd_lower nd) (nd_upper nd) in
      let nodes := S (s_nodes st) in
      match n_status r with
      | OPTIMAL =>
          if prune (s_best st) (sg * n_obj r)
          then inl (mkS (s_tree st) (s_counter st) nodes (s_best st) (s_all st) (s_hit st))
          else
            match most_fractional eps (n_sol r) ints with
            | None =>
                let sol := n_sol r in
                let sol_obj := n_obj r in
                let collect := Nat.ltb 1 solution_limit && negb (mem_sol sol (s_all st)) in
                let all' := if collect then s_all st ++ [sol] else s_all st in
                if collect && Nat.leb solution_limit (length all') then
                  let '(bs, bo) := best_or (s_best st) sol sol_obj in
                  inr (mkM S_FEASIBLE (Some bs) (Fin bo) nodes (Some all'))
                else if improves (s_best st) sol_obj then
                  let gap := compute_gap sol_obj (sg * node_bound) in      (* node_bound / sign, 0 if node_bound == 0 *)
                  if Qltb gap gap_tol && Nat.eqb solution_limit 1 && negb (s_hit st)
                  then inr (mkM S_OPTIMAL (Some sol) (Fin sol_obj) nodes None)
                  else inl (mkS (s_tree st) (s_counter st) nodes (Some (sol, sol_obj)) all' (s_hit st))
                else inl (mkS (s_tree st) (s_counter st) nodes (s_best st) all' (s_hit st))
            | Some fv =>
                let val := nth fv (n_sol r) 0 in
                let cb := Qred (sg * n_obj r) in
                let left := mkNode cb (nd_lower nd) (set_nth fv (Some (inject_Z (Qfloor val))) (nd_upper nd)) (S (nd_depth nd)) in
                let right := mkNode cb (set_nth fv (inject_Z (Qceiling val)) (nd_lower nd)) (nd_upper nd) (S (nd_depth nd)) in
                let t1 := heap_push (cb, s_counter st, left) (s_tree st) in
                let t2 := heap_push (cb, S (s_counter st), right) t1 in
                inl (mkS t2 (S (S (s_counter st))) nodes (s_best st) (s_all st) (s_hit st))
            end
      | stt =>
          inl (mkS (s_tree st) (s_counter st) nodes (s_best st) (s_all st)
                   (s_hit st || status_eqb stt MAX_ITER))
      end.

  (* after the loop *)
  Definition bb_finish (st : bstate) : milp_result :=
    match s_best st with
    | None =>                             (* `MAX_ITER if lp_limit_hit or tree else INFEASIBLE` (commit 48990b1) *)
        mkM (if s_hit st || negb (match s_tree st with [] => true | _ => false end) then S_MAX_ITER else S_INFEASIBLE)
            None (worst minimize) (s_nodes st) None
    | Some (bs, bo) =>
        let status := match s_tree st with [] => if s_hit st then S_FEASIBLE else S_OPTIMAL | _ => S_FEASIBLE end in
        let sols := match s_all st with [] => None | _ => if Nat.ltb 1 solution_limit then Some (s_all st) else None end in
        mkM status (Some bs) (Fin bo) (s_nodes st) sols
    end.

  (* `while tree and nodes_explored < max_nodes:` *)
  Fixpoint bb_loop (fuel : nat) (st : bstate) : option milp_result :=
    match fuel with
    | O => None
    | S f =>
        match s_tree st with
        | [] => Some (bb_finish st)
        | (nb, _, nd) :: rest =>
            if Nat.leb max_nodes (s_nodes st) then Some (bb_finish st)
            else
              match bb_step nb nd (mkS rest (s_counter st) (s_nodes st) (s_best st) (s_all st) (s_hit st)) with
              | inl st' => bb_loop f st'
              | inr r => Some r
              end
        end
    end.

  Definition bb_fuel : nat := S (S (2 * max_nodes)).
End BB.

(* looks_binary = all(-eps <= root_result.solution[j] <= 1 + eps for j in int_set) *)
Definition looks_binary_at (eps : Q) (sol : list Q) (ints : list nat) : bool :=
  forallb (fun j => Qleb (- eps) (nth j sol 0) && Qleb (nth j sol 0) (1 + eps)) ints.

(* lower/upper after the `looks_binary and _detect_binary` tightening: at that program point lower = [0.0]*n and
   upper = [inf]*n, so `lower[j] = max(lower[j], 0.0)` leaves 0 and `upper[j] = min(upper[j], 1.0)` gives 1 *)
Definition tighten_upper (n : nat) (ints : list nat) : list ub :=
  map (fun j => if mem_nat j ints then Some 1 else None) (seq 0 n).

Definition solve_milp (lp : lp_kernel) (lns : list Q -> option (list Q))
           (eps gap_tol : Q) (minimize : bool) (max_iter max_nodes : nat)
           (c : list Q) (A : list (list Q)) (b : list Q) (ints : list nat)
           (warm_start : option (list Q)) (solution_limit : nat) (heuristics : bool) (lns_iterations : nat)
  : option milp_result :=
  let n := length c in
  let lower := repeat 0 n in
  let upper := repeat (@None Q) n in
  let root := solve_node lp eps minimize max_iter c A b lower upper in
  match n_status root with
  | INFEASIBLE => Some (mkM S_INFEASIBLE None (worst minimize) 0 None)
  | UNBOUNDED => Some (mkM S_UNBOUNDED None (worst (negb minimize)) 0 None)
  | MAX_ITER => Some (mkM S_MAX_ITER None (worst minimize) 0 None)
  | OPTIMAL =>
      (* warm start *)
      let best0 : option (list Q * Q) :=
        match warm_start with
        | Some ws => if Nat.eqb (length ws) n && is_feasible eps ws A b ints then Some (ws, Qred (dot c ws)) else None
        | None => None
        end in
      let all0 := match best0 with Some (ws, _) => [ws] | None => [] end in
      match most_fractional eps (n_sol root) ints with
      | None => Some (mkM S_OPTIMAL (Some (n_sol root)) (Fin (n_obj root)) 1 None)
      | Some _ =>
          let looks_binary := looks_binary_at eps (n_sol root) ints in
          let upper1 := if looks_binary && detect_binary eps A b ints n then tighten_upper n ints else upper in
          (* rounding heuristic *)
          let st1 : option (option (list Q * Q) * list (list Q)) :=
            if heuristics && looks_binary && (match best0 with None => true | Some _ => false end) then
              match round_binary eps (n_sol root) ints c A b minimize with
              | None => None
              | Some None => Some (best0, all0)
              | Some (Some rd) => Some (Some (rd, Qred (dot c rd)), all0 ++ [rd])
              end
            else Some (best0, all0) in
          match st1 with
          | None => None
          | Some (best1, all1) =>
              (* LNS *)
              let '(best2, all2) :=
                match best1 with
                | Some (bs, bo) =>
                    if heuristics && looks_binary && Nat.ltb 0 lns_iterations then
                      match lns bs with
                      | Some imp =>
                          let io := Qred (dot c imp) in
                          if (if minimize then Qltb io bo else Qltb bo io)
                          then (Some (imp, io), if mem_sol imp all1 then all1 else all1 ++ [imp])
                          else (best1, all1)
                      | None => (best1, all1)
                      end
                    else (best1, all1)
                | None => (best1, all1)
                end in
              let root_bound := Qred (sgn minimize * n_obj root) in
              let st0 := mkS [(root_bound, O, mkNode root_bound lower upper1 0)] 1 0 best2 all2 false in
              bb_loop lp eps gap_tol minimize max_iter max_nodes c A b ints solution_limit (bb_fuel max_nodes) st0
          end
      end
  end.

(* inputs the code accepts (check_matrix_dims, check_integers_valid) in the form the harness feeds them *)
Fixpoint sorted_lt (l : list nat) : bool :=
  match l with
  | x :: ((y :: _) as r) => Nat.ltb x y && sorted_lt r
  | _ => true
  end.
Definition valid_milp (c : list Q) (A : list (list Q)) (b : list Q) (ints : list nat) : bool :=
  valid_lp c A b && forallb (fun j => Nat.ltb j (length c)) ints && sorted_lt ints.

Definition milp_eps_default : Q := 1 # 1000000.
Definition milp_gap_tol_default : Q := 1 # 1000000.
Definition milp_max_iter_default : nat := (10 * 1000)%nat.
Definition milp_max_nodes_default : nat := (100 * 1000)%nat.
