(* Bridge to C03: lp_sound of the simplex model (exact arithmetic, eps = 0) follows from the three C03 soundness
   statements (C03_optimal_sound_full_statement, C03_infeasible_sound_full_statement, C03_unbounded_sound_full_statement
   of Props/C03.v, restated here verbatim as hypotheses so that this file does not depend on Props/C03.v). *)
From Coq Require Import List QArith Qabs Bool Arith.
From SV Require Import C03.Simplex C03.LPSpec C04.Milp C04.MilpInst C04.MilpSpec.
Import ListNotations.
Open Scope Q_scope.

Definition c03_optimal_sound : Prop :=
  forall minimize fuel c A b r, valid_lp c A b = true ->
    solve_lp 0 minimize fuel c A b = r -> r_status r = OPTIMAL ->
    lp_optimal minimize c A b (r_solution r) /\ r_objective r == dot c (r_solution r).
Definition c03_infeasible_sound : Prop :=
  forall minimize fuel c A b r, valid_lp c A b = true ->
    solve_lp 0 minimize fuel c A b = r -> r_status r = INFEASIBLE -> lp_infeasible A b.
Definition c03_unbounded_sound : Prop :=
  forall minimize fuel c A b r, valid_lp c A b = true ->
    solve_lp 0 minimize fuel c A b = r -> r_status r = UNBOUNDED -> lp_unbounded minimize c A b.

Lemma set_nth_length' : forall X i (v : X) l, length (set_nth i v l) = length l.
Proof. intros X i v l. revert i. induction l as [|x l IH]; intros [|i]; simpl; auto. Qed.

Lemma extract_loop_length : forall n basis rows i sol, length (extract_loop n basis i rows sol) = length sol.
Proof.
  intros n basis rows. induction rows as [|r rs IH]; intros i sol; simpl; [reflexivity|].
  rewrite IH. destruct (Nat.ltb (nth i basis O) n); [apply set_nth_length'|reflexivity].
Qed.

Lemma extract_length : forall T basis n st it mi piv, length (r_solution (extract T basis n st it mi piv)) = n.
Proof. intros. unfold extract. simpl. rewrite extract_loop_length. unfold zeros. apply repeat_length. Qed.

Lemma solve_lp_length : forall eps mi fuel c A b,
  r_status (solve_lp eps mi fuel c A b) = OPTIMAL -> length (r_solution (solve_lp eps mi fuel c A b)) = length c.
Proof.
  intros eps mi fuel c A b. unfold solve_lp.
  destruct (existsb (fun r => Qltb (snd r) (- eps)) (t_rows (init_tableau mi c A b))).
  - destruct (phase1 eps fuel (length b) (length c) (init_tableau mi c A b) (seq (length c) (length b)))
      as [[[[st it] T1] b1] p1].
    destruct st; try (simpl; discriminate).
    destruct (phase2 eps (fuel - it) 0 T1 b1 p1) as [[[[st2 it2] T2] b2] p2]. intros _. apply extract_length.
  - destruct (phase2 eps fuel 0 (init_tableau mi c A b) (seq (length c) (length b)) []) as [[[[st2 it2] T2] b2] p2].
    intros _. apply extract_length.
Qed.

Theorem lp_sound_from_C03 :
  c03_optimal_sound -> c03_infeasible_sound -> c03_unbounded_sound -> lp_sound (simplex_kernel 0).
Proof.
  intros HO HI HU mi it c A b V. unfold simplex_kernel.
  destruct (r_status (solve_lp 0 mi it c A b)) eqn:St.
  - destruct (HO mi it c A b _ V eq_refl St) as [O Z]. split; [apply solve_lp_length; exact St|]. split; assumption.
  - exact (HI mi it c A b _ V eq_refl St).
  - exact (HU mi it c A b _ V eq_refl St).
  - exact I.
Qed.
