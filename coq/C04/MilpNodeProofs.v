(* Correctness of _solve_node relative to a sound LP kernel: substitution of fixed variables, bound rows. *)
From Coq Require Import List QArith Qabs Qround Qminmax Bool Arith ZArith Lia Lqa.
From SV Require Import C03.Simplex C03.LPSpec C04.Milp C04.MilpSpec.
Import ListNotations.
Open Scope Q_scope.

(* ---------- vocabulary *)
Fixpoint nfree (fx : list (option Q)) : nat :=
  match fx with [] => 0 | Some _ :: r => nfree r | None :: r => S (nfree r) end.

Definition agree (fx : list (option Q)) (y : list Q) : Prop :=
  Forall2 (fun o v => match o with Some f => v == f | None => True end) fx y.
Definition fixed_nonneg (fx : list (option Q)) : Prop :=
  Forall (fun o => match o with Some f => 0 <= f | None => True end) fx.
Definition ub_le (v : Q) (u : ub) : Prop := match u with Some h => v <= h | None => True end.
Definition in_box (lower : list Q) (upper : list ub) (y : list Q) : Prop :=
  Forall2 Qle lower y /\ Forall2 ub_le y upper.
Definition ub_int (u : ub) : Prop := match u with Some h => is_int h | None => True end.
Definition bounds_int (lower : list Q) (upper : list ub) : Prop := Forall is_int lower /\ Forall ub_int upper.

Definition sat (R : list (list Q * Q)) (x : list Q) : Prop := Forall (fun rb => dot (fst rb) x <= snd rb) R.

Definition getv (o : option Q) : Q := match o with Some v => v | None => 0 end.

(* ---------- sgn *)
Lemma sgn_le : forall (mi : bool) (a b : Q), (if mi then a <= b else b <= a) <-> sgn mi * a <= sgn mi * b.
Proof. intros [] a b; unfold sgn; split; intro H; lra. Qed.
Lemma sgn_lt : forall (mi : bool) (a b : Q), (if mi then a < b else b < a) <-> sgn mi * a < sgn mi * b.
Proof. intros [] a b; unfold sgn; split; intro H; lra. Qed.
Lemma sgn_sq : forall mi a, sgn mi * (sgn mi * a) == a.
Proof. intros [] a; unfold sgn; ring. Qed.

(* ---------- list plumbing *)
Lemma sel_length : forall X fx (v : list X), length v = length fx -> length (sel fx v) = nfree fx.
Proof.
  intros X fx. induction fx as [|o fx IH]; intros v L; destruct v as [|a v]; simpl in *; try discriminate; try reflexivity.
  injection L as L. destruct o; simpl; auto.
Qed.

Lemma sel_all_fixed : forall X fx (v : list X), forallb is_fixed fx = true -> sel fx v = [].
Proof.
  intros X fx. induction fx as [|o fx IH]; intros v H; simpl in *; [reflexivity|].
  destruct o; simpl in H; [|discriminate]. destruct v; [reflexivity|]. apply IH. exact H.
Qed.

Lemma sel_Forall : forall X (P : X -> Prop) fx v, Forall P v -> Forall P (sel fx v).
Proof.
  intros X P fx. induction fx as [|o fx IH]; intros v H; simpl; [constructor|].
  destruct o; destruct v; try constructor; inversion H; subst; auto.
Qed.

Lemma sel_Forall2 : forall X Y (P : X -> Y -> Prop) fx v w, Forall2 P v w -> Forall2 P (sel fx v) (sel fx w).
Proof.
  intros X Y P fx. induction fx as [|o fx IH]; intros v w H; simpl; [constructor|].
  destruct o; inversion H; subst; try constructor; auto.
Qed.

Lemma merge_length : forall fx xs, length (merge fx xs) = length fx.
Proof. induction fx as [|o fx IH]; intros xs; simpl; [reflexivity|]. destruct o; simpl; rewrite IH; reflexivity. Qed.

Lemma nonneg_tl : forall xs, nonneg xs -> nonneg (tl xs).
Proof. intros xs H. destruct xs; simpl; [constructor|]. inversion H; assumption. Qed.
Lemma nonneg_hd : forall xs, nonneg xs -> 0 <= hd 0 xs.
Proof. intros xs H. destruct xs; simpl; [lra|]. inversion H; assumption. Qed.

Lemma merge_nonneg : forall fx xs, fixed_nonneg fx -> nonneg xs -> nonneg (merge fx xs).
Proof.
  induction fx as [|o fx IH]; intros xs F N; simpl; [constructor|].
  inversion F; subst. destruct o; constructor.
  - assumption.
  - apply IH; assumption.
  - apply nonneg_hd; assumption.
  - apply IH; [assumption|apply nonneg_tl; assumption].
Qed.

Lemma dot_nil_r : forall a, dot a [] == 0.
Proof. destruct a; simpl; reflexivity. Qed.

Lemma dot_merge : forall fx row xs, length row = length fx -> length xs = nfree fx ->
  dot row (merge fx xs) == dot (sel fx row) xs + fdot fx row.
Proof.
  induction fx as [|o fx IH]; intros row xs L1 L2; destruct row as [|a row]; simpl in *; try discriminate.
  - destruct xs; simpl; ring.
  - injection L1 as L1. destruct o as [v|].
    + simpl. rewrite (IH row xs L1 L2). ring.
    + destruct xs as [|x xs]; simpl in *; [discriminate|]. injection L2 as L2.
      rewrite (IH row xs L1 L2). ring.
Qed.

Lemma dot_sel : forall fx row y, length row = length fx -> agree fx y ->
  dot row y == dot (sel fx row) (sel fx y) + fdot fx row.
Proof.
  induction fx as [|o fx IH]; intros row y L G; destruct row as [|a row]; simpl in *; try discriminate.
  - inversion G; subst. simpl. ring.
  - injection L as L. inversion G as [|o' v fx' y' Hov G']; subst. destruct o as [f|]; simpl.
    + rewrite (IH row y' L G'). rewrite Hov. ring.
    + rewrite (IH row y' L G'). ring.
Qed.

Lemma combine_fst : forall (A : list (list Q)) (b : list Q), length A = length b -> map fst (combine A b) = A.
Proof.
  induction A as [|r A IH]; intros b L; destruct b; simpl in *; try discriminate; [reflexivity|].
  injection L as L. rewrite IH; auto.
Qed.
Lemma combine_snd : forall (A : list (list Q)) (b : list Q), length A = length b -> map snd (combine A b) = b.
Proof.
  induction A as [|r A IH]; intros b L; destruct b; simpl in *; try discriminate; [reflexivity|].
  injection L as L. rewrite IH; auto.
Qed.

Lemma feasible_rows : forall R x, feasible (map fst R) (map snd R) x <-> nonneg x /\ sat R x.
Proof.
  intros R x. unfold feasible, sat. split; intros [N H]; split; try exact N.
  - induction R as [|rb R IH]; simpl in *; [constructor|]. inversion H; subst. constructor; auto.
  - induction R as [|rb R IH]; simpl in *; [constructor|]. inversion H; subst. constructor; auto.
Qed.

Lemma feasible_combine : forall A b x, length A = length b ->
  (feasible A b x <-> nonneg x /\ sat (combine A b) x).
Proof.
  intros A b x L. rewrite <- feasible_rows. rewrite combine_fst, combine_snd by exact L. reflexivity.
Qed.

(* cut / pad a vector to length k *)
Fixpoint fit (k : nat) (xs : list Q) : list Q :=
  match k with O => [] | S k' => hd 0 xs :: fit k' (tl xs) end.
Lemma fit_length : forall k xs, length (fit k xs) = k.
Proof. induction k; intros; simpl; [reflexivity|rewrite IHk; reflexivity]. Qed.
Lemma fit_dot : forall row xs, dot row (fit (length row) xs) == dot row xs.
Proof.
  induction row as [|a row IH]; intros xs; simpl; [reflexivity|].
  rewrite IH. destruct xs as [|v xs]; simpl; [rewrite dot_nil_r; ring|reflexivity].
Qed.
Lemma fit_nonneg : forall k xs, nonneg xs -> nonneg (fit k xs).
Proof.
  induction k; intros xs N; simpl; constructor; [apply nonneg_hd; exact N|apply IHk; apply nonneg_tl; exact N].
Qed.

(* ---------- unit rows and bound rows *)
Lemma dot_unit_from : forall i v k s x, length x = k ->
  dot (map (fun j => if Nat.eqb j i then v else 0) (seq s k)) x == v * (if Nat.leb s i then nth (i - s) x 0 else 0).
Proof.
  intros i v k. induction k as [|k IH]; intros s x L; destruct x as [|a x]; simpl in L; try discriminate.
  - simpl. destruct (Nat.leb s i); [destruct (i - s)%nat|]; ring.
  - injection L as L. simpl seq. simpl map. simpl dot. rewrite (IH (S s) x L).
    destruct (Nat.eqb s i) eqn:E1.
    + apply Nat.eqb_eq in E1. subst s. rewrite Nat.leb_refl. replace (i - i)%nat with O by lia.
      replace (Nat.leb (S i) i) with false by (symmetry; apply Nat.leb_gt; lia). simpl. ring.
    + apply Nat.eqb_neq in E1. destruct (Nat.leb s i) eqn:E2.
      * apply Nat.leb_le in E2. replace (Nat.leb (S s) i) with true by (symmetry; apply Nat.leb_le; lia).
        replace (i - s)%nat with (S (i - S s)) by lia. simpl. ring.
      * apply Nat.leb_gt in E2. replace (Nat.leb (S s) i) with false by (symmetry; apply Nat.leb_gt; lia). ring.
Qed.

Lemma dot_unit_row : forall nf i v x, length x = nf -> dot (unit_row nf i v) x == v * nth i x 0.
Proof.
  intros nf i v x L. unfold unit_row. rewrite (dot_unit_from i v nf 0 x L). simpl. rewrite Nat.sub_0_r. reflexivity.
Qed.

Lemma unit_row_length : forall nf i v, length (unit_row nf i v) = nf.
Proof. intros. unfold unit_row. rewrite map_length, seq_length. reflexivity. Qed.

Lemma bound_rows_length : forall eps nf lbs j, Forall (fun rb => length (fst rb) = nf) (bound_rows eps nf j lbs).
Proof.
  intros eps nf lbs. induction lbs as [|[lo hi] r IH]; intros j; simpl; [constructor|].
  apply Forall_app. split; [destruct (Qltb eps lo); repeat constructor; apply unit_row_length|].
  apply Forall_app. split; [destruct hi; repeat constructor; apply unit_row_length|apply IH].
Qed.

Lemma bound_rows_sat : forall eps nf lbs j pre xs,
  length (pre ++ xs) = nf -> length pre = j ->
  Forall2 (fun (lb : Q * ub) v => fst lb <= v /\ ub_le v (snd lb)) lbs xs ->
  sat (bound_rows eps nf j lbs) (pre ++ xs).
Proof.
  intros eps nf lbs. induction lbs as [|[lo hi] r IH]; intros j pre xs L Lp H; simpl; [constructor|].
  inversion H as [|lb v r' xs' [Hlo Hhi] H']; subst. simpl in Hlo, Hhi.
  assert (Hn : nth (length pre) (pre ++ v :: xs') 0 = v).
  { rewrite app_nth2 by lia. rewrite Nat.sub_diag. reflexivity. }
  unfold sat. apply Forall_app. split; [|apply Forall_app; split].
  - destruct (Qltb eps lo); constructor; [|constructor]. cbn [fst snd].
    rewrite (dot_unit_row _ (length pre) (- (1)) _ eq_refl). rewrite Hn. lra.
  - destruct hi as [h|]; constructor; [|constructor]. cbn [fst snd].
    rewrite (dot_unit_row _ (length pre) 1 _ eq_refl). rewrite Hn. simpl in Hhi. lra.
  - assert (P : sat (bound_rows eps (length (pre ++ v :: xs')) (S (length pre)) r) ((pre ++ [v]) ++ xs')).
    { apply IH; [rewrite <- app_assoc; reflexivity|rewrite app_length; simpl; lia|exact H']. }
    rewrite <- app_assoc in P. exact P.
Qed.

(* ---------- classify *)
Lemma classify_length : forall eps lower upper fx,
  classify eps lower upper = Some fx -> length lower = length upper -> length fx = length lower.
Proof.
  intros eps lower. induction lower as [|lo ls IH]; intros upper fx H L; destruct upper as [|hi us]; simpl in *; try discriminate.
  - injection H as H. subst. reflexivity.
  - injection L as L. destruct (match hi with Some h => Qltb h (lo - eps) | None => false end); [discriminate|].
    destruct (classify eps ls us) as [r|] eqn:E; [|discriminate]. injection H as H. subst fx. simpl.
    rewrite (IH us r E L). reflexivity.
Qed.

Lemma int_gap : forall a b eps, is_int a -> is_int b -> eps <= 1 -> b - a < eps -> b <= a.
Proof.
  intros a b eps [za Ha] [zb Hb] E H. rewrite Ha, Hb in *.
  assert (H1 : inject_Z zb - inject_Z za < 1) by lra.
  rewrite <- Zle_Qle. unfold Qlt, Qminus, Qplus, Qopp, inject_Z in H1. simpl in H1. lia.
Qed.

Lemma classify_agree : forall eps lower upper fx y,
  classify eps lower upper = Some fx -> eps <= 1 -> bounds_int lower upper -> in_box lower upper y -> agree fx y.
Proof.
  intros eps lower. induction lower as [|lo ls IH]; intros upper fx y H E [BL BU] [IL IU].
  - simpl in H. injection H as H. subst. inversion IL; subst. constructor.
  - inversion IL as [|lo' v ls' y' Hlo IL']; subst. inversion IU as [|v' hi y'' us Hhi IU']; subst.
    simpl in H. destruct (match hi with Some h => Qltb h (lo - eps) | None => false end); [discriminate|].
    destruct (classify eps ls us) as [r|] eqn:C; [|discriminate]. injection H as H. subst fx.
    inversion BL; subst. inversion BU; subst.
    constructor; [|apply (IH us r y' C E); [split; assumption|split; assumption]].
    destruct hi as [h|]; [|exact I]. destruct (Qltb (h - lo) eps) eqn:G; [|exact I].
    apply Qltb_true in G. simpl in Hhi.
    assert (h <= lo) by (apply (int_gap lo h eps); assumption). lra.
Qed.

Lemma classify_nonneg : forall eps lower upper fx,
  classify eps lower upper = Some fx -> Forall (Qle 0) lower -> fixed_nonneg fx.
Proof.
  intros eps lower. induction lower as [|lo ls IH]; intros upper fx H N; destruct upper as [|hi us]; simpl in H.
  - injection H as H; subst; constructor.
  - injection H as H; subst; constructor.
  - injection H as H; subst; constructor.
  - destruct (match hi with Some h => Qltb h (lo - eps) | None => false end); [discriminate|].
    destruct (classify eps ls us) as [r|] eqn:C; [|discriminate]. injection H as H. subst fx.
    inversion N; subst. constructor; [|apply (IH us r C); assumption].
    destruct (match hi with Some h => Qltb (h - lo) eps | None => false end); [assumption|exact I].
Qed.

Lemma classify_none : forall eps lower upper y,
  classify eps lower upper = None -> 0 <= eps -> in_box lower upper y -> False.
Proof.
  intros eps lower. induction lower as [|lo ls IH]; intros upper y H E [IL IU]; [simpl in H; discriminate|].
  inversion IL as [|lo' v ls' y' Hlo IL']; subst. inversion IU as [|v' hi y'' us Hhi IU']; subst.
  simpl in H. destruct hi as [h|].
  - destruct (Qltb h (lo - eps)) eqn:G.
    + apply Qltb_true in G. simpl in Hhi. lra.
    + destruct (classify eps ls us) eqn:C; [discriminate|]. apply (IH us y' C E). split; assumption.
  - destruct (classify eps ls us) eqn:C; [discriminate|]. apply (IH us y' C E). split; assumption.
Qed.

Lemma agree_getv : forall fx, agree fx (map getv fx).
Proof. induction fx as [|o fx IH]; simpl; constructor; [destruct o; simpl; [reflexivity|exact I]|exact IH]. Qed.

Lemma getv_nonneg : forall fx, fixed_nonneg fx -> nonneg (map getv fx).
Proof.
  induction fx as [|o fx IH]; intros F; simpl; [constructor|]. inversion F; subst.
  constructor; [destruct o; simpl; [assumption|lra]|apply IH; assumption].
Qed.

Lemma combine_bounds : forall lower upper y, in_box lower upper y ->
  Forall2 (fun (lb : Q * ub) v => fst lb <= v /\ ub_le v (snd lb)) (combine lower upper) y.
Proof.
  induction lower as [|lo ls IH]; intros upper y [IL IU]; inversion IL; subst; simpl; [constructor|].
  inversion IU; subst. constructor; [simpl; split; assumption|apply IH; split; assumption].
Qed.

(* converse: a point satisfying the bound rows respects the bounds that were written down *)
Definition bnd_ok (eps : Q) (lb : Q * ub) (v : Q) : Prop := (eps < fst lb -> fst lb <= v) /\ ub_le v (snd lb).

Lemma bound_rows_sat_inv : forall eps nf lbs j pre xs,
  length (pre ++ xs) = nf -> length pre = j -> length xs = length lbs ->
  sat (bound_rows eps nf j lbs) (pre ++ xs) -> Forall2 (bnd_ok eps) lbs xs.
Proof.
  intros eps nf lbs. induction lbs as [|[lo hi] r IH]; intros j pre xs L Lp Lx H; destruct xs as [|v xs']; simpl in Lx; try discriminate.
  - constructor.
  - injection Lx as Lx. simpl in H. unfold sat in H. apply Forall_app in H. destruct H as [H1 H]. apply Forall_app in H. destruct H as [H2 H3].
    assert (Hn : nth j (pre ++ v :: xs') 0 = v).
    { subst j. rewrite app_nth2 by lia. rewrite Nat.sub_diag. reflexivity. }
    constructor.
    + split; simpl.
      * intro G. apply Qltb_true in G. rewrite G in H1. inversion H1 as [|x l D D']. cbn [fst snd] in D.
        rewrite (dot_unit_row _ _ (- (1)) _ L) in D. rewrite Hn in D. lra.
      * destruct hi as [h|]; simpl; [|exact I]. inversion H2 as [|x l D D']. cbn [fst snd] in D.
        rewrite (dot_unit_row _ _ 1 _ L) in D. rewrite Hn in D. lra.
    + apply (IH (S j) (pre ++ [v]) xs'); [rewrite <- app_assoc; exact L|rewrite app_length; simpl; lia|exact Lx|].
      rewrite <- app_assoc. exact H3.
Qed.

Lemma int_small_zero : forall lo eps, is_int lo -> 0 <= lo -> lo <= eps -> eps < 1 -> lo == 0.
Proof.
  intros lo eps [z Hz] H0 H1 E. rewrite Hz in *.
  assert (A1 : inject_Z z < 1) by lra.
  assert (z = 0)%Z.
  { unfold Qle, inject_Z in H0. unfold Qlt, inject_Z in A1. simpl in H0, A1. lia. }
  subst z. reflexivity.
Qed.

Lemma int_ge : forall a b eps, is_int a -> is_int b -> eps < 1 -> a - eps <= b -> a <= b.
Proof.
  intros a b eps [za Ha] [zb Hb] E H. rewrite Ha, Hb in *.
  assert (H1 : inject_Z za - inject_Z zb < 1) by lra.
  rewrite <- Zle_Qle. unfold Qlt, Qminus, Qplus, Qopp, inject_Z in H1. simpl in H1. lia.
Qed.

Lemma merge_in_box : forall eps lower upper fx xs,
  classify eps lower upper = Some fx -> length lower = length upper ->
  0 <= eps -> eps < 1 -> bounds_int lower upper -> Forall (Qle 0) lower ->
  nonneg xs -> Forall2 (bnd_ok eps) (sel fx (combine lower upper)) xs ->
  in_box lower upper (merge fx xs).
Proof.
  intros eps lower. induction lower as [|lo ls IH]; intros upper fx xs C L E0 E1 [BL BU] LN N H;
    destruct upper as [|hi us]; simpl in L; try discriminate.
  - simpl in C. injection C as C. subst. simpl. split; constructor.
  - injection L as L. simpl in C.
    destruct (match hi with Some h => Qltb h (lo - eps) | None => false end) eqn:G1; [discriminate|].
    destruct (classify eps ls us) as [r|] eqn:C'; [|discriminate]. injection C as C. subst fx.
    inversion BL; subst. inversion BU; subst. inversion LN; subst.
    destruct (match hi with Some h => Qltb (h - lo) eps | None => false end) eqn:G2.
    + (* fixed at lo *)
      simpl in H. simpl merge.
      destruct (IH us r xs C' L E0 E1 (conj H3 H5) H7 N H) as [I1 I2].
      split; constructor; try assumption; [lra|].
      destruct hi as [h|]; simpl; [|exact I]. apply Qltb_false in G1.
      apply (int_ge lo h eps); assumption.
    + (* free *)
      simpl in H. destruct xs as [|v xs']; [inversion H|]. inversion H as [|lb v' l1 l2 [Hlo Hhi] H']; subst.
      inversion N; subst. simpl merge.
      destruct (IH us r xs' C' L E0 E1 (conj H3 H5) H7 H9 H') as [I1 I2].
      split; constructor; try assumption. simpl in Hlo.
      destruct (Qlt_le_dec eps lo) as [Q1|Q1]; [apply Hlo; exact Q1|].
      rewrite (int_small_zero lo eps H2 H6 Q1 E1). assumption.
Qed.

Lemma merge_all_fixed : forall fx xs, forallb is_fixed fx = true -> merge fx xs = map getv fx.
Proof.
  induction fx as [|o fx IH]; intros xs H; simpl in *; [reflexivity|].
  destruct o; simpl in H; [|discriminate]. simpl. rewrite IH; auto.
Qed.

(* ---------- _solve_node *)
Section Node.
  Variable lp : lp_kernel.
  Hypothesis LP : lp_sound lp.
  Variable eps : Q.
  Variable minimize : bool.
  Variable max_iter : nat.
  Variable c : list Q.
  Variable A : list (list Q).
  Variable b : list Q.
  Hypothesis Heps0 : 0 <= eps.
  Hypothesis Heps1 : eps < 1.
  Hypothesis Hvalid : valid_lp c A b = true.

  Lemma valid_parts : A <> [] /\ length A = length b /\ forall r, In r A -> length r = length c.
  Proof.
    unfold valid_lp in Hvalid. apply andb_true_iff in Hvalid. destruct Hvalid as [H H3].
    apply andb_true_iff in H. destruct H as [H1 H2]. split; [|split].
    - intro E. rewrite E in H1. discriminate.
    - apply Nat.eqb_eq. exact H2.
    - intros r Hr. rewrite forallb_forall in H3. apply Nat.eqb_eq. apply H3. exact Hr.
  Qed.

  Lemma row_len : forall rb, In rb (combine A b) -> length (fst rb) = length c.
  Proof. intros [r bi] H. apply in_combine_l in H. apply valid_parts. exact H. Qed.

  (* the reduced system, as rows *)
  Definition red_rows (fx : list (option Q)) (lower : list Q) (upper : list ub) : list (list Q * Q) :=
    map (fun rb => (sel fx (fst rb), snd rb - fdot fx (fst rb))) (combine A b)
    ++ bound_rows eps (length (sel fx c)) 0 (sel fx (combine lower upper)).

  Lemma red_A : forall fx lower upper,
    map (sel fx) A ++ map fst (bound_rows eps (length (sel fx c)) 0 (sel fx (combine lower upper)))
    = map fst (red_rows fx lower upper).
  Proof.
    intros. unfold red_rows. rewrite map_app, map_map. simpl. f_equal.
    destruct valid_parts as [_ [L _]]. rewrite <- (combine_fst A b L) at 1. rewrite map_map. reflexivity.
  Qed.
  Lemma red_b : forall fx lower upper,
    map (fun rb => snd rb - fdot fx (fst rb)) (combine A b)
      ++ map snd (bound_rows eps (length (sel fx c)) 0 (sel fx (combine lower upper)))
    = map snd (red_rows fx lower upper).
  Proof. intros. unfold red_rows. rewrite map_app, map_map. simpl. reflexivity. Qed.

  Lemma red_valid : forall fx lower upper, length fx = length c ->
    valid_lp (sel fx c) (map fst (red_rows fx lower upper)) (map snd (red_rows fx lower upper)) = true.
  Proof.
    intros fx lower upper Lf. unfold valid_lp. destruct valid_parts as [NE [L RL]].
    apply andb_true_iff. split; [apply andb_true_iff; split|].
    - unfold red_rows. rewrite map_length, app_length, map_length. destruct A as [|r A']; [congruence|].
      destruct b; simpl in L; [discriminate|]. reflexivity.
    - rewrite !map_length. apply Nat.eqb_refl.
    - apply forallb_forall. intros r Hr. apply Nat.eqb_eq. apply in_map_iff in Hr. destruct Hr as [rb [E Hrb]]. subst r.
      unfold red_rows in Hrb. apply in_app_or in Hrb. destruct Hrb as [H|H].
      + apply in_map_iff in H. destruct H as [rb0 [E H]]. subst rb. simpl.
        rewrite !sel_length; [reflexivity|congruence|]. rewrite (row_len rb0 H). congruence.
      + pose proof (bound_rows_length eps (length (sel fx c)) (sel fx (combine lower upper)) 0) as F.
        rewrite Forall_forall in F. apply F. exact H.
  Qed.

  (* an exact point of the node (agreeing with the fixed values, inside the box) is feasible for the reduced LP *)
  Lemma red_feasible_of_point : forall fx lower upper y,
    length fx = length c -> length y = length c -> agree fx y -> feasible A b y -> in_box lower upper y ->
    feasible (map fst (red_rows fx lower upper)) (map snd (red_rows fx lower upper)) (sel fx y).
  Proof.
    intros fx lower upper y Lf Ly G F B. apply feasible_rows. destruct valid_parts as [_ [L _]].
    apply (feasible_combine A b y L) in F. destruct F as [N S]. split; [apply sel_Forall; exact N|].
    unfold sat, red_rows. apply Forall_app. split.
    - apply Forall_forall. intros rb Hrb. apply in_map_iff in Hrb. destruct Hrb as [rb0 [E H]]. subst rb. simpl.
      unfold sat in S. rewrite Forall_forall in S. specialize (S rb0 H).
      rewrite (dot_sel fx (fst rb0) y) in S; [lra| |exact G]. rewrite (row_len rb0 H). congruence.
    - apply (bound_rows_sat eps (length (sel fx c)) (sel fx (combine lower upper)) 0 [] (sel fx y)).
      + simpl. rewrite !sel_length; congruence.
      + reflexivity.
      + apply sel_Forall2. apply combine_bounds. exact B.
  Qed.

  (* a feasible point of the reduced LP lifts to a feasible point of the original rows *)
  Lemma lift_feasible : forall fx lower upper xs,
    length fx = length c -> length xs = nfree fx -> fixed_nonneg fx ->
    feasible (map fst (red_rows fx lower upper)) (map snd (red_rows fx lower upper)) xs ->
    feasible A b (merge fx xs) /\ dot c (merge fx xs) == dot (sel fx c) xs + fdot fx c.
  Proof.
    intros fx lower upper xs Lf Lx FN F. apply feasible_rows in F. destruct F as [N S].
    destruct valid_parts as [_ [L _]]. split.
    - apply (feasible_combine A b _ L). split; [apply merge_nonneg; assumption|].
      unfold sat in *. apply Forall_forall. intros rb Hrb.
      unfold red_rows in S. apply Forall_app in S. destruct S as [S _]. rewrite Forall_forall in S.
      specialize (S (sel fx (fst rb), snd rb - fdot fx (fst rb))). simpl in S.
      rewrite dot_merge; [|rewrite (row_len rb Hrb); congruence|exact Lx].
      assert (In (sel fx (fst rb), snd rb - fdot fx (fst rb))
                 (map (fun rb0 => (sel fx (fst rb0), snd rb0 - fdot fx (fst rb0))) (combine A b))) as HI.
      { apply in_map_iff. exists rb. split; [reflexivity|exact Hrb]. }
      specialize (S HI). lra.
    - apply dot_merge; [congruence|exact Lx].
  Qed.

  Definition node_pre (lower : list Q) (upper : list ub) : Prop :=
    length lower = length c /\ length upper = length c /\ bounds_int lower upper /\ Forall (Qle 0) lower.

  Lemma solve_node_optimal : forall lower upper,
    node_pre lower upper ->
    let r := solve_node lp eps minimize max_iter c A b lower upper in
    n_status r = OPTIMAL ->
    length (n_sol r) = length c /\ nonneg (n_sol r) /\ rows_le eps (combine A b) (n_sol r)
    /\ n_obj r == dot c (n_sol r) /\ in_box lower upper (n_sol r)
    /\ forall y, length y = length c -> feasible A b y -> in_box lower upper y ->
         sgn minimize * n_obj r <= sgn minimize * dot c y.
  Proof.
    intros lower upper [Ll [Lu [BI LN]]] r St. unfold r in *. clear r. unfold solve_node in *.
    change (fun o : option Q => match o with Some v => v | None => 0 end) with getv in *.
    destruct (classify eps lower upper) as [fx|] eqn:C; [|simpl in St; discriminate].
    assert (Lf : length fx = length c) by (rewrite (classify_length _ _ _ _ C); congruence).
    pose proof (classify_nonneg _ _ _ _ C LN) as FN.
    destruct (forallb is_fixed fx) eqn:AF.
    - (* every variable fixed *)
      destruct (existsb (row_violated eps (map getv fx)) (combine A b)) eqn:V; [simpl in St; discriminate|].
      cbn [n_sol n_obj n_status]. split; [rewrite map_length; exact Lf|]. split; [apply getv_nonneg; exact FN|].
      assert (D : forall row, length row = length c -> dot row (map getv fx) == fdot fx row).
      { intros row Lr. rewrite (dot_sel fx row (map getv fx)); [|congruence|apply agree_getv].
        rewrite (sel_all_fixed _ fx row AF). simpl. ring. }
      split; [|split; [|split]].
      + unfold rows_le. apply Forall_forall. intros rb Hrb.
        destruct (Qlt_le_dec (snd rb + eps) (dot (fst rb) (map getv fx))) as [Hlt|Hle]; [|exact Hle].
        exfalso. assert (E : existsb (row_violated eps (map getv fx)) (combine A b) = true).
        { apply existsb_exists. exists rb. split; [exact Hrb|]. unfold row_violated. apply Qltb_true. exact Hlt. }
        congruence.
      + rewrite Qred_correct. symmetry. apply D. reflexivity.
      + rewrite <- (merge_all_fixed fx [] AF).
        apply (merge_in_box eps lower upper fx [] C); try assumption; [congruence|constructor|].
        rewrite (sel_all_fixed _ fx _ AF). constructor.
      + intros y Ly F B. rewrite Qred_correct.
        pose proof (classify_agree _ _ _ _ y C (Qlt_le_weak _ _ Heps1) BI B) as G.
        rewrite (dot_sel fx c y); [|congruence|exact G]. rewrite (sel_all_fixed _ fx c AF). simpl.
        apply Qle_lteq. right. ring.
    - (* some variable free: reduced LP *)
      rewrite red_A, red_b in *.
      pose proof (LP minimize max_iter (sel fx c) _ _ (red_valid fx lower upper Lf)) as S.
      destruct (lp minimize max_iter (sel fx c) (map fst (red_rows fx lower upper)) (map snd (red_rows fx lower upper)))
        as [[st x] z] eqn:E.
      destruct st; simpl in St; try discriminate. destruct S as [Lx [[Fx Opt] Z]].
      assert (Lx' : length x = nfree fx) by (rewrite Lx; apply sel_length; congruence).
      destruct (lift_feasible fx lower upper x Lf Lx' FN Fx) as [FA DC].
      destruct valid_parts as [_ [L _]].
      cbn [n_sol n_obj n_status]. split; [rewrite merge_length; exact Lf|].
      apply (feasible_combine A b _ L) in FA. destruct FA as [N Sat].
      split; [exact N|]. split; [|split; [|split]].
      + unfold rows_le. unfold sat in Sat. rewrite Forall_forall in *. intros rb Hrb. specialize (Sat rb Hrb). lra.
      + rewrite Qred_correct, DC, Z. reflexivity.
      + apply (merge_in_box eps lower upper fx x C); try assumption; [congruence|exact (proj1 Fx)|].
        apply feasible_rows in Fx. destruct Fx as [_ Sx]. unfold sat, red_rows in Sx. apply Forall_app in Sx.
        apply (bound_rows_sat_inv eps (length (sel fx c)) (sel fx (combine lower upper)) 0 [] x).
        * simpl. exact Lx.
        * reflexivity.
        * rewrite Lx'. symmetry. apply sel_length. rewrite combine_length. rewrite Ll, Lu, Lf. apply Nat.min_id.
        * exact (proj2 Sx).
      + intros y Ly F B. rewrite Qred_correct.
        pose proof (classify_agree _ _ _ _ y C (Qlt_le_weak _ _ Heps1) BI B) as G.
        pose proof (red_feasible_of_point fx lower upper y Lf Ly G F B) as Fy.
        specialize (Opt _ Fy). apply sgn_le in Opt.
        rewrite (dot_sel fx c y); [|congruence|exact G]. rewrite Z.
        rewrite !Qmult_plus_distr_r. lra.
  Qed.

  Lemma solve_node_infeasible : forall lower upper,
    node_pre lower upper ->
    n_status (solve_node lp eps minimize max_iter c A b lower upper) = INFEASIBLE ->
    forall y, length y = length c -> feasible A b y -> in_box lower upper y -> False.
  Proof.
    intros lower upper [Ll [Lu [BI LN]]] St y Ly F B. unfold solve_node in St.
    change (fun o : option Q => match o with Some v => v | None => 0 end) with getv in *.
    destruct (classify eps lower upper) as [fx|] eqn:C; [|exact (classify_none _ _ _ y C Heps0 B)].
    assert (Lf : length fx = length c) by (rewrite (classify_length _ _ _ _ C); congruence).
    pose proof (classify_agree _ _ _ _ y C (Qlt_le_weak _ _ Heps1) BI B) as G.
    destruct (forallb is_fixed fx) eqn:AF.
    - destruct (existsb (row_violated eps (map getv fx)) (combine A b)) eqn:V; [|simpl in St; discriminate].
      apply existsb_exists in V. destruct V as [rb [Hrb V]]. unfold row_violated in V. apply Qltb_true in V.
      destruct valid_parts as [_ [L _]]. apply (feasible_combine A b y L) in F. destruct F as [_ S].
      unfold sat in S. rewrite Forall_forall in S. specialize (S rb Hrb).
      assert (Lr : length (fst rb) = length fx) by (rewrite (row_len rb Hrb); congruence).
      rewrite (dot_sel fx (fst rb) y Lr G) in S.
      rewrite (dot_sel fx (fst rb) (map getv fx) Lr (agree_getv fx)) in V.
      rewrite (sel_all_fixed _ fx (fst rb) AF) in *. simpl in *. lra.
    - rewrite red_A, red_b in St.
      pose proof (LP minimize max_iter (sel fx c) _ _ (red_valid fx lower upper Lf)) as S.
      destruct (lp minimize max_iter (sel fx c) (map fst (red_rows fx lower upper)) (map snd (red_rows fx lower upper)))
        as [[st x] z] eqn:E.
      destruct st; simpl in St; try discriminate.
      exact (S _ (red_feasible_of_point fx lower upper y Lf Ly G F B)).
  Qed.

  (* an UNBOUNDED node LP yields feasible points of the original rows with arbitrarily good objective *)
  Lemma solve_node_unbounded : forall lower upper,
    node_pre lower upper ->
    n_status (solve_node lp eps minimize max_iter c A b lower upper) = UNBOUNDED ->
    forall M, exists y, length y = length c /\ feasible A b y /\ sgn minimize * dot c y < M.
  Proof.
    intros lower upper [Ll [Lu [BI LN]]] St M. unfold solve_node in St.
    change (fun o : option Q => match o with Some v => v | None => 0 end) with getv in *.
    destruct (classify eps lower upper) as [fx|] eqn:C; [|simpl in St; discriminate].
    assert (Lf : length fx = length c) by (rewrite (classify_length _ _ _ _ C); congruence).
    pose proof (classify_nonneg _ _ _ _ C LN) as FN.
    destruct (forallb is_fixed fx) eqn:AF.
    - destruct (existsb (row_violated eps (map getv fx)) (combine A b)); simpl in St; discriminate.
    - rewrite red_A, red_b in St.
      pose proof (LP minimize max_iter (sel fx c) _ _ (red_valid fx lower upper Lf)) as S.
      destruct (lp minimize max_iter (sel fx c) (map fst (red_rows fx lower upper)) (map snd (red_rows fx lower upper)))
        as [[st x] z] eqn:E.
      destruct st; simpl in St; try discriminate.
      destruct (S (sgn minimize * (M - sgn minimize * fdot fx c))) as [xs [Fx Hx]].
      (* the length of xs is not given by lp_unbounded: pad / cut it to nfree fx without changing dot products *)
      set (xs' := fit (nfree fx) xs).
      assert (Lx : length xs' = nfree fx) by apply fit_length.
      assert (ND : forall row, length row = nfree fx -> dot row xs' == dot row xs).
      { intros row Lr. unfold xs'. rewrite <- Lr. apply fit_dot. }
      assert (NN : nonneg xs').
      { apply fit_nonneg. apply feasible_rows in Fx. exact (proj1 Fx). }
      assert (Fx' : feasible (map fst (red_rows fx lower upper)) (map snd (red_rows fx lower upper)) xs').
      { apply feasible_rows. split; [exact NN|]. apply feasible_rows in Fx. destruct Fx as [_ Sx].
        unfold sat in *. rewrite Forall_forall in *. intros rb Hrb. specialize (Sx rb Hrb).
        rewrite ND; [exact Sx|].
        pose proof (red_valid fx lower upper Lf) as V. unfold valid_lp in V.
        apply andb_true_iff in V. destruct V as [_ V]. rewrite forallb_forall in V.
        specialize (V (fst rb) (in_map fst _ _ Hrb)). apply Nat.eqb_eq in V. rewrite V. apply sel_length. congruence. }
      destruct (lift_feasible fx lower upper xs' Lf Lx FN Fx') as [FA DC].
      exists (merge fx xs'). split; [rewrite merge_length; exact Lf|]. split; [exact FA|].
      rewrite DC. rewrite ND by (apply sel_length; congruence).
      apply sgn_lt in Hx. rewrite sgn_sq in Hx. rewrite Qmult_plus_distr_r. lra.
  Qed.
End Node.
