(* solve_milp: root handling, warm start / rounding / LNS incumbents, then the loop. *)
From Coq Require Import List QArith Qabs Qround Qminmax Bool Arith ZArith Lia Lqa Sorted.
From SV Require Import C03.Simplex C03.LPSpec C04.Milp C04.MilpSpec C04.MilpNodeProofs C04.MilpBBProofs C04.MilpRoundProofs.
Import ListNotations.
Open Scope Q_scope.

Lemma box_root : forall n y, length y = n -> nonneg y -> in_box (repeat 0 n) (repeat (@None Q) n) y.
Proof.
  induction n as [|n IH]; intros y L N; destruct y as [|v y]; simpl in L; try discriminate.
  - split; constructor.
  - injection L as L. inversion N as [|v' y' Hv Hy]. destruct (IH y L Hy) as [I1 I2]. split; simpl; constructor; auto. exact I.
Qed.

Lemma repeat_Forall : forall X (P : X -> Prop) v n, P v -> Forall P (repeat v n).
Proof. intros X P v n H. induction n; simpl; constructor; auto. Qed.

Lemma is_int_0 : is_int 0.
Proof. exists 0%Z. reflexivity. Qed.
Lemma is_int_1 : is_int 1.
Proof. exists 1%Z. reflexivity. Qed.

Section Main.
  Variable lp : lp_kernel.
  Hypothesis LP : lp_sound lp.
  Variable lns : list Q -> option (list Q).
  Variable eps gap_tol : Q.
  Variable minimize : bool.
  Variable max_iter max_nodes : nat.
  Variable c : list Q.
  Variable A : list (list Q).
  Variable b : list Q.
  Variable ints : list nat.
  Hypothesis LNS : lns_ok lns eps c A b ints.
  Hypothesis Heps0 : 0 <= eps.
  Hypothesis Heps1 : eps < 1.
  Hypothesis Hvalid : valid_milp c A b ints = true.
  Hypothesis BJ : binary_justified eps c A b ints.

  Lemma valid_lp_of : valid_lp c A b = true.
  Proof.
    unfold valid_milp in Hvalid. apply andb_true_iff in Hvalid. destruct Hvalid as [H _].
    apply andb_true_iff in H. exact (proj1 H).
  Qed.
  Lemma ints_lt : forall j, In j ints -> (j < length c)%nat.
  Proof.
    unfold valid_milp in Hvalid. apply andb_true_iff in Hvalid. destruct Hvalid as [H _].
    apply andb_true_iff in H. destruct H as [_ H]. rewrite forallb_forall in H.
    intros j Hj. apply Nat.ltb_lt. apply H. exact Hj.
  Qed.

  Lemma feasible_point_ok : forall x, length x = length c -> is_feasible eps x A b ints = true -> point_ok eps c A b ints x.
  Proof.
    intros x L F. destruct (valid_parts c A b valid_lp_of) as [_ [LA _]].
    destruct (is_feasible_spec eps x A b ints LA F) as [FT I].
    split; [exact L|]. split; [exact FT|]. intros j Hj. apply frac_near_int. apply I. exact Hj.
  Qed.

  Lemma tighten_length : forall n, length (tighten_upper n ints) = n.
  Proof. intros. unfold tighten_upper. rewrite map_length, seq_length. reflexivity. Qed.

  Lemma tighten_int : forall n, Forall ub_int (tighten_upper n ints).
  Proof.
    intros n. unfold tighten_upper. apply Forall_forall. intros u Hu. apply in_map_iff in Hu.
    destruct Hu as [j [E _]]. subst u. destruct (mem_nat j ints); simpl; [apply is_int_1|exact I].
  Qed.

  Lemma tighten_box : forall y, length y = length c -> (forall j, In j ints -> nth j y 0 <= 1) ->
    Forall2 ub_le y (tighten_upper (length c) ints).
  Proof.
    intros y L H. unfold tighten_upper.
    assert (G : forall k s (y' : list Q), length y' = k -> (forall i, (i < k)%nat -> In (s + i)%nat ints -> nth i y' 0 <= 1) ->
                Forall2 ub_le y' (map (fun j => if mem_nat j ints then Some 1 else None) (seq s k))).
    { induction k as [|k IH]; intros s y' L' H'; destruct y' as [|v y']; simpl in L'; try discriminate; [constructor|].
      injection L' as L'. simpl. constructor.
      - destruct (mem_nat s ints) eqn:M; simpl; [|exact I]. unfold mem_nat in M. apply existsb_exists in M.
        destruct M as [x [Hx E]]. apply Nat.eqb_eq in E. subst x. apply (H' O); [lia|]. rewrite Nat.add_0_r. exact Hx.
      - apply IH; [exact L'|]. intros i Hi Hin. apply (H' (S i)); [lia|]. rewrite Nat.add_succ_r. exact Hin. }
    apply G; [exact L|]. intros i _ Hi. simpl in Hi. apply H. exact Hi.
  Qed.

  Notation RES := (res_ok eps gap_tol minimize c A b ints).

  Theorem solve_milp_ok : forall warm_start solution_limit heuristics lns_iterations r,
    solve_milp lp lns eps gap_tol minimize max_iter max_nodes c A b ints warm_start solution_limit heuristics lns_iterations
      = Some r -> RES r.
  Proof.
    intros ws sl heur li r H. unfold solve_milp in H.
    pose proof valid_lp_of as VL.
    set (n := length c) in *.
    assert (NP : node_pre c (repeat 0 n) (repeat (@None Q) n)).
    { split; [apply repeat_length|]. split; [apply repeat_length|]. split; [split|].
      - apply repeat_Forall. apply is_int_0.
      - apply repeat_Forall. exact I.
      - apply repeat_Forall. apply Qle_refl. }
    assert (RB : forall y, length y = length c -> feasible A b y -> in_box (repeat 0 n) (repeat (@None Q) n) y).
    { intros y L [N _]. apply box_root; assumption. }
    pose proof (solve_node_optimal lp LP eps minimize max_iter c A b Heps0 Heps1 VL _ _ NP) as SO.
    pose proof (solve_node_infeasible lp LP eps minimize max_iter c A b Heps0 Heps1 VL _ _ NP) as SI.
    pose proof (solve_node_unbounded lp LP eps minimize max_iter c A b VL _ _ NP) as SU.
    set (root := solve_node lp eps minimize max_iter c A b (repeat 0 n) (repeat None n)) in *.
    destruct (n_status root) eqn:St.
    - (* root OPTIMAL *)
      destruct (SO St) as [SL [SN [SR [SOb [_ SOpt]]]]].
      assert (Hroot : forall y, length y = length c -> feasible A b y -> sgn minimize * n_obj root <= sgn minimize * dot c y).
      { intros y L F. apply SOpt; auto. }
      destruct (most_fractional eps (n_sol root) ints) as [fv|] eqn:MF.
      + (* branch and bound *)
        set (best0 := match ws with
                      | Some w => if Nat.eqb (length w) n && is_feasible eps w A b ints then Some (w, Qred (dot c w)) else None
                      | None => None end) in *.
        set (all0 := match best0 with Some (w, _) => [w] | None => [] end) in *.
        assert (B0 : best_ok eps c A b ints best0 /\ Forall (point_ok eps c A b ints) all0).
        { unfold all0, best0. destruct ws as [w|]; [|split; [exact I|constructor]].
          destruct (Nat.eqb (length w) n && is_feasible eps w A b ints) eqn:E; [|split; [exact I|constructor]].
          apply andb_true_iff in E. destruct E as [E1 E2]. apply Nat.eqb_eq in E1.
          pose proof (feasible_point_ok w E1 E2) as P. split; [|constructor; [exact P|constructor]].
          simpl. split; [exact P|]. apply Qred_correct. }
        destruct B0 as [B0 A0].
        set (looks := looks_binary_at eps (n_sol root) ints) in *.
        set (upper1 := if looks && detect_binary eps A b ints n then tighten_upper n ints else repeat None n) in *.
        (* rounding *)
        match type of H with match ?X with _ => _ end = _ => destruct X as [[best1 all1]|] eqn:R1; [|discriminate] end.
        assert (B1 : best_ok eps c A b ints best1 /\ Forall (point_ok eps c A b ints) all1).
        { destruct (heur && looks && match best0 with None => true | Some _ => false end) eqn:HC.
          - destruct (round_binary eps (n_sol root) ints c A b minimize) as [[rd|]|] eqn:RBin; try discriminate.
            + injection R1 as R1 R2. subst.
              destruct (round_binary_feasible eps minimize c A b ints _ _ RBin) as [G1 G2]. rewrite SL in G1.
              pose proof (feasible_point_ok rd G1 G2) as P. split.
              * simpl. split; [exact P|]. apply Qred_correct.
              * apply Forall_app. split; [exact A0|constructor; [exact P|constructor]].
            + injection R1 as R1 R2. subst. split; assumption.
          - injection R1 as R1 R2. subst. split; assumption. }
        destruct B1 as [B1 A1].
        (* LNS *)
        match type of H with (let '(_, _) := ?X in _) = _ => destruct X as [best2 all2] eqn:R2 end.
        assert (B2 : best_ok eps c A b ints best2 /\ Forall (point_ok eps c A b ints) all2).
        { destruct best1 as [[bs bo]|]; [|injection R2 as R2 R3; subst; split; assumption].
          destruct (heur && looks && Nat.ltb 0 li); [|injection R2 as R2 R3; subst; split; assumption].
          destruct (lns bs) as [imp|] eqn:EL; [|injection R2 as R2 R3; subst; split; assumption].
          destruct (LNS bs imp EL) as [L1 L2]. pose proof (feasible_point_ok imp L1 L2) as P.
          destruct (if minimize then Qltb (Qred (dot c imp)) bo else Qltb bo (Qred (dot c imp)));
            [|injection R2 as R2 R3; subst; split; assumption].
          injection R2 as R2 R3. subst. split.
          - simpl. split; [exact P|]. apply Qred_correct.
          - destruct (mem_sol imp all1); [exact A1|]. apply Forall_app. split; [exact A1|constructor; [exact P|constructor]]. }
        destruct B2 as [B2 A2].
        set (rb := Qred (sgn minimize * n_obj root)) in *.
        apply (loop_ok lp LP eps gap_tol minimize max_iter max_nodes c A b ints sl Heps0 Heps1 VL ints_lt
                       (sgn minimize * n_obj root) Hroot _ _ r) in H; [exact H|].
        assert (UL : length upper1 = n /\ Forall ub_int upper1).
        { unfold upper1. destruct (looks && detect_binary eps A b ints n).
          - split; [apply tighten_length|apply tighten_int].
          - split; [apply repeat_length|apply repeat_Forall; exact I]. }
        destruct UL as [UL UI]. destruct NP as [Ll [Lu [[BL BU] LN]]].
        constructor; simpl.
        * constructor; [|constructor]. split; simpl.
          -- split; [exact Ll|]. split; [exact UL|]. split; [split; assumption|exact LN].
          -- intros y [Ly [Fy _]] _. unfold rb. rewrite Qred_correct. apply Hroot; assumption.
        * constructor; [constructor|constructor].
        * exact B2.
        * exact A2.
        * intros _ y Hy. left. exists (rb, O, mkNode rb (repeat 0 n) upper1 0). split; [left; reflexivity|]. simpl.
          destruct Hy as [Ly [Fy Iy]]. destruct (RB y Ly Fy) as [R1' R2']. split; [exact R1'|].
          unfold upper1. destruct (looks && detect_binary eps A b ints n) eqn:TD; [|exact R2'].
          apply andb_true_iff in TD. destruct TD as [_ TD]. apply tighten_box; [exact Ly|].
          intros j Hj. apply (BJ TD y); [split; [exact Ly|split; assumption]|exact Hj].
      + (* the root relaxation is already integral *)
        injection H as H. subst r.
        pose proof (lp_point_ok eps c A b ints Heps0 VL (n_sol root) SL SN SR MF) as PO.
        split; [|split; [|split; [|split]]]; simpl; try discriminate.
        * intros x Hx. injection Hx as Hx. subst x. exists (n_obj root). split; [reflexivity|]. split; assumption.
        * intros _. exists (n_sol root), (n_obj root). split; [reflexivity|]. split; [reflexivity|].
          intros y [Ly [Fy _]]. pose proof (Hroot y Ly Fy). pose proof (slack_eps eps gap_tol (n_obj root)). lra.
    - (* root INFEASIBLE *)
      injection H as H. subst r. split; [|split; [|split; [|split]]]; simpl; try discriminate.
      intros _ y [Ly [Fy _]]. apply (SI eq_refl y Ly Fy). apply RB; assumption.
    - (* root UNBOUNDED *)
      injection H as H. subst r. split; [|split; [|split; [|split]]]; simpl; try discriminate.
      intros _ M. destruct (SU eq_refl (sgn minimize * M)) as [y [Ly [Fy Hy]]]. exists y. split; [exact Fy|].
      apply sgn_lt. exact Hy.
    - (* root MAX_ITER *)
      injection H as H. subst r. split; [|split; [|split; [|split]]]; simpl; discriminate.
  Qed.
End Main.
