(* `_detect_binary` only answers True when explicit rows x_j <= 1 exist: then every integer-feasible point has x_j <= 1 for
   the integer variables, so tightening their upper bounds to 1 loses nothing.  Needs: no coefficient of A is a non-zero
   number of absolute value <= eps (integer data satisfy this), and eps <= 1/4. *)
From Coq Require Import List QArith Qabs Qround Qminmax Bool Arith ZArith Lia Lqa.
From SV Require Import C03.Simplex C03.LPSpec C04.Milp C04.MilpSpec C04.MilpNodeProofs C04.MilpMainProofs.
Import ListNotations.
Open Scope Q_scope.

Lemma dot_zero : forall row y, (forall k, nth k row 0 == 0) -> dot row y == 0.
Proof.
  induction row as [|a row IH]; intros y H; destruct y as [|v y]; simpl; try reflexivity.
  rewrite (IH y (fun k => H (S k))). pose proof (H O) as H0. simpl in H0. rewrite H0. ring.
Qed.

Lemma dot_single : forall row y j, (forall k, k <> j -> nth k row 0 == 0) -> dot row y == nth j row 0 * nth j y 0.
Proof.
  induction row as [|a row IH]; intros y j H.
  - simpl. destruct j; ring.
  - destruct y as [|v y].
    + simpl. destruct j; ring.
    + destruct j as [|j]; simpl.
      * rewrite (dot_zero row y); [ring|]. intros k. apply (H (S k)). lia.
      * rewrite (IH y j); [|intros k Hk; apply (H (S k)); lia].
        pose proof (H O) as H0. simpl in H0. rewrite H0 by lia. ring.
Qed.

Lemma NoDup_snoc : forall (l : list nat) x, NoDup l -> ~ In x l -> NoDup (l ++ [x]).
Proof.
  induction l as [|a l IH]; intros x ND NI; simpl; [constructor; [intros []|constructor]|].
  inversion ND; subst. constructor.
  - intro H. apply in_app_or in H. destruct H as [H|[H|[]]]; [contradiction|]. subst. apply NI. left. reflexivity.
  - apply IH; [assumption|]. intro H. apply NI. right. exact H.
Qed.

(* the witness behind a member of `bounded` *)
Definition brow (eps : Q) (n : nat) (R : list (list Q * Q)) (j : nat) : Prop :=
  exists row bi, In (row, bi) R /\ Qabs (bi - 1) <= eps
    /\ filter (fun k => Qltb eps (Qabs (nth k row 0))) (seq 0 n) = [j] /\ Qabs (nth j row 0 - 1) < eps.

Lemma db_fold : forall eps ints n R acc,
  (forall j, In j acc -> In j ints /\ brow eps n R j) -> NoDup acc ->
  forall R', (forall rb, In rb R' -> In rb R) ->
  let res := fold_left (db_row eps ints n) R' acc in
  (forall j, In j res -> In j ints /\ brow eps n R j) /\ NoDup res.
Proof.
  intros eps ints n R acc HA ND R'. revert acc HA ND. induction R' as [|[row bi] R' IH]; intros acc HA ND Sub; cbn [fold_left]; [split; assumption|].
  apply IH; [| |intros rb H; apply Sub; right; exact H].
  - intros j Hj. unfold db_row in Hj. destruct (Qltb eps (Qabs (bi - 1))) eqn:E1; [apply HA; exact Hj|].
    destruct (filter (fun k => Qltb eps (Qabs (nth k row 0))) (seq 0 n)) as [|j0 [|? ?]] eqn:F; try (apply HA; exact Hj).
    destruct (mem_nat j0 ints && Qltb (Qabs (nth j0 row 0 - 1)) eps && negb (mem_nat j0 acc)) eqn:E2; [|apply HA; exact Hj].
    apply in_app_or in Hj. destruct Hj as [Hj|[Hj|[]]]; [apply HA; exact Hj|]. subst j0.
    apply andb_true_iff in E2. destruct E2 as [E2 E4]. apply andb_true_iff in E2. destruct E2 as [E2 E3].
    split.
    + unfold mem_nat in E2. apply existsb_exists in E2. destruct E2 as [x [Hx Ex]]. apply Nat.eqb_eq in Ex. subst. exact Hx.
    + exists row, bi. split; [apply Sub; left; reflexivity|]. split; [apply Qltb_false; exact E1|].
      split; [exact F|apply Qltb_true; exact E3].
  - unfold db_row. destruct (Qltb eps (Qabs (bi - 1))); [exact ND|].
    destruct (filter (fun k => Qltb eps (Qabs (nth k row 0))) (seq 0 n)) as [|j0 [|? ?]]; try exact ND.
    destruct (mem_nat j0 ints && Qltb (Qabs (nth j0 row 0 - 1)) eps && negb (mem_nat j0 acc)) eqn:E2; [|exact ND].
    apply andb_true_iff in E2. destruct E2 as [_ E4]. apply negb_true_iff in E4.
    apply NoDup_snoc; [exact ND|]. intro Hin.
    assert (mem_nat j0 acc = true) by (unfold mem_nat; apply existsb_exists; exists j0; split; [exact Hin|apply Nat.eqb_refl]).
    congruence.
Qed.

Lemma detect_binary_sound : forall eps c A b ints,
  0 <= eps -> eps <= 1 # 4 -> valid_lp c A b = true -> tiny_free eps A = true ->
  binary_justified eps c A b ints.
Proof.
  intros eps c A b ints E0 E1 V TF DB y [Ly [Fy Iy]] j Hj.
  unfold detect_binary in DB. apply andb_true_iff in DB. destruct DB as [DL _]. apply Nat.eqb_eq in DL.
  destruct (db_fold eps ints (length c) (combine A b) [] (fun j (H : In j []) => match H with end) (NoDup_nil _)
                    (combine A b) (fun rb H => H)) as [W ND].
  set (bounded := fold_left (db_row eps ints (length c)) (combine A b) []) in *.
  assert (INC : incl ints bounded).
  { apply NoDup_length_incl; [exact ND|lia|]. intros k Hk. exact (proj1 (W k Hk)). }
  destruct (W j (INC j Hj)) as [_ [row [bi [Hin [Hb [Hf Hc]]]]]].
  destruct (valid_parts c A b V) as [_ [LA RL]].
  pose proof (in_combine_l _ _ _ _ Hin) as HrA. pose proof (RL row HrA) as Lr.
  (* all other coefficients of the row are zero *)
  assert (Z : forall k, k <> j -> nth k row 0 == 0).
  { intros k Hk. destruct (Nat.lt_ge_cases k (length row)) as [Lt|Ge]; [|rewrite nth_overflow by exact Ge; reflexivity].
    assert (NF : Qltb eps (Qabs (nth k row 0)) = false).
    { destruct (Qltb eps (Qabs (nth k row 0))) eqn:G; [|reflexivity]. exfalso.
      assert (In k (filter (fun k => Qltb eps (Qabs (nth k row 0))) (seq 0 (length c)))).
      { apply filter_In. split; [apply in_seq; lia|exact G]. }
      rewrite Hf in H. destruct H as [H|[]]. congruence. }
    unfold tiny_free in TF. rewrite forallb_forall in TF. specialize (TF row HrA). rewrite forallb_forall in TF.
    specialize (TF (nth k row 0) (nth_In _ _ Lt)). rewrite NF, orb_false_r in TF. apply Qeq_bool_iff in TF. exact TF. }
  apply (feasible_combine A b y LA) in Fy. destruct Fy as [Ny Sy]. unfold sat in Sy. rewrite Forall_forall in Sy.
  specialize (Sy (row, bi) Hin). simpl in Sy. rewrite (dot_single row y j Z) in Sy.
  (* a_j > 3/4, bi <= 5/4, y_j a non-negative integer *)
  assert (Ha : 3 # 4 <= nth j row 0).
  { apply Qabs_Qlt_condition in Hc. lra. }
  assert (Hbi : bi <= 5 # 4).
  { apply Qabs_Qle_condition in Hb. lra. }
  destruct (Iy j Hj) as [z Hz]. rewrite Hz in *.
  destruct (Z_le_gt_dec z 1) as [Hz1|Hz1]; [change (inject_Z z <= inject_Z 1); rewrite <- (Zle_Qle z 1); exact Hz1|]. exfalso.
  assert (H2 : 2 <= inject_Z z) by (change (inject_Z 2 <= inject_Z z); rewrite <- (Zle_Qle 2 z); lia).
  assert (nth j row 0 * 2 <= nth j row 0 * inject_Z z) by (apply Qmult_le_l; lra). lra.
Qed.
