(* Readable specification of C04 and the hypotheses on the two oracles of the model.  Definitions + the soundness of the
   boolean checker `spec_check`.  Vocabulary of C03.LPSpec: dot, mv, feasible, feasible_tol, lp_optimal, lp_infeasible,
   lp_unbounded. *)
From Coq Require Import List QArith Qabs Qround Qminmax Bool Arith ZArith Lia.
From SV Require Import C03.Simplex C03.LPSpec C04.Milp.
Import ListNotations.
Open Scope Q_scope.

(* ---------- the MILP  min/max c.x,  A x <= b,  x >= 0,  x_j integer for j in ints *)
Definition is_int (q : Q) : Prop := exists z : Z, q == inject_Z z.

(* y is an integer-feasible point (exact): right length, A y <= b, y >= 0, integrality of the designated variables *)
Definition int_feasible (c : list Q) (A : list (list Q)) (b : list Q) (ints : list nat) (y : list Q) : Prop :=
  length y = length c /\ feasible A b y /\ forall j, In j ints -> is_int (nth j y 0).

(* what the code guarantees of a returned point: feasibility up to eps, integrality up to eps *)
Definition near_int (eps q : Q) : Prop := exists z : Z, Qabs (q - inject_Z z) <= eps.
Definition point_ok (eps : Q) (c : list Q) (A : list (list Q)) (b : list Q) (ints : list nat) (x : list Q) : Prop :=
  length x = length c /\ feasible_tol eps A b x /\ forall j, In j ints -> near_int eps (nth j x 0).
(* ... and of the reported objective *)
Definition sol_ok (eps : Q) (c : list Q) (A : list (list Q)) (b : list Q) (ints : list nat) (x : list Q) (o : Q) : Prop :=
  point_ok eps c A b ints x /\ o == dot c x.

(* the tolerance in "OPTIMAL means no integer-feasible point is better": eps from the two prune tests, gap_tol (relative
   to |best|, absolute when |best| < 1e-10) from the early exit *)
Definition opt_slack (eps gap_tol best : Q) : Q := Qmax eps (gap_tol * Qmax 1 (Qabs best)).

(* ---------- hypotheses on the oracles *)
(* the LP kernel answers correctly on well-formed LPs (= the three C03 soundness statements) *)
Definition lp_sound (lp : lp_kernel) : Prop :=
  forall minimize max_iter c A b, valid_lp c A b = true ->
    let '(st, x, z) := lp minimize max_iter c A b in
    match st with
    | OPTIMAL => length x = length c /\ lp_optimal minimize c A b x /\ z == dot c x
    | INFEASIBLE => lp_infeasible A b
    | UNBOUNDED => lp_unbounded minimize c A b
    | MAX_ITER => True
    end.

(* the LNS pass only returns points that pass the code's _is_feasible (and have the right length) *)
Definition lns_ok (lns : list Q -> option (list Q)) (eps : Q) (c : list Q) (A : list (list Q)) (b : list Q)
           (ints : list nat) : Prop :=
  forall s x, lns s = Some x -> length x = length c /\ is_feasible eps x A b ints = true.

(* ---------- boolean conditions on inputs under which the theorems are stated *)
(* the `_detect_binary` tightening is justified: explicit rows x_j <= 1 bound the integer variables of every
   integer-feasible point *)
Definition binary_justified (eps : Q) (c : list Q) (A : list (list Q)) (b : list Q) (ints : list nat) : Prop :=
  detect_binary eps A b ints (length c) = true ->
  forall y, int_feasible c A b ints y -> forall j, In j ints -> nth j y 0 <= 1.

(* boolean input condition: every entry of A is 0 or larger than eps in absolute value *)
Definition tiny_free (eps : Q) (A : list (list Q)) : bool :=
  forallb (forallb (fun a => Qeq_bool a 0 || Qltb eps (Qabs a))) A.

(* boolean conditions on the input:  0 <= eps <= 1/4;  dimensions as check_matrix_dims / check_integers_valid demand,
   integer indices sorted;  no non-zero coefficient of absolute value <= eps *)
Definition milp_input_ok (eps : Q) (c : list Q) (A : list (list Q)) (b : list Q) (ints : list nat) : bool :=
  Qleb 0 eps && Qleb eps (1 # 4) && valid_milp c A b ints && tiny_free eps A.

(* ---------- boolean checker of the conclusion of C04_feasible, usable on the implementation's outputs *)
Definition point_check (eps : Q) (c : list Q) (A : list (list Q)) (b : list Q) (ints : list nat) (x : list Q) : bool :=
  Nat.eqb (length x) (length c) && Nat.eqb (length A) (length b) && is_feasible eps x A b ints.

Definition spec_check (eps : Q) (c : list Q) (A : list (list Q)) (b : list Q) (ints : list nat)
           (tol : Q) (r : milp_result) : bool :=
  match m_solution r, m_objective r with
  | Some x, Fin o => point_check eps c A b ints x && Qleb (Qabs (o - dot c x)) tol
  | Some _, _ => false
  | None, _ => true
  end
  && match m_solutions r with Some ss => forallb (point_check eps c A b ints) ss | None => true end.

(* ---------- comparison helpers *)
Lemma Qltb_true : forall a b, Qltb a b = true <-> a < b.
Proof.
  intros a b. unfold Qltb. rewrite negb_true_iff. split; intro H.
  - apply Qnot_le_lt. intro L. apply Qle_bool_iff in L. congruence.
  - destruct (Qle_bool b a) eqn:E; [|reflexivity]. apply Qle_bool_iff in E. exfalso. exact (Qlt_not_le _ _ H E).
Qed.
Lemma Qltb_false : forall a b, Qltb a b = false <-> b <= a.
Proof.
  intros a b. unfold Qltb. rewrite negb_false_iff. apply Qle_bool_iff.
Qed.
Lemma Qleb_true : forall a b, Qleb a b = true <-> a <= b.
Proof. intros. unfold Qleb. apply Qle_bool_iff. Qed.
Lemma Qleb_false : forall a b, Qleb a b = false <-> b < a.
Proof.
  intros a b. unfold Qleb. split; intro H.
  - apply Qnot_le_lt. intro L. apply Qle_bool_iff in L. congruence.
  - destruct (Qle_bool a b) eqn:E; [|reflexivity]. apply Qle_bool_iff in E. exfalso. exact (Qlt_not_le _ _ H E).
Qed.

(* rows as pairs: `for i, row in enumerate(A): ... b[i]` *)
Definition rows_le (slack : Q) (R : list (list Q * Q)) (x : list Q) : Prop :=
  Forall (fun rb => dot (fst rb) x <= snd rb + slack) R.

Lemma Forall2_mv_combine : forall (P : Q -> Q -> Prop) A b x, length A = length b ->
  (Forall2 P (mv A x) b <-> Forall (fun rb => P (dot (fst rb) x) (snd rb)) (combine A b)).
Proof.
  intros P A. induction A as [|r A IH]; intros b x L; destruct b as [|bi b]; simpl in *; try discriminate.
  - split; constructor.
  - injection L as L. split; intro H; inversion H; subst; constructor; auto; apply (IH b x L); assumption.
Qed.

Lemma is_feasible_spec : forall eps x A b ints, length A = length b ->
  is_feasible eps x A b ints = true ->
  feasible_tol eps A b x /\ forall j, In j ints -> frac_dist (nth j x 0) <= eps.
Proof.
  intros eps x A b ints L H. unfold is_feasible in H.
  apply andb_true_iff in H. destruct H as [H H3]. apply andb_true_iff in H. destruct H as [H1 H2].
  split; [split|].
  - apply Forall_forall. intros v Hv. rewrite forallb_forall in H1. specialize (H1 v Hv).
    rewrite negb_true_iff in H1. apply Qltb_false in H1. exact H1.
  - apply (Forall2_mv_combine (fun l r => l <= r + eps)); [exact L|].
    apply Forall_forall. intros rb Hrb. rewrite negb_true_iff in H3.
    destruct (Qlt_le_dec (snd rb + eps) (dot (fst rb) x)) as [Hlt|Hle]; [|exact Hle].
    exfalso. assert (E : existsb (row_violated eps x) (combine A b) = true).
    { apply existsb_exists. exists rb. split; [exact Hrb|]. unfold row_violated. apply Qltb_true. exact Hlt. }
    congruence.
  - intros j Hj. rewrite forallb_forall in H2. specialize (H2 j Hj).
    rewrite negb_true_iff in H2. apply Qltb_false in H2. exact H2.
Qed.

Lemma frac_near_int : forall eps q, frac_dist q <= eps -> near_int eps q.
Proof. intros eps q H. exists (pyround q). exact H. Qed.

Lemma point_check_sound : forall eps c A b ints x,
  point_check eps c A b ints x = true -> point_ok eps c A b ints x.
Proof.
  intros eps c A b ints x H. unfold point_check in H.
  apply andb_true_iff in H. destruct H as [H H3]. apply andb_true_iff in H. destruct H as [H1 H2].
  apply Nat.eqb_eq in H1. apply Nat.eqb_eq in H2.
  destruct (is_feasible_spec eps x A b ints H2 H3) as [F I].
  split; [exact H1|]. split; [exact F|]. intros j Hj. apply frac_near_int. apply I. exact Hj.
Qed.

(* spec_check judges a Result: its solution and every entry of `solutions` are point_ok and the objective is within tol of c.x *)
Definition Spec (eps : Q) (c : list Q) (A : list (list Q)) (b : list Q) (ints : list nat) (tol : Q) (r : milp_result) : Prop :=
  (forall x, m_solution r = Some x ->
     point_ok eps c A b ints x /\ exists o, m_objective r = Fin o /\ Qabs (o - dot c x) <= tol)
  /\ (forall ss x, m_solutions r = Some ss -> In x ss -> point_ok eps c A b ints x).

Lemma spec_check_sound : forall eps c A b ints tol r,
  spec_check eps c A b ints tol r = true -> Spec eps c A b ints tol r.
Proof.
  intros eps c A b ints tol r H. unfold spec_check in H. apply andb_true_iff in H. destruct H as [H1 H2]. split.
  - intros x Hx. rewrite Hx in H1. destruct (m_objective r) as [o| |]; try discriminate.
    apply andb_true_iff in H1. destruct H1 as [P O]. split; [apply point_check_sound; exact P|].
    exists o. split; [reflexivity|]. apply Qleb_true. exact O.
  - intros ss x Hs Hx. rewrite Hs in H2. rewrite forallb_forall in H2. apply point_check_sound. apply H2. exact Hx.
Qed.
