(* The C04 property theorems, derived from solve_milp_ok (MilpMainProofs) and detect_binary_sound (MilpBinaryProofs). *)
From Coq Require Import List QArith Qabs Qround Qminmax Bool Arith ZArith Lia Lqa.
From SV Require Import C03.Simplex C03.LPSpec C04.Milp C04.MilpInst C04.MilpSpec C04.MilpNodeProofs C04.MilpBBProofs
  C04.MilpMainProofs C04.MilpBinaryProofs.
Import ListNotations.
Open Scope Q_scope.

Section Thm.
  Variable lp : lp_kernel.
  Variable lns : list Q -> option (list Q).
  Variable eps gap_tol : Q.
  Variable minimize : bool.
  Variable max_iter max_nodes : nat.
  Variable c : list Q.
  Variable A : list (list Q).
  Variable b : list Q.
  Variable ints : list nat.
  Variable warm_start : option (list Q).
  Variable solution_limit : nat.
  Variable heuristics : bool.
  Variable lns_iterations : nat.
  Variable r : milp_result.
  Hypothesis LP : lp_sound lp.
  Hypothesis LNS : lns_ok lns eps c A b ints.
  Hypothesis OK : milp_input_ok eps c A b ints = true.
  Hypothesis RUN : solve_milp lp lns eps gap_tol minimize max_iter max_nodes c A b ints warm_start solution_limit
                     heuristics lns_iterations = Some r.

  Lemma all_ok : res_ok eps gap_tol minimize c A b ints r.
  Proof.
    unfold milp_input_ok in OK.
    apply andb_true_iff in OK. destruct OK as [H TF]. apply andb_true_iff in H. destruct H as [H V].
    apply andb_true_iff in H. destruct H as [E0 E1]. apply Qleb_true in E0. apply Qleb_true in E1.
    assert (E2 : eps < 1) by lra.
    assert (VL : valid_lp c A b = true).
    { unfold valid_milp in V. apply andb_true_iff in V. destruct V as [V _]. apply andb_true_iff in V. exact (proj1 V). }
    exact (solve_milp_ok lp LP lns eps gap_tol minimize max_iter max_nodes c A b ints LNS E0 E2 V
             (detect_binary_sound eps c A b ints E0 E1 VL TF) warm_start solution_limit heuristics lns_iterations r RUN).
  Qed.

  Lemma feasible_thm :
    (forall x, m_solution r = Some x -> exists o, m_objective r = Fin o /\ sol_ok eps c A b ints x o)
    /\ (forall ss x, m_solutions r = Some ss -> In x ss -> point_ok eps c A b ints x).
  Proof. destruct all_ok as [H1 [H2 _]]. split; assumption. Qed.

  Lemma optimal_thm : m_status r = S_OPTIMAL ->
    exists x o, m_solution r = Some x /\ m_objective r = Fin o
      /\ forall y, int_feasible c A b ints y -> sgn minimize * o - opt_slack eps gap_tol o <= sgn minimize * dot c y.
  Proof. destruct all_ok as [_ [_ [H _]]]. exact H. Qed.

  Lemma infeasible_thm : m_status r = S_INFEASIBLE -> forall y, ~ int_feasible c A b ints y.
  Proof. destruct all_ok as [_ [_ [_ [H _]]]]. exact H. Qed.

  Lemma unbounded_thm : m_status r = S_UNBOUNDED -> lp_unbounded minimize c A b.
  Proof. destruct all_ok as [_ [_ [_ [_ H]]]]. exact H. Qed.
End Thm.

(* the trivially sound kernel (always MAX_ITER): lp_sound is satisfiable; the intended instance is simplex_kernel *)
Lemma lp_sound_trivial : lp_sound (fun _ _ _ _ _ => (MAX_ITER, [], 0)).
Proof. intros mi it c A b _. exact I. Qed.

Lemma lns_ok_none : forall eps c A b ints, lns_ok (fun _ => None) eps c A b ints.
Proof. intros eps c A b ints s x H. discriminate. Qed.
