(* The branch-and-bound loop: invariant, one step, the loop, the final status mapping. *)
From Coq Require Import List QArith Qabs Qround Qminmax Bool Arith ZArith Lia Lqa Sorted.
From SV Require Import C03.Simplex C03.LPSpec C04.Milp C04.MilpSpec C04.MilpNodeProofs.
Import ListNotations.
Open Scope Q_scope.

(* ---------- set_nth *)
Lemma set_nth_length : forall X i (v : X) l, length (set_nth i v l) = length l.
Proof. intros X i v l. revert i. induction l as [|x l IH]; intros [|i]; simpl; auto. Qed.

Lemma Forall_set_nth : forall X (P : X -> Prop) i v l, Forall P l -> P v -> Forall P (set_nth i v l).
Proof.
  intros X P i v l. revert i. induction l as [|x l IH]; intros [|i] H Hv; simpl; auto; inversion H; subst; constructor; auto.
Qed.

Lemma Forall2_set_nth_l : forall X Y (P : X -> Y -> Prop) d i v l y,
  Forall2 P l y -> P v (nth i y d) -> Forall2 P (set_nth i v l) y.
Proof.
  intros X Y P d i v l. revert i. induction l as [|x l IH]; intros i y H Hv; inversion H; subst; [destruct i; constructor|].
  destruct i; simpl in *; constructor; auto.
Qed.
Lemma Forall2_set_nth_r : forall X Y (P : X -> Y -> Prop) d i v l y,
  Forall2 P y l -> P (nth i y d) v -> Forall2 P y (set_nth i v l).
Proof.
  intros X Y P d i v l. revert i. induction l as [|x l IH]; intros i y H Hv; inversion H; subst; [destruct i; constructor|].
  destruct i; simpl in *; constructor; auto.
Qed.
(* weakening back: the replaced entry was at least as permissive *)
Lemma Forall2_unset_l : forall X Y (P : X -> Y -> Prop) d i v l y,
  Forall2 P (set_nth i v l) y -> (forall w, P v w -> P (nth i l d) w) -> Forall2 P l y.
Proof.
  intros X Y P d i v l. revert i. induction l as [|x l IH]; intros i y H W; [destruct i; simpl in H; exact H|].
  destruct i; simpl in *; inversion H; subst; constructor; eauto.
Qed.
Lemma Forall2_unset_r : forall X Y (P : X -> Y -> Prop) d i v l y,
  Forall2 P y (set_nth i v l) -> (forall w, P w v -> P w (nth i l d)) -> Forall2 P y l.
Proof.
  intros X Y P d i v l. revert i. induction l as [|x l IH]; intros i y H W; [destruct i; simpl in H; exact H|].
  destruct i; simpl in *; inversion H; subst; constructor; eauto.
Qed.
Lemma Forall2_nth : forall X Y (P : X -> Y -> Prop) d1 d2 l y i,
  Forall2 P l y -> (i < length l)%nat -> P (nth i l d1) (nth i y d2).
Proof.
  intros X Y P d1 d2 l y i H. revert i. induction H; intros i L; simpl in L; [lia|]. destruct i; simpl; [assumption|apply IHForall2; lia].
Qed.

(* ---------- _most_fractional *)
Lemma mf_fold_some : forall eps sol ints j f, exists j' f', fold_left (mf_step eps sol) ints (Some j, f) = (Some j', f').
Proof.
  intros eps sol ints. induction ints as [|i ints IH]; intros j f; simpl; [eauto|].
  unfold mf_step at 2. simpl. destruct (Qltb eps (frac_dist (nth i sol 0)) && Qltb f (frac_dist (nth i sol 0))); apply IH.
Qed.

Lemma mf_none : forall eps sol ints, 0 <= eps ->
  most_fractional eps sol ints = None -> forall j, In j ints -> frac_dist (nth j sol 0) <= eps.
Proof.
  intros eps sol ints E. unfold most_fractional.
  assert (G : forall l, fst (fold_left (mf_step eps sol) l (None, 0)) = None ->
                        forall j, In j l -> frac_dist (nth j sol 0) <= eps).
  { induction l as [|i l IH]; intros H j Hj; [inversion Hj|]. simpl in H. unfold mf_step at 2 in H. simpl in H.
    destruct (Qltb eps (frac_dist (nth i sol 0))) eqn:G1.
    - apply Qltb_true in G1. assert (G2 : Qltb 0 (frac_dist (nth i sol 0)) = true) by (apply Qltb_true; lra).
      rewrite G2 in H. simpl in H. destruct (mf_fold_some eps sol l i (frac_dist (nth i sol 0))) as [j' [f' Q]].
      rewrite Q in H. discriminate.
    - simpl in H. apply Qltb_false in G1. destruct Hj as [Hj|Hj]; [subst; exact G1|apply IH; assumption]. }
  exact (G ints).
Qed.

Lemma mf_some : forall eps sol ints j, most_fractional eps sol ints = Some j -> In j ints.
Proof.
  intros eps sol ints j. unfold most_fractional.
  assert (G : forall l st, fst (fold_left (mf_step eps sol) l st) = Some j -> fst st = Some j \/ In j l).
  { induction l as [|i l IH]; intros st H; simpl in *; [left; exact H|].
    destruct (IH _ H) as [Q|Q]; [|right; right; exact Q].
    unfold mf_step in Q. destruct (Qltb eps (frac_dist (nth i sol 0)) && Qltb (snd st) (frac_dist (nth i sol 0))).
    - simpl in Q. injection Q as Q. right; left; exact Q.
    - left; exact Q. }
  intro H. destruct (G ints _ H) as [Q|Q]; [discriminate|exact Q].
Qed.

(* ---------- the heap *)
Definition kle (k1 k2 : hkey) : Prop := fst (fst k1) <= fst (fst k2).

Lemma heap_push_in : forall k t x, In x (heap_push k t) <-> x = k \/ In x t.
Proof.
  intros k t x. induction t as [|h t IH]; simpl; [intuition|].
  destruct (Qleb (fst (fst h)) (fst (fst k))); simpl; rewrite ?IH; intuition.
Qed.

Lemma heap_push_sorted : forall k t, StronglySorted kle t -> StronglySorted kle (heap_push k t).
Proof.
  intros k t. induction t as [|h t IH]; intros S; simpl; [repeat constructor|].
  inversion S as [|h' t' S' F]; subst.
  destruct (Qleb (fst (fst h)) (fst (fst k))) eqn:E.
  - apply Qleb_true in E. constructor; [apply IH; exact S'|].
    apply Forall_forall. intros x Hx. apply heap_push_in in Hx. destruct Hx as [Hx|Hx]; [subst; exact E|].
    rewrite Forall_forall in F. apply F. exact Hx.
  - apply Qleb_false in E. constructor; [exact S|]. constructor; [unfold kle; lra|].
    rewrite Forall_forall in *. intros x Hx. specialize (F x Hx). unfold kle in *. lra.
Qed.

(* ---------- gap *)
Lemma gap_bound : forall minimize obj nb gap_tol,
  compute_gap obj (sgn minimize * nb) < gap_tol -> sgn minimize * obj - gap_tol * Qmax 1 (Qabs obj) <= nb.
Proof.
  intros mi obj nb g H. unfold compute_gap in H.
  assert (D : sgn mi * obj - nb <= Qabs (obj - sgn mi * nb)).
  { destruct mi; unfold sgn.
    - eapply Qle_trans; [|apply Qle_Qabs]. lra.
    - rewrite <- Qabs_opp. eapply Qle_trans; [|apply Qle_Qabs]. lra. }
  pose proof (Qabs_nonneg (obj - sgn mi * nb)) as N0.
  pose proof (Q.le_max_l 1 (Qabs obj)) as M1. pose proof (Q.le_max_r 1 (Qabs obj)) as M2.
  destruct (Qltb (Qabs obj) (1 # 10000000000)) eqn:E.
  - assert (0 < g) by lra. assert (g * 1 <= g * Qmax 1 (Qabs obj)) by (apply Qmult_le_l; assumption). lra.
  - apply Qltb_false in E. assert (P : 0 < Qabs obj) by (eapply Qlt_le_trans; [|exact E]; reflexivity).
    assert (K : Qabs (obj - sgn mi * nb) < g * Qabs obj).
    { assert (Q1 : Qabs (obj - sgn mi * nb) == Qabs (obj - sgn mi * nb) / Qabs obj * Qabs obj)
        by (field; intro Z; rewrite Z in P; apply (Qlt_irrefl 0); exact P).
      rewrite Q1. apply Qmult_lt_compat_r; assumption. }
    assert (0 < g).
    { apply Qnot_le_lt. intro G. assert (g * Qabs obj <= 0 * Qabs obj) by (apply Qmult_le_compat_r; lra). lra. }
    assert (g * Qabs obj <= g * Qmax 1 (Qabs obj)) by (apply Qmult_le_l; assumption). lra.
Qed.

(* ---------- the loop *)
Section BB.
  Variable lp : lp_kernel.
  Hypothesis LP : lp_sound lp.
  Variable eps gap_tol : Q.
  Variable minimize : bool.
  Variable max_iter max_nodes : nat.
  Variable c : list Q.
  Variable A : list (list Q).
  Variable b : list Q.
  Variable ints : list nat.
  Variable solution_limit : nat.
  Hypothesis Heps0 : 0 <= eps.
  Hypothesis Heps1 : eps < 1.
  Hypothesis Hvalid : valid_lp c A b = true.
  Hypothesis Hints : forall j, In j ints -> (j < length c)%nat.
  (* every feasible point of the relaxation is at least as expensive as the root bound (root LP was OPTIMAL) *)
  Variable root_bound : Q.
  Hypothesis Hroot : forall y, length y = length c -> feasible A b y -> root_bound <= sgn minimize * dot c y.

  Notation sgm := (sgn minimize).
  Notation IF := (int_feasible c A b ints).
  Notation step := (bb_step lp eps gap_tol minimize max_iter c A b ints solution_limit).
  Notation loop := (bb_loop lp eps gap_tol minimize max_iter max_nodes c A b ints solution_limit).

  Definition node_ok (k : hkey) : Prop :=
    node_pre c (nd_lower (snd k)) (nd_upper (snd k))
    /\ forall y, IF y -> in_box (nd_lower (snd k)) (nd_upper (snd k)) y -> fst (fst k) <= sgm * dot c y.

  Definition best_ok (best : option (list Q * Q)) : Prop :=
    match best with Some (bs, bo) => sol_ok eps c A b ints bs bo | None => True end.

  Definition by_best (best : option (list Q * Q)) (y : list Q) : Prop :=
    exists bs bo, best = Some (bs, bo) /\ sgm * bo - eps <= sgm * dot c y.
  Definition in_tree (t : list hkey) (y : list Q) : Prop :=
    exists k, In k t /\ in_box (nd_lower (snd k)) (nd_upper (snd k)) y.

  Record Inv (st : bstate) : Prop := mkInv {
    inv_nodes : Forall node_ok (s_tree st);
    inv_sorted : StronglySorted kle (s_tree st);
    inv_best : best_ok (s_best st);
    inv_all : Forall (point_ok eps c A b ints) (s_all st);
    inv_cover : s_hit st = false -> forall y, IF y -> in_tree (s_tree st) y \/ by_best (s_best st) y
  }.

  (* what is guaranteed of a Result *)
  Definition res_ok (r : milp_result) : Prop :=
    (forall x, m_solution r = Some x -> exists o, m_objective r = Fin o /\ sol_ok eps c A b ints x o)
    /\ (forall ss x, m_solutions r = Some ss -> In x ss -> point_ok eps c A b ints x)
    /\ (m_status r = S_OPTIMAL ->
        exists x o, m_solution r = Some x /\ m_objective r = Fin o
                    /\ forall y, IF y -> sgm * o - opt_slack eps gap_tol o <= sgm * dot c y)
    /\ (m_status r = S_INFEASIBLE -> forall y, ~ IF y)
    /\ (m_status r = S_UNBOUNDED -> lp_unbounded minimize c A b).

  Lemma slack_eps : forall o, eps <= opt_slack eps gap_tol o.
  Proof. intros. unfold opt_slack. apply Q.le_max_l. Qed.
  Lemma slack_gap : forall o, gap_tol * Qmax 1 (Qabs o) <= opt_slack eps gap_tol o.
  Proof. intros. unfold opt_slack. apply Q.le_max_r. Qed.

  (* a point produced by a node LP with no fractional integer variable *)
  Lemma lp_point_ok : forall sol,
    length sol = length c -> nonneg sol -> rows_le eps (combine A b) sol ->
    most_fractional eps sol ints = None -> point_ok eps c A b ints sol.
  Proof.
    intros sol L N R M. split; [exact L|]. split; [split|].
    - apply Forall_forall. intros v Hv. unfold nonneg in N. rewrite Forall_forall in N. specialize (N v Hv). lra.
    - destruct (valid_parts c A b Hvalid) as [_ [LA _]].
      apply (Forall2_mv_combine (fun l r => l <= r + eps)); [exact LA|]. exact R.
    - intros j Hj. apply frac_near_int. apply (mf_none eps sol ints Heps0 M j Hj).
  Qed.

  Lemma int_split : forall q v, is_int q -> q <= inject_Z (Qfloor v) \/ inject_Z (Qceiling v) <= q.
  Proof.
    intros q v [z Hz]. destruct (Z_le_gt_dec z (Qfloor v)) as [H|H].
    - left. rewrite Hz. rewrite <- Zle_Qle. exact H.
    - right. rewrite Hz. rewrite <- Zle_Qle. unfold Qceiling.
      assert (v < inject_Z z). { eapply Qlt_le_trans; [apply Qlt_floor|]. rewrite <- Zle_Qle. lia. }
      assert (inject_Z (- z) < - v) by (rewrite inject_Z_opp; lra).
      assert (- z <= Qfloor (- v))%Z.
      { apply Zlt_succ_le. rewrite Zlt_Qlt. eapply Qlt_trans; [exact H1|]. rewrite <- Z.add_1_r. apply Qlt_floor. }
      lia.
  Qed.

  (* state after heappop *)
  Record Popped (nb : Q) (nd : node) (st : bstate) : Prop := mkPop {
    pop_node : node_ok (nb, O, nd);
    pop_min : Forall (fun k => nb <= fst (fst k)) (s_tree st);
    pop_nodes : Forall node_ok (s_tree st);
    pop_sorted : StronglySorted kle (s_tree st);
    pop_best : best_ok (s_best st);
    pop_all : Forall (point_ok eps c A b ints) (s_all st);
    pop_cover : s_hit st = false -> forall y, IF y ->
      in_box (nd_lower nd) (nd_upper nd) y \/ in_tree (s_tree st) y \/ by_best (s_best st) y
  }.

  Lemma IF_parts : forall y, IF y -> length y = length c /\ feasible A b y.
  Proof. intros y [L [F _]]. split; assumption. Qed.

  Lemma prune_by_best : forall best v y, prune eps minimize best v = true -> v <= sgm * dot c y -> by_best best y.
  Proof.
    intros best v y P H. unfold prune in P. destruct best as [[bs bo]|]; [|discriminate].
    apply Qleb_true in P. exists bs, bo. split; [reflexivity|]. unfold Milp.sg in P. lra.
  Qed.

  Lemma step_ok : forall nb nd st, Popped nb nd st ->
    match step nb nd st with inl st' => Inv st' | inr r => res_ok r end.
  Proof.
    intros nb nd st [PN PM PNS PS PB PA PC]. unfold bb_step, Milp.sg.
    destruct PN as [NP NB]. simpl in NP, NB.
    destruct (prune eps minimize (s_best st) nb) eqn:P1.
    { (* first prune test *)
      constructor; try assumption. intros Hh y Hy. destruct (PC Hh y Hy) as [H|[H|H]]; auto.
      right. apply (prune_by_best _ nb); [exact P1|]. apply NB; assumption. }
    pose proof (solve_node_optimal lp LP eps minimize max_iter c A b Heps0 Heps1 Hvalid _ _ NP) as SO.
    pose proof (solve_node_infeasible lp LP eps minimize max_iter c A b Heps0 Heps1 Hvalid _ _ NP) as SI.
    pose proof (solve_node_unbounded lp LP eps minimize max_iter c A b Hvalid _ _ NP) as SU.
    set (r := solve_node lp eps minimize max_iter c A b (nd_lower nd) (nd_upper nd)) in *.
    destruct (n_status r) eqn:St; cbv beta iota.
    - (* OPTIMAL *)
      destruct (SO St) as [SL [SN [SR [SOb [SB SOpt]]]]].
      assert (Bnd : forall y, IF y -> in_box (nd_lower nd) (nd_upper nd) y -> sgm * n_obj r <= sgm * dot c y).
      { intros y Hy B. destruct (IF_parts y Hy). apply SOpt; assumption. }
      destruct (prune eps minimize (s_best st) (sgm * n_obj r)) eqn:P2.
      { constructor; simpl; try assumption. intros Hh y Hy. destruct (PC Hh y Hy) as [H|[H|H]]; auto.
        right. apply (prune_by_best _ (sgm * n_obj r)); [exact P2|]. apply Bnd; assumption. }
      destruct (most_fractional eps (n_sol r) ints) as [fv|] eqn:MF.
      + (* branch *)
        pose proof (mf_some _ _ _ _ MF) as Hfv. pose proof (Hints fv Hfv) as Lfv.
        destruct NP as [Ll [Lu [[BL BU] LN]]].
        set (val := nth fv (n_sol r) 0).
        assert (V0 : 0 <= val).
        { unfold val. unfold nonneg in SN. rewrite Forall_forall in SN. apply SN. apply nth_In. rewrite SL. exact Lfv. }
        destruct SB as [SB1 SB2].
        assert (Vlo : nth fv (nd_lower nd) 0 <= val).
        { unfold val. apply (Forall2_nth _ _ Qle 0 0 _ _ fv SB1). rewrite Ll. exact Lfv. }
        assert (Vhi : ub_le val (nth fv (nd_upper nd) None)).
        { unfold val. apply (Forall2_nth _ _ ub_le 0 None _ _ fv SB2). rewrite SL. exact Lfv. }
        set (cb := Qred (sgm * n_obj r)).
        set (left := mkNode cb (nd_lower nd) (set_nth fv (Some (inject_Z (Qfloor val))) (nd_upper nd)) (S (nd_depth nd))).
        set (right := mkNode cb (set_nth fv (inject_Z (Qceiling val)) (nd_lower nd)) (nd_upper nd) (S (nd_depth nd))).
        assert (OKL : forall cnt, node_ok (cb, cnt, left)).
        { intros cnt. split; simpl.
          - split; [exact Ll|]. split; [rewrite set_nth_length; exact Lu|]. split; [|exact LN].
            split; [exact BL|]. apply Forall_set_nth; [exact BU|]. simpl. exists (Qfloor val). reflexivity.
          - intros y Hy [B1 B2]. unfold cb. rewrite Qred_correct. apply Bnd; [exact Hy|]. split; [exact B1|].
            apply (Forall2_unset_r _ _ ub_le None fv _ _ _ B2). intros w Hw. simpl in Hw.
            destruct (nth fv (nd_upper nd) None) as [h|]; simpl in *; [|exact I].
            pose proof (Qfloor_le val). lra. }
        assert (OKR : forall cnt, node_ok (cb, cnt, right)).
        { intros cnt. split; simpl.
          - split; [rewrite set_nth_length; exact Ll|]. split; [exact Lu|]. split.
            + split; [|exact BU]. apply Forall_set_nth; [exact BL|]. exists (Qceiling val). reflexivity.
            + apply Forall_set_nth; [exact LN|]. pose proof (Qle_ceiling val). lra.
          - intros y Hy [B1 B2]. unfold cb. rewrite Qred_correct. apply Bnd; [exact Hy|]. split; [|exact B2].
            apply (Forall2_unset_l _ _ Qle 0 fv _ _ _ B1). intros w Hw.
            pose proof (Qle_ceiling val). lra. }
        constructor; simpl.
        * apply Forall_forall. intros k Hk. apply heap_push_in in Hk. destruct Hk as [Hk|Hk]; [subst; apply OKR|].
          apply heap_push_in in Hk. destruct Hk as [Hk|Hk]; [subst; apply OKL|].
          rewrite Forall_forall in PNS. apply PNS. exact Hk.
        * apply heap_push_sorted. apply heap_push_sorted. exact PS.
        * exact PB.
        * exact PA.
        * intros Hh y Hy. destruct (PC Hh y Hy) as [[B1 B2]|[[k [Hk Bk]]|H]]; [| |right; exact H].
          -- left. destruct Hy as [Ly [Fy Iy]]. destruct (int_split (nth fv y 0) val (Iy fv Hfv)) as [Q|Q].
             ++ exists (cb, s_counter st, left). split; [apply heap_push_in; right; apply heap_push_in; left; reflexivity|].
                simpl. split; [exact B1|]. apply (Forall2_set_nth_r _ _ ub_le 0); [exact B2|exact Q].
             ++ exists (cb, S (s_counter st), right). split; [apply heap_push_in; left; reflexivity|].
                simpl. split; [|exact B2]. apply (Forall2_set_nth_l _ _ Qle 0); [exact B1|exact Q].
          -- left. exists k. split; [|exact Bk]. apply heap_push_in; right; apply heap_push_in; right; exact Hk.
      + (* integral LP solution *)
        pose proof (lp_point_ok (n_sol r) SL SN SR MF) as PO.
        assert (SOK : sol_ok eps c A b ints (n_sol r) (n_obj r)) by (split; assumption).
        set (collect := Nat.ltb 1 solution_limit && negb (mem_sol (n_sol r) (s_all st))).
        set (all' := if collect then s_all st ++ [n_sol r] else s_all st).
        assert (PA' : Forall (point_ok eps c A b ints) all').
        { unfold all'. destruct collect; [|exact PA]. apply Forall_app. split; [exact PA|]. constructor; [exact PO|constructor]. }
        destruct (collect && Nat.leb solution_limit (length all')) eqn:EX.
        { (* solution_limit reached *)
          destruct (best_or (s_best st) (n_sol r) (n_obj r)) as [bs bo] eqn:BO.
          assert (BOK : sol_ok eps c A b ints bs bo).
          { unfold best_or in BO. destruct (s_best st) as [[[|x xs] o]|]; simpl in PB; injection BO as B1 B2; subst; assumption. }
          split; [|split; [|split; [|split]]]; simpl; try discriminate.
          - intros x Hx. injection Hx as Hx. subst x. exists bo. split; [reflexivity|exact BOK].
          - intros ss x Hs Hx. injection Hs as Hs. subst ss. rewrite Forall_forall in PA'. apply PA'. exact Hx. }
        destruct (improves minimize (s_best st) (n_obj r)) eqn:IM.
        * assert (CovNew : s_hit st = false -> forall y, IF y -> forall sl, eps <= sl ->
                    (forall k, In k (s_tree st) -> in_box (nd_lower (snd k)) (nd_upper (snd k)) y -> sgm * n_obj r - sl <= sgm * dot c y) ->
                    sgm * n_obj r - sl <= sgm * dot c y).
          { intros Hh y Hy sl Hsl HT. destruct (PC Hh y Hy) as [B|[[k [Hk Bk]]|[bs [bo [E H]]]]].
            - pose proof (Bnd y Hy B). lra.
            - apply (HT k Hk Bk).
            - unfold improves in IM. rewrite E in IM. apply Qltb_true in IM. unfold Milp.sg in *. lra. }
          destruct (Qltb (compute_gap (n_obj r) (sgm * nb)) gap_tol && Nat.eqb solution_limit 1 && negb (s_hit st)) eqn:GP.
          { (* early exit on the gap *)
            apply andb_true_iff in GP. destruct GP as [GP G3]. apply andb_true_iff in GP. destruct GP as [G1 G2].
            apply negb_true_iff in G3. apply Qltb_true in G1.
            split; [|split; [|split; [|split]]]; simpl; try discriminate.
            - intros x Hx. injection Hx as Hx. subst x. exists (n_obj r). split; [reflexivity|exact SOK].
            - intros _. exists (n_sol r), (n_obj r). split; [reflexivity|]. split; [reflexivity|].
              intros y Hy. apply (CovNew G3 y Hy); [apply slack_eps|].
              intros k Hk Bk. rewrite Forall_forall in PM, PNS. pose proof (PM k Hk) as M1.
              destruct (PNS k Hk) as [_ KB]. pose proof (KB y Hy Bk) as M2.
              pose proof (gap_bound minimize (n_obj r) nb gap_tol G1) as M3.
              pose proof (slack_gap (n_obj r)) as M4. lra. }
          constructor; simpl; try assumption.
          intros Hh y Hy. destruct (PC Hh y Hy) as [B|[H|[bs [bo [E H]]]]].
          -- right. exists (n_sol r), (n_obj r). split; [reflexivity|]. pose proof (Bnd y Hy B). lra.
          -- left. exact H.
          -- right. exists (n_sol r), (n_obj r). split; [reflexivity|].
             unfold improves in IM. rewrite E in IM. apply Qltb_true in IM. unfold Milp.sg in *. lra.
        * constructor; simpl; try assumption.
          intros Hh y Hy. destruct (PC Hh y Hy) as [B|[H|H]]; auto.
          right. unfold improves in IM. destruct (s_best st) as [[bs bo]|]; [|discriminate].
          apply Qltb_false in IM. exists bs, bo. split; [reflexivity|]. pose proof (Bnd y Hy B). unfold Milp.sg in *. lra.
    - (* INFEASIBLE *)
      constructor; simpl; try assumption. rewrite orb_false_r.
      intros Hh y Hy. destruct (PC Hh y Hy) as [B|[H|H]]; auto.
      exfalso. destruct (IF_parts y Hy). apply (SI eq_refl y); assumption.
    - (* UNBOUNDED: impossible below a bounded root *)
      exfalso. destruct (SU eq_refl root_bound) as [y [Ly [Fy Hy]]]. pose proof (Hroot y Ly Fy). lra.
    - (* MAX_ITER *)
      constructor; simpl; try assumption. rewrite orb_true_r. discriminate.
  Qed.
  Lemma finish_ok : forall st, Inv st -> res_ok (bb_finish minimize solution_limit st).
  Proof.
    intros st [IN IS IB IA IC]. unfold bb_finish. destruct (s_best st) as [[bs bo]|] eqn:EB.
    - split; [|split; [|split; [|split]]]; simpl.
      + intros x Hx. injection Hx as Hx. subst x. exists bo. split; [reflexivity|exact IB].
      + intros ss x Hs Hx. destruct (s_all st) eqn:EA; [discriminate|]. destruct (Nat.ltb 1 solution_limit); [|discriminate].
        injection Hs as Hs. subst ss. rewrite Forall_forall in IA. apply IA. exact Hx.
      + intros Hst. exists bs, bo. split; [reflexivity|]. split; [reflexivity|].
        destruct (s_tree st) eqn:ET; [|discriminate]. destruct (s_hit st) eqn:EH; [discriminate|].
        intros y Hy. destruct (IC eq_refl y Hy) as [[k [[] _]]|[bs' [bo' [E H]]]].
        injection E as E1 E2. subst. pose proof (slack_eps bo'). lra.
      + intros Hst. destruct (s_tree st); [destruct (s_hit st)|]; discriminate.
      + intros Hst. destruct (s_tree st); [destruct (s_hit st)|]; discriminate.
    - split; [|split; [|split; [|split]]]; simpl; try discriminate.
      + intros Hst. destruct (s_hit st || _); discriminate.
      + intros Hst. destruct (s_hit st) eqn:EH; [simpl in Hst; discriminate|].
        destruct (s_tree st) eqn:ET; [|simpl in Hst; discriminate].
        intros y Hy. destruct (IC eq_refl y Hy) as [[k [[] _]]|[bs' [bo' [E H]]]]. discriminate.
      + intros Hst. destruct (s_hit st || _); discriminate.
  Qed.

  Lemma loop_ok : forall fuel st r, Inv st -> loop fuel st = Some r -> res_ok r.
  Proof.
    induction fuel as [|f IH]; intros st r I H; simpl in H; [discriminate|].
    destruct (s_tree st) as [|[[nb cnt] nd] rest] eqn:ET.
    - injection H as H. subst r. apply finish_ok. exact I.
    - destruct (Nat.leb max_nodes (s_nodes st)).
      + injection H as H. subst r. apply finish_ok. exact I.
      + destruct I as [IN IS IB IA IC]. rewrite ET in *.
        inversion IN as [|k t NK NT]; subst. inversion IS as [|k t SS SF]; subst.
        assert (PP : Popped nb nd (mkS rest (s_counter st) (s_nodes st) (s_best st) (s_all st) (s_hit st))).
        { constructor; simpl; try assumption.
          intros Hh y Hy. destruct (IC Hh y Hy) as [[k [[Hk|Hk] Bk]]|Hb].
          - subst k. left. exact Bk.
          - right. left. exists k. split; assumption.
          - right. right. exact Hb. }
        pose proof (step_ok nb nd _ PP) as SO.
        destruct (step nb nd (mkS rest (s_counter st) (s_nodes st) (s_best st) (s_all st) (s_hit st))) as [st'|r'].
        * apply (IH st' r SO H).
        * injection H as H. subst r'. exact SO.
  Qed.
End BB.
