(* The B&B model instantiated with the C03 simplex model as LP kernel, and the observables / boolean comparison
   used by the generated correspondence files (coq/Cases/C04/*.v).  Definitions only. *)
From Coq Require Import List QArith Qabs Bool Arith ZArith.
From SV Require Import C03.Simplex C03.LPSpec C04.Milp.
Import ListNotations.
Open Scope Q_scope.

(* _solve_node calls solve_lp(c_red, A_red, b_red, minimize=minimize, eps=eps, max_iter=max_iter) *)
Definition simplex_kernel (eps : Q) : lp_kernel :=
  fun minimize max_iter c A b =>
    let r := solve_lp eps minimize max_iter c A b in (r_status r, r_solution r, r_objective r).

(* one run of solve_milp: the call, what _lns_improve returned in that run (None: it was not called), and the
   Result that came back *)
Record milp_case := mkK {
  k_c : list Q;
  k_A : list (list Q);
  k_b : list Q;
  k_ints : list nat;
  k_min : bool;
  k_eps : Q;
  k_gap : Q;
  k_iter : option nat;             (* None = default 10 000 *)
  k_nodes : option nat;            (* None = default 100 000 *)
  k_warm : option (list Q);
  k_limit : nat;
  k_heur : bool;
  k_lns : nat;
  k_lns_answer : option (list Q);
  (* observed *)
  o_status : mstatus;
  o_solution : option (list Q);
  o_objective : qext;
  o_nodes : option nat;            (* compared when Some *)
  o_solutions : option (list (list Q))
}.

Definition run_case (k : milp_case) : option milp_result :=
  solve_milp (simplex_kernel (k_eps k)) (fun _ => k_lns_answer k) (k_eps k) (k_gap k) (k_min k)
    (match k_iter k with None => milp_max_iter_default | Some i => i end)
    (match k_nodes k with None => milp_max_nodes_default | Some i => i end)
    (k_c k) (k_A k) (k_b k) (k_ints k) (k_warm k) (k_limit k) (k_heur k) (k_lns k).

Definition mstatus_eqb (a b : mstatus) : bool :=
  match a, b with
  | S_OPTIMAL, S_OPTIMAL | S_FEASIBLE, S_FEASIBLE | S_INFEASIBLE, S_INFEASIBLE
  | S_UNBOUNDED, S_UNBOUNDED | S_MAX_ITER, S_MAX_ITER => true
  | _, _ => false
  end.

(* |a - b| <= tol * (1 + |a|) *)
Definition closeq (tol a b : Q) : bool := Qleb (Qabs (a - b)) (tol * (1 + Qabs a)).

Fixpoint all2 {X} (f : X -> X -> bool) (a b : list X) : bool :=
  match a, b with
  | [], [] => true
  | x :: a', y :: b' => f x y && all2 f a' b'
  | _, _ => false
  end.

Definition opt2 {X} (f : X -> X -> bool) (a b : option X) : bool :=
  match a, b with
  | None, None => true
  | Some x, Some y => f x y
  | _, _ => false
  end.

Definition qext_close (tol : Q) (a b : qext) : bool :=
  match a, b with
  | Fin x, Fin y => closeq tol x y
  | PInf, PInf | NInf, NInf => true
  | _, _ => false
  end.

Definition tol7 : Q := 1 # 10000000.

(* model against implementation: status, solution, objective, `solutions` (in order), node count when given *)
Definition corr_check (k : milp_case) : bool :=
  match run_case k with
  | None => false
  | Some r =>
      mstatus_eqb (m_status r) (o_status k)
      && opt2 (all2 (closeq tol7)) (m_solution r) (o_solution k)
      && qext_close tol7 (m_objective r) (o_objective k)
      && match o_nodes k with None => true | Some n => Nat.eqb (m_nodes r) n end
      && opt2 (all2 (all2 (closeq tol7))) (m_solutions r) (o_solutions k)
  end.

(* the hypothesis on the LNS oracle, evaluated on the recorded answer: it passes _is_feasible and has length n *)
Definition lns_answer_ok (k : milp_case) : bool :=
  match k_lns_answer k with
  | None => true
  | Some x => Nat.eqb (length x) (length (k_c k)) && is_feasible (k_eps k) x (k_A k) (k_b k) (k_ints k)
  end.
