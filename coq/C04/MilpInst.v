(* The B&B model instantiated with the C03 simplex model as LP kernel, and the observables / boolean comparison
   used by the generated correspondence files (coq/Cases/C04/*.v).  Definitions only. *)
From Coq Require Import List QArith Qabs Bool Arith ZArith.
From SV Require Import C03.Simplex C03.LPSpec C04.Milp C04.MilpSpec.
Import ListNotations.
Open Scope Q_scope.

(* _solve_node calls solve_lp(c_red, A_red, b_red, minimize=minimize, eps=eps, max_iter=max_iter) *)
Definition simplex_kernel (eps : Q) : lp_kernel :=
  fun minimize max_iter c A b =>
    let r := solve_lp eps minimize max_iter c A b in (r_status r, r_solution r, r_objective r).

(* one run of solve_milp: the call, what _lns_improve returned in that run (None: it was not called), and the
   Result that came back *)
Record milp_case := mkK {
  k_c : list Q;
  k_A : list (list Q);
  k_b : list Q;
  k_ints : list nat;
  k_min : bool;
  k_eps : Q;
  k_gap : Q;
  k_iter : option nat;             (* None = default 10 000 *)
  k_nodes : option nat;            (* None = default 100 000 *)
  k_warm : option (list Q);
  k_limit : nat;
  k_heur : bool;
  k_lns : nat;
  k_lns_answer : option (list Q);
  (* observed *)
  o_status : mstatus;
  o_solution : option (list Q);
  o_objective : qext;
  o_nodes : option nat;            (* compared when Some *)
  o_solutions : option (list (list Q))
}.

Definition run_case (k : milp_case) : option milp_result :=
  solve_milp (simplex_kernel (lp_eps (k_eps k))) (fun _ => k_lns_answer k) (k_eps k) (k_gap k) (k_min k)
    (match k_iter k with None => milp_max_iter_default | Some i => i end)
    (match k_nodes k with None => milp_max_nodes_default | Some i => i end)
    (k_c k) (k_A k) (k_b k) (k_ints k) (k_warm k) (k_limit k) (k_heur k) (k_lns k).

Definition mstatus_eqb (a b : mstatus) : bool :=
  match a, b with
  | S_OPTIMAL, S_OPTIMAL | S_FEASIBLE, S_FEASIBLE | S_INFEASIBLE, S_INFEASIBLE
  | S_UNBOUNDED, S_UNBOUNDED | S_MAX_ITER, S_MAX_ITER => true
  | _, _ => false
  end.

(* |a - b| <= tol * (1 + |a|) *)
Definition closeq (tol a b : Q) : bool := Qleb (Qabs (a - b)) (tol * (1 + Qabs a)).

Fixpoint all2 {X} (f : X -> X -> bool) (a b : list X) : bool :=
  match a, b with
  | [], [] => true
  | x :: a', y :: b' => f x y && all2 f a' b'
  | _, _ => false
  end.

Definition opt2 {X} (f : X -> X -> bool) (a b : option X) : bool :=
  match a, b with
  | None, None => true
  | Some x, Some y => f x y
  | _, _ => false
  end.

Definition qext_close (tol : Q) (a b : qext) : bool :=
  match a, b with
  | Fin x, Fin y => closeq tol x y
  | PInf, PInf | NInf, NInf => true
  | _, _ => false
  end.

Definition tol7 : Q := 1 # 10000000.

(* model against implementation: status, solution, objective, `solutions` (in order), node count when given *)
Definition corr_check (k : milp_case) : bool :=
  match run_case k with
  | None => false
  | Some r =>
      mstatus_eqb (m_status r) (o_status k)
      && opt2 (all2 (closeq tol7)) (m_solution r) (o_solution k)
      && qext_close tol7 (m_objective r) (o_objective k)
      && match o_nodes k with None => true | Some n => Nat.eqb (m_nodes r) n end
      && opt2 (all2 (all2 (closeq tol7))) (m_solutions r) (o_solutions k)
  end.

(* the hypothesis on the LNS oracle, evaluated on the recorded answer: it passes _is_feasible and has length n *)
Definition lns_answer_ok (k : milp_case) : bool :=
  match k_lns_answer k with
  | None => true
  | Some x => Nat.eqb (length x) (length (k_c k)) && is_feasible (k_eps k) x (k_A k) (k_b k) (k_ints k)
  end.

(* ---------- checks independent of the model's answer *)
(* the implementation's Result, judged by the boolean specification proved sound in MilpSpec (spec_check_sound) *)
Definition impl_result (k : milp_case) : milp_result :=
  mkM (o_status k) (o_solution k) (o_objective k) 0 (o_solutions k).
Definition impl_spec_check (k : milp_case) : bool :=
  spec_check (if Qleb (1 # 1000000000) (k_eps k) then k_eps k else 1 # 1000000000)    (* the code's eps, at least float round-off *)
    (k_c k) (k_A k) (k_b k) (k_ints k)
    ((1 # 1000000) * (1 + match o_objective k with Fin o => Qabs o | _ => 0 end))   (* objective tolerance relative to |objective| *)
    (impl_result k).

(* the boolean hypotheses of the C04 theorems on this input, with the simplex model as LP kernel *)
Definition gate_check (k : milp_case) : bool :=
  milp_input_ok (k_eps k) (k_c k) (k_A k) (k_b k) (k_ints k).

(* exact arithmetic with eps = 0 (milp and LP kernel) gives the same Result as with the code's eps = 1e-6 *)
Definition with_eps (e : Q) (k : milp_case) : milp_case :=
  mkK (k_c k) (k_A k) (k_b k) (k_ints k) (k_min k) e (k_gap k) (k_iter k) (k_nodes k) (k_warm k) (k_limit k) (k_heur k)
      (k_lns k) (k_lns_answer k) (o_status k) (o_solution k) (o_objective k) (o_nodes k) (o_solutions k).

Definition qext_eqb (a b : qext) : bool :=
  match a, b with
  | Fin x, Fin y => Qeq_bool x y
  | PInf, PInf | NInf, NInf => true
  | _, _ => false
  end.

Definition res_eqb (r1 r2 : milp_result) : bool :=
  mstatus_eqb (m_status r1) (m_status r2)
  && opt2 (all2 Qeq_bool) (m_solution r1) (m_solution r2)
  && qext_eqb (m_objective r1) (m_objective r2)
  && Nat.eqb (m_nodes r1) (m_nodes r2)
  && opt2 (all2 (all2 Qeq_bool)) (m_solutions r1) (m_solutions r2).

Definition eps0_check (k : milp_case) : bool :=
  match run_case k, run_case (with_eps 0 k) with
  | Some r1, Some r2 => res_eqb r1 r2
  | _, _ => false
  end.
