(* lp_sound of the exact simplex model (eps = 0), discharged by the C03 deep theorems (coq/C03/DeepSolve.v:
   optimal_sound_all, infeasible_sound_all, unbounded_sound_all = Props/C03_deep.v C03_optimal_sound, C03_infeasible_sound,
   C03_unbounded_sound), and the closed C04 statements for that kernel: no hypothesis on the LP kernel is left. *)
From Coq Require Import List QArith Qabs Bool Arith.
From SV Require Import C03.Simplex C03.LPSpec C03.DeepSolve C04.Milp C04.MilpInst C04.MilpSpec C04.MilpBBProofs
  C04.MilpTheorems C04.MilpC03Bridge.
Import ListNotations.
Open Scope Q_scope.

Theorem simplex0_sound : lp_sound (simplex_kernel 0).
Proof. exact (lp_sound_from_C03 optimal_sound_all infeasible_sound_all unbounded_sound_all). Qed.

Section Exact.
  Variable lns : list Q -> option (list Q).
  Variable gap_tol : Q.
  Variable minimize : bool.
  Variable max_iter max_nodes : nat.
  Variable c : list Q.
  Variable A : list (list Q).
  Variable b : list Q.
  Variable ints : list nat.
  Variable warm_start : option (list Q).
  Variable solution_limit : nat.
  Variable heuristics : bool.
  Variable lns_iterations : nat.
  Variable r : milp_result.
  Hypothesis LNS : lns_ok lns 0 c A b ints.
  Hypothesis OK : milp_input_ok 0 c A b ints = true.
  Hypothesis RUN : solve_milp (simplex_kernel 0) lns 0 gap_tol minimize max_iter max_nodes c A b ints warm_start
                     solution_limit heuristics lns_iterations = Some r.

  Lemma exact_all : res_ok 0 gap_tol minimize c A b ints r.
  Proof.
    exact (all_ok (simplex_kernel 0) lns 0 gap_tol minimize max_iter max_nodes c A b ints warm_start solution_limit
                  heuristics lns_iterations r simplex0_sound LNS OK RUN).
  Qed.

  Lemma exact_feasible :
    (forall x, m_solution r = Some x -> exists o, m_objective r = Fin o /\ sol_ok 0 c A b ints x o)
    /\ (forall ss x, m_solutions r = Some ss -> In x ss -> point_ok 0 c A b ints x).
  Proof. destruct exact_all as [H1 [H2 _]]. split; assumption. Qed.

  Lemma exact_optimal : m_status r = S_OPTIMAL ->
    exists x o, m_solution r = Some x /\ m_objective r = Fin o
      /\ forall y, int_feasible c A b ints y -> sgn minimize * o - opt_slack 0 gap_tol o <= sgn minimize * dot c y.
  Proof. destruct exact_all as [_ [_ [H _]]]. exact H. Qed.

  Lemma exact_infeasible : m_status r = S_INFEASIBLE -> forall y, ~ int_feasible c A b ints y.
  Proof. destruct exact_all as [_ [_ [_ [H _]]]]. exact H. Qed.

  Lemma exact_unbounded : m_status r = S_UNBOUNDED -> lp_unbounded minimize c A b.
  Proof. destruct exact_all as [_ [_ [_ [_ H]]]]. exact H. Qed.
End Exact.
