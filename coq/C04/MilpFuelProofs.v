(* The fuel of the B&B loop (2*max_nodes + 2) is never exhausted: every iteration pops a node; an iteration that pushes
   two children also increments nodes_explored, which is bounded by max_nodes.  Hence the only way the model returns the
   error value None is exhausted fuel inside _round_binary. *)
From Coq Require Import List QArith Qabs Qround Bool Arith ZArith Lia.
From SV Require Import C03.Simplex C03.LPSpec C04.Milp.
Import ListNotations.
Open Scope Q_scope.

Lemma heap_push_length : forall k t, length (heap_push k t) = S (length t).
Proof.
  intros k t. induction t as [|h t IH]; simpl; [reflexivity|].
  destruct (Qleb (fst (fst h)) (fst (fst k))); simpl; [rewrite IH|]; reflexivity.
Qed.

Section Fuel.
  Variable lp : lp_kernel.
  Variable eps gap_tol : Q.
  Variable minimize : bool.
  Variable max_iter max_nodes : nat.
  Variable c : list Q.
  Variable A : list (list Q).
  Variable b : list Q.
  Variable ints : list nat.
  Variable solution_limit : nat.

  Notation step := (bb_step lp eps gap_tol minimize max_iter c A b ints solution_limit).
  Notation loop := (bb_loop lp eps gap_tol minimize max_iter max_nodes c A b ints solution_limit).

  Lemma step_measure : forall nb nd st st', step nb nd st = inl st' ->
    (s_nodes st' = s_nodes st /\ length (s_tree st') = length (s_tree st))
    \/ (s_nodes st' = S (s_nodes st) /\ (length (s_tree st') <= length (s_tree st) + 2)%nat).
  Proof.
    intros nb nd st st' H. unfold bb_step in H.
    repeat match type of H with
           | context [match ?X with _ => _ end] => destruct X eqn:?
           end; try discriminate; injection H as H; subst st'; simpl; rewrite ?heap_push_length;
      first [left; split; reflexivity | right; split; [reflexivity|lia]].
  Qed.

  Lemma loop_total : forall fuel st,
    (length (s_tree st) + 2 * (max_nodes - s_nodes st) < fuel)%nat -> exists r, loop fuel st = Some r.
  Proof.
    induction fuel as [|f IH]; intros st M; [lia|]. simpl.
    destruct (s_tree st) as [|[[nb cnt] nd] rest] eqn:ET; [eexists; reflexivity|].
    destruct (Nat.leb max_nodes (s_nodes st)) eqn:EN; [eexists; reflexivity|].
    apply Nat.leb_gt in EN. simpl in M.
    destruct (step nb nd (mkS rest (s_counter st) (s_nodes st) (s_best st) (s_all st) (s_hit st))) as [st'|r] eqn:ES;
      [|eexists; reflexivity].
    apply IH. destruct (step_measure _ _ _ _ ES) as [[H1 H2]|[H1 H2]]; simpl in H1, H2; rewrite H1; lia.
  Qed.
End Fuel.

(* solve_milp returns None only if _round_binary's model fuel ran out *)
Lemma solve_milp_none : forall lp lns eps gap_tol minimize max_iter max_nodes c A b ints warm_start solution_limit
    heuristics lns_iterations,
  solve_milp lp lns eps gap_tol minimize max_iter max_nodes c A b ints warm_start solution_limit heuristics lns_iterations = None ->
  round_binary eps (n_sol (solve_node lp eps minimize max_iter c A b (repeat 0 (length c)) (repeat None (length c))))
               ints c A b minimize = None.
Proof.
  intros lp lns eps gap_tol minimize max_iter max_nodes c A b ints ws sl heur li H. unfold solve_milp in H.
  set (root := solve_node lp eps minimize max_iter c A b (repeat 0 (length c)) (repeat None (length c))) in *.
  destruct (n_status root); try discriminate.
  destruct (most_fractional eps (n_sol root) ints); [|discriminate].
  match type of H with match ?X with _ => _ end = _ => destruct X as [[best1 all1]|] eqn:R1 end.
  - exfalso.
    match type of H with (let '(_, _) := ?X in _) = _ => destruct X as [best2 all2] end.
    match type of H with bb_loop _ _ _ _ _ ?mn _ _ _ _ _ ?fuel ?st = None =>
      destruct (loop_total lp eps gap_tol minimize max_iter mn c A b ints sl fuel st) as [r Hr] end.
    + unfold bb_fuel. simpl. lia.
    + congruence.
  - destruct (heur && _ && _); [|discriminate].
    destruct (round_binary eps (n_sol root) ints c A b minimize) as [[rd|]|]; try discriminate. reflexivity.
Qed.
