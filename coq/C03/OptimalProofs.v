(* C03_optimal_sound for LPs that need no phase 1 (b >= 0), exact arithmetic (eps = 0):
   if solve_lp answers OPTIMAL then its point is feasible, its objective is c.x, and no feasible
   point is better.  Route: p2_inv holds initially, phase2_inv keeps it and the solution set,
   the basic solution satisfies the final hence the initial tableau, and at termination every
   reduced cost is >= 0, which bounds the objective of every feasible point. *)
From Coq Require Import List QArith Qabs Bool Arith Lia Lqa.
From SV Require Import C03.Simplex C03.LPSpec C03.Cert C03.LinAlgProofs C03.PivotProofs C03.Phase2Entries
  C03.Phase2Inv C03.ExtractProofs.
Import ListNotations.
Open Scope Q_scope.

Lemma dot_app a1 a2 x s : length a1 = length x -> dot (a1 ++ a2) (x ++ s) == dot a1 x + dot a2 s.
Proof.
  revert x. induction a1 as [|u a1 IH]; intros [|y x] H; simpl in *; try discriminate; [ring|].
  rewrite IH by lia. ring.
Qed.

Lemma dot_unit i m : forall st s,
  dot (map (fun j => if Nat.eqb j i then 1 else 0) (seq st m)) s ==
  if Nat.leb st i && Nat.ltb i (st + m) then get s (i - st) else 0.
Proof.
  induction m as [|m IH]; intros st s.
  - simpl. destruct (Nat.leb st i) eqn:E1; simpl; [|reflexivity].
    destruct (Nat.ltb i (st + 0)) eqn:E2; [|reflexivity].
    apply Nat.leb_le in E1. apply Nat.ltb_lt in E2. lia.
  - cbn [seq map]. destruct s as [|y s].
    + rewrite dot_nil_r. rewrite get_nil. destruct (_ && _); reflexivity.
    + cbn [dot]. rewrite IH. destruct (Nat.eq_dec st i) as [->|Hne].
      * rewrite Nat.eqb_refl, Nat.leb_refl.
        assert (E : Nat.ltb i (i + S m) = true) by (apply Nat.ltb_lt; lia). rewrite E.
        assert (E' : Nat.leb (S i) i = false) by (apply Nat.leb_gt; lia). rewrite E'.
        rewrite Nat.sub_diag. unfold get. simpl. ring.
      * assert (E : Nat.eqb st i = false) by (apply Nat.eqb_neq; exact Hne). rewrite E.
        destruct (Nat.leb (S st) i) eqn:E1.
        -- apply Nat.leb_le in E1. assert (E2 : Nat.leb st i = true) by (apply Nat.leb_le; lia). rewrite E2.
           replace (st + S m)%nat with (S st + m)%nat by lia.
           destruct (Nat.ltb i (S st + m)); simpl; [|ring].
           replace (i - st)%nat with (S (i - S st)) by lia. unfold get. simpl. ring.
        -- apply Nat.leb_gt in E1. assert (E2 : Nat.leb st i = false) by (apply Nat.leb_gt; lia). rewrite E2.
           simpl. ring.
Qed.

Lemma dot_unit_vec m i s : (i < m)%nat -> dot (unit_vec m i) s == get s i.
Proof.
  intro H. unfold unit_vec. rewrite dot_unit. simpl.
  assert (E : Nat.ltb i m = true) by (apply Nat.ltb_lt; exact H). rewrite E, Nat.sub_0_r. reflexivity.
Qed.

Lemma get_app_r a1 a2 j : get (a1 ++ a2) (length a1 + j) = get a2 j.
Proof. unfold get. apply app_nth2_plus. Qed.

Lemma nth_map_seq (f : nat -> Q) : forall m st j, (j < m)%nat -> nth j (map f (seq st m)) 0 = f (st + j)%nat.
Proof.
  induction m as [|m IH]; intros st j H; [lia|]. simpl. destruct j as [|j].
  - rewrite Nat.add_0_r. reflexivity.
  - rewrite IH by lia. f_equal. lia.
Qed.

Lemma get_unit_vec m i j : (j < m)%nat -> get (unit_vec m i) j = if Nat.eqb j i then 1 else 0.
Proof. intro H. unfold get, unit_vec. rewrite nth_map_seq by exact H. reflexivity. Qed.

Lemma get_nonneg l j : Forall (fun q => 0 <= q) l -> 0 <= get l j.
Proof.
  unfold get. intro H. revert j. induction H as [|x l Hx Hl IH]; intros [|j]; simpl; try lra; auto.
Qed.

Lemma Forall2_mv A b x : length A = length b ->
  (forall k, (k < length A)%nat -> dot (nth k A []) x <= nth k b 0) -> Forall2 Qle (mv A x) b.
Proof.
  revert b. induction A as [|r A IH]; intros [|bi b] Hl H; simpl in *; try discriminate; constructor.
  - apply (H 0%nat). lia.
  - apply IH; [lia|]. intros k Hk. apply (H (S k)). lia.
Qed.

(* ---- row equilibration: dividing a constraint row by a positive number keeps the feasible set; the slack is rescaled *)
Lemma fold_max_nonneg r : 0 <= fold_right (fun v acc => if Qltb acc (Qabs v) then Qabs v else acc) 0 r.
Proof.
  induction r as [|v r IH]; simpl; [lra|].
  destruct (Qltb _ (Qabs v)); [apply Qabs_nonneg | exact IH].
Qed.

Lemma row_scale_pos r : 0 < row_scale r.
Proof.
  unfold row_scale. pose proof (fold_max_nonneg r) as H.
  set (mx := fold_right (fun v acc => if Qltb acc (Qabs v) then Qabs v else acc) 0 r) in *.
  destruct (Qeq_bool mx 0) eqn:E; [lra|]. apply Qeq_bool_neq in E.
  destruct (Qlt_le_dec 0 mx) as [Hp|Hn]; [exact Hp|]. exfalso. apply E. lra.
Qed.

Lemma scaled_row_length r : length (scaled_row r) = length r.
Proof. unfold scaled_row. apply map_length. Qed.

Lemma dot_scaled_row r x : dot (scaled_row r) x == dot r x / row_scale r.
Proof. unfold scaled_row, Qdiv. rewrite (dot_scale_each (/ row_scale r)). reflexivity. Qed.

Lemma row_scale_equiv sc ax s b : 0 < sc -> (ax / sc + s == b / sc <-> ax + sc * s == b).
Proof.
  intro Hsc. split; intro H.
  - assert (E : ax + sc * s == (ax / sc + s) * sc) by (field; lra). rewrite E, H. field. lra.
  - assert (E : ax / sc + s == (ax + sc * s) / sc) by (field; lra). rewrite E, H. reflexivity.
Qed.

Lemma mul_div_cancel sc a : 0 < sc -> sc * (a / sc) == a.
Proof. intro H. field. lra. Qed.

Lemma le_scale sc z a : 0 < sc -> z <= a / sc -> sc * z <= a.
Proof.
  intros Hsc H. rewrite <- (mul_div_cancel sc a Hsc). rewrite (Qmult_comm sc z), (Qmult_comm sc (a / sc)).
  apply Qmult_le_compat_r; [exact H | lra].
Qed.

Lemma lt_scale sc z a : 0 < sc -> z < a / sc -> sc * z < a.
Proof.
  intros Hsc H. rewrite <- (mul_div_cancel sc a Hsc). rewrite (Qmult_comm sc z), (Qmult_comm sc (a / sc)).
  apply Qmult_lt_compat_r; assumption.
Qed.

Lemma div_nonneg a sc : 0 <= a -> 0 < sc -> 0 <= a / sc.
Proof. intros Ha Hsc. apply Qle_shift_div_l; [exact Hsc | lra]. Qed.

(* ---- the initial tableau *)
Section Init.
  Variables (minimize : bool) (c : list Q) (A : list (list Q)) (b : list Q).
  Hypothesis Hvalid : valid_lp c A b = true.

  Let n := length c.
  Let m := length b.
  Let w := weights minimize c.
  Let T0 := init_tableau minimize c A b.

  Lemma valid_len : length A = m.
  Proof.
    pose proof Hvalid as Hv. unfold valid_lp in Hv. apply andb_true_iff in Hv. destruct Hv as [H _].
    apply andb_true_iff in H. destruct H as [_ H]. apply Nat.eqb_eq in H. exact H.
  Qed.

  Lemma valid_rows k : (k < m)%nat -> length (nth k A []) = n.
  Proof.
    intro Hk. pose proof Hvalid as Hv. unfold valid_lp in Hv. apply andb_true_iff in Hv. destruct Hv as [_ H].
    rewrite forallb_forall in H. apply Nat.eqb_eq. apply H. apply nth_In. rewrite valid_len. exact Hk.
  Qed.

  Lemma valid_wf : well_formed c A b.
  Proof.
    split; [apply valid_len|]. apply Forall_forall. intros r Hr.
    pose proof Hvalid as Hv. unfold valid_lp in Hv. apply andb_true_iff in Hv. destruct Hv as [_ H].
    rewrite forallb_forall in H. apply Nat.eqb_eq. apply H. exact Hr.
  Qed.

  Lemma T0_rows_length : length (t_rows T0) = m.
  Proof.
    unfold T0, init_tableau. simpl. rewrite mapi_length. rewrite firstn_all2 by (rewrite valid_len; lia).
    apply valid_len.
  Qed.

  Lemma T0_row k : (k < m)%nat ->
    nth k (t_rows T0) row0
    = rnorm (scaled_row (nth k A []) ++ unit_vec m k, nth k b 0 / row_scale (nth k A [])).
  Proof.
    intro Hk. unfold T0, init_tableau. simpl. rewrite firstn_all2 by (rewrite valid_len; lia).
    rewrite (mapi_nth _ _ k [] row0) by (rewrite valid_len; exact Hk). reflexivity.
  Qed.

  Lemma T0_obj : t_obj T0 = (map Qred (scaled_row w) ++ zeros m, 0).
  Proof. reflexivity. Qed.

  Lemma unit_vec_length k i : length (unit_vec k i) = k.
  Proof. unfold unit_vec. rewrite map_length. apply seq_length. Qed.

  Lemma w_length : length w = n.
  Proof. apply weights_length. Qed.

  Lemma T0_wf : tab_wf (n + m) T0.
  Proof.
    split.
    - apply Forall_nth. intros k d Hk. change (k < length (t_rows T0))%nat in Hk. rewrite T0_rows_length in Hk. rewrite (nth_indep _ d row0) by (change (k < length (t_rows T0))%nat; rewrite T0_rows_length; exact Hk).
      rewrite T0_row by exact Hk. cbn [rnorm fst]. rewrite map_length, app_length, unit_vec_length, scaled_row_length, valid_rows by exact Hk. reflexivity.
    - rewrite T0_obj. cbn [fst]. rewrite app_length, map_length, scaled_row_length, zeros_length, w_length. reflexivity.
  Qed.

  (* what it means for (x ++ s), |x| = n, to satisfy the initial tableau *)
  Lemma T0_sat x s z : length x = n ->
    (tab_sat (x ++ s) z T0 <->
     (forall k, (k < m)%nat -> dot (nth k A []) x + row_scale (nth k A []) * get s k == nth k b 0)
     /\ dot w x == row_scale w * z).
  Proof.
    intro Hx. unfold tab_sat. rewrite T0_obj.
    assert (Hobj : obj_sat (x ++ s) z (map Qred (scaled_row w) ++ zeros m, 0) <-> dot w x == row_scale w * z).
    { unfold obj_sat. cbn [fst snd]. rewrite dot_app by (rewrite map_length, scaled_row_length, w_length; lia).
      rewrite dot_map_Qred, dot_zeros_l, dot_scaled_row. pose proof (row_scale_pos w) as Hsc. split; intro H.
      - rewrite <- (mul_div_cancel (row_scale w) (dot w x) Hsc). assert (E : dot w x / row_scale w == z) by lra. rewrite E. reflexivity.
      - rewrite H. assert (E : row_scale w * z / row_scale w == z) by (field; lra). lra. }
    assert (Hrow : forall k, (k < m)%nat ->
              (row_sat (x ++ s) (nth k (t_rows T0) row0)
               <-> dot (nth k A []) x + row_scale (nth k A []) * get s k == nth k b 0)).
    { intros k Hk. rewrite T0_row by exact Hk. rewrite row_sat_rval, rval_rnorm. unfold rval. cbn [fst snd].
      rewrite dot_app by (rewrite scaled_row_length, valid_rows by exact Hk; lia). rewrite dot_unit_vec by exact Hk.
      rewrite dot_scaled_row.
      rewrite <- (row_scale_equiv (row_scale (nth k A [])) (dot (nth k A []) x) (get s k) (nth k b 0) (row_scale_pos _)).
      split; intro H; lra. }
    split; intros [H1 H2]; (split; [|apply Hobj; exact H2]).
    - intros k Hk. apply Hrow; [exact Hk|]. rewrite Forall_forall in H1. apply H1. apply nth_In.
      rewrite T0_rows_length. exact Hk.
    - apply Forall_nth. intros k d Hk. change (k < length (t_rows T0))%nat in Hk. rewrite T0_rows_length in Hk.
      rewrite (nth_indep _ d row0) by (change (k < length (t_rows T0))%nat; rewrite T0_rows_length; exact Hk). apply Hrow; auto.
  Qed.

  Hypothesis Hb : forallb (Qleb 0) b = true.

  Lemma b_nonneg k : 0 <= nth k b 0.
  Proof.
    destruct (Nat.lt_ge_cases k (length b)) as [H|H].
    - rewrite forallb_forall in Hb. apply Qleb_le. apply Hb. apply nth_In. exact H.
    - rewrite nth_overflow by exact H. lra.
  Qed.

  Lemma no_phase1 : existsb (fun r => Qltb (snd r) (- 0)) (t_rows T0) = false.
  Proof.
    destruct (existsb _ _) eqn:E; [|reflexivity]. exfalso.
    apply existsb_exists in E. destruct E as [r [Hin Hlt]].
    apply (In_nth _ _ row0) in Hin. destruct Hin as [k [Hk Hr]]. rewrite T0_rows_length in Hk.
    rewrite T0_row in Hr by exact Hk. subst r. apply Qltb_lt in Hlt. rewrite snd_rnorm in Hlt. cbn [snd] in Hlt.
    pose proof (div_nonneg _ _ (b_nonneg k) (row_scale_pos (nth k A []))). lra.
  Qed.

  Lemma T0_inv : p2_inv (n + m) T0 (seq n m).
  Proof.
    constructor.
    - apply T0_wf.
    - rewrite seq_length, T0_rows_length. reflexivity.
    - intros i Hi. rewrite seq_length in Hi. rewrite seq_nth by exact Hi. lia.
    - intros i k Hi Hk. rewrite seq_length in Hi. rewrite T0_rows_length in Hk. rewrite seq_nth by exact Hi.
      unfold entry. rewrite T0_row by exact Hk. rewrite get_rnorm. cbn [fst].
      rewrite <- (valid_rows k Hk). rewrite <- (scaled_row_length (nth k A [])). rewrite get_app_r. rewrite get_unit_vec by exact Hi.
      rewrite Nat.eqb_sym. reflexivity.
    - intros i Hi. rewrite seq_length in Hi. rewrite seq_nth by exact Hi. unfold objc. rewrite T0_obj. simpl.
      replace n with (length (map Qred (scaled_row w))) by (rewrite map_length, scaled_row_length; apply w_length).
      rewrite get_app_r. rewrite get_zeros. reflexivity.
    - intros k Hk. rewrite T0_rows_length in Hk. unfold rhs. rewrite T0_row by exact Hk. rewrite snd_rnorm. cbn [snd].
      apply div_nonneg; [apply b_nonneg | apply row_scale_pos].
  Qed.
End Init.

(* padding / truncating a point to n coordinates does not change products with n-vectors *)
Lemma dot_pad a : forall n k y, (length a <= n)%nat -> (n <= k)%nat ->
  dot a (firstn n (y ++ zeros k)) == dot a y.
Proof.
  induction a as [|u a IH]; intros n k y Hn Hk; [reflexivity|].
  destruct n as [|n]; [simpl in Hn; lia|]. destruct k as [|k]; [lia|].
  destruct y as [|v y].
  - change ([] ++ zeros (S k)) with (0 :: ([] ++ zeros k)). cbn [firstn dot].
    rewrite IH by (simpl in Hn; lia). rewrite dot_nil_r. simpl. ring.
  - cbn [app firstn dot]. rewrite IH by (simpl in Hn; lia). reflexivity.
Qed.

Lemma pad_nonneg : forall n k y, Forall (fun q => 0 <= q) y ->
  Forall (fun q => 0 <= q) (firstn n (y ++ zeros k)).
Proof.
  induction n as [|n IH]; intros k y Hy; [constructor|].
  destruct y as [|v y].
  - destruct k as [|k]; [constructor|]. change ([] ++ zeros (S k)) with (0 :: ([] ++ zeros k)).
    cbn [firstn]. constructor; [lra|]. apply IH. constructor.
  - inversion Hy; subst. cbn [app firstn]. constructor; [assumption|]. apply IH. assumption.
Qed.

Lemma pad_length n k y : (n <= k)%nat -> length (firstn n (y ++ zeros k)) = n.
Proof. intro H. rewrite firstn_length, app_length, zeros_length. lia. Qed.


Lemma objc_nonneg N T basis : p2_inv N T basis -> find_enter 0 basis T = None ->
  Forall (fun q => 0 <= q) (fst (t_obj T)).
Proof.
  intros Hinv Hn. apply Forall_nth. intros j d Hj. rewrite (nth_indep _ d 0) by exact Hj.
  destruct (find_enter_none basis T Hn j Hj) as [Hm|H]; [|exact H].
  unfold mem_nat in Hm. apply existsb_exists in Hm. destruct Hm as [x [Hin Hx]]. apply Nat.eqb_eq in Hx. subst x.
  apply (In_nth _ _ 0%nat) in Hin. destruct Hin as [i [Hi Hnth]].
  pose proof (inv_obj _ _ _ Hinv i Hi) as H0. rewrite Hnth in H0. unfold objc, get in H0. lra.
Qed.

Lemma Forall2_mv_nth A b y k : Forall2 Qle (mv A y) b -> (k < length A)%nat ->
  dot (nth k A []) y <= nth k b 0.
Proof.
  revert b k. induction A as [|r A IH]; intros b k H Hk; simpl in *; [lia|].
  inversion H; subst. destruct k as [|k]; simpl; [assumption|]. apply IH; [assumption | lia].
Qed.

Lemma solve_lp_nophase1 minimize fuel c A b :
  valid_lp c A b = true -> forallb (Qleb 0) b = true ->
  solve_lp 0 minimize fuel c A b =
  let '(st2, iters2, T2, basis2, piv2) :=
      phase2 0 fuel 0 (init_tableau minimize c A b) (seq (length c) (length b)) [] in
  extract T2 basis2 (length c) st2 iters2 c piv2.
Proof.
  intros Hvalid Hb. unfold solve_lp. cbv zeta. rewrite (no_phase1 minimize c A b Hvalid Hb). reflexivity.
Qed.

Theorem optimal_sound_nophase1 minimize fuel c A b r :
  valid_lp c A b = true -> forallb (Qleb 0) b = true ->
  solve_lp 0 minimize fuel c A b = r -> r_status r = OPTIMAL ->
  lp_optimal minimize c A b (r_solution r) /\ r_objective r == dot c (r_solution r).
Proof.
  intros Hvalid Hb Hr Hst. rewrite solve_lp_nophase1 in Hr by assumption.
  set (n := length c) in *. set (m := length b) in *.
  set (T0 := init_tableau minimize c A b) in *.
  destruct (phase2 0 fuel 0 T0 (seq n m) []) as [[[[st2 it2] T2] basis2] piv2] eqn:E.
  subst r. unfold extract in *. simpl in Hst. simpl. subst st2.
  pose proof (T0_inv minimize c A b Hvalid Hb) as Hinv0. fold n m T0 in Hinv0.
  destruct (phase2_inv (n + m) _ _ _ _ _ _ _ _ _ _ Hinv0 E) as [Hinv2 [Heq [Hnone _]]].
  specialize (Hnone eq_refl).
  set (w := weights minimize c).
  set (v := bsol (n + m) T2 basis2).
  set (x := extract_loop n basis2 0 (t_rows T2) (zeros n)).
  assert (Hx : firstn n v = x).
  { unfold v, bsol, x. rewrite firstn_extract_loop by lia. rewrite firstn_zeros by lia. reflexivity. }
  assert (Hv : v = x ++ skipn n v) by (rewrite <- Hx; symmetry; apply firstn_skipn).
  assert (Lx : length x = n).
  { rewrite <- Hx. rewrite firstn_length. unfold v. rewrite bsol_length. lia. }
  set (z := - snd (t_obj T2)).
  assert (Hsat : tab_sat (x ++ skipn n v) z T0).
  { rewrite <- Hv. apply Heq. apply bsol_sat. exact Hinv2. }
  apply (T0_sat minimize c A b Hvalid) in Hsat; [|exact Lx]. destruct Hsat as [Hrows Hobj].
  fold m in Hrows. fold w in Hobj.
  assert (Hvn : Forall (fun q => 0 <= q) v) by (apply bsol_nonneg; exact Hinv2).
  assert (Hxn : Forall (fun q => 0 <= q) x).
  { unfold x. apply extract_loop_nonneg.
    - unfold zeros. apply Forall_forall. intros q Hq. apply repeat_spec in Hq. subst. lra.
    - apply Forall_nth. intros k d Hk. rewrite (nth_indep _ d row0) by exact Hk. apply (inv_rhs _ _ _ Hinv2). exact Hk. }
  assert (HlenA : length A = m) by (apply (valid_len c A b Hvalid)).
  assert (Hfeas : feasible A b x).
  { split; [exact Hxn|]. apply Forall2_mv; [exact HlenA|].
    intros k Hk. rewrite HlenA in Hk. specialize (Hrows k Hk).
    assert (Hsk : 0 <= get (skipn n v) k).
    { rewrite <- (get_app_r x). rewrite <- Hv. apply get_nonneg. exact Hvn. }
    pose proof (Qmult_le_0_compat _ _ (Qlt_le_weak _ _ (row_scale_pos (nth k A []))) Hsk). lra. }
  assert (Hopt : forall y, feasible A b y -> dot w x <= dot w y).
  { intros y [Hyn Hyb].
    set (y' := firstn n (y ++ zeros n)).
    set (s' := map (fun k => (nth k b 0 - dot (nth k A []) y') / row_scale (nth k A [])) (seq 0 m)).
    assert (Ly : length y' = n) by (apply pad_length; lia).
    assert (Hrow_eq : forall k, (k < m)%nat -> dot (nth k A []) y' == dot (nth k A []) y).
    { intros k Hk. apply dot_pad; [|lia]. rewrite (valid_rows c A b Hvalid k Hk). fold n. lia. }
    assert (Hsc : 0 < row_scale w) by apply row_scale_pos.
    assert (Hsat' : tab_sat (y' ++ s') (dot w y' / row_scale w) T0).
    { apply (T0_sat minimize c A b Hvalid); [exact Ly|]. split; [|fold w; rewrite mul_div_cancel by exact Hsc; reflexivity].
      intros k Hk. fold m in Hk. unfold s', get. rewrite nth_map_seq by exact Hk. cbn [Nat.add].
      pose proof (row_scale_pos (nth k A [])). field. lra. }
    apply Heq in Hsat'. destruct Hsat' as [_ Ho]. unfold obj_sat in Ho.
    assert (Hs'n : Forall (fun q => 0 <= q) s').
    { apply Forall_forall. intros q Hq. unfold s' in Hq. apply in_map_iff in Hq. destruct Hq as [k [Hq Hk]].
      apply in_seq in Hk. subst q. apply div_nonneg; [|apply row_scale_pos]. rewrite Hrow_eq by lia.
      pose proof (Forall2_mv_nth A b y k Hyb). rewrite HlenA in H. specialize (H ltac:(lia)). lra. }
    assert (Hv'n : Forall (fun q => 0 <= q) (y' ++ s')).
    { apply Forall_app. split; [apply pad_nonneg; exact Hyn | exact Hs'n]. }
    pose proof (dot_nonneg _ _ (objc_nonneg _ _ _ Hinv2 Hnone) Hv'n) as Hpos.
    assert (Hwy : dot w y' == dot w y).
    { apply dot_pad; [|lia]. unfold w. rewrite weights_length. fold n. lia. }
    assert (Hz : z <= dot w y' / row_scale w) by (unfold z; lra).
    pose proof (le_scale _ _ _ Hsc Hz). lra. }
  split.
  - split; [exact Hfeas|]. intros y Hy. specialize (Hopt y Hy). unfold w in Hopt.
    rewrite !weights_dot in Hopt. destruct minimize; lra.
  - apply Qred_correct.
Qed.

(* whatever the status (OPTIMAL, UNBOUNDED, MAX_ITER), the point returned from phase 2 is feasible and the reported
   objective is c.x *)
Theorem point_feasible_nophase1 minimize fuel c A b r :
  valid_lp c A b = true -> forallb (Qleb 0) b = true ->
  solve_lp 0 minimize fuel c A b = r ->
  feasible A b (r_solution r) /\ r_objective r == dot c (r_solution r).
Proof.
  intros Hvalid Hb Hr. rewrite solve_lp_nophase1 in Hr by assumption.
  set (n := length c) in *. set (m := length b) in *.
  set (T0 := init_tableau minimize c A b) in *.
  destruct (phase2 0 fuel 0 T0 (seq n m) []) as [[[[st2 it2] T2] basis2] piv2] eqn:E.
  subst r. unfold extract in *. simpl.
  pose proof (T0_inv minimize c A b Hvalid Hb) as Hinv0. fold n m T0 in Hinv0.
  destruct (phase2_inv (n + m) _ _ _ _ _ _ _ _ _ _ Hinv0 E) as [Hinv2 [Heq _]].
  set (w := weights minimize c).
  set (v := bsol (n + m) T2 basis2).
  set (x := extract_loop n basis2 0 (t_rows T2) (zeros n)).
  assert (Hx : firstn n v = x).
  { unfold v, bsol, x. rewrite firstn_extract_loop by lia. rewrite firstn_zeros by lia. reflexivity. }
  assert (Hv : v = x ++ skipn n v) by (rewrite <- Hx; symmetry; apply firstn_skipn).
  assert (Lx : length x = n).
  { rewrite <- Hx. rewrite firstn_length. unfold v. rewrite bsol_length. lia. }
  set (z := - snd (t_obj T2)).
  assert (Hsat : tab_sat (x ++ skipn n v) z T0).
  { rewrite <- Hv. apply Heq. apply bsol_sat. exact Hinv2. }
  apply (T0_sat minimize c A b Hvalid) in Hsat; [|exact Lx]. destruct Hsat as [Hrows Hobj].
  fold m in Hrows. fold w in Hobj.
  assert (Hvn : Forall (fun q => 0 <= q) v) by (apply bsol_nonneg; exact Hinv2).
  assert (Hxn : Forall (fun q => 0 <= q) x).
  { unfold x. apply extract_loop_nonneg.
    - unfold zeros. apply Forall_forall. intros q Hq. apply repeat_spec in Hq. subst. lra.
    - apply Forall_nth. intros k d Hk. rewrite (nth_indep _ d row0) by exact Hk. apply (inv_rhs _ _ _ Hinv2). exact Hk. }
  assert (HlenA : length A = m) by (apply (valid_len c A b Hvalid)).
  assert (Hfeas : feasible A b x).
  { split; [exact Hxn|]. apply Forall2_mv; [exact HlenA|].
    intros k Hk. rewrite HlenA in Hk. specialize (Hrows k Hk).
    assert (Hsk : 0 <= get (skipn n v) k).
    { rewrite <- (get_app_r x). rewrite <- Hv. apply get_nonneg. exact Hvn. }
    pose proof (Qmult_le_0_compat _ _ (Qlt_le_weak _ _ (row_scale_pos (nth k A []))) Hsk). lra. }
  split; [exact Hfeas|].
  apply Qred_correct.
Qed.
