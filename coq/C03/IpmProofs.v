(* C03_ipm_gate: the convergence test of solve_lp_interior (Ipm.gate) implies that the structural
   part of the iterate is eps-feasible and within an explicit bound of the optimum (weak duality with
   residuals).  No statement is made about the Newton step: the theorem holds for ANY iterate that
   passes the gate. *)
From Coq Require Import List QArith Qabs Bool Arith Lia Lqa.
From SV Require Import C03.Simplex C03.LPSpec C03.Cert C03.Ipm C03.LinAlgProofs.
Import ListNotations.
Open Scope Q_scope.

Lemma vsub_length a b : length a = length b -> length (vsub a b) = length a.
Proof.
  revert b. induction a as [|x a IH]; intros [|y b] H; simpl in *; try reflexivity; try discriminate.
  f_equal. apply IH. lia.
Qed.

Lemma dot_vsub_l a b v : length a = length b -> dot (vsub a b) v == dot a v - dot b v.
Proof.
  revert b v. induction a as [|x a IH]; intros [|y b] v H; simpl in *; try discriminate; try ring.
  destruct v as [|z v]; [ring|]. rewrite IH by lia. ring.
Qed.

Lemma dot_vsub_r a x r : length x = length r -> dot a (vsub x r) == dot a x - dot a r.
Proof.
  intro H. rewrite dot_comm, dot_vsub_l by exact H. rewrite (dot_comm x a), (dot_comm r a). reflexivity.
Qed.

Lemma mv_length A x : length (mv A x) = length A.
Proof. apply map_length. Qed.

Lemma sumsq_nonneg l : 0 <= sumsq l.
Proof. induction l as [|x l IH]; simpl; [lra|]. nra. Qed.

Lemma sumsq_small e l : 0 < e -> sumsq l < e * e -> Forall (fun q => Qabs q <= e) l.
Proof.
  intros He. induction l as [|x l IH]; intro H; simpl in *; constructor.
  - pose proof (sumsq_nonneg l). apply Qabs_Qle_condition. split; nra.
  - apply IH. assert (0 <= x * x) by nra. lra.
Qed.

Lemma norm1_nonneg l : 0 <= norm1 l.
Proof. induction l as [|x l IH]; simpl; [lra|]. pose proof (Qabs_nonneg x). lra. Qed.

(* |r . v| <= e |v|_1  when every |r_i| <= e *)
Lemma dot_abs_bound e r v : 0 <= e -> Forall (fun q => Qabs q <= e) r -> Qabs (dot r v) <= e * norm1 v.
Proof.
  intros He Hr. revert v. induction Hr as [|x r Hx Hr IH]; intros v.
  - cbn [dot]. pose proof (norm1_nonneg v). change (Qabs 0) with 0. nra.
  - destruct v as [|y v]; cbn [dot norm1 fold_right].
    + change (Qabs 0) with 0. lra.
    + fold (norm1 v). eapply Qle_trans; [apply Qabs_triangle|]. rewrite Qabs_Qmult.
      specialize (IH v). pose proof (Qabs_nonneg x). pose proof (Qabs_nonneg y). nra.
Qed.

Lemma dot_le_bound e r v : 0 <= e -> Forall (fun q => Qabs q <= e) r -> dot r v <= e * norm1 v.
Proof. intros He Hr. pose proof (dot_abs_bound e r v He Hr). pose proof (Qle_Qabs (dot r v)). lra. Qed.

Lemma dot_ge_bound e r v : 0 <= e -> Forall (fun q => Qabs q <= e) r -> - (e * norm1 v) <= dot r v.
Proof.
  intros He Hr. pose proof (dot_abs_bound e r v He Hr). apply Qabs_Qle_condition in H. lra.
Qed.

Lemma nat_Q_pos k : (k <> 0)%nat -> 0 < nat_Q k.
Proof. intro H. unfold nat_Q, Qlt. simpl. lia. Qed.

(* slack of a feasible point is non-negative *)
Lemma slack_nonneg u b : Forall2 Qle u b -> Forall (fun q => 0 <= q) (vsub b u).
Proof. intro H. induction H; simpl; constructor; [lra | assumption]. Qed.

Lemma rows_tol e u s b : length u = length s -> length u = length b ->
  Forall (fun q => 0 <= q) s -> Forall (fun q => Qabs q <= e) (vsub (vadd u s) b) ->
  Forall2 (fun l r => l <= r + e) u b.
Proof.
  revert s b. induction u as [|x u IH]; intros [|y s] [|z b] H1 H2 Hs Hr; simpl in *;
    try discriminate; constructor.
  - inversion Hs; inversion Hr; subst. apply Qabs_Qle_condition in H7. lra.
  - inversion Hs; inversion Hr; subst. apply IH with (s := s); try lia; assumption.
Qed.

Lemma all_ge0_nonneg l : all_ge 0 l = true -> Forall (fun q => 0 <= q) l.
Proof. apply all_ge_spec. Qed.

Theorem ipm_gate_sound eps A b w xs ss y zx zs :
  gate eps A b w xs ss y zx zs = true ->
  feasible_tol eps A b xs /\
  forall xstar, feasible A b xstar ->
    dot w xs - dot w xstar <= gap_bound eps A b xs ss y xstar.
Proof.
  unfold gate. intro H.
  apply andb_true_iff in H. destruct H as [H Hmu].
  apply andb_true_iff in H. destruct H as [H Hrc].
  apply andb_true_iff in H. destruct H as [H Hrb].
  apply andb_true_iff in H. destruct H as [H Hzs].
  apply andb_true_iff in H. destruct H as [H Hzx].
  apply andb_true_iff in H. destruct H as [H Hss].
  apply andb_true_iff in H. destruct H as [H Hxs].
  apply andb_true_iff in H. destruct H as [H Heps].
  apply andb_true_iff in H. destruct H as [H HN].
  apply andb_true_iff in H. destruct H as [H Lyl].
  apply andb_true_iff in H. destruct H as [H Lzs].
  apply andb_true_iff in H. destruct H as [H Lss].
  apply andb_true_iff in H. destruct H as [H Lzx].
  apply andb_true_iff in H. destruct H as [Hd Lxs].
  apply dims_ok_spec in Hd. destruct Hd as [HAb HA].
  apply Nat.eqb_eq in Lxs, Lzx, Lss, Lzs, Lyl.
  apply negb_true_iff in HN. apply Nat.eqb_neq in HN.
  apply Qltb_lt in Heps, Hrb, Hrc, Hmu.
  apply all_ge0_nonneg in Hxs, Hss, Hzx, Hzs.
  assert (He0 : 0 <= eps) by lra.
  apply (sumsq_small eps _ Heps) in Hrb.
  pose proof (sumsq_nonneg (res_cx w A y zx)) as Hn1.
  pose proof (sumsq_nonneg (res_cs y zs)) as Hn2.
  assert (Hrcx : Forall (fun q => Qabs q <= eps) (res_cx w A y zx)) by (apply sumsq_small; [exact Heps | lra]).
  assert (Hrcs : Forall (fun q => Qabs q <= eps) (res_cs y zs)) by (apply sumsq_small; [exact Heps | lra]).
  split.
  - split.
    + eapply Forall_impl; [|exact Hxs]. intros a Ha. simpl in Ha. lra.
    + apply rows_tol with (s := ss); try assumption; rewrite mv_length; lia.
  - intros xstar [Hxn HAx].
    set (sstar := vsub b (mv A xstar)).
    assert (Hsn : Forall (fun q => 0 <= q) sstar) by (apply slack_nonneg; exact HAx).
    assert (Lvm : length (vm (length w) y A) = length w) by (apply vm_length; exact HA).
    (* w . u = y . (A u) + zx . u - rcx . u *)
    assert (Hw : forall u, dot w u == dot y (mv A u) + dot zx u - dot (res_cx w A y zx) u).
    { intro u. unfold res_cx. rewrite dot_vsub_l by (rewrite vadd_length; lia).
      rewrite dot_vadd_l by lia. rewrite dot_vm by exact HA. ring. }
    (* y . rb = y . (A xs) + y . ss - y . b *)
    assert (Hyb : dot y (res_b A b xs ss) == dot y (mv A xs) + dot y ss - dot y b).
    { unfold res_b. rewrite dot_vsub_r by (rewrite vadd_length; rewrite mv_length; lia).
      rewrite dot_vadd_r by (rewrite mv_length; lia). reflexivity. }
    assert (Hys : dot y sstar == dot y b - dot y (mv A xstar)).
    { unfold sstar. rewrite dot_vsub_r by (rewrite mv_length; lia). reflexivity. }
    (* y . u = rcs . u - zs . u *)
    assert (Hy : forall u, dot y u == dot (res_cs y zs) u - dot zs u).
    { intro u. unfold res_cs. rewrite dot_vadd_l by lia. ring. }
    (* complementarity *)
    assert (Hcomp : dot xs zx + dot ss zs < eps * nat_Q (length xs + length ss)).
    { unfold mu_of in Hmu. assert (HNp : 0 < nat_Q (length xs + length ss)) by (apply nat_Q_pos; lia).
      set (N := nat_Q (length xs + length ss)) in *. set (S := dot xs zx + dot ss zs) in *.
      assert (E : S == S / N * N) by (field; lra).
      assert (L : S / N * N < eps * N) by (apply Qmult_lt_compat_r; assumption).
      lra. }
    pose proof (dot_nonneg _ _ Hzx Hxn) as P1.
    pose proof (dot_nonneg _ _ Hzs Hsn) as P2.
    pose proof (dot_le_bound eps _ y He0 Hrb) as B1.
    pose proof (dot_ge_bound eps _ xs He0 Hrcx) as B2.
    pose proof (dot_le_bound eps _ xstar He0 Hrcx) as B3.
    pose proof (dot_ge_bound eps _ ss He0 Hrcs) as B4.
    pose proof (dot_le_bound eps _ sstar He0 Hrcs) as B5.
    rewrite (dot_comm (res_b A b xs ss) y) in B1.
    rewrite (Hw xs), (Hw xstar).
    pose proof (Hy ss) as E1. pose proof (Hy sstar) as E2.
    pose proof (dot_comm zx xs) as C1. pose proof (dot_comm zs ss) as C2.
    unfold gap_bound. fold sstar.
    lra.
Qed.
