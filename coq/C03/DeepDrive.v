(* Second half of _phase1 (exact arithmetic): driving the artificial variables out of the basis, deleting the
   artificial columns, putting the original objective row back and pricing out the basic columns. *)
From Coq Require Import List QArith Qabs Bool Arith Lia Lqa.
From SV Require Import C03.Simplex C03.LPSpec C03.Cert C03.LinAlgProofs C03.PivotProofs C03.Phase2Entries
  C03.Phase2Inv C03.ExtractProofs C03.OptimalProofs C03.DeepInv C03.DeepExtract C03.DeepArts C03.DeepAux.
Import ListNotations.
Open Scope Q_scope.

Lemma Qabs_pos_true x : Qltb 0 (Qabs x) = true -> ~ x == 0.
Proof.
  intros H Hx. apply Qltb_lt in H. rewrite Hx in H. simpl in H. apply (Qlt_irrefl 0). exact H.
Qed.

Lemma find_drive_col_some basis : forall cs k j0 j,
  find_drive_col 0 basis j0 k cs = Some j ->
  (j0 <= j < j0 + k)%nat /\ mem_nat j basis = false /\ ~ nth (j - j0) cs 0 == 0.
Proof.
  induction cs as [|x cs IH]; intros k j0 j H; destruct k as [|k]; simpl in H; try discriminate.
  destruct (negb (mem_nat j0 basis) && Qltb 0 (Qabs x)) eqn:E.
  - inversion H; subst. apply andb_true_iff in E. destruct E as [E1 E2]. apply negb_true_iff in E1.
    rewrite Nat.sub_diag. simpl. repeat split; [lia | lia | exact E1 | apply Qabs_pos_true; exact E2].
  - apply IH in H. destruct H as [H1 [H2 H3]]. repeat split; try lia; try assumption.
    replace (j - j0)%nat with (S (j - S j0)) by lia. exact H3.
Qed.

Lemma find_drive_col_none basis : forall cs k j0,
  find_drive_col 0 basis j0 k cs = None ->
  forall i, (i < k)%nat -> (i < length cs)%nat -> mem_nat (j0 + i) basis = true \/ nth i cs 0 == 0.
Proof.
  induction cs as [|x cs IH]; intros k j0 H i Hi Hl; simpl in Hl; [lia|].
  destruct k as [|k]; [lia|]. simpl in H.
  destruct (negb (mem_nat j0 basis) && Qltb 0 (Qabs x)) eqn:E; [discriminate|].
  destruct i as [|i].
  - rewrite Nat.add_0_r. apply andb_false_iff in E. destruct E as [E|E].
    + left. apply negb_false_iff in E. exact E.
    + right. simpl. apply Qabs_pos_false. exact E.
  - replace (j0 + S i)%nat with (S j0 + i)%nat by lia. cbn [nth]. apply (IH k (S j0) H i); lia.
Qed.

Lemma mem_nat_true x l : mem_nat x l = true <-> exists p, (p < length l)%nat /\ nth p l 0%nat = x.
Proof.
  unfold mem_nat. rewrite existsb_exists. split.
  - intros [y [Hin Hy]]. apply Nat.eqb_eq in Hy. subst y. apply (In_nth _ _ 0%nat) in Hin. exact Hin.
  - intros [p [Hp Hn]]. exists x. split; [rewrite <- Hn; apply nth_In; exact Hp | apply Nat.eqb_refl].
Qed.

Lemma mem_nat_set_nth_false x i y l : (i < length l)%nat ->
  mem_nat x (set_nth i y l) = false -> x <> nth i l 0%nat -> mem_nat x l = false.
Proof.
  intros Hi Hf Hne. destruct (mem_nat x l) eqn:E; [|reflexivity]. exfalso.
  apply mem_nat_true in E. destruct E as [p [Hp Hn]].
  assert (Hpi : p <> i) by (intro; subst p; auto).
  assert (Ht : mem_nat x (set_nth i y l) = true).
  { apply mem_nat_true. exists p. split; [rewrite set_nth_length; exact Hp|]. rewrite set_nth_other by exact Hpi. exact Hn. }
  congruence.
Qed.

(* a solution-set equivalence of tableaux (objective row included) gives one for the rows alone *)
Lemma tab_equiv_rows T T' v :
  (forall z, tab_sat v z T <-> tab_sat v z T') -> (rows_sat v (t_rows T) <-> rows_sat v (t_rows T')).
Proof.
  intro H. split; intro Hr.
  - assert (Hs : tab_sat v (rval v (t_obj T)) T) by (split; [exact Hr | apply obj_sat_rval; reflexivity]).
    apply H in Hs. destruct Hs as [Hs _]. exact Hs.
  - assert (Hs : tab_sat v (rval v (t_obj T')) T') by (split; [exact Hr | apply obj_sat_rval; reflexivity]).
    apply H in Hs. destruct Hs as [Hs _]. exact Hs.
Qed.

(* ---- drive_out *)
Definition drive_step (arts : list nat) (N : nat) (i : nat) (st : tableau * list nat * list (nat * nat)) :=
  let '(T, basis, piv) := st in
  if mem_nat (nth i basis O) arts then
    match find_drive_col 0 basis 0 N (fst (nth i (t_rows T) row0)) with
    | Some j => (pivot 0 T i j, set_nth i j basis, piv ++ [(i, j)])
    | None => st
    end
  else st.

Lemma drive_out_S arts N k i st :
  drive_out 0 arts N (S k) i st = drive_out 0 arts N k (S i) (drive_step arts N i st).
Proof. destruct st as [[T basis] piv]. reflexivity. Qed.

Section Drive.
  Variables (N a : nat) (T2 : tableau).
  Let W := (N + a)%nat.
  Let arts := seq N a.

  Definition drive_inv (i : nat) (st : tableau * list nat * list (nat * nat)) : Prop :=
    let '(T, basis, _) := st in
    g_str W T basis /\ rhs_nonneg T
    /\ (forall i', (i' < length basis)%nat -> (nth i' basis 0 < W)%nat)
    /\ (forall i', (i' < length basis)%nat -> (N <= nth i' basis 0)%nat -> rhs T i' == 0)
    /\ (forall v, rows_sat v (t_rows T) <-> rows_sat v (t_rows T2))
    /\ (forall i' j, (i' < i)%nat -> (i' < length basis)%nat -> (N <= nth i' basis 0)%nat -> (j < N)%nat ->
                     mem_nat j basis = false -> entry T i' j == 0).

  Lemma drive_step_inv i st : drive_inv i st -> (i < length (snd (fst st)))%nat ->
    drive_inv (S i) (drive_step arts N i st).
  Proof.
    destruct st as [[T basis] piv]. cbn [fst snd]. intros [Hs [Hr [Hlt [Hz [Heq Hdone]]]]] Hi.
    unfold drive_step.
    pose proof (g_wf _ _ _ Hs) as Hwf. pose proof (g_len _ _ _ Hs) as Hlen.
    assert (Hik : (i < length (t_rows T))%nat) by lia.
    assert (Hmem : mem_nat (nth i basis 0%nat) arts = negb (Nat.ltb (nth i basis 0%nat) N)).
    { unfold arts. rewrite mem_nat_seq. specialize (Hlt i Hi). unfold W in Hlt.
      assert (E : Nat.ltb (nth i basis 0%nat) (N + a) = true) by (apply Nat.ltb_lt; exact Hlt). rewrite E, andb_true_r.
      destruct (Nat.leb N (nth i basis 0%nat)) eqn:E1; destruct (Nat.ltb (nth i basis 0%nat) N) eqn:E2; try reflexivity.
      - apply Nat.leb_le in E1. apply Nat.ltb_lt in E2. lia.
      - apply Nat.leb_gt in E1. apply Nat.ltb_ge in E2. lia. }
    rewrite Hmem. destruct (Nat.ltb (nth i basis 0%nat) N) eqn:Elive; cbn [negb].
    - (* basic variable of row i is not artificial *)
      apply Nat.ltb_lt in Elive. unfold drive_inv. split; [exact Hs|]. split; [exact Hr|]. split; [exact Hlt|]. split; [exact Hz|]. split; [exact Heq|].
      intros i' j Hi' Hi'b Hge Hj Hm. apply Hdone; try assumption.
      destruct (Nat.eq_dec i' i) as [->|Hne]; [lia | lia].
    - apply Nat.ltb_ge in Elive.
      destruct (find_drive_col 0 basis 0 N (fst (nth i (t_rows T) row0))) as [j|] eqn:Ef.
      + (* pivot (i, j) *)
        apply find_drive_col_some in Ef. destruct Ef as [Hj [Hjm Hjne]]. rewrite Nat.sub_0_r in Hjne.
        fold (get (fst (nth i (t_rows T) row0)) j) in Hjne. fold (entry T i j) in Hjne.
        assert (HjN : (j < N)%nat) by lia.
        assert (Hri : rhs T i == 0) by (apply Hz; assumption).
        assert (Hrhs_same : forall k, (k < length (t_rows T))%nat -> rhs (pivot 0 T i j) k == rhs T k).
        { intros k Hk. destruct (Nat.eq_dec k i) as [->|Hne].
          - rewrite (rhs_pivot_l T i j Hik), Hri. ring.
          - rewrite (rhs_pivot_other T i j k) by assumption. rewrite Hri. ring. }
        unfold drive_inv. split; [|split; [|split; [|split; [|split]]]].
        * apply pivot_str; try assumption. unfold W. lia.
        * intros k Hk. rewrite pivot0_rows_length in Hk. rewrite Hrhs_same by exact Hk. apply Hr. exact Hk.
        * intros i' Hi'. rewrite set_nth_length in Hi'. destruct (Nat.eq_dec i' i) as [->|Hne].
          -- rewrite set_nth_same by exact Hi. unfold W. lia.
          -- rewrite set_nth_other by exact Hne. apply Hlt. exact Hi'.
        * intros i' Hi' Hge. rewrite set_nth_length in Hi'. destruct (Nat.eq_dec i' i) as [->|Hne].
          -- rewrite set_nth_same in Hge by exact Hi. lia.
          -- rewrite set_nth_other in Hge by exact Hne. rewrite Hrhs_same by lia. apply Hz; assumption.
        * intro v. rewrite <- Heq. symmetry. apply tab_equiv_rows. intro z.
          apply (pivot_equiv W); assumption.
        * intros i' j' Hi' Hi'b Hge Hj' Hm. rewrite set_nth_length in Hi'b.
          destruct (Nat.eq_dec i' i) as [->|Hne]; [rewrite set_nth_same in Hge by exact Hi; lia|].
          rewrite set_nth_other in Hge by exact Hne.
          assert (Hm' : mem_nat j' basis = false).
          { apply (mem_nat_set_nth_false j' i j basis Hi Hm). lia. }
          assert (Hi'k : (i' < length (t_rows T))%nat) by lia.
          rewrite (entry_pivot_other W T i j Hwf Hik i' j' Hi'k Hne).
          rewrite (Hdone i' j') by (try assumption; lia).
          rewrite (Hdone i' j) by (try assumption; lia). ring.
      + (* nothing to pivot on: the row is zero on every non-basic column < N *)
        unfold drive_inv. split; [exact Hs|]. split; [exact Hr|]. split; [exact Hlt|]. split; [exact Hz|]. split; [exact Heq|].
        intros i' j Hi' Hi'b Hge Hj Hm.
        destruct (Nat.eq_dec i' i) as [->|Hne]; [|apply Hdone; try assumption; lia].
        pose proof (find_drive_col_none basis _ _ _ Ef j Hj) as Hn.
        rewrite (row_len W T Hwf i Hik) in Hn. unfold W in Hn. specialize (Hn ltac:(lia)).
        simpl in Hn. destruct Hn as [Hn|Hn]; [congruence | exact Hn].
  Qed.

  Lemma drive_step_len i st : length (snd (fst (drive_step arts N i st))) = length (snd (fst st)).
  Proof.
    destruct st as [[T basis] piv]. unfold drive_step. cbn [fst snd].
    destruct (mem_nat (nth i basis 0%nat) arts); [|reflexivity].
    destruct (find_drive_col 0 basis 0 N (fst (nth i (t_rows T) row0))); [|reflexivity].
    cbn [fst snd]. apply set_nth_length.
  Qed.

  Lemma drive_out_len k : forall i st,
    length (snd (fst (drive_out 0 arts N k i st))) = length (snd (fst st)).
  Proof.
    induction k as [|k IH]; intros i st; [reflexivity|]. rewrite drive_out_S, IH. apply drive_step_len.
  Qed.

  Lemma drive_out_inv k : forall i st, (i + k = length (snd (fst st)))%nat -> drive_inv i st ->
    drive_inv (i + k) (drive_out 0 arts N k i st).
  Proof.
    induction k as [|k IH]; intros i st Hik Hinv.
    - simpl. rewrite Nat.add_0_r. exact Hinv.
    - rewrite drive_out_S. replace (i + S k)%nat with (S i + k)%nat by lia. apply IH.
      + rewrite drive_step_len. lia.
      + apply drive_step_inv; [exact Hinv | lia].
  Qed.
End Drive.

(* ---- deleting the last a columns *)
Lemma dot_drop N a l v : length l = (N + a)%nat -> length v = N ->
  dot (drop_last a l) v == dot l (v ++ zeros a).
Proof.
  intros Hl Hv. unfold drop_last. replace (length l - a)%nat with N by lia.
  rewrite <- (firstn_skipn N l) at 2. rewrite dot_app by (rewrite firstn_length; lia).
  rewrite dot_zeros_r. ring.
Qed.

Lemma get_firstn n l j : (j < n)%nat -> get (firstn n l) j = get l j.
Proof.
  unfold get. revert n j. induction l as [|x l IH]; intros n j H.
  - rewrite firstn_nil. reflexivity.
  - destruct n as [|n]; [lia|]. destruct j as [|j]; simpl; [reflexivity|]. apply IH. lia.
Qed.

Lemma get_drop N a l j : length l = (N + a)%nat -> (j < N)%nat -> get (drop_last a l) j = get l j.
Proof. intros Hl Hj. unfold drop_last. apply get_firstn. lia. Qed.

Lemma drop_length N a l : length l = (N + a)%nat -> length (drop_last a l) = N.
Proof. intro H. unfold drop_last. rewrite firstn_length. lia. Qed.

(* ---- pricing out the basic columns of the restored objective row *)
Lemma restore_length basis rows : forall s o, length (fst (restore_obj 0 basis s rows o)) = length (fst o).
Proof.
  induction rows as [|r rows IH]; intros s o; simpl; [reflexivity|]. rewrite IH.
  destruct (Nat.ltb (nth s basis 0%nat) (length (fst o))); [|reflexivity].
  destruct (Qltb 0 (Qabs (get (fst o) (nth s basis 0%nat)))); [|reflexivity].
  simpl. rewrite map_length. apply vsubmul_length.
Qed.

(* one step, entry-wise and as an affine form (whether or not a zero cost is skipped) *)
Definition restore_step (basis : list nat) (s : nat) (r o : row) : row :=
  let var := nth s basis O in
  if Nat.ltb var (length (fst o)) then
    let cost := get (fst o) var in
    if Qltb 0 (Qabs cost) then rnorm (rsubmul cost o r) else o
  else o.

Lemma restore_step_get basis s r o j : length (fst r) = length (fst o) ->
  get (fst (restore_step basis s r o)) j ==
  if Nat.ltb (nth s basis 0%nat) (length (fst o))
  then get (fst o) j - get (fst o) (nth s basis 0%nat) * get (fst r) j else get (fst o) j.
Proof.
  intro Hl. unfold restore_step. destruct (Nat.ltb (nth s basis 0%nat) (length (fst o))); [|reflexivity].
  destruct (Qltb 0 (Qabs (get (fst o) (nth s basis 0%nat)))) eqn:E.
  - rewrite get_rnorm. unfold rsubmul. cbn [fst]. apply get_vsubmul. exact Hl.
  - apply Qabs_pos_false in E. rewrite E. ring.
Qed.

Lemma restore_step_rval basis s r o v : length (fst r) = length (fst o) -> rval v r == 0 ->
  rval v (restore_step basis s r o) == rval v o.
Proof.
  intros Hl Hr. unfold restore_step. destruct (Nat.ltb (nth s basis 0%nat) (length (fst o))); [|reflexivity].
  destruct (Qltb 0 (Qabs (get (fst o) (nth s basis 0%nat)))); [|reflexivity].
  rewrite rval_rnorm, rval_rsubmul by exact Hl. rewrite Hr. ring.
Qed.

Lemma restore_step_length basis s r o : length (fst (restore_step basis s r o)) = length (fst o).
Proof.
  unfold restore_step. destruct (Nat.ltb (nth s basis 0%nat) (length (fst o))); [|reflexivity].
  destruct (Qltb 0 (Qabs (get (fst o) (nth s basis 0%nat)))); [|reflexivity].
  simpl. rewrite map_length. apply vsubmul_length.
Qed.

Lemma restore_obj_cons basis s r rows o :
  restore_obj 0 basis s (r :: rows) o = restore_obj 0 basis (S s) rows (restore_step basis s r o).
Proof. reflexivity. Qed.

Lemma restore_rval basis v rows : forall s o,
  Forall (fun r : row => length (fst r) = length (fst o)) rows -> Forall (fun r => rval v r == 0) rows ->
  rval v (restore_obj 0 basis s rows o) == rval v o.
Proof.
  induction rows as [|r rows IH]; intros s o Hl Hs; [reflexivity|].
  rewrite restore_obj_cons. inversion Hl; subst. inversion Hs; subst.
  rewrite IH; [apply restore_step_rval; assumption | | assumption].
  rewrite restore_step_length. assumption.
Qed.

Lemma restore_zero N basis M rows : forall s o,
  length (fst o) = N -> Forall (fun r : row => length (fst r) = N) rows -> (s + length rows = M)%nat ->
  (forall i' k, (i' < M)%nat -> (nth i' basis 0 < N)%nat -> (s <= k < M)%nat ->
                get (fst (nth (k - s) rows row0)) (nth i' basis 0%nat) == if Nat.eqb k i' then 1 else 0) ->
  (forall i', (i' < s)%nat -> (nth i' basis 0 < N)%nat -> get (fst o) (nth i' basis 0%nat) == 0) ->
  forall i', (i' < M)%nat -> (nth i' basis 0 < N)%nat ->
             get (fst (restore_obj 0 basis s rows o)) (nth i' basis 0%nat) == 0.
Proof.
  induction rows as [|r rows IH]; intros s o Lo Hl HsM Hu Hdone i' Hi' Hlive.
  - simpl in *. apply Hdone; [lia | exact Hlive].
  - rewrite restore_obj_cons. pose proof (Forall_inv Hl) as Hr1. pose proof (Forall_inv_tail Hl) as Hr2.
    cbn beta in Hr1. simpl in HsM.
    apply (IH (S s)); try assumption.
    + rewrite restore_step_length. exact Lo.
    + lia.
    + intros i1 k Hi1 Hl1 Hk. specialize (Hu i1 k Hi1 Hl1 ltac:(lia)).
      replace (k - s)%nat with (S (k - S s)) in Hu by lia. exact Hu.
    + intros i1 Hi1 Hl1. rewrite restore_step_get by (rewrite Lo; exact Hr1).
      destruct (Nat.ltb (nth s basis 0%nat) (length (fst o))) eqn:Es.
      * pose proof (Hu i1 s ltac:(lia) Hl1 ltac:(lia)) as H1. rewrite Nat.sub_diag in H1. cbn [nth] in H1.
        destruct (Nat.eq_dec i1 s) as [->|Hne].
        -- rewrite Nat.eqb_refl in H1. rewrite H1. ring.
        -- assert (E : Nat.eqb s i1 = false) by (apply Nat.eqb_neq; lia). rewrite E in H1.
           rewrite H1, (Hdone i1) by (try assumption; lia). ring.
      * apply Nat.ltb_ge in Es. destruct (Nat.eq_dec i1 s) as [->|Hne]; [lia|].
        apply Hdone; [lia | exact Hl1].
Qed.
