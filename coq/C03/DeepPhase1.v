(* _phase1 as a whole (exact arithmetic, any iteration limit), for an abstract start tableau whose basis0 columns
   are unit columns and in which some rhs is negative:
   - it never answers UNBOUNDED;
   - OPTIMAL: the tableau handed to the second _phase2 satisfies the (generalised) phase-2 invariant and has, on
     vectors of the original length, the same solutions (objective row included) as the start tableau;
   - INFEASIBLE: the start rows have no non-negative solution. *)
From Coq Require Import List QArith Qabs Bool Arith Lia Lqa.
From SV Require Import C03.Simplex C03.LPSpec C03.Cert C03.LinAlgProofs C03.PivotProofs C03.Phase2Entries
  C03.Phase2Inv C03.ExtractProofs C03.OptimalProofs C03.DeepInv C03.DeepExtract C03.DeepArts C03.DeepAux
  C03.DeepDrive.
Import ListNotations.
Open Scope Q_scope.

Lemma phase2_status fuel : forall it T basis piv st it' T' basis' piv',
  phase2 0 fuel it T basis piv = (st, it', T', basis', piv') ->
  st <> INFEASIBLE /\ length basis' = length basis.
Proof.
  induction fuel as [|fuel IH]; intros it T basis piv st it' T' basis' piv' H; simpl in H.
  - inversion H; subst. split; [discriminate | reflexivity].
  - destruct (find_enter 0 basis T) as [e|].
    + destruct (find_leave 0 basis T e) as [l|].
      * apply IH in H. rewrite set_nth_length in H. exact H.
      * inversion H; subst. split; [discriminate | reflexivity].
    + inversion H; subst. split; [discriminate | reflexivity].
Qed.

Lemma objc_nonneg_g N T basis : g_inv N T basis -> find_enter 0 basis T = None ->
  Forall (fun q => 0 <= q) (fst (t_obj T)).
Proof.
  intros [Hs _] Hn. apply Forall_nth. intros j d Hj. rewrite (nth_indep _ d 0) by exact Hj.
  destruct (find_enter_none basis T Hn j Hj) as [Hm|H]; [|exact H].
  unfold mem_nat in Hm. apply existsb_exists in Hm. destruct Hm as [x [Hin Hx]]. apply Nat.eqb_eq in Hx. subst x.
  apply (In_nth _ _ 0%nat) in Hin. destruct Hin as [i [Hi Hnth]].
  pose proof (g_obj _ _ _ Hs i Hi) as H0. rewrite Hnth in H0. unfold objc, get in H0. lra.
Qed.

(* OPTIMAL stop: the objective value of every non-negative solution is at least that of the basic solution *)
Lemma optimal_lower_bound N T basis w z : g_inv N T basis -> find_enter 0 basis T = None ->
  tab_sat w z T -> Forall (fun q => 0 <= q) w -> - snd (t_obj T) <= z.
Proof.
  intros Hg Hn [_ Ho] Hw. unfold obj_sat in Ho.
  pose proof (dot_nonneg _ _ (objc_nonneg_g N T basis Hg Hn) Hw). lra.
Qed.

(* UNBOUNDED stop: non-negative solutions of arbitrarily small objective value *)
Lemma unbounded_below N T basis e M : g_inv N T basis ->
  find_enter 0 basis T = Some e -> find_leave 0 basis T e = None ->
  exists w z, length w = N /\ Forall (fun q => 0 <= q) w /\ tab_sat w z T /\ z < M.
Proof.
  intros Hg He Hl. pose proof (find_enter_some basis T e He) as [_ [_ Hneg]]. fold (objc T e) in Hneg.
  set (s := snd (t_obj T)).
  (* t with t * objc - s < M *)
  set (d := Qabs (M + s) + 1).
  assert (Hd : 0 < d) by (unfold d; pose proof (Qabs_nonneg (M + s)); lra).
  assert (HdM : - d < M + s).
  { unfold d. pose proof (Qle_Qabs (- (M + s))) as H. rewrite Qabs_opp in H. lra. }
  set (t := d / - objc T e).
  assert (Ht : 0 <= t).
  { unfold t, Qdiv. apply Qmult_le_0_compat; [lra|]. apply Qlt_le_weak. apply Qinv_lt_0_compat. lra. }
  destruct (ray_point N T basis e t Hg He Hl Ht) as [w [Lw [Hw Hs]]].
  exists w, (t * objc T e - s). split; [exact Lw|]. split; [exact Hw|]. split; [exact Hs|].
  assert (Et : t * objc T e == - d) by (unfold t; field; lra). rewrite Et. lra.
Qed.

Lemma Forall_nth_lt (P : nat -> Prop) l i : Forall P l -> (i < length l)%nat -> P (nth i l 0%nat).
Proof. intros H Hi. rewrite Forall_forall in H. apply H. apply nth_In. exact Hi. Qed.

Section Phase1.
  Variables (n m : nat) (T0 : tableau) (basis0 : list nat).
  Let N := (n + m)%nat.
  Hypothesis Hwf0 : tab_wf N T0.
  Hypothesis Hm : length (t_rows T0) = m.
  Hypothesis Hb0 : length basis0 = m.
  Hypothesis Hlt0 : forall i, (i < m)%nat -> (nth i basis0 0 < N)%nat.
  Hypothesis Hunit0 : forall i k, (i < m)%nat -> (k < m)%nat ->
    get (fst (nth k (t_rows T0) row0)) (nth i basis0 0%nat) == if Nat.eqb k i then 1 else 0.
  Hypothesis Hneg : exists k, (k < m)%nat /\ snd (nth k (t_rows T0) row0) < 0.

  Theorem phase1_spec fuel st iters T1 basis1 piv1 :
    phase1 0 fuel m n T0 basis0 = (st, iters, T1, basis1, piv1) ->
    st <> UNBOUNDED
    /\ (st = OPTIMAL ->
        g_inv N T1 basis1 /\ forall v z, length v = N -> (tab_sat v z T0 <-> tab_sat v z T1))
    /\ (st = INFEASIBLE ->
        forall v, length v = N -> Forall (fun q => 0 <= q) v -> ~ rows_sat v (t_rows T0)).
  Proof.
    intro H. unfold phase1 in H. cbv zeta in H. fold N in H.
    destruct Hwf0 as [Hrows0 Hobj0].
    destruct (add_arts 0 N m 0 (t_rows T0, t_obj T0, basis0, [])) as [[[rows1 obj1] bas1] arts] eqn:Ea.
    pose proof (add_arts_spec N m (t_rows T0) basis0 Hm Hb0 Hlt0 (t_obj T0) rows1 obj1 bas1 arts Ea) as Hinv.
    assert (Ha : arts <> []).
    { destruct Hneg as [k [Hk Hlt]]. destruct Hinv as [_ [_ [_ [Hspec _]]]].
      destruct (Hspec k Hk) as [ext [_ [[_ [_ [Hpos _]]]|[p [Hp _]]]]].
      - specialize (Hpos Hk). lra.
      - intro; subst arts; simpl in Hp; lia. }
    assert (Hmatch : forall X Y : p2_result, match arts with [] => X | _ :: _ => Y end = Y)
      by (intros X Y; destruct arts; [contradiction | reflexivity]).
    rewrite Hmatch in H. clear Hmatch.
    set (a := length arts) in *.
    assert (Hw : length (fst obj1) = (N + a)%nat).
    { pose proof (add_arts_obj N m 0 _ _ _ _ _ _ _ _ Ea) as [Hw _]. cbn [length fst] in Hw. rewrite Hobj0 in Hw.
      fold a in Hw. lia. }
    rewrite Hw in H.
    set (aux := aux_obj_loop arts bas1 0 rows1 (aux_obj0 (N + a) arts)) in *.
    set (Tx := mkT rows1 aux) in *.
    destruct (T1_inv N m (t_rows T0) basis0 Hrows0 Hm Hb0 Hlt0 Hunit0 rows1 obj1 bas1 arts Hinv) as [Hg1 Hall1].
    fold a in Hg1, Hall1. fold aux in Hg1. fold Tx in Hg1.
    destruct (phase2 0 fuel 0 Tx bas1 []) as [[[[st2 it2] T2] basis2] piv2] eqn:E2.
    destruct (phase2_ginv (N + a) _ _ _ _ _ _ _ _ _ _ Hg1 E2) as [Hg2 [Heq2 [Hopt2 [Hunb2 Hall2]]]].
    specialize (Hall2 Hall1).
    destruct (phase2_status _ _ _ _ _ _ _ _ _ _ E2) as [Hst2 Hlen2].
    assert (Lb1 : length bas1 = m) by (apply (A_lb N m (t_rows T0) basis0 rows1 obj1 bas1 arts Hinv)).
    assert (Harts : arts = seq N a) by (apply (A_arts N m (t_rows T0) basis0 rows1 obj1 bas1 arts Hinv)).
    (* the code's threshold  eps * max(1, total initial infeasibility)  is 0 for eps = 0 *)
    set (tol := 0 * (if Qltb 1 (- snd aux) then - snd aux else 1)) in *.
    assert (Htol : tol == 0) by (unfold tol; ring).
    destruct (Qltb (snd (t_obj T2)) (- tol)) eqn:Einf.
    - (* the auxiliary optimum is positive *)
      apply Qltb_lt in Einf. rewrite Htol in Einf. inversion H; subst st iters T1 basis1 piv1. clear H.
      split; [destruct st2; discriminate|]. split; [destruct st2; discriminate|].
      intros Hst v Lv Hv Hsat.
      pose proof (T1_embed N m (t_rows T0) basis0 Hrows0 Hm Hb0 Hlt0 rows1 obj1 bas1 arts Hinv v Lv Hsat) as Hemb.
      fold a in Hemb. fold aux in Hemb. fold Tx in Hemb.
      assert (Hvn : Forall (fun q => 0 <= q) (v ++ zeros a)).
      { apply Forall_app. split; [exact Hv|]. unfold zeros. apply Forall_forall. intros q Hq.
        apply repeat_spec in Hq. subst q. lra. }
      destruct st2; try discriminate; try congruence.
      + (* phase 2 on the auxiliary problem stopped at an optimum *)
        apply Heq2 in Hemb.
        pose proof (optimal_lower_bound _ _ _ _ _ Hg2 (Hopt2 eq_refl) Hemb Hvn). lra.
      + (* ... or claimed an unbounded auxiliary objective: impossible, it is >= 0 *)
        destruct (Hunb2 eq_refl) as [e [He Hl]].
        destruct (unbounded_below _ _ _ e 0 Hg2 He Hl) as [w [z [_ [Hwn [Hws Hz]]]]].
        apply Heq2 in Hws.
        pose proof (T1_obj_nonneg N m (t_rows T0) basis0 Hrows0 Hm Hb0 rows1 obj1 bas1 arts Hinv w z) as Hnn.
        fold a in Hnn. fold aux in Hnn. fold Tx in Hnn. specialize (Hnn Hws Hwn). lra.
    - (* artificials are zero: drive them out, drop their columns, restore the objective *)
      apply Qltb_false in Einf. rewrite Htol in Einf.
      destruct (drive_out 0 arts N m 0 (T2, basis2, piv2)) as [[T3 basis3] piv3] eqn:E3.
      inversion H; subst st iters T1 basis1 piv1. clear H.
      split; [discriminate|]. split; [|discriminate]. intros _.
      destruct Hg2 as [Hs2 Hr2].
      assert (Lb2 : length basis2 = m) by lia.
      (* rows whose basic variable is artificial have rhs 0 *)
      assert (Hz2 : forall i', (i' < length basis2)%nat -> (N <= nth i' basis2 0)%nat -> rhs T2 i' == 0).
      { intros i' Hi' Hge.
        assert (Hlt : (nth i' basis2 0 < N + a)%nat) by (apply Forall_nth_lt; assumption).
        rewrite <- (get_bsol_basic (N + a) T2 basis2 i' Hs2 Hi' Hlt).
        pose proof (bsol_sat_g (N + a) T2 basis2 Hs2) as Hbs. apply Heq2 in Hbs.
        pose proof (T1_art_zero N m (t_rows T0) basis0 Hrows0 Hm Hb0 rows1 obj1 bas1 arts Hinv
                      (bsol (N + a) T2 basis2) (- snd (t_obj T2)) (nth i' basis2 0%nat)) as Hz.
        fold a in Hz. fold aux in Hz. fold Tx in Hz. apply Hz; [exact Hbs | apply bsol_nonneg_g; exact Hr2 | lra | lia]. }
      assert (Hd0 : drive_inv N a T2 0 (T2, basis2, piv2)).
      { unfold drive_inv. split; [exact Hs2|]. split; [exact Hr2|].
        split; [intros i' Hi'; apply Forall_nth_lt; assumption|]. split; [exact Hz2|].
        split; [intro v; tauto|]. intros i' j Hi'. lia. }
      pose proof (drive_out_len N a m 0 (T2, basis2, piv2)) as Lb3. rewrite <- Harts, E3 in Lb3. cbn [fst snd] in Lb3.
      pose proof (drive_out_inv N a T2 m 0 (T2, basis2, piv2)) as Hd. cbn [fst snd] in Hd.
      specialize (Hd ltac:(lia) Hd0). rewrite <- Harts in Hd. rewrite E3 in Hd. cbn [Nat.add] in Hd.
      destruct Hd as [Hs3 [Hr3 [Hlt3 [Hz3 [Heq3 Hdone3]]]]].
      pose proof (g_wf _ _ _ Hs3) as [Hwr3 Hwo3]. pose proof (g_len _ _ _ Hs3) as Hlen3.
      set (rows4 := map (drop_cols a) (t_rows T3)).
      set (obj4 := restore_obj 0 basis3 0 rows4 (t_obj T0)).
      set (T4 := mkT rows4 obj4).
      assert (L4 : length rows4 = length (t_rows T3)) by (unfold rows4; apply map_length).
      assert (Hrow3len : forall k, (k < length (t_rows T3))%nat -> length (fst (nth k (t_rows T3) row0)) = (N + a)%nat).
      { intros k Hk. rewrite Forall_forall in Hwr3. apply Hwr3. apply nth_In. exact Hk. }
      assert (Hnth4 : forall k, (k < length (t_rows T3))%nat ->
                 nth k rows4 row0 = drop_cols a (nth k (t_rows T3) row0)).
      { intros k Hk. unfold rows4. apply nth_map_in. exact Hk. }
      assert (Hentry4 : forall k j, (k < length (t_rows T3))%nat -> (j < N)%nat -> entry T4 k j = entry T3 k j).
      { intros k j Hk Hj. unfold entry, T4. cbn [t_rows]. rewrite Hnth4 by exact Hk. unfold drop_cols. cbn [fst].
        apply (get_drop N a); [apply Hrow3len; exact Hk | exact Hj]. }
      assert (Hrhs4 : forall k, (k < length (t_rows T3))%nat -> rhs T4 k = rhs T3 k).
      { intros k Hk. unfold rhs, T4. cbn [t_rows]. rewrite Hnth4 by exact Hk. reflexivity. }
      assert (Hlen4 : Forall (fun r : row => length (fst r) = N) rows4).
      { unfold rows4. apply Forall_forall. intros r Hr. apply in_map_iff in Hr. destruct Hr as [r3 [Hr Hin]]. subst r.
        unfold drop_cols. cbn [fst]. apply (drop_length N a). rewrite Forall_forall in Hwr3. apply Hwr3. exact Hin. }
      assert (Hunit4 : forall i k, (i < length basis3)%nat -> (nth i basis3 0 < N)%nat -> (k < length (t_rows T3))%nat ->
                 entry T4 k (nth i basis3 0%nat) == if Nat.eqb k i then 1 else 0).
      { intros i k Hi Hlive Hk. rewrite Hentry4 by assumption. apply (g_unit _ _ _ Hs3); try assumption. lia. }
      assert (Hobjlen4 : length (fst obj4) = N) by (unfold obj4; rewrite restore_length; exact Hobj0).
      split; [split|].
      + constructor.
        * split; [exact Hlen4 | exact Hobjlen4].
        * cbn [t_rows T4]. unfold T4. cbn [t_rows]. lia.
        * intros i k Hi Hlive Hk. unfold T4 in Hk. cbn [t_rows] in Hk. apply Hunit4; try assumption. lia.
        * intros i Hi Hge. assert (Hik : (i < length (t_rows T3))%nat) by lia. split.
          -- intro j. destruct (Nat.lt_ge_cases j N) as [Hj|Hj].
             ++ rewrite Hentry4 by assumption.
                destruct (mem_nat j basis3) eqn:Em.
                ** apply mem_nat_true in Em. destruct Em as [p [Hp Hpj]].
                   assert (Hpi : i <> p) by (intro; subst p; lia).
                   pose proof (g_unit _ _ _ Hs3 p i Hp ltac:(lia) Hik) as Hu. rewrite Hpj in Hu.
                   apply Nat.eqb_neq in Hpi. rewrite Hpi in Hu. exact Hu.
                ** apply Hdone3; try assumption. lia.
             ++ unfold entry. rewrite get_overflow; [reflexivity|].
                rewrite Forall_forall in Hlen4. rewrite (Hlen4 (nth i (t_rows T4) row0)); [exact Hj|].
                apply nth_In. unfold T4. cbn [t_rows]. lia.
          -- rewrite Hrhs4 by exact Hik. apply Hz3; assumption.
        * intros i Hi. unfold objc, T4. cbn [t_obj].
          destruct (Nat.lt_ge_cases (nth i basis3 0%nat) N) as [Hlive|Hge].
          -- unfold obj4. apply (restore_zero N basis3 (length rows4) rows4 0 (t_obj T0)); try assumption; try lia.
             intros i' k Hi' Hl' Hk. rewrite Nat.sub_0_r.
             apply (Hunit4 i' k); try assumption; lia.
          -- rewrite get_overflow by lia. reflexivity.
      + intros k Hk. unfold T4 in Hk. cbn [t_rows] in Hk. rewrite Hrhs4 by lia. apply Hr3. lia.
      + (* same solutions as the start tableau on vectors of length N *)
        intros v z Lv.
        assert (Hrows : rows_sat v rows4 <-> rows_sat v (t_rows T0)).
        { rewrite <- (A_rows_equiv N m (t_rows T0) basis0 Hrows0 Hm Hb0 Hlt0 rows1 obj1 bas1 arts Hinv v Lv).
          fold a. change rows1 with (t_rows Tx). rewrite (tab_equiv_rows Tx T2 (v ++ zeros a) (fun z' => Heq2 _ z')).
          rewrite <- Heq3. unfold rows_sat, rows4. rewrite Forall_map.
          split; intro HF; apply Forall_forall; intros r Hr; rewrite Forall_forall in HF; specialize (HF r Hr);
            rewrite Forall_forall in Hwr3; specialize (Hwr3 r Hr); unfold row_sat, drop_cols in *; cbn [fst snd] in *.
          - rewrite <- (dot_drop N a) by assumption. exact HF.
          - rewrite (dot_drop N a) by assumption. exact HF. }
        assert (Hobj : rows_sat v rows4 -> rval v obj4 == rval v (t_obj T0)).
        { intro Hs4. unfold obj4. apply restore_rval.
          - rewrite Hobj0. exact Hlen4.
          - unfold rows_sat in Hs4. apply Forall_forall. intros r Hr. rewrite Forall_forall in Hs4.
            apply row_sat_rval. apply Hs4. exact Hr. }
        unfold tab_sat, T4. cbn [t_rows t_obj]. fold (rows_sat v rows4) (rows_sat v (t_rows T0)).
        rewrite !obj_sat_rval. split; intros [H1 H2].
        * apply Hrows in H1. split; [exact H1|]. rewrite (Hobj H1). exact H2.
        * split; [apply Hrows; exact H1|]. rewrite <- (Hobj H1). exact H2.
  Qed.
End Phase1.
