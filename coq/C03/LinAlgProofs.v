(* Linear-algebra lemmas over Q lists used by the C03 proofs (dot, mv, vadd, vm) and the
   reflection lemmas of the boolean comparisons. *)
From Coq Require Import List QArith Qabs Bool Arith Lia Lqa.
From SV Require Import C03.Simplex C03.LPSpec C03.Cert.
Import ListNotations.
Open Scope Q_scope.

Lemma Qleb_le a b : Qleb a b = true <-> a <= b.
Proof. unfold Qleb. apply Qle_bool_iff. Qed.

Lemma Qltb_lt a b : Qltb a b = true <-> a < b.
Proof.
  unfold Qltb. rewrite negb_true_iff. split; intro H.
  - apply Qnot_le_lt. intro Hle. apply Qle_bool_iff in Hle. congruence.
  - destruct (Qle_bool b a) eqn:E; [|reflexivity].
    apply Qle_bool_iff in E. exfalso. apply (Qlt_not_le _ _ H E).
Qed.

Lemma Qltb_false a b : Qltb a b = false <-> b <= a.
Proof.
  unfold Qltb. rewrite negb_false_iff. apply Qle_bool_iff.
Qed.

Lemma Qleb_false a b : Qleb a b = false <-> b < a.
Proof.
  unfold Qleb. split; intro H.
  - apply Qnot_le_lt. intro Hle. apply Qle_bool_iff in Hle. congruence.
  - destruct (Qle_bool a b) eqn:E; [|reflexivity].
    apply Qle_bool_iff in E. exfalso. apply (Qlt_not_le _ _ H E).
Qed.

Lemma all_ge_spec lo l : all_ge lo l = true <-> Forall (fun v => lo <= v) l.
Proof.
  unfold all_ge. rewrite forallb_forall, Forall_forall.
  split; intros H x Hx; apply Qleb_le; auto.
Qed.

Lemma all_le2_spec tol l r : all_le2 tol l r = true <-> Forall2 (fun a b => a <= b + tol) l r.
Proof.
  revert r. induction l as [|x l IH]; intros [|y r]; simpl; split; intro H;
    try discriminate; try constructor; try (inversion H; fail).
  - apply andb_true_iff in H. destruct H as [H1 H2]. apply Qleb_le. exact H1.
  - apply andb_true_iff in H. destruct H as [H1 H2]. apply IH. exact H2.
  - inversion H; subst. apply andb_true_iff. split; [apply Qleb_le; assumption | apply IH; assumption].
Qed.

(* ---- dot *)
Lemma dot_nil_r a : dot a [] = 0.
Proof. destruct a; reflexivity. Qed.

Lemma dot_comm a v : dot a v == dot v a.
Proof.
  revert v. induction a as [|x a IH]; intros [|y v]; simpl; try reflexivity.
  rewrite IH. ring.
Qed.

Lemma dot_nonneg a v : Forall (fun q => 0 <= q) a -> Forall (fun q => 0 <= q) v -> 0 <= dot a v.
Proof.
  intros Ha. revert v. induction Ha as [|x a Hx Ha IH]; intros v Hv; simpl; [lra|].
  destruct Hv as [|y v Hy Hv]; [lra|].
  specialize (IH v Hv). pose proof (Qmult_le_0_compat _ _ Hx Hy). lra.
Qed.

Lemma dot_zeros_l k v : dot (zeros k) v == 0.
Proof.
  revert v. induction k as [|k IH]; intros v; simpl; [reflexivity|].
  destruct v as [|y v]; [reflexivity|]. unfold zeros in IH. rewrite IH. ring.
Qed.

Lemma dot_scale_l k a v : dot (map (Qmult k) a) v == k * dot a v.
Proof.
  revert v. induction a as [|x a IH]; intros [|y v]; simpl; try ring.
  rewrite IH. ring.
Qed.

Lemma dot_opp_l a v : dot (map Qopp a) v == - dot a v.
Proof.
  revert v. induction a as [|x a IH]; intros [|y v]; simpl; try ring.
  rewrite IH. ring.
Qed.

Lemma vadd_length a b : length a = length b -> length (vadd a b) = length a.
Proof.
  revert b. induction a as [|x a IH]; intros [|y b] H; simpl in *; try reflexivity; try discriminate.
  f_equal. apply IH. lia.
Qed.

Lemma dot_vadd_l a b v : length a = length b -> dot (vadd a b) v == dot a v + dot b v.
Proof.
  revert b v. induction a as [|x a IH]; intros [|y b] v H; simpl in *; try discriminate; try ring.
  destruct v as [|z v]; [ring|]. rewrite IH by lia. ring.
Qed.

Lemma dot_vadd_r a x r : length x = length r -> dot a (vadd x r) == dot a x + dot a r.
Proof.
  intro H. rewrite dot_comm, dot_vadd_l by exact H. rewrite (dot_comm x a), (dot_comm r a). reflexivity.
Qed.

Lemma dot_scale_r k a v : dot a (map (Qmult k) v) == k * dot a v.
Proof. rewrite dot_comm, dot_scale_l, dot_comm. reflexivity. Qed.

Lemma zeros_length k : length (zeros k) = k.
Proof. apply repeat_length. Qed.

Lemma vm_length n y A : Forall (fun r => length r = n) A -> length (vm n y A) = n.
Proof.
  intro HA. revert y. induction HA as [|r A Hr HA IH]; intros [|yi y]; simpl; try apply zeros_length.
  rewrite vadd_length; rewrite map_length; [exact Hr|]. rewrite IH. exact Hr.
Qed.

(* (A^T y) . x = y . (A x) *)
Lemma dot_vm n y A x : Forall (fun r => length r = n) A -> dot (vm n y A) x == dot y (mv A x).
Proof.
  intro HA. revert y. induction HA as [|r A Hr HA IH]; intros [|yi y]; simpl; try apply dot_zeros_l.
  rewrite dot_vadd_l.
  - rewrite dot_scale_l, IH. reflexivity.
  - rewrite map_length, vm_length by exact HA. exact Hr.
Qed.

Lemma dot_mono_r y u v : Forall (fun q => 0 <= q) y -> Forall2 Qle u v -> dot y u <= dot y v.
Proof.
  intros Hy. revert u v. induction Hy as [|yi y Hyi Hy IH]; intros u v Huv; simpl; [lra|].
  destruct Huv as [|a b u v Hab Huv]; [lra|].
  specialize (IH u v Huv). pose proof (Qmult_le_compat_r _ _ yi Hab Hyi). lra.
Qed.

Lemma Forall_Qle_weaken (lo lo' : Q) l : lo' <= lo -> Forall (fun v => lo <= v) l -> Forall (fun v => lo' <= v) l.
Proof. intros H. apply Forall_impl. intros a Ha. lra. Qed.

Lemma dims_ok_spec c A b : dims_ok c A b = true -> well_formed c A b.
Proof.
  unfold dims_ok, well_formed. intro H. apply andb_true_iff in H. destruct H as [H1 H2].
  split; [apply Nat.eqb_eq; exact H1|].
  apply Forall_forall. intros r Hr. rewrite forallb_forall in H2. apply Nat.eqb_eq. auto.
Qed.

Lemma weights_dot minimize c x :
  dot (weights minimize c) x == if minimize then dot c x else - dot c x.
Proof. destruct minimize; simpl; [reflexivity | apply dot_opp_l]. Qed.

Lemma weights_length minimize c : length (weights minimize c) = length c.
Proof. destruct minimize; simpl; [reflexivity | apply map_length]. Qed.

Lemma Forall2_impl' {A B} (P Q : A -> B -> Prop) l r :
  (forall a b, P a b -> Q a b) -> Forall2 P l r -> Forall2 Q l r.
Proof. intros H H2. induction H2; constructor; auto. Qed.
