(* solve_lp, exact arithmetic (eps = 0), every LP accepted by valid_lp, any iteration limit:
   OPTIMAL, INFEASIBLE and UNBOUNDED answers are sound; a verdict other than MAX_ITER is the true class of the LP. *)
From Coq Require Import List QArith Qabs Bool Arith Lia Lqa.
From SV Require Import C03.Simplex C03.LPSpec C03.Cert C03.LinAlgProofs C03.PivotProofs C03.Phase2Entries
  C03.Phase2Inv C03.ExtractProofs C03.OptimalProofs C03.DeepInv C03.DeepExtract C03.DeepArts C03.DeepAux
  C03.DeepDrive C03.DeepPhase1.
Import ListNotations.
Open Scope Q_scope.

Section Solve.
  Variables (minimize : bool) (c : list Q) (A : list (list Q)) (b : list Q).
  Hypothesis Hvalid : valid_lp c A b = true.

  Let n := length c.
  Let m := length b.
  Let N := (n + m)%nat.
  Let w := weights minimize c.
  Let T0 := init_tableau minimize c A b.
  Let basis0 := seq n m.

  Lemma S_rows_length : length (t_rows T0) = m.
  Proof. apply (T0_rows_length minimize c A b Hvalid). Qed.

  Lemma S_row k : (k < m)%nat ->
    nth k (t_rows T0) row0 = rnorm (scaled_row (nth k A []) ++ unit_vec m k, nth k b 0 / row_scale (nth k A [])).
  Proof. apply (T0_row minimize c A b Hvalid). Qed.

  Lemma S_wf : tab_wf N T0.
  Proof. apply (T0_wf minimize c A b Hvalid). Qed.

  Lemma S_basis_len : length basis0 = m.
  Proof. apply seq_length. Qed.

  Lemma S_basis_lt i : (i < m)%nat -> (nth i basis0 0 < N)%nat.
  Proof. intro Hi. unfold basis0. rewrite seq_nth by exact Hi. unfold N. lia. Qed.

  Lemma S_unit i k : (i < m)%nat -> (k < m)%nat ->
    get (fst (nth k (t_rows T0) row0)) (nth i basis0 0%nat) == if Nat.eqb k i then 1 else 0.
  Proof.
    intros Hi Hk. unfold basis0. rewrite seq_nth by exact Hi. rewrite S_row by exact Hk. rewrite get_rnorm. cbn [fst].
    replace n with (length (scaled_row (nth k A []))) by (rewrite scaled_row_length; apply (valid_rows c A b Hvalid k Hk)).
    rewrite get_app_r. rewrite get_unit_vec by exact Hi.
    rewrite Nat.eqb_sym. reflexivity.
  Qed.

  Lemma S_objc i : (i < m)%nat -> objc T0 (nth i basis0 0%nat) == 0.
  Proof.
    intro Hi. unfold basis0. rewrite seq_nth by exact Hi. unfold objc, T0, init_tableau. cbn [t_obj fst].
    replace n with (length (map Qred (scaled_row (if minimize then c else map Qopp c)))).
    - rewrite get_app_r. rewrite get_zeros. reflexivity.
    - rewrite map_length, scaled_row_length. destruct minimize; [reflexivity | apply map_length].
  Qed.

  Lemma S_str : g_str N T0 basis0.
  Proof.
    constructor.
    - apply S_wf.
    - rewrite S_basis_len, S_rows_length. reflexivity.
    - intros i k Hi _ Hk. rewrite S_basis_len in Hi. rewrite S_rows_length in Hk. unfold entry. apply S_unit; assumption.
    - intros i Hi Hge. rewrite S_basis_len in Hi. pose proof (S_basis_lt i Hi). lia.
    - intros i Hi. rewrite S_basis_len in Hi. apply S_objc. exact Hi.
  Qed.

  (* a non-negative solution of the start tableau is a feasible point with that objective value ... *)
  Lemma sol_feasible v z : length v = N -> Forall (fun q => 0 <= q) v -> tab_sat v z T0 ->
    feasible A b (firstn n v) /\ dot w (firstn n v) == row_scale w * z.
  Proof.
    intros Lv Hv Hs. set (x := firstn n v). set (s := skipn n v).
    assert (Ev : v = x ++ s) by (symmetry; apply firstn_skipn).
    assert (Lx : length x = n) by (unfold x; rewrite firstn_length; unfold N in Lv; lia).
    rewrite Ev in Hs, Hv. apply Forall_app in Hv. destruct Hv as [Hx Hsn].
    apply (T0_sat minimize c A b Hvalid) in Hs; [|exact Lx]. destruct Hs as [Hrows Hobj].
    split; [|exact Hobj]. split; [exact Hx|].
    pose proof (valid_len c A b Hvalid) as HlenA.
    apply Forall2_mv; [exact HlenA|]. intros k Hk. rewrite HlenA in Hk. specialize (Hrows k Hk).
    (* row equilibration: the slack of row k is rescaled by row_scale > 0 *)
    pose proof (Qmult_le_0_compat _ _ (Qlt_le_weak _ _ (row_scale_pos (nth k A []))) (get_nonneg s k Hsn)). lra.
  Qed.

  (* ... and every feasible point gives one *)
  Lemma feasible_sol y : feasible A b y ->
    exists v, length v = N /\ Forall (fun q => 0 <= q) v /\ tab_sat v (dot w y / row_scale w) T0.
  Proof.
    intros [Hyn Hyb].
    pose proof (valid_len c A b Hvalid) as HlenA.
    set (y' := firstn n (y ++ zeros n)).
    set (s' := map (fun k => (nth k b 0 - dot (nth k A []) y') / row_scale (nth k A [])) (seq 0 m)).
    assert (Ly : length y' = n) by (apply pad_length; lia).
    assert (Hrow_eq : forall k, (k < m)%nat -> dot (nth k A []) y' == dot (nth k A []) y).
    { intros k Hk. apply dot_pad; [|lia]. rewrite (valid_rows c A b Hvalid k Hk). fold n. lia. }
    exists (y' ++ s'). split; [|split].
    - rewrite app_length, Ly. unfold s'. rewrite map_length, seq_length. reflexivity.
    - apply Forall_app. split; [apply pad_nonneg; exact Hyn|].
      apply Forall_forall. intros q Hq. unfold s' in Hq. apply in_map_iff in Hq. destruct Hq as [k [Hq Hk]].
      apply in_seq in Hk. subst q. apply div_nonneg; [|apply row_scale_pos]. rewrite Hrow_eq by lia.
      pose proof (Forall2_mv_nth A b y k Hyb) as H. rewrite HlenA in H. specialize (H ltac:(lia)). lra.
    - apply (T0_sat minimize c A b Hvalid); [exact Ly|]. split.
      + intros k Hk. fold m in Hk. unfold s', get. rewrite nth_map_seq by exact Hk. cbn [Nat.add].
        pose proof (row_scale_pos (nth k A [])). field. lra.
      + (* the objective row is the weight vector divided by row_scale w > 0 *)
        fold w. rewrite mul_div_cancel by apply row_scale_pos.
        apply dot_pad; [|lia]. unfold w. rewrite weights_length. fold n. lia.
  Qed.

  (* ---- what the last _phase2 run proves, given the invariant and the equivalence with the start tableau *)
  Section Final.
    Variables (T4 : tableau) (basis4 : list nat).
    Hypothesis Hg4 : g_inv N T4 basis4.
    Hypothesis Heq4 : forall v z, length v = N -> (tab_sat v z T0 <-> tab_sat v z T4).
    Variables (fuel' : nat) (piv0 : list (nat * nat)) (st2 : lp_status) (it2 : nat) (T5 : tableau)
              (basis5 : list nat) (piv5 : list (nat * nat)) (k : nat).
    Hypothesis Hrun : phase2 0 fuel' 0 T4 basis4 piv0 = (st2, it2, T5, basis5, piv5).

    Let r := extract T5 basis5 n st2 k c piv5.

    Lemma final_point :
      feasible A b (r_solution r) /\ dot w (r_solution r) == row_scale w * - snd (t_obj T5)
      /\ r_objective r == dot c (r_solution r).
    Proof.
      destruct (phase2_ginv N _ _ _ _ _ _ _ _ _ _ Hg4 Hrun) as [[Hs5 Hr5] [Heq5 _]].
      set (v := bsol N T5 basis5).
      assert (Lv : length v = N) by apply bsol_length.
      assert (Hx : firstn n v = r_solution r).
      { unfold v, bsol, r, extract. cbn [r_solution]. rewrite firstn_extract_loop by (unfold N; lia).
        rewrite firstn_zeros by (unfold N; lia). reflexivity. }
      assert (Hsat : tab_sat v (- snd (t_obj T5)) T0).
      { apply (Heq4 _ _ Lv). apply Heq5. apply bsol_sat_g. exact Hs5. }
      destruct (sol_feasible v _ Lv (bsol_nonneg_g T5 N basis5 Hr5) Hsat) as [Hf Ho].
      rewrite Hx in Hf, Ho. split; [exact Hf|]. split; [exact Ho|].
      (* _extract reports c . x of the point it returns *)
      unfold r, extract. cbn [r_objective r_solution]. apply Qred_correct.
    Qed.

    Lemma final_optimal : st2 = OPTIMAL -> lp_optimal minimize c A b (r_solution r).
    Proof.
      intro Hst. destruct final_point as [Hf [Ho _]]. split; [exact Hf|].
      destruct (phase2_ginv N _ _ _ _ _ _ _ _ _ _ Hg4 Hrun) as [Hg5 [Heq5 [Hopt _]]].
      intros y Hy. destruct (feasible_sol y Hy) as [v [Lv [Hvn Hvs]]].
      apply (Heq4 _ _ Lv) in Hvs. apply Heq5 in Hvs.
      pose proof (optimal_lower_bound N T5 basis5 v _ Hg5 (Hopt Hst) Hvs Hvn) as Hlb.
      assert (Hwx : dot w (r_solution r) <= dot w y).
      { assert (Hz : - snd (t_obj T5) <= dot w y / row_scale w) by lra.
        pose proof (le_scale _ _ _ (row_scale_pos w) Hz). lra. }
      unfold w in Hwx. rewrite !weights_dot in Hwx. destruct minimize; lra.
    Qed.

    Lemma final_unbounded : st2 = UNBOUNDED -> lp_unbounded minimize c A b.
    Proof.
      intro Hst.
      destruct (phase2_ginv N _ _ _ _ _ _ _ _ _ _ Hg4 Hrun) as [Hg5 [Heq5 [_ [Hunb _]]]].
      destruct (Hunb Hst) as [e [He Hl]].
      intro M.
      destruct (unbounded_below N T5 basis5 e ((if minimize then M else - M) / row_scale w) Hg5 He Hl) as [v [z [Lv [Hvn [Hvs Hz]]]]].
      apply Heq5 in Hvs. apply (Heq4 _ _ Lv) in Hvs.
      destruct (sol_feasible v z Lv Hvn Hvs) as [Hf Ho].
      exists (firstn n v). split; [exact Hf|].
      pose proof (lt_scale _ _ _ (row_scale_pos w) Hz) as Hz'.
      unfold w in Ho, Hz'. rewrite weights_dot in Ho. destruct minimize; lra.
    Qed.
  End Final.

  (* ---- the run of solve_lp *)
  Lemma neg_row_exists : existsb (fun r : row => Qltb (snd r) (- 0)) (t_rows T0) = true ->
    exists k, (k < m)%nat /\ snd (nth k (t_rows T0) row0) < 0.
  Proof.
    intro E. apply existsb_exists in E. destruct E as [r [Hin Hlt]].
    apply (In_nth _ _ row0) in Hin. destruct Hin as [k [Hk Hr]]. rewrite S_rows_length in Hk.
    exists k. split; [exact Hk|]. rewrite Hr. apply Qltb_lt in Hlt. lra.
  Qed.

  Lemma no_neg_row : existsb (fun r : row => Qltb (snd r) (- 0)) (t_rows T0) = false -> rhs_nonneg T0.
  Proof.
    intros E k Hk. unfold rhs.
    destruct (Qlt_le_dec (snd (nth k (t_rows T0) row0)) 0) as [Hlt|Hge]; [|exact Hge]. exfalso.
    assert (Ht : existsb (fun r : row => Qltb (snd r) (- 0)) (t_rows T0) = true).
    { apply existsb_exists. exists (nth k (t_rows T0) row0). split; [apply nth_In; exact Hk|]. apply Qltb_lt. lra. }
    congruence.
  Qed.

  Definition run_ok (r : lp_result) : Prop :=
    exists T4 basis4 fuel' piv0 st2 it2 T5 basis5 piv5 k,
      g_inv N T4 basis4 /\ (forall v z, length v = N -> (tab_sat v z T0 <-> tab_sat v z T4))
      /\ phase2 0 fuel' 0 T4 basis4 piv0 = (st2, it2, T5, basis5, piv5)
      /\ r = extract T5 basis5 n st2 k c piv5.

  Lemma solve_lp_run fuel :
    let r := solve_lp 0 minimize fuel c A b in
    (r_status r = INFEASIBLE /\ lp_infeasible A b) \/ r_status r = MAX_ITER \/ run_ok r.
  Proof.
    cbv zeta. unfold solve_lp. cbv zeta. fold n m T0 basis0.
    match goal with |- context [existsb ?f ?l] => destruct (existsb f l) eqn:Eneg end.
    - (* phase 1 *)
      destruct (phase1 0 fuel m n T0 basis0) as [[[[st it1] T1] basis1] piv1] eqn:E1.
      destruct (phase1_spec n m T0 basis0 S_wf S_rows_length S_basis_len S_basis_lt S_unit (neg_row_exists Eneg)
                  fuel st it1 T1 basis1 piv1 E1) as [Hnu [Hopt Hinf]].
      destruct st.
      + (* OPTIMAL: second phase *)
        destruct (Hopt eq_refl) as [Hg1 Heq1].
        destruct (phase2 0 (fuel - it1) 0 T1 basis1 piv1) as [[[[st2 it2] T2] basis2] piv2] eqn:E2.
        right. right. exists T1, basis1, (fuel - it1)%nat, piv1, st2, it2, T2, basis2, piv2, (it1 + it2)%nat.
        split; [exact Hg1|]. split; [exact Heq1|]. split; [exact E2 | reflexivity].
      + left. cbn [r_status]. split; [reflexivity|].
        intros y Hy. destruct (feasible_sol y Hy) as [v [Lv [Hvn [Hrows _]]]].
        apply (Hinf eq_refl v Lv Hvn). exact Hrows.
      + congruence.
      + right. left. reflexivity.
    - (* no phase 1 *)
      destruct (phase2 0 fuel 0 T0 basis0 []) as [[[[st2 it2] T2] basis2] piv2] eqn:E2.
      right. right. exists T0, basis0, fuel, [], st2, it2, T2, basis2, piv2, it2.
      split; [split; [apply S_str | apply no_neg_row; exact Eneg]|]. split; [intros; tauto|].
      split; [exact E2 | reflexivity].
  Qed.

  Lemma extract_status T basis st k piv : r_status (extract T basis n st k c piv) = st.
  Proof. reflexivity. Qed.

  Theorem optimal_sound fuel r :
    solve_lp 0 minimize fuel c A b = r -> r_status r = OPTIMAL ->
    lp_optimal minimize c A b (r_solution r) /\ r_objective r == dot c (r_solution r).
  Proof.
    intros Hr Hst. pose proof (solve_lp_run fuel) as H. cbv zeta in H. rewrite Hr in H.
    destruct H as [[H _]|[H|H]]; try congruence.
    destruct H as [T4 [basis4 [fuel' [piv0 [st2 [it2 [T5 [basis5 [piv5 [k [Hg [Heq [Hrun Hext]]]]]]]]]]]]].
    rewrite Hext in Hst. rewrite Hext. rewrite extract_status in Hst. split.
    - apply (final_optimal T4 basis4 Hg Heq fuel' piv0 st2 it2 T5 basis5 piv5 k Hrun Hst).
    - apply (final_point T4 basis4 Hg Heq fuel' piv0 st2 it2 T5 basis5 piv5 k Hrun).
  Qed.

  Theorem infeasible_sound fuel r :
    solve_lp 0 minimize fuel c A b = r -> r_status r = INFEASIBLE -> lp_infeasible A b.
  Proof.
    intros Hr Hst. pose proof (solve_lp_run fuel) as H. cbv zeta in H. rewrite Hr in H.
    destruct H as [[_ H]|[H|H]]; [exact H | congruence |].
    destruct H as [T4 [basis4 [fuel' [piv0 [st2 [it2 [T5 [basis5 [piv5 [k [Hg [Heq [Hrun Hext]]]]]]]]]]]]].
    rewrite Hext in Hst. rewrite extract_status in Hst. subst st2.
    destruct (phase2_status _ _ _ _ _ _ _ _ _ _ Hrun) as [Hne _]. congruence.
  Qed.

  Theorem unbounded_sound fuel r :
    solve_lp 0 minimize fuel c A b = r -> r_status r = UNBOUNDED -> lp_unbounded minimize c A b.
  Proof.
    intros Hr Hst. pose proof (solve_lp_run fuel) as H. cbv zeta in H. rewrite Hr in H.
    destruct H as [[H _]|[H|H]]; try congruence.
    destruct H as [T4 [basis4 [fuel' [piv0 [st2 [it2 [T5 [basis5 [piv5 [k [Hg [Heq [Hrun Hext]]]]]]]]]]]]].
    rewrite Hext in Hst. rewrite extract_status in Hst.
    apply (final_unbounded T4 basis4 Hg Heq fuel' piv0 st2 it2 T5 basis5 piv5 Hrun Hst).
  Qed.

  (* whenever phase 2 is reached (any status, MAX_ITER included) the returned point is feasible *)
  Theorem point_feasible fuel r :
    solve_lp 0 minimize fuel c A b = r -> r_status r = OPTIMAL \/ r_status r = UNBOUNDED ->
    feasible A b (r_solution r) /\ r_objective r == dot c (r_solution r).
  Proof.
    intros Hr Hst. pose proof (solve_lp_run fuel) as H. cbv zeta in H. rewrite Hr in H.
    destruct H as [[H _]|[H|H]]; [destruct Hst; congruence | destruct Hst; congruence |].
    destruct H as [T4 [basis4 [fuel' [piv0 [st2 [it2 [T5 [basis5 [piv5 [k [Hg [Heq [Hrun Hext]]]]]]]]]]]]].
    rewrite Hext. destruct (final_point T4 basis4 Hg Heq fuel' piv0 st2 it2 T5 basis5 piv5 k Hrun) as [H1 [_ H2]].
    split; assumption.
  Qed.
End Solve.

(* ---- the three classes of an LP exclude each other, so a sound verdict is the true class *)
Definition lp_has_optimum (minimize : bool) (c : list Q) (A : list (list Q)) (b : list Q) : Prop :=
  exists x, lp_optimal minimize c A b x.

Lemma optimum_not_infeasible minimize c A b : lp_has_optimum minimize c A b -> ~ lp_infeasible A b.
Proof. intros [x [Hf _]] Hi. apply (Hi x Hf). Qed.

Lemma optimum_not_unbounded minimize c A b : lp_has_optimum minimize c A b -> ~ lp_unbounded minimize c A b.
Proof.
  intros [x [Hf Hopt]] Hu. destruct (Hu (dot c x)) as [y [Hy Hlt]]. specialize (Hopt y Hy).
  destruct minimize; lra.
Qed.

Lemma unbounded_not_infeasible minimize c A b : lp_unbounded minimize c A b -> ~ lp_infeasible A b.
Proof. intros Hu Hi. destruct (Hu 0) as [y [Hy _]]. apply (Hi y Hy). Qed.

Theorem verdicts_exclusive_exact minimize fuel c A b r :
  valid_lp c A b = true ->
  solve_lp 0 minimize fuel c A b = r -> r_status r <> MAX_ITER ->
  (r_status r = OPTIMAL <-> lp_has_optimum minimize c A b)
  /\ (r_status r = INFEASIBLE <-> lp_infeasible A b)
  /\ (r_status r = UNBOUNDED <-> lp_unbounded minimize c A b).
Proof.
  intros Hvalid Hr Hne.
  pose proof (optimal_sound minimize c A b Hvalid fuel r Hr) as Ho.
  pose proof (infeasible_sound minimize c A b Hvalid fuel r Hr) as Hi.
  pose proof (unbounded_sound minimize c A b Hvalid fuel r Hr) as Hu.
  assert (Ho' : r_status r = OPTIMAL -> lp_has_optimum minimize c A b).
  { intro H. exists (r_solution r). apply (Ho H). }
  split; [|split]; split; try assumption; intro H.
  - destruct (r_status r); try reflexivity; try congruence.
    + exfalso. apply (optimum_not_infeasible _ _ _ _ H). apply Hi. reflexivity.
    + exfalso. apply (optimum_not_unbounded _ _ _ _ H). apply Hu. reflexivity.
  - destruct (r_status r); try reflexivity; try congruence.
    + exfalso. apply (optimum_not_infeasible _ _ _ _ (Ho' eq_refl)). exact H.
    + exfalso. apply (unbounded_not_infeasible _ _ _ _ (Hu eq_refl)). exact H.
  - destruct (r_status r); try reflexivity; try congruence.
    + exfalso. apply (optimum_not_unbounded _ _ _ _ (Ho' eq_refl)). exact H.
    + exfalso. apply (unbounded_not_infeasible _ _ _ _ H). apply Hi. reflexivity.
Qed.

(* ---- the statements in the argument order of coq/Props/C03.v (C03_*_full_statement) *)
Theorem optimal_sound_all : forall minimize fuel c A b r,
  valid_lp c A b = true ->
  solve_lp 0 minimize fuel c A b = r -> r_status r = OPTIMAL ->
  lp_optimal minimize c A b (r_solution r) /\ r_objective r == dot c (r_solution r).
Proof. intros minimize fuel c A b r Hv. apply optimal_sound. exact Hv. Qed.

Theorem infeasible_sound_all : forall minimize fuel c A b r,
  valid_lp c A b = true ->
  solve_lp 0 minimize fuel c A b = r -> r_status r = INFEASIBLE -> lp_infeasible A b.
Proof. intros minimize fuel c A b r Hv. apply infeasible_sound. exact Hv. Qed.

Theorem unbounded_sound_all : forall minimize fuel c A b r,
  valid_lp c A b = true ->
  solve_lp 0 minimize fuel c A b = r -> r_status r = UNBOUNDED -> lp_unbounded minimize c A b.
Proof. intros minimize fuel c A b r Hv. apply unbounded_sound. exact Hv. Qed.

Theorem point_feasible_all : forall minimize fuel c A b r,
  valid_lp c A b = true ->
  solve_lp 0 minimize fuel c A b = r -> r_status r = OPTIMAL \/ r_status r = UNBOUNDED ->
  feasible A b (r_solution r) /\ r_objective r == dot c (r_solution r).
Proof. intros minimize fuel c A b r Hv. apply point_feasible. exact Hv. Qed.
