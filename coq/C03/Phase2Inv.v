(* phase2_inv: with exact arithmetic, every pivot chosen by _phase2 (Bland entering column, ratio
   test) preserves "basic columns are unit columns, reduced cost 0 on basic columns, rhs >= 0",
   and the solution set of the tableau; so these hold for whatever tableau _phase2 returns. *)
From Coq Require Import List QArith Qabs Bool Arith Lia Lqa.
From SV Require Import C03.Simplex C03.LPSpec C03.Cert C03.LinAlgProofs C03.PivotProofs C03.Phase2Entries.
Import ListNotations.
Open Scope Q_scope.

Definition entry (T : tableau) (k j : nat) : Q := get (fst (nth k (t_rows T) row0)) j.
Definition rhs (T : tableau) (k : nat) : Q := snd (nth k (t_rows T) row0).
Definition objc (T : tableau) (j : nat) : Q := get (fst (t_obj T)) j.

Record p2_inv (N : nat) (T : tableau) (basis : list nat) : Prop := mk_p2_inv {
  inv_wf : tab_wf N T;
  inv_len : length basis = length (t_rows T);
  inv_lt : forall i, (i < length basis)%nat -> (nth i basis 0 < N)%nat;
  inv_unit : forall i k, (i < length basis)%nat -> (k < length (t_rows T))%nat ->
             entry T k (nth i basis 0%nat) == if Nat.eqb k i then 1 else 0;
  inv_obj : forall i, (i < length basis)%nat -> objc T (nth i basis 0%nat) == 0;
  inv_rhs : forall k, (k < length (t_rows T))%nat -> 0 <= rhs T k
}.

Lemma set_nth_length {A} i (v : A) l : length (set_nth i v l) = length l.
Proof. revert i. induction l as [|x l IH]; intros [|i]; simpl; try reflexivity. f_equal. apply IH. Qed.

Lemma set_nth_same {A} i (v : A) l d : (i < length l)%nat -> nth i (set_nth i v l) d = v.
Proof.
  revert i. induction l as [|x l IH]; intros [|i] H; simpl in *; try lia; try reflexivity. apply IH. lia.
Qed.

Lemma set_nth_other {A} i k (v : A) l d : k <> i -> nth k (set_nth i v l) d = nth k l d.
Proof.
  revert i k. induction l as [|x l IH]; intros [|i] [|k] H; simpl; try reflexivity; try lia.
  apply IH. lia.
Qed.

Lemma mem_nat_false e l i : mem_nat e l = false -> (i < length l)%nat -> nth i l 0%nat <> e.
Proof.
  unfold mem_nat. intros H Hi Heq.
  assert (existsb (Nat.eqb e) l = true).
  { apply existsb_exists. exists (nth i l 0%nat). split; [apply nth_In; exact Hi|]. apply Nat.eqb_eq. auto. }
  congruence.
Qed.

(* ---- entries after the pivot *)
Section PivotEntries.
  Variables (N : nat) (T : tableau) (l e : nat).
  Hypothesis Hwf : tab_wf N T.
  Hypothesis Hl : (l < length (t_rows T))%nat.

  Let q (j : nat) : Q := entry T l j * / entry T l e.

  Lemma row_len k : (k < length (t_rows T))%nat -> length (fst (nth k (t_rows T) row0)) = N.
  Proof. intro Hk. destruct Hwf as [H _]. rewrite Forall_forall in H. apply H. apply nth_In. exact Hk. Qed.

  Lemma entry_pivot_l j : entry (pivot 0 T l e) l j == q j.
  Proof.
    unfold entry. rewrite pivot0_unfold. simpl. rewrite (mapi_nth _ _ l row0 row0) by exact Hl.
    rewrite Nat.eqb_refl. apply get_prow.
  Qed.

  Lemma entry_pivot_other k j : (k < length (t_rows T))%nat -> k <> l ->
    entry (pivot 0 T l e) k j == entry T k j - entry T k e * q j.
  Proof.
    intros Hk Hne. unfold entry. rewrite pivot0_unfold. simpl. rewrite (mapi_nth _ _ k row0 row0) by exact Hk.
    apply Nat.eqb_neq in Hne. rewrite Hne.
    rewrite get_elim_row by (rewrite prow_length, !row_len by assumption; reflexivity).
    rewrite get_prow. reflexivity.
  Qed.

  Lemma rhs_pivot_l : rhs (pivot 0 T l e) l == rhs T l * / entry T l e.
  Proof.
    unfold rhs. rewrite pivot0_unfold. simpl. rewrite (mapi_nth _ _ l row0 row0) by exact Hl.
    rewrite Nat.eqb_refl. apply snd_prow.
  Qed.

  Lemma rhs_pivot_other k : (k < length (t_rows T))%nat -> k <> l ->
    rhs (pivot 0 T l e) k == rhs T k - entry T k e * (rhs T l * / entry T l e).
  Proof.
    intros Hk Hne. unfold rhs. rewrite pivot0_unfold. simpl. rewrite (mapi_nth _ _ k row0 row0) by exact Hk.
    apply Nat.eqb_neq in Hne. rewrite Hne. rewrite snd_elim_row, snd_prow. reflexivity.
  Qed.

  Lemma objc_pivot j : objc (pivot 0 T l e) j == objc T j - objc T e * q j.
  Proof.
    unfold objc. rewrite pivot0_unfold. simpl.
    rewrite get_elim_row by (rewrite prow_length, row_len by assumption; destruct Hwf as [_ H]; rewrite H; reflexivity).
    rewrite get_prow. reflexivity.
  Qed.
End PivotEntries.

(* ---- one iteration of the loop of _phase2 *)
Lemma p2_step N T basis e l :
  p2_inv N T basis -> find_enter 0 basis T = Some e -> find_leave 0 basis T e = Some l ->
  p2_inv N (pivot 0 T l e) (set_nth l e basis).
Proof.
  intros [Hwf Hlen Hlt Hunit Hobj Hrhs] He Hlv.
  apply find_enter_some in He. destruct He as [HeN [Hmem Hneg]].
  destruct Hwf as [Hwr Hwo]. rewrite Hwo in HeN.
  apply find_leave_some in Hlv. destruct Hlv as [Hl [Hpv Hmin]].
  fold (entry T l e) in Hpv.
  assert (Hwf : tab_wf N T) by (split; assumption).
  assert (Hpv0 : ~ entry T l e == 0) by lra.
  constructor.
  - apply pivot0_wf; assumption.
  - rewrite set_nth_length, pivot0_rows_length. exact Hlen.
  - intros i Hi. rewrite set_nth_length in Hi. destruct (Nat.eq_dec i l) as [->|Hne].
    + rewrite set_nth_same by lia. exact HeN.
    + rewrite set_nth_other by exact Hne. apply Hlt. exact Hi.
  - intros i k Hi Hk. rewrite set_nth_length in Hi. rewrite pivot0_rows_length in Hk.
    destruct (Nat.eq_dec i l) as [->|Hne].
    + rewrite set_nth_same by lia. destruct (Nat.eq_dec k l) as [->|Hkl].
      * rewrite Nat.eqb_refl, (entry_pivot_l T l e Hl). field. exact Hpv0.
      * rewrite (entry_pivot_other N T l e Hwf Hl) by assumption. apply Nat.eqb_neq in Hkl. rewrite Hkl. field. exact Hpv0.
    + rewrite set_nth_other by exact Hne.
      pose proof (Hunit i l Hi Hl) as Hli. assert (El : Nat.eqb l i = false) by (apply Nat.eqb_neq; lia).
      rewrite El in Hli.
      destruct (Nat.eq_dec k l) as [->|Hkl].
      * rewrite (entry_pivot_l T l e Hl). rewrite El, Hli. ring.
      * rewrite (entry_pivot_other N T l e Hwf Hl) by assumption. rewrite Hli, (Hunit i k Hi Hk). ring.
  - intros i Hi. rewrite set_nth_length in Hi. rewrite (objc_pivot N T l e Hwf Hl).
    destruct (Nat.eq_dec i l) as [->|Hne].
    + rewrite set_nth_same by lia. field. exact Hpv0.
    + rewrite set_nth_other by exact Hne.
      pose proof (Hunit i l Hi Hl) as Hli. assert (El : Nat.eqb l i = false) by (apply Nat.eqb_neq; lia).
      rewrite El in Hli. rewrite Hli, (Hobj i Hi). ring.
  - intros k Hk. rewrite pivot0_rows_length in Hk.
    assert (Hq : 0 <= rhs T l * / entry T l e).
    { apply Qmult_le_0_compat; [apply Hrhs; exact Hl|]. apply Qlt_le_weak. apply Qinv_lt_0_compat. exact Hpv. }
    destruct (Nat.eq_dec k l) as [->|Hkl].
    + rewrite (rhs_pivot_l T l e Hl). exact Hq.
    + rewrite (rhs_pivot_other T l e k) by assumption.
      destruct (Qlt_le_dec 0 (entry T k e)) as [Hpos|Hnp].
      * specialize (Hmin k Hk Hpos). unfold ratio_of in Hmin. fold (rhs T l) (rhs T k) (entry T l e) (entry T k e) in Hmin.
        unfold Qdiv in Hmin.
        assert (H1 : entry T k e * (rhs T l * / entry T l e) <= entry T k e * (rhs T k * / entry T k e))
          by (apply Qmult_le_l; assumption).
        assert (H2 : entry T k e * (rhs T k * / entry T k e) == rhs T k) by (field; lra).
        lra.
      * assert (entry T k e * (rhs T l * / entry T l e) <= 0).
        { setoid_replace 0 with (0 * (rhs T l * / entry T l e)) by ring.
          apply Qmult_le_compat_r; assumption. }
        specialize (Hrhs k Hk). lra.
Qed.

(* a pivot chosen by the loop does not change the solution set *)
Lemma p2_step_equiv N T basis e l v z :
  p2_inv N T basis -> find_leave 0 basis T e = Some l ->
  (tab_sat v z T <-> tab_sat v z (pivot 0 T l e)).
Proof.
  intros Hinv Hlv. apply find_leave_some in Hlv. destruct Hlv as [Hl [Hpv _]].
  apply (pivot_equiv N); [apply (inv_wf _ _ _ Hinv) | exact Hl | lra].
Qed.

(* ---- the whole loop *)
Theorem phase2_inv N fuel it T basis piv st it' T' basis' piv' :
  p2_inv N T basis ->
  phase2 0 fuel it T basis piv = (st, it', T', basis', piv') ->
  p2_inv N T' basis'
  /\ (forall v z, tab_sat v z T <-> tab_sat v z T')
  /\ (st = OPTIMAL -> find_enter 0 basis' T' = None)
  /\ (st = UNBOUNDED -> exists e, find_enter 0 basis' T' = Some e /\ find_leave 0 basis' T' e = None).
Proof.
  revert it T basis piv. induction fuel as [|fuel IH]; intros it T basis piv Hinv H; simpl in H.
  - inversion H; subst. split; [exact Hinv|]. split; [intros; tauto|]. split; intro; discriminate.
  - destruct (find_enter 0 basis T) as [e|] eqn:He.
    + destruct (find_leave 0 basis T e) as [l|] eqn:Hl.
      * pose proof (p2_step N T basis e l Hinv He Hl) as Hinv'.
        destruct (IH _ _ _ _ Hinv' H) as [H1 [H2 [H3 H4]]].
        split; [exact H1|]. split; [|split; assumption].
        intros v z. rewrite (p2_step_equiv N T basis e l v z Hinv Hl). apply H2.
      * inversion H; subst. split; [exact Hinv|]. split; [intros; tauto|]. split; [intro; discriminate|].
        intros _. exists e. split; assumption.
    + inversion H; subst. split; [exact Hinv|]. split; [intros; tauto|]. split; [intros _; exact He|].
      intro; discriminate.
Qed.
