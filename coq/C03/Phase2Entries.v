(* Entry-wise description of the exact pivot (eps = 0) and the specifications of the entering /
   leaving choices of _phase2.  Lemmas only. *)
From Coq Require Import List QArith Qabs Bool Arith Lia Lqa.
From SV Require Import C03.Simplex C03.LPSpec C03.Cert C03.LinAlgProofs C03.PivotProofs.
Import ListNotations.
Open Scope Q_scope.

Lemma get_nil j : get [] j = 0.
Proof. unfold get. destruct j; reflexivity. Qed.

Lemma get_map f l j : f 0 == 0 -> get (map f l) j == f (get l j).
Proof.
  intro H0. unfold get. revert j. induction l as [|x l IH]; intros j; simpl.
  - destruct j; symmetry; exact H0.
  - destruct j; [reflexivity | apply IH].
Qed.

Lemma get_vsubmul f a p j : length p = length a ->
  get (vsubmul f a p) j == get a j - f * get p j.
Proof.
  unfold get. revert p j. induction a as [|x a IH]; intros p j H.
  - destruct p; [|discriminate]. destruct j; simpl; ring.
  - destruct p as [|y p]; [discriminate|]. simpl in H. destruct j; simpl; [ring|]. apply IH. lia.
Qed.

Lemma get_rnorm r j : get (fst (rnorm r)) j == get (fst r) j.
Proof. unfold rnorm. simpl. rewrite get_map by reflexivity. apply Qred_correct. Qed.

Lemma snd_rnorm r : snd (rnorm r) == snd r.
Proof. unfold rnorm. simpl. apply Qred_correct. Qed.

Lemma get_rscale k r j : get (fst (rscale k r)) j == get (fst r) j * k.
Proof. unfold rscale. simpl. rewrite (get_map (fun a => a * k)) by ring. reflexivity. Qed.

(* entries of an eliminated row:  x_j - x_c * p_j  (whether or not the code skips a zero factor) *)
Lemma get_elim_row c p x j : length (fst p) = length (fst x) ->
  get (fst (elim_row 0 c p x)) j == get (fst x) j - get (fst x) c * get (fst p) j.
Proof.
  intro Hl. unfold elim_row. destruct (Qltb 0 (Qabs (get (fst x) c))) eqn:E.
  - rewrite get_rnorm. unfold rsubmul. simpl. apply get_vsubmul. exact Hl.
  - apply Qabs_pos_false in E. rewrite E. ring.
Qed.

Lemma snd_elim_row c p x :
  snd (elim_row 0 c p x) == snd x - get (fst x) c * snd p.
Proof.
  unfold elim_row. destruct (Qltb 0 (Qabs (get (fst x) c))) eqn:E.
  - rewrite snd_rnorm. reflexivity.
  - apply Qabs_pos_false in E. rewrite E. ring.
Qed.

Lemma get_prow T r c j :
  get (fst (prow_of T r c)) j
  == get (fst (nth r (t_rows T) row0)) j * / get (fst (nth r (t_rows T) row0)) c.
Proof. unfold prow_of. cbv zeta. rewrite get_rnorm, get_rscale. reflexivity. Qed.

Lemma snd_prow T r c :
  snd (prow_of T r c) == snd (nth r (t_rows T) row0) * / get (fst (nth r (t_rows T) row0)) c.
Proof. unfold prow_of. cbv zeta. rewrite snd_rnorm. reflexivity. Qed.

(* ---- entering column *)
Lemma find_enter_from_some basis j oc e :
  find_enter_from 0 basis j oc = Some e ->
  (j <= e < j + length oc)%nat /\ mem_nat e basis = false /\ nth (e - j) oc 0 < 0.
Proof.
  revert j. induction oc as [|x oc IH]; intros j H; simpl in H; [discriminate|].
  destruct (negb (mem_nat j basis) && Qltb x (- 0)) eqn:E.
  - inversion H; subst. apply andb_true_iff in E. destruct E as [E1 E2].
    apply negb_true_iff in E1. apply Qltb_lt in E2. rewrite Nat.sub_diag. simpl.
    repeat split; [lia | lia | exact E1 | lra].
  - apply IH in H. destruct H as [H1 [H2 H3]]. simpl. repeat split; try lia; try assumption.
    replace (e - j)%nat with (S (e - S j)) by lia. exact H3.
Qed.

Lemma find_enter_from_none basis j oc :
  find_enter_from 0 basis j oc = None ->
  forall i, (i < length oc)%nat -> mem_nat (j + i) basis = true \/ 0 <= nth i oc 0.
Proof.
  revert j. induction oc as [|x oc IH]; intros j H i Hi; simpl in *; [lia|].
  destruct (negb (mem_nat j basis) && Qltb x (- 0)) eqn:E; [discriminate|].
  destruct i as [|i].
  - rewrite Nat.add_0_r. apply andb_false_iff in E. destruct E as [E|E].
    + left. apply negb_false_iff in E. exact E.
    + right. apply Qltb_false in E. lra.
  - replace (j + S i)%nat with (S j + i)%nat by lia. apply IH; [exact H | lia].
Qed.

Lemma find_enter_some basis T e :
  find_enter 0 basis T = Some e ->
  (e < length (fst (t_obj T)))%nat /\ mem_nat e basis = false /\ get (fst (t_obj T)) e < 0.
Proof.
  unfold find_enter. intro H. apply find_enter_from_some in H. destruct H as [H1 [H2 H3]].
  rewrite Nat.sub_0_r in H3. repeat split; [lia | exact H2 | exact H3].
Qed.

Lemma find_enter_none basis T :
  find_enter 0 basis T = None ->
  forall j, (j < length (fst (t_obj T)))%nat -> mem_nat j basis = true \/ 0 <= get (fst (t_obj T)) j.
Proof. unfold find_enter. intros H j Hj. apply (find_enter_from_none basis 0 _ H j Hj). Qed.

(* ---- leaving row: the ratio test returns a row with positive entry and minimal ratio *)
Definition ratio_of (e : nat) (r : row) : Q := snd r / get (fst r) e.

(* state of the loop: either nothing chosen yet, or (leave, min_ratio) with min_ratio the ratio of
   row `leave`, which is a lower bound of the ratios of all rows seen so far with positive entry *)
Definition ratio_inv (e : nat) (rows : list row) (seen : nat) (st : option nat * option Q) : Prop :=
  match st with
  | (None, None) => forall k, (k < seen)%nat -> get (fst (nth k rows row0)) e <= 0
  | (Some l, Some mr) =>
      (l < seen)%nat /\ 0 < get (fst (nth l rows row0)) e /\ mr == ratio_of e (nth l rows row0) /\
      forall k, (k < seen)%nat -> 0 < get (fst (nth k rows row0)) e -> mr <= ratio_of e (nth k rows row0)
  | _ => False
  end.

Lemma Qabs_le0 d : Qleb (Qabs d) 0 = true -> d == 0.
Proof.
  intro H. apply Qleb_le in H. apply Qabs_Qle_condition in H. lra.
Qed.

Lemma ratio_step_inv basis e rows i st :
  (i < length rows)%nat -> ratio_inv e rows i st ->
  ratio_inv e rows (S i) (ratio_step 0 basis e i (nth i rows row0) st).
Proof.
  intros Hi Hinv. unfold ratio_step. destruct st as [leave minr]. unfold ratio_inv in Hinv.
  set (r := nth i rows row0) in *.
  destruct (Qltb 0 (get (fst r) e)) eqn:Epos.
  - apply Qltb_lt in Epos.
    assert (Hred : Qred (snd r / get (fst r) e) == ratio_of e r) by (apply Qred_correct).
    destruct minr as [mr|].
    + destruct leave as [l|]; [|destruct Hinv].
      destruct Hinv as [Hl [Hlp [Hmr Hmin]]].
      destruct (Qltb (Qred (snd r / get (fst r) e)) (mr - 0)) eqn:E1.
      * apply Qltb_lt in E1. unfold ratio_inv. repeat split; [lia | exact Epos | exact Hred |].
        intros k Hk Hkp. destruct (Nat.eq_dec k i) as [->|Hne]; [fold r; lra|].
        specialize (Hmin k). assert (k < i)%nat by lia. specialize (Hmin H Hkp). lra.
      * apply Qltb_false in E1.
        destruct (Qleb (Qabs (Qred (snd r / get (fst r) e) - mr)) 0) eqn:E2.
        -- apply Qabs_le0 in E2.
           assert (Hsame : mr == ratio_of e r) by lra.
           assert (Hmin' : forall k, (k < S i)%nat -> 0 < get (fst (nth k rows row0)) e ->
                                     mr <= ratio_of e (nth k rows row0)).
           { intros k Hk Hkp. destruct (Nat.eq_dec k i) as [->|Hne]; [fold r; lra|].
             apply Hmin; [lia | exact Hkp]. }
           destruct (Nat.ltb (nth i basis 0%nat) (nth l basis 0%nat)); unfold ratio_inv.
           ++ repeat split; [lia | exact Epos | exact Hsame | exact Hmin'].
           ++ repeat split; [lia | exact Hlp | exact Hmr | exact Hmin'].
        -- unfold ratio_inv. repeat split; [lia | exact Hlp | exact Hmr |].
           intros k Hk Hkp. destruct (Nat.eq_dec k i) as [->|Hne]; [fold r; lra|].
           apply Hmin; [lia | exact Hkp].
    + destruct leave as [l|]; [destruct Hinv|]. unfold ratio_inv.
      repeat split; [lia | exact Epos | exact Hred |].
      intros k Hk Hkp. destruct (Nat.eq_dec k i) as [->|Hne]; [fold r; lra|].
      specialize (Hinv k). assert (k < i)%nat by lia. specialize (Hinv H). lra.
  - apply Qltb_false in Epos. destruct leave as [l|]; destruct minr as [mr|]; unfold ratio_inv; try contradiction.
    + destruct Hinv as [Hl [Hlp [Hmr Hmin]]]. repeat split; [lia | exact Hlp | exact Hmr |].
      intros k Hk Hkp. destruct (Nat.eq_dec k i) as [->|Hne]; [fold r in Hkp; lra|].
      apply Hmin; [lia | exact Hkp].
    + intros k Hk. destruct (Nat.eq_dec k i) as [->|Hne]; [fold r; exact Epos|]. apply Hinv. lia.
Qed.

Lemma ratio_loop_inv basis e all rows i st :
  (i + length rows = length all)%nat -> (forall k, (k < length rows)%nat -> nth k rows row0 = nth (i + k) all row0) ->
  ratio_inv e all i st ->
  ratio_inv e all (length all) (ratio_loop 0 basis e i rows st).
Proof.
  revert i st. induction rows as [|r rows IH]; intros i st Hlen Hnth Hinv; simpl in *.
  - replace (length all) with i by lia. exact Hinv.
  - apply IH.
    + lia.
    + intros k Hk. specialize (Hnth (S k)). simpl in Hnth. rewrite Hnth by lia. f_equal. lia.
    + pose proof (Hnth 0%nat) as H0. simpl in H0. rewrite Nat.add_0_r in H0. rewrite H0 by lia.
      apply ratio_step_inv; [lia | exact Hinv].
Qed.

Lemma find_leave_some basis T e l :
  find_leave 0 basis T e = Some l ->
  (l < length (t_rows T))%nat /\ 0 < get (fst (nth l (t_rows T) row0)) e /\
  forall k, (k < length (t_rows T))%nat -> 0 < get (fst (nth k (t_rows T) row0)) e ->
            ratio_of e (nth l (t_rows T) row0) <= ratio_of e (nth k (t_rows T) row0).
Proof.
  unfold find_leave. intro H.
  pose proof (ratio_loop_inv basis e (t_rows T) (t_rows T) 0 (None, None)) as Hinv.
  assert (ratio_inv e (t_rows T) (length (t_rows T)) (ratio_loop 0 basis e 0 (t_rows T) (None, None))).
  { apply Hinv; [reflexivity | intros; reflexivity | simpl; intros; lia]. }
  destruct (ratio_loop 0 basis e 0 (t_rows T) (None, None)) as [lv mr]. simpl in H. subst lv.
  destruct mr as [mr|]; [|destruct H0]. destruct H0 as [H1 [H2 [H3 H4]]].
  repeat split; [exact H1 | exact H2 |]. intros k Hk Hkp. specialize (H4 k Hk Hkp). lra.
Qed.
