(* Model of the convergence test of solvor/interior_point.py (solve_lp_interior, lines 86-111).
   Shape O: the Newton / Cholesky step is NOT modelled; the harness captures the final iterate
   (x, y, z) of the real run and this file only transliterates the test that lets the code answer
   OPTIMAL.  Definitions only.

   The code works on the standard form  [A | I] (x, s) = b,  c_ext = (w, 0)  (w = c or -c):
       rb = A_aug x - b                      -> rb_i  = A_i . xs + s_i - b_i
       rc = A_aug' y + z - c_ext             -> rcx_j = (A' y)_j + zx_j - w_j ,  rcs_i = y_i + zs_i
       mu = sum(x_j z_j) / n_total
       OPTIMAL  iff  sqrt(sum rb^2) < eps and sqrt(sum rc^2) < eps and mu < eps
   (xs, ss) / (zx, zs) are the structural / slack parts of the code's x / z.  sqrt(S) < eps is
   written  S < eps^2  (eps > 0).  Positivity of x and z is an invariant of the code's loop (start
   at 1 / >= 1, every update is max(eps, .)); the gate re-checks it on the captured iterate. *)
From Coq Require Import List QArith Qabs Bool Arith.
From SV Require Import C03.Simplex C03.LPSpec C03.Cert.
Import ListNotations.
Open Scope Q_scope.

Fixpoint vsub (a b : list Q) : list Q :=
  match a, b with
  | x :: a', y :: b' => (x - y) :: vsub a' b'
  | _, _ => []
  end.

Definition sumsq (l : list Q) : Q := fold_right (fun v acc => v * v + acc) 0 l.
Definition norm1 (l : list Q) : Q := fold_right (fun v acc => Qabs v + acc) 0 l.

Definition res_b (A : list (list Q)) (b xs ss : list Q) : list Q := vsub (vadd (mv A xs) ss) b.
Definition res_cx (w : list Q) (A : list (list Q)) (y zx : list Q) : list Q :=
  vsub (vadd (vm (length w) y A) zx) w.
Definition res_cs (y zs : list Q) : list Q := vadd y zs.

Definition nat_Q (k : nat) : Q := inject_Z (Z.of_nat k).

Definition mu_of (xs ss zx zs : list Q) : Q :=
  (dot xs zx + dot ss zs) / nat_Q (length xs + length ss).

Definition gate (eps : Q) (A : list (list Q)) (b w xs ss y zx zs : list Q) : bool :=
  let n := length w in
  let m := length b in
  dims_ok w A b
  && Nat.eqb (length xs) n && Nat.eqb (length zx) n
  && Nat.eqb (length ss) m && Nat.eqb (length zs) m && Nat.eqb (length y) m
  && negb (Nat.eqb (n + m) 0)
  && Qltb 0 eps
  && all_ge 0 xs && all_ge 0 ss && all_ge 0 zx && all_ge 0 zs
  && Qltb (sumsq (res_b A b xs ss)) (eps * eps)
  && Qltb (sumsq (res_cx w A y zx) + sumsq (res_cs y zs)) (eps * eps)
  && Qltb (mu_of xs ss zx zs) eps.

(* the explicit duality-gap bound of C03_ipm_gate: for a feasible x* with slack s* = b - A x*,
   w.xs - w.x*  <=  eps * (|y|_1 + (n+m) + |xs|_1 + |ss|_1 + |x*|_1 + |s*|_1) *)
Definition gap_bound (eps : Q) (A : list (list Q)) (b xs ss y xstar : list Q) : Q :=
  eps * (norm1 y + nat_Q (length xs + length ss) + norm1 xs + norm1 ss
         + norm1 xstar + norm1 (vsub b (mv A xstar))).

(* one captured run of solve_lp_interior that answered OPTIMAL *)
Record ipm_case := mkI {
  i_eps : Q; i_A : list (list Q); i_b : list Q; i_w : list Q;
  i_xs : list Q; i_ss : list Q; i_y : list Q; i_zx : list Q; i_zs : list Q
}.

Definition gate_case (k : ipm_case) : bool :=
  gate (i_eps k) (i_A k) (i_b k) (i_w k) (i_xs k) (i_ss k) (i_y k) (i_zx k) (i_zs k).
